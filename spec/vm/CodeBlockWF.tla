----------------------------- MODULE CodeBlockWF -----------------------------
(***************************************************************************)
(* C03 -- every compiled code block is well-formed on all of its paths.    *)
(*                                                                         *)
(* The constant of this specification is a dump of what boa's compiler     *)
(* really produced (hook `CodeBlock::verif_dump`, one compilation per      *)
(* line of the ndjson file named by the environment variable DUMP): for    *)
(* each code block its register count, tables (constants with kinds,       *)
(* binding locators, inline caches, handlers) and the decoded instruction  *)
(* list with named operands.  `comp \in 1..N` is chosen in Init, so one    *)
(* TLC run checks many compilations.                                       *)
(*                                                                         *)
(* The specification is an abstract interpreter over the control-flow      *)
(* graph of each block.  An abstract state is (instruction, env, bind,     *)
(* args):                                                                  *)
(*   env   length of the environment chain above the frame's env_fp,       *)
(*   bind  length of the frame's binding-reference stack,                  *)
(*   args  length of the value stack above the register file.              *)
(* `OpTable` (module CodeBlockOps, generated from the engine source) gives *)
(* for every opcode the role of each operand and the abstract effect.      *)
(* `seen` records the depths with which each instruction was first         *)
(* reached; every later arrival must agree (paths merge).  Exceptional     *)
(* edges go from every instruction that can raise inside [start,end) of    *)
(* the innermost handler (the VM searches the handler list from the back)  *)
(* to the handler address, with env := handler.environment_count.          *)
(*                                                                         *)
(* Every condition of the property is a named predicate; a failing         *)
(* predicate adds a record to `viol` and the interpretation continues      *)
(* with the intended depths, so that one run reports all failures of all   *)
(* compilations (the driver classifies them; `Clean` as an INVARIANT stops *)
(* at the first one and gives a TLC counterexample = the path to it).      *)
(*                                                                         *)
(* Pinned-tree fact (DESIGN.md C03): `Vm::handle_exception_at` restores    *)
(* the environment depth but neither the value stack nor the binding-      *)
(* reference stack, so an exceptional edge may arrive with MORE entries    *)
(* than the depth at the handler's `start`.  The model continues behind    *)
(* the landing pad with the depth at `start`, requires arrival >= that     *)
(* depth, and reports "more" as the classes handler-leftover /             *)
(* handler-leftover-bind (known findings); fewer is a violation.           *)
(***************************************************************************)
EXTENDS Integers, Sequences, FiniteSets, TLC, Json, IOUtils, SequencesExt, CodeBlockOps

Dump == ndJsonDeserialize(IOEnv.DUMP)
EngineSig == ndJsonDeserialize(IOEnv.SIG)[1]     \* instruction set of the engine the dump came from
EmitDepths == "DEPTHS" \in DOMAIN IOEnv /\ IOEnv.DEPTHS = "1"

NComp == Len(Dump)
Blk(c, b) == Dump[c].blocks[b]

VARIABLES comp,     \* the compilation under analysis
          phase,    \* "start" | "flow" | "next" | "done"
          todo,     \* <<block, base>> pairs still to analyse; base = absolute environment depth at env_fp (-1 unknown)
          doneB,    \* pairs analysed
          cur,      \* the pair under analysis
          work,     \* abstract states <<i, env, bind, args>> to expand (i = instruction index)
          exc,      \* pending exceptional edges <<handler, env, bind, args, source pc>>
          excSeen,  \* <<handler, env, bind, args>> of every edge ever queued for this block
          seen,     \* i -> <<env, bind, args>> of the first arrival, <<>> if not reached
          viol,     \* violations found: <<kind, block, pc, info>>
          nvis, nexc  \* counters: abstract states expanded, exceptional edges examined
vars == <<comp, phase, todo, doneB, cur, work, exc, excSeen, seen, viol, nvis, nexc>>

-----------------------------------------------------------------------------
(* Instruction lookup.  The instruction list is sorted by pc (checked by Decodes). *)
RECURSIVE Find(_, _, _, _)
Find(code, lo, hi, a) ==
  IF lo > hi THEN 0
  ELSE LET mid == (lo + hi) \div 2 IN
       IF code[mid].pc = a THEN mid
       ELSE IF code[mid].pc < a THEN Find(code, mid + 1, hi, a) ELSE Find(code, lo, mid - 1, a)
IdxOf(B, a) == Find(B.code, 1, Len(B.code), a)      \* 0: `a` is not the start of an instruction of B

(* The handler the VM selects for a throw looked up at byte offset q: the last one whose range contains q. *)
HandlerAt(B, q) ==
  LET hs == {k \in 1..Len(B.handlers) : B.handlers[k].s <= q /\ q < B.handlers[k].e}
  IN IF hs = {} THEN 0 ELSE CHOOSE k \in hs : \A m \in hs : m <= k

OpNames == DOMAIN OpTable
Known(op) == op \in OpNames

(* f with f[j] = v for every j in S (explicit, so that TLC keeps `seen` a table instead of a chain of lambdas). *)
RECURSIVE Assign(_, _, _)
Assign(f, S, v) == IF S = {} THEN f ELSE LET j == CHOOSE j \in S : TRUE IN Assign([f EXCEPT ![j] = v], S \ {j}, v)

-----------------------------------------------------------------------------
(* Structural part: decoding, operand ranges, jump and handler targets.  No effect table needed. *)

ConstKind(B, v) == IF v >= 0 /\ v < Len(B.consts) THEN B.consts[v + 1].k ELSE "none"

RoleViol(B, ins, r) ==
  LET v == ins.a[r[1]]  role == r[3] IN
  CASE role = "reg"   -> IF v >= 0 /\ v < B.nreg THEN {} ELSE {<<"reg-range", ins.pc, <<v, B.nreg>>>>}
    [] role = "regs"  -> {<<"reg-range", ins.pc, <<v[k], B.nreg>>>> : k \in {k \in 1..Len(v) : ~(v[k] >= 0 /\ v[k] < B.nreg)}}
    [] role = "str"   -> IF ConstKind(B, v) = "s" THEN {} ELSE {<<"const-kind-string", ins.pc, <<v, Len(B.consts)>>>>}
    [] role = "strs"  -> {<<"const-kind-string", ins.pc, <<v[k], Len(B.consts)>>>> : k \in {k \in 1..Len(v) : ConstKind(B, v[k]) # "s"}}
    [] role = "lit"   -> IF ConstKind(B, v) \in {"s", "n"} THEN {} ELSE {<<"const-kind-literal", ins.pc, <<v, Len(B.consts)>>>>}
    [] role = "fn"    -> IF ConstKind(B, v) = "f" /\ B.consts[v + 1].b > 0 THEN {} ELSE {<<"const-kind-function", ins.pc, <<v, Len(B.consts)>>>>}
    [] role = "scope" -> IF ConstKind(B, v) = "c" THEN {} ELSE {<<"const-kind-scope", ins.pc, <<v, Len(B.consts)>>>>}
    [] role = "bind"  -> IF v >= 0 /\ v < Len(B.binds) THEN {} ELSE {<<"binding-range", ins.pc, <<v, Len(B.binds)>>>>}
    [] role = "ic"    -> IF v >= 0 /\ v < B.nic THEN {} ELSE {<<"ic-range", ins.pc, <<v, B.nic>>>>}
    [] role = "addr"  -> IF IdxOf(B, v) # 0 THEN {} ELSE {<<"jump-target", ins.pc, <<v, B.len>>>>}
    [] role = "addrs" -> {<<"jump-target", ins.pc, <<v[k], B.len>>>> : k \in {k \in 1..Len(v) : IdxOf(B, v[k]) = 0}}
    [] role = "argc"  -> IF v >= 0 THEN {} ELSE {<<"argc-range", ins.pc, <<v>>>>}
    [] OTHER          -> {}

InsViol(B, ins) ==
  IF ~Known(ins.op) THEN {<<"unknown-opcode", ins.pc, <<>>>>}
  ELSE LET row == OpTable[ins.op] IN
       IF row.succ = "reserved" THEN {<<"reserved-opcode", ins.pc, <<>>>>}
       ELSE UNION {RoleViol(B, ins, row.roles[k]) : k \in 1..Len(row.roles)}

(* Each instruction decodes: the list tiles [0, len) without gaps or overlaps. *)
Decodes(B) ==
  LET n == Len(B.code) IN
  (IF n = 0 THEN {<<"empty-block", 0, <<>>>>} ELSE {})
  \cup {<<"decode-gap", B.code[i].pc, <<B.code[i].nx>>>> :
          i \in {i \in 1..n : ~(B.code[i].pc < B.code[i].nx
                                /\ (IF i = 1 THEN B.code[i].pc = 0 ELSE TRUE)
                                /\ (IF i < n THEN B.code[i + 1].pc = B.code[i].nx ELSE B.code[i].nx = B.len))}}

(* A non-empty handler range starts and ends at instruction starts; the handler address (= end) is an instruction. *)
HandlerViol(B) ==
  UNION {LET H == B.handlers[k] IN
         (IF H.s > H.e \/ H.h # H.e THEN {<<"handler-range", H.s, <<k, H.s, H.e>>>>} ELSE {})
         \cup (IF H.s < H.e /\ IdxOf(B, H.s) = 0 THEN {<<"handler-start", H.s, <<k>>>>} ELSE {})
         \cup (IF H.s < H.e /\ IdxOf(B, H.h) = 0 THEN {<<"handler-target", H.h, <<k, B.len>>>>} ELSE {})
         \cup (IF H.env < 0 THEN {<<"handler-env-range", H.s, <<k, H.env>>>>} ELSE {})
         : k \in 1..Len(B.handlers)}

(* Tables the VM reads outside the instruction stream. *)
Reserved(B) == 1 + (IF B.async THEN 3 ELSE 0) + (IF B.async /\ B.gen THEN 1 ELSE 0)
NProlog(B) == (IF B.bindid THEN 1 ELSE 0) + (IF B.fscope THEN 1 ELSE 0)
TableViol(B) ==
  (IF B.nreg < Reserved(B) THEN {<<"reserved-registers", 0, <<B.nreg, Reserved(B)>>>>} ELSE {})
  \cup {<<"global-lex-const", 0, <<B.glex[k]>>>> : k \in {k \in 1..Len(B.glex) : ConstKind(B, B.glex[k]) # "s"}}
  \cup {<<"global-var-const", 0, <<B.gvar[k]>>>> : k \in {k \in 1..Len(B.gvar) : ConstKind(B, B.gvar[k]) # "s"}}
  \cup {<<"global-fn-const", 0, B.gfn[k]>> :
          k \in {k \in 1..Len(B.gfn) : ~(ConstKind(B, B.gfn[k][1]) = "s" /\ ConstKind(B, B.gfn[k][2]) = "f")}}
  \* the call prologue reads constants[0] (and [1]) as scopes when the flags say so (function_call)
  \cup {<<"prologue-scope-const", 0, <<k>>>> : k \in {k \in 0..(NProlog(B) - 1) : ConstKind(B, k) # "c"}}

StructViol(B) ==
  Decodes(B) \cup HandlerViol(B) \cup TableViol(B) \cup UNION {InsViol(B, B.code[i]) : i \in 1..Len(B.code)}

-----------------------------------------------------------------------------
(* Flow part. *)

IsRoot(c, b) == b = Dump[c].root
EntryEnv(c, b) ==
  IF IsRoot(c, b) /\ Dump[c].kind \in {"script", "module"} THEN 0
  ELSE IF IsRoot(c, b) /\ Dump[c].kind = "late" THEN Blk(c, b).finish_env   \* eval / Function: origin unknown
  ELSE NProlog(Blk(c, b))                                                   \* pushed by function_call/construct
RootBase(c) == CASE Dump[c].kind = "script" -> 0 [] Dump[c].kind = "module" -> 1 [] OTHER -> -1

Argc(ins, row) == IF row.argc = "" THEN 0 ELSE ins.a[row.argc]
Max0(x) == IF x < 0 THEN 0 ELSE x

(* Successor program counters on normal completion. *)
AddrTargets(ins, row) ==
  UNION {LET r == row.roles[k] IN
         IF r[3] = "addr" THEN {ins.a[r[1]]}
         ELSE IF r[3] = "addrs" THEN {ins.a[r[1]][m] : m \in 1..Len(ins.a[r[1]])} ELSE {}
         : k \in 1..Len(row.roles)}
NormalTargets(ins, row) ==
  CASE row.succ = "fall"   -> {ins.nx}
    [] row.succ = "jump"   -> AddrTargets(ins, row)
    [] row.succ = "branch" -> {ins.nx} \cup AddrTargets(ins, row)
    [] OTHER               -> {}

(* What the instruction requires of the depths it is reached with. *)
PreViol(B, base, ins, row, e, b, a) ==
  LET P == row.pop + Argc(ins, row) IN
  (IF a < P THEN {<<"args-underflow", ins.pc, <<a, P>>>>} ELSE {})
  \cup (IF b + row.bind < 0 THEN {<<"bind-underflow", ins.pc, <<b>>>>} ELSE {})
  \cup (IF e + row.env < 0 THEN {<<"env-underflow", ins.pc, <<e>>>>} ELSE {})
  \cup (IF row.succ = "return" /\ (b # 0 \/ a # 0) THEN {<<"return-depth", ins.pc, <<b, a>>>>} ELSE {})
  \* a binding locator Stack(i) addresses absolute environment i: it must exist here
  \cup UNION {LET r == row.roles[k]  v == ins.a[r[1]] IN
              IF r[3] = "bind" /\ base >= 0 /\ v >= 0 /\ v < Len(B.binds) /\ B.binds[v + 1].s = "st"
                 /\ ~(B.binds[v + 1].i < base + e)
              THEN {<<"locator-depth", ins.pc, <<v, B.binds[v + 1].i, base + e>>>>} ELSE {}
              : k \in 1..Len(row.roles)}
  \* PushScope: the environment lands at absolute index base+env, where the locators of that scope expect it
  \cup (IF ins.op = "PushScope" /\ base >= 0 /\ ConstKind(B, ins.a["scope_index"]) = "c"
           /\ B.consts[ins.a["scope_index"] + 1].si # base + e + 1
        THEN {<<"scope-position", ins.pc, <<B.consts[ins.a["scope_index"] + 1].si, base + e>>>>} ELSE {})

(* Arrival of depths d at instruction index j (0 = not an instruction): first arrival records, later ones must agree. *)
MergeViol(B, sn, t, j, d, srcpc) ==
  IF j = 0 THEN {<<"flow-target", srcpc, <<t, B.len>>>>}
  ELSE IF sn[j] # <<>> /\ sn[j] # d THEN {<<"merge-mismatch", t, sn[j] \o d \o <<srcpc>>>>} ELSE {}

Children(B, base, ins, row, e) ==   \* GetFunction creates a closure over the current environment chain
  {<<B.consts[ins.a[r[1]] + 1].b, IF base < 0 THEN -1 ELSE base + e>> :
     r \in {row.roles[k] : k \in {k \in 1..Len(row.roles) :
              row.roles[k][3] = "fn" /\ ConstKind(B, ins.a[row.roles[k][1]]) = "f" /\ B.consts[ins.a[row.roles[k][1]] + 1].b > 0}}}

Init ==
  /\ comp \in 1..NComp
  /\ phase = "start"
  /\ todo = {<<Dump[comp].root, RootBase(comp)>>}
  /\ doneB = {} /\ cur = <<0, 0>> /\ work = <<>> /\ exc = {} /\ excSeen = {} /\ seen = <<>>
  /\ viol = {} /\ nvis = 0 /\ nexc = 0

Tag(b, vs) == {<<v[1], b, v[2], v[3]>> : v \in vs}

StartBlock ==
  /\ phase \in {"start", "next"} /\ todo # {}
  /\ LET p == CHOOSE p \in todo : \A q \in todo : p[1] < q[1] \/ (p[1] = q[1] /\ p[2] <= q[2])
         B == Blk(comp, p[1])
         n == Len(B.code)
         ee == EntryEnv(comp, p[1])
         gfns == {<<B.consts[B.gfn[k][2] + 1].b, IF p[2] < 0 THEN -1 ELSE p[2] + ee>> :
                    k \in {k \in 1..Len(B.gfn) : ConstKind(B, B.gfn[k][2]) = "f" /\ B.consts[B.gfn[k][2] + 1].b > 0}}
     IN /\ cur' = p
        /\ todo' = (todo \ {p}) \cup (gfns \ (doneB \cup {p}))
        /\ seen' = [i \in 1..n |-> IF i = 1 THEN <<ee, 0, 0>> ELSE <<>>]
        /\ work' = IF n = 0 THEN <<>> ELSE <<<<1, ee, 0, 0>>>>
        /\ viol' = viol \cup Tag(p[1], StructViol(B))
                        \cup (IF B.finish_env >= 0 /\ B.finish_env # ee
                              THEN {<<"finish-env", p[1], 0, <<B.finish_env, ee>>>>} ELSE {})
        /\ exc' = {} /\ excSeen' = {} /\ phase' = "flow"
        /\ UNCHANGED <<comp, doneB, nvis, nexc>>

Step ==
  /\ phase = "flow" /\ work # <<>>
  /\ LET B == Blk(comp, cur[1])  base == cur[2]
         w == Head(work)  i == w[1]  e == w[2]  b == w[3]  a == w[4]
         ins == B.code[i]
     IN IF ~Known(ins.op) \/ OpTable[ins.op].succ = "reserved"
        THEN /\ work' = Tail(work) /\ nvis' = nvis + 1        \* reported by the structural part
             /\ UNCHANGED <<comp, phase, todo, doneB, cur, exc, excSeen, seen, viol, nexc>>
        ELSE
        LET row == OpTable[ins.op]
            P == row.pop + Argc(ins, row)
            d2 == <<Max0(e + row.env), Max0(b + row.bind), Max0(a - P) + row.push>>
            ts == NormalTargets(ins, row)
            js == {IdxOf(B, t) : t \in ts}
            newJ == {j \in js : j # 0 /\ seen[j] = <<>>}
            mv == UNION {MergeViol(B, seen, t, IdxOf(B, t), d2, ins.pc) : t \in ts}
            \* exceptional edges: own exceptions are looked up at the last byte of the instruction,
            \* exceptions of a callee at the pc after the call (handle_error / handle_throw)
            qs == (IF row.throws THEN {ins.nx - 1} ELSE {}) \cup (IF row.calls THEN {ins.nx} ELSE {})
            tp == row.tpop + (IF row.targc THEN Argc(ins, row) ELSE 0)
            edges == {<<HandlerAt(B, q), e, Max0(b + row.tb), Max0(a - tp)>> : q \in {q \in qs : HandlerAt(B, q) # 0}}
            newE == edges \ excSeen
        IN /\ seen' = Assign(seen, newJ, d2)
           /\ work' = Tail(work) \o SetToSeq({<<j, d2[1], d2[2], d2[3]>> : j \in newJ})
           /\ exc' = exc \cup {<<x[1], x[2], x[3], x[4], ins.pc>> : x \in newE}
           /\ excSeen' = excSeen \cup newE
           /\ viol' = viol \cup Tag(cur[1], PreViol(B, base, ins, row, e, b, a) \cup mv)
           /\ todo' = todo \cup (Children(B, base, ins, row, e) \ (doneB \cup {cur}))
           /\ nvis' = nvis + 1
           /\ UNCHANGED <<comp, phase, doneB, cur, nexc>>

(* One exceptional edge, examined when all normal flow of the block is known. *)
ExcStep ==
  /\ phase = "flow" /\ work = <<>> /\ exc # {}
  /\ LET B == Blk(comp, cur[1])
         x == CHOOSE x \in exc : \A y \in exc : x[5] < y[5] \/ (x[5] = y[5] /\ (x[1] < y[1] \/ (x[1] = y[1] /\
                   (x[2] < y[2] \/ (x[2] = y[2] /\ (x[3] < y[3] \/ (x[3] = y[3] /\ x[4] <= y[4])))))))
         H == B.handlers[x[1]]
         js == IdxOf(B, H.s)  jt == IdxOf(B, H.h)
     IN IF js = 0 \/ jt = 0
        THEN /\ exc' = exc \ {x} /\ nexc' = nexc + 1          \* reported by the structural part
             /\ UNCHANGED <<comp, phase, todo, doneB, cur, work, excSeen, seen, viol, nvis>>
        ELSE
        LET reached == seen[js] # <<>>
            S == IF reached THEN seen[js] ELSE <<H.env, x[3], x[4]>>     \* depths the handler was set up with
            d == <<H.env, S[2], S[3]>>                                  \* intended depths behind the landing pad
            v == (IF ~reached THEN {<<"handler-start-unreached", H.s, <<x[1], x[5]>>>>} ELSE {})
                 \cup (IF reached /\ S[1] # H.env THEN {<<"handler-env", H.s, <<x[1], H.env, S[1]>>>>} ELSE {})
                 \cup (IF x[2] < H.env THEN {<<"exc-env-underflow", x[5], <<x[1], x[2], H.env>>>>} ELSE {})
                 \cup (IF x[3] < S[2] THEN {<<"exc-bind-underflow", x[5], <<x[1], x[3], S[2]>>>>} ELSE {})
                 \cup (IF x[4] < S[3] THEN {<<"exc-args-underflow", x[5], <<x[1], x[4], S[3]>>>>} ELSE {})
                 \cup (IF x[3] > S[2] THEN {<<"handler-leftover-bind", x[5], <<x[1], x[3], S[2]>>>>} ELSE {})
                 \cup (IF x[4] > S[3] THEN {<<"handler-leftover", x[5], <<x[1], x[4], S[3]>>>>} ELSE {})
                 \cup MergeViol(B, seen, H.h, jt, d, x[5])
            new == seen[jt] = <<>>
        IN /\ seen' = IF new THEN [seen EXCEPT ![jt] = d] ELSE seen
           /\ work' = IF new THEN <<<<jt, d[1], d[2], d[3]>>>> ELSE <<>>
           /\ exc' = exc \ {x}
           /\ viol' = viol \cup Tag(cur[1], v)
           /\ nexc' = nexc + 1
           /\ UNCHANGED <<comp, phase, todo, doneB, cur, excSeen, nvis>>

DepthRows(B) == [i \in 1..Len(B.code) |-> IF seen[i] = <<>> THEN <<B.code[i].pc>> ELSE <<B.code[i].pc>> \o seen[i]]

FinishBlock ==
  /\ phase = "flow" /\ work = <<>> /\ exc = {}
  /\ doneB' = doneB \cup {cur}
  /\ phase' = IF todo = {} THEN "done" ELSE "next"
  /\ IF EmitDepths
     THEN PrintT(<<"DEPTHS", ToJson([c |-> comp, b |-> cur[1], base |-> cur[2], id |-> Blk(comp, cur[1]).id,
                                     d |-> DepthRows(Blk(comp, cur[1]))])>>)
     ELSE TRUE
  /\ UNCHANGED <<comp, todo, cur, work, exc, excSeen, seen, viol, nvis, nexc>>

Next == StartBlock \/ Step \/ ExcStep \/ FinishBlock
Spec == Init /\ [][Next]_vars

-----------------------------------------------------------------------------
(* Invariants of the interpreter itself (model gate). *)
TypeOK ==
  /\ phase \in {"start", "flow", "next", "done"}
  /\ \A k \in 1..Len(work) : work[k][1] \in DOMAIN seen /\ seen[work[k][1]] = <<work[k][2], work[k][3], work[k][4]>>
  /\ \A k \in 1..Len(work) : work[k][2] >= 0 /\ work[k][3] >= 0 /\ work[k][4] >= 0
  /\ \A x \in exc : <<x[1], x[2], x[3], x[4]>> \in excSeen
  /\ todo \cap doneB = {}

(* One RESULT line per compilation when its analysis is complete. *)
Emit ==
  phase = "done" =>
    PrintT(<<"RESULT", ToJson([c |-> comp, v |-> SetToSeq(viol), n |-> nvis, x |-> nexc, nb |-> Cardinality(doneB)])>>)

(* The engine's instruction set must be the one OpTable describes (else the table has to be extended: exit 2). *)
SigRows == {EngineSig[k] : k \in 1..Len(EngineSig)}
SigMismatch ==
  {s.op : s \in {s \in SigRows :
             ~(s.op \in DOMAIN OpTable
               /\ Len(s.fields) = Len(OpTable[s.op].roles)
               /\ \A m \in 1..Len(s.fields) : s.fields[m][1] = OpTable[s.op].roles[m][1]
                                             /\ s.fields[m][2] = OpTable[s.op].roles[m][2])}}
  \cup (OpNames \ {s.op : s \in SigRows})
SigReport == PrintT(<<"SIG", ToJson([bad |-> SetToSeq(SigMismatch), n |-> Len(EngineSig)])>>)
ASSUME SigReport

(* Strict reading for replays: stop at the first violation that is not the known leftover class. *)
Clean == \A v \in viol : v[1] \in {"handler-leftover", "handler-leftover-bind"}
=============================================================================
