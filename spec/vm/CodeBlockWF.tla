----------------------------- MODULE CodeBlockWF -----------------------------
(***************************************************************************)
(* C03 -- every compiled code block is well-formed on all of its paths.    *)
(*                                                                         *)
(* The constant of this specification is a dump of what boa's compiler     *)
(* really produced (hook `CodeBlock::verif_dump`, one compilation per      *)
(* line of the ndjson file named by the environment variable DUMP): for    *)
(* each code block its register count, tables (constants with kinds,       *)
(* binding locators, inline caches, handlers) and the decoded instruction  *)
(* list with named operands.  `comp \in 1..N` is chosen in Init, so one    *)
(* TLC run checks many compilations.                                       *)
(*                                                                         *)
(* The specification is an abstract interpreter over the control-flow      *)
(* graph of each block.  An abstract state is (instruction, context, env,  *)
(* bind, args):                                                            *)
(*   env   length of the environment chain above the frame's env_fp,       *)
(*   bind  length of the frame's binding-reference stack,                  *)
(*   args  length of the value stack above the register file,              *)
(*   context  constants held by the JumpTable index registers (see below). *)
(* `OpTable` (module CodeBlockOps, generated from the engine source) gives *)
(* for every opcode the role of each operand and the abstract effect.      *)
(* `seen` records, per instruction and context, the depths of the first    *)
(* arrival; every later arrival must agree (paths merge).  Exceptional     *)
(* edges go from every instruction that can raise inside [start,end) of    *)
(* the innermost handler (the VM searches the handler list from the back)  *)
(* to the handler address, with env := handler.environment_count.          *)
(*                                                                         *)
(* Actions: StartBlock (structural checks of one block: decoding, operand  *)
(* ranges, jump/handler targets, tables), Step (expand one abstract state: *)
(* preconditions of the instruction, normal and exceptional successors),   *)
(* FinishBlock.  GetFunction and the global function table schedule the     *)
(* child block with the absolute environment depth at which its closure is *)
(* created, so binding locators (absolute environment indices) can be      *)
(* checked against the chain that exists when they are used.               *)
(*                                                                         *)
(* Every condition of the property is a named predicate; a failing         *)
(* predicate adds a record to `viol` and the interpretation continues      *)
(* with the intended depths, so that one run reports all failures of all   *)
(* compilations (the driver classifies them; `Clean` as an INVARIANT stops *)
(* at the first one and gives a TLC counterexample = the path to it).      *)
(*                                                                         *)
(* `Vm::handle_exception_at` restores the environment depth and (since the *)
(* repair 6a99faa) truncates the value stack to the register file, so the  *)
(* code behind a landing pad starts with args = 0 whatever the depth of    *)
(* the raising instruction was; code behind the pad that pops more, or a   *)
(* merge with a path that still carries values, is reported by the         *)
(* ordinary underflow / merge predicates.  The binding-reference stack is  *)
(* not restored: an exceptional edge may arrive with MORE references than  *)
(* the handler was set up with (the depth with which this path passed the  *)
(* handler's `start`, carried in the abstract state as `hd`); the model    *)
(* continues with the set-up depth, requires arrival >= it, and reports    *)
(* "more" as the class handler-leftover-bind (known finding); fewer is a   *)
(* violation.                                                              *)
(***************************************************************************)
EXTENDS Integers, Sequences, FiniteSets, TLC, Json, IOUtils, SequencesExt, CodeBlockOps

Dump == ndJsonDeserialize(IOEnv.DUMP)
EngineSig == ndJsonDeserialize(IOEnv.SIG)[1]     \* instruction set of the engine the dump came from
\* DEPTHS=<n>: also print the depth assignment of every block of compilations n, n+1, ... (for the dynamic half)
DepthsFrom == IF "DEPTHS" \in DOMAIN IOEnv THEN atoi(IOEnv.DEPTHS) ELSE -1
EmitDepths(c) == DepthsFrom >= 0 /\ c >= DepthsFrom

NComp == Len(Dump)
Blk(c, b) == Dump[c].blocks[b]

VARIABLES comp,     \* the compilation under analysis
          phase,    \* "start" | "flow" | "next" | "done"
          todo,     \* <<block, base>> pairs still to analyse; base = absolute environment depth at env_fp (-1 unknown)
          doneB,    \* pairs analysed
          cur,      \* the pair under analysis
          tr,       \* registers used as JumpTable index in the block under analysis (sorted)
          rg,       \* for each of them the finally regions <<lo, hi>> (byte offsets)
          work,     \* pending abstract states <<i, jt, env, bind, args, source pc, hd>>: i = instruction index, jt = jump-table
                    \* context, hd[h] = <<bind, args>> with which this path passed the start of handler h (<<>>: not passed)
          landed,   \* abstract states behind landing pads already scheduled (so that each is explored once)
          seen,     \* i -> set of <<jt, env, bind, args, source pc>>: the first arrival in each context
          viol,     \* violations found: <<kind, block, pc, info>>
          nvis, nexc, nmrg  \* counters: abstract states expanded, exceptional edges examined, re-arrivals compared
vars == <<comp, phase, todo, doneB, cur, tr, rg, work, landed, seen, viol, nvis, nexc, nmrg>>

-----------------------------------------------------------------------------
(* Instruction lookup.  The instruction list is sorted by pc (checked by Decodes). *)
RECURSIVE Find(_, _, _, _)
Find(code, lo, hi, a) ==
  IF lo > hi THEN 0
  ELSE LET mid == (lo + hi) \div 2 IN
       IF code[mid].pc = a THEN mid
       ELSE IF code[mid].pc < a THEN Find(code, mid + 1, hi, a) ELSE Find(code, lo, mid - 1, a)
IdxOf(B, a) == Find(B.code, 1, Len(B.code), a)      \* 0: `a` is not the start of an instruction of B

(* The handler the VM selects for a throw looked up at byte offset q: the last one whose range contains q. *)
HandlerAt(B, q) ==
  LET hs == {k \in 1..Len(B.handlers) : B.handlers[k].s <= q /\ q < B.handlers[k].e}
  IN IF hs = {} THEN 0 ELSE CHOOSE k \in hs : \A m \in hs : m <= k

OpNames == DOMAIN OpTable
Known(op) == op \in OpNames

(* f with v added to f[j] for every j in S (explicit, so that TLC keeps `seen` a table instead of a chain of lambdas). *)
RECURSIVE AddAll(_, _, _)
AddAll(f, S, v) == IF S = {} THEN f ELSE LET j == CHOOSE j \in S : TRUE IN AddAll([f EXCEPT ![j] = @ \cup {v}], S \ {j}, v)

-----------------------------------------------------------------------------
(* Structural part: decoding, operand ranges, jump and handler targets.  No effect table needed. *)

(* Registers with a fixed meaning: r0 = undefined, r1..r3 = promise capability (async), r4 = async generator object. *)
Reserved(B) == 1 + (IF B.async THEN 3 ELSE 0) + (IF B.async /\ B.gen THEN 1 ELSE 0)
NProlog(B) == (IF B.bindid THEN 1 ELSE 0) + (IF B.fscope THEN 1 ELSE 0)

ConstKind(B, v) == IF v >= 0 /\ v < Len(B.consts) THEN B.consts[v + 1].k ELSE "none"

RoleViol(B, ins, r) ==
  LET v == ins.a[r[1]]  role == r[3] IN
  CASE role = "reg"   -> (IF v >= 0 /\ v < B.nreg THEN {} ELSE {<<"reg-range", ins.pc, <<v, B.nreg>>>>})
                         \* r0 (undefined) and the promise-capability / async-generator registers are never a destination
                         \cup (IF r[1] = "dst" /\ v >= 0 /\ v < Reserved(B) THEN {<<"reserved-register-written", ins.pc, <<v>>>>} ELSE {})
    [] role = "regs"  -> {<<"reg-range", ins.pc, <<v[k], B.nreg>>>> : k \in {k \in 1..Len(v) : ~(v[k] >= 0 /\ v[k] < B.nreg)}}
    [] role = "str"   -> IF ConstKind(B, v) = "s" THEN {} ELSE {<<"const-kind-string", ins.pc, <<v, Len(B.consts)>>>>}
    [] role = "strs"  -> {<<"const-kind-string", ins.pc, <<v[k], Len(B.consts)>>>> : k \in {k \in 1..Len(v) : ConstKind(B, v[k]) # "s"}}
    [] role = "lit"   -> IF ConstKind(B, v) \in {"s", "n"} THEN {} ELSE {<<"const-kind-literal", ins.pc, <<v, Len(B.consts)>>>>}
    [] role = "fn"    -> IF ConstKind(B, v) = "f" /\ B.consts[v + 1].b > 0 THEN {} ELSE {<<"const-kind-function", ins.pc, <<v, Len(B.consts)>>>>}
    [] role = "scope" -> IF ConstKind(B, v) = "c" THEN {} ELSE {<<"const-kind-scope", ins.pc, <<v, Len(B.consts)>>>>}
    [] role = "bind"  -> IF v >= 0 /\ v < Len(B.binds) THEN {} ELSE {<<"binding-range", ins.pc, <<v, Len(B.binds)>>>>}
    [] role = "ic"    -> IF v >= 0 /\ v < B.nic THEN {} ELSE {<<"ic-range", ins.pc, <<v, B.nic>>>>}
    [] role = "addr"  -> IF IdxOf(B, v) # 0 THEN {} ELSE {<<"jump-target", ins.pc, <<v, B.len>>>>}
    [] role = "addrs" -> {<<"jump-target", ins.pc, <<v[k], B.len>>>> : k \in {k \in 1..Len(v) : IdxOf(B, v[k]) = 0}}
    [] role = "argc"  -> IF v >= 0 THEN {} ELSE {<<"argc-range", ins.pc, <<v>>>>}
    [] OTHER          -> {}

InsViol(B, ins) ==
  IF ~Known(ins.op) THEN {<<"unknown-opcode", ins.pc, <<>>>>}
  ELSE LET row == OpTable[ins.op] IN
       IF row.succ = "reserved" THEN {<<"reserved-opcode", ins.pc, <<>>>>}
       ELSE UNION {RoleViol(B, ins, row.roles[k]) : k \in 1..Len(row.roles)}

(* Each instruction decodes: the list tiles [0, len) without gaps or overlaps. *)
Decodes(B) ==
  LET n == Len(B.code) IN
  (IF n = 0 THEN {<<"empty-block", 0, <<>>>>} ELSE {})
  \cup {<<"decode-gap", B.code[i].pc, <<B.code[i].nx>>>> :
          i \in {i \in 1..n : ~(B.code[i].pc < B.code[i].nx
                                /\ (IF i = 1 THEN B.code[i].pc = 0 ELSE TRUE)
                                /\ (IF i < n THEN B.code[i + 1].pc = B.code[i].nx ELSE B.code[i].nx = B.len))}}

(* A non-empty handler range starts and ends at instruction starts; the handler address (= end) is an instruction. *)
HandlerViol(B) ==
  UNION {LET H == B.handlers[k] IN
         (IF H.s > H.e \/ H.h # H.e THEN {<<"handler-range", H.s, <<k, H.s, H.e>>>>} ELSE {})
         \cup (IF H.s < H.e /\ IdxOf(B, H.s) = 0 THEN {<<"handler-start", H.s, <<k>>>>} ELSE {})
         \cup (IF H.s < H.e /\ IdxOf(B, H.h) = 0 THEN {<<"handler-target", H.h, <<k, B.len>>>>} ELSE {})
         \cup (IF H.env < 0 THEN {<<"handler-env-range", H.s, <<k, H.env>>>>} ELSE {})
         : k \in 1..Len(B.handlers)}

(* Tables the VM reads outside the instruction stream. *)
TableViol(B) ==
  (IF B.nreg < Reserved(B) THEN {<<"reserved-registers", 0, <<B.nreg, Reserved(B)>>>>} ELSE {})
  \cup {<<"global-lex-const", 0, <<B.glex[k]>>>> : k \in {k \in 1..Len(B.glex) : ConstKind(B, B.glex[k]) # "s"}}
  \cup {<<"global-var-const", 0, <<B.gvar[k]>>>> : k \in {k \in 1..Len(B.gvar) : ConstKind(B, B.gvar[k]) # "s"}}
  \cup {<<"global-fn-const", 0, B.gfn[k]>> :
          k \in {k \in 1..Len(B.gfn) : ~(ConstKind(B, B.gfn[k][1]) = "s" /\ ConstKind(B, B.gfn[k][2]) = "f")}}
  \* the call prologue reads constants[0] (and [1]) as scopes when the flags say so (function_call)
  \cup {<<"prologue-scope-const", 0, <<k>>>> : k \in {k \in 0..(NProlog(B) - 1) : ConstKind(B, k) # "c"}}

StructViol(B) ==
  Decodes(B) \cup HandlerViol(B) \cup TableViol(B) \cup UNION {InsViol(B, B.code[i]) : i \in 1..Len(B.code)}

-----------------------------------------------------------------------------
(* Flow part. *)

IsRoot(c, b) == b = Dump[c].root
NameOf(c, b) == Blk(c, b).name
EntryEnv(c, b) ==
  IF IsRoot(c, b) /\ Dump[c].kind \in {"script", "module"} THEN 0
  ELSE IF IsRoot(c, b) /\ NameOf(c, b) = "<eval>" THEN 1      \* perform_eval pushes the lexical environment
  ELSE IF IsRoot(c, b) /\ NameOf(c, b) = "<json>" THEN 0
  ELSE NProlog(Blk(c, b))                                     \* pushed by function_call / function_construct
RootBase(c) == CASE Dump[c].kind = "script" -> 0 [] Dump[c].kind = "module" -> 1 [] OTHER -> -1

Argc(ins, row) == IF row.argc = "" THEN 0 ELSE ins.a[row.argc]
Max0(x) == IF x < 0 THEN 0 ELSE x

(***************************************************************************)
(* Jump-table contexts.  boa compiles `finally` so that every way of       *)
(* entering the finally block first stores a small constant in an index    *)
(* register; the JumpTable at the end of the block dispatches on it.  A    *)
(* `return v` inside the protected region parks v on the value stack       *)
(* while the finally block runs, so the paths into that block differ in    *)
(* depth exactly as they differ in the index register, and the JumpTable   *)
(* separates them again.  The interpreter therefore carries, for the       *)
(* registers used as a JumpTable index (`tr`), the constant last stored    *)
(* (-1 = unknown); depths must agree per (instruction, context).  A        *)
(* context component dies (-1) as soon as the register is consumed by its  *)
(* JumpTable, touched by any other instruction, or control leaves the      *)
(* finally block by another edge, so ordinary merges are compared in the   *)
(* plain context.                                                          *)
(***************************************************************************)
ConstStored(ins) ==
  CASE ins.op = "StoreZero" -> 0
    [] ins.op = "StoreOne"  -> 1
    [] ins.op \in {"StoreInt8", "StoreInt16", "StoreInt32"} -> (IF ins.a["value"] >= 0 THEN ins.a["value"] ELSE -1)
    [] OTHER -> -2                                                  \* not a constant store
Mentions(ins, row, r) ==
  \E k \in 1..Len(row.roles) :
     \/ row.roles[k][3] = "reg" /\ ins.a[row.roles[k][1]] = r
     \/ row.roles[k][3] = "regs" /\ \E m \in 1..Len(ins.a[row.roles[k][1]]) : ins.a[row.roles[k][1]][m] = r
(* Finally regions of register r: for each JumpTable on r at pc J, the interval [lo, J] where lo is the smallest
   target of a `Jump` that directly follows a constant store to r after the previous JumpTable on r (that is how
   every break/continue/return record enters the finally block). *)
JumpTablesOn(B, r) == {i \in 1..Len(B.code) : B.code[i].op = "JumpTable" /\ B.code[i].a["index"] = r}
RegionsOf(B, r) ==
  {LET prev == {m \in JumpTablesOn(B, r) : m < j}
       from == IF prev = {} THEN 0 ELSE CHOOSE m \in prev : \A q \in prev : q <= m
       ents == {B.code[i + 1].a["address"] :
                  i \in {i \in (from + 1)..(j - 2) : ConstStored(B.code[i]) # -2 /\ B.code[i].a["dst"] = r /\ B.code[i + 1].op = "Jump"}}
   IN <<IF ents = {} THEN B.code[j].pc ELSE CHOOSE lo \in ents : \A q \in ents : lo <= q, B.code[j].pc>>
   : j \in JumpTablesOn(B, r)}
InRegion(R, k, pc) == \E iv \in R[k] : iv[1] <= pc /\ pc <= iv[2]
LastTable(R, k) == IF R[k] = {} THEN -1 ELSE CHOOSE m \in {iv[2] : iv \in R[k]} : \A q \in {iv[2] : iv \in R[k]} : q <= m
(* Context after executing `ins` (before following an edge). *)
NextCtx(T, R, jt, ins, row) ==
  IF Len(T) = 0 THEN jt
  ELSE [k \in 1..Len(T) |->
          IF ConstStored(ins) # -2 /\ ins.a["dst"] = T[k] THEN (IF ins.pc < LastTable(R, k) THEN ConstStored(ins) ELSE -1)
          ELSE IF Mentions(ins, row, T[k]) THEN -1 ELSE jt[k]]
(* Context after following the edge p -> t: a component is forgotten when the edge leaves its finally region
   (break / continue / return / throw out of a finally block), so that what follows is compared in the plain context. *)
EdgeCtx(T, R, jt, p, t) ==
  IF Len(T) = 0 THEN jt
  ELSE [k \in 1..Len(T) |-> IF jt[k] >= 0 /\ InRegion(R, k, p) /\ ~InRegion(R, k, t) THEN -1 ELSE jt[k]]
TrackedIndex(T, r) == IF \E k \in 1..Len(T) : T[k] = r THEN CHOOSE k \in 1..Len(T) : T[k] = r ELSE 0

(* Successor program counters on normal completion. *)
AddrTargets(ins, row) ==
  UNION {LET r == row.roles[k] IN
         IF r[3] = "addr" THEN {ins.a[r[1]]}
         ELSE IF r[3] = "addrs" THEN {ins.a[r[1]][m] : m \in 1..Len(ins.a[r[1]])} ELSE {}
         : k \in 1..Len(row.roles)}
NormalTargets(T, jt, ins, row) ==
  IF ins.op = "JumpTable" /\ TrackedIndex(T, ins.a["index"]) # 0 /\ jt[TrackedIndex(T, ins.a["index"])] >= 0
  THEN LET k == jt[TrackedIndex(T, ins.a["index"])] IN      \* the VM falls through when the index is outside the table
       IF k < Len(ins.a["addresses"]) THEN {ins.a["addresses"][k + 1]} ELSE {ins.nx}
  ELSE CASE row.succ = "fall"   -> {ins.nx}
         [] row.succ = "jump"   -> AddrTargets(ins, row)
         [] row.succ = "branch" -> {ins.nx} \cup AddrTargets(ins, row)
         [] OTHER               -> {}

(* What the instruction requires of the depths it is reached with. *)
PreViol(B, base, ins, row, e, b, a) ==
  LET P == row.pop + Argc(ins, row) IN
  (IF a < P THEN {<<"args-underflow", ins.pc, <<a, P>>>>} ELSE {})
  \cup (IF b + row.bind < 0 THEN {<<"bind-underflow", ins.pc, <<b>>>>} ELSE {})
  \cup (IF e + row.env < 0 THEN {<<"env-underflow", ins.pc, <<e>>>>} ELSE {})
  \cup (IF row.succ = "return" /\ b # 0 THEN {<<"return-depth", ins.pc, <<b, a>>>>} ELSE {})
  \* values left at Return are dropped with the frame (handle_return truncates): reported as information only
  \cup (IF row.succ = "return" /\ b = 0 /\ a # 0 THEN {<<"return-leftover", ins.pc, <<a>>>>} ELSE {})
  \* a binding locator Stack(i) addresses absolute environment i: it must exist here
  \cup UNION {LET r == row.roles[k]  v == ins.a[r[1]] IN
              IF r[3] = "bind" /\ base >= 0 /\ v >= 0 /\ v < Len(B.binds) /\ B.binds[v + 1].s = "st"
                 /\ ~(B.binds[v + 1].i < base + e)
              THEN {<<"locator-depth", ins.pc, <<v, B.binds[v + 1].i, base + e>>>>} ELSE {}
              : k \in 1..Len(row.roles)}
  \* PushScope: the environment lands at absolute index base+env, where the locators of that scope expect it
  \cup (IF ins.op = "PushScope" /\ base >= 0 /\ ConstKind(B, ins.a["scope_index"]) = "c"
           /\ B.consts[ins.a["scope_index"] + 1].si # base + e + 1
        THEN {<<"scope-position", ins.pc, <<B.consts[ins.a["scope_index"] + 1].si, base + e>>>>} ELSE {})

(* An instruction is marked when its abstract state is taken from the stack; `seen` keeps, per context, the first
   arrival <<jt, env, bind, args, source pc>>.  A later arrival in the same context must agree with it. *)
Prior(sn, i, jt) == {y \in sn[i] : y[1] = jt}
Disagree(B, i, prior, e, b, a, src) ==
  {<<"merge-mismatch", B.code[i].pc, <<y[2], y[3], y[4], y[5], e, b, a, src>>>> : y \in {y \in prior : <<y[2], y[3], y[4]>> # <<e, b, a>>}}

Children(B, base, ins, row, e) ==   \* GetFunction creates a closure over the current environment chain
  {<<B.consts[ins.a[r[1]] + 1].b, IF base < 0 THEN -1 ELSE base + e>> :
     r \in {row.roles[k] : k \in {k \in 1..Len(row.roles) :
              row.roles[k][3] = "fn" /\ ConstKind(B, ins.a[row.roles[k][1]]) = "f" /\ B.consts[ins.a[row.roles[k][1]] + 1].b > 0}}}

Init ==
  /\ comp \in 1..NComp
  /\ phase = "start"
  /\ todo = {<<Dump[comp].root, RootBase(comp)>>}
  /\ doneB = {} /\ cur = <<0, 0>> /\ tr = <<>> /\ rg = <<>> /\ work = <<>> /\ landed = {} /\ seen = <<>>
  /\ viol = {} /\ nvis = 0 /\ nexc = 0 /\ nmrg = 0

Tag(b, vs) == {<<v[1], b, v[2], v[3]>> : v \in vs}

StartBlock ==
  /\ phase \in {"start", "next"} /\ todo # {}
  /\ LET p == CHOOSE p \in todo : \A q \in todo : p[1] < q[1] \/ (p[1] = q[1] /\ p[2] <= q[2])
         B == Blk(comp, p[1])
         n == Len(B.code)
         ee == EntryEnv(comp, p[1])
         T == SetToSortSeq({B.code[i].a["index"] : i \in {i \in 1..n : B.code[i].op = "JumpTable"}}, <)
         jt0 == [k \in 1..Len(T) |-> -1]
         hd0 == [h \in 1..Len(B.handlers) |-> <<>>]
         gfns == {<<B.consts[B.gfn[k][2] + 1].b, IF p[2] < 0 THEN -1 ELSE p[2] + ee>> :
                    k \in {k \in 1..Len(B.gfn) : ConstKind(B, B.gfn[k][2]) = "f" /\ B.consts[B.gfn[k][2] + 1].b > 0}}
     IN /\ cur' = p
        /\ tr' = T
        /\ rg' = [k \in 1..Len(T) |-> RegionsOf(B, T[k])]
        /\ todo' = (todo \ {p}) \cup (gfns \ (doneB \cup {p}))
        /\ seen' = [i \in 1..n |-> {}]
        /\ work' = IF n = 0 THEN <<>> ELSE <<<<1, jt0, ee, 0, 0, -1, hd0>>>>
        /\ viol' = viol \cup Tag(p[1], StructViol(B))
        /\ landed' = {} /\ phase' = "flow"
        /\ UNCHANGED <<comp, doneB, nvis, nexc, nmrg>>

(* Scheduling: pending abstract states are expanded in code order (smallest instruction index first), the shallowest
   first among those for the same instruction, the most recently pushed among equals.  Order does not change what is
   reachable; it makes the first arrival at a merge point the one that came down the straight-line code (forward
   jumps wait until the code before their target has been interpreted) and, among several, the shallowest, so that
   a path that leaks is reported once, where it joins, instead of the leak being propagated downstream as a chain
   of secondary disagreements.  `work` is kept sorted by that key. *)
Depth(w) == w[3] + w[4] + w[5]
Key(w) == w[1] * 1024 + (IF Depth(w) > 1023 THEN 1023 ELSE Depth(w))
Insert(wk, item) ==
  LET pos == Cardinality({k \in 1..Len(wk) : Key(wk[k]) < Key(item)})
  IN SubSeq(wk, 1, pos) \o <<item>> \o SubSeq(wk, pos + 1, Len(wk))
RECURSIVE InsertAll(_, _)
InsertAll(wk, items) ==      \* the first of `items` ends up in front of the others of equal key
  IF items = <<>> THEN wk ELSE Insert(InsertAll(wk, Tail(items)), Head(items))

(***************************************************************************)
(* Exceptional edge from `ins` (reached with jt, e, b, a) into handler h.  *)
(* `hd[h]` = <<bind, args>> with which this path passed the handler's      *)
(* `start` (the depths the handler was set up with).  The VM truncates the *)
(* environment chain to handler.environment_count and the value stack to   *)
(* the register file; for the binding references the model requires        *)
(* arrival >= set-up depth, reports "more" as the leftover class and       *)
(* continues behind the landing pad with the set-up depth.                 *)
(***************************************************************************)
EdgeViol(B, h, hd, ins, e, bx, ax) ==
  LET H == B.handlers[h]
      S == IF hd[h] = <<>> THEN <<bx, ax>> ELSE hd[h]
  IN (IF hd[h] = <<>> THEN {<<"handler-start-unreached", ins.pc, <<h, H.s>>>>} ELSE {})
     \cup (IF e < H.env THEN {<<"exc-env-underflow", ins.pc, <<h, e, H.env>>>>} ELSE {})
     \cup (IF bx < S[1] THEN {<<"exc-bind-underflow", ins.pc, <<h, bx, S[1]>>>>} ELSE {})
     \cup (IF bx > S[1] THEN {<<"handler-leftover-bind", ins.pc, <<h, bx, S[1]>>>>} ELSE {})
Landing(B, h, hd, jt, ins, bx, ax) ==      \* abstract state behind the landing pad (0 as index: target is no instruction)
  LET H == B.handlers[h]
      S == IF hd[h] = <<>> THEN <<bx, ax>> ELSE hd[h]
  IN <<IdxOf(B, H.h), EdgeCtx(tr, rg, jt, ins.pc, H.h), H.env, S[1], 0, ins.pc, hd>>

Step ==
  /\ phase = "flow" /\ work # <<>>
  /\ LET B == Blk(comp, cur[1])  base == cur[2]
         rest == Tail(work)
         w == Head(work)  i == w[1]  jt == w[2]  e == w[3]  b == w[4]  a == w[5]  src == w[6]  hd == w[7]
         ins == B.code[i]
         prior == Prior(seen, i, jt)
     IN IF prior # {}
        THEN \* reached before in this context: the depths must agree; nothing new to explore
             /\ work' = rest
             /\ viol' = viol \cup Tag(cur[1], Disagree(B, i, prior, e, b, a, src))
             /\ nmrg' = nmrg + 1
             /\ UNCHANGED <<comp, phase, todo, doneB, cur, tr, rg, landed, seen, nvis, nexc>>
        ELSE IF ~Known(ins.op) \/ OpTable[ins.op].succ = "reserved"
        THEN /\ work' = rest /\ nvis' = nvis + 1        \* reported by the structural part
             /\ seen' = [seen EXCEPT ![i] = @ \cup {<<jt, e, b, a, src>>}]
             /\ UNCHANGED <<comp, phase, todo, doneB, cur, tr, rg, landed, viol, nexc, nmrg>>
        ELSE
        LET row == OpTable[ins.op]
            P == row.pop + Argc(ins, row)
            jt2 == NextCtx(tr, rg, jt, ins, row)
            e2 == Max0(e + row.env)  b2 == Max0(b + row.bind)  a2 == Max0(a - P) + row.push
            \* handlers whose protected range starts here are set up with the depths of this arrival
            starts == {h \in 1..Len(B.handlers) : B.handlers[h].s = ins.pc /\ B.handlers[h].s < B.handlers[h].e}
            hd2 == IF starts = {} THEN hd ELSE [h \in 1..Len(B.handlers) |-> IF h \in starts THEN <<b, a>> ELSE hd[h]]
            sv == {<<"handler-env", ins.pc, <<h, B.handlers[h].env, e>>>> : h \in {h \in starts : B.handlers[h].env # e}}
            ts == NormalTargets(tr, jt, ins, row)
            bad == {<<"flow-target", ins.pc, <<t, B.len>>>> : t \in {t \in ts : IdxOf(B, t) = 0}}
            js == {IdxOf(B, t) : t \in ts} \ {0}
            jn == IF ins.nx \in ts THEN IdxOf(B, ins.nx) ELSE 0
            \* exceptional edges: own exceptions are looked up at the last byte of the instruction,
            \* exceptions of a callee at the pc after the call (handle_error / handle_throw)
            qs == (IF row.throws THEN {ins.nx - 1} ELSE {}) \cup (IF row.calls THEN {ins.nx} ELSE {})
            hs == {HandlerAt(B, q) : q \in qs} \ {0}
            tp == row.tpop + (IF row.targc THEN Argc(ins, row) ELSE 0)
            bx == Max0(b + row.tb)  ax == Max0(a - tp)
            ev == UNION {EdgeViol(B, h, hd2, ins, e, bx, ax) : h \in hs}
            lands == {Landing(B, h, hd2, jt, ins, bx, ax) : h \in hs}
            fresh == {l \in lands : l[1] # 0 /\ <<l[1], l[2], l[3], l[4], l[5]>> \notin landed}
            seen2 == [seen EXCEPT ![i] = @ \cup {<<jt, e, b, a, src>>}]
            \* candidate successor states, fall-through first; one that was reached before in its context is compared
            \* with the first arrival right away, the others are scheduled
            cands == (IF jn \in js THEN <<<<jn, EdgeCtx(tr, rg, jt2, ins.pc, B.code[jn].pc), e2, b2, a2, ins.pc, hd2>>>> ELSE <<>>)
                     \o SetToSeq({<<j, EdgeCtx(tr, rg, jt2, ins.pc, B.code[j].pc), e2, b2, a2, ins.pc, hd2>> : j \in js \ {jn}})
                     \o SetToSeq(fresh)
            known == {k \in 1..Len(cands) : Prior(seen2, cands[k][1], cands[k][2]) # {}}
            mv == UNION {Disagree(B, cands[k][1], Prior(seen2, cands[k][1], cands[k][2]), cands[k][3], cands[k][4], cands[k][5], ins.pc)
                         : k \in known}
        IN /\ seen' = seen2
           /\ work' = InsertAll(rest, SelectSeq(cands, LAMBDA c : Prior(seen2, c[1], c[2]) = {}))
           /\ landed' = landed \cup {<<l[1], l[2], l[3], l[4], l[5]>> : l \in fresh}
           /\ viol' = viol \cup Tag(cur[1], PreViol(B, base, ins, row, e, b, a) \cup bad \cup sv \cup ev \cup mv)
           /\ nmrg' = nmrg + Cardinality(known)
           /\ todo' = todo \cup (Children(B, base, ins, row, e) \ (doneB \cup {cur}))
           /\ nvis' = nvis + 1
           /\ nexc' = nexc + Cardinality(hs)
           /\ UNCHANGED <<comp, phase, doneB, cur, tr, rg>>

DepthRows(B) == [i \in 1..Len(B.code) |-> <<B.code[i].pc>> \o SetToSeq({<<y[2], y[3], y[4]>> : y \in seen[i]})]

(* A block nobody instantiates through GetFunction or the global function table (module-level function declarations,
   which the module environment instantiates natively) is analysed too, without absolute environment positions. *)
FinishBlock ==
  /\ phase = "flow" /\ work = <<>>
  /\ LET done2 == doneB \cup {cur}
         rem == {b \in 1..Len(Dump[comp].blocks) : \A p \in done2 \cup todo : p[1] # b}
     IN /\ doneB' = done2
        /\ IF todo = {} /\ rem # {}
           THEN /\ todo' = {<<CHOOSE b \in rem : \A q \in rem : b <= q, -1>>} /\ phase' = "next"
           ELSE /\ todo' = todo /\ phase' = IF todo = {} THEN "done" ELSE "next"
  /\ IF EmitDepths(comp)
     THEN PrintT(<<"DEPTHS", ToJson([c |-> comp, b |-> cur[1], base |-> cur[2], id |-> Blk(comp, cur[1]).id,
                                     d |-> DepthRows(Blk(comp, cur[1]))])>>)
     ELSE TRUE
  /\ UNCHANGED <<comp, cur, tr, rg, work, landed, seen, viol, nvis, nexc, nmrg>>

Next == StartBlock \/ Step \/ FinishBlock
Spec == Init /\ [][Next]_vars

-----------------------------------------------------------------------------
(* Invariants of the interpreter itself (model gate). *)
TypeOK ==
  /\ phase \in {"start", "flow", "next", "done"}
  /\ \A k \in 1..Len(work) :
        /\ work[k][1] \in DOMAIN seen
        /\ work[k][3] >= 0 /\ work[k][4] >= 0 /\ work[k][5] >= 0
        /\ Len(work[k][2]) = Len(tr)
        /\ Len(work[k][7]) = Len(Blk(comp, cur[1]).handlers)
  /\ todo \cap doneB = {}

(* One RESULT line per compilation when its analysis is complete. *)
Emit ==
  phase = "done" =>
    PrintT(<<"RESULT", ToJson([c |-> comp, v |-> SetToSeq(viol), n |-> nvis, x |-> nexc, m |-> nmrg, nb |-> Cardinality(doneB)])>>)

(* The engine's instruction set must be the one OpTable describes (else the table has to be extended: exit 2). *)
SigRows == {EngineSig[k] : k \in 1..Len(EngineSig)}
SigMismatch ==
  {s.op : s \in {s \in SigRows :
             ~(s.op \in OpNames
               /\ Len(s.fields) = Len(OpTable[s.op].roles)
               /\ \A m \in 1..Len(s.fields) : s.fields[m][1] = OpTable[s.op].roles[m][1]
                                             /\ s.fields[m][2] = OpTable[s.op].roles[m][2])}}
  \cup (OpNames \ {s.op : s \in SigRows})
SigReport == PrintT(<<"SIG", ToJson([bad |-> SetToSeq(SigMismatch), n |-> Len(EngineSig)])>>)
ASSUME SigReport

(* Strict reading for replays: stop at the first violation that is not one of the known leftover classes. *)
Clean == \A v \in viol : v[1] \in {"handler-leftover", "handler-leftover-bind", "return-leftover"}
=============================================================================
