------------------------------ MODULE MCLimits ------------------------------
(* Scenario families for Limits.tla (C08).  Family and Tier are chosen by the .cfg.        *)
(* Every terminal state prints one OUT line: the scenario, the print trace and completion  *)
(* of each host step, whether the behaviour followed boa's exact counting, and where a     *)
(* limit fired.  The driver groups the lines by scenario into the set of allowed outcomes. *)
EXTENDS Limits, Json

CONSTANTS Family, Tier

Quick == Tier = "quick"
N == 3                                   \* iterations of every loop

Mk(route, par, site, wrap, form, n, lwrap, bwrap, end) ==
    [route |-> route, par |-> par, site |-> site, wrap |-> wrap, form |-> form, n |-> n,
     lwrap |-> lwrap, bwrap |-> bwrap, end |-> end]

Root == Mk("script", 0, "p", "n", "none", 0, "n", "n", "ret")
RootLoop(form, n, lw, bw) == Mk("script", 0, "p", "n", form, n, lw, bw, "ret")
Leaf(route, par, site, wrap, end) == Mk(route, par, site, wrap, "none", 0, "n", "n", end)

Sc(acts, L, R, S) == [acts |-> acts, L |-> L, R |-> R, S |-> S]

SyncRoutes == {"call", "new", "getter", "setter", "proxyget", "proxyhas", "proxyapply", "proxyconstruct",
               "iterforof", "iterspread", "iterdestr", "iterfactory", "iterreturn", "destrclose",
               "map", "foreach", "sort", "reduce", "replacecb", "tostring", "valueof", "toprimitive",
               "tojson", "hasinstance", "tagged", "evaldirect", "evalindirect", "newfunction",
               "fcall", "fapply", "fbind", "rapply", "rconstruct", "superctor", "classfield",
               "genresume", "genspread", "fromcb", "iterevery", "closethrow", "forofclosethrow"}
DeferRoutes == {"thenjob", "catchjob", "thenable", "asyncsync", "asynccont", "asyncgen"}
AllRoutes == SyncRoutes \cup DeferRoutes
FewRoutes == {"call", "getter", "map", "iterforof", "evaldirect", "fbind", "genresume", "thenjob", "asynccont", "closethrow"}

PlainForms == {"while", "dowhile", "for", "forlet", "forin", "forof", "lwhile", "ldo", "lfor", "lnest", "nest2"}
FormsOf(route) == PlainForms \cup (IF route = "genspread" THEN {"wyield"} ELSE {})
                             \cup (IF route \in {"asyncsync", "asynccont"} THEN {"forawait"} ELSE {})
LGrid == {0, 1, N - 1, N, N + 1}
Wraps == {"n", "c", "f", "cf"}

(* --- loops: every loop form x L grid x kind of code that hosts the loop x wrappers --- *)
LoopHosts == {"call", "genresume", "genspread", "asyncsync", "asynccont", "evaldirect", "thenjob", "getter", "newfunction"}
FamLoop ==
    LET LW == IF Quick THEN {"cf", "infin"} ELSE {"n", "c", "f", "cf", "infin", "incatch"}
        BW == IF Quick THEN {"f"} ELSE {"n", "cf"}
        CW == IF Quick THEN {"cf"} ELSE {"n", "cf"}
        LG == IF Quick THEN LGrid ELSE LGrid \cup {-1}
    IN  {Sc(<<Root, Mk(r, 1, "p", cw, fm, N, lw, bw, "ret")>>, L, -1, -1)
            : r \in LoopHosts, cw \in CW, fm \in PlainForms \cup {"wyield", "forawait"}, lw \in LW, bw \in BW, L \in LG}
        \cup {Sc(<<RootLoop(fm, N, lw, bw)>>, L, -1, -1) : fm \in PlainForms, lw \in LW, bw \in BW, L \in LG}
FamLoopOK == {s \in FamLoop : Len(s.acts) = 1 \/ s.acts[2].form \in FormsOf(s.acts[2].route)}

(* --- runaway loops: many more iterations than the limit allows, in every kind of code --- *)
Big == 40
FamRunaway ==
    {Sc(<<Root, Mk(r, 1, "p", "cf", fm, Big, "cf", "f", "ret")>>, L, -1, -1)
        : r \in (IF Quick THEN {"call", "thenjob", "genspread"} ELSE LoopHosts), fm \in PlainForms \cup {"wyield", "forawait"}, L \in {3, 7}}
    \cup {Sc(<<RootLoop(fm, Big, "cf", "f")>>, L, -1, -1) : fm \in PlainForms, L \in {3, 7}}
FamRunawayOK == {s \in FamRunaway : Len(s.acts) = 1 \/ s.acts[2].form \in FormsOf(s.acts[2].route)}

(* --- routes: every route x R grid x call-site wrapper x ordinary return / throw --- *)
FamRoute ==
    LET CW == IF Quick THEN {"cf"} ELSE Wraps
        RG == IF Quick THEN {2, 3, 4} ELSE {0, 1, 2, 3, 4, 5, -1}
    IN  {Sc(<<Root, Leaf(r, 1, "p", cw, en)>>, -1, R, -1) : r \in AllRoutes, cw \in CW, en \in {"ret", "throw"}, R \in RG}

(* --- a loop limit hit inside the child, across every route, below the parent's wrappers --- *)
FamRouteLoop ==
    LET FM == IF Quick THEN {"for"} ELSE {"while", "for", "forof"}
        LW == IF Quick THEN {"cf"} ELSE {"n", "cf"}
        CW == IF Quick THEN {"cf"} ELSE {"c", "f", "cf"}
        LG == IF Quick THEN {1, N} ELSE {1, N - 1, N}
    IN  {Sc(<<Root, Mk(r, 1, "p", cw, fm, N, lw, "n", "ret")>>, L, -1, -1) : r \in AllRoutes, cw \in CW, fm \in FM, lw \in LW, L \in LG}
        \cup {Sc(<<RootLoop("while", 2, "cf", bw), Mk(r, 1, "b", cw, fm, N, "n", "n", "ret")>>, L, -1, -1)
                : r \in (IF Quick THEN FewRoutes ELSE AllRoutes), bw \in {"f", "cf"}, cw \in {"n", "cf"}, fm \in {"for", "while"}, L \in {1, 2, N}}

(* --- chains of three activations: recursion depth across two routes, loop limit at the bottom --- *)
Chain3Routes == IF Quick THEN FewRoutes ELSE AllRoutes
FamChain3 ==
    {Sc(<<Root, Leaf(r1, 1, "p", "cf", "ret"), Leaf(r2, 2, "p", "cf", "ret")>>, -1, R, -1)
        : r1 \in Chain3Routes, r2 \in Chain3Routes, R \in {3, 4, 5}}
    \cup {Sc(<<Root, Leaf(r1, 1, "p", "cf", "ret"), Mk(r2, 2, "p", "f", "for", N, "cf", "n", "ret")>>, 1, -1, -1)
        : r1 \in Chain3Routes, r2 \in Chain3Routes}

(* --- trees: two children of one parent, one in the loop body and one after the loop --- *)
TreeRoutes == IF Quick THEN {"call", "map", "thenjob", "asynccont"} ELSE FewRoutes
FamTree3 ==
    {Sc(<<RootLoop("while", 2, lw, "f"), Mk(r1, 1, "b", "cf", fm, N, "n", "n", e1), Mk(r2, 1, "p", "f", "for", N, "cf", "n", "ret")>>, L, -1, -1)
        : r1 \in TreeRoutes, r2 \in TreeRoutes, lw \in {"cf"}, fm \in {"none", "dowhile"}, e1 \in {"ret", "throw"}, L \in {1, N, -1}}

(* --- stack-size limit: tiny values, membership only --- *)
FamStack ==
    {Sc(<<Root, Mk(r, 1, "p", "cf", fm, 2, "cf", "n", "ret")>>, -1, -1, S)
        : r \in FewRoutes, fm \in {"none", "while"}, S \in (IF Quick THEN {0, 16, 32} ELSE {0, 8, 16, 24, 32, 48, 64})}

Scenarios ==
    CASE Family = "loop" -> FamLoopOK \cup FamRunawayOK
      [] Family = "route" -> FamRoute
      [] Family = "routeloop" -> FamRouteLoop
      [] Family = "chain3" -> FamChain3
      [] Family = "tree3" -> FamTree3
      [] Family = "stack" -> FamStack
      [] Family = "all" -> FamLoopOK \cup FamRunawayOK \cup FamRoute \cup FamRouteLoop \cup FamChain3 \cup FamTree3 \cup FamStack

WellFormed(s) ==
    /\ \A x \in 2..Len(s.acts) : s.acts[x].par \in 1..(x - 1) /\ (s.acts[x].site = "b" => s.acts[s.acts[x].par].form # "none")
    /\ \A x \in 1..Len(s.acts) : s.acts[x].form \in {"dowhile", "ldo"} => s.acts[x].n >= 1

Init == /\ sc \in {s \in Scenarios : WellFormed(s)}
        /\ m = InitMachine
        /\ u = InitMachine

Spec == Init /\ [][Next]_vars

Emit == Done => PrintT(<<"OUT", ToJson([sc |-> sc, out |-> m.out, comp |-> m.comp, exact |-> m.exact, fire |-> m.fire])>>)
=============================================================================
