CONSTANTS
  GenIds = {1}
  MaxFrames = 3
  MaxStack = 6
  MaxRust = 3
  MaxTmp = 2
  ArgcSet = {0}
  RegSet = {1}
  EvalKinds = {"eval"}
  CallKinds = {"call"}
  WithModule = FALSE
INIT Init
NEXT Next
INVARIANT TypeOK
INVARIANT Balanced
INVARIANT FramePointersMonotone
INVARIANT ExitEarlyUnique
INVARIANT HostDepthCounts
PROPERTY EntryRestores
CHECK_DEADLOCK FALSE
