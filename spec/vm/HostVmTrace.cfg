CONSTANTS
  GenIds = {1}
INIT TInit
NEXT TNext
INVARIANT TraceBalanced
INVARIANT Nesting
PROPERTY TraceEntryRestores
POSTCONDITION AllConsumed
CHECK_DEADLOCK FALSE
