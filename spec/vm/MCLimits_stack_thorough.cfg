SPECIFICATION Spec
CONSTANTS
  Family = "stack"
  Tier = "thorough"
CHECK_DEADLOCK FALSE
INVARIANTS
  NothingAfterLimit
  ChainGone
  LoopBound
  NoEarlyFire
  DepthBound
  WindowOK
  UnderLimitSame
  PrefixOfFree
  StackShape
  Emit
