SPECIFICATION Spec
CONSTANTS
  Family = "loop"
  Tier = "thorough"
CHECK_DEADLOCK FALSE
INVARIANTS
  NothingAfterLimit
  ChainGone
  LoopBound
  NoEarlyFire
  DepthBound
  WindowOK
  UnderLimitSame
  PrefixOfFree
  StackShape
  Emit
