SPECIFICATION Spec
CONSTANTS
  Family = "tree3"
  Tier = "quick"
CHECK_DEADLOCK FALSE
INVARIANTS
  NothingAfterLimit
  ChainGone
  LoopBound
  NoEarlyFire
  DepthBound
  WindowOK
  UnderLimitSame
  PrefixOfFree
  StackShape
  Emit
