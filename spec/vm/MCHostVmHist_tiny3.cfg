CONSTANTS
  Alphabet <- AlphaTiny
  MaxLen = 3
  GenIds <- GenIdsMC
INIT HInit
NEXT HNext
INVARIANT TypeOK
INVARIANT Balanced
INVARIANT HistBalanced
INVARIANT FramePointersMonotone
INVARIANT ExitEarlyUnique
INVARIANT HostDepthCounts
INVARIANT EmitHist
PROPERTY EntryRestores
CHECK_DEADLOCK TRUE
