SPECIFICATION Spec
INVARIANT TypeOK
INVARIANT Clean
CHECK_DEADLOCK FALSE
