SPECIFICATION Spec
CONSTANTS
  Family = "chain3"
  Tier = "thorough"
CHECK_DEADLOCK FALSE
INVARIANTS
  NothingAfterLimit
  ChainGone
  LoopBound
  NoEarlyFire
  DepthBound
  WindowOK
  UnderLimitSame
  PrefixOfFree
  StackShape
  Emit
