SPECIFICATION Spec
CONSTANTS
  Family = "all"
  Tier = "thorough"
CHECK_DEADLOCK FALSE
INVARIANTS
  NothingAfterLimit
  ChainGone
  LoopBound
  NoEarlyFire
  DepthBound
  WindowOK
  UnderLimitSame
  PrefixOfFree
  StackShape
  Emit
