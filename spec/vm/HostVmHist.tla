----------------------------- MODULE HostVmHist -----------------------------
(***************************************************************************)
(* Scenario model on top of HostVm.tla: enumerates host-entry HISTORIES on *)
(* one context.  A history is a sequence of entry plans                    *)
(*   [ek, ck, d, cat, nat, rt, lk, why]                                    *)
(*   ek   entry kind: eval | evalasync | module | call | construct | jobs  *)
(*        | gen (host call of a function that resumes a generator)         *)
(*   ck   what happens: normal | throw | limit | reserr (the callee cannot  *)
(*        be called) | preperr (declaration instantiation fails)           *)
(*   d    call depth (below the entry's own activation) at which it arises *)
(*   cat  0 = no try/catch anywhere, c > 0 = try/catch around the call     *)
(*        made by level c-1 (around the action itself when c-1 = d)        *)
(*   nat  0 = plain JS calls, n > 0 = level n is entered through a native  *)
(*        re-entry (route rt: getter | map | reenter | renew | evalfn)     *)
(*   lk   limit kind for ck = limit (loop | rec)                           *)
(* Each plan is EXECUTED with the actions of HostVm.tla (the driver below  *)
(* only sequences them), so the expected observations of a history - the   *)
(* host-visible completion, the print trace ("in"/"catch"/"out" per level),*)
(* the completions of nested entries, and the fact that every entry        *)
(* restores the depths - are produced by the mechanism model, and TLC      *)
(* checks HostVm's invariants on every step of every history.              *)
(***************************************************************************)
EXTENDS HostVm, TLC, Json

CONSTANTS Alphabet, MaxLen

VARIABLES plan, pc, lvs, out, nested, hist

hvars == <<plan, pc, lvs, out, nested, hist>>
vars  == <<vmvars, hvars>>

NoPlan == [ek |-> "none", ck |-> "none", d |-> 0, cat |-> 0, nat |-> 0, rt |-> "js", lk |-> "none", why |-> "none"]
Prelude == 99              \* level tag of frames that belong to the entry's prelude (generator driver R, G)

ArgcOf(l) == l % 2
RegsOf(l) == 1 + (l % 2)
GenOf == Len(hist) + 1     \* a fresh generator per entry

HInit ==
  /\ Init
  /\ plan = NoPlan /\ pc = "idle" /\ lvs = <<Prelude>> /\ out = <<>> /\ nested = <<>> /\ hist = <<>>

\* lvs is a ghost stack parallel to `frames`: the scenario level each frame belongs to
Track(newlevel) ==
  lvs' = IF Len(frames') <= Len(lvs) THEN SubSeq(lvs, 1, Len(frames')) ELSE Append(lvs, newlevel)
Lvl == Top(lvs)

Keep(vs) == UNCHANGED vs

\* ----- choose the next entry
Choose ==
  /\ pc = "idle" /\ Len(hist) < MaxLen
  /\ \E p \in Alphabet :
       /\ plan' = p
       /\ pc' = CASE p.ek \in {"eval", "evalasync"} -> "pre_eval"
                  [] p.ek = "module" -> "pre_mod"
                  [] p.ek \in {"call", "construct"} -> "pre_call"
                  [] p.ek = "jobs" -> "pre_jobs"
                  [] p.ek = "gen" -> "pre_gen0"
  /\ out' = <<>> /\ nested' = <<>>
  /\ UNCHANGED <<vmvars, lvs, hist>>

\* ----- preludes: from the host into level 0
PreEval ==
  /\ pc = "pre_eval"
  /\ HostEnterEval(plan.ek, 2) /\ Track(0)
  /\ pc' = "prep" /\ UNCHANGED <<plan, out, nested, hist>>

PreMod ==
  \/ /\ pc = "pre_mod" /\ HostEnterModule(1) /\ Track(Prelude)
     /\ pc' = "pre_mod1" /\ UNCHANGED <<plan, out, nested, hist>>
  \/ /\ pc = "pre_mod1" /\ ModuleLinked(2) /\ lvs' = Append(SubSeq(lvs, 1, Len(lvs) - 1), 0)
     /\ pc' = "prep" /\ UNCHANGED <<plan, out, nested, hist>>

Prep ==
  /\ pc = "prep"
  /\ IF plan.ck = "preperr"
       THEN PrepareErr /\ Track(0) /\ pc' = "exit"
       ELSE PrepareOk /\ Track(0) /\ pc' = "in"
  /\ UNCHANGED <<plan, out, nested, hist>>

PreCall ==
  \/ /\ pc = "pre_call" /\ HostEnterCall(plan.ek, 1) /\ Track(0)
     /\ pc' = "pre_call1" /\ UNCHANGED <<plan, out, nested, hist>>
  \/ /\ pc = "pre_call1"
     /\ IF plan.ck = "reserr"
          THEN ResolveErr(IF plan.why = "limit" THEN "limit" ELSE "throw") /\ Track(0) /\ pc' = "exit"
          ELSE ResolveJs(2) /\ Track(0) /\ pc' = "in"
     /\ UNCHANGED <<plan, out, nested, hist>>

PreJobs ==
  \/ /\ pc = "pre_jobs" /\ HostEnterJobs /\ Track(0)
     /\ pc' = "pre_jobs1" /\ UNCHANGED <<plan, out, nested, hist>>
  \/ /\ pc = "pre_jobs1" /\ HostEnterCall("call", 1) /\ Track(0)
     /\ pc' = "pre_jobs2" /\ UNCHANGED <<plan, out, nested, hist>>
  \/ /\ pc = "pre_jobs2" /\ ResolveJs(2) /\ Track(0)
     /\ pc' = "in" /\ UNCHANGED <<plan, out, nested, hist>>

\* host calls R; R calls the generator function G (GenCreate), resumes it once up to its first
\* yield, and resumes it again: level 0 is the generator body after that yield
PreGen ==
  \/ /\ pc = "pre_gen0" /\ HostEnterCall("call", 0) /\ Track(Prelude) /\ pc' = "pre_gen1"
  \/ /\ pc = "pre_gen1" /\ ResolveJs(2) /\ Track(Prelude) /\ pc' = "pre_gen2"
  \/ /\ pc = "pre_gen2" /\ PushTmp(2) /\ Track(Prelude) /\ pc' = "pre_gen3"
  \/ /\ pc = "pre_gen3" /\ CallJs(0, 2) /\ Track(0) /\ pc' = "pre_gen4"
  \/ /\ pc = "pre_gen4" /\ GenCreate(GenOf) /\ Track(Prelude) /\ pc' = "pre_gen5"
  \/ /\ pc = "pre_gen5" /\ PushTmp(1) /\ Track(Prelude) /\ pc' = "pre_gen6"          \* it.next: this = it (already there), func
  \/ /\ pc = "pre_gen6" /\ CallNative(0) /\ Track(Prelude) /\ pc' = "pre_gen7"
  \/ /\ pc = "pre_gen7" /\ GenResume(GenOf) /\ Track(0) /\ pc' = "pre_gen8"
  \/ /\ pc = "pre_gen8" /\ GenYield /\ Track(0) /\ pc' = "pre_gen9"
  \/ /\ pc = "pre_gen9" /\ ResumeExit("yield") /\ Track(Prelude) /\ pc' = "pre_gen10"
  \/ /\ pc = "pre_gen10" /\ NativeReturn /\ Track(Prelude) /\ pc' = "pre_gen11"
  \/ /\ pc = "pre_gen11" /\ PushTmp(1) /\ Track(Prelude) /\ pc' = "pre_gen12"
  \/ /\ pc = "pre_gen12" /\ CallNative(0) /\ Track(Prelude) /\ pc' = "pre_gen13"
  \/ /\ pc = "pre_gen13" /\ GenResume(GenOf) /\ Track(0) /\ pc' = "in"

PreGenStep == PreGen /\ UNCHANGED <<plan, out, nested, hist>>

\* ----- going down: level Lvl starts
In ==
  /\ pc = "in"
  /\ out' = Append(out, <<"in", Lvl>>)
  /\ IF plan.cat = Lvl + 1 THEN EnterTry /\ Track(0) ELSE UNCHANGED <<vmvars, lvs>>
  /\ pc' = "go"
  /\ UNCHANGED <<plan, nested, hist>>

Go ==
  /\ pc = "go"
  /\ IF Lvl < plan.d
       THEN IF plan.nat = Lvl + 1
              THEN IF plan.rt = "getter"
                     THEN OpReenter /\ Track(0) /\ pc' = "nat3"
                     ELSE PushTmp(3) /\ Track(0) /\ pc' = "nat2"            \* this, native func, callee as argument
              ELSE PushTmp(2 + ArgcOf(Lvl + 1)) /\ Track(0) /\ pc' = "calljs"
       ELSE CASE plan.ck = "normal" -> UNCHANGED <<vmvars, lvs>> /\ pc' = "ret"
              [] plan.ck = "throw"  -> ThrowHere /\ Track(0) /\ pc' = "raise"
              [] plan.ck = "limit"  -> Uncatchable /\ Track(0) /\ pc' = "exit"
  /\ UNCHANGED <<plan, out, nested, hist>>

CallJsStep ==
  /\ pc = "calljs"
  /\ CallJs(ArgcOf(Lvl + 1), RegsOf(Lvl + 1)) /\ Track(Lvl + 1)
  /\ pc' = "in" /\ UNCHANGED <<plan, out, nested, hist>>

NatRe ==
  \/ /\ pc = "nat2" /\ CallNative(1) /\ Track(0) /\ pc' = "nat3"
  \/ /\ pc = "nat3" /\ plan.rt # "evalfn"
     /\ HostEnterCall(IF plan.rt = "renew" THEN "construct" ELSE "call", IF plan.rt = "map" THEN 3 ELSE 0)
     /\ Track(0) /\ pc' = "nat4"
  \/ /\ pc = "nat4" /\ ResolveJs(RegsOf(Lvl + 1)) /\ Track(Lvl + 1) /\ pc' = "in"
  \* route evalfn: the `eval` builtin (Eval::perform_eval) is itself an entry with an EXIT_EARLY frame for the
  \* eval code, which then calls the next level
  \/ /\ pc = "nat3" /\ plan.rt = "evalfn" /\ HostEnterEval("eval", 1) /\ Track(Prelude) /\ pc' = "ev1"
  \/ /\ pc = "ev1" /\ PrepareOk /\ Track(0) /\ pc' = "ev2"
  \/ /\ pc = "ev2" /\ PushTmp(2 + ArgcOf(plan.nat)) /\ Track(0) /\ pc' = "ev3"
  \/ /\ pc = "ev3" /\ CallJs(ArgcOf(plan.nat), RegsOf(plan.nat)) /\ Track(plan.nat) /\ pc' = "in"

NatStep == NatRe /\ UNCHANGED <<plan, out, nested, hist>>

\* ----- coming back
\* the running level completes normally
Ret ==
  /\ pc = "ret"
  /\ IF TopF.tries # <<>>
       THEN LeaveTry /\ Track(0) /\ pc' = "ret" /\ UNCHANGED out
       ELSE /\ ReturnOp /\ Track(0)
            /\ out' = IF Lvl = Prelude THEN out ELSE Append(out, <<"out", Lvl>>)
            /\ pc' = IF comp' = "none" THEN "ret" ELSE "exit"
  /\ UNCHANGED <<plan, nested, hist>>

\* an exception is pending in the running frame: the model decides who takes it
Raise ==
  /\ pc = "raise"
  /\ IF Handlers(TopAct) # {}
       THEN LET i == Max(Handlers(TopAct))
            IN CatchAt(i) /\ Track(0) /\ out' = Append(out, <<"catch", lvs[i]>>) /\ pc' = "ret"
       ELSE UnwindToExit /\ Track(0) /\ UNCHANGED out /\ pc' = "exit"
  /\ UNCHANGED <<plan, nested, hist>>

\* a run() returned to the Rust code that started it
Exit ==
  /\ pc = "exit" /\ Len(rust) > 1
  /\ IF TopAct.t = "resume"
       THEN ResumeExit(comp) /\ Track(0) /\ UNCHANGED nested /\ pc' = "natret"
       ELSE /\ HostExit(TopAct.kind, comp) /\ Track(0)
            /\ nested' = Append(nested, <<TopAct.kind, comp>>)
            /\ pc' = "natret"
  /\ UNCHANGED <<plan, out, hist>>

\* the Rust code between two VM runs continues: natives propagate what they got, the job executor
\* swallows a throw
NatRet ==
  /\ pc = "natret"
  /\ IF TopAct.st = "jobs"
       THEN JobsDone(IF TopAct.last = "limit" THEN "limit" ELSE "return") /\ Track(0) /\ pc' = "exit"
       ELSE CASE TopAct.last = "return" -> NativeReturn /\ Track(0) /\ pc' = "ret"
              [] TopAct.last = "throw"  -> NativeErrThrow /\ Track(0) /\ pc' = "raise"
              [] TopAct.last = "limit"  -> NativeErrLimit /\ Track(0) /\ pc' = "exit"
  /\ UNCHANGED <<plan, out, nested, hist>>

\* HostExit of the outermost activation: PopTell gives <<>>; remember the completion for Done
ExitTop ==
  /\ pc = "exit" /\ Len(rust) = 1 /\ TopAct.t = "entry"
  /\ LET c == comp IN
     /\ HostExit(TopAct.kind, c) /\ Track(0)
     /\ hist' = Append(hist, [sym |-> plan, c |-> c, out |-> out, nested |-> nested])
  /\ pc' = "idle" /\ plan' = NoPlan /\ out' = <<>> /\ nested' = <<>>

\* all histories of the bound have been produced (explicit stuttering, so that TLC's deadlock check
\* reports a plan that the mechanism cannot execute to its end)
Finished == pc = "idle" /\ Len(hist) = MaxLen /\ UNCHANGED vars

HNext ==
  \/ Choose \/ PreEval \/ PreMod \/ Prep \/ PreCall \/ PreJobs \/ PreGenStep
  \/ In \/ Go \/ CallJsStep \/ NatStep \/ Ret \/ Raise
  \/ Exit \/ ExitTop \/ NatRet \/ Finished

HSpec == HInit /\ [][HNext]_vars

\* ----- what TLC checks / emits
HistBalanced == (pc = "idle") => (InHost /\ Balanced)

EmitHist == (pc = "idle" /\ hist # <<>>) => PrintT(<<"HIST", ToJson(hist)>>)
=============================================================================
