SPECIFICATION Spec
CONSTANTS
  Family = "route"
  Tier = "quick"
CHECK_DEADLOCK FALSE
INVARIANTS
  NothingAfterLimit
  ChainGone
  LoopBound
  NoEarlyFire
  DepthBound
  WindowOK
  UnderLimitSame
  PrefixOfFree
  StackShape
  Emit
