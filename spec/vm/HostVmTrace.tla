----------------------------- MODULE HostVmTrace -----------------------------
(***************************************************************************)
(* Trace validation for C07 (mode B): recorded executions of the real      *)
(* engine are checked against the host-entry discipline of HostVm.tla.     *)
(*                                                                         *)
(* The recorder (harness/crates/hhost) sees what the embedder sees: one    *)
(* `enter` event before and one `exit` event after every host entry made   *)
(* by the driver or by the recording natives __reenter/__renew (nested     *)
(* entries), each with the VM depths at that moment (frames, value-stack   *)
(* length, pending exception).  What the VM does between two events is not *)
(* recorded; the spec lets it progress arbitrarily INSIDE the innermost    *)
(* open entry (the frame stack may only grow above that entry's base; the  *)
(* value-stack length of a nested enter is taken as found, because a       *)
(* running generator has swapped in its private stack) and holds it to     *)
(* HostVm's design at the boundaries:                                      *)
(*   - entries nest (an exit closes the innermost open entry, same kind),  *)
(*   - a host entry ends as return, throw or limit - nothing else (C02),   *)
(*   - HostExit leaves exactly the depths found on entry (EntryRestores),  *)
(*   - with control back in the embedder the VM is Balanced.               *)
(* An execution whose next event is not a step of this spec is REJECTED:   *)
(* the spec reports <<"REJECT", {x, l, why}>> and skips to the next        *)
(* `reset` event, so one TLC run classifies many concatenated executions.  *)
(* TLC evaluates Balanced / Nesting / EntryRestores on every state.        *)
(***************************************************************************)
EXTENDS HostVm, TLC, Json, IOUtils

Rec == ndJsonDeserialize(IOEnv.TRACE)

VARIABLES l, skip
tvars == <<vmvars, l, skip>>

Ev == Rec[l]

TInit == Init /\ l = 1 /\ skip = FALSE

GrowTo(f) == [i \in 1..f |-> IF i <= Len(frames) THEN frames[i] ELSE Dummy]

HostCompletion(c) == CASE c = "normal" -> "return" [] c = "throw" -> "throw" [] c = "limit" -> "limit" [] OTHER -> "internal"

\* ---- enter: HostEnter* of HostVm, preceded by unrecorded VM progress inside the open entry
EnterWhy ==
  IF ~(Ev.k \in EntryKinds) THEN "unknown-kind"
  ELSE IF Ev.n # Len(rust) THEN "nesting"
  ELSE IF Ev.p THEN "pending-at-enter"
  ELSE IF InHost /\ ~(Ev.f = Len(frames) /\ Ev.s = stackLen) THEN "host-state-changed"
  ELSE IF ~InHost /\ ~(Ev.f >= TopAct.bf) THEN "below-entry-base"
  ELSE "ok"

TrEnter ==
  /\ frames' = GrowTo(Ev.f)
  /\ stackLen' = Ev.s
  /\ rust' = Append(rust, [t |-> "entry", kind |-> Ev.k, st |-> "opaque", argc |-> 0, eidx |-> 0, g |-> 0, ostk |-> 0,
                           bf |-> Ev.f, bs |-> Ev.s, bh |-> hostDepth, last |-> "none"])
  /\ UNCHANGED <<hostDepth, pending, gens, comp>>

\* ---- exit: whatever the VM did, HostExit of the innermost open entry hands back the completion and
\*      leaves the depths the entry started with; the recorded depths have to be those
ExitWhy ==
  IF HostCompletion(Ev.c) = "internal" THEN "internal-failure"
  ELSE IF rust = <<>> \/ Ev.n # Len(rust) - 1 THEN "nesting"
  ELSE IF TopAct.kind # Ev.k THEN "nesting"
  ELSE IF Ev.f # TopAct.bf THEN "frames"
  ELSE IF Ev.s # TopAct.bs THEN "stack"
  ELSE IF Ev.p THEN "pending"
  ELSE "ok"

TrExit ==
  /\ frames' = SubSeq(frames, 1, TopAct.bf)
  /\ stackLen' = TopAct.bs
  /\ pending' = FALSE
  /\ hostDepth' = TopAct.bh
  /\ rust' = PopTell(HostCompletion(Ev.c))
  /\ UNCHANGED <<gens, comp>>

Why == IF Ev.e = "enter" THEN EnterWhy ELSE IF Ev.e = "exit" THEN ExitWhy ELSE "unknown-event"

Reset ==
  /\ frames' = <<Dummy>> /\ stackLen' = 0 /\ hostDepth' = 0 /\ pending' = FALSE
  /\ gens' = [g \in GenIds |-> NoGen] /\ rust' = <<>> /\ comp' = "none"
  /\ skip' = FALSE

Reject(why) ==
  /\ PrintT(<<"REJECT", ToJson([x |-> Ev.x, l |-> l, why |-> why, e |-> Ev.e, k |-> Ev.k, n |-> Ev.n])>>)
  /\ skip' = TRUE
  /\ UNCHANGED vmvars

TNext ==
  /\ l <= Len(Rec)
  /\ l' = l + 1
  /\ IF Ev.e = "reset" THEN Reset
     ELSE IF skip THEN UNCHANGED <<vmvars, skip>>
     ELSE IF Why # "ok" THEN Reject(Why)
     ELSE /\ (IF Ev.e = "enter" THEN TrEnter ELSE TrExit)
          /\ UNCHANGED skip

TSpec == TInit /\ [][TNext]_tvars

\* ---- properties evaluated on the recorded executions
TraceBalanced == Balanced

Nesting ==
  /\ \A k \in 1..Len(rust) : rust[k].t = "entry" /\ rust[k].kind \in EntryKinds
  /\ \A k \in 1..Len(rust) : rust[k].bf <= Len(frames)
  /\ \A k \in 1..(Len(rust) - 1) : rust[k].bf <= rust[k + 1].bf
  /\ (rust # <<>>) => (rust[1].bf = 1 /\ rust[1].bs = 0)

TraceEntryRestores == [][(l <= Len(Rec) /\ Ev.e # "reset") => EntryRestoresStep]_tvars

\* every event was consumed (one step per event)
AllConsumed ==
  IF TLCGet("stats").diameter = Len(Rec) + 1 THEN TRUE
  ELSE Print(<<"UNCONSUMED", TLCGet("stats").diameter, Len(Rec)>>, FALSE)
=============================================================================
