---------------------------- MODULE MCHostVmHist ----------------------------
(* Alphabets of entry plans and bounds for the history enumeration of HostVmHist.tla *)
EXTENDS HostVmHist

P(ek, ck, d, cat, nat, rt, lk, why) ==
  [ek |-> ek, ck |-> ck, d |-> d, cat |-> cat, nat |-> nat, rt |-> rt, lk |-> lk, why |-> why]

EKs == {"eval", "evalasync", "module", "call", "construct", "jobs", "gen"}
Routes == {"getter", "map", "reenter", "renew", "evalfn"}

\* native boundary choices for depth d: none, or level n in 1..d with every route
NatChoices(d) == {<<0, "js">>} \cup {<<n, r>> : n \in 1..d, r \in Routes}

Normals(D)  == {P(ek, "normal", d, 0, nr[1], nr[2], "none", "none") : ek \in EKs, d \in D, nr \in NatChoices(3)}
Throws(D)   == {P(ek, "throw", d, c, nr[1], nr[2], "none", "none") : ek \in EKs, d \in D, c \in 0..4, nr \in NatChoices(3)}
Limits(D)   == {P(ek, "limit", d, c, nr[1], nr[2], lk, "none") : ek \in EKs, d \in D, c \in {0, 1}, nr \in NatChoices(3), lk \in {"loop", "rec"}}
WellFormed(p) == p.nat <= p.d /\ p.cat <= p.d + 1
ResErrs == {P(ek, "reserr", 0, 0, 0, "js", "none", why) : ek \in {"call", "construct"}, why \in {"notcallable", "classcall"}}
           \ {P("construct", "reserr", 0, 0, 0, "js", "none", "classcall")}
PrepErrs == {P(ek, "preperr", 0, 0, 0, "js", "none", "none") : ek \in {"eval", "evalasync"}}

\* every single entry plan with depth 0..3
AlphaFull == {p \in Normals(0..3) \cup Throws(0..3) \cup Limits(0..3) : WellFormed(p)} \cup ResErrs \cup PrepErrs

\* a representative of every class (entry kind x completion x catch site x re-entry) for pairs/triples
Mid(ek) ==
  { P(ek, "normal", 1, 0, 0, "js", "none", "none"),
    P(ek, "throw", 0, 0, 0, "js", "none", "none"),
    P(ek, "throw", 2, 0, 0, "js", "none", "none"),
    P(ek, "throw", 1, 2, 0, "js", "none", "none"),
    P(ek, "throw", 2, 1, 0, "js", "none", "none"),
    P(ek, "throw", 2, 1, 2, "reenter", "none", "none"),
    P(ek, "throw", 2, 0, 1, "getter", "none", "none"),
    P(ek, "limit", 1, 1, 0, "js", "loop", "none"),
    P(ek, "limit", 2, 0, 1, "map", "rec", "none") }
AlphaMid == UNION {Mid(ek) : ek \in EKs} \cup ResErrs \cup PrepErrs

Small(ek) ==
  { P(ek, "normal", 1, 0, 0, "js", "none", "none"),
    P(ek, "throw", 2, 0, 0, "js", "none", "none"),
    P(ek, "throw", 2, 1, 2, "reenter", "none", "none"),
    P(ek, "limit", 1, 1, 0, "js", "loop", "none") }
AlphaSmall == UNION {Small(ek) : ek \in {"eval", "call", "construct", "jobs", "gen"}}
              \cup {P("call", "reserr", 0, 0, 0, "js", "none", "notcallable"), P("evalasync", "preperr", 0, 0, 0, "js", "none", "none"),
                    P("module", "throw", 1, 0, 0, "js", "none", "none")}

AlphaTiny ==
  { P("eval", "normal", 1, 0, 0, "js", "none", "none"),
    P("eval", "throw", 2, 0, 0, "js", "none", "none"),
    P("call", "throw", 2, 1, 2, "reenter", "none", "none"),
    P("call", "limit", 1, 1, 0, "js", "loop", "none"),
    P("jobs", "throw", 1, 0, 0, "js", "none", "none"),
    P("gen", "limit", 1, 0, 0, "js", "rec", "none"),
    P("module", "throw", 3, 2, 3, "evalfn", "none", "none") }

GenIdsMC == 1..MaxLen
=============================================================================
