CONSTANTS
  GenIds = {1}
  MaxFrames = 3
  MaxStack = 7
  MaxRust = 3
  MaxTmp = 2
  ArgcSet = {0}
  RegSet = {1}
  EvalKinds = {"eval"}
  CallKinds = {"call", "construct"}
  WithModule = TRUE
INIT Init
NEXT Next
INVARIANT TypeOK
INVARIANT Balanced
INVARIANT FramePointersMonotone
INVARIANT ExitEarlyUnique
INVARIANT HostDepthCounts
PROPERTY EntryRestores
CHECK_DEADLOCK FALSE
