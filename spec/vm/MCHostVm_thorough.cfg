CONSTANTS
  GenIds = {1}
  MaxFrames = 3
  MaxStack = 8
  MaxRust = 3
  MaxTmp = 2
  ArgcSet = {0, 1}
  RegSet = {1}
INIT Init
NEXT Next
CONSTRAINT Bound
INVARIANT TypeOK
INVARIANT Balanced
INVARIANT FramePointersMonotone
INVARIANT ExitEarlyUnique
INVARIANT HostDepthCounts
PROPERTY EntryRestores
CHECK_DEADLOCK FALSE
