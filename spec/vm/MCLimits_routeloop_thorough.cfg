SPECIFICATION Spec
CONSTANTS
  Family = "routeloop"
  Tier = "thorough"
CHECK_DEADLOCK FALSE
INVARIANTS
  NothingAfterLimit
  ChainGone
  LoopBound
  NoEarlyFire
  DepthBound
  WindowOK
  UnderLimitSame
  PrefixOfFree
  StackShape
  Emit
