CONSTANTS
  GenIds = {1}
  MaxFrames = 3
  MaxStack = 7
  MaxRust = 3
  MaxTmp = 2
  ArgcSet = {0, 1}
  RegSet = {1}
  EvalKinds = {"eval", "evalasync"}
  CallKinds = {"call", "construct"}
  WithModule = TRUE
INIT Init
NEXT Next
INVARIANT TypeOK
INVARIANT Balanced
INVARIANT FramePointersMonotone
INVARIANT ExitEarlyUnique
INVARIANT HostDepthCounts
PROPERTY EntryRestores
CHECK_DEADLOCK FALSE
