SPECIFICATION Spec
INVARIANT TypeOK
INVARIANT Emit
CHECK_DEADLOCK FALSE
