------------------------------ MODULE MCHostVm ------------------------------
(* Model gate for HostVm.tla: free exploration of every interleaving of the mechanism actions *)
(* inside small bounds; TLC checks Balanced, FramePointersMonotone, ExitEarlyUnique,          *)
(* HostDepthCounts and the action property EntryRestores on all of them.                    *)
EXTENDS HostVm, TLC

CONSTANTS MaxFrames, MaxStack, MaxRust, MaxTmp, ArgcSet, RegSet

Next ==
  \/ \E k \in {"eval", "evalasync"}, r \in RegSet : HostEnterEval(k, r)
  \/ \E r \in RegSet : HostEnterModule(r)
  \/ \E r \in RegSet : ModuleLinked(r)
  \/ PrepareOk
  \/ PrepareErr
  \/ \E k \in {"call", "construct"}, a \in ArgcSet : HostEnterCall(k, a)
  \/ \E r \in RegSet : ResolveJs(r)
  \/ \E c \in {"throw", "limit"} : ResolveErr(c)
  \/ ResolveNative
  \/ \E c \in Completions : DirectDone(c)
  \/ HostEnterJobs
  \/ \E c \in Completions : JobsDone(c)
  \/ \E k \in EntryKinds, c \in Completions : HostExit(k, c)
  \/ \E n \in 1..2 : PushTmp(n)
  \/ PopTmp(1)
  \/ \E a \in ArgcSet, r \in RegSet : CallJs(a, r)
  \/ \E a \in ArgcSet : CallNative(a)
  \/ OpReenter
  \/ NativeReturn
  \/ NativeErrThrow
  \/ NativeErrLimit
  \/ EnterTry
  \/ LeaveTry
  \/ ThrowHere
  \/ \E i \in 1..Len(frames) : CatchAt(i)
  \/ UnwindToExit
  \/ Uncatchable
  \/ ReturnOp
  \/ \E g \in GenIds : GenCreate(g)
  \/ \E g \in GenIds : GenResume(g)
  \/ GenYield
  \/ \E c \in Completions \cup {"yield"} : ResumeExit(c)

Spec == Init /\ [][Next]_vmvars

Bound ==
  /\ Len(frames) <= MaxFrames
  /\ stackLen <= MaxStack
  /\ Len(rust) <= MaxRust
  /\ \A g \in GenIds : gens[g].saved <= MaxStack
  /\ \A i \in 1..Len(frames) : Len(frames[i].tries) <= 1
  /\ stackLen <= Floor(TopF) + MaxTmp
=============================================================================
