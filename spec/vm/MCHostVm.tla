------------------------------ MODULE MCHostVm ------------------------------
(* Model gate for HostVm.tla: free exploration of every interleaving of the mechanism actions *)
(* inside small bounds; TLC checks Balanced, FramePointersMonotone, ExitEarlyUnique,          *)
(* HostDepthCounts and the action property EntryRestores on all of them.                    *)
EXTENDS HostVm, TLC

CONSTANTS MaxFrames, MaxStack, MaxRust, MaxTmp, ArgcSet, RegSet,
          EvalKinds, CallKinds, WithModule    \* which of the (model-identical) entry kinds are explored

\* The bounds are GUARDS of the actions that make the state grow, not a state constraint: a state
\* constraint would silently discard exactly the states a broken design produces (leftover slots
\* above the running frame's bound) before any invariant is evaluated on them.
RoomF == Len(frames) < MaxFrames
RoomR == Len(rust) < MaxRust
RoomS(n) == stackLen + n <= MaxStack

Next ==
  \/ \E k \in EvalKinds, r \in RegSet : RoomF /\ RoomR /\ RoomS(2 + r) /\ HostEnterEval(k, r)
  \/ \E r \in RegSet : WithModule /\ RoomF /\ RoomR /\ RoomS(2 + r) /\ HostEnterModule(r)
  \/ \E r \in RegSet : ModuleLinked(r)
  \/ PrepareOk
  \/ PrepareErr
  \/ \E k \in CallKinds, a \in ArgcSet : RoomR /\ RoomS(3 + a) /\ HostEnterCall(k, a)
  \/ \E r \in RegSet : RoomF /\ RoomS(r) /\ ResolveJs(r)
  \/ \E c \in {"throw", "limit"} : ResolveErr(c)
  \/ ResolveNative
  \/ \E c \in Completions : DirectDone(c)
  \/ RoomR /\ HostEnterJobs
  \/ \E c \in Completions : JobsDone(c)
  \/ \E k \in EntryKinds, c \in Completions : HostExit(k, c)
  \/ \E n \in 1..2 : RoomS(n) /\ stackLen + n <= Floor(TopF) + MaxTmp /\ PushTmp(n)
  \/ PopTmp(1)
  \/ \E a \in ArgcSet, r \in RegSet : RoomF /\ RoomS(r) /\ CallJs(a, r)
  \/ \E a \in ArgcSet : RoomR /\ CallNative(a)
  \/ RoomR /\ OpReenter
  \/ NativeReturn
  \/ NativeErrThrow
  \/ NativeErrLimit
  \/ Len(TopF.tries) < 1 /\ EnterTry
  \/ LeaveTry
  \/ ThrowHere
  \/ \E i \in 1..Len(frames) : CatchAt(i)
  \/ UnwindToExit
  \/ Uncatchable
  \/ ReturnOp
  \/ \E g \in GenIds : GenCreate(g)
  \/ \E g \in GenIds : RoomF /\ RoomR /\ GenResume(g)
  \/ GenYield
  \/ \E c \in Completions \cup {"yield"} : ResumeExit(c)

Spec == Init /\ [][Next]_vmvars

=============================================================================
