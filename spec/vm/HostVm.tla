------------------------------- MODULE HostVm -------------------------------
(***************************************************************************)
(* C07 - "Every host entry leaves the VM balanced and the context          *)
(* reusable".  Implementation-shaped model of boa's frame / value-stack    *)
(* discipline (core/engine/src/vm/mod.rs, script.rs, object/operations.rs, *)
(* builtins/generator/mod.rs), written as the INTENDED design: every path  *)
(* by which control returns to Rust code that entered the VM leaves the    *)
(* frame stack and the value stack exactly as that code found them.        *)
(*                                                                         *)
(* State                                                                   *)
(*   frames    call-frame stack; frames[1] is the dummy frame (Vm::new).   *)
(*             A frame is [ee, fp, rp, argc, regs, stk, tries]:            *)
(*             ee = CallFrameFlags::EXIT_EARLY, fp/rp = frame/register     *)
(*             pointer into value stack `stk` (0 = the context's stack,    *)
(*             g > 0 = private stack of generator g), tries = value-stack  *)
(*             depth recorded for each enclosing try region (what a        *)
(*             handler has to restore).                                    *)
(*   stackLen  length of the CURRENT value stack (Vm.stack)                *)
(*   hostDepth Vm.host_call_depth                                          *)
(*   pending   Vm.pending_exception.is_some()                              *)
(*   gens      per generator: state, length of the stack held in its       *)
(*             GeneratorContext (its own stack while suspended, the        *)
(*             swapped-out outer stack while running), saved frame         *)
(*   rust      the Rust activations that sit between VM runs: one record   *)
(*             per active host entry (Script::evaluate, JsObject::call,    *)
(*             run_jobs, ...), per native function called by an opcode,    *)
(*             per GeneratorContext::resume.  Its top says who is in       *)
(*             control; empty = the embedder.                              *)
(*   comp      completion record travelling from `Context::run` to the     *)
(*             Rust code that called it ("none" while nothing travels)     *)
(***************************************************************************)
EXTENDS Naturals, Sequences, FiniteSets

CONSTANTS GenIds          \* identities of generator objects

VARIABLES frames, stackLen, hostDepth, pending, gens, rust, comp

vmvars == <<frames, stackLen, hostDepth, pending, gens, rust, comp>>

Dummy == [ee |-> FALSE, fp |-> 0, rp |-> 0, argc |-> 0, regs |-> 0, stk |-> 0, tries |-> <<>>]
NoGen == [st |-> "none", saved |-> 0, frame |-> Dummy]

EntryKinds  == {"eval", "evalasync", "module", "call", "construct", "jobs"}
Completions == {"return", "throw", "limit"}       \* C02: there is no other way out of a host entry

Init ==
  /\ frames = <<Dummy>>
  /\ stackLen = 0
  /\ hostDepth = 0
  /\ pending = FALSE
  /\ gens = [g \in GenIds |-> NoGen]
  /\ rust = <<>>
  /\ comp = "none"

Top(s) == s[Len(s)]
Pop(s) == SubSeq(s, 1, Len(s) - 1)
Max(S) == CHOOSE x \in S : \A y \in S : y <= x

\* stack on which the VM currently operates: that of the innermost running generator, else 0
CurStk ==
  LET R == {k \in 1..Len(rust) : rust[k].t = "resume"}
  IN IF R = {} THEN 0 ELSE rust[Max(R)].g

\* A Rust activation.  bf/bs/bh/bp = depths found on entry (what it has to restore).
Act(t, kind, st, argc, eidx, g) ==
  [t |-> t, kind |-> kind, st |-> st, argc |-> argc, eidx |-> eidx, g |-> g, ostk |-> CurStk,
   bf |-> Len(frames), bs |-> stackLen, bh |-> hostDepth, last |-> "none"]

InHost  == rust = <<>>
TopAct  == Top(rust)
TopF    == Top(frames)
\* a `Context::run` loop owned by the top activation is executing opcodes
VmRunning     == rust # <<>> /\ comp = "none" /\ TopAct.st = "run"
\* Rust code that may call into the engine again: a native function, the job executor
NativeRunning == rust # <<>> /\ comp = "none" /\ TopAct.st \in {"native", "opnative", "direct", "jobs"}
CanEnter      == InHost \/ NativeRunning
\* first stack slot above the registers of the running frame and above every open try region
Floor(f) == IF f.tries = <<>> THEN f.rp + f.regs ELSE Top(f.tries)

SetTop(s, r) == [s EXCEPT ![Len(s)] = r]
\* pop the top activation and tell its parent (if any) how it completed
PopTell(c) == IF Len(rust) = 1 THEN <<>>
              ELSE LET p == Pop(rust) IN SetTop(p, [Top(p) EXCEPT !.last = c])

NewFrame(ee, fp, argc, regs) ==
  [ee |-> ee, fp |-> fp, rp |-> fp + 2 + argc, argc |-> argc, regs |-> regs, stk |-> CurStk, tries |-> <<>>]

-----------------------------------------------------------------------------
(* Host entries                                                            *)

\* Script::evaluate / evaluate_async_with_budget (prepare_run), Eval::perform_eval, Json::parse,
\* SourceTextModule::execute: push `this`, `func`, then push_frame with EXIT_EARLY.
HostEnterEval(kind, regs) ==
  /\ CanEnter
  /\ kind \in {"eval", "evalasync"}
  /\ frames' = Append(frames, NewFrame(TRUE, stackLen, 0, regs))
  /\ stackLen' = stackLen + 2 + regs
  /\ rust' = Append(rust, Act("entry", kind, "prep", 0, Len(frames) + 1, 0))
  /\ UNCHANGED <<hostDepth, pending, gens, comp>>

\* Module::load_link_evaluate: initialize_environment pushes a frame (not EXIT_EARLY) to set up the
\* module environment ...
HostEnterModule(regs) ==
  /\ CanEnter
  /\ frames' = Append(frames, NewFrame(FALSE, stackLen, 0, regs))
  /\ stackLen' = stackLen + 2 + regs
  /\ rust' = Append(rust, Act("entry", "module", "link", 0, 0, 0))
  /\ UNCHANGED <<hostDepth, pending, gens, comp>>

\* ... pops it again (leaving nothing behind), and execute() pushes the EXIT_EARLY frame of the body.
ModuleLinked(regs) ==
  /\ rust # <<>> /\ comp = "none" /\ TopAct.st = "link"
  /\ frames' = Append(Pop(frames), NewFrame(TRUE, TopF.fp, 0, regs))
  /\ stackLen' = TopF.fp + 2 + regs
  /\ rust' = SetTop(rust, [TopAct EXCEPT !.st = "prep", !.eidx = Len(frames)])
  /\ UNCHANGED <<hostDepth, pending, gens, comp>>

\* global_declaration_instantiation succeeded: Context::run starts
PrepareOk ==
  /\ rust # <<>> /\ comp = "none" /\ TopAct.st = "prep"
  /\ rust' = SetTop(rust, [TopAct EXCEPT !.st = "run"])
  /\ UNCHANGED <<frames, stackLen, hostDepth, pending, gens, comp>>

\* ... or failed (e.g. `let undefined`): the frame is popped and its slots are dropped
PrepareErr ==
  /\ rust # <<>> /\ comp = "none" /\ TopAct.st = "prep"
  /\ frames' = Pop(frames)
  /\ stackLen' = TopF.fp
  /\ comp' = "throw"
  /\ rust' = SetTop(rust, [TopAct EXCEPT !.st = "failed"])
  /\ UNCHANGED <<hostDepth, pending, gens>>

\* JsObject::call / JsObject::construct: push this, func, args (and new.target)
HostEnterCall(kind, argc) ==
  /\ CanEnter
  /\ kind \in {"call", "construct"}
  /\ stackLen' = stackLen + 2 + argc + (IF kind = "construct" THEN 1 ELSE 0)
  /\ rust' = Append(rust, Act("entry", kind, "resolve", argc, 0, 0))
  /\ UNCHANGED <<frames, hostDepth, pending, gens, comp>>

\* __call__/__construct__ of an ordinary function: (new.target is popped,) push_frame with the
\* arguments already on the stack, set_exit_early, host_call_depth += 1, Context::run
ResolveJs(regs) ==
  /\ rust # <<>> /\ comp = "none" /\ TopAct.st = "resolve"
  /\ LET base == TopAct.bs + 2 + TopAct.argc
     IN /\ frames' = Append(frames, NewFrame(TRUE, TopAct.bs, TopAct.argc, regs))
        /\ stackLen' = base + regs
  /\ hostDepth' = hostDepth + 1
  /\ rust' = SetTop(rust, [TopAct EXCEPT !.st = "run", !.eidx = Len(frames) + 1])
  /\ UNCHANGED <<pending, gens, comp>>

\* the `.resolve(context)?` early exit: not callable, class constructor without `new`,
\* check_runtime_limits failed.  No frame took the pushed values: they are dropped.
ResolveErr(c) ==
  /\ rust # <<>> /\ comp = "none" /\ TopAct.st = "resolve"
  /\ c \in {"throw", "limit"}
  /\ stackLen' = TopAct.bs
  /\ comp' = c
  /\ rust' = SetTop(rust, [TopAct EXCEPT !.st = "failed"])
  /\ UNCHANGED <<frames, hostDepth, pending, gens>>

\* the callee is a native function: it pops this/func/args itself and runs as Rust code
ResolveNative ==
  /\ rust # <<>> /\ comp = "none" /\ TopAct.st = "resolve"
  /\ stackLen' = TopAct.bs
  /\ rust' = SetTop(rust, [TopAct EXCEPT !.st = "direct"])
  /\ UNCHANGED <<frames, hostDepth, pending, gens, comp>>

\* a native called directly by the host finishes (CallValue::Complete; the result is pushed and
\* popped again).  An uncatchable error seen by a native must be propagated (C08).
DirectDone(c) ==
  /\ rust # <<>> /\ comp = "none" /\ TopAct.st = "direct"
  /\ c \in Completions
  /\ (c = "limit") <=> (TopAct.last = "limit")
  /\ comp' = c
  /\ UNCHANGED <<frames, stackLen, hostDepth, pending, gens, rust>>

\* Context::run_jobs: the job executor calls each job through JsObject::call
HostEnterJobs ==
  /\ CanEnter
  /\ rust' = Append(rust, Act("entry", "jobs", "jobs", 0, 0, 0))
  /\ UNCHANGED <<frames, stackLen, hostDepth, pending, gens, comp>>

\* a throwing job rejects its promise and the queue goes on; a limit error ends run_jobs
JobsDone(c) ==
  /\ rust # <<>> /\ comp = "none" /\ TopAct.st = "jobs"
  /\ c = (IF TopAct.last = "limit" THEN "limit" ELSE "return")
  /\ comp' = c
  /\ UNCHANGED <<frames, stackLen, hostDepth, pending, gens, rust>>

\* Epilogue of every host entry: pop_frame (if a frame was run), host_call_depth restored, the
\* completion is handed to the caller.  Nothing here touches the value stack: the VM has to have
\* restored it (handle_return / handle_throw / handle_error) - that is the property.
HostExit(kind, c) ==
  /\ rust # <<>> /\ TopAct.t = "entry" /\ TopAct.kind = kind
  /\ comp = c /\ c \in Completions
  /\ frames' = IF TopAct.st = "run" THEN Pop(frames) ELSE frames
  /\ hostDepth' = TopAct.bh
  /\ rust' = PopTell(c)
  /\ comp' = "none"
  /\ UNCHANGED <<stackLen, pending, gens>>

-----------------------------------------------------------------------------
(* VM steps of the running frame                                           *)

\* temporaries of the running code: call sequences push this/func/args, `return` inside
\* try/finally parks its value, ...
PushTmp(n) ==
  /\ VmRunning /\ ~pending
  /\ stackLen' = stackLen + n
  /\ UNCHANGED <<frames, hostDepth, pending, gens, rust, comp>>

PopTmp(n) ==
  /\ VmRunning /\ ~pending
  /\ stackLen >= Floor(TopF) + n
  /\ stackLen' = stackLen - n
  /\ UNCHANGED <<frames, hostDepth, pending, gens, rust, comp>>

\* Call opcode on an ordinary function (function_call -> Vm::push_frame): the top 2 + argc
\* temporaries become this/func/args of the new frame, registers are appended
CallJs(argc, regs) ==
  /\ VmRunning /\ ~pending
  /\ stackLen >= Floor(TopF) + 2 + argc
  /\ frames' = Append(frames, NewFrame(FALSE, stackLen - argc - 2, argc, regs))
  /\ stackLen' = stackLen + regs
  /\ UNCHANGED <<hostDepth, pending, gens, rust, comp>>

\* Call opcode on a native function (native_function_call pops args, func, this)
CallNative(argc) ==
  /\ VmRunning /\ ~pending
  /\ stackLen >= Floor(TopF) + 2 + argc
  /\ stackLen' = stackLen - argc - 2
  /\ rust' = Append(rust, Act("native", "", "native", argc, 0, 0))
  /\ UNCHANGED <<frames, hostDepth, pending, gens, comp>>

\* an opcode whose own Rust code calls back into JS (accessor property, ToPrimitive, iterator
\* protocol): no call sequence on the value stack, the result goes to a register
OpReenter ==
  /\ VmRunning /\ ~pending
  /\ rust' = Append(rust, Act("native", "", "opnative", 0, 0, 0))
  /\ UNCHANGED <<frames, stackLen, hostDepth, pending, gens, comp>>

\* the native returns Ok: its result is pushed (Call opcode) or stored in a register
NativeReturn ==
  /\ rust # <<>> /\ comp = "none" /\ TopAct.t = "native" /\ TopAct.last # "limit"
  /\ rust' = Pop(rust)
  /\ stackLen' = IF TopAct.st = "opnative" THEN stackLen ELSE stackLen + 1
  /\ UNCHANGED <<frames, hostDepth, pending, gens, comp>>

\* the native returns a catchable Err: handle_error in the calling frame
NativeErrThrow ==
  /\ rust # <<>> /\ comp = "none" /\ TopAct.t = "native" /\ TopAct.last # "limit"
  /\ rust' = Pop(rust)
  /\ pending' = TRUE
  /\ UNCHANGED <<frames, stackLen, hostDepth, gens, comp>>

EnterTry ==
  /\ VmRunning /\ ~pending
  /\ frames' = SetTop(frames, [TopF EXCEPT !.tries = Append(@, stackLen)])
  /\ UNCHANGED <<stackLen, hostDepth, pending, gens, rust, comp>>

LeaveTry ==
  /\ VmRunning /\ ~pending /\ TopF.tries # <<>>
  /\ frames' = SetTop(frames, [TopF EXCEPT !.tries = Pop(@)])
  /\ UNCHANGED <<stackLen, hostDepth, pending, gens, rust, comp>>

\* an opcode raises a catchable error in the running frame (Context::handle_error)
ThrowHere ==
  /\ VmRunning /\ ~pending
  /\ pending' = TRUE
  /\ UNCHANGED <<frames, stackLen, hostDepth, gens, rust, comp>>

\* frames of the running `Context::run`: from its EXIT_EARLY frame to the top
RunFrames(a) == a.eidx .. Len(frames)
Handlers(a)  == {i \in RunFrames(a) : frames[i].tries # <<>>}

\* handle_exception_at / handle_throw: the innermost frame of this run with a handler takes the
\* exception; the frames above it are popped; the value stack is cut back to what the try region
\* started with (the callee frames' slots and the catcher's own pending temporaries go)
CatchAt(i) ==
  /\ VmRunning /\ pending
  /\ Handlers(TopAct) # {} /\ i = Max(Handlers(TopAct))
  /\ frames' = LET fs == SubSeq(frames, 1, i) IN SetTop(fs, [frames[i] EXCEPT !.tries = Pop(@)])
  /\ stackLen' = Top(frames[i].tries)
  /\ pending' = FALSE
  /\ UNCHANGED <<hostDepth, gens, rust, comp>>

\* handle_throw reaches the EXIT_EARLY frame without finding a handler: everything above the
\* frame's base goes, the frame itself is left for the host to pop, run() returns Throw
UnwindToExit ==
  /\ VmRunning /\ pending
  /\ Handlers(TopAct) = {}
  /\ frames' = SubSeq(frames, 1, TopAct.eidx)
  /\ stackLen' = frames[TopAct.eidx].fp
  /\ pending' = FALSE
  /\ comp' = "throw"
  /\ UNCHANGED <<hostDepth, gens, rust>>

\* handle_error, `!err.is_catchable()` branch (RuntimeLimitError): no handler is consulted
LimitEffect(a) ==
  /\ frames' = SubSeq(frames, 1, a.eidx)
  /\ stackLen' = frames[a.eidx].fp
  /\ comp' = "limit"

Uncatchable ==
  /\ VmRunning /\ ~pending
  /\ LimitEffect(TopAct)
  /\ UNCHANGED <<hostDepth, pending, gens, rust>>

\* a native hands an uncatchable error (from a nested entry) back to the opcode that called it
NativeErrLimit ==
  /\ rust # <<>> /\ comp = "none" /\ TopAct.t = "native" /\ TopAct.last = "limit"
  /\ rust' = Pop(rust)
  /\ LimitEffect(rust[Len(rust) - 1])
  /\ UNCHANGED <<hostDepth, pending, gens>>

\* handle_return: truncate_to_frame; EXIT_EARLY => run() returns, else push result and pop_frame
ReturnOp ==
  /\ VmRunning /\ ~pending
  /\ IF Len(frames) = TopAct.eidx
       THEN /\ stackLen' = TopF.fp
            /\ comp' = "return"
            /\ UNCHANGED frames
       ELSE /\ stackLen' = TopF.fp + 1
            /\ frames' = Pop(frames)
            /\ UNCHANGED comp
  /\ UNCHANGED <<hostDepth, pending, gens, rust>>

-----------------------------------------------------------------------------
(* Generators: a private value stack per generator, swapped in by resume   *)

\* Generator opcode in the prologue of a generator function: GeneratorContext::from_current splits
\* the running frame's slots off into the generator's own stack, then handle_yield
GenCreate(g) ==
  /\ VmRunning /\ ~pending
  /\ gens[g].st = "none"
  /\ TopF.tries = <<>> /\ stackLen = TopF.rp + TopF.regs
  /\ Len(frames) > 1
  /\ gens' = [gens EXCEPT ![g] =
                [st |-> "suspended", saved |-> stackLen - TopF.fp,
                 frame |-> [TopF EXCEPT !.fp = 0, !.rp = TopF.rp - TopF.fp, !.ee = TRUE, !.stk = g]]]
  /\ IF Len(frames) = TopAct.eidx
       THEN /\ stackLen' = TopF.fp /\ comp' = "return" /\ UNCHANGED frames
       ELSE /\ stackLen' = TopF.fp + 1 /\ frames' = Pop(frames) /\ UNCHANGED comp
  /\ UNCHANGED <<hostDepth, pending, rust>>

\* GeneratorContext::resume (called by the native `next`/`throw`/`return`): swap stacks, push the
\* saved frame with EXIT_EARLY (the two control values pushed for GeneratorNext are consumed by it)
GenResume(g) ==
  /\ NativeRunning /\ TopAct.st \in {"native", "opnative", "direct"}
  /\ gens[g].st = "suspended"
  /\ frames' = Append(frames, gens[g].frame)
  /\ stackLen' = gens[g].saved
  /\ gens' = [gens EXCEPT ![g].st = "running", ![g].saved = stackLen]
  /\ rust' = Append(rust, Act("resume", "", "run", 0, Len(frames) + 1, g))
  /\ UNCHANGED <<hostDepth, pending, comp>>

\* GeneratorYield in the generator's own frame: handle_yield with EXIT_EARLY
GenYield ==
  /\ VmRunning /\ ~pending
  /\ TopAct.t = "resume" /\ Len(frames) = TopAct.eidx
  /\ comp' = "yield"
  /\ UNCHANGED <<frames, stackLen, hostDepth, pending, gens, rust>>

\* back in resume(): swap the stacks back, pop the frame into the GeneratorContext
ResumeExit(c) ==
  /\ rust # <<>> /\ TopAct.t = "resume"
  /\ comp = c /\ c \in Completions \cup {"yield"}
  /\ LET g == TopAct.g
     IN /\ gens' = [gens EXCEPT ![g] = [st |-> IF c = "yield" THEN "suspended" ELSE "done",
                                        saved |-> stackLen, frame |-> TopF]]
        /\ stackLen' = gens[g].saved
  /\ frames' = Pop(frames)
  /\ rust' = PopTell(IF c = "yield" THEN "return" ELSE c)
  /\ comp' = "none"
  /\ UNCHANGED <<hostDepth, pending>>

-----------------------------------------------------------------------------
(* Properties                                                              *)

\* control is back with the embedder: exactly the dummy frame and an empty value stack
Balanced ==
  InHost => /\ Len(frames) = 1
            /\ stackLen = 0
            /\ ~pending
            /\ hostDepth = 0
            /\ comp = "none"
            /\ \A g \in GenIds : gens[g].st # "running"

\* length of value stack s: the current one, or the one parked in the GeneratorContext of the
\* resume activation that swapped it out
StackLenOf(s) ==
  IF s = CurStk THEN stackLen
  ELSE LET R == {k \in 1..Len(rust) : rust[k].t = "resume" /\ rust[k].ostk = s}
       IN IF R = {} THEN 0 ELSE gens[rust[Max(R)].g].saved

FramePointersMonotone ==
  /\ frames[1] = Dummy
  /\ \A i \in 2..Len(frames) :
       LET f == frames[i] IN
       /\ f.rp = f.fp + 2 + f.argc                                   \* this, func, args, then registers
       /\ \A k \in 1..Len(f.tries) : f.rp + f.regs <= f.tries[k]
       /\ \A k \in 1..Len(f.tries) - 1 : f.tries[k] <= f.tries[k + 1]
       /\ LET above == {j \in (i + 1)..Len(frames) : frames[j].stk = f.stk}
          IN IF above # {}
               THEN Floor(f) <= frames[CHOOSE j \in above : \A j2 \in above : j <= j2].fp   \* nested, no overlap
               ELSE \* topmost frame of its stack: its registers exist, unless it is on its way out
                    \/ Floor(f) <= StackLenOf(f.stk)
                    \/ (f.stk = CurStk /\ comp # "none")
                    \/ (f.stk = CurStk /\ rust # <<>> /\ TopAct.st = "failed")
  /\ \A i \in 2..Len(frames) : frames[i].stk # 0 => gens[frames[i].stk].st = "running"

HasExitFrame(a) == a.st \in {"prep", "run"}

\* exactly one EXIT_EARLY frame per activation that runs the VM, and it is where that activation
\* thinks it is
ExitEarlyUnique ==
  LET RA == {k \in 1..Len(rust) : HasExitFrame(rust[k])}
      EF == {i \in 1..Len(frames) : frames[i].ee}
  IN /\ Cardinality(EF) = Cardinality(RA)
     /\ \A k \in RA : rust[k].eidx \in EF /\ rust[k].eidx = rust[k].bf + 1
     /\ \A k1, k2 \in RA : k1 < k2 => rust[k1].eidx < rust[k2].eidx

HostDepthCounts ==
  hostDepth = Cardinality({k \in 1..Len(rust) : rust[k].t = "entry" /\ rust[k].st = "run"
                                                 /\ rust[k].kind \in {"call", "construct"}})

\* Every host entry (and every generator resume) returns with the depths it started with,
\* whatever its completion.
EntryRestoresStep ==
  (rust # <<>> /\ Len(rust') < Len(rust) /\ TopAct.t \in {"entry", "resume"})
     => /\ Len(frames') = TopAct.bf
        /\ stackLen' = TopAct.bs
        /\ hostDepth' = TopAct.bh
        /\ pending' = FALSE

EntryRestores == [][EntryRestoresStep]_vmvars

TypeOK ==
  /\ stackLen \in Nat /\ hostDepth \in Nat /\ pending \in BOOLEAN
  /\ comp \in {"none", "return", "throw", "limit", "yield"}
  /\ \A g \in GenIds : gens[g].st \in {"none", "suspended", "running", "done"}
=============================================================================
