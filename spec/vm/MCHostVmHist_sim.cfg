CONSTANTS
  Alphabet <- AlphaFull
  MaxLen = 8
  GenIds <- GenIdsMC
INIT HInit
NEXT HNext
INVARIANT TypeOK
INVARIANT Balanced
INVARIANT HistBalanced
INVARIANT FramePointersMonotone
INVARIANT ExitEarlyUnique
INVARIANT HostDepthCounts
INVARIANT EmitHist

CHECK_DEADLOCK FALSE
