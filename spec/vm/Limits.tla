------------------------------- MODULE Limits -------------------------------
(***************************************************************************)
(* C08 - Runtime limits stop runaway scripts and cannot be intercepted.    *)
(*                                                                         *)
(* Abstract scenario machine.  A scenario is a tree of activations         *)
(* (acts[1] = the script evaluated by the host); every other activation is *)
(* entered from its parent through an entry route (plain call, new,        *)
(* accessor, proxy trap, iterator protocol, native callback, eval,         *)
(* call/apply/bind, Reflect, promise job, async continuation, generator    *)
(* resume ...).  An activation has the fixed shape                         *)
(*                                                                         *)
(*   print enter                                                           *)
(*   [lwrap: try {]  LOOP(form, n) { print b; [bwrap: try {] body-site     *)
(*        children, each in its own call-site wrapper  [} finally ..] }    *)
(*   [} catch .. finally ..]                                               *)
(*   post-site children (each in its call-site wrapper)                    *)
(*   print after; return | throw 7                                         *)
(*                                                                         *)
(* The host runs three steps on one context: eval(script), run_jobs,       *)
(* call of the script function epi (prints "end").  One transition = one  *)
(* observable event or one decision.  Limits:                              *)
(*  L  loop-iteration limit, per activation.  The property does not fix    *)
(*     the exact boundary, so the model keeps a WINDOW: with h = loop      *)
(*     heads already evaluated by the activation and e = loops it entered, *)
(*     the limit must not fire while h <= L, may fire when h >= L+1 and    *)
(*     must fire at a non-first head once h - e >= L+1 (every loop may     *)
(*     give its first head for free: boa's for / do-while do).  boa's own  *)
(*     counter (cnt, IncrementLoopIteration) is carried along; the path    *)
(*     that follows it is marked exact, and WindowOK says it is inside     *)
(*     the window.                                                         *)
(*  R  recursion limit.  depth d of an activation = frames + native        *)
(*     re-entries (Hops) on the chain.  must fire if R < d, may if R = d,  *)
(*     must not if R > d (boa: fires iff R <= d because the first native   *)
(*     call of the body is checked at depth d).                            *)
(*  S  stack-size limit: how many slots an activation needs is a compiler  *)
(*     detail.  S = -1 (default) is never hit by these scenarios; S >= 0   *)
(*     ("tiny") may fire at any call point and must fire at a call point   *)
(*     reached with more live frames than S.  Otherwise only the           *)
(*     consequences are fixed.                                             *)
(* A limit completion ends the host step that owns the chain with          *)
(* limit:<kind>, bypassing every catch and finally; nothing of the chain   *)
(* runs afterwards (a job step also drops the remaining queue, as the      *)
(* documented SimpleJobExecutor does).                                     *)
(***************************************************************************)
EXTENDS Integers, Sequences, FiniteSets, TLC

VARIABLES sc,   \* the scenario: [acts, L, R, S]   (constant along a behaviour)
          m,    \* the machine under the limits of sc
          u     \* the same machine with all limits off, run in lock-step until m hits a limit

vars == <<sc, m, u>>

-----------------------------------------------------------------------------
(* Route attributes *)

ZeroHop == {"script", "call", "new", "proxyapply", "tagged", "evaldirect", "evalindirect",
            "newfunction", "fbind", "asyncsync", "asynccont", "asyncgen", "genresume", "genspread"}
TwoHop  == {"classfield"}
Hops(r) == IF r \in ZeroHop THEN 0 ELSE IF r \in TwoHop THEN 2 ELSE 1

JobRoutes    == {"thenjob", "catchjob", "thenable"}          \* the activation is a job of its own
ParentHead   == {"iterforof", "iterreturn", "forofclosethrow"} \* the route is a for-of statement of the parent
Absorbs      == {"asyncsync", "asynccont", "asyncgen"}       \* an ordinary throw becomes a rejected promise
CloseOnThrow == {"fromcb", "iterevery"}                       \* native closes the iterator (prints ret) on a throw
ThrowsAfter  == {"closethrow", "forofclosethrow"}            \* the activation is return() of a close caused by throw 7

WhileLike == {"while", "forin", "forof", "forawait", "lwhile", "wyield"}   \* boa counts every head
ForLike   == {"for", "forlet", "dowhile", "ldo", "lfor", "lnest", "nest2"} \* boa skips the first head
InnerIters == 2     \* nest2: every body ends with an inner `for` loop of 2 silent iterations (3 heads)
Forms     == WhileLike \cup ForLike

-----------------------------------------------------------------------------
(* Events are small integers: kind*100 + activation*10 + child *)
Ev(kind, a, c) == kind * 100 + a * 10 + c
EvEnter == 1  EvT == 2  EvB == 3  EvBCatch == 4  EvBFin == 5  EvLCatch == 6  EvLFin == 7
EvAfter == 8  EvCCatch == 9  EvCFin == 10  EvRRet == 11  EvEnd == 12

Acts == sc.acts
NA   == Len(Acts)
Kids(p, s) == {c \in 1..NA : Acts[c].par = p /\ Acts[c].site = s}
MinOf(S) == CHOOSE x \in S : \A y \in S : x <= y
NextKid(p, s, after) == LET K == {c \in Kids(p, s) : c > after} IN IF K = {} THEN 0 ELSE MinOf(K)

NewFrame(a, d) == [a |-> a, ph |-> "enter", i |-> 0, j |-> 0, k |-> 0, h |-> 0, e |-> 0, cnt |-> 0, d |-> d,
                   fh |-> FALSE, site |-> "p", res |-> FALSE]

Off == [L |-> -1, R |-> -1, S |-> -1]
Lims == [L |-> sc.L, R |-> sc.R, S |-> sc.S]

InitMachine == [stack |-> <<NewFrame(1, 1)>>, queue |-> <<>>, step |-> 1,
                out |-> <<<<>>, <<>>, <<>>>>, comp |-> <<"", "", "">>, lim |-> <<0, 0, 0>>,
                exact |-> TRUE, wok |-> TRUE, fire |-> <<>>]

-----------------------------------------------------------------------------
(* Decisions *)

RecChoices(lims, d) ==
    LET R == lims.R
        ex == R >= 0 /\ R <= d
        must == R >= 0 /\ R < d
    IN  (IF ex THEN {[fire |-> "limit:Recursion", ex |-> TRUE, wok |-> TRUE]} ELSE {})
        \cup (IF must THEN {} ELSE {[fire |-> "", ex |-> ~ex, wok |-> TRUE]})

\* a native calls a JS helper of the route (iterator factory) from depth d: boa checks the callee against the
\* caller's depth only (already passed), an implementation that counts the re-entry first may stop here
HelperChoices(lims, d) ==
    LET R == lims.R
        may == R >= 0 /\ R <= d
    IN  (IF may THEN {[fire |-> "limit:Recursion", ex |-> FALSE, wok |-> TRUE]} ELSE {})
        \cup {[fire |-> "", ex |-> TRUE, wok |-> TRUE]}

LoopChoices(lims, f, counted, first) ==
    LET L == lims.L
        ex == L >= 0 /\ counted /\ f.cnt > L
        may == L >= 0 /\ f.h >= L + 1
        must == L >= 0 /\ ~first /\ f.h - f.e >= L + 1
        wok == (ex => may) /\ (must => ex)
    IN  (IF may THEN {[fire |-> "limit:LoopIteration", ex |-> ex, wok |-> wok]} ELSE {})
        \cup (IF must THEN {} ELSE {[fire |-> "", ex |-> ~ex, wok |-> wok]})

-----------------------------------------------------------------------------
(* Machine helpers (pure functions on machine records) *)

Top(mm) == mm.stack[Len(mm.stack)]
WithTop(mm, f) == [mm EXCEPT !.stack[Len(mm.stack)] = f]
Out(mm, evs) == [mm EXCEPT !.out[mm.step] = @ \o evs]
Pop(mm) == [mm EXCEPT !.stack = SubSeq(@, 1, Len(@) - 1)]
Note(mm, c) == [mm EXCEPT !.exact = @ /\ c.ex, !.wok = @ /\ (c.wok \/ ~mm.exact)]

FireLimit(mm, kind, c, meas) ==
    LET info == [s |-> mm.step, kind |-> kind, meas |-> meas,
                 ids |-> [x \in 1..Len(mm.stack) |-> mm.stack[x].a],
                 chain |-> [x \in 1..Len(mm.stack) |-> Acts[mm.stack[x].a].route],
                 forms |-> [x \in 1..Len(mm.stack) |-> Acts[mm.stack[x].a].form],
                 cont |-> IF mm.stack = <<>> THEN FALSE ELSE mm.stack[1].res]
    IN  [Note(mm, c) EXCEPT !.stack = <<>>, !.comp[mm.step] = kind,
                            !.lim[mm.step] = Len(mm.out[mm.step]) + 1,
                            !.queue = IF mm.step = 2 THEN <<>> ELSE @,
                            !.fire = Append(@, info)]

\* the top frame (an async activation) awaits: it leaves the stack and its continuation is queued
Suspend(mm, f, resumePh) ==
    [Pop(mm) EXCEPT !.queue = Append(@, [k |-> "cont", a |-> f.a, f |-> [f EXCEPT !.ph = resumePh]])]

\* the top frame returns normally
ReturnOut(mm) ==
    LET p == Pop(mm) IN
    IF p.stack = <<>> /\ mm.step = 1 THEN [p EXCEPT !.comp[1] = "value:n:7"] ELSE p

\* an ordinary exception leaves the top frame's activation
ThrowOut(mm) ==
    LET f == Top(mm)
        r == Acts[f.a].route
        p == Pop(mm)
    IN  IF p.stack = <<>>
        THEN IF mm.step = 1 THEN [p EXCEPT !.comp[1] = "throw:n:7"] ELSE p
        ELSE IF r \in Absorbs THEN p
        ELSE LET q == WithTop(p, [Top(p) EXCEPT !.ph = "cthrow"])
             IN  IF r \in CloseOnThrow THEN Out(q, <<Ev(EvRRet, f.a, 0)>>) ELSE q

HasC(w) == w \in {"c", "cf"}
HasF(w) == w \in {"f", "cf"}

-----------------------------------------------------------------------------
(* Scheduler: the chain has ended *)
Sched(mm, lims) ==
    CASE mm.step = 1 -> {[mm EXCEPT !.step = 2]}
      [] mm.step = 2 ->
            IF mm.comp[2] # "" THEN {[mm EXCEPT !.step = 3]}
            ELSE IF mm.queue = <<>> THEN {[mm EXCEPT !.comp[2] = "value:u", !.step = 3]}
            ELSE LET j == Head(mm.queue)
                     \* a reaction job calls its JS handler from native code: frame + re-entry = depth 2;
                     \* a continuation is resumed by a native closure that pushes the saved frame: depth 1
                     fr == IF j.k = "act" THEN NewFrame(j.a, 2) ELSE [j.f EXCEPT !.d = 1, !.res = TRUE]
                 IN  {[mm EXCEPT !.queue = Tail(@), !.stack = <<fr>>]}
      [] mm.step = 3 ->
            {IF c.fire # "" THEN [FireLimit(mm, c.fire, c, 2) EXCEPT !.step = 4]
                            ELSE [Out(Note(mm, c), <<Ev(EvEnd, 0, 0)>>) EXCEPT !.comp[3] = "value:n:9", !.step = 4]
               : c \in RecChoices(lims, 2)}      \* host call of a script function: frame + re-entry
      [] OTHER -> {}

-----------------------------------------------------------------------------
(* One step of the running chain *)
Run(mm, lims) ==
    LET f == Top(mm)
        a == Acts[f.a]
        Go(ph) == WithTop(mm, [f EXCEPT !.ph = ph])
    IN
    CASE f.ph = "enter" ->
            {IF c.fire # "" THEN FireLimit(mm, c.fire, c, f.d)
             ELSE LET mm2 == Out(Note(mm, c), <<Ev(EvEnter, f.a, 0)>>)
                  IN  IF a.route = "asynccont" THEN Suspend(mm2, f, "pre")
                      ELSE WithTop(mm2, [f EXCEPT !.ph = "pre"])
               : c \in RecChoices(lims, f.d)}
      [] f.ph = "pre" ->
            IF a.form = "none"
            THEN {WithTop(mm, [f EXCEPT !.ph = "call0", !.site = "p", !.k = NextKid(f.a, "p", 0)])}
            ELSE LET mm2 == IF a.lwrap \in {"infin", "incatch"} THEN Out(mm, <<Ev(EvT, f.a, 0)>>) ELSE mm
                 IN  {WithTop(mm2, [f EXCEPT !.ph = "head", !.e = @ + 1, !.fh = TRUE])}
      [] f.ph = "head" ->
            LET counted == (a.form \in WhileLike) \/ ~f.fh IN
            {IF c.fire # "" THEN FireLimit(mm, c.fire, c, f.h)
             ELSE LET f2 == [f EXCEPT !.h = @ + 1, !.cnt = IF counted THEN @ + 1 ELSE @, !.fh = FALSE, !.ph = "head2"]
                      mm2 == Note(mm, c)
                  IN  IF a.form = "forawait" THEN Suspend(mm2, f2, "head2") ELSE WithTop(mm2, f2)
               : c \in LoopChoices(lims, f, counted, f.fh)}
      [] f.ph = "head2" ->
            IF f.i < a.n THEN {WithTop(mm, [f EXCEPT !.i = @ + 1, !.ph = "body"])} ELSE {Go("lexit")}
      [] f.ph = "body" ->
            {WithTop(Out(mm, <<Ev(EvB, f.a, 0)>>),
                     [f EXCEPT !.ph = "call0", !.site = "b", !.k = NextKid(f.a, "b", 0)])}
      [] f.ph = "call0" ->
            IF f.k = 0 THEN {Go(IF f.site = "b" THEN "bend" ELSE "after")}
            ELSE LET r == Acts[f.k].route IN
                 IF r \in JobRoutes
                 THEN {[Go("wait") EXCEPT !.queue = Append(@, [k |-> "act", a |-> f.k, f |-> NewFrame(f.k, 2)])]}
                 ELSE IF r \in ParentHead THEN {Go("call1")}
                 ELSE {[Go("wait") EXCEPT !.stack = Append(@, NewFrame(f.k, f.d + 1 + Hops(r)))]}
      [] f.ph = "call1" ->       \* the route's for-of first calls the iterator factory (a JS helper, one hop)
            {IF c.fire # "" THEN FireLimit(mm, c.fire, c, f.d + 1) ELSE WithTop(Note(mm, c), [f EXCEPT !.ph = "call2"])
               : c \in HelperChoices(lims, f.d + 1)}
      [] f.ph = "call2" ->       \* head of the route's for-of, counted in the parent
            LET fe == [f EXCEPT !.e = @ + 1] IN
            {IF c.fire # "" THEN FireLimit(mm, c.fire, c, fe.h)
             ELSE LET f2 == [fe EXCEPT !.h = @ + 1, !.cnt = @ + 1, !.ph = "wait"]
                      mm2 == WithTop(Note(mm, c), f2)
                  IN  [mm2 EXCEPT !.stack = Append(@, NewFrame(f.k, f.d + 1 + Hops(Acts[f.k].route)))]
               : c \in LoopChoices(lims, fe, TRUE, TRUE)}
      [] f.ph = "wait" ->        \* child f.k came back normally
            IF Acts[f.k].route \in ThrowsAfter THEN {Go("cthrow")}
            ELSE LET mm2 == IF HasF(Acts[f.k].wrap) THEN Out(mm, <<Ev(EvCFin, f.a, f.k)>>) ELSE mm
                 IN  {WithTop(mm2, [f EXCEPT !.ph = "call0", !.k = NextKid(f.a, f.site, f.k)])}
      [] f.ph = "cthrow" ->      \* an ordinary exception is at the call site of child f.k
            LET w == Acts[f.k].wrap
                evs == (IF HasC(w) THEN <<Ev(EvCCatch, f.a, f.k)>> ELSE <<>>)
                       \o (IF HasF(w) THEN <<Ev(EvCFin, f.a, f.k)>> ELSE <<>>)
                mm2 == Out(mm, evs)
            IN  IF HasC(w) THEN {WithTop(mm2, [f EXCEPT !.ph = "call0", !.k = NextKid(f.a, f.site, f.k)])}
                ELSE {WithTop(mm2, [f EXCEPT !.ph = IF f.site = "b" THEN "bthrow" ELSE "othrow"])}
      [] f.ph = "bthrow" ->
            LET w == a.bwrap
                evs == (IF HasC(w) THEN <<Ev(EvBCatch, f.a, 0)>> ELSE <<>>)
                       \o (IF HasF(w) THEN <<Ev(EvBFin, f.a, 0)>> ELSE <<>>)
            IN  {WithTop(Out(mm, evs), [f EXCEPT !.ph = IF HasC(w) THEN "bend2" ELSE "lthrow"])}
      [] f.ph = "lthrow" ->
            LET w == a.lwrap
                evs == (IF HasC(w) THEN <<Ev(EvLCatch, f.a, 0)>> ELSE <<>>)
                       \o (IF HasF(w) THEN <<Ev(EvLFin, f.a, 0)>> ELSE <<>>)
            IN  IF HasC(w)
                THEN {WithTop(Out(mm, evs), [f EXCEPT !.ph = "call0", !.site = "p", !.k = NextKid(f.a, "p", 0)])}
                ELSE {WithTop(Out(mm, evs), [f EXCEPT !.ph = "othrow"])}
      [] f.ph = "othrow" -> {ThrowOut(mm)}
      [] f.ph = "bend" ->
            {WithTop(IF HasF(a.bwrap) THEN Out(mm, <<Ev(EvBFin, f.a, 0)>>) ELSE mm, [f EXCEPT !.ph = "bend2"])}
      [] f.ph = "bend2" ->       \* lnest: the inner for(;;) is entered; its first head is free
            {WithTop(mm, CASE a.form = "lnest" -> [f EXCEPT !.ph = "head", !.e = @ + 1, !.h = @ + 1]
                           [] a.form = "nest2" -> [f EXCEPT !.ph = "ihead", !.e = @ + 1, !.j = 0]
                           [] OTHER -> [f EXCEPT !.ph = "head"])}
      [] f.ph = "ihead" ->       \* nest2: heads of the silent inner loop count against the same activation
            LET first == f.j = 0 IN
            {IF c.fire # "" THEN FireLimit(mm, c.fire, c, f.h)
             ELSE WithTop(Note(mm, c), [f EXCEPT !.h = @ + 1, !.cnt = IF first THEN @ ELSE @ + 1, !.j = @ + 1,
                                                 !.ph = IF f.j = InnerIters THEN "head" ELSE "ihead"])
               : c \in LoopChoices(lims, f, ~first, first)}
      [] f.ph = "lexit" ->
            {WithTop(IF HasF(a.lwrap) THEN Out(mm, <<Ev(EvLFin, f.a, 0)>>) ELSE mm,
                     [f EXCEPT !.ph = "call0", !.site = "p", !.k = NextKid(f.a, "p", 0)])}
      [] f.ph = "after" -> {WithTop(Out(mm, <<Ev(EvAfter, f.a, 0)>>), [f EXCEPT !.ph = "end"])}
      [] f.ph = "end" -> IF a.end = "throw" THEN {ThrowOut(mm)} ELSE {ReturnOut(mm)}
      [] OTHER -> {}

Base(mm, lims) == IF mm.stack = <<>> THEN Sched(mm, lims) ELSE Run(mm, lims)

Emitted(mm, x) == x.step = mm.step /\ Len(x.out[mm.step]) > Len(mm.out[mm.step])
AtCallPoint(mm, lims) ==
    \/ mm.stack # <<>> /\ Top(mm).ph \in {"enter", "call1"}
    \/ mm.stack = <<>> /\ mm.step = 3
    \/ mm.stack # <<>> /\ \E x \in Base(mm, lims) : Emitted(mm, x)

NoteNo == [ex |-> FALSE, wok |-> TRUE]

\* every live frame (the script of the running host step included) occupies at least one stack slot, so a call
\* point reached with more frames than S slots cannot pass the stack-size check
FrameCount(mm) == IF mm.stack = <<>> THEN 1 ELSE Len(mm.stack)
StackMust(mm, lims) == lims.S >= 0 /\ mm.step < 4 /\ AtCallPoint(mm, lims) /\ FrameCount(mm) > lims.S

Succ(mm, lims) ==
    (IF StackMust(mm, lims) THEN {x \in Base(mm, lims) : x.lim[mm.step] > 0} ELSE Base(mm, lims)) \cup
    (IF lims.S >= 0 /\ mm.step < 4 /\ AtCallPoint(mm, lims)
     THEN {IF mm.step = 3 THEN [FireLimit(mm, "limit:StackSize", NoteNo, -1) EXCEPT !.step = 4]
                          ELSE FireLimit(mm, "limit:StackSize", NoteNo, -1)}
     ELSE {})

-----------------------------------------------------------------------------
NoLimit(mm) == \A s \in 1..3 : mm.lim[s] = 0

Next == /\ m.step < 4
        /\ \E m2 \in Succ(m, Lims) : m' = m2
        /\ u' = IF NoLimit(m') THEN (CHOOSE x \in Succ(u, Off) : TRUE) ELSE u
        /\ UNCHANGED sc

-----------------------------------------------------------------------------
(* Invariants of the model (the model gate) *)

\* nothing is printed by a host step after the limit point of that step
NothingAfterLimit == \A s \in 1..3 : m.lim[s] > 0 => /\ Len(m.out[s]) = m.lim[s] - 1
                                                     /\ m.comp[s] \in {"limit:LoopIteration", "limit:Recursion", "limit:StackSize"}

\* once a step has hit a limit no frame of its chain is left (no handler can be entered)
ChainGone == \A s \in 1..3 : (m.lim[s] > 0 /\ m.step = s) => m.stack = <<>>

AllFrames == {m.stack[x] : x \in 1..Len(m.stack)} \cup {m.queue[x].f : x \in 1..Len(m.queue)}

\* work is bounded: heads beyond the free first head of each loop never exceed L+1, bodies never exceed L+2
LoopBound == sc.L >= 0 => \A f \in AllFrames : /\ f.h - f.e <= sc.L + 1
                                                /\ (Acts[f.a].form \notin {"lnest", "nest2"} => f.i <= sc.L + 2)
                                                /\ (Acts[f.a].form = "nest2" => f.i * (InnerIters + 1) <= sc.L + 1 + 2 * (InnerIters + 1))
\* the limit never fires early: a loop limit only after more than L heads, a recursion limit only at depth >= R
NoEarlyFire == \A x \in 1..Len(m.fire) :
                  /\ m.fire[x].kind = "limit:LoopIteration" => (sc.L >= 0 /\ m.fire[x].meas >= sc.L + 1)
                  /\ m.fire[x].kind = "limit:Recursion" => (sc.R >= 0 /\ m.fire[x].meas >= sc.R)
                  /\ m.fire[x].kind = "limit:StackSize" => sc.S >= 0
\* recursion: no activation deeper than R ever ran
DepthBound == sc.R >= 0 => \A x \in 1..Len(m.stack) : m.stack[x].ph # "enter" => m.stack[x].d <= sc.R

\* boa's exact counting is one of the behaviours the window allows
WindowOK == m.wok

\* scripts that stay under the limits are unaffected
Shape(mm) == [x \in 1..Len(mm.stack) |-> <<mm.stack[x].a, mm.stack[x].ph, mm.stack[x].i, mm.stack[x].k>>]
UnderLimitSame == NoLimit(m) => /\ m.out = u.out /\ m.comp = u.comp /\ m.step = u.step
                                /\ Shape(m) = Shape(u) /\ Len(m.queue) = Len(u.queue)
\* up to its first limit point a limited run prints exactly what the free run prints (u is frozen there)
PrefixOfFree == \A s \in 1..3 : (m.lim[s] > 0 /\ \A t \in 1..(s - 1) : m.lim[t] = 0) =>
                    \A t \in 1..s : m.out[t] = u.out[t]

StackShape == Len(m.stack) <= NA /\ \A x \in 1..Len(m.stack) : m.stack[x].a \in 1..NA

Done == m.step = 4
=============================================================================
