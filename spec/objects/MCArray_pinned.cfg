CONSTANTS
  ProtoIdx = {}
  Literals <- LitQuick
  ExploreOps <- ExploreCore
  ProbeOps <- None
  Depth = 2
  GetterCap = 4
  Emit = FALSE
  SetLengthGuard = FALSE
INIT Init
NEXT Next
VIEW View
INVARIANT Refines
INVARIANT EdgesCommute
INVARIANT LengthAboveIndices
CHECK_DEADLOCK FALSE
