CONSTANTS
  ProtoIdx = {0, 2}
  Literals <- LitQuick
  ExploreOps <- ExploreCore
  ProbeOps <- ProbeQuick
  Depth = 2
  GetterCap = 4
  Emit = TRUE
  SetLengthGuard = TRUE
INIT Init
NEXT Next
VIEW View
INVARIANT Refines
INVARIANT EdgesCommute
INVARIANT FormsWellTyped
INVARIANT DenseWithinLength
INVARIANT NonDefaultNeedsSP
INVARIANT LengthAboveIndices
CHECK_DEADLOCK FALSE
