CONSTANTS
  ProtoIdx = {}
  Literals <- LitQuick
  OpsSeq <- ExploreAll
  GetterCap = 4
  MaxDepth = 2
INIT MCInit
NEXT MCNext
INVARIANT LengthAboveIndices
INVARIANT KeysAscending
INVARIANT ExtrasDistinct
INVARIANT WellFormed
PROPERTY NonConfigurableSurvives
PROPERTY LengthLock
PROPERTY NoNewKeysWhenNonExtensible
PROPERTY FrozenIsImmutable
CHECK_DEADLOCK FALSE
