CONSTANTS
  ProtoIdx = {}
  Literals <- LitFar
  ExploreOps <- ExploreFar
  ProbeOps <- ProbeFar
  Depth = 1
  GetterCap = 4
  Emit = TRUE
  SetLengthGuard = TRUE
INIT Init
NEXT Next
VIEW View
INVARIANT Refines
INVARIANT EdgesCommute
INVARIANT FormsWellTyped
INVARIANT DenseWithinLength
INVARIANT NonDefaultNeedsSP
INVARIANT LengthAboveIndices
CHECK_DEADLOCK FALSE
