------------------------------- MODULE MCArray -------------------------------
(* Bounds and alphabets for checking ArrayStorage / emitting conformance replays (C14): see ArrayOps.tla and  *)
(* the MCArray_*.cfg files.                                                                                    *)
EXTENDS ArrayStorage, ArrayOps
RefinesSpec == Ref!Spec          \* TLA+ refinement: every storage behaviour is a behaviour of ArraySpec under Abs
=============================================================================
