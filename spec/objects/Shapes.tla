------------------------------- MODULE Shapes -------------------------------
(***************************************************************************)
(* Reference semantics of ordinary objects (ECMA-262 10.1): ordered own    *)
(* properties with data / accessor descriptors and attributes, prototype   *)
(* chains, extensibility.  Everything in this module is a pure operator    *)
(* over an object graph  O : 1..N -> Object ; it is the oracle of check    *)
(* C06 and knows nothing about shapes or caches.                           *)
(*                                                                         *)
(* Modelled domain                                                         *)
(*   object ids   1..N, 0 = null                                           *)
(*   values       integers > 0, 0 = undefined                              *)
(*   getter g>0   a function that returns 100*g + (id of its this value)   *)
(*   setter s>0   a function that reports the call <<s, this, v>>          *)
(*   [[Enumerable]] is not modelled (always true)                          *)
(***************************************************************************)
EXTENDS Naturals, Sequences, FiniteSets

Undef == 0

\* A property.  Data: acc = FALSE, fields w, v used (g = s = 0).  Accessor: acc = TRUE, fields g, s used
\* (w = FALSE, v = 0).  c = [[Configurable]].
Prop(k, acc, w, c, v, g, s) == [k |-> k, acc |-> acc, w |-> w, c |-> c, v |-> v, g |-> g, s |-> s]
DataProp(k, w, c, v) == Prop(k, FALSE, w, c, v, 0, 0)
AccProp(k, c, g, s) == Prop(k, TRUE, FALSE, c, 0, g, s)

EmptyObj == [proto |-> 0, props |-> <<>>, ext |-> TRUE]

\* index of key k in an ordered property list, 0 if absent
IdxOf(props, k) ==
  LET S == {i \in 1..Len(props) : props[i].k = k}
  IN IF S = {} THEN 0 ELSE CHOOSE i \in S : TRUE

Has(O, o, k) == IdxOf(O[o].props, k) # 0
Own(O, o, k) == O[o].props[IdxOf(O[o].props, k)]

RemoveAt(s, i) == SubSeq(s, 1, i - 1) \o SubSeq(s, i + 1, Len(s))

GetterResult(g, recv) == 100 * g + recv

(***************************************************************************)
(* 10.1.8.1 OrdinaryGet (O, P, Receiver)                                   *)
(***************************************************************************)
RECURSIVE RefGet(_, _, _, _)
RefGet(O, o, k, recv) ==
  IF o = 0 THEN Undef
  ELSE IF ~Has(O, o, k) THEN RefGet(O, O[o].proto, k, recv)
  ELSE LET p == Own(O, o, k)
       IN IF p.acc THEN (IF p.g = 0 THEN Undef ELSE GetterResult(p.g, recv)) ELSE p.v

\* 10.1.7.1 OrdinaryHasProperty
RECURSIVE RefHas(_, _, _)
RefHas(O, o, k) == IF o = 0 THEN FALSE ELSE IF Has(O, o, k) THEN TRUE ELSE RefHas(O, O[o].proto, k)

\* depth at which the property is found: 0 = own, 1 = prototype, ..., -1 encoded as 99 = not found
RECURSIVE FoundDepth(_, _, _)
FoundDepth(O, o, k) ==
  IF o = 0 THEN 99 ELSE IF Has(O, o, k) THEN 0
  ELSE LET d == FoundDepth(O, O[o].proto, k) IN IF d = 99 THEN 99 ELSE d + 1

RECURSIVE Holder(_, _, _)
Holder(O, o, k) == IF o = 0 THEN 0 ELSE IF Has(O, o, k) THEN o ELSE Holder(O, O[o].proto, k)

(***************************************************************************)
(* 10.1.9.2 OrdinarySetWithOwnDescriptor.  Result: ok (FALSE = the         *)
(* operation returned false; a strict-mode reference then throws a         *)
(* TypeError), the new object graph, the setter calls performed.           *)
(***************************************************************************)
SetResult(ok, O, calls) == [ok |-> ok, O |-> O, calls |-> calls]

RECURSIVE RefSet(_, _, _, _, _)
RefSet(O, o, k, v, recv) ==
  IF ~Has(O, o, k) /\ O[o].proto # 0 THEN RefSet(O, O[o].proto, k, v, recv)
  ELSE
    LET own == IF Has(O, o, k) THEN Own(O, o, k) ELSE DataProp(k, TRUE, TRUE, Undef)
    IN IF ~own.acc THEN
         IF ~own.w THEN SetResult(FALSE, O, <<>>)
         ELSE IF Has(O, recv, k) THEN
                LET j == IdxOf(O[recv].props, k)
                    e == O[recv].props[j]
                IN IF e.acc \/ ~e.w THEN SetResult(FALSE, O, <<>>)
                   ELSE SetResult(TRUE, [O EXCEPT ![recv].props[j].v = v], <<>>)
              ELSE IF ~O[recv].ext THEN SetResult(FALSE, O, <<>>)
              ELSE SetResult(TRUE, [O EXCEPT ![recv].props = Append(@, DataProp(k, TRUE, TRUE, v))], <<>>)
       ELSE IF own.s = 0 THEN SetResult(FALSE, O, <<>>)
       ELSE SetResult(TRUE, O, <<[n |-> own.s, r |-> recv, v |-> v]>>)

(***************************************************************************)
(* 10.1.6.3 ValidateAndApplyPropertyDescriptor for a complete descriptor   *)
(* D (a Prop record).  Result: ok, new graph.                              *)
(***************************************************************************)
DefResult(ok, O) == [ok |-> ok, O |-> O]

RefDefine(O, o, D) ==
  LET k == D.k
      i == IdxOf(O[o].props, k)
  IN IF i = 0 THEN
       IF O[o].ext THEN DefResult(TRUE, [O EXCEPT ![o].props = Append(@, D)]) ELSE DefResult(FALSE, O)
     ELSE
       LET cur == O[o].props[i]
           apply == DefResult(TRUE, [O EXCEPT ![o].props[i] = D])
       IN IF cur.c THEN apply
          ELSE IF D.c THEN DefResult(FALSE, O)
          ELSE IF cur.acc # D.acc THEN DefResult(FALSE, O)
          ELSE IF ~cur.acc THEN
                 IF ~cur.w THEN (IF D.w \/ D.v # cur.v THEN DefResult(FALSE, O) ELSE DefResult(TRUE, O))
                 ELSE apply
          ELSE IF D.g # cur.g \/ D.s # cur.s THEN DefResult(FALSE, O) ELSE DefResult(TRUE, O)

\* 10.1.10.1 OrdinaryDelete
RefDelete(O, o, k) ==
  LET i == IdxOf(O[o].props, k)
  IN IF i = 0 THEN DefResult(TRUE, O)
     ELSE IF O[o].props[i].c THEN DefResult(TRUE, [O EXCEPT ![o].props = RemoveAt(@, i)])
     ELSE DefResult(FALSE, O)

\* 10.1.2.1 OrdinarySetPrototypeOf (p = 0 is null)
RECURSIVE OnChain(_, _, _)
OnChain(O, from, x) == IF from = 0 THEN FALSE ELSE IF from = x THEN TRUE ELSE OnChain(O, O[from].proto, x)

RefSetProto(O, o, p) ==
  IF O[o].proto = p THEN DefResult(TRUE, O)
  ELSE IF ~O[o].ext THEN DefResult(FALSE, O)
  ELSE IF OnChain(O, p, o) THEN DefResult(FALSE, O)
  ELSE DefResult(TRUE, [O EXCEPT ![o].proto = p])

\* 10.1.4.1 OrdinaryPreventExtensions
RefPreventExt(O, o) == [O EXCEPT ![o].ext = FALSE]

\* 7.3.15 SetIntegrityLevel(O, frozen)
FreezeProp(p) == IF p.acc THEN [p EXCEPT !.c = FALSE] ELSE [p EXCEPT !.c = FALSE, !.w = FALSE]
RefFreeze(O, o) ==
  [O EXCEPT ![o].ext = FALSE, ![o].props = [i \in 1..Len(O[o].props) |-> FreezeProp(O[o].props[i])]]

(***************************************************************************)
(* Properties of the reference semantics itself (checked by TLC as the     *)
(* model gate): well-formedness and the invariants of the essential        *)
(* internal methods (ECMA-262 6.1.7.3).                                    *)
(***************************************************************************)
ObjIds(O) == DOMAIN O

RECURSIVE ChainLen(_, _, _)
ChainLen(O, o, fuel) == IF o = 0 THEN 0 ELSE IF fuel = 0 THEN 99 ELSE 1 + ChainLen(O, O[o].proto, fuel - 1)

Acyclic(O) == \A o \in ObjIds(O) : ChainLen(O, o, Cardinality(ObjIds(O))) # 99

WellFormed(O) ==
  /\ \A o \in ObjIds(O) :
       /\ O[o].proto \in ObjIds(O) \cup {0}
       /\ \A i, j \in 1..Len(O[o].props) : i # j => O[o].props[i].k # O[o].props[j].k
       /\ \A i \in 1..Len(O[o].props) :
            LET p == O[o].props[i]
            IN IF p.acc THEN p.w = FALSE /\ p.v = 0 ELSE p.g = 0 /\ p.s = 0
  /\ Acyclic(O)

\* 6.1.7.3 as a relation between two successive object graphs
EsStep(O, P) ==
  \A o \in ObjIds(O) :
    /\ ~O[o].ext => /\ ~P[o].ext
                    /\ P[o].proto = O[o].proto
                    /\ \A i \in 1..Len(P[o].props) : Has(O, o, P[o].props[i].k)
    /\ \A i \in 1..Len(O[o].props) :
         LET p == O[o].props[i]
         IN ~p.c => /\ Has(P, o, p.k)
                    /\ LET q == Own(P, o, p.k)
                       IN /\ ~q.c /\ q.acc = p.acc
                          /\ (p.acc => q.g = p.g /\ q.s = p.s)
                          /\ (~p.acc /\ ~p.w => ~q.w /\ q.v = p.v)
=============================================================================
