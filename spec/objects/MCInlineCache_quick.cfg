SPECIFICATION Spec
CONSTANTS
  N = 3
  Keys = {"a", "b"}
  FixUnique = FALSE
  FixProto = FALSE
  FixRollback = FALSE
  FixSetter = FALSE
  H = 3
  CatSel = {1, 2, 3, 4, 5, 6, 7, 8, 9, 10, 11}
  Wide = FALSE
INVARIANT TypeOK
INVARIANT Emit
PROPERTY EsInv
CHECK_DEADLOCK FALSE
