----------------------------- MODULE MCArraySpec -----------------------------
(* Model gate of the reference model itself: invariants and action properties of the Array exotic object over  *)
(* bounded histories of the full alphabet.                                                                      *)
EXTENDS ArraySpec, ArrayOps
CONSTANT MaxDepth
VARIABLE depth
MCInit == Init /\ depth = 0
MCNext == depth < MaxDepth /\ Next /\ depth' = depth + 1
MCView == obj
=============================================================================
