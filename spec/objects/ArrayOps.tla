------------------------------- MODULE ArrayOps -------------------------------
(* The scenario alphabet of C14: operation constructors, initial array literals and the operation sequences  *)
(* used to grow the state graph (ExploreCore, ExploreMore) and to probe every state (ProbeCore).                                 *)
EXTENDS Integers, Sequences

Big == 7     \* the "far" index: beyond every dense vector of the bounded histories, forces the sparse forms

\* ---- operation constructors
Store(i, v)  == [k |-> "store", i |-> i, v |-> v]
Read(i)      == [k |-> "read", i |-> i]
SetLen(n)    == [k |-> "setlen", n |-> n]
Delete(i)    == [k |-> "delete", i |-> i]
Define(i, p) == [k |-> "define", i |-> i, p |-> p]
DefLen(hasV, n, hasW, w) == [k |-> "deflen", hasV |-> hasV, n |-> n, hasW |-> hasW, w |-> w]
K(k)         == [k |-> k]
Push(items)  == [k |-> "push", items |-> items]
Unshift(items) == [k |-> "unshift", items |-> items]
Splice(s, hasDc, dc, items) == [k |-> "splice", start |-> s, hasDc |-> hasDc, dc |-> dc, items |-> items]
ToSpliced(s, hasDc, dc, items) == [k |-> "toSpliced", start |-> s, hasDc |-> hasDc, dc |-> dc, items |-> items]
Fill(v, s, hasEnd, e) == [k |-> "fill", v |-> v, start |-> s, hasEnd |-> hasEnd, end |-> e]
CopyWithin(t, s, hasEnd, e) == [k |-> "copyWithin", target |-> t, start |-> s, hasEnd |-> hasEnd, end |-> e]
Slice(s, hasEnd, e) == [k |-> "slice", start |-> s, hasEnd |-> hasEnd, end |-> e]
Concat(items) == [k |-> "concat", items |-> items]
IndexOf(v, from) == [k |-> "indexOf", v |-> v, from |-> from]
LastIndexOf(v, hasFrom, from) == [k |-> "lastIndexOf", v |-> v, hasFrom |-> hasFrom, from |-> from]
Includes(v, from) == [k |-> "includes", v |-> v, from |-> from]
Join(sep) == [k |-> "join", sep |-> sep]
At(i) == [k |-> "at", i |-> i]
With(i, v) == [k |-> "with", i |-> i, v |-> v]
StoreS(key, v) == [k |-> "stores", key |-> key, v |-> v]
DeleteS(key) == [k |-> "deletes", key |-> key]
HasIn(i) == [k |-> "hasIn", i |-> i]

\* ---- initial arrays: every dense form, holes, the Array constructor forms
Lit(els) == [c |-> "lit", els |-> els, n |-> 0]
New(els) == [c |-> "new", els |-> els, n |-> 0]
OfLen(n) == [c |-> "len", els |-> <<>>, n |-> n]
LitQuick == << Lit(<<>>), Lit(<<"i1", "i2", "i10">>), Lit(<<"i1", "f1.5">>), Lit(<<"i2", "-0">>), Lit(<<"i1", "sa", "obj">>),
               Lit(<<"i10", "hole", "i2">>), Lit(<<"u", "NaN", "i0">>), New(<<"i2", "i1">>), OfLen(2) >>
LitFull == LitQuick \o << Lit(<<"i1">>), Lit(<<"f1.5", "i2", "sa">>), Lit(<<"hole", "i1">>), Lit(<<"i1", "hole">>),
                          Lit(<<"obj", "u", "i1", "i1">>), Lit(<<"i2", "i10", "i1", "i0">>), New(<<"f1.5", "obj", "i1">>), OfLen(0) >>

\* ---- state-changing operations used to grow the state space
ExploreCore ==
  << Store(0, "f1.5"), Store(1, "obj"), Store(2, "i1"), Store(Big, "i1"), Store(1, "-0"),
     SetLen(1), SetLen(4), Delete(0), Delete(1),
     Define(1, "gk"), Define(0, "ro"), Define(0, "gx"), Define(1, "nc"), Define(Big, "gks"),
     DefLen(FALSE, 0, TRUE, FALSE), K("freeze"), K("pe"),
     Push(<<"i1">>), K("pop"), K("shift"), Unshift(<<"sa">>), K("reverse"), StoreS("x", "i1") >>
ExploreMore ==
  << Store(0, "i2"), Store(0, "sa"), Store(2, "NaN"), Store(3, "u"), Store(Big, "f1.5"), Store(0, "-0"),
     SetLen(0), SetLen(2), SetLen(Big + 1), Delete(2), Delete(Big),
     Define(0, "gk"), Define(0, "gks"), Define(1, "gx"), Define(2, "gx"), Define(0, "gknc"), Define(1, "ro"), Define(2, "ro"),
     Define(0, "ne"), Define(0, "nc"), Define(1, "v1"), Define(3, "v1"), Define(0, "full"), Define(1, "full"), Define(Big, "ro"),
     DefLen(TRUE, 1, TRUE, FALSE), DefLen(TRUE, 0, FALSE, FALSE), DefLen(TRUE, 5, FALSE, FALSE), K("seal"),
     Push(<<"f1.5">>), Push(<<"obj">>), Push(<<"i2", "-0">>), Unshift(<<"i1">>), Unshift(<<"f1.5", "i2">>),
     Splice(1, TRUE, 1, <<>>), Splice(0, TRUE, 0, <<"f1.5">>), Splice(1, TRUE, 0, <<"i1", "sa">>), Splice(-1, FALSE, 0, <<>>),
     Splice(0, TRUE, 1, <<"obj">>), Splice(0, TRUE, 2, <<"i1">>),
     Fill("i1", 0, FALSE, 0), Fill("f1.5", 1, TRUE, 2), Fill("obj", -1, FALSE, 0),
     CopyWithin(0, 1, FALSE, 0), CopyWithin(1, 0, FALSE, 0), CopyWithin(0, 2, TRUE, 3),
     K("sort"), StoreS("4294967295", "i2"), StoreS("x", "sa"), DeleteS("x"), DeleteS("4294967295"), K("badlen") >>

\* ---- observers (and everything else that is only probed)
ProbeCore ==
  << Read(0), Read(1), Read(2), Read(Big), At(-1), At(0), At(5),
     IndexOf("i1", 0), IndexOf("i0", 0), IndexOf("NaN", 0), IndexOf("u", 0), IndexOf("i1", -1), IndexOf("sg", 1),
     LastIndexOf("i1", FALSE, 0), LastIndexOf("u", FALSE, 0), LastIndexOf("i1", TRUE, -2),
     Includes("NaN", 0), Includes("u", 0), Includes("i0", 0), Includes("i1", 1),
     Join(","), Join("-"), K("keys"), K("values"), K("entries"), K("spread"),
     Slice(0, FALSE, 0), Slice(1, FALSE, 0), Slice(-2, TRUE, -1), Slice(0, TRUE, Big + 1),
     Concat(<<>>), Concat(<< [t |-> "v", v |-> "i1"], [t |-> "arr", els |-> <<"f1.5", "hole", "obj">>] >>),
     K("flat"), With(0, "f1.5"), With(-1, "obj"), With(Big + 2, "i1"),
     K("toReversed"), K("toSorted"), ToSpliced(1, TRUE, 1, <<"sa">>), ToSpliced(0, FALSE, 0, <<>>),
     K("map"), K("filter"), K("forEach"), K("okeys"), K("forin"),
     K("find"), K("findIndex"), K("findLast"), K("findLastIndex"), K("some"), K("every"), K("reduce"), K("reduceRight"),
     K("flatMap"), K("from"), HasIn(0), HasIn(1), HasIn(Big), K("ovalues"), K("ownnames") >>

\* ---- a genuinely far index (length 201): operations whose cost is linear in the length are affordable here
Far == 200
LitFar == << Lit(<<"i1", "i2">>), Lit(<<"i1", "hole", "f1.5">>), Lit(<<>>) >>
ExploreFar == << Store(Far, "i1"), SetLen(Far + 1), Define(Far, "ro"), Define(Far, "gk"), Store(Far, "obj") >>
ProbeFar == << Read(Far), Delete(Far), SetLen(1), SetLen(Far), Store(Far - 1, "f1.5"), Define(Far - 1, "nc"), K("freeze"),
               Push(<<"i1">>), K("pop"), K("shift"), Unshift(<<"sa">>), K("reverse"), K("sort"),
               IndexOf("i1", 2), LastIndexOf("i1", FALSE, 0), Includes("u", -3), At(-1), Slice(-2, FALSE, 0),
               Fill("i2", -2, FALSE, 0), CopyWithin(0, -2, FALSE, 0), Splice(-1, FALSE, 0, <<>>), K("flat"), K("okeys"),
               With(-1, "i2"), Join(",") >>

None == <<>>
ProbeQuick == ExploreMore \o ProbeCore
ExploreAll == ExploreCore \o ExploreMore
=============================================================================
