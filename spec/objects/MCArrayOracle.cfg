CONSTANTS
  ProtoIdx = {}
  Literals <- LitQuick
  ExploreOps <- None
  ProbeOps <- None
  Depth = 0
  GetterCap = 4
  Emit = FALSE
  SetLengthGuard = TRUE
INIT OInit
NEXT ONext
INVARIANT OEmit
CHECK_DEADLOCK FALSE
