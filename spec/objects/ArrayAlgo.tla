------------------------------ MODULE ArrayAlgo ------------------------------
(***************************************************************************)
(* ECMA-262 object semantics for integer-indexed properties plus "length", *)
(* and the generic algorithms of Array.prototype, written once over an     *)
(* abstract ELEMENT STORE interface (ElHas/ElGet/ElPut/ElDel/ElIdx).       *)
(*   ArraySpec.tla    instantiates it with the reference store             *)
(*                    (index -> descriptor map): this is the standard.     *)
(*   ArrayStorage.tla instantiates it with boa's IndexedProperties forms   *)
(*                    and boa's fast-path hooks: this is the code's design.*)
(* Every algorithm goes through Get/Set/HasProperty/Delete/                *)
(* CreateDataProperty, so the same operator serves the Array exotic object *)
(* (o.arr = TRUE) and a plain array-like (o.arr = FALSE).                  *)
(*                                                                         *)
(* Values are tokens (strings): i0 i1 i2 i10 (int32), f1.5 -0 NaN          *)
(* (doubles), sa sg (strings), obj (an object identity), u (undefined).    *)
(* "self" (the receiver) and "hole" only occur in observations.            *)
(* Programs run in strict mode: a failed [[Set]]/[[Delete]] throws.        *)
(***************************************************************************)
EXTENDS Integers, Sequences, FiniteSets, TLC

CONSTANTS ProtoIdx,     \* indices at which the prototype chain (Object.prototype) has the writable data property "P"
          ElHas(_, _), ElGet(_, _), ElPut(_, _, _), ElDel(_, _), ElIdx(_),
          EmptyObj(_, _),       \* (isArray, length) |-> fresh extensible object with an empty store
          FastLen(_, _),        \* boa: Array::set_length(o, n) writes the length slot directly
          FastDefine(_),        \* boa: array_exotic_define_own_property template-shape shortcut
          FastShift(_), ShiftDense(_),   \* boa: Array.prototype.shift dense shortcut
          GetterCap             \* the side-effecting getter grows the array only below this length

Min(a, b) == IF a < b THEN a ELSE b
Max(a, b) == IF a > b THEN a ELSE b

----------------------------------------------------------------------------
(* Values *)
IsI32(v) == v \in {"i0", "i1", "i2", "i10"}
IsNum(v) == IsI32(v) \/ v \in {"f1.5", "-0", "NaN"}
\* 7.2.15 IsStrictlyEqual, 7.2.11 SameValueZero, 7.2.10 SameValue on tokens
StrictEq(a, b) == IF a = "NaN" \/ b = "NaN" THEN FALSE ELSE (a = b \/ {a, b} = {"i0", "-0"})
SameValueZero(a, b) == a = b \/ {a, b} = {"i0", "-0"}
\* 7.1.17 ToString
ToStr(v) == CASE v = "i0" -> "0" [] v = "i1" -> "1" [] v = "i2" -> "2" [] v = "i10" -> "10"
              [] v = "f1.5" -> "1.5" [] v = "-0" -> "0" [] v = "NaN" -> "NaN"
              [] v = "sa" -> "a" [] v = "sg" -> "g" [] v = "obj" -> "[object Object]" [] v = "P" -> "P"
              [] v = "u" -> "undefined" [] OTHER -> "?"
\* rank of ToString(v) in code-unit order: "0" < "1" < "1.5" < "10" < "2" < "NaN" < "P" < "[object Object]" < "a" < "g";
\* 23.1.3.30.2 CompareArrayElements puts undefined last
Rank(v) == CASE v \in {"i0", "-0"} -> 0 [] v = "i1" -> 1 [] v = "f1.5" -> 2 [] v = "i10" -> 3 [] v = "i2" -> 4
             [] v = "NaN" -> 5 [] v = "P" -> 6 [] v = "obj" -> 7 [] v = "sa" -> 8 [] v = "sg" -> 9 [] OTHER -> 99

----------------------------------------------------------------------------
(* Property descriptors.  Full: t = "d" (data: v,w) | "a" (accessor: g,s).  *)
(* g: "" undefined | "k" getter returning "g" | "x" getter that first does  *)
(* `if (this.length < CAP) try { this[this.length] = 1 } catch {}`.         *)
(* s: "" undefined | "n" setter that does nothing.                          *)
DataD(v, w, e, c) == [t |-> "d", v |-> v, w |-> w, g |-> "", s |-> "", e |-> e, c |-> c]
AccD(g, s, e, c)  == [t |-> "a", v |-> "u", w |-> FALSE, g |-> g, s |-> s, e |-> e, c |-> c]
DefaultD(v) == DataD(v, TRUE, TRUE, TRUE)
IsDefaultD(d) == d.t = "d" /\ d.w /\ d.e /\ d.c
\* Partial descriptor: `has` lists the present fields
PD(has, v, w, g, s, e, c) == [has |-> has, v |-> v, w |-> w, g |-> g, s |-> s, e |-> e, c |-> c]
PValue(v) == PD({"v"}, v, FALSE, "", "", FALSE, FALSE)
PFull(v)  == PD({"v", "w", "e", "c"}, v, TRUE, "", "", TRUE, TRUE)
IsAccP(D)  == "g" \in D.has \/ "s" \in D.has
IsDataP(D) == "v" \in D.has \/ "w" \in D.has
Fld(D, f, dflt) == IF f \in D.has THEN D[f] ELSE dflt

\* 10.1.6.3 ValidateAndApplyPropertyDescriptor: rejection test for an existing property
Rejects(cur, D) ==
  \/ /\ ~cur.c
     /\ \/ ("c" \in D.has /\ D.c)
        \/ ("e" \in D.has /\ D.e # cur.e)
        \/ ((IsAccP(D) \/ IsDataP(D)) /\ IsAccP(D) # (cur.t = "a"))
        \/ (cur.t = "a" /\ (("g" \in D.has /\ D.g # cur.g) \/ ("s" \in D.has /\ D.s # cur.s)))
        \/ (cur.t = "d" /\ ~cur.w /\ (("w" \in D.has /\ D.w) \/ ("v" \in D.has /\ D.v # cur.v)))
NewFromPartial(D) ==
  IF IsAccP(D) THEN AccD(Fld(D, "g", ""), Fld(D, "s", ""), Fld(D, "e", FALSE), Fld(D, "c", FALSE))
  ELSE DataD(Fld(D, "v", "u"), Fld(D, "w", FALSE), Fld(D, "e", FALSE), Fld(D, "c", FALSE))
Merge(cur, D) ==
  IF cur.t = "d" /\ IsAccP(D) THEN AccD(Fld(D, "g", ""), Fld(D, "s", ""), Fld(D, "e", cur.e), Fld(D, "c", cur.c))
  ELSE IF cur.t = "a" /\ IsDataP(D) THEN DataD(Fld(D, "v", "u"), Fld(D, "w", FALSE), Fld(D, "e", cur.e), Fld(D, "c", cur.c))
  ELSE IF cur.t = "d" THEN DataD(Fld(D, "v", cur.v), Fld(D, "w", cur.w), Fld(D, "e", cur.e), Fld(D, "c", cur.c))
  ELSE AccD(Fld(D, "g", cur.g), Fld(D, "s", cur.s), Fld(D, "e", cur.e), Fld(D, "c", cur.c))

----------------------------------------------------------------------------
(* Objects: [arr, len, lenW, ext, sk, <store fields>].  "length" is a data   *)
(* property {value: len, writable: lenW, enumerable: F, configurable: F};    *)
(* sk = string-keyed extras <<[k |-> name, d |-> descriptor]>> in creation   *)
(* order.  Results of internal methods: [o |-> object, b |-> success].       *)
R(o, b) == [o |-> o, b |-> b]

\* 10.1.6.1 OrdinaryDefineOwnProperty on an index key
OrdDefine(o, i, D) ==
  IF ~ElHas(o, i) THEN (IF ~o.ext THEN R(o, FALSE) ELSE R(ElPut(o, i, NewFromPartial(D)), TRUE))
  ELSE LET cur == ElGet(o, i) IN
       IF D.has = {} THEN R(o, TRUE)
       ELSE IF Rejects(cur, D) THEN R(o, FALSE)
       ELSE R(ElPut(o, i, Merge(cur, D)), TRUE)

\* 10.4.2.1 [[DefineOwnProperty]] of an Array exotic object, index key (P is always a valid array index here)
DefineIdx(o, i, D) ==
  IF ~o.arr THEN OrdDefine(o, i, D)
  ELSE IF FastDefine(o) /\ i + 1 >= o.len THEN
       LET r == OrdDefine(o, i, D) IN IF r.b THEN R([r.o EXCEPT !.len = i + 1], TRUE) ELSE r
  ELSE IF i >= o.len /\ ~o.lenW THEN R(o, FALSE)
  ELSE LET r == OrdDefine(o, i, D) IN
       IF r.b /\ i >= o.len THEN R([r.o EXCEPT !.len = i + 1], TRUE) ELSE r

MaxOf(S) == CHOOSE x \in S : \A y \in S : y <= x
\* 10.4.2.4 ArraySetLength step 17: delete own index keys >= n in descending order until one refuses
RECURSIVE Trunc(_, _)
Trunc(o, n) ==
  LET hi == {i \in ElIdx(o) : i >= n} IN
  IF hi = {} THEN [o |-> o, stop |-> -1]
  ELSE LET m == MaxOf(hi) IN
       IF ElGet(o, m).c THEN Trunc(ElDel(o, m), n) ELSE [o |-> o, stop |-> m]

\* 10.4.2.4 ArraySetLength(A, Desc) with Desc = {[[Value]]: n if hasV, [[Writable]]: w if hasW}; n is a valid uint32
ArraySetLength(o, hasV, n, hasW, w) ==
  IF ~hasV THEN (IF hasW /\ w /\ ~o.lenW THEN R(o, FALSE) ELSE R([o EXCEPT !.lenW = IF hasW THEN w ELSE @], TRUE))
  ELSE IF n >= o.len THEN
       (IF ~o.lenW THEN (IF (hasW /\ w) \/ n # o.len THEN R(o, FALSE) ELSE R(o, TRUE))
        ELSE R([o EXCEPT !.len = n, !.lenW = IF hasW THEN w ELSE TRUE], TRUE))
  ELSE IF ~o.lenW THEN R(o, FALSE)
  ELSE LET newWritable == ~hasW \/ w
           t == Trunc([o EXCEPT !.len = n], n)
       IN IF t.stop >= 0 THEN R([t.o EXCEPT !.len = t.stop + 1, !.lenW = newWritable], FALSE)
          ELSE R([t.o EXCEPT !.lenW = newWritable], TRUE)

\* 10.1.9.2 OrdinarySetWithOwnDescriptor, Receiver = O; an inherited index property (ProtoIdx) is a writable data
\* property, so the store creates an own data property on the receiver exactly as if nothing were inherited
SetP(o, i, v) ==
  IF ElHas(o, i) THEN
       LET d == ElGet(o, i) IN
       IF d.t = "d" THEN (IF ~d.w THEN R(o, FALSE) ELSE DefineIdx(o, i, PValue(v)))
       ELSE IF d.s = "" THEN R(o, FALSE) ELSE R(o, TRUE)
  ELSE DefineIdx(o, i, PFull(v))

\* O.[[Set]]("length", n, O)
SetLenP(o, n) ==
  IF ~o.lenW THEN R(o, FALSE)
  ELSE IF o.arr THEN ArraySetLength(o, TRUE, n, FALSE, FALSE)
  ELSE R([o EXCEPT !.len = n], TRUE)

\* 10.1.10.1 OrdinaryDelete
DeleteP(o, i) ==
  IF ~ElHas(o, i) THEN R(o, TRUE)
  ELSE IF ElGet(o, i).c THEN R(ElDel(o, i), TRUE) ELSE R(o, FALSE)

----------------------------------------------------------------------------
(* Sequential state: [o, a, err, v, l].  o = the receiver, a = the array    *)
(* being built (species-created), err = "" or the class of the pending      *)
(* throw, v = value of the last Get, l = list accumulator.  Every step is   *)
(* the identity on a state with a pending throw.                            *)
St(o) == [o |-> o, a |-> EmptyObj(TRUE, 0), err |-> "", v |-> "u", l |-> <<>>]
Ok(st) == st.err = ""
Throw(st, e) == IF Ok(st) THEN [st EXCEPT !.err = e] ELSE st

\* Get(O, i) incl. getter side effect (10.1.8.1 OrdinaryGet)
GetS(st, i) ==
  IF ~Ok(st) THEN st
  ELSE IF ~ElHas(st.o, i) THEN [st EXCEPT !.v = IF i \in ProtoIdx THEN "P" ELSE "u"]     \* OrdinaryGet step 2: the prototype
  ELSE LET d == ElGet(st.o, i) IN
       IF d.t = "d" THEN [st EXCEPT !.v = d.v]
       ELSE IF d.g = "" THEN [st EXCEPT !.v = "u"]
       ELSE IF d.g = "k" THEN [st EXCEPT !.v = "sg"]
       ELSE IF st.o.len < GetterCap THEN [st EXCEPT !.o = SetP(st.o, st.o.len, "i1").o, !.v = "sg"]
       ELSE [st EXCEPT !.v = "sg"]
HasS(st, i) == ElHas(st.o, i) \/ i \in ProtoIdx     \* HasProperty(O, i): own or inherited
SetT(st, i, v) == IF ~Ok(st) THEN st ELSE           \* Set(O, i, v, true)
  LET r == SetP(st.o, i, v) IN [st EXCEPT !.o = r.o, !.err = IF r.b THEN "" ELSE "TypeError"]
DelT(st, i) == IF ~Ok(st) THEN st ELSE              \* DeletePropertyOrThrow(O, i)
  LET r == DeleteP(st.o, i) IN [st EXCEPT !.o = r.o, !.err = IF r.b THEN "" ELSE "TypeError"]
LenT(st, n) == IF ~Ok(st) THEN st ELSE              \* Set(O, "length", n, true)
  IF FastLen(st.o, n) THEN [st EXCEPT !.o.len = n]
  ELSE LET r == SetLenP(st.o, n) IN [st EXCEPT !.o = r.o, !.err = IF r.b THEN "" ELSE "TypeError"]
\* CreateDataPropertyOrThrow(A, n, v) / Set(A, "length", n, true) on the fresh result array (cannot fail)
CreateA(st, n, v) == IF ~Ok(st) THEN st ELSE [st EXCEPT !.a = DefineIdx(st.a, n, PFull(v)).o]
LenA(st, n) == IF ~Ok(st) THEN st ELSE
  [st EXCEPT !.a = IF FastLen(st.a, n) THEN [st.a EXCEPT !.len = n] ELSE SetLenP(st.a, n).o]
NewA(st, n) == [st EXCEPT !.a = EmptyObj(TRUE, n)]  \* ArraySpeciesCreate(O, n) / ArrayCreate(n)

----------------------------------------------------------------------------
(* Observations *)
RECURSIVE SortedIdx(_)
SortedIdx(S) == IF S = {} THEN <<>> ELSE LET m == CHOOSE x \in S : \A y \in S : x <= y IN <<m>> \o SortedIdx(S \ {m})
DescT(d) == IF d.t = "d" THEN <<"d", d.v, d.w, d.e, d.c>> ELSE <<"a", d.g, d.s, d.e, d.c>>
\* 10.1.11.1 OrdinaryOwnPropertyKeys: array indices ascending, then strings in creation order ("length" first)
Dump(o) == LET ix == SortedIdx(ElIdx(o)) IN
  [len |-> o.len, lw |-> o.lenW, ext |-> o.ext,
   ix |-> [k \in 1..Len(ix) |-> <<ix[k]>> \o DescT(ElGet(o, ix[k]))],
   sk |-> [k \in 1..Len(o.sk) |-> <<o.sk[k].k>> \o DescT(o.sk[k].d)]]

Fin(st, ret) == [o |-> st.o, ret |-> IF Ok(st) THEN ret ELSE <<"throw", st.err>>]
RetV(st, v) == Fin(st, <<"v", v>>)          \* a value token
RetN(st, n) == Fin(st, <<"n", n>>)          \* a number that is not a token (length, index)
RetB(st, b) == Fin(st, <<"b", b>>)
RetS(st, s) == Fin(st, <<"s", s>>)          \* a string
RetSelf(st) == Fin(st, <<"self">>)          \* the receiver itself
RetA(st)    == Fin(st, <<"arr", Dump(st.a)>>)   \* a new array
RetL(st)    == Fin(st, <<"list", st.l>>)    \* values produced by an iteration

----------------------------------------------------------------------------
(* Array.prototype algorithms (ECMA-262 23.1.3.x).  `len` is always         *)
(* LengthOfArrayLike(O) read once on entry, as the standard says.           *)
RelIdx(rel, len) == IF rel < 0 THEN Max(len + rel, 0) ELSE Min(rel, len)

RECURSIVE SetItems(_, _, _)            \* for each E of items: Set(O, j, E, true); j++
SetItems(st, items, j) ==
  IF items = <<>> \/ ~Ok(st) THEN st ELSE SetItems(SetT(st, j, Head(items)), Tail(items), j + 1)

\* 23.1.3.23 push
Push(st0, items) ==
  LET len == st0.o.len
      s1 == SetItems(st0, items, len)
  IN RetN(LenT(s1, len + Len(items)), len + Len(items))

\* 23.1.3.22 pop
Pop(st0) ==
  LET len == st0.o.len IN
  IF len = 0 THEN RetV(LenT(st0, 0), "u")
  ELSE LET s1 == GetS(st0, len - 1) IN RetV(LenT(DelT(s1, len - 1), len - 1), s1.v)

\* move one element: if HasProperty(from) then Set(to, Get(from)) else DeletePropertyOrThrow(to)
Move(st, from, to) ==
  IF ~Ok(st) THEN st
  ELSE IF HasS(st, from) THEN LET g == GetS(st, from) IN SetT(g, to, g.v) ELSE DelT(st, to)

\* 23.1.3.27 shift
RECURSIVE ShiftLoop(_, _, _)
ShiftLoop(st, k, len) == IF k >= len \/ ~Ok(st) THEN st ELSE ShiftLoop(Move(st, k, k - 1), k + 1, len)
Shift(st0) ==
  LET len == st0.o.len IN
  IF len = 0 THEN RetV(LenT(st0, 0), "u")
  ELSE IF st0.o.arr /\ FastShift(st0.o) THEN
       LET r == ShiftDense(st0.o) IN RetV(LenT([st0 EXCEPT !.o = r.o], len - 1), r.v)
  ELSE LET s1 == GetS(st0, 0)
           s2 == DelT(ShiftLoop(s1, 1, len), len - 1)
       IN RetV(LenT(s2, len - 1), s1.v)

\* 23.1.3.34 unshift
RECURSIVE UnshiftMove(_, _, _)
UnshiftMove(st, k, argc) == IF k <= 0 \/ ~Ok(st) THEN st ELSE UnshiftMove(Move(st, k - 1, k + argc - 1), k - 1, argc)
Unshift(st0, items) ==
  LET len == st0.o.len
      argc == Len(items)
      s1 == IF argc > 0 THEN SetItems(UnshiftMove(st0, len, argc), items, 0) ELSE st0
  IN RetN(LenT(s1, len + argc), len + argc)

\* 23.1.3.31 splice(start, deleteCount?, ...items)
RECURSIVE SpliceCopy(_, _, _, _)       \* k < adc: if HasProperty(start+k) then CreateDataPropertyOrThrow(A, k, Get)
SpliceCopy(st, k, adc, as) ==
  IF k >= adc \/ ~Ok(st) THEN st
  ELSE IF HasS(st, as + k) THEN LET g == GetS(st, as + k) IN SpliceCopy(CreateA(g, k, g.v), k + 1, adc, as)
  ELSE SpliceCopy(st, k + 1, adc, as)
RECURSIVE SpliceDown(_, _, _, _, _)    \* itemCount < adc: k from actualStart while k < len - adc
SpliceDown(st, k, lim, adc, ic) ==
  IF k >= lim \/ ~Ok(st) THEN st ELSE SpliceDown(Move(st, k + adc, k + ic), k + 1, lim, adc, ic)
RECURSIVE DelDown(_, _, _)             \* k from len while k > lim: DeletePropertyOrThrow(k - 1)
DelDown(st, k, lim) == IF k <= lim \/ ~Ok(st) THEN st ELSE DelDown(DelT(st, k - 1), k - 1, lim)
RECURSIVE SpliceUp(_, _, _, _, _)      \* itemCount > adc: k from len - adc while k > actualStart
SpliceUp(st, k, as, adc, ic) ==
  IF k <= as \/ ~Ok(st) THEN st ELSE SpliceUp(Move(st, k + adc - 1, k + ic - 1), k - 1, as, adc, ic)
Splice(st0, start, hasDc, dc, items) ==
  LET len == st0.o.len
      as == RelIdx(start, len)
      ic == Len(items)
      adc == IF ~hasDc THEN len - as ELSE Min(Max(dc, 0), len - as)
      s1 == LenA(SpliceCopy(NewA(st0, adc), 0, adc, as), adc)
      s2 == IF ic < adc THEN DelDown(SpliceDown(s1, as, len - adc, adc, ic), len, len - adc + ic)
            ELSE IF ic > adc THEN SpliceUp(s1, len - adc, as, adc, ic) ELSE s1
      s3 == SetItems(s2, items, as)
  IN RetA(LenT(s3, len - adc + ic))

\* 23.1.3.7 fill(value, start?, end?)
RECURSIVE FillLoop(_, _, _, _)
FillLoop(st, k, final, v) == IF k >= final \/ ~Ok(st) THEN st ELSE FillLoop(SetT(st, k, v), k + 1, final, v)
Fill(st0, v, start, hasEnd, end) ==
  LET len == st0.o.len IN
  RetSelf(FillLoop(st0, RelIdx(start, len), IF hasEnd THEN RelIdx(end, len) ELSE len, v))

\* 23.1.3.4 copyWithin(target, start, end?)
RECURSIVE CwLoop(_, _, _, _, _)
CwLoop(st, from, to, dir, count) ==
  IF count <= 0 \/ ~Ok(st) THEN st ELSE CwLoop(Move(st, from, to), from + dir, to + dir, dir, count - 1)
CopyWithin(st0, target, start, hasEnd, end) ==
  LET len == st0.o.len
      to == RelIdx(target, len)
      from == RelIdx(start, len)
      final == IF hasEnd THEN RelIdx(end, len) ELSE len
      count == Min(final - from, len - to)
  IN IF from < to /\ to < from + count
     THEN RetSelf(CwLoop(st0, from + count - 1, to + count - 1, -1, count))
     ELSE RetSelf(CwLoop(st0, from, to, 1, count))

\* 23.1.3.26 reverse
RECURSIVE RevLoop(_, _, _, _)
RevLoop(st, lower, middle, len) ==
  IF lower >= middle \/ ~Ok(st) THEN st
  ELSE LET upper == len - lower - 1
           lowerExists == HasS(st, lower)
           s1 == IF lowerExists THEN GetS(st, lower) ELSE st
           upperExists == HasS(s1, upper)
           s2 == IF upperExists THEN GetS(s1, upper) ELSE s1
           s3 == IF ~Ok(s2) THEN s2
                 ELSE IF lowerExists /\ upperExists THEN SetT(SetT(s2, lower, s2.v), upper, s1.v)
                 ELSE IF upperExists THEN DelT(SetT(s2, lower, s2.v), upper)
                 ELSE IF lowerExists THEN SetT(DelT(s2, lower), upper, s1.v)
                 ELSE s2
       IN RevLoop(s3, lower + 1, middle, len)
Reverse(st0) == LET len == st0.o.len IN RetSelf(RevLoop(st0, 0, len \div 2, len))

\* 23.1.3.30 sort (default comparator) / 23.1.3.30.1 SortIndexedProperties
RECURSIVE Collect(_, _, _, _)      \* skipHoles: only HasProperty indices are read
Collect(st, k, len, skipHoles) ==
  IF k >= len \/ ~Ok(st) THEN st
  ELSE IF skipHoles /\ ~HasS(st, k) THEN Collect(st, k + 1, len, skipHoles)
  ELSE LET g == GetS(st, k) IN Collect([g EXCEPT !.l = Append(g.l, g.v)], k + 1, len, skipHoles)
RECURSIVE InsSorted(_, _)
InsSorted(s, x) == IF s = <<>> THEN <<x>>
                   ELSE IF Rank(Head(s)) <= Rank(x) THEN <<Head(s)>> \o InsSorted(Tail(s), x) ELSE <<x>> \o s
RECURSIVE StableSort(_)               \* stable, ascending by ToString in code-unit order, undefined last
StableSort(s) == IF s = <<>> THEN <<>> ELSE InsSorted(StableSort(SubSeq(s, 1, Len(s) - 1)), s[Len(s)])
RECURSIVE DelUp(_, _, _)
DelUp(st, j, len) == IF j >= len \/ ~Ok(st) THEN st ELSE DelUp(DelT(st, j), j + 1, len)
Sort(st0) ==
  LET len == st0.o.len
      s1 == Collect([st0 EXCEPT !.l = <<>>], 0, len, TRUE)
      sorted == StableSort(s1.l)
  IN RetSelf(DelUp(SetItems(s1, sorted, 0), Len(sorted), len))

\* list -> fresh array (CreateDataPropertyOrThrow for k = 0..)
RECURSIVE ListToA(_, _, _)
ListToA(st, l, k) == IF l = <<>> \/ ~Ok(st) THEN st ELSE ListToA(CreateA(st, k, Head(l)), Tail(l), k + 1)

\* 23.1.3.1 concat(...items); an item is [t |-> "v", v |-> token] or [t |-> "arr", els |-> <<token | "hole">>]
RECURSIVE ConcatSelf(_, _, _, _)
ConcatSelf(st, k, len, n) ==
  IF k >= len \/ ~Ok(st) THEN st
  ELSE IF HasS(st, k) THEN LET g == GetS(st, k) IN ConcatSelf(CreateA(g, n, g.v), k + 1, len, n + 1)
  ELSE ConcatSelf(st, k + 1, len, n + 1)
\* an argument array written as a literal: element k of it is at index k, where a hole shows an inherited property
RECURSIVE ConcatList(_, _, _, _)
ConcatList(st, els, n, k) ==
  IF els = <<>> THEN st
  ELSE ConcatList(IF Head(els) = "hole" THEN (IF k \in ProtoIdx THEN CreateA(st, n, "P") ELSE st)
                  ELSE CreateA(st, n, Head(els)), Tail(els), n + 1, k + 1)
RECURSIVE ConcatItems(_, _, _)
ConcatItems(st, items, n) ==
  IF items = <<>> \/ ~Ok(st) THEN [st |-> st, n |-> n]
  ELSE LET it == Head(items) IN
       IF it.t = "v" THEN ConcatItems(CreateA(st, n, it.v), Tail(items), n + 1)
       ELSE ConcatItems(ConcatList(st, it.els, n, 0), Tail(items), n + Len(it.els))
Concat(st0, items) ==
  LET s0 == NewA(st0, 0)
      \* IsConcatSpreadable(O): an Array (or a Proxy for one) is spread, a plain array-like is one element
      len == st0.o.len
      s1 == IF st0.o.arr THEN ConcatSelf(s0, 0, len, 0) ELSE CreateA(s0, 0, "self")
      n1 == IF st0.o.arr THEN len ELSE 1
      r == ConcatItems(s1, items, n1)
  IN RetA(LenA(r.st, r.n))

\* 23.1.3.28 slice(start, end?)
RECURSIVE SliceLoop(_, _, _, _)
SliceLoop(st, k, final, n) ==
  IF k >= final \/ ~Ok(st) THEN [st |-> st, n |-> n]
  ELSE IF HasS(st, k) THEN LET g == GetS(st, k) IN SliceLoop(CreateA(g, n, g.v), k + 1, final, n + 1)
  ELSE SliceLoop(st, k + 1, final, n + 1)
Slice(st0, start, hasEnd, end) ==
  LET len == st0.o.len
      k == RelIdx(start, len)
      final == IF hasEnd THEN RelIdx(end, len) ELSE len
      r == SliceLoop(NewA(st0, Max(final - k, 0)), k, final, 0)
  IN RetA(LenA(r.st, r.n))

\* 23.1.3.13 flat() with depth 1; no element of the value universe is an array
RECURSIVE FlatLoop(_, _, _, _)
FlatLoop(st, k, len, n) ==
  IF k >= len \/ ~Ok(st) THEN st
  ELSE IF HasS(st, k) THEN LET g == GetS(st, k) IN FlatLoop(CreateA(g, n, g.v), k + 1, len, n + 1)
  ELSE FlatLoop(st, k + 1, len, n)
Flat(st0) == RetA(FlatLoop(NewA(st0, 0), 0, st0.o.len, 0))

\* 23.1.3.17 indexOf(x, fromIndex?) / 23.1.3.20 lastIndexOf / 23.1.3.16 includes
RECURSIVE IdxLoop(_, _, _, _)
IdxLoop(st, k, len, x) ==
  IF ~Ok(st) THEN [st |-> st, n |-> -1]
  ELSE IF k >= len THEN [st |-> st, n |-> -1]
  ELSE IF HasS(st, k) THEN LET g == GetS(st, k) IN
         IF Ok(g) /\ StrictEq(x, g.v) THEN [st |-> g, n |-> k] ELSE IdxLoop(g, k + 1, len, x)
  ELSE IdxLoop(st, k + 1, len, x)
IndexOf(st0, x, from) ==
  LET len == st0.o.len IN
  IF len = 0 THEN RetN(st0, -1)
  ELSE LET r == IdxLoop(st0, IF from >= 0 THEN from ELSE Max(len + from, 0), len, x) IN RetN(r.st, r.n)
RECURSIVE LastIdxLoop(_, _, _)
LastIdxLoop(st, k, x) ==
  IF ~Ok(st) \/ k < 0 THEN [st |-> st, n |-> -1]
  ELSE IF HasS(st, k) THEN LET g == GetS(st, k) IN
         IF Ok(g) /\ StrictEq(x, g.v) THEN [st |-> g, n |-> k] ELSE LastIdxLoop(g, k - 1, x)
  ELSE LastIdxLoop(st, k - 1, x)
LastIndexOf(st0, x, hasFrom, from) ==
  LET len == st0.o.len IN
  IF len = 0 THEN RetN(st0, -1)
  ELSE LET n == IF hasFrom THEN from ELSE len - 1
           r == LastIdxLoop(st0, IF n >= 0 THEN Min(n, len - 1) ELSE len + n, x)
       IN RetN(r.st, r.n)
RECURSIVE InclLoop(_, _, _, _)
InclLoop(st, k, len, x) ==
  IF ~Ok(st) \/ k >= len THEN [st |-> st, b |-> FALSE]
  ELSE LET g == GetS(st, k) IN
       IF Ok(g) /\ SameValueZero(g.v, x) THEN [st |-> g, b |-> TRUE] ELSE InclLoop(g, k + 1, len, x)
Includes(st0, x, from) ==
  LET len == st0.o.len IN
  IF len = 0 THEN RetB(st0, FALSE)
  ELSE LET r == InclLoop(st0, IF from >= 0 THEN from ELSE Max(len + from, 0), len, x) IN RetB(r.st, r.b)

\* 23.1.3.18 join(separator?)
RECURSIVE JoinLoop(_, _, _, _, _)
JoinLoop(st, k, len, sep, acc) ==
  IF ~Ok(st) \/ k >= len THEN [st |-> st, s |-> acc]
  ELSE LET g == GetS(st, k)
           piece == IF g.v = "u" THEN "" ELSE ToStr(g.v)
       IN JoinLoop(g, k + 1, len, sep, (IF k > 0 THEN acc \o sep ELSE acc) \o piece)
Join(st0, sep) == LET r == JoinLoop(st0, 0, st0.o.len, sep, "") IN RetS(r.st, r.s)

\* 23.1.3.1 at(index)
At(st0, rel) ==
  LET len == st0.o.len
      k == IF rel >= 0 THEN rel ELSE len + rel
  IN IF k < 0 \/ k >= len THEN RetV(st0, "u") ELSE LET g == GetS(st0, k) IN RetV(g, g.v)

\* 23.1.3.39 with(index, value): reads through holes, RangeError when out of range
RECURSIVE WithLoop(_, _, _, _, _)
WithLoop(st, k, len, ai, v) ==
  IF k >= len \/ ~Ok(st) THEN st
  ELSE IF k = ai THEN WithLoop(CreateA(st, k, v), k + 1, len, ai, v)
  ELSE LET g == GetS(st, k) IN WithLoop(CreateA(g, k, g.v), k + 1, len, ai, v)
With(st0, rel, v) ==
  LET len == st0.o.len
      ai == IF rel >= 0 THEN rel ELSE len + rel
  IN IF ai >= len \/ ai < 0 THEN Fin(Throw(st0, "RangeError"), <<"none">>)
     ELSE RetA(WithLoop(NewA(st0, len), 0, len, ai, v))

\* 23.1.3.33 toReversed / 23.1.3.34 toSorted / 23.1.3.35 toSpliced: read through holes
RECURSIVE ToRevLoop(_, _, _)
ToRevLoop(st, k, len) ==
  IF k >= len \/ ~Ok(st) THEN st ELSE LET g == GetS(st, len - k - 1) IN ToRevLoop(CreateA(g, k, g.v), k + 1, len)
ToReversed(st0) == LET len == st0.o.len IN RetA(ToRevLoop(NewA(st0, len), 0, len))
ToSorted(st0) ==
  LET len == st0.o.len
      s1 == Collect([NewA(st0, len) EXCEPT !.l = <<>>], 0, len, FALSE)
  IN RetA(ListToA(s1, StableSort(s1.l), 0))
RECURSIVE CopyRange(_, _, _, _)        \* i in from..to-1: CreateDataPropertyOrThrow(A, n + (i-from), Get(O, i))
CopyRange(st, i, to, n) ==
  IF i >= to \/ ~Ok(st) THEN st ELSE LET g == GetS(st, i) IN CopyRange(CreateA(g, n, g.v), i + 1, to, n + 1)
ToSpliced(st0, start, hasSkip, skip, items) ==
  LET len == st0.o.len
      as == RelIdx(start, len)
      ic == Len(items)
      sc == IF ~hasSkip THEN len - as ELSE Min(Max(skip, 0), len - as)
      newLen == len + ic - sc
      s1 == CopyRange(NewA(st0, newLen), 0, as, 0)
      s2 == ListToA(s1, items, as)
  IN RetA(CopyRange(s2, as + sc, len, as + ic))

\* 23.1.5 Array iterators: %ArrayIteratorPrototype%.next re-reads the length at every step
RECURSIVE IterLoop(_, _, _)
IterLoop(st, idx, kind) ==
  IF ~Ok(st) \/ idx >= st.o.len THEN st
  ELSE IF kind = "keys" THEN IterLoop([st EXCEPT !.l = Append(st.l, idx)], idx + 1, kind)
  ELSE LET g == GetS(st, idx) IN
       IterLoop([g EXCEPT !.l = Append(g.l, IF kind = "values" THEN g.v ELSE <<idx, g.v>>)], idx + 1, kind)
Iterate(st0, kind) == RetL(IterLoop([st0 EXCEPT !.l = <<>>], 0, kind))
\* [...O] : the values iteration collected into a new array
Spread(st0) == LET s1 == IterLoop([st0 EXCEPT !.l = <<>>], 0, "values") IN RetA(ListToA(NewA(s1, 0), s1.l, 0))

\* callbacks: 23.1.3.21 map(x => x), 23.1.3.8 filter(x => true), 23.1.3.15 forEach(x => log(x))
RECURSIVE MapLoop(_, _, _)
MapLoop(st, k, len) ==
  IF k >= len \/ ~Ok(st) THEN st
  ELSE IF HasS(st, k) THEN LET g == GetS(st, k) IN MapLoop(CreateA(g, k, g.v), k + 1, len)
  ELSE MapLoop(st, k + 1, len)
Map(st0) == LET len == st0.o.len IN RetA(MapLoop(NewA(st0, len), 0, len))
Filter(st0) == Flat(st0)   \* identical steps when the predicate is constantly true and no element is an array
ForEach(st0) == RetL(Collect([st0 EXCEPT !.l = <<>>], 0, st0.o.len, TRUE))

\* callbacks that log their argument: 23.1.3.9 find / findIndex / findLast / findLastIndex read through holes,
\* 23.1.3.29 some / 23.1.3.6 every / 23.1.3.24 reduce / reduceRight skip holes
RECURSIVE FindLoop(_, _, _, _)
FindLoop(st, k, stop, dir) ==
  IF k = stop \/ ~Ok(st) THEN st
  ELSE LET g == GetS(st, k) IN FindLoop([g EXCEPT !.l = Append(g.l, g.v)], k + dir, stop, dir)
FindAll(st0, fromEnd) ==
  LET len == st0.o.len s == [st0 EXCEPT !.l = <<>>] IN
  IF fromEnd THEN FindLoop(s, len - 1, -1, -1) ELSE FindLoop(s, 0, len, 1)
RECURSIVE VisitLoop(_, _, _, _)        \* present elements only
VisitLoop(st, k, stop, dir) ==
  IF k = stop \/ ~Ok(st) THEN st
  ELSE IF HasS(st, k) THEN LET g == GetS(st, k) IN VisitLoop([g EXCEPT !.l = Append(g.l, g.v)], k + dir, stop, dir)
  ELSE VisitLoop(st, k + dir, stop, dir)
VisitAll(st0, fromEnd) ==
  LET len == st0.o.len s == [st0 EXCEPT !.l = <<>>] IN
  IF fromEnd THEN VisitLoop(s, len - 1, -1, -1) ELSE VisitLoop(s, 0, len, 1)
RetLV(st, ret) == Fin(st, <<"listv", st.l, ret>>)      \* logged values, then the result

\* 23.1.2.1 Array.from(items): an Array (or Proxy for one) is iterable, a plain array-like is read index by index
ArrayFrom(st0) ==
  IF st0.o.arr THEN Spread(st0)
  ELSE LET len == st0.o.len IN RetA(CopyRange(NewA(st0, len), 0, len, 0))

\* 7.3.23 EnumerableOwnProperties(O, value) = Object.values: keys are snapshotted, each is re-checked, then Get
RECURSIVE ValuesLoop(_, _)
ValuesLoop(st, ix) ==
  IF ix = <<>> \/ ~Ok(st) THEN st
  ELSE IF ElHas(st.o, Head(ix)) /\ ElGet(st.o, Head(ix)).e
       THEN LET g == GetS(st, Head(ix)) IN ValuesLoop([g EXCEPT !.l = Append(g.l, g.v)], Tail(ix))
       ELSE ValuesLoop(st, Tail(ix))
ObjectValues(st0) ==
  LET s1 == ValuesLoop([st0 EXCEPT !.l = <<>>], SortedIdx(ElIdx(st0.o)))
      extras == SelectSeq(s1.o.sk, LAMBDA x : x.d.e)
  IN Fin(s1, <<"list", s1.l \o [k \in 1..Len(extras) |-> extras[k].d.v]>>)
OwnNames(o) ==
  LET ix == SortedIdx(ElIdx(o)) IN
  [k \in 1..Len(ix) |-> ToString(ix[k])] \o <<"length">> \o [k \in 1..Len(o.sk) |-> o.sk[k].k]

----------------------------------------------------------------------------
(* Operations of the scenario alphabet.  An operation is a record with a    *)
(* kind `k` and kind-specific fields; Apply gives the object afterwards and *)
(* the observation `ret`.                                                   *)

\* the menu of descriptors used by Object.defineProperty(T, i, <menu entry>)
PDesc(name) ==
  CASE name = "gk"   -> PD({"g", "e", "c"}, "u", FALSE, "k", "", TRUE, TRUE)
    [] name = "gks"  -> PD({"g", "s", "e", "c"}, "u", FALSE, "k", "n", TRUE, TRUE)
    [] name = "gx"   -> PD({"g", "s", "e", "c"}, "u", FALSE, "x", "n", TRUE, TRUE)
    [] name = "gknc" -> PD({"g"}, "u", FALSE, "k", "", FALSE, FALSE)
    [] name = "ro"   -> PD({"v", "w", "e", "c"}, "i2", FALSE, "", "", TRUE, TRUE)
    [] name = "ne"   -> PD({"e"}, "u", FALSE, "", "", FALSE, FALSE)
    [] name = "nc"   -> PD({"c"}, "u", FALSE, "", "", FALSE, FALSE)
    [] name = "v1"   -> PD({"v"}, "i1", FALSE, "", "", FALSE, FALSE)
    [] name = "full" -> PD({"v", "w", "e", "c"}, "f1.5", TRUE, "", "", TRUE, TRUE)

\* 7.3.15 SetIntegrityLevel
RECURSIVE IntegrityIdx(_, _, _)
IntegrityIdx(o, ix, frozen) ==
  IF ix = <<>> THEN o
  ELSE LET i == Head(ix)
           d == ElGet(o, i)
           D == IF frozen /\ d.t = "d" THEN PD({"c", "w"}, "u", FALSE, "", "", FALSE, FALSE)
                ELSE PD({"c"}, "u", FALSE, "", "", FALSE, FALSE)
       IN IntegrityIdx(DefineIdx(o, i, D).o, Tail(ix), frozen)
SetIntegrity(o, frozen) ==
  LET o1 == IntegrityIdx([o EXCEPT !.ext = FALSE], SortedIdx(ElIdx(o)), frozen)
      o2 == IF frozen THEN [o1 EXCEPT !.lenW = FALSE] ELSE o1
  IN [o2 EXCEPT !.sk = [k \in 1..Len(o2.sk) |->
        [o2.sk[k] EXCEPT !.d.c = FALSE, !.d.w = IF frozen THEN FALSE ELSE @]]]

SkPos(o, name) == LET S == {k \in 1..Len(o.sk) : o.sk[k].k = name} IN IF S = {} THEN 0 ELSE CHOOSE k \in S : TRUE
StoreS(o, name, v) ==       \* T[name] = v for a string key that is not an array index
  LET p == SkPos(o, name) IN
  IF p > 0 THEN (IF o.sk[p].d.w THEN R([o EXCEPT !.sk[p].d.v = v], TRUE) ELSE R(o, FALSE))
  ELSE IF ~o.ext THEN R(o, FALSE)
  ELSE R([o EXCEPT !.sk = Append(@, [k |-> name, d |-> DefaultD(v)])], TRUE)
DeleteS(o, name) ==
  LET p == SkPos(o, name) IN
  IF p = 0 THEN R(o, TRUE)
  ELSE IF ~o.sk[p].d.c THEN R(o, FALSE)
  ELSE R([o EXCEPT !.sk = SubSeq(@, 1, p - 1) \o SubSeq(@, p + 1, Len(@))], TRUE)

\* 7.3.23 EnumerableOwnProperties(O, key) = what Object.keys and for-in list here
EnumKeys(o) ==
  LET ix == SortedIdx(ElIdx(o)) IN
  SelectSeq([k \in 1..Len(ix) |-> IF ElGet(o, ix[k]).e THEN ToString(ix[k]) ELSE ""], LAMBDA x : x # "")
  \o SelectSeq([k \in 1..Len(o.sk) |-> IF o.sk[k].d.e THEN o.sk[k].k ELSE ""], LAMBDA x : x # "")

TE(r) == [o |-> r.o, ret |-> IF r.b THEN <<"ok">> ELSE <<"throw", "TypeError">>]

Methods == {"push", "pop", "shift", "unshift", "splice", "fill", "copyWithin", "reverse", "sort", "concat",
            "slice", "flat", "indexOf", "lastIndexOf", "includes", "join", "at", "with", "toReversed",
            "toSorted", "toSpliced", "keys", "values", "entries", "spread", "map", "filter", "forEach",
            "find", "findIndex", "findLast", "findLastIndex", "some", "every", "reduce", "reduceRight", "flatMap", "from"}
IsMethod(op) == op.k \in Methods

Apply(o, op) ==
  LET st == St(o) k == op.k IN
  CASE k = "store"   -> Fin(SetT(st, op.i, op.v), <<"ok">>)                 \* T[i] = v
    [] k = "read"    -> LET g == GetS(st, op.i) IN RetV(g, g.v)              \* T[i]
    [] k = "setlen"  -> TE(SetLenP(o, op.n))                                 \* T.length = n
    [] k = "badlen"  -> IF ~o.lenW THEN [o |-> o, ret |-> <<"throw", "TypeError">>]   \* T.length = -1
                        ELSE [o |-> o, ret |-> <<"throw", "RangeError">>]
    [] k = "delete"  -> TE(DeleteP(o, op.i))                                 \* delete T[i]
    [] k = "define"  -> TE(DefineIdx(o, op.i, PDesc(op.p)))                  \* Object.defineProperty(T, i, desc)
    [] k = "deflen"  -> TE(ArraySetLength(o, op.hasV, op.n, op.hasW, op.w))  \* Object.defineProperty(T, "length", desc)
    [] k = "freeze"  -> [o |-> SetIntegrity(o, TRUE), ret |-> <<"ok">>]
    [] k = "seal"    -> [o |-> SetIntegrity(o, FALSE), ret |-> <<"ok">>]
    [] k = "pe"      -> [o |-> [o EXCEPT !.ext = FALSE], ret |-> <<"ok">>]
    [] k = "stores"  -> TE(StoreS(o, op.key, op.v))
    [] k = "deletes" -> TE(DeleteS(o, op.key))
    [] k = "okeys"   -> [o |-> o, ret |-> <<"list", EnumKeys(o)>>]           \* Object.keys(T)
    [] k = "forin"   -> [o |-> o, ret |-> <<"list", EnumKeys(o)>>]           \* for (k in T)
    [] k = "push"    -> Push(st, op.items)
    [] k = "pop"     -> Pop(st)
    [] k = "shift"   -> Shift(st)
    [] k = "unshift" -> Unshift(st, op.items)
    [] k = "splice"  -> Splice(st, op.start, op.hasDc, op.dc, op.items)
    [] k = "fill"    -> Fill(st, op.v, op.start, op.hasEnd, op.end)
    [] k = "copyWithin" -> CopyWithin(st, op.target, op.start, op.hasEnd, op.end)
    [] k = "reverse" -> Reverse(st)
    [] k = "sort"    -> Sort(st)
    [] k = "concat"  -> Concat(st, op.items)
    [] k = "slice"   -> Slice(st, op.start, op.hasEnd, op.end)
    [] k = "flat"    -> Flat(st)
    [] k = "indexOf" -> IndexOf(st, op.v, op.from)
    [] k = "lastIndexOf" -> LastIndexOf(st, op.v, op.hasFrom, op.from)
    [] k = "includes" -> Includes(st, op.v, op.from)
    [] k = "join"    -> Join(st, op.sep)
    [] k = "at"      -> At(st, op.i)
    [] k = "with"    -> With(st, op.i, op.v)
    [] k = "toReversed" -> ToReversed(st)
    [] k = "toSorted" -> ToSorted(st)
    [] k = "toSpliced" -> ToSpliced(st, op.start, op.hasDc, op.dc, op.items)
    [] k = "keys"    -> Iterate(st, "keys")
    [] k = "values"  -> Iterate(st, "values")
    [] k = "entries" -> Iterate(st, "entries")
    [] k = "spread"  -> Spread(st)
    [] k = "map"     -> Map(st)
    [] k = "filter"  -> Filter(st)
    [] k = "forEach" -> ForEach(st)
    [] k = "find"    -> RetLV(FindAll(st, FALSE), <<"v", "u">>)             \* the predicate logs and returns false
    [] k = "findIndex" -> RetLV(FindAll(st, FALSE), <<"n", -1>>)
    [] k = "findLast" -> RetLV(FindAll(st, TRUE), <<"v", "u">>)
    [] k = "findLastIndex" -> RetLV(FindAll(st, TRUE), <<"n", -1>>)
    [] k = "some"    -> RetLV(VisitAll(st, FALSE), <<"b", FALSE>>)
    [] k = "every"   -> RetLV(VisitAll(st, FALSE), <<"b", TRUE>>)           \* the predicate logs and returns true
    [] k = "reduce"  -> RetLV(VisitAll(st, FALSE), <<"v", "i0">>)           \* (acc, x) => (log(x), acc) with initial value 0
    [] k = "reduceRight" -> RetLV(VisitAll(st, TRUE), <<"v", "i0">>)
    [] k = "flatMap" -> Flat(st)                                            \* x => x: same steps as flat() over non-arrays
    [] k = "from"    -> ArrayFrom(st)                                       \* Array.from(T)
    [] k = "hasIn"   -> RetB(st, HasS(st, op.i))                            \* i in T
    [] k = "ovalues" -> ObjectValues(st)                                    \* Object.values(T)
    [] k = "ownnames" -> [o |-> o, ret |-> <<"list", OwnNames(o)>>]         \* Object.getOwnPropertyNames(T)

\* Array literal [e1, , e3]: CreateDataProperty per element, holes only advance the length
RECURSIVE LitFill(_, _, _)
LitFill(o, els, k) ==
  IF els = <<>> THEN o
  ELSE LitFill(IF Head(els) = "hole" THEN o ELSE DefineIdx(o, k, PFull(Head(els))).o, Tail(els), k + 1)
Literal(els) == [LitFill(EmptyObj(TRUE, 0), els, 0) EXCEPT !.len = Len(els)]
\* How the initial array is made: [c |-> "lit", els] an array literal; [c |-> "new", els] new Array(e1, e2, ...) with
\* at least two arguments (23.1.1.1 step 6); [c |-> "len", n] new Array(n) (step 5: ArrayCreate(0), then length = n)
Create(l) == IF l.c = "len" THEN EmptyObj(TRUE, l.n) ELSE Literal(l.els)
=============================================================================
