----------------------------- MODULE InlineCache -----------------------------
(***************************************************************************)
(* Implementation-shaped model of boa's inline caches on top of the        *)
(* reference semantics of Shapes.tla.                                      *)
(*                                                                         *)
(* What is reproduced from /repo/core/engine/src:                          *)
(*  - shape identity (object/shape/): a shared shape is identified by    *)
(*    its transition path from the root (forward transitions are memoised  *)
(*    per (key, attributes) / prototype, so equal paths are the same       *)
(*    shape); delete and width-changing reconfiguration roll back to the   *)
(*    shape before the key's insertion and re-insert the later keys        *)
(*    (shared_shape/mod.rs rollback_before, including that a configure     *)
(*    shape reports the *last* property of its table); a unique shape      *)
(*    (builtins such as Math, the global object) is mutated in place on    *)
(*    insert and on same-width attribute change and replaced on delete,    *)
(*    width change and prototype change (unique_shape.rs);                 *)
(*  - storage layout (property_map.rs): values in property order, an       *)
(*    accessor occupies two cells (get, set);                              *)
(*  - an access site (vm/inline_cache/mod.rs): up to 4 entries             *)
(*    shape -> slot(index, PROTOTYPE flag, accessor flag), megamorphic     *)
(*    after the fifth distinct shape;                                      *)
(*  - what the miss paths cache (internal_methods/mod.rs ordinary_get /    *)
(*    ordinary_set slot bookkeeping: FOUND, PROTOTYPE, NOT_CACHEABLE) and  *)
(*    what the hit paths do (vm/opcode/get/property.rs, set/property.rs,   *)
(*    get/name.rs).                                                        *)
(*                                                                         *)
(* objs always evolves by the REFERENCE semantics (that is what the        *)
(* property demands of every access); Transparent states that whatever a   *)
(* hit path would do in the current state is exactly that.  With           *)
(* FixUnique = FixProto = FALSE (the pinned tree) TLC refutes Transparent; *)
(* with both TRUE (the proposed repairs) it holds within the bounds.       *)
(***************************************************************************)
EXTENDS Shapes, TLC

CONSTANTS N,          \* objects 1..N
          Keys,       \* property keys
          FixUnique,  \* repair 1: a unique shape gets a new identity on every insert / attribute change
          FixProto,   \* repair 2: a PROTOTYPE entry also records and re-validates the prototype's shape
          FixSetter,  \* repair 4: a cached store through an accessor without a setter fails (TypeError when strict)
          FixRollback \* repair 3: delete / width change keep the attribute changes of the other properties

VARIABLES objs,   \* reference object graph
          uq,     \* uq[o]: object o has a unique shape (constant during a behaviour)
          shp,    \* shp[o]: shape identity token of object o
          nextU,  \* next unique-shape identity
          sites,  \* access sites
          log     \* history: operations with the reference observation and the predicted cache behaviour

vars == <<objs, uq, shp, nextU, sites, log>>

Objs == 1..N
SiteIds == {"G", "S"} \X Keys          \* one get site and one set site per key
PicCapacity == 4

-----------------------------------------------------------------------------
(* shape identity *)

Att(p) == [acc |-> p.acc, w |-> p.w, c |-> p.c]
NoAtt == [acc |-> FALSE, w |-> FALSE, c |-> FALSE]
Ins(k, a) == [t |-> "i", k |-> k, a |-> a, p |-> 0]
Cfg(k, a) == [t |-> "c", k |-> k, a |-> a, p |-> 0]
Pro(p)    == [t |-> "p", k |-> "", a |-> NoAtt, p |-> p]

SharedShape(path) == [u |-> 0, path |-> path]
UniqueShape(n)    == [u |-> n, path |-> <<>>]
NoShape           == [u |-> 0, path |-> <<[t |-> "none", k |-> "", a |-> NoAtt, p |-> 0]>>]

\* the property table (key, attributes) a shared shape denotes
RECURSIVE TableAt(_)
TableAt(path) ==
  IF path = <<>> THEN <<>>
  ELSE LET pre == TableAt(SubSeq(path, 1, Len(path) - 1))
           e == path[Len(path)]
       IN IF e.t = "i" THEN Append(pre, [k |-> e.k, a |-> e.a])
          ELSE IF e.t = "c" THEN [x \in 1..Len(pre) |-> IF pre[x].k = e.k THEN [k |-> e.k, a |-> e.a] ELSE pre[x]]
          ELSE pre

NoPr == 99
\* SharedShape::rollback_before: walk back to the insertion of k; remember the latest prototype
\* transition and, for every other shape on the way, the LAST property of its table (first seen wins).
RECURSIVE Rollback(_, _, _, _, _)
Rollback(path, j, k, pr, acc) ==
  LET e == path[j]
  IN IF e.t = "p" THEN Rollback(path, j - 1, k, IF pr = NoPr THEN e.p ELSE pr, acc)
     ELSE LET tab == TableAt(SubSeq(path, 1, j))
              last == tab[Len(tab)]
          IN IF e.t = "i" /\ last.k = k THEN [base |-> SubSeq(path, 1, j - 1), pr |-> pr, acc |-> acc]
             ELSE IF last.k # k /\ ~(\E x \in 1..Len(acc) : acc[x].k = last.k)
                    THEN Rollback(path, j - 1, k, pr, Append(acc, last))
                    ELSE Rollback(path, j - 1, k, pr, acc)

Reverse(s) == [i \in 1..Len(s) |-> s[Len(s) + 1 - i]]

Rebuild(path, k, first) ==   \* first = <<>> for delete, <<Ins(k, a)>> for a width-changing reconfiguration
  LET rb == Rollback(path, Len(path), k, NoPr, <<>>)
      cur == TableAt(path)
      CurAtt(key) == cur[CHOOSE x \in 1..Len(cur) : cur[x].k = key].a
      bt == TableAt(rb.base)
      \* repair 3: attribute changes of earlier properties that happened after the insertion of k
      stale == SelectSeq(bt, LAMBDA e : e.a # CurAtt(e.k))
      fixed == IF FixRollback THEN rb.base \o [i \in 1..Len(stale) |-> Cfg(stale[i].k, CurAtt(stale[i].k))]
               ELSE rb.base
      withProto == IF rb.pr = NoPr THEN fixed ELSE Append(fixed, Pro(rb.pr))
      rest == Reverse(rb.acc)
  IN withProto \o first
       \o [i \in 1..Len(rest) |-> Ins(rest[i].k, IF FixRollback THEN CurAtt(rest[i].k) ELSE rest[i].a)]

\* The layout changes between two versions of one object, in the order the code performs them.
\* Every operation of the model changes the prototype, or the number of properties by one, or attributes.
ChangesOf(old, new) ==
  IF new.proto # old.proto THEN <<[t |-> "p", k |-> "", a |-> NoAtt, p |-> new.proto]>>
  ELSE IF Len(new.props) = Len(old.props) + 1 THEN
         LET q == new.props[Len(new.props)] IN <<[t |-> "i", k |-> q.k, a |-> Att(q), p |-> 0]>>
  ELSE IF Len(new.props) + 1 = Len(old.props) THEN
         LET gone == CHOOSE i \in 1..Len(old.props) : IdxOf(new.props, old.props[i].k) = 0
         IN <<[t |-> "d", k |-> old.props[gone].k, a |-> NoAtt, p |-> 0]>>
  ELSE LET ch == {i \in 1..Len(old.props) : Att(old.props[i]) # Att(new.props[i])}
           seq == SelectSeq([i \in 1..Len(old.props) |-> i], LAMBDA i : i \in ch)
       IN [x \in 1..Len(seq) |->
             [t |-> IF old.props[seq[x]].acc = new.props[seq[x]].acc THEN "c" ELSE "w",
              k |-> new.props[seq[x]].k, a |-> Att(new.props[seq[x]]), p |-> 0]]

SharedStep(path, ch) ==
  CASE ch.t = "p" -> Append(path, Pro(ch.p))
    [] ch.t = "i" -> Append(path, Ins(ch.k, ch.a))
    [] ch.t = "c" -> Append(path, Cfg(ch.k, ch.a))
    [] ch.t = "d" -> Rebuild(path, ch.k, <<>>)
    [] ch.t = "w" -> Rebuild(path, ch.k, <<Ins(ch.k, ch.a)>>)

RECURSIVE SharedSteps(_, _)
SharedSteps(path, chs) == IF chs = <<>> THEN path ELSE SharedSteps(SharedStep(path, Head(chs)), Tail(chs))

UniqueRenews(chs) ==
  \E i \in 1..Len(chs) : chs[i].t \in {"p", "d", "w"} \/ (FixUnique /\ chs[i].t \in {"i", "c"})

\* new shape token of object o and new counter after objs changes to O2
ShapeAfter(o, O2) ==
  LET chs == ChangesOf(objs[o], O2[o])
  IN IF uq[o] THEN (IF UniqueRenews(chs) THEN UniqueShape(nextU) ELSE shp[o])
     ELSE SharedShape(SharedSteps(shp[o].path, chs))

Renewed(o, O2) == uq[o] /\ UniqueRenews(ChangesOf(objs[o], O2[o]))

\* an operation changes at most one object's layout (the receiver of a set, the target of a mutation)
UpdateShapes(O2) ==
  /\ shp' = [o \in Objs |-> IF O2[o] = objs[o] THEN shp[o] ELSE ShapeAfter(o, O2)]
  /\ nextU' = nextU + Cardinality({o \in Objs : O2[o] # objs[o] /\ Renewed(o, O2)})

-----------------------------------------------------------------------------
(* storage layout *)

RECURSIVE Flat(_)
Flat(props) ==
  IF props = <<>> THEN <<>>
  ELSE LET p == Head(props)
       IN (IF p.acc THEN <<[t |-> "g", x |-> p.g, i |-> p.k], [t |-> "s", x |-> p.s, i |-> p.k]>>
           ELSE <<[t |-> "v", x |-> p.v, i |-> p.k]>>) \o Flat(Tail(props))

SlotOf(props, i) == Len(Flat(SubSeq(props, 1, i - 1)))      \* 0-based storage index of property i

-----------------------------------------------------------------------------
(* access sites *)

Entry(sh, idx, pr, acc, psh) == [sh |-> sh, idx |-> idx, pr |-> pr, acc |-> acc, psh |-> psh]
EmptySite == [ent |-> <<>>, mega |-> FALSE]

ProtoShape(o) == IF objs[o].proto = 0 THEN NoShape ELSE shp[objs[o].proto]

\* InlineCache::get : first entry whose shape is the receiver's (and, with repair 2, whose recorded
\* prototype shape is still the prototype's shape)
Matches(e, o) == e.sh = shp[o] /\ (FixProto /\ e.pr => e.psh = ProtoShape(o))
MatchIdx(s, o) ==
  IF sites[s].mega THEN 0
  ELSE LET M == {i \in 1..Len(sites[s].ent) : Matches(sites[s].ent[i], o)}
       IN IF M = {} THEN 0 ELSE CHOOSE i \in M : \A j \in M : i <= j

\* InlineCache::set
Push(site, e) ==
  IF site.mega THEN site
  ELSE LET kept == IF FixProto THEN SelectSeq(site.ent, LAMBDA x : x.sh # e.sh) ELSE site.ent
       IN IF Len(kept) < PicCapacity THEN [site EXCEPT !.ent = Append(kept, e)]
          ELSE [ent |-> <<>>, mega |-> TRUE]

\* what ordinary_get leaves in the slot: cacheable iff found on the receiver or on its direct prototype
GetSlot(O, S, o, k) ==
  LET d == FoundDepth(O, o, k)
  IN IF d = 0 THEN <<Entry(S[o], SlotOf(O[o].props, IdxOf(O[o].props, k)), FALSE, Own(O, o, k).acc, NoShape)>>
     ELSE IF d = 1 THEN
            LET h == O[o].proto
            IN <<Entry(S[o], SlotOf(O[h].props, IdxOf(O[h].props, k)), TRUE, Own(O, h, k).acc, S[h])>>
     ELSE <<>>

\* what a successful ordinary_set leaves in the slot (O, S = graph and shapes BEFORE the store except
\* that the entry is filed under the receiver's shape after it, which is the same in the cacheable cases)
SetSlot(O, S, o, k) ==
  LET d == FoundDepth(O, o, k)
  IN IF d = 0 THEN <<Entry(S[o], SlotOf(O[o].props, IdxOf(O[o].props, k)), FALSE, Own(O, o, k).acc, NoShape)>>
     ELSE IF d = 1 /\ Own(O, O[o].proto, k).acc THEN
            LET h == O[o].proto
            IN <<Entry(S[o], SlotOf(O[h].props, IdxOf(O[h].props, k)), TRUE, TRUE, S[h])>>
     ELSE <<>>

-----------------------------------------------------------------------------
(* hit paths: what the code does with a cached slot in the current state *)

Val(x) == [r |-> "val", x |-> x]
Panic == [r |-> "panic", x |-> 0]
FnObj == [r |-> "function-object", x |-> 0]
Wrong == [r |-> "wrong-callee", x |-> 0]

HitGet(O, o, e, recv) ==
  LET tgt == IF e.pr THEN O[o].proto ELSE o
  IN IF tgt = 0 THEN Panic
     ELSE LET st == Flat(O[tgt].props)
          IN IF e.idx + 1 > Len(st) THEN Panic
             ELSE LET cell == st[e.idx + 1]
                  IN IF cell.t = "v" THEN Val(cell.x)
                     ELSE IF cell.x = 0 THEN Val(Undef)
                     ELSE IF ~e.acc THEN FnObj
                     ELSE IF cell.t = "g" THEN Val(GetterResult(cell.x, recv)) ELSE Wrong

SetOut(r, O, calls) == [r |-> r, O |-> O, calls |-> calls]

HitSet(O, o, e, v, recv) ==
  LET tgt == IF e.pr THEN O[o].proto ELSE o
  IN IF tgt = 0 THEN SetOut("panic", O, <<>>)
     ELSE LET st == Flat(O[tgt].props)
              at == IF e.acc THEN e.idx + 2 ELSE e.idx + 1
          IN IF at > Len(st) THEN SetOut("panic", O, <<>>)
             ELSE LET cell == st[at]
                  IN IF e.acc THEN
                       IF cell.t = "v" \/ cell.x = 0
                         THEN SetOut(IF FixSetter THEN "TypeError" ELSE "ok", O, <<>>)   \* nothing is called
                       ELSE IF cell.t = "s" THEN SetOut("ok", O, <<[n |-> cell.x, r |-> recv, v |-> v]>>)
                       ELSE SetOut("wrong-callee", O, <<>>)
                     ELSE IF cell.t = "v" THEN
                            SetOut("ok", [O EXCEPT ![tgt].props[IdxOf(O[tgt].props, cell.i)].v = v], <<>>)
                          ELSE SetOut("clobbers-accessor", O, <<>>)

RefSetOut(O, o, k, v) ==
  LET r == RefSet(O, o, k, v, o) IN SetOut(IF r.ok THEN "ok" ELSE "TypeError", r.O, r.calls)

\* THE PROPERTY on the mechanism: in every reachable state, for every site and receiver, if the cache
\* would hit then the hit path yields what the uncached reference operation yields.
TransparentAt(s, o) ==
  LET i == MatchIdx(s, o)
  IN i # 0 =>
       LET e == sites[s].ent[i]
       IN IF s[1] = "G" THEN HitGet(objs, o, e, o) = Val(RefGet(objs, o, s[2], o))
          ELSE HitSet(objs, o, e, 7, o) = RefSetOut(objs, o, s[2], 7)

Transparent == \A s \in SiteIds : \A o \in Objs : TransparentAt(s, o)

-----------------------------------------------------------------------------
(* actions: one per code path *)

Obs(r, ok, calls) == [r |-> r, ok |-> ok, calls |-> calls]
Rec(op, o, k, d, p, v, e, hit) == [op |-> op, o |-> o, k |-> k, d |-> d, p |-> p, v |-> v, e |-> e, hit |-> hit]

\* get_by_name, cache hit: no state change
GetHit(k, o) ==
  /\ MatchIdx(<<"G", k>>, o) # 0
  /\ log' = Append(log, Rec("G", o, k, "-", 0, 0, Obs(RefGet(objs, o, k, o), TRUE, <<>>), TRUE))
  /\ UNCHANGED <<objs, uq, shp, nextU, sites>>

\* get_by_name, miss: __get__ then cache the slot if cacheable
GetMiss(k, o) ==
  /\ MatchIdx(<<"G", k>>, o) = 0
  /\ LET sl == GetSlot(objs, shp, o, k)
     IN sites' = IF sl = <<>> THEN sites ELSE [sites EXCEPT ![<<"G", k>>] = Push(@, sl[1])]
  /\ log' = Append(log, Rec("G", o, k, "-", 0, 0, Obs(RefGet(objs, o, k, o), TRUE, <<>>), FALSE))
  /\ UNCHANGED <<objs, uq, shp, nextU>>

\* set_by_name, cache hit: the store happens (by the reference semantics), the cache is not touched
SetHit(k, o, v) ==
  /\ MatchIdx(<<"S", k>>, o) # 0
  /\ LET r == RefSet(objs, o, k, v, o)
     IN /\ objs' = r.O
        /\ UpdateShapes(r.O)
        /\ log' = Append(log, Rec("S", o, k, "-", 0, v, Obs(0, r.ok, r.calls), TRUE))
  /\ UNCHANGED <<uq, sites>>

\* set_by_name, miss: __set__, then cache if it succeeded and the slot is cacheable
SetMiss(k, o, v) ==
  /\ MatchIdx(<<"S", k>>, o) = 0
  /\ LET r == RefSet(objs, o, k, v, o)
         sl == IF r.ok THEN SetSlot(objs, shp, o, k) ELSE <<>>
     IN /\ objs' = r.O
        /\ UpdateShapes(r.O)
        /\ sites' = IF sl = <<>> THEN sites ELSE [sites EXCEPT ![<<"S", k>>] = Push(@, sl[1])]
        /\ log' = Append(log, Rec("S", o, k, "-", 0, v, Obs(0, r.ok, r.calls), FALSE))
  /\ UNCHANGED uq

Mutate(op, o, k, d, p, r) ==
  /\ objs' = r.O
  /\ UpdateShapes(r.O)
  /\ log' = Append(log, Rec(op, o, k, d, p, 0, Obs(0, r.ok, <<>>), FALSE))
  /\ UNCHANGED <<uq, sites>>

Define(o, dk, D) == Mutate("D", o, D.k, dk, 0, RefDefine(objs, o, D))
Delete(o, k) == Mutate("X", o, k, "-", 0, RefDelete(objs, o, k))
SetProto(o, p) == Mutate("P", o, "-", "-", p, RefSetProto(objs, o, p))
PreventExt(o) == Mutate("E", o, "-", "-", 0, DefResult(TRUE, RefPreventExt(objs, o)))
Freeze(o) == Mutate("F", o, "-", "-", 0, DefResult(TRUE, RefFreeze(objs, o)))

InitWith(U) ==
  /\ objs = [o \in Objs |-> EmptyObj]
  /\ uq = U
  /\ shp = [o \in Objs |-> IF U[o] THEN UniqueShape(o) ELSE SharedShape(<<Pro(0)>>)]
  /\ nextU = N + 1
  /\ sites = [s \in SiteIds |-> EmptySite]
  /\ log = <<>>

-----------------------------------------------------------------------------
(* invariants of the mechanism model and of the reference state *)

TypeOK ==
  /\ WellFormed(objs)
  /\ \A s \in SiteIds : Len(sites[s].ent) <= PicCapacity /\ (sites[s].mega => sites[s].ent = <<>>)
  /\ \A o \in Objs : uq[o] = (shp[o].u # 0)

\* a shared shape denotes exactly the keys, order, attributes and prototype of the object that has it
\* (the attributes of a property live in the shape, not in the object).  Refuted on the pinned design
\* (FixRollback = FALSE): rollback_before forgets attribute changes of properties other than the last.
LastProto(path) ==
  LET P == {i \in 1..Len(path) : path[i].t = "p"}
  IN IF P = {} THEN 0 ELSE path[CHOOSE i \in P : \A j \in P : j <= i].p
ShapeDenotes ==
  \A o \in Objs :
    ~uq[o] =>
       /\ LastProto(shp[o].path) = objs[o].proto
       /\ TableAt(shp[o].path) = [i \in 1..Len(objs[o].props) |-> [k |-> objs[o].props[i].k, a |-> Att(objs[o].props[i])]]

\* 6.1.7.3 along every step
EsInvariants == [][EsStep(objs, objs')]_vars
=============================================================================
