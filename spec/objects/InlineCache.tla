----------------------------- MODULE InlineCache -----------------------------
(***************************************************************************)
(* Implementation-shaped model of boa's objects, shapes and inline caches, *)
(* next to the reference semantics of Shapes.tla.                          *)
(*                                                                         *)
(* Three object graphs evolve side by side under the same operations:      *)
(*   objs    the REFERENCE graph (ECMA-262 ordinary object semantics);     *)
(*   ust.O   what boa holds when every access takes the uncached path;     *)
(*   cst.O   what boa holds with inline caches on.                         *)
(* The property C06 is: the three observable traces are equal.             *)
(*                                                                         *)
(* Reproduced from /repo/core/engine/src:                                  *)
(*  - shape identity (object/shape/): a shared shape is identified by its  *)
(*    transition path from the root (forward transitions are memoised per  *)
(*    (key, attributes) / prototype, so equal paths are the same shape);   *)
(*    delete and width-changing reconfiguration roll back to the shape     *)
(*    before the key's insertion and re-insert the later keys              *)
(*    (shared_shape/mod.rs rollback_before - including that a configure    *)
(*    shape reports the LAST property of its table, not the configured     *)
(*    one); the attributes of a property live in the shape; a unique shape *)
(*    (builtins such as Math, the global object) is mutated in place on    *)
(*    insert and on same-width attribute change and replaced on delete,    *)
(*    width change and prototype change (unique_shape.rs);                 *)
(*  - storage layout (property_map.rs): cells in property order, an        *)
(*    accessor occupies two cells (get, set);                              *)
(*  - an access site (vm/inline_cache/mod.rs): up to 4 entries             *)
(*    shape -> slot(index, PROTOTYPE flag, accessor flag), megamorphic     *)
(*    after the fifth distinct shape;                                      *)
(*  - what the miss paths cache (internal_methods/mod.rs ordinary_get /    *)
(*    ordinary_set slot bookkeeping: FOUND, PROTOTYPE, NOT_CACHEABLE) and  *)
(*    what the hit paths do (vm/opcode/get/property.rs, set/property.rs,   *)
(*    get/name.rs).                                                        *)
(*                                                                         *)
(* Design flaws of the pinned tree, each with a switch that models its     *)
(* repair (all FALSE = the pinned tree, all TRUE = repaired design):       *)
(*  F1 FixProto     a PROTOTYPE entry is validated by the receiver's shape *)
(*                  only; any layout change of the prototype makes it      *)
(*                  stale (wrong value, function object, out of bounds)    *)
(*  F2 FixUnique    a unique shape keeps its identity on insert and on     *)
(*                  same-width attribute change                            *)
(*  F3 FixSetter    a cached store through an accessor whose setter is     *)
(*                  undefined succeeds silently                            *)
(*  F4 FixRollback  rollback_before forgets attribute changes of           *)
(*                  properties other than the last (not a cache flaw:      *)
(*                  cached and uncached agree, both differ from ECMA-262)  *)
(* TLC refutes Transparent / ShapeDenotes with the switches off and        *)
(* verifies them (and Refines) with the switches on.                       *)
(***************************************************************************)
EXTENDS Shapes, TLC

CONSTANTS N,          \* objects 1..N
          Keys,       \* property keys
          FixUnique, FixProto, FixSetter, FixRollback

VARIABLES objs,   \* reference object graph
          uq,     \* uq[o]: object o has a unique shape (constant during a behaviour)
          glob,   \* object id played by the global object (0 = none); constant during a behaviour
          cst,    \* boa with caches:    [O, shp, nextU, sites, dead]
          ust,    \* boa without caches: [O, shp, nextU, sites (unused), dead (unused)]
          log     \* history: operation, reference observation e, predicted observations ce / ue, hit, flaw tag

vars == <<objs, uq, glob, cst, ust, log>>

Objs == 1..N
SiteIds == {"G", "S", "N"} \X Keys     \* per key: property get site, property set site, global-name get site
PicCapacity == 4
FnMark == 9999                         \* a function object read as a value

-----------------------------------------------------------------------------
(* shape identity *)

Att(p) == [acc |-> p.acc, w |-> p.w, c |-> p.c]
NoAtt == [acc |-> FALSE, w |-> FALSE, c |-> FALSE]
Ins(k, a) == [t |-> "i", k |-> k, a |-> a, p |-> 0]
Cfg(k, a) == [t |-> "c", k |-> k, a |-> a, p |-> 0]
Pro(p)    == [t |-> "p", k |-> "", a |-> NoAtt, p |-> p]

SharedShape(path) == [u |-> 0, path |-> path]
UniqueShape(n)    == [u |-> n, path |-> <<>>]
NoShape           == [u |-> 0, path |-> <<[t |-> "none", k |-> "", a |-> NoAtt, p |-> 0]>>]

\* Tables(path)[j] = the property table (key, attributes) denoted by the shape reached after j transitions
RECURSIVE TablesFrom(_, _, _)
TablesFrom(path, j, acc) ==
  IF j > Len(path) THEN acc
  ELSE LET pre == IF j = 1 THEN <<>> ELSE acc[j - 1]
           e == path[j]
           tab == IF e.t = "i" THEN Append(pre, [k |-> e.k, a |-> e.a])
                  ELSE IF e.t = "c" THEN [x \in 1..Len(pre) |-> IF pre[x].k = e.k THEN [k |-> e.k, a |-> e.a] ELSE pre[x]]
                  ELSE pre
       IN TablesFrom(path, j + 1, Append(acc, tab))
Tables(path) == TablesFrom(path, 1, <<>>)
TableAt(path) == IF path = <<>> THEN <<>> ELSE Tables(path)[Len(path)]

NoPr == 99
\* SharedShape::rollback_before: walk back to the insertion of k; remember the latest prototype
\* transition and, for every other shape on the way, the LAST property of its table (first seen wins).
RECURSIVE Rollback(_, _, _, _, _, _)
Rollback(path, tabs, j, k, pr, acc) ==
  LET e == path[j]
  IN IF e.t = "p" THEN Rollback(path, tabs, j - 1, k, IF pr = NoPr THEN e.p ELSE pr, acc)
     ELSE LET tab == tabs[j]
              last == tab[Len(tab)]
          IN IF e.t = "i" /\ last.k = k THEN [base |-> SubSeq(path, 1, j - 1), pr |-> pr, acc |-> acc]
             ELSE IF last.k # k /\ ~(\E x \in 1..Len(acc) : acc[x].k = last.k)
                    THEN Rollback(path, tabs, j - 1, k, pr, Append(acc, last))
                    ELSE Rollback(path, tabs, j - 1, k, pr, acc)

Reverse(s) == [i \in 1..Len(s) |-> s[Len(s) + 1 - i]]

Rebuild(path, k, first) ==   \* first = <<>> for delete, <<Ins(k, a)>> for a width-changing reconfiguration
  LET tabs == Tables(path)
      rb == Rollback(path, tabs, Len(path), k, NoPr, <<>>)
      cur == tabs[Len(path)]
      CurAtt(key) == cur[CHOOSE x \in 1..Len(cur) : cur[x].k = key].a
      bt == IF rb.base = <<>> THEN <<>> ELSE tabs[Len(rb.base)]
      \* repair F4: attribute changes of earlier properties that happened after the insertion of k
      stale == SelectSeq(bt, LAMBDA e : e.a # CurAtt(e.k))
      fixed == IF FixRollback THEN rb.base \o [i \in 1..Len(stale) |-> Cfg(stale[i].k, CurAtt(stale[i].k))]
               ELSE rb.base
      withProto == IF rb.pr = NoPr THEN fixed ELSE Append(fixed, Pro(rb.pr))
      rest == Reverse(rb.acc)
  IN withProto \o first
       \o [i \in 1..Len(rest) |-> Ins(rest[i].k, IF FixRollback THEN CurAtt(rest[i].k) ELSE rest[i].a)]

\* The layout changes between two versions of one object, in the order the code performs them.
\* Every operation of the model changes the prototype, or the number of properties by one, or attributes.
ChangesOf(old, new) ==
  IF new.proto # old.proto THEN <<[t |-> "p", k |-> "", a |-> NoAtt, p |-> new.proto]>>
  ELSE IF Len(new.props) = Len(old.props) + 1 THEN
         LET q == new.props[Len(new.props)] IN <<[t |-> "i", k |-> q.k, a |-> Att(q), p |-> 0]>>
  ELSE IF Len(new.props) + 1 = Len(old.props) THEN
         LET gone == CHOOSE i \in 1..Len(old.props) : IdxOf(new.props, old.props[i].k) = 0
         IN <<[t |-> "d", k |-> old.props[gone].k, a |-> NoAtt, p |-> 0]>>
  ELSE LET ch == {i \in 1..Len(old.props) : Att(old.props[i]) # Att(new.props[i])}
           seq == SelectSeq([i \in 1..Len(old.props) |-> i], LAMBDA i : i \in ch)
       IN [x \in 1..Len(seq) |->
             [t |-> IF old.props[seq[x]].acc = new.props[seq[x]].acc THEN "c" ELSE "w",
              k |-> new.props[seq[x]].k, a |-> Att(new.props[seq[x]]), p |-> 0]]

SharedStep(path, ch) ==
  CASE ch.t = "p" -> Append(path, Pro(ch.p))
    [] ch.t = "i" -> Append(path, Ins(ch.k, ch.a))
    [] ch.t = "c" -> Append(path, Cfg(ch.k, ch.a))
    [] ch.t = "d" -> Rebuild(path, ch.k, <<>>)
    [] ch.t = "w" -> Rebuild(path, ch.k, <<Ins(ch.k, ch.a)>>)

RECURSIVE SharedSteps(_, _)
SharedSteps(path, chs) == IF chs = <<>> THEN path ELSE SharedSteps(SharedStep(path, Head(chs)), Tail(chs))

UniqueRenews(chs) ==
  \E i \in 1..Len(chs) : chs[i].t \in {"p", "d", "w"} \/ (FixUnique /\ chs[i].t \in {"i", "c"})

\* the attributes of the properties of a shared-shape object are those of its shape's table
Retab(obj, tab) ==
  [obj EXCEPT !.props = [i \in 1..Len(obj.props) |->
      LET a == tab[CHOOSE x \in 1..Len(tab) : tab[x].k = obj.props[i].k].a
      IN [obj.props[i] EXCEPT !.w = a.w, !.c = a.c]]]

\* boa's state after an ordinary (uncached) operation turned the graph st.O into O2: new shape identities,
\* and for shared shapes the attributes the new shape denotes (equal to O2's unless flaw F4 strikes)
Reshape(st, O2) ==
  LET changed == {o \in Objs : O2[o] # st.O[o]}
      chs(o) == ChangesOf(st.O[o], O2[o])
      renew == {o \in changed : uq[o] /\ UniqueRenews(chs(o))}
      newShp == [o \in Objs |->
                   IF o \notin changed THEN st.shp[o]
                   ELSE IF uq[o] THEN (IF o \in renew THEN UniqueShape(st.nextU) ELSE st.shp[o])
                   ELSE SharedShape(SharedSteps(st.shp[o].path, chs(o)))]
      O3 == [o \in Objs |-> IF o \in changed /\ ~uq[o] THEN Retab(O2[o], TableAt(newShp[o].path)) ELSE O2[o]]
  IN [st EXCEPT !.O = O3, !.shp = newShp, !.nextU = @ + Cardinality(renew)]

-----------------------------------------------------------------------------
(* storage layout *)

RECURSIVE Flat(_)
Flat(props) ==
  IF props = <<>> THEN <<>>
  ELSE LET p == Head(props)
       IN (IF p.acc THEN <<[t |-> "g", x |-> p.g, i |-> p.k], [t |-> "s", x |-> p.s, i |-> p.k]>>
           ELSE <<[t |-> "v", x |-> p.v, i |-> p.k]>>) \o Flat(Tail(props))

SlotOf(props, i) == Len(Flat(SubSeq(props, 1, i - 1)))      \* 0-based storage index of property i

-----------------------------------------------------------------------------
(* access sites *)

Entry(sh, idx, pr, acc, psh) == [sh |-> sh, idx |-> idx, pr |-> pr, acc |-> acc, psh |-> psh]
EmptySite == [ent |-> <<>>, mega |-> FALSE]

ProtoShape(st, o) == IF st.O[o].proto = 0 THEN NoShape ELSE st.shp[st.O[o].proto]

\* InlineCache::get : first entry whose shape is the receiver's (and, with repair F1, whose recorded
\* prototype shape is still the prototype's shape)
Matches(st, e, o) == e.sh = st.shp[o] /\ (FixProto /\ e.pr => e.psh = ProtoShape(st, o))
MatchIdx(st, s, o) ==
  IF st.dead \/ st.sites[s].mega THEN 0
  ELSE LET M == {i \in 1..Len(st.sites[s].ent) : Matches(st, st.sites[s].ent[i], o)}
       IN IF M = {} THEN 0 ELSE CHOOSE i \in M : \A j \in M : i <= j

\* InlineCache::set
Push(site, e) ==
  IF site.mega THEN site
  ELSE LET kept == IF FixProto THEN SelectSeq(site.ent, LAMBDA x : x.sh # e.sh) ELSE site.ent
       IN IF Len(kept) < PicCapacity THEN [site EXCEPT !.ent = Append(kept, e)]
          ELSE [ent |-> <<>>, mega |-> TRUE]

PushAt(st, s, sl) == IF sl = <<>> THEN st ELSE [st EXCEPT !.sites[s] = Push(@, sl[1])]

\* what ordinary_get / ordinary_try_get leave in the slot: cacheable iff found on the receiver or on its
\* direct prototype
GetSlot(O, S, o, k) ==
  LET d == FoundDepth(O, o, k)
  IN IF d = 0 THEN <<Entry(S[o], SlotOf(O[o].props, IdxOf(O[o].props, k)), FALSE, Own(O, o, k).acc, NoShape)>>
     ELSE IF d = 1 THEN
            LET h == O[o].proto
            IN <<Entry(S[o], SlotOf(O[h].props, IdxOf(O[h].props, k)), TRUE, Own(O, h, k).acc, S[h])>>
     ELSE <<>>

\* what a successful ordinary_set leaves in the slot (O, S = graph and shapes before the store; the entry is
\* filed under the receiver's shape after it, which is the same shape in the cacheable cases)
SetSlot(O, S, o, k) ==
  LET d == FoundDepth(O, o, k)
  IN IF d = 0 THEN <<Entry(S[o], SlotOf(O[o].props, IdxOf(O[o].props, k)), FALSE, Own(O, o, k).acc, NoShape)>>
     ELSE IF d = 1 /\ Own(O, O[o].proto, k).acc THEN
            LET h == O[o].proto
            IN <<Entry(S[o], SlotOf(O[h].props, IdxOf(O[h].props, k)), TRUE, TRUE, S[h])>>
     ELSE <<>>

-----------------------------------------------------------------------------
(* observations *)

Obs(r, ok, calls, pan) == [r |-> r, ok |-> ok, calls |-> calls, pan |-> pan]
DeadObs == Obs(0, TRUE, <<>>, TRUE)
Call(n, recv, v) == [n |-> n, r |-> recv, v |-> v]

\* ordinary (uncached) outcomes on a graph O
OrdGet(O, o, k) == Obs(RefGet(O, o, k, o), TRUE, <<>>, FALSE)
\* global name lookup: ReferenceError (ok = FALSE) when no binding exists
OrdName(O, o, k) == IF RefHas(O, o, k) THEN OrdGet(O, o, k) ELSE Obs(0, FALSE, <<>>, FALSE)
OrdSet(O, o, k, v) == LET r == RefSet(O, o, k, v, o) IN [obs |-> Obs(0, r.ok, r.calls, FALSE), O |-> r.O]

\* hit paths: what the code does with a cached slot on graph O
HitGet(O, o, e, recv) ==
  LET tgt == IF e.pr THEN O[o].proto ELSE o
  IN IF tgt = 0 THEN DeadObs
     ELSE LET st == Flat(O[tgt].props)
          IN IF e.idx + 1 > Len(st) THEN DeadObs                       \* index out of bounds: panic
             ELSE LET cell == st[e.idx + 1]
                  IN IF cell.t = "v" THEN Obs(cell.x, TRUE, <<>>, FALSE)
                     ELSE IF cell.x = 0 THEN Obs(Undef, TRUE, <<>>, FALSE)
                     ELSE IF ~e.acc THEN Obs(FnMark, TRUE, <<>>, FALSE)      \* the function itself is the value
                     ELSE IF cell.t = "g" THEN Obs(GetterResult(cell.x, recv), TRUE, <<>>, FALSE)
                     ELSE Obs(Undef, TRUE, <<Call(cell.x, recv, Undef)>>, FALSE)   \* a setter called as getter

HitSet(O, o, e, v, recv) ==
  LET tgt == IF e.pr THEN O[o].proto ELSE o
      dead == [obs |-> DeadObs, O |-> O, corrupt |-> FALSE]
  IN IF tgt = 0 THEN dead
     ELSE LET st == Flat(O[tgt].props)
              at == IF e.acc THEN e.idx + 2 ELSE e.idx + 1
          IN IF at > Len(st) THEN dead
             ELSE LET cell == st[at]
                  IN IF e.acc THEN
                       IF cell.t = "v" \/ cell.x = 0                    \* nothing callable in the cell
                         THEN [obs |-> Obs(0, ~FixSetter, <<>>, FALSE), O |-> O, corrupt |-> FALSE]
                       ELSE IF cell.t = "s" THEN [obs |-> Obs(0, TRUE, <<Call(cell.x, recv, v)>>, FALSE), O |-> O, corrupt |-> FALSE]
                       ELSE [obs |-> Obs(0, TRUE, <<>>, FALSE), O |-> O, corrupt |-> FALSE]   \* a getter called as setter
                     ELSE IF cell.t = "v" THEN
                            [obs |-> Obs(0, TRUE, <<>>, FALSE),
                             O |-> [O EXCEPT ![tgt].props[IdxOf(O[tgt].props, cell.i)].v = v], corrupt |-> FALSE]
                          ELSE [obs |-> Obs(0, TRUE, <<>>, FALSE), O |-> O, corrupt |-> TRUE]   \* would clobber an accessor cell

\* Which flaw explains a hit whose outcome differs from the ordinary outcome in the same state
HitFlaw(st, o, e, k, fresh) ==
  IF fresh # <<>> /\ fresh[1].idx = e.idx /\ fresh[1].pr = e.pr /\ fresh[1].acc = e.acc
    THEN (IF e.acc THEN "F3" ELSE "F2")        \* the entry still describes the layout: attribute-level staleness
  ELSE IF e.pr /\ ~Has(st.O, o, k) THEN "F1"   \* the prototype's layout changed under the entry
  ELSE "F2"                                    \* the receiver's unique shape changed in place

\* THE PROPERTY on the mechanism: in every reachable state, for every site and receiver, if the cache would
\* hit, the hit path does what the uncached operation would do in the same state.
TransparentAt(s, o) ==
  LET i == MatchIdx(cst, s, o)
  IN i # 0 =>
       LET e == cst.sites[s].ent[i]
       IN CASE s[1] = "G" -> HitGet(cst.O, o, e, o) = OrdGet(cst.O, o, s[2])
            [] s[1] = "N" -> HitGet(cst.O, o, e, o) = OrdName(cst.O, o, s[2])
            [] s[1] = "S" -> LET h == HitSet(cst.O, o, e, 7, o)
                                 r == OrdSet(cst.O, o, s[2], 7)
                             IN ~h.corrupt /\ h.obs = r.obs /\ h.O = r.O

Transparent == \A s \in SiteIds : \A o \in Objs : TransparentAt(s, o)

-----------------------------------------------------------------------------
(* actions: one per code path of the cached engine; objs and ust follow along *)

Rec(op, o, k, d, p, v, e, ce, ue, hit, tag) ==
  [op |-> op, o |-> o, k |-> k, d |-> d, p |-> p, v |-> v, e |-> e, ce |-> ce, ue |-> ue, hit |-> hit, tag |-> tag]

Kill(st, obs) == IF obs.pan THEN [st EXCEPT !.dead = TRUE] ELSE st

\* get_by_name / GetNameGlobal, cache hit
ReadHit(kind, k, o) ==
  LET s == <<kind, k>>
      i == MatchIdx(cst, s, o)
      Ord(O) == IF kind = "N" THEN OrdName(O, o, k) ELSE OrdGet(O, o, k)
  IN /\ i # 0
     /\ LET e == cst.sites[s].ent[i]
            h == HitGet(cst.O, o, e, o)
            tag == IF h = Ord(cst.O) THEN "" ELSE HitFlaw(cst, o, e, k, GetSlot(cst.O, cst.shp, o, k))
        IN /\ cst' = Kill(cst, h)
           /\ log' = Append(log, Rec(kind, o, k, "-", 0, 0, Ord(objs), h, Ord(ust.O), TRUE, tag))
     /\ UNCHANGED <<objs, uq, glob, ust>>

\* get_by_name / GetNameGlobal, miss: __get__ / __try_get__, then cache the slot if cacheable
ReadMiss(kind, k, o) ==
  LET s == <<kind, k>>
      Ord(O) == IF kind = "N" THEN OrdName(O, o, k) ELSE OrdGet(O, o, k)
  IN /\ MatchIdx(cst, s, o) = 0
     /\ cst' = IF cst.dead THEN cst ELSE PushAt(cst, s, GetSlot(cst.O, cst.shp, o, k))
     /\ log' = Append(log, Rec(kind, o, k, "-", 0, 0, Ord(objs), IF cst.dead THEN DeadObs ELSE Ord(cst.O),
                               Ord(ust.O), FALSE, ""))
     /\ UNCHANGED <<objs, uq, glob, ust>>

GetHit(k, o) == ReadHit("G", k, o)
GetMiss(k, o) == ReadMiss("G", k, o)
NameHit(k, o) == ReadHit("N", k, o)
NameMiss(k, o) == ReadMiss("N", k, o)

\* set_by_name, cache hit: the cached engine stores through the slot; reference and uncached engine do [[Set]]
SetHit(k, o, v) ==
  LET s == <<"S", k>>
      i == MatchIdx(cst, s, o)
      r == OrdSet(objs, o, k, v)
      ru == OrdSet(ust.O, o, k, v)
  IN /\ i # 0
     /\ LET e == cst.sites[s].ent[i]
            h == HitSet(cst.O, o, e, v, o)
            rc == OrdSet(cst.O, o, k, v)
            tag == IF h.obs = rc.obs /\ h.O = rc.O THEN "" ELSE HitFlaw(cst, o, e, k, SetSlot(cst.O, cst.shp, o, k))
            nu == Reshape(ust, ru.O)
        IN /\ cst' = Kill([cst EXCEPT !.O = h.O], h.obs)
           /\ log' = Append(log, Rec("S", o, k, "-", 0, v, r.obs, h.obs, ru.obs, TRUE,
                                     IF tag # "" THEN tag ELSE IF nu.O # ru.O THEN "F4" ELSE ""))
           /\ ust' = nu
     /\ objs' = r.O
     /\ UNCHANGED <<uq, glob>>

\* cached and uncached engine hold the same graph with the same shapes (true until a flaw strikes); then an
\* ordinary operation has the same effect on both and is evaluated once
SameEngineState == cst.O = ust.O /\ cst.shp = ust.shp /\ cst.nextU = ust.nextU

\* set_by_name, miss: __set__, then cache if it succeeded and the slot is cacheable
SetMiss(k, o, v) ==
  LET s == <<"S", k>>
      r == OrdSet(objs, o, k, v)
      ru == OrdSet(ust.O, o, k, v)
      rc == OrdSet(cst.O, o, k, v)
      nu == Reshape(ust, ru.O)
      nc == IF cst.dead THEN cst
            ELSE IF SameEngineState THEN [cst EXCEPT !.O = nu.O, !.shp = nu.shp, !.nextU = nu.nextU]   \* (shortcut)
            ELSE Reshape(cst, rc.O)
  IN /\ MatchIdx(cst, s, o) = 0
     /\ cst' = IF cst.dead THEN cst
               ELSE PushAt(nc, s, IF rc.obs.ok THEN SetSlot(cst.O, cst.shp, o, k) ELSE <<>>)
     /\ log' = Append(log, Rec("S", o, k, "-", 0, v, r.obs, IF cst.dead THEN DeadObs ELSE rc.obs, ru.obs, FALSE,
                               IF nu.O # ru.O \/ (~cst.dead /\ nc.O # rc.O) THEN "F4" ELSE ""))
     /\ objs' = r.O
     /\ ust' = nu
     /\ UNCHANGED <<uq, glob>>

\* mutations never touch the caches: the same ordinary operation on each graph
Mutate(op, o, k, d, p, Apply(_)) ==
  LET r == Apply(objs)
      ru == Apply(ust.O)
      rc == Apply(cst.O)
      nu == Reshape(ust, ru.O)
      nc == IF cst.dead THEN cst
            ELSE IF SameEngineState THEN [cst EXCEPT !.O = nu.O, !.shp = nu.shp, !.nextU = nu.nextU]   \* (shortcut)
            ELSE Reshape(cst, rc.O)
  IN /\ objs' = r.O
     /\ ust' = nu
     /\ cst' = nc
     /\ log' = Append(log, Rec(op, o, k, d, p, 0, Obs(0, r.ok, <<>>, FALSE),
                               IF cst.dead THEN DeadObs ELSE Obs(0, rc.ok, <<>>, FALSE), Obs(0, ru.ok, <<>>, FALSE), FALSE,
                               IF nu.O # ru.O \/ (~cst.dead /\ nc.O # rc.O) THEN "F4" ELSE ""))
     /\ UNCHANGED <<uq, glob>>

Define(o, dk, D) == Mutate("D", o, D.k, dk, 0, LAMBDA O : RefDefine(O, o, D))
Delete(o, k) == Mutate("X", o, k, "-", 0, LAMBDA O : RefDelete(O, o, k))
SetProto(o, p) == Mutate("P", o, "-", "-", p, LAMBDA O : RefSetProto(O, o, p))
PreventExt(o) == Mutate("E", o, "-", "-", 0, LAMBDA O : DefResult(TRUE, RefPreventExt(O, o)))
Freeze(o) == Mutate("F", o, "-", "-", 0, LAMBDA O : DefResult(TRUE, RefFreeze(O, o)))

\* the site is warmed with n receivers of n unrelated shapes (objects outside the model)
Foreign(i) == [u |-> 0, path |-> <<[t |-> "foreign", k |-> "", a |-> NoAtt, p |-> i]>>]
RECURSIVE PushForeign(_, _, _)
PushForeign(site, n, acc) == IF n = 0 THEN site ELSE PushForeign(Push(site, Entry(Foreign(n), 0, FALSE, acc, NoShape)), n - 1, acc)
Warm(kind, k, n) ==
  /\ cst' = IF cst.dead THEN cst ELSE [cst EXCEPT !.sites[<<kind, k>>] = PushForeign(@, n, FALSE)]
  /\ log' = Append(log, Rec("W", n, k, kind, 0, 0, Obs(0, TRUE, <<>>, FALSE),
                            IF cst.dead THEN DeadObs ELSE Obs(0, TRUE, <<>>, FALSE), Obs(0, TRUE, <<>>, FALSE), FALSE, ""))
  /\ UNCHANGED <<objs, uq, glob, ust>>

InitWith(U, g) ==
  LET O0 == [o \in Objs |-> EmptyObj]
      S0 == [o \in Objs |-> IF U[o] THEN UniqueShape(o) ELSE SharedShape(<<Pro(0)>>)]
      st0 == [O |-> O0, shp |-> S0, nextU |-> N + 1, sites |-> [s \in SiteIds |-> EmptySite], dead |-> FALSE]
  IN /\ objs = O0
     /\ uq = U
     /\ glob = g
     /\ cst = st0
     /\ ust = st0
     /\ log = <<>>

-----------------------------------------------------------------------------
(* invariants *)

TypeOK ==
  /\ WellFormed(objs) /\ WellFormed(cst.O) /\ WellFormed(ust.O)
  /\ \A s \in SiteIds : Len(cst.sites[s].ent) <= PicCapacity /\ (cst.sites[s].mega => cst.sites[s].ent = <<>>)
  /\ \A o \in Objs : uq[o] = (cst.shp[o].u # 0)
  /\ glob # 0 => uq[glob]

\* a cached store never lands in a cell that does not hold a data value
NoClobber ==
  \A k \in Keys : \A o \in Objs :
    LET i == MatchIdx(cst, <<"S", k>>, o)
    IN i # 0 => ~HitSet(cst.O, o, cst.sites[<<"S", k>>].ent[i], 7, o).corrupt

\* a shared shape denotes exactly the keys, order, attributes and prototype of the object that has it.
\* Stated against the REFERENCE graph: refuted on the pinned design (flaw F4).
LastProto(path) ==
  LET P == {i \in 1..Len(path) : path[i].t = "p"}
  IN IF P = {} THEN 0 ELSE path[CHOOSE i \in P : \A j \in P : j <= i].p
ShapeDenotes ==
  \A o \in Objs :
    ~uq[o] =>
       /\ LastProto(ust.shp[o].path) = objs[o].proto
       /\ TableAt(ust.shp[o].path) = [i \in 1..Len(objs[o].props) |-> [k |-> objs[o].props[i].k, a |-> Att(objs[o].props[i])]]

\* the engine's graphs are the reference graph (holds for the repaired design only)
Refines == (~cst.dead => cst.O = objs) /\ ust.O = objs

\* trace-level statement of C06 on the model: every logged step has equal observations
TraceEqual == \A i \in 1..Len(log) : log[i].ce = log[i].e /\ log[i].ue = log[i].e

\* 6.1.7.3 along every step of the reference graph
EsInvariants == [][EsStep(objs, objs')]_vars
=============================================================================
