---------------------------- MODULE MCInlineCache ----------------------------
(***************************************************************************)
(* Bounded scenarios over InlineCache.tla for check C06.                   *)
(*                                                                         *)
(* A behaviour = one catalogue entry (which objects have unique shapes,    *)
(* a scripted set-up prefix that builds the object graph and warms the     *)
(* access sites, and the alphabet of the free suffix) followed by a free   *)
(* suffix of H operations.  At the end the behaviour is emitted as one     *)
(* REPLAY line: every operation with the REFERENCE observation (e), the    *)
(* observations the implementation-shaped model predicts for boa with      *)
(* caches (ce) and without (ue), the predicted hit/miss, the flaw that     *)
(* fires (tag), and the three final object graphs.                         *)
(*                                                                         *)
(* Canonical form (cuts duplicates, not behaviours of interest):           *)
(*  - a free mutation is generated only if it changes the object graph;    *)
(*  - the last free operation is an access through a site (all shorter     *)
(*    histories are prefixes of emitted ones);                             *)
(*  - two adjacent free mutations of different objects, neither of them a  *)
(*    prototype change, appear in increasing object order (they commute    *)
(*    in the reference and in the mechanism).                              *)
(***************************************************************************)
EXTENDS InlineCache, Json

CONSTANTS H,        \* length of the free suffix
          CatSel,   \* set of catalogue entry numbers to run
          WideCats  \* catalogue entries that use the thorough alphabets

VARIABLES cat, pc, nfree,
          prev     \* the reference graph before the last step (history variable for EsInv)

Wide == cat \in WideCats

mcvars == <<objs, uq, glob, cst, ust, log, cat, pc, nfree, prev>>

-----------------------------------------------------------------------------
(* operation records *)
Op(op, o, k, d, p) == [op |-> op, o |-> o, k |-> k, d |-> d, p |-> p]
G(o, k) == Op("G", o, k, "-", 0)
S(o, k) == Op("S", o, k, "-", 0)
D(o, k, d) == Op("D", o, k, d, 0)
X(o, k) == Op("X", o, k, "-", 0)
P(o, p) == Op("P", o, "-", "-", p)
F(o) == Op("F", o, "-", "-", 0)
E(o) == Op("E", o, "-", "-", 0)
NG(o, k) == Op("N", o, k, "-", 0)            \* global name lookup (o must be the object played by the global object)
W(kind, k, n) == Op("W", n, k, kind, 0)      \* warm site <<kind, k>> with n foreign shapes

\* descriptor kinds; t = position of the operation in the history (makes values and functions fresh)
DescOf(d, k, t) ==
  CASE d = "dw" -> DataProp(k, TRUE, TRUE, 20 + t)     \* writable, configurable
    [] d = "dr" -> DataProp(k, FALSE, TRUE, 20 + t)    \* read-only, configurable
    [] d = "dn" -> DataProp(k, FALSE, FALSE, 20 + t)   \* read-only, non-configurable
    [] d = "dW" -> DataProp(k, TRUE, FALSE, 20 + t)    \* writable, non-configurable
    [] d = "as" -> AccProp(k, TRUE, t, t)              \* getter and setter
    [] d = "ag" -> AccProp(k, TRUE, t, 0)              \* getter only
    [] d = "ao" -> AccProp(k, TRUE, 0, t)              \* setter only
    [] d = "an" -> AccProp(k, FALSE, t, t)             \* getter and setter, non-configurable

DescKinds == {"dw", "dr", "dn", "dW", "as", "ag", "ao", "an"}

-----------------------------------------------------------------------------
(* the catalogue *)
FFF == <<FALSE, FALSE, FALSE>>
TFF == <<TRUE, FALSE, FALSE>>
FTF == <<FALSE, TRUE, FALSE>>
TTF == <<TRUE, TRUE, FALSE>>

Defs(o, k, ds) == {D(o, k, d) : d \in ds}
Core == {"dw", "dr", "as", "ag"}
Rich == IF Wide THEN {"dw", "dr", "dn", "as", "ag", "ao", "an"} ELSE Core

\* alphabets
ProtoFocus ==     \* receiver 1, prototype 2 (3 = spare prototype): the prototype is mutated under a warm site
  {G(1, "a"), S(1, "a")} \cup Defs(2, "a", Rich) \cup Defs(2, "b", {"ag"} \cup (IF Wide THEN {"dr"} ELSE {}))
    \cup {X(2, "a"), X(2, "b"), F(2), P(1, 3), P(1, 2), D(1, "a", "dw"), X(1, "a")}
    \cup (IF Wide THEN {P(2, 3), E(1), D(3, "a", "dw"), D(3, "a", "as")} ELSE {})
OwnFocus ==       \* receiver 1 alone, its own layout is mutated
  {G(1, "a"), S(1, "a")} \cup Defs(1, "a", Rich) \cup Defs(1, "b", {"ag", "dr"})
    \cup {X(1, "a"), X(1, "b"), F(1), E(1), P(1, 2), D(2, "a", "dw")}
    \cup (IF Wide THEN {D(2, "a", "as"), X(2, "a"), P(1, 0)} ELSE {})
ChainFocus ==     \* 1 -> 2 -> 3, property on the grand-prototype
  {G(1, "a"), S(1, "a"), G(2, "a"), S(2, "a")} \cup Defs(3, "a", {"dw", "as"}) \cup Defs(2, "a", {"dw", "as", "dr"})
    \cup {X(2, "a"), X(3, "a"), P(2, 0), P(2, 3), P(1, 3), X(1, "a")}
    \cup (IF Wide THEN {F(2), D(1, "a", "dw"), D(3, "a", "dr")} ELSE {})
SiblingFocus ==   \* 1 and 3 share a shape and the prototype 2
  {G(1, "a"), G(3, "a"), S(1, "a"), S(3, "a")} \cup Defs(1, "a", {"dw", "dr", "as"}) \cup Defs(3, "a", {"dw", "as"})
    \cup {X(1, "a"), X(3, "a"), F(1), D(2, "a", "as"), X(2, "a"), P(3, 0)}
    \cup (IF Wide THEN {D(1, "b", "dw"), D(3, "b", "dw"), X(1, "b"), D(2, "a", "dw"), E(3)} ELSE {})

GlobalFocus ==    \* object 1 is the global object: name lookups through a GetNameGlobal site, prototype 2
  {NG(1, "a"), G(1, "a"), S(1, "a")} \cup Defs(1, "a", {"dw", "dr", "as"}) \cup Defs(2, "a", {"dw", "as", "ag"})
    \cup {X(1, "a"), X(2, "a"), X(1, "b"), D(2, "b", "ag"), X(2, "b"), P(1, 0), P(1, 2)}
    \cup (IF Wide THEN {F(1), F(2), D(1, "b", "ag"), D(2, "a", "dr"), P(1, 3), D(3, "a", "dw")} ELSE {})

CatEntry(u, pre, alpha) == [uq |-> u, glob |-> 0, pre |-> pre, alpha |-> alpha]
GlobEntry(u, g, pre, alpha) == [uq |-> u, glob |-> g, pre |-> pre, alpha |-> alpha]

\* catalogue entry c (a CASE so that only the selected entry is evaluated)
CatAt(c) ==
  CASE c = 1 -> CatEntry(FFF, <<P(1, 2), D(2, "b", "dw"), D(2, "a", "dw"), G(1, "a"), G(1, "a")>>, ProtoFocus)   \* 1: data property on the prototype, behind another property, get and set sites warm
    [] c = 2 -> CatEntry(FFF, <<P(1, 2), D(2, "b", "dw"), D(2, "a", "as"), G(1, "a"), S(1, "a"), G(1, "a")>>, ProtoFocus)   \* 2: accessor on the prototype, getter and setter cached through the prototype
    [] c = 3 -> CatEntry(FFF, <<D(1, "b", "dw"), D(1, "a", "dw"), G(1, "a"), S(1, "a"), S(1, "a")>>, OwnFocus)   \* 3: own data property behind another property
    [] c = 4 -> CatEntry(FFF, <<D(1, "b", "dw"), D(1, "a", "as"), G(1, "a"), S(1, "a"), S(1, "a")>>, OwnFocus)   \* 4: own accessor
    [] c = 5 -> CatEntry(TFF, <<D(1, "b", "dw"), D(1, "a", "dw"), G(1, "a"), S(1, "a"), S(1, "a")>>, OwnFocus)   \* 5: unique-shape receiver, own data property
    [] c = 6 -> CatEntry(TFF, <<P(1, 2), D(2, "b", "dw"), D(2, "a", "dw"), G(1, "a"), G(1, "a")>>, ProtoFocus)   \* 6: unique-shape receiver, property on the (shared-shape) prototype
    [] c = 7 -> CatEntry(FTF, <<P(1, 2), D(2, "b", "dw"), D(2, "a", "dw"), G(1, "a"), G(1, "a")>>, ProtoFocus)   \* 7: shared-shape receiver, unique-shape prototype
    [] c = 8 -> CatEntry(FFF, <<P(1, 2), P(2, 3), D(3, "a", "dw"), G(1, "a"), G(2, "a"), S(2, "a")>>, ChainFocus)   \* 8: chain of three, property on the grand-prototype
    [] c = 9 -> CatEntry(FFF, <<P(1, 2), P(3, 2), D(1, "a", "dw"), D(3, "a", "dw"), G(1, "a"), S(1, "a"), G(3, "a")>>, SiblingFocus)   \* 9: two receivers with one shape
    [] c = 10 -> CatEntry(TTF, <<P(1, 2), D(2, "a", "as"), G(1, "a"), S(1, "a"), G(1, "a")>>, ProtoFocus)   \* 10: unique receiver and unique prototype, accessor on the prototype
    [] c = 11 -> CatEntry(FFF, <<P(1, 2)>>, ProtoFocus \cup {D(1, "b", "dw")})   \* 11: nothing set up: the sites start cold
    [] c = 12 -> CatEntry(FFF, <<P(1, 2), D(2, "b", "dw"), D(2, "a", "dw"), W("G", "a", 3), G(1, "a"), G(1, "a")>>, ProtoFocus)   \* 12: get site with three foreign entries: the next new shape makes it megamorphic
    [] c = 13 -> CatEntry(FFF, <<D(1, "b", "dw"), D(1, "a", "dw"), W("S", "a", 3), S(1, "a"), S(1, "a"), G(1, "a")>>, OwnFocus)   \* 13: set site with three foreign entries
    [] c = 14 -> GlobEntry(TFF, 1, <<P(1, 2), D(2, "b", "dw"), D(2, "a", "dw"), NG(1, "a"), NG(1, "a")>>, GlobalFocus)   \* 14: the global object, binding found on its prototype
    [] c = 15 -> GlobEntry(TFF, 1, <<D(1, "b", "dw"), D(1, "a", "dw"), NG(1, "a"), NG(1, "a"), S(1, "a")>>, GlobalFocus)   \* 15: the global object, own binding
NCat == 15

-----------------------------------------------------------------------------
IsAccess(op) == op.op \in {"G", "S", "N"}

Do(op) ==
  LET t == Len(log) + 1
  IN \/ op.op = "G" /\ (GetHit(op.k, op.o) \/ GetMiss(op.k, op.o))
     \/ op.op = "N" /\ (NameHit(op.k, op.o) \/ NameMiss(op.k, op.o))
     \/ op.op = "W" /\ Warm(op.d, op.k, op.o)
     \/ op.op = "S" /\ (SetHit(op.k, op.o, 10 + t) \/ SetMiss(op.k, op.o, 10 + t))
     \/ op.op = "D" /\ Define(op.o, op.d, DescOf(op.d, op.k, t))
     \/ op.op = "X" /\ Delete(op.o, op.k)
     \/ op.op = "P" /\ SetProto(op.o, op.p)
     \/ op.op = "E" /\ PreventExt(op.o)
     \/ op.op = "F" /\ Freeze(op.o)

\* does the mutation change the reference graph?  (cheap test made before the expensive step)
Changes(op, t) ==
  CASE op.op = "D" -> RefDefine(objs, op.o, DescOf(op.d, op.k, t)).O # objs
    [] op.op = "X" -> RefDelete(objs, op.o, op.k).O # objs
    [] op.op = "P" -> RefSetProto(objs, op.o, op.p).O # objs
    [] op.op = "E" -> objs[op.o].ext
    [] op.op = "F" -> RefFreeze(objs, op.o) # objs
    [] OTHER -> TRUE

Commute(a, b) == ~IsAccess(a) /\ ~IsAccess(b) /\ a.op # "P" /\ b.op # "P" /\ a.o # b.o

Init ==
  /\ cat \in CatSel
  /\ pc = 1
  /\ nfree = 0
  /\ InitWith(CatAt(cat).uq, CatAt(cat).glob)
  /\ prev = [o \in Objs |-> EmptyObj]

Scripted ==
  /\ pc <= Len(CatAt(cat).pre)
  /\ Do(CatAt(cat).pre[pc])
  /\ pc' = pc + 1
  /\ prev' = objs
  /\ UNCHANGED <<cat, nfree>>

Free ==
  /\ pc > Len(CatAt(cat).pre)
  /\ nfree < H
  /\ \E op \in CatAt(cat).alpha :
       /\ nfree = H - 1 => IsAccess(op)
       /\ (nfree > 0 /\ Commute(log[Len(log)], op)) => log[Len(log)].o < op.o
       /\ IsAccess(op) \/ Changes(op, Len(log) + 1)
       /\ Do(op)
  /\ nfree' = nfree + 1
  /\ prev' = objs
  /\ UNCHANGED <<cat, pc>>

Next == Scripted \/ Free

Spec == Init /\ [][Next]_mcvars

Done == pc > Len(CatAt(cat).pre) /\ nfree = H

Emit ==
  Done => PrintT(<<"REPLAY", ToJson([cat |-> cat, uq |-> uq, glob |-> glob, npre |-> Len(CatAt(cat).pre), log |-> log,
                                     final |-> objs, cfinal |-> cst.O, ufinal |-> ust.O])>>)

\* the model gate of the check: the invariants of the essential internal methods (ECMA-262 6.1.7.3) hold
\* along every step of the reference graph (prev is the graph before the last step)
EsInv == EsStep(prev, objs)
=============================================================================
