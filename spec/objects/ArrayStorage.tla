----------------------------- MODULE ArrayStorage -----------------------------
(***************************************************************************)
(* Implementation-shaped model of boa's element storage for C14.           *)
(*                                                                         *)
(* core/engine/src/object/property_map.rs  enum IndexedProperties:         *)
(*   I32  DenseI32(ThinVec<i32>)       F64  DenseF64(ThinVec<f64>)         *)
(*   EL   DenseElement(ThinVec<JsValue>)                                   *)
(*   SE   SparseElement(FxHashMap<u32, JsValue>)      (values only)        *)
(*   SP   SparseProperty(FxHashMap<u32, PropertyDescriptor>)               *)
(* IPut / IDel / IHas / IGet mirror IndexedProperties::{insert, remove,    *)
(* contains_key, get}; the dense forms never come back once left.          *)
(* The Array.prototype algorithms are the SAME text as the reference       *)
(* (ArrayAlgo.tla) instantiated over this store - boa's builtins are       *)
(* written through get/set/delete_property_or_throw, which bottom out in   *)
(* these four functions - plus boa's shortcuts that bypass them:           *)
(*   vm/opcode/set/property.rs   SetPropertyByValue  -> set_dense_property *)
(*   vm/opcode/get/property.rs   get_by_value        -> get_dense_property *)
(*   vm/opcode/push/array.rs     PushValueToArray (push_dense),            *)
(*                               PushElisionToArray (transform_to_sparse)  *)
(*   builtins/array/mod.rs       Array::set_length (direct slot write),    *)
(*                               shift() on dense storage,                 *)
(*                               array_exotic_define_own_property shortcut *)
(* Refinement: Abs maps a storage state to the reference object (index ->  *)
(* descriptor); every step must commute with the reference step and give   *)
(* the same observation (variable refok / invariant Refines, and the TLA+  *)
(* refinement  Spec => Ref!Spec).                                          *)
(***************************************************************************)
EXTENDS Integers, Sequences, FiniteSets, TLC, Json

CONSTANTS Literals, ExploreOps, ProbeOps, Depth, GetterCap, Emit, ProtoIdx,
          SetLengthGuard   \* TRUE: Array::set_length takes its shortcut only when no element can lie at or above the
                           \* new length (proposal C14-1); FALSE: the pinned tree (shortcut whenever the shape allows)

VARIABLES io,      \* [arr, len, lenW, ext, sk, kind, dense, sp]
          hist,    \* steps so far: operation + reference observations (not part of the VIEW)
          refok    \* every step so far commuted with the reference

vars == <<io, hist, refok>>
View == <<io, refok>>

Dense == {"I32", "F64", "EL"}
IsI32(v) == v \in {"i0", "i1", "i2", "i10"}
IsNum(v) == IsI32(v) \/ v \in {"f1.5", "-0", "NaN"}
DefaultD(v) == [t |-> "d", v |-> v, w |-> TRUE, g |-> "", s |-> "", e |-> TRUE, c |-> TRUE]
Simple(d) == d.t = "d" /\ d.w /\ d.e /\ d.c            \* IndexedProperties::property_simple_value

MapPut(m, i, x) == [k \in (DOMAIN m) \cup {i} |-> IF k = i THEN x ELSE m[k]]
MapDel(m, i) == [k \in (DOMAIN m) \ {i} |-> m[k]]
DenseAsMap(o) == [i \in 0..(Len(o.dense) - 1) |-> o.dense[i + 1]]       \* convert_dense_to_sparse_values
AllAsDescs(o) ==                                                         \* convert_to_sparse_and_insert
  IF o.kind \in Dense THEN [i \in 0..(Len(o.dense) - 1) |-> DefaultD(o.dense[i + 1])]
  ELSE IF o.kind = "SE" THEN [i \in DOMAIN o.sp |-> DefaultD(o.sp[i])]
  ELSE o.sp
\* the dense form that can hold v next to what is already there (I32 -> F64 -> EL, never back)
KindFor(kind, v) == IF kind = "I32" THEN (IF IsI32(v) THEN "I32" ELSE IF IsNum(v) THEN "F64" ELSE "EL")
                    ELSE IF kind = "F64" THEN (IF IsNum(v) THEN "F64" ELSE "EL")
                    ELSE "EL"
SeqPut(s, i, x) == IF i = Len(s) THEN Append(s, x) ELSE [s EXCEPT ![i + 1] = x]

IHas(o, i) == IF o.kind \in Dense THEN i < Len(o.dense) ELSE i \in DOMAIN o.sp
IGet(o, i) == IF o.kind \in Dense THEN DefaultD(o.dense[i + 1])
              ELSE IF o.kind = "SE" THEN DefaultD(o.sp[i]) ELSE o.sp[i]
IIdx(o) == IF o.kind \in Dense THEN 0..(Len(o.dense) - 1) ELSE DOMAIN o.sp
\* IndexedProperties::insert
IPut(o, i, d) ==
  IF ~Simple(d) THEN [o EXCEPT !.kind = "SP", !.sp = MapPut(AllAsDescs(o), i, d), !.dense = <<>>]
  ELSE IF o.kind \in Dense THEN
       (IF i <= Len(o.dense)
        THEN [o EXCEPT !.kind = KindFor(o.kind, d.v), !.dense = SeqPut(o.dense, i, d.v)]
        ELSE [o EXCEPT !.kind = "SE", !.sp = MapPut(DenseAsMap(o), i, d.v), !.dense = <<>>])   \* creating a hole
  ELSE IF o.kind = "SE" THEN [o EXCEPT !.sp = MapPut(o.sp, i, d.v)]
  ELSE [o EXCEPT !.sp = MapPut(o.sp, i, d)]
\* IndexedProperties::remove
IDel(o, i) ==
  IF o.kind \in Dense THEN
       (IF i + 1 = Len(o.dense) THEN [o EXCEPT !.dense = SubSeq(o.dense, 1, Len(o.dense) - 1)]      \* pop
        ELSE IF i >= Len(o.dense) THEN o
        ELSE [o EXCEPT !.kind = "SE", !.sp = MapDel(DenseAsMap(o), i), !.dense = <<>>])
  ELSE [o EXCEPT !.sp = MapDel(o.sp, i)]
IEmpty(arr, len) == [arr |-> arr, len |-> len, lenW |-> TRUE, ext |-> TRUE, sk |-> <<>>,
                     kind |-> "I32", dense |-> <<>>, sp |-> <<>>, shp |-> <<>>]

\* the object still has the shape of the array template: only "length", writable (string keys change the shape,
\* preventExtensions does not)
Template(o) == o.arr /\ o.lenW /\ o.sk = <<>>
IFastLen(o, n) == Template(o) /\ (SetLengthGuard => (o.kind \in Dense /\ Len(o.dense) <= n))   \* Array::set_length
IFastDefine(o) == Template(o)                                \* array_exotic_define_own_property
IFastShift(o) == o.kind \in Dense /\ o.len <= Len(o.dense)   \* Array.prototype.shift
IShiftDense(o) == [o |-> [o EXCEPT !.dense = Tail(o.dense)], v |-> Head(o.dense)]

I == INSTANCE ArrayAlgo WITH ElHas <- IHas, ElGet <- IGet, ElPut <- IPut, ElDel <- IDel, ElIdx <- IIdx,
                             EmptyObj <- IEmpty, FastLen <- IFastLen, FastDefine <- IFastDefine,
                             FastShift <- IFastShift, ShiftDense <- IShiftDense

----------------------------------------------------------------------------
(* boa's paths for the operations of the alphabet *)
ImplApply0(o, op) ==
  IF op.k = "store" /\ o.arr /\ o.ext /\ o.kind \in Dense /\ op.i < Len(o.dense)
  THEN [o |-> [o EXCEPT !.kind = KindFor(o.kind, op.v), !.dense[op.i + 1] = op.v], ret |-> <<"ok">>]   \* set_dense_property
  ELSE IF op.k = "read" /\ o.arr /\ o.kind \in Dense /\ op.i < Len(o.dense)
  THEN [o |-> o, ret |-> <<"v", o.dense[op.i + 1]>>]                                                    \* get_dense_property
  ELSE I!Apply(o, op)

\* The named properties live in a shared shape whose identity is its transition path (see InlineCache.tla, C06):
\* the order of key insertions and attribute changes is hidden state that later deletions depend on
\* (remove_property_transition replays the path).  shp records that order, so that histories which reach the
\* same abstract array through a different order are different states of the enumeration.
ShapeTrace(o, o2, op) ==
  IF op.k = "stores" /\ Len(o2.sk) > Len(o.sk) THEN Append(o.shp, <<"ins", op.key>>)
  ELSE IF op.k = "deletes" /\ Len(o2.sk) < Len(o.sk) THEN SelectSeq(o.shp, LAMBDA e : e[2] # op.key)
  ELSE IF o2.lenW # o.lenW THEN Append(o.shp, <<"cfg", "length">>)
  ELSE IF op.k \in {"freeze", "seal"} /\ o2.sk # o.sk THEN Append(o.shp, <<"cfg", "keys">>)
  ELSE o.shp
ImplApply(o, op) == LET r == ImplApply0(o, op) IN [r EXCEPT !.o.shp = ShapeTrace(o, r.o, op)]

\* array literal: StoreNewArray, then PushValueToArray / PushElisionToArray per element
RECURSIVE ILit(_, _)
ILit(o, els) ==
  IF els = <<>> THEN o
  ELSE LET e == Head(els) IN
       IF e = "hole" THEN
            LET o1 == [o EXCEPT !.len = o.len + 1] IN                                        \* o.set("length", len + 1)
            ILit(IF o1.kind \in Dense THEN [o1 EXCEPT !.kind = "SE", !.sp = DenseAsMap(o1), !.dense = <<>>] ELSE o1,
                 Tail(els))                                                                   \* transform_to_sparse
       ELSE IF o.kind \in Dense THEN                                                          \* push_dense
            ILit([o EXCEPT !.kind = KindFor(o.kind, e), !.dense = Append(o.dense, e), !.len = o.len + 1], Tail(els))
       ELSE ILit(I!DefineIdx(o, o.len, I!PFull(e)).o, Tail(els))                              \* create_data_property_or_throw
ImplLiteral(els) == ILit(IEmpty(TRUE, 0), els)
\* new Array(e1, e2, ...): override_indexed_properties -> DenseElement whatever the values are;
\* new Array(n): array_create(0) and a plain length store
ImplCreate(l) == IF l.c = "lit" THEN ImplLiteral(l.els)
                 ELSE IF l.c = "new" THEN [IEmpty(TRUE, Len(l.els)) EXCEPT !.kind = "EL", !.dense = l.els]
                 ELSE IEmpty(TRUE, l.n)

----------------------------------------------------------------------------
(* Abstraction to the reference model *)
Abs(o) == [arr |-> o.arr, len |-> o.len, lenW |-> o.lenW, ext |-> o.ext, sk |-> o.sk,
           el |-> [i \in IIdx(o) |-> IGet(o, i)]]

Ref == INSTANCE ArraySpec WITH obj <- Abs(io), OpsSeq <- ExploreOps


\* Findings of the design-level comparison that are listed as known (see known_findings.d/C14.json): none masked here.
KnownDivergence(o, op) == FALSE

\* one step of the alphabet: reference observation (what the code must show) and commutation with the storage model
Step(op) ==
  LET a  == Abs(io)
      ir == ImplApply(io, op)
      sr == Ref!A!Apply(a, op)
      lr == IF Ref!A!IsMethod(op) THEN Ref!A!Apply(Ref!AsLike(a), op) ELSE [o |-> a, ret |-> <<"none">>]
  IN [op |-> op, ret |-> sr.ret, d |-> Ref!A!Dump(sr.o), kind |-> ir.o.kind,
      lret |-> lr.ret, ld |-> Ref!A!Dump(lr.o),
      commutes |-> (Abs(ir.o) = sr.o /\ ir.ret = sr.ret) \/ KnownDivergence(io, op),
      next |-> ir.o]

Record(s) == [op |-> s.op, ret |-> s.ret, d |-> s.d, kind |-> s.kind, lret |-> s.lret, ld |-> s.ld]

InitRecord(l, kind) ==
  LET d == Ref!A!Dump(Ref!A!Create(l)) IN
  [op |-> [k |-> "lit", c |-> l.c, els |-> l.els, n |-> l.n], ret |-> <<"none">>, d |-> d, kind |-> kind,
   lret |-> <<"none">>, ld |-> d]
Init == \E n \in 1..Len(Literals) :
          /\ io = ImplCreate(Literals[n])
          /\ refok = (Abs(io) = Ref!A!Create(Literals[n]))
          /\ hist = <<InitRecord(Literals[n], io.kind)>>

AllOps == ExploreOps \o ProbeOps

Move(op) ==
  LET s == Step(op) IN
  /\ refok' = (refok /\ s.commutes)
  /\ io' = s.next
  /\ hist' = Append(hist, Record(s))

\* exhaustive mode: the state graph is grown with the Explore operations only (Depth of them after the literal) ...
Next == \E n \in 1..Len(ExploreOps) : Len(hist) <= Depth /\ Move(ExploreOps[n])

\* ... and in EVERY reachable state EVERY operation of the alphabet is applied once: this is the commutation check
\* of the refinement for that (state, operation) edge, and the emission of one conformance record per state
\* (NODE: the shortest history that reaches the state + the reference observation of every operation from it).
RECURSIVE StepsUpTo(_)
StepsUpTo(n) == IF n = 0 THEN <<>> ELSE Append(StepsUpTo(n - 1), Step(AllOps[n]))
EdgesCommute ==
  LET steps == StepsUpTo(Len(AllOps)) IN
  /\ Emit => PrintT(<<"NODE", ToJson([h |-> hist, steps |-> [n \in 1..Len(steps) |-> Record(steps[n])]])>>)
  /\ \A n \in 1..Len(steps) : steps[n].commutes \/ PrintT(<<"NOCOMMUTE", hist, AllOps[n]>>) = FALSE

\* free exploration for -simulate: every operation moves; one REPLAY per behaviour
SimNext == \E n \in 1..Len(AllOps) : Move(AllOps[n])
SimEmit == Len(hist) = Depth + 1 => PrintT(<<"REPLAY", ToJson(hist)>>)

\* oracle mode: replay given histories (IOEnv.HISTS = ndjson file, one {"lit": [...], "ops": [...]} per line)
Spec == Init /\ [][Next]_vars

----------------------------------------------------------------------------
(* Invariants of the storage forms *)
Refines == refok
FormsWellTyped ==
  /\ io.kind \in Dense \cup {"SE", "SP"}
  /\ io.kind = "I32" => \A k \in 1..Len(io.dense) : IsI32(io.dense[k])
  /\ io.kind = "F64" => \A k \in 1..Len(io.dense) : IsNum(io.dense[k])
  /\ io.kind \in Dense => io.sp = <<>>
  /\ io.kind \notin Dense => io.dense = <<>>
  /\ io.kind = "SP" => \A i \in DOMAIN io.sp : io.sp[i].t \in {"d", "a"}
\* a dense vector never extends beyond length; a dense array has no holes below the vector length, all defaults
DenseWithinLength == io.kind \in Dense => Len(io.dense) <= io.len
\* once a descriptor is not the default one the storage keeps full descriptors
NonDefaultNeedsSP == (\E i \in IIdx(io) : ~Simple(IGet(io, i))) => io.kind = "SP"
LengthAboveIndices == \A i \in IIdx(io) : i < io.len
=============================================================================
