CONSTANTS
  ProtoIdx = {0, 2}
  Literals <- LitQuick
  ExploreOps <- None
  ProbeOps <- None
  Depth = 0
  GetterCap = 4
  Emit = FALSE
  SetLengthGuard = TRUE
INIT OInit
NEXT ONext
INVARIANT OEmit
CHECK_DEADLOCK FALSE
