SPECIFICATION Spec
CONSTANTS
  N = 3
  Keys = {"a", "b"}
  FixUnique = TRUE
  FixProto = TRUE
  FixSetter = TRUE
  FixRollback = TRUE
  H = 3
  CatSel = {1, 2, 3, 4, 5, 6, 7, 8, 9, 10, 11, 12, 13, 14, 15}
  WideCats = {}
INVARIANT TypeOK
INVARIANT NoClobber
INVARIANT Transparent
INVARIANT ShapeDenotes
INVARIANT Refines
INVARIANT TraceEqual
CHECK_DEADLOCK FALSE
