SPECIFICATION Spec
CONSTANTS
  N = 3
  Keys = {"a", "b"}
  FixUnique = TRUE
  FixProto = TRUE
  FixRollback = TRUE
  FixSetter = TRUE
  H = 3
  CatSel = {1, 2, 3, 4, 5, 6, 7, 8, 9, 10, 11}
  Wide = FALSE
INVARIANT TypeOK
INVARIANT Transparent
INVARIANT ShapeDenotes
CHECK_DEADLOCK FALSE
