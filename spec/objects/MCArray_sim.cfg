CONSTANTS
  ProtoIdx = {}
  Literals <- LitFull
  ExploreOps <- ExploreAll
  ProbeOps <- ProbeCore
  Depth = 15
  GetterCap = 4
  Emit = FALSE
  SetLengthGuard = TRUE
INIT Init
NEXT SimNext
INVARIANT Refines
INVARIANT SimEmit
INVARIANT FormsWellTyped
INVARIANT DenseWithinLength
INVARIANT NonDefaultNeedsSP
INVARIANT LengthAboveIndices
CHECK_DEADLOCK FALSE
