---------------------------- MODULE MCArrayOracle ----------------------------
(* Oracle mode: TLC replays GIVEN histories (ndjson file named by the environment variable HISTS, one          *)
(* {"lit": [...], "ops": [...]} per line) through the same Step operator and prints the reference              *)
(* observations.  Used for --replay, for shrinking failures and for seeded histories generated outside TLC.    *)
EXTENDS MCArray, IOUtils
Hists == ndJsonDeserialize(IOEnv.HISTS)
VARIABLE hid
OInit == \E n \in 1..Len(Hists) :
           /\ hid = n
           /\ io = ImplLiteral(Hists[n].lit)
           /\ refok = TRUE
           /\ hist = <<[op |-> [k |-> "lit", els |-> Hists[n].lit], ret |-> <<"none">>,
                        d |-> Ref!A!Dump(Ref!A!Literal(Hists[n].lit)), kind |-> io.kind, lret |-> <<"none">>,
                        ld |-> Ref!A!Dump(Ref!A!Literal(Hists[n].lit))]>>
ONext == /\ Len(hist) <= Len(Hists[hid].ops)
         /\ Move(Hists[hid].ops[Len(hist)])
         /\ UNCHANGED hid
OEmit == Len(hist) = Len(Hists[hid].ops) + 1 => PrintT(<<"REPLAY", ToJson([id |-> hid, h |-> hist])>>)
=============================================================================
