---------------------------- MODULE MCArrayOracle ----------------------------
(* Oracle mode: TLC replays GIVEN histories (ndjson file named by the environment variable HISTS, one          *)
(* {"lit": [...], "ops": [...]} per line) through the same Step operator and prints the reference              *)
(* observations.  Used for --replay, for shrinking failures and for seeded histories generated outside TLC.    *)
EXTENDS MCArray, IOUtils
Hists == ndJsonDeserialize(IOEnv.HISTS)
VARIABLE hid
OInit == \E n \in 1..Len(Hists) :
           /\ hid = n
           /\ io = ImplCreate(Hists[n].lit)
           /\ refok = TRUE
           /\ hist = <<InitRecord(Hists[n].lit, io.kind)>>
ONext == /\ Len(hist) <= Len(Hists[hid].ops)
         /\ Move(Hists[hid].ops[Len(hist)])
         /\ UNCHANGED hid
OEmit == Len(hist) = Len(Hists[hid].ops) + 1 => PrintT(<<"REPLAY", ToJson([id |-> hid, h |-> hist])>>)
=============================================================================
