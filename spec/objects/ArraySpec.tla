------------------------------ MODULE ArraySpec ------------------------------
(***************************************************************************)
(* Reference model of C14: the Array exotic object of ECMA-262 10.4.2 and  *)
(* the generic Array.prototype algorithms (ArrayAlgo.tla) over the         *)
(* reference element store: a finite map  index -> property descriptor.    *)
(* The array is the state, every operation of the alphabet an action.      *)
(***************************************************************************)
EXTENDS Integers, Sequences, FiniteSets, TLC

CONSTANTS Literals,     \* sequence of initial arrays [c |-> "lit" | "new" | "len", els |-> <<token | "hole">>, n |-> length]
          OpsSeq,       \* sequence of operation records (the alphabet)
          GetterCap,
          ProtoIdx      \* indices with an inherited data property (see ArrayAlgo)

VARIABLE obj            \* [arr, len, lenW, ext, sk, el]

----------------------------------------------------------------------------
(* The reference element store *)
AHas(o, i) == i \in DOMAIN o.el
AGet(o, i) == o.el[i]
APut(o, i, d) == [o EXCEPT !.el = [k \in (DOMAIN o.el) \cup {i} |-> IF k = i THEN d ELSE o.el[k]]]
ADel(o, i) == [o EXCEPT !.el = [k \in (DOMAIN o.el) \ {i} |-> o.el[k]]]
AIdx(o) == DOMAIN o.el
AEmpty(arr, len) == [arr |-> arr, len |-> len, lenW |-> TRUE, ext |-> TRUE, sk |-> <<>>, el |-> <<>>]
No(o) == FALSE
No2(o, n) == FALSE
NoShift(o) == [o |-> o, v |-> "u"]

A == INSTANCE ArrayAlgo WITH ElHas <- AHas, ElGet <- AGet, ElPut <- APut, ElDel <- ADel, ElIdx <- AIdx,
                             EmptyObj <- AEmpty, FastLen <- No2, FastDefine <- No, FastShift <- No,
                             ShiftDense <- NoShift

\* the equivalent plain array-like: same index properties, same "length" attributes, ordinary [[DefineOwnProperty]]
AsLike(o) == [o EXCEPT !.arr = FALSE, !.sk = <<>>]

----------------------------------------------------------------------------
Init == \E n \in 1..Len(Literals) : obj = A!Create(Literals[n])
Next == \E n \in 1..Len(OpsSeq) : obj' = A!Apply(obj, OpsSeq[n]).o
Spec == Init /\ [][Next]_obj

----------------------------------------------------------------------------
(* Invariants of the Array exotic object *)
Dom == DOMAIN obj.el
\* every array index is below length (10.4.2: length is always numerically greater than every array index)
LengthAboveIndices == \A i \in Dom : i < obj.len
\* own keys: ascending indices, then strings in creation order (by construction of Dump; checked anyway)
KeysAscending == LET ix == A!Dump(obj).ix IN \A k \in 1..(Len(ix) - 1) : ix[k][1] < ix[k + 1][1]
ExtrasDistinct == \A p, q \in 1..Len(obj.sk) : p # q => obj.sk[p].k # obj.sk[q].k
WellFormed == /\ obj.arr
              /\ \A i \in Dom : obj.el[i].t \in {"d", "a"}

(* Action properties: what no operation may do (6.1.7.3 invariants of the essential internal methods) *)
\* a non-configurable element survives every operation - in particular ArraySetLength stops above it - and a
\* non-configurable non-writable data element never changes
NonConfigurableSurvives ==
  [][\A i \in Dom : ~obj.el[i].c =>
        /\ i \in DOMAIN obj'.el /\ ~obj'.el[i].c /\ obj'.el[i].e = obj.el[i].e /\ obj'.el[i].t = obj.el[i].t
        /\ (obj.el[i].t = "d" /\ ~obj.el[i].w => obj'.el[i] = obj.el[i])
        /\ (obj.el[i].t = "a" => obj'.el[i] = obj.el[i])]_obj
\* a non-writable length never changes; it can not become writable again
LengthLock == [][~obj.lenW => (obj'.len = obj.len /\ ~obj'.lenW)]_obj
\* a non-extensible array gains no keys and stays non-extensible
NoNewKeysWhenNonExtensible ==
  [][~obj.ext => (~obj'.ext /\ DOMAIN obj'.el \subseteq Dom /\ Len(obj'.sk) <= Len(obj.sk))]_obj
Frozen(o) == /\ ~o.ext /\ ~o.lenW
             /\ \A i \in DOMAIN o.el : ~o.el[i].c /\ (o.el[i].t = "d" => ~o.el[i].w)
             /\ \A k \in 1..Len(o.sk) : ~o.sk[k].d.c /\ ~o.sk[k].d.w
FrozenIsImmutable == [][Frozen(obj) => obj' = obj]_obj
=============================================================================
