CONSTANTS
  Literals <- LitQuick
  ExploreOps <- ExploreCore
  ProbeOps <- None
  Depth = 1
  GetterCap = 4
  Emit = FALSE
  SetLengthGuard = TRUE
INIT Init
NEXT Next
VIEW View
INVARIANT Refines
PROPERTY RefinesSpec
CHECK_DEADLOCK FALSE
