SPECIFICATION Spec
CONSTANTS
  N = 3
  Keys = {"a", "b"}
  FixUnique = FALSE
  FixProto = FALSE
  FixSetter = FALSE
  FixRollback = FALSE
  H = 4
  CatSel = {1, 2, 3, 4, 5, 6, 7, 8, 9, 10, 11, 12, 13, 14, 15}
  WideCats = {1, 5, 14}
INVARIANT TypeOK
INVARIANT NoClobber
INVARIANT EsInv
INVARIANT Emit
CHECK_DEADLOCK FALSE
