------------------------------- MODULE BigNat -------------------------------
(***************************************************************************)
(* Arbitrary-precision naturals for TLC (whose integers are 32-bit):       *)
(* little-endian sequences of base-10000 limbs, canonical (no leading zero *)
(* limb; <<>> is 0).  Every intermediate value stays below 2^31.           *)
(***************************************************************************)
EXTENDS Naturals, Integers, Sequences

B == 10000

RECURSIVE BnNorm(_)
BnNorm(a) == IF a # <<>> /\ a[Len(a)] = 0 THEN BnNorm(SubSeq(a, 1, Len(a) - 1)) ELSE a

BnOfSmall(n) == \* 0 <= n < 10^8
  BnNorm(<<n % B, n \div B>>)

BnZero == <<>>
BnIsZero(a) == a = <<>>

Limb(a, i) == IF i <= Len(a) THEN a[i] ELSE 0
Max2(x, y) == IF x >= y THEN x ELSE y

RECURSIVE BnAddFrom(_, _, _, _)
BnAddFrom(a, b, i, carry) ==
  IF i > Max2(Len(a), Len(b)) THEN (IF carry = 0 THEN <<>> ELSE <<carry>>)
  ELSE LET t == Limb(a, i) + Limb(b, i) + carry IN <<t % B>> \o BnAddFrom(a, b, i + 1, t \div B)
BnAdd(a, b) == BnAddFrom(a, b, 1, 0)

\* a - b, requires a >= b
RECURSIVE BnSubFrom(_, _, _, _)
BnSubFrom(a, b, i, borrow) ==
  IF i > Len(a) THEN <<>>
  ELSE LET t == Limb(a, i) - Limb(b, i) - borrow IN
       IF t < 0 THEN <<t + B>> \o BnSubFrom(a, b, i + 1, 1) ELSE <<t>> \o BnSubFrom(a, b, i + 1, 0)
BnSub(a, b) == BnNorm(BnSubFrom(a, b, 1, 0))

\* -1, 0, 1
RECURSIVE BnCmpFrom(_, _, _)
BnCmpFrom(a, b, i) ==
  IF i = 0 THEN 0
  ELSE IF a[i] < b[i] THEN -1 ELSE IF a[i] > b[i] THEN 1 ELSE BnCmpFrom(a, b, i - 1)
BnCmp(a, b) ==
  IF Len(a) < Len(b) THEN -1 ELSE IF Len(a) > Len(b) THEN 1 ELSE BnCmpFrom(a, b, Len(a))
BnLt(a, b) == BnCmp(a, b) = -1
BnLe(a, b) == BnCmp(a, b) # 1
BnEq(a, b) == a = b

\* a * m for 0 <= m <= 10000
RECURSIVE BnMulSmallFrom(_, _, _, _)
BnMulSmallFrom(a, m, i, carry) ==
  IF i > Len(a) THEN (IF carry = 0 THEN <<>> ELSE BnOfSmall(carry))
  ELSE LET t == a[i] * m + carry IN <<t % B>> \o BnMulSmallFrom(a, m, i + 1, t \div B)
BnMulSmall(a, m) == IF m = 0 \/ a = <<>> THEN <<>> ELSE BnMulSmallFrom(a, m, 1, 0)

\* (a div m, a mod m) for 1 <= m <= 10000
RECURSIVE BnDivSmallFrom(_, _, _, _)
BnDivSmallFrom(a, m, i, rem) ==   \* processes limbs from the most significant; returns <<quotient limbs (big-endian), remainder>>
  IF i = 0 THEN <<<<>>, rem>>
  ELSE LET t == rem * B + a[i]
           rest == BnDivSmallFrom(a, m, i - 1, t % m)
       IN <<<<t \div m>> \o rest[1], rest[2]>>
Reverse(s) == [i \in 1..Len(s) |-> s[Len(s) + 1 - i]]
BnDivSmall(a, m) == LET r == BnDivSmallFrom(a, m, Len(a), 0) IN BnNorm(Reverse(r[1]))
BnModSmall(a, m) == BnDivSmallFrom(a, m, Len(a), 0)[2]

\* a * 2^n, a div 2^n, a * 10^n
RECURSIVE BnShl(_, _)
BnShl(a, n) == IF n = 0 THEN a ELSE IF n >= 13 THEN BnShl(BnMulSmall(a, 8192), n - 13) ELSE BnShl(BnMulSmall(a, 2), n - 1)
RECURSIVE BnShr(_, _)
BnShr(a, n) == IF n = 0 THEN a ELSE IF n >= 13 THEN BnShr(BnDivSmall(a, 8192), n - 13) ELSE BnShr(BnDivSmall(a, 2), n - 1)
RECURSIVE BnMulPow10(_, _)
BnMulPow10(a, n) ==
  IF a = <<>> THEN <<>>
  ELSE IF n >= 4 THEN BnMulPow10(<<0>> \o a, n - 4)
  ELSE IF n = 0 THEN a ELSE BnMulPow10(BnMulSmall(a, 10), n - 1)
BnOne == <<1>>
BnPow2(n) == BnShl(BnOne, n)
BnPow10(n) == BnMulPow10(BnOne, n)

\* general product (schoolbook), used sparingly
RECURSIVE BnMulFrom(_, _, _)
BnMulFrom(a, b, i) ==
  IF i > Len(b) THEN <<>>
  ELSE BnAdd(BnMulSmall(a, b[i]), <<0>> \o BnMulFrom(a, b, i + 1))
BnMul(a, b) == IF a = <<>> \/ b = <<>> THEN <<>> ELSE BnNorm(BnMulFrom(a, b, 1))

\* floor(a / b) when the quotient is known to be < 10 (digit extraction): <<q, remainder>>
RECURSIVE BnDigitDiv(_, _, _)
BnDigitDiv(a, b, q) == IF BnLt(a, b) THEN <<q, a>> ELSE BnDigitDiv(BnSub(a, b), b, q + 1)

\* general floor division by repeated doubling (quotient < 2^bits): <<quotient, remainder>>
RECURSIVE BnDivBits(_, _, _)
BnDivBits(a, b, bits) ==
  IF bits = 0 THEN <<<<>>, a>>
  ELSE LET bs == BnShl(b, bits - 1) IN
       IF BnLe(bs, a)
       THEN LET r == BnDivBits(BnSub(a, bs), b, bits - 1) IN <<BnAdd(BnPow2(bits - 1), r[1]), r[2]>>
       ELSE BnDivBits(a, b, bits - 1)

BnIsEven(a) == a = <<>> \/ a[1] % 2 = 0

\* decimal digits (most significant first) of a
RECURSIVE Limb4(_, _)
Limb4(x, n) == IF n = 0 THEN <<>> ELSE Limb4(x \div 10, n - 1) \o <<x % 10>>
RECURSIVE StripZeros(_)
StripZeros(d) == IF d # <<>> /\ d[1] = 0 THEN StripZeros(Tail(d)) ELSE d
RECURSIVE BnDigitsFrom(_, _)
BnDigitsFrom(a, i) == IF i = 0 THEN <<>> ELSE Limb4(a[i], 4) \o BnDigitsFrom(a, i - 1)
BnDigits(a) == StripZeros(BnDigitsFrom(a, Len(a)))   \* <<>> for zero

\* from decimal digits (most significant first)
RECURSIVE BnFromDigitsAcc(_, _)
BnFromDigitsAcc(d, acc) == IF d = <<>> THEN acc ELSE BnFromDigitsAcc(Tail(d), BnAdd(BnMulSmall(acc, 10), BnOfSmall(d[1])))
BnFromDigits(d) == BnFromDigitsAcc(d, <<>>)
=============================================================================
