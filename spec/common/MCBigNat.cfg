INIT Init
NEXT Next
INVARIANT Inv
CHECK_DEADLOCK FALSE
