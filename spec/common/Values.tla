------------------------------- MODULE Values -------------------------------
(***************************************************************************)
(* The JavaScript value domain of the MiniJS reference semantics and the   *)
(* pure (heap-independent) abstract operations of ECMA-262 on it.          *)
(*                                                                         *)
(* Numbers: the modelled subset of IEEE doubles is                         *)
(*    integers n with |n| <= MaxInt = 2^30-1,  -0,  NaN,  +Infinity,       *)
(*    -Infinity.                                                           *)
(* Every arithmetic rule is guarded so that TLC's 32-bit integers never    *)
(* overflow; a result outside the subset is the pseudo value OOM, which    *)
(* makes the machine of JsCore.tla end the run in OutOfModel (the program  *)
(* is skipped by every check, never compared).                             *)
(*                                                                         *)
(* Strings are sequences of UTF-16 code units (naturals).  Records of      *)
(* different value types have different field names so that TLC's "="      *)
(* never compares fields of incomparable types.                            *)
(***************************************************************************)
EXTENDS Integers, Sequences, FiniteSets

MaxInt == 1073741823          \* 2^30 - 1
MaxStrLen == 64

Undef == [t |-> "undef"]
Null == [t |-> "null"]
Bool(b) == [t |-> "bool", b |-> b]
Num(n) == [t |-> "num", k |-> "int", n |-> n]
NaN == [t |-> "num", k |-> "nan", n |-> 0]
PInf == [t |-> "num", k |-> "pinf", n |-> 0]
NInf == [t |-> "num", k |-> "ninf", n |-> 0]
NegZero == [t |-> "num", k |-> "nz", n |-> 0]
Str(s) == [t |-> "str", s |-> s]
Obj(a) == [t |-> "obj", a |-> a]
Sym(i) == [t |-> "sym", id |-> i]
Empty == [t |-> "empty"]      \* the "empty" completion value
Hole == [t |-> "hole"]        \* an absent array element
OOM == [t |-> "oom"]          \* result left the modelled domain

IsUndef(v) == v.t = "undef"
IsNullish(v) == v.t \in {"undef", "null"}
IsObj(v) == v.t = "obj"
IsNum(v) == v.t = "num"
IsStr(v) == v.t = "str"
IsPrim(v) == v.t \in {"undef", "null", "bool", "num", "str", "sym"}

(* well-known symbols *)
SymIterator == Sym(1)
SymToPrimitive == Sym(2)
SymHasInstance == Sym(3)
NumWellKnownSyms == 3

(* string constants (code units) *)
S_length == <<108,101,110,103,116,104>>
S_prototype == <<112,114,111,116,111,116,121,112,101>>
S_constructor == <<99,111,110,115,116,114,117,99,116,111,114>>
S_valueOf == <<118,97,108,117,101,79,102>>
S_toString == <<116,111,83,116,114,105,110,103>>
S_next == <<110,101,120,116>>
S_done == <<100,111,110,101>>
S_value == <<118,97,108,117,101>>
S_return == <<114,101,116,117,114,110>>
S_throw == <<116,104,114,111,119>>
S_message == <<109,101,115,115,97,103,101>>
S_name == <<110,97,109,101>>
S_get == <<103,101,116>>
S_set == <<115,101,116>>
S_enumerable == <<101,110,117,109,101,114,97,98,108,101>>
S_configurable == <<99,111,110,102,105,103,117,114,97,98,108,101>>
S_writable == <<119,114,105,116,97,98,108,101>>
S_callee == <<99,97,108,108,101,101>>
S_undefined == <<117,110,100,101,102,105,110,101,100>>
S_object == <<111,98,106,101,99,116>>
S_boolean == <<98,111,111,108,101,97,110>>
S_number == <<110,117,109,98,101,114>>
S_string == <<115,116,114,105,110,103>>
S_symbol == <<115,121,109,98,111,108>>
S_function == <<102,117,110,99,116,105,111,110>>
S_NaN == <<78,97,78>>
S_Infinity == <<73,110,102,105,110,105,116,121>>
S_MinusInfinity == <<45,73,110,102,105,110,105,116,121>>
S_null == <<110,117,108,108>>
S_true == <<116,114,117,101>>
S_false == <<102,97,108,115,101>>
S_default == <<100,101,102,97,117,108,116>>
S_objObject == <<91,111,98,106,101,99,116,32,79,98,106,101,99,116,93>>
S_objArray == <<91,111,98,106,101,99,116,32,65,114,114,97,121,93>>
S_objFunction == <<91,111,98,106,101,99,116,32,70,117,110,99,116,105,111,110,93>>
S_objError == <<91,111,98,106,101,99,116,32,69,114,114,111,114,93>>
S_objArguments == <<91,111,98,106,101,99,116,32,65,114,103,117,109,101,110,116,115,93>>
S_SymbolIterator == <<83,121,109,98,111,108,46,105,116,101,114,97,116,111,114>>
S_SymbolToPrimitive == <<83,121,109,98,111,108,46,116,111,80,114,105,109,105,116,105,118,101>>
S_SymbolHasInstance == <<83,121,109,98,111,108,46,104,97,115,73,110,115,116,97,110,99,101>>
S_comma == <<44>>
S_arguments == <<97,114,103,117,109,101,110,116,115>>

-----------------------------------------------------------------------------
(* Numbers *)

InDomain(n) == n >= -MaxInt /\ n <= MaxInt
MkInt(n) == IF InDomain(n) THEN Num(n) ELSE OOM

IsIntV(v) == v.t = "num" /\ v.k = "int"
IsZeroV(v) == v.t = "num" /\ (v.k = "nz" \/ (v.k = "int" /\ v.n = 0))
IsInfV(v) == v.t = "num" /\ v.k \in {"pinf", "ninf"}
IsNaNV(v) == v.t = "num" /\ v.k = "nan"
\* sign of a number other than NaN: TRUE iff negative (incl. -0)
NegSign(v) == v.k = "nz" \/ v.k = "ninf" \/ (v.k = "int" /\ v.n < 0)
SignedZero(neg) == IF neg THEN NegZero ELSE Num(0)
SignedInf(neg) == IF neg THEN NInf ELSE PInf
Abs(n) == IF n < 0 THEN -n ELSE n
\* mathematical value of an int or -0
NumVal(v) == IF v.k = "int" THEN v.n ELSE 0

\* Number::unaryMinus
NumNeg(v) ==
  CASE v.k = "nan" -> NaN
    [] v.k = "pinf" -> NInf
    [] v.k = "ninf" -> PInf
    [] v.k = "nz" -> Num(0)
    [] OTHER -> IF v.n = 0 THEN NegZero ELSE Num(-v.n)

\* Number::add (6.1.6.1.7)
NumAdd(a, b) ==
  CASE a.k = "nan" \/ b.k = "nan" -> NaN
    [] IsInfV(a) /\ IsInfV(b) -> IF a.k = b.k THEN a ELSE NaN
    [] IsInfV(a) -> a
    [] IsInfV(b) -> b
    [] a.k = "nz" /\ b.k = "nz" -> NegZero
    [] OTHER -> MkInt(NumVal(a) + NumVal(b))      \* |a|,|b| < 2^30: no 32-bit overflow

\* Number::subtract: x - y = x + (-y)
NumSub(a, b) == NumAdd(a, NumNeg(b))

\* Number::multiply (6.1.6.1.4)
NumMul(a, b) ==
  CASE a.k = "nan" \/ b.k = "nan" -> NaN
    [] (IsInfV(a) /\ IsZeroV(b)) \/ (IsZeroV(a) /\ IsInfV(b)) -> NaN
    [] IsInfV(a) \/ IsInfV(b) -> SignedInf(NegSign(a) # NegSign(b))
    [] IsZeroV(a) \/ IsZeroV(b) -> SignedZero(NegSign(a) # NegSign(b))
    [] OTHER -> IF Abs(a.n) <= MaxInt \div Abs(b.n) THEN MkInt(a.n * b.n) ELSE OOM

\* Number::divide (6.1.6.1.5); a non-integral quotient leaves the modelled domain
NumDiv(a, b) ==
  CASE a.k = "nan" \/ b.k = "nan" -> NaN
    [] IsInfV(a) /\ IsInfV(b) -> NaN
    [] IsInfV(a) -> SignedInf(NegSign(a) # NegSign(b))
    [] IsInfV(b) -> SignedZero(NegSign(a) # NegSign(b))
    [] IsZeroV(b) -> IF IsZeroV(a) THEN NaN ELSE SignedInf(NegSign(a) # NegSign(b))
    [] IsZeroV(a) -> SignedZero(NegSign(a) # NegSign(b))
    [] OTHER -> IF Abs(a.n) % Abs(b.n) = 0
                THEN Num((IF NegSign(a) # NegSign(b) THEN -1 ELSE 1) * (Abs(a.n) \div Abs(b.n)))
                ELSE OOM

\* Number::remainder (6.1.6.1.6): sign of the dividend
NumRem(a, b) ==
  CASE a.k = "nan" \/ b.k = "nan" -> NaN
    [] IsInfV(a) -> NaN
    [] IsInfV(b) -> a
    [] IsZeroV(b) -> NaN
    [] IsZeroV(a) -> a
    [] OTHER -> LET r == Abs(a.n) % Abs(b.n)
                IN IF r = 0 THEN SignedZero(a.n < 0) ELSE Num(IF a.n < 0 THEN -r ELSE r)

RECURSIVE PowNat(_, _)
\* b^e for naturals e, OOM-guarded; -1 stands for "left the domain"
PowNat(b, e) ==
  IF e = 0 THEN 1
  ELSE LET r == PowNat(b, e - 1)
       IN IF r = -1 THEN -1
          ELSE IF b # 0 /\ Abs(r) > MaxInt \div Abs(b) THEN -1 ELSE Abs(r) * Abs(b)

\* Number::exponentiate (6.1.6.1.3) on the modelled domain
NumExp(a, b) ==
  CASE b.k = "nan" -> NaN
    [] IsZeroV(b) -> Num(1)
    [] a.k = "nan" -> NaN
    [] b.k = "pinf" -> IF IsInfV(a) THEN PInf
                       ELSE IF IsZeroV(a) THEN Num(0)
                       ELSE IF Abs(a.n) = 1 THEN NaN ELSE PInf
    [] b.k = "ninf" -> IF IsInfV(a) THEN Num(0)
                       ELSE IF IsZeroV(a) THEN PInf
                       ELSE IF Abs(a.n) = 1 THEN NaN ELSE Num(0)
    [] a.k = "pinf" -> IF b.n > 0 THEN PInf ELSE Num(0)
    [] a.k = "ninf" -> IF b.n > 0 THEN (IF b.n % 2 = 1 THEN NInf ELSE PInf)
                       ELSE (IF b.n % 2 = 1 THEN NegZero ELSE Num(0))
    [] a.k = "nz" -> IF b.n > 0 THEN (IF b.n % 2 = 1 THEN NegZero ELSE Num(0))
                     ELSE (IF b.n % 2 = 1 THEN NInf ELSE PInf)
    [] a.k = "int" /\ a.n = 0 -> IF b.n > 0 THEN Num(0) ELSE PInf
    [] b.n > 0 -> IF b.n > 31 /\ Abs(a.n) > 1 THEN OOM
                  ELSE IF Abs(a.n) = 1 THEN Num(IF a.n < 0 /\ b.n % 2 = 1 THEN -1 ELSE 1)
                  ELSE LET p == PowNat(Abs(a.n), b.n)
                       IN IF p = -1 THEN OOM ELSE MkInt(IF a.n < 0 /\ b.n % 2 = 1 THEN -p ELSE p)
    [] OTHER -> \* negative integral exponent
                IF Abs(a.n) = 1 THEN Num(IF a.n < 0 /\ b.n % 2 = 1 THEN -1 ELSE 1) ELSE OOM

\* ToInt32 on the modelled domain (7.1.6): NaN, +-0, +-Infinity |-> 0
ToInt32(v) == IF v.k = "int" THEN v.n ELSE 0

RECURSIVE BitsRec(_, _, _, _)
BitF(op, x, y) == CASE op = "&" -> x * y
                    [] op = "|" -> (x + y + x * y) % 2
                    [] op = "^" -> (x + y) % 2
\* bits 0..29 of the two's complement patterns (floor division gives the pattern of negatives)
BitsRec(op, a, b, i) ==
  IF i = 30 THEN 0
  ELSE BitF(op, a % 2, b % 2) + 2 * BitsRec(op, a \div 2, b \div 2, i + 1)

\* NumberBitwiseOp (6.1.6.1.17); operands within 31-bit two's complement, so is the result
NumBitOp(op, av, bv) ==
  LET a == ToInt32(av)
      b == ToInt32(bv)
      low == BitsRec(op, a, b, 0)
      sgn == BitF(op, IF a < 0 THEN 1 ELSE 0, IF b < 0 THEN 1 ELSE 0)
  IN MkInt(IF sgn = 1 THEN (low - 536870912) - 536870912 ELSE low)

\* Number::bitwiseNOT: ~x = -x - 1
NumBitNot(v) == MkInt(-ToInt32(v) - 1)

ShiftCount(bv) == ToInt32(bv) % 32      \* ToUint32(b) modulo 32 (TLC's % is non-negative)

\* Number::leftShift (results that wrap around 32 bits leave the domain)
NumShl(av, bv) ==
  LET a == ToInt32(av)
      s == ShiftCount(bv)
  IN IF a = 0 THEN Num(0)
     ELSE IF s > 29 THEN OOM
     ELSE IF Abs(a) <= MaxInt \div (2 ^ s) THEN MkInt(a * (2 ^ s)) ELSE OOM

\* Number::signedRightShift
NumSar(av, bv) ==
  LET a == ToInt32(av)
      s == ShiftCount(bv)
  IN IF s >= 30 THEN Num(IF a < 0 THEN -1 ELSE 0) ELSE Num(a \div (2 ^ s))

\* Number::unsignedRightShift
NumShr(av, bv) ==
  LET a == ToInt32(av)
      s == ShiftCount(bv)
  IN IF a >= 0 THEN (IF s >= 30 THEN Num(0) ELSE Num(a \div (2 ^ s)))
     ELSE IF s < 2 THEN OOM
     ELSE MkInt((2 ^ (32 - s)) + (IF s >= 30 THEN -1 ELSE a \div (2 ^ s)))

\* Number::lessThan: "T", "F" or "U" (undefined, when an operand is NaN)
NumLess(a, b) ==
  CASE a.k = "nan" \/ b.k = "nan" -> "U"
    [] a.k = "pinf" -> "F"
    [] b.k = "ninf" -> "F"
    [] a.k = "ninf" -> "T"         \* b is not -inf here
    [] b.k = "pinf" -> "T"         \* a is not +inf here
    [] OTHER -> IF NumVal(a) < NumVal(b) THEN "T" ELSE "F"

\* Number::equal
NumEq(a, b) ==
  CASE a.k = "nan" \/ b.k = "nan" -> FALSE
    [] IsZeroV(a) /\ IsZeroV(b) -> TRUE
    [] OTHER -> a = b

-----------------------------------------------------------------------------
(* Strings *)

Concat(s1, s2) == IF Len(s1) + Len(s2) > MaxStrLen THEN OOM ELSE Str(s1 \o s2)

RECURSIVE DigitsOf(_)
DigitsOf(n) == IF n < 10 THEN <<48 + n>> ELSE Append(DigitsOf(n \div 10), 48 + (n % 10))

\* Number::toString (radix 10) on the modelled domain (6.1.6.1.20)
NumToStr(v) ==
  CASE v.k = "nan" -> S_NaN
    [] v.k = "pinf" -> S_Infinity
    [] v.k = "ninf" -> S_MinusInfinity
    [] v.k = "nz" -> <<48>>
    [] OTHER -> IF v.n < 0 THEN <<45>> \o DigitsOf(-v.n) ELSE DigitsOf(v.n)

\* WhiteSpace and LineTerminator code units (StrWhiteSpaceChar, 7.1.4.1)
WhiteSpaceUnits == {9, 10, 11, 12, 13, 32, 160, 5760, 8232, 8233, 8239, 8287, 12288, 65279} \cup (8192..8202)

RECURSIVE TrimLeft(_)
TrimLeft(s) == IF s # <<>> /\ Head(s) \in WhiteSpaceUnits THEN TrimLeft(Tail(s)) ELSE s
RECURSIVE TrimRight(_)
TrimRight(s) == IF s # <<>> /\ s[Len(s)] \in WhiteSpaceUnits THEN TrimRight(SubSeq(s, 1, Len(s) - 1)) ELSE s

IsDigit(u) == u >= 48 /\ u <= 57
AllDigits(s) == \A i \in 1..Len(s) : IsDigit(s[i])

RECURSIVE DigitsVal(_, _)
\* value of a digit string, -1 when it exceeds MaxInt
DigitsVal(s, acc) ==
  IF s = <<>> THEN acc
  ELSE IF acc > (MaxInt - (Head(s) - 48)) \div 10 THEN -1
  ELSE DigitsVal(Tail(s), acc * 10 + (Head(s) - 48))

RECURSIVE SkipDigits(_, _)
\* index of the first unit at or after i that is not a decimal digit
SkipDigits(s, i) == IF i <= Len(s) /\ IsDigit(s[i]) THEN SkipDigits(s, i + 1) ELSE i

\* StrUnsignedDecimalLiteral other than Infinity: digits [. digits*] [exp] | . digits [exp]
IsDecimalLit(b) ==
  LET i1 == SkipDigits(b, 1)
      hasInt == i1 > 1
      hasDot == i1 <= Len(b) /\ b[i1] = 46
      i2 == IF hasDot THEN SkipDigits(b, i1 + 1) ELSE i1
      hasFrac == hasDot /\ i2 > i1 + 1
      hasExp == i2 <= Len(b) /\ b[i2] \in {101, 69}
      i3 == IF hasExp THEN (IF i2 + 1 <= Len(b) /\ b[i2 + 1] \in {43, 45} THEN i2 + 2 ELSE i2 + 1) ELSE i2
      i4 == IF hasExp THEN SkipDigits(b, i3) ELSE i2
  IN (hasInt \/ hasFrac) /\ (~hasExp \/ i4 > i3) /\ i4 = Len(b) + 1

\* NonDecimalIntegerLiteral: 0x.. 0o.. 0b.. (no sign)
IsNonDecimalLit(s) ==
  /\ Len(s) >= 3 /\ s[1] = 48
  /\ \/ (s[2] \in {120, 88} /\ \A i \in 3..Len(s) : IsDigit(s[i]) \/ (s[i] >= 97 /\ s[i] <= 102) \/ (s[i] >= 65 /\ s[i] <= 70))
     \/ (s[2] \in {111, 79} /\ \A i \in 3..Len(s) : s[i] >= 48 /\ s[i] <= 55)
     \/ (s[2] \in {98, 66} /\ \A i \in 3..Len(s) : s[i] \in {48, 49})

\* StringToNumber (7.1.4.1.1): the StringNumericLiteral grammar is decided exactly; literals with a fraction,
\* an exponent or a radix prefix have values outside the modelled subset (OOM)
StrToNum(s0) ==
  LET s == TrimRight(TrimLeft(s0))
      neg == s # <<>> /\ s[1] = 45
      body == IF s # <<>> /\ s[1] \in {43, 45} THEN Tail(s) ELSE s
  IN CASE s = <<>> -> Num(0)
       [] body = S_Infinity -> SignedInf(neg)
       [] body # <<>> /\ AllDigits(body) ->
            LET n == DigitsVal(body, 0)
            IN IF n = -1 THEN OOM ELSE IF n = 0 THEN SignedZero(neg) ELSE Num(IF neg THEN -n ELSE n)
       [] IsDecimalLit(body) \/ IsNonDecimalLit(s) -> OOM
       [] OTHER -> NaN

RECURSIVE StrLess(_, _)
\* IsLessThan on strings: lexicographic on code units
StrLess(a, b) ==
  IF b = <<>> THEN FALSE
  ELSE IF a = <<>> THEN TRUE
  ELSE IF Head(a) # Head(b) THEN Head(a) < Head(b)
  ELSE StrLess(Tail(a), Tail(b))

\* CanonicalNumericIndexString restricted to array indices: the index or -1
ArrayIndexOf(key) ==
  IF key = <<>> \/ Len(key) > 9 \/ ~AllDigits(key) THEN -1
  ELSE IF Len(key) > 1 /\ key[1] = 48 THEN -1
  ELSE DigitsVal(key, 0)

-----------------------------------------------------------------------------
(* Conversions and comparisons on primitives (objects go through ToPrimitive in JsCore) *)

\* ToBoolean (7.1.2)
ToBoolean(v) ==
  CASE v.t \in {"undef", "null"} -> FALSE
    [] v.t = "bool" -> v.b
    [] v.t = "num" -> ~(IsZeroV(v) \/ v.k = "nan")
    [] v.t = "str" -> v.s # <<>>
    [] OTHER -> TRUE

\* ToNumber on a primitive other than Symbol (7.1.4)
PrimToNumber(v) ==
  CASE v.t = "undef" -> NaN
    [] v.t = "null" -> Num(0)
    [] v.t = "bool" -> Num(IF v.b THEN 1 ELSE 0)
    [] v.t = "num" -> v
    [] v.t = "str" -> StrToNum(v.s)

\* ToString on a primitive other than Symbol (7.1.17): a code-unit sequence
PrimToStr(v) ==
  CASE v.t = "undef" -> S_undefined
    [] v.t = "null" -> S_null
    [] v.t = "bool" -> IF v.b THEN S_true ELSE S_false
    [] v.t = "num" -> NumToStr(v)
    [] v.t = "str" -> v.s

\* IsStrictlyEqual (7.2.16)
StrictEq(a, b) ==
  IF a.t # b.t THEN FALSE
  ELSE IF a.t = "num" THEN NumEq(a, b)
  ELSE a = b

\* SameValue (7.2.11)
SameValue(a, b) == a.t = b.t /\ a = b

\* IsLooselyEqual (7.2.15) on primitives (objects are converted by the machine first): "T" / "F" / "OOM"
B2S(b) == IF b THEN "T" ELSE "F"
RECURSIVE LooseEqPrim(_, _)
LooseEqPrim(a, b) ==
  CASE a.t = "oom" \/ b.t = "oom" -> "OOM"
    [] a.t = b.t -> B2S(StrictEq(a, b))
    [] IsNullish(a) /\ IsNullish(b) -> "T"
    [] IsNullish(a) \/ IsNullish(b) -> "F"
    [] a.t = "num" /\ b.t = "str" -> LooseEqPrim(a, StrToNum(b.s))
    [] a.t = "str" /\ b.t = "num" -> LooseEqPrim(StrToNum(a.s), b)
    [] a.t = "bool" -> LooseEqPrim(PrimToNumber(a), b)
    [] b.t = "bool" -> LooseEqPrim(a, PrimToNumber(b))
    [] OTHER -> "F"      \* symbol against number/string

\* IsLessThan (7.2.14) on primitives px < py: "T" / "F" / "U", or "OOM"; "SYM" = TypeError
PrimLess(px, py) ==
  IF px.t = "str" /\ py.t = "str" THEN (IF StrLess(px.s, py.s) THEN "T" ELSE "F")
  ELSE IF px.t = "sym" \/ py.t = "sym" THEN "SYM"
  ELSE LET nx == PrimToNumber(px)
           ny == PrimToNumber(py)
       IN IF nx.t = "oom" \/ ny.t = "oom" THEN "OOM" ELSE NumLess(nx, ny)

\* Numeric binary operators after ToNumeric (13.15.3 ApplyStringOrNumericBinaryOperator, Number case)
NumBinOp(op, a, b) ==
  CASE op = "+" -> NumAdd(a, b)
    [] op = "-" -> NumSub(a, b)
    [] op = "*" -> NumMul(a, b)
    [] op = "/" -> NumDiv(a, b)
    [] op = "%" -> NumRem(a, b)
    [] op = "**" -> NumExp(a, b)
    [] op \in {"&", "|", "^"} -> NumBitOp(op, a, b)
    [] op = "<<" -> NumShl(a, b)
    [] op = ">>" -> NumSar(a, b)
    [] op = ">>>" -> NumShr(a, b)

=============================================================================
