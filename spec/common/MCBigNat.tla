---- MODULE MCBigNat ----
\* Unit test of BigNat against test vectors produced with Python integers (tools/checks/C13.py writes them).
EXTENDS BigNat, TLC, Json, IOUtils
VARIABLE i
Vec == ndJsonDeserialize(IOEnv.VECTORS)
Init == i \in 1..Len(Vec)
Next == UNCHANGED i
OK(v) ==
  LET a == v.a  b == v.b IN
  /\ BnAdd(a, b) = v.add
  /\ (IF BnLe(b, a) THEN BnSub(a, b) = v.sub ELSE TRUE)
  /\ BnCmp(a, b) = v.cmp
  /\ BnMulSmall(a, v.m) = v.mulsmall
  /\ BnDivSmall(a, v.m) = v.divsmall /\ BnModSmall(a, v.m) = v.modsmall
  /\ BnShl(a, v.sh) = v.shl /\ BnShr(a, v.sh) = v.shr
  /\ BnMulPow10(a, v.p10) = v.mulpow10
  /\ BnMul(a, b) = v.mul
  /\ BnDigits(a) = v.digits /\ BnFromDigits(v.digits) = a
  /\ (IF b # <<>> THEN BnDivBits(a, b, v.qbits) = <<v.quo, v.rem>> ELSE TRUE)
Inv == OK(Vec[i])
====
