------------------------------ MODULE SyntaxRun ------------------------------
(* The parser of Syntax.tla run on token sequences read from a file (one JSON  *)
(* object {"id", "toks"} per line; path in the environment variable C19_TOKS): *)
(* the tokenised output of the implementation's printer.  Every result is      *)
(* emitted as a RUN line; the stack-discipline invariants are checked on every *)
(* step of every run.                                                          *)
EXTENDS Syntax, Json, IOUtils

Inputs == ndJsonDeserialize(IOEnv.C19_TOKS)
RunCases == {[a |-> None, v |-> Inputs[i].id, toks |-> Inputs[i].toks] : i \in 1..Len(Inputs)}
EmitRun == Done => PrintT(<<"RUN", ToJson([id |-> cs.v, st |-> st, res |-> res])>>)
=============================================================================
