------------------------------- MODULE Syntax -------------------------------
(***************************************************************************)
(* C19, structural layer: ASTs of the ECMAScript constructs whose printing  *)
(* needs care, a reference printer that inserts the minimal parentheses,    *)
(* and a reference parser written as a state machine (token cursor, operand *)
(* stack, marker stack) that implements operator precedence together with   *)
(* the restrictions of ECMA-262 chapter 13-14 that a plain precedence table *)
(* does not express:                                                        *)
(*   - `**` does not take a unary/await expression as its left operand      *)
(*     (13.6: UpdateExpression ** ExponentiationExpression);                *)
(*   - `??` does not mix with `||` / `&&` without parentheses (13.13);      *)
(*   - the left side of an assignment / operand of ++ -- is a simple target;*)
(*   - arrow functions and `yield` are AssignmentExpressions: they are not  *)
(*     operands of binary/unary operators; an arrow with a block body ends  *)
(*     at its `}`;                                                          *)
(*   - `new` binds to a MemberExpression: `new a.b()`, `new (a())()`,       *)
(*     `new new a`, no optional chain after `new a`;                        *)
(*   - optional chains: `a?.b.c` is one chain, `(a?.b).c` is not;           *)
(*   - [~In]: no unparenthesised `in` in the head of a `for`, except inside *)
(*     brackets and in the middle operand of `?:`;                          *)
(*   - statement start: `{`, `function`, `class`, `let [`; concise arrow    *)
(*     body start: `{`; `for (let of`, `for (async of`.                     *)
(* TLC executes the parser step by step on Print(a) for every AST a of the  *)
(* bounded universe (MCSyntax.tla) and checks Parse(Print(a)) = a, that     *)
(* every inserted pair of parentheses is necessary (dropping it gives a     *)
(* rejection or a different AST), and a stack-discipline invariant on every *)
(* step.  The same machine parses token sequences read from a file (the     *)
(* tokenised output of boa's printer): see SyntaxRun.tla.                   *)
(*                                                                         *)
(* Tokens are strings; identifiers a b c p x let async; all expressions are *)
(* taken to be inside `async function* w(){ ... }` (sloppy mode), so that   *)
(* `yield` and `await` are operators.                                       *)
(***************************************************************************)
EXTENDS Naturals, Sequences, FiniteSets, TLC

None == [k |-> "none"]
Id(n) == [k |-> "id", n |-> n]
ObjE == [k |-> "obj"]                \* { }
FnE == [k |-> "fn"]                  \* function ( ) { }
ClsE == [k |-> "class"]              \* class { }
Bin(op, l, r) == [k |-> "bin", op |-> op, l |-> l, r |-> r]
Un(op, x) == [k |-> "un", op |-> op, x |-> x]
Upd(op, pre, x) == [k |-> "upd", op |-> op, pre |-> pre, x |-> x]
Asg(op, l, r) == [k |-> "asg", op |-> op, l |-> l, r |-> r]
Cond(c, t, f) == [k |-> "cond", c |-> c, t |-> t, f |-> f]
Arrow(as, x) == [k |-> "arrow", as |-> as, x |-> x]      \* (p) => x
New(c, na, args) == [k |-> "new", c |-> c, na |-> na, args |-> args]   \* na: written without arguments
Call(f, args) == [k |-> "call", f |-> f, args |-> args]
Mem(o, n) == [k |-> "mem", o |-> o, n |-> n]
Idx(o, i) == [k |-> "idx", o |-> o, i |-> i]
Opt(t, ch) == [k |-> "opt", t |-> t, ch |-> ch]          \* chain of [s, k = dot|idx|call, ...]
ODot(s, n) == [s |-> s, k |-> "dot", n |-> n]
OIdx(s, i) == [s |-> s, k |-> "idx", i |-> i]
OCall(s, args) == [s |-> s, k |-> "call", args |-> args]
Await(x) == [k |-> "await", x |-> x]
Yield(d, x) == [k |-> "yield", d |-> d, x |-> x]         \* x = None: bare yield

\* statements
SExpr(e) == [k |-> "expr", e |-> e]                      \* e ;
SForInit(e) == [k |-> "forinit", e |-> e]                \* for ( e ; ; ) ;
SForVar(e) == [k |-> "forvar", e |-> e]                  \* for ( var x = e ; ; ) ;
SForIn(l, e) == [k |-> "forin", l |-> l, e |-> e]        \* for ( l in e ) ;
SForOf(l, e) == [k |-> "forof", l |-> l, e |-> e]        \* for ( l of e ) ;

(***************************************************************************)
(* Grammar levels (ECMA-262 13.2 - 13.16), higher binds tighter.           *)
(***************************************************************************)
LComma == 1
LAssign == 2      \* AssignmentExpression: assignment, arrow, yield
LCond == 3
LCoal == 4        \* CoalesceExpression
LOr == 5
LAnd == 6
LBitOr == 7
LExp == 15
LUnary == 16
LUpdate == 17
LLhs == 18        \* CallExpression / OptionalExpression
LNew == 19        \* NewExpression without arguments
LMember == 20     \* MemberExpression / PrimaryExpression

BinPrec == [o \in {",", "??", "||", "&&", "|", "^", "&", "==", "!=", "===", "!==", "<", ">", "<=", ">=",
                   "in", "instanceof", "<<", ">>", ">>>", "+", "-", "*", "/", "%", "**"} |->
    CASE o = "," -> 1 [] o = "??" -> 4 [] o = "||" -> 5 [] o = "&&" -> 6 [] o = "|" -> 7 [] o = "^" -> 8
      [] o = "&" -> 9 [] o \in {"==", "!=", "===", "!=="} -> 10
      [] o \in {"<", ">", "<=", ">=", "in", "instanceof"} -> 11 [] o \in {"<<", ">>", ">>>"} -> 12
      [] o \in {"+", "-"} -> 13 [] o \in {"*", "/", "%"} -> 14 [] o = "**" -> 15]
BinOps == DOMAIN BinPrec
AsgOps == {"=", "+=", "-=", "*=", "/=", "%=", "**=", "<<=", ">>=", ">>>=", "&=", "|=", "^=", "&&=", "||=", "??="}
UnOps == {"-", "+", "!", "~", "typeof", "void", "delete"}
UpdOps == {"++", "--"}
Names == {"a", "b", "c", "p", "x", "let", "async"}

IsTargetAst(e) == e.k \in {"id", "mem", "idx"}

(***************************************************************************)
(* Level of the printed form of an AST (its own production, before any      *)
(* parentheses are put around it).                                          *)
(***************************************************************************)
RECURSIVE Lvl(_)
Lvl(e) ==
    CASE e.k \in {"id", "obj", "fn", "class"} -> LMember
      [] e.k \in {"mem", "idx"} -> LET lo == Lvl(e.o) IN IF lo = LLhs /\ e.o.k # "opt" THEN LLhs ELSE LMember
      [] e.k = "call" -> LLhs
      [] e.k = "opt" -> LLhs
      [] e.k = "new" -> IF e.na THEN LNew ELSE LMember
      [] e.k = "upd" -> LUpdate
      [] e.k \in {"un", "await"} -> LUnary
      [] e.k = "bin" -> BinPrec[e.op]
      [] e.k = "cond" -> LCond
      [] e.k \in {"asg", "arrow", "yield"} -> LAssign

(***************************************************************************)
(* Printer.  P(e, min, noIn, first) = tokens of e in a position that        *)
(* requires level >= min; noIn: inside a for-head ([~In]); first: what the  *)
(* position forbids as the first token ("stmt", "body", "forinit", "forin", *)
(* "forof", "none").  Inserted parentheses are the marked tokens "(p" ")p". *)
(***************************************************************************)
Par(ts) == <<"(p">> \o ts \o <<")p">>

RECURSIVE P(_, _, _, _), PArgs(_), PChain(_), PBase(_, _, _), PBody(_, _, _)

\* object of a member access / callee of a call / target of an optional chain
PBase(o, noIn, first) ==
    IF Lvl(o) < LLhs \/ Lvl(o) = LNew \/ o.k = "opt" THEN Par(P(o, 0, FALSE, "none")) ELSE P(o, 0, noIn, first)

PArgs(args) ==
    IF Len(args) = 0 THEN <<>>
    ELSE IF Len(args) = 1 THEN P(args[1], LAssign, FALSE, "none")
    ELSE P(args[1], LAssign, FALSE, "none") \o <<",">> \o PArgs(Tail(args))

PChain(ch) ==
    IF Len(ch) = 0 THEN <<>>
    ELSE LET o == ch[1]
             body == CASE o.k = "dot" -> IF o.s THEN <<"?.", o.n>> ELSE <<".", o.n>>
                       [] o.k = "idx" -> (IF o.s THEN <<"?.">> ELSE <<>>) \o <<"[">> \o P(o.i, LComma, FALSE, "none") \o <<"]">>
                       [] o.k = "call" -> (IF o.s THEN <<"?.">> ELSE <<>>) \o <<"(">> \o PArgs(o.args) \o <<")">>
         IN body \o PChain(Tail(ch))

LetGuard(first) == first \in {"stmt", "forinit", "forin", "forof"}

PBody(e, noIn, first) ==
    LET fl == IF first = "forofwhole" THEN "forof" ELSE first IN   \* what the leftmost child inherits
    CASE e.k = "id" -> IF e.n = "let" /\ fl = "forof" THEN Par(<<"let">>)
                       ELSE IF e.n = "async" /\ first = "forofwhole" THEN Par(<<"async">>) ELSE <<e.n>>
      [] e.k = "obj" -> IF first \in {"stmt", "body"} THEN Par(<<"{", "}">>) ELSE <<"{", "}">>
      [] e.k = "fn" -> IF first = "stmt" THEN Par(<<"function", "(", ")", "{", "}">>) ELSE <<"function", "(", ")", "{", "}">>
      [] e.k = "class" -> IF first = "stmt" THEN Par(<<"class", "{", "}">>) ELSE <<"class", "{", "}">>
      [] e.k = "bin" ->
            LET p == BinPrec[e.op] IN
            CASE e.op = "**" -> P(e.l, LUpdate, noIn, fl) \o <<"**">> \o P(e.r, LExp, noIn, "none")
              [] e.op = "??" -> (IF e.l.k = "bin" /\ e.l.op = "??" THEN P(e.l, LCoal, noIn, fl) ELSE P(e.l, LBitOr, noIn, fl))
                                \o <<"??">> \o P(e.r, LBitOr, noIn, "none")
              [] OTHER -> P(e.l, p, noIn, fl) \o <<e.op>> \o P(e.r, p + 1, noIn, "none")
      [] e.k = "un" -> <<e.op>> \o P(e.x, LUnary, noIn, "none")
      [] e.k = "await" -> <<"await">> \o P(e.x, LUnary, noIn, "none")
      [] e.k = "upd" -> IF e.pre THEN <<e.op>> \o P(e.x, LLhs, noIn, "none")
                        ELSE P(e.x, LLhs, noIn, fl) \o <<e.op>>
      [] e.k = "asg" -> P(e.l, LLhs, noIn, fl) \o <<e.op>> \o P(e.r, LAssign, noIn, "none")
      [] e.k = "cond" -> P(e.c, LCoal, noIn, fl) \o <<"?">>
                         \o P(e.t, LAssign, FALSE, "none") \o <<":">> \o P(e.f, LAssign, noIn, "none")
      [] e.k = "arrow" -> (IF e.as THEN <<"async">> ELSE <<>>) \o <<"(", "p", ")", "=>">> \o P(e.x, LAssign, noIn, "body")
      [] e.k = "yield" -> <<"yield">> \o (IF e.d THEN <<"*">> ELSE <<>>)
                          \o (IF e.x = None THEN <<>> ELSE P(e.x, LAssign, noIn, "none"))
      [] e.k = "new" ->
            LET cal == IF Lvl(e.c) = LMember \/ (e.na /\ e.c.k = "new" /\ e.c.na)
                       THEN P(e.c, 0, FALSE, "none") ELSE Par(P(e.c, 0, FALSE, "none"))
            IN <<"new">> \o cal \o (IF e.na THEN <<>> ELSE <<"(">> \o PArgs(e.args) \o <<")">>)
      [] e.k = "call" -> PBase(e.f, noIn, fl) \o <<"(">> \o PArgs(e.args) \o <<")">>
      [] e.k = "mem" -> PBase(e.o, noIn, fl) \o <<".", e.n>>
      [] e.k = "idx" -> (IF e.o = Id("let") /\ LetGuard(fl)
                         THEN Par(<<"let">>) ELSE PBase(e.o, noIn, fl))
                        \o <<"[">> \o P(e.i, LComma, FALSE, "none") \o <<"]">>
      [] e.k = "opt" -> PBase(e.t, noIn, fl) \o PChain(e.ch)

P(e, min, noIn, first) ==
    IF Lvl(e) < min \/ (noIn /\ e.k = "bin" /\ e.op = "in")
    THEN Par(PBody(e, FALSE, "none"))
    ELSE PBody(e, noIn, first)

PrintStmt(s) ==
    CASE s.k = "expr" -> P(s.e, LComma, FALSE, "stmt") \o <<";">>
      [] s.k = "forinit" -> <<"for", "(">> \o P(s.e, LComma, TRUE, "forinit") \o <<";", ";", ")", ";">>
      [] s.k = "forvar" -> <<"for", "(", "var", "x", "=">> \o P(s.e, LAssign, TRUE, "none") \o <<";", ";", ")", ";">>
      [] s.k = "forin" -> <<"for", "(">> \o P(s.l, LLhs, TRUE, "forin") \o <<"in">> \o P(s.e, LComma, FALSE, "none") \o <<")", ";">>
      [] s.k = "forof" -> <<"for", "(">> \o P(s.l, LLhs, TRUE, "forofwhole") \o <<"of">> \o P(s.e, LAssign, FALSE, "none") \o <<")", ";">>

\* ---- marked parentheses: variants
Unmark(ts) == [i \in 1..Len(ts) |-> IF ts[i] = "(p" THEN "(" ELSE IF ts[i] = ")p" THEN ")" ELSE ts[i]]
NPairs(ts) == Cardinality({i \in 1..Len(ts) : ts[i] = "(p"})
\* DropScan(ts, i, k, d): copy ts from position i, leaving out the k-th "(p" (counting from i) and its
\* matching ")p".  d = -1: before the pair, d >= 0: inside it at nesting depth d, d = -2: after it.
RECURSIVE DropScan(_, _, _, _)
DropScan(ts, i, k, d) ==
    IF i > Len(ts) THEN <<>>
    ELSE LET t == ts[i] IN
         IF d = 0 - 1
         THEN IF t = "(p"
              THEN IF k = 1 THEN DropScan(ts, i + 1, 0, 0) ELSE <<t>> \o DropScan(ts, i + 1, k - 1, d)
              ELSE <<t>> \o DropScan(ts, i + 1, k, d)
         ELSE IF d = 0 - 2 THEN <<t>> \o DropScan(ts, i + 1, k, d)
         ELSE IF t = "(p" THEN <<t>> \o DropScan(ts, i + 1, k, d + 1)
         ELSE IF t = ")p" THEN (IF d = 0 THEN DropScan(ts, i + 1, k, 0 - 2) ELSE <<t>> \o DropScan(ts, i + 1, k, d - 1))
         ELSE <<t>> \o DropScan(ts, i + 1, k, d)
DropPair(ts, k) == DropScan(ts, 1, k, 0 - 1)
\* variant 0: minimal print; variant k >= 1: the k-th inserted pair removed
VariantOf(ts, v) == IF v = 0 THEN Unmark(ts) ELSE Unmark(DropPair(ts, v))
Variant(s, v) == VariantOf(PrintStmt(s), v)
\* fully parenthesised print is not needed by the machine; "non-trivial" = NPairs > 0

(***************************************************************************)
(* Parser: a state machine.                                                 *)
(*   toks, pos  token sequence and cursor                                   *)
(*   ost        operand stack: [e: AST, lvl: level of the form as written]  *)
(*   pst        marker stack: operators waiting for their right operand and *)
(*              open brackets                                               *)
(*   mode       "X" an operand is expected, "O" an operator is expected     *)
(*   ph         phase: print, start, expr, forinit, forvar, forinrhs, forofrhs     *)
(*   st         run | ok | reject | other (a statement outside the fragment)*)
(*   res        the statement AST when st = ok; during forin/forof: the lhs *)
(***************************************************************************)
CONSTANT Cases       \* set of records [a: statement AST or None, v: variant, toks]; toks = <<>> with an AST: to be printed
VARIABLES cs, pos, ost, pst, mode, ph, st, res
vars == <<cs, pos, ost, pst, mode, ph, st, res>>

toks == cs.toks
TokAt(i) == IF i >= 1 /\ i <= Len(toks) THEN toks[i] ELSE "<eof>"
Tok == TokAt(pos)
TopM == pst[Len(pst)]
TopE == ost[Len(ost)]
PopM == SubSeq(pst, 1, Len(pst) - 1)
PopE(n) == SubSeq(ost, 1, Len(ost) - n)
Opd(e, l) == [e |-> e, lvl |-> l]

OpenMarkers == {"bot", "paren", "args", "nargs", "idx", "cq", "ablock"}
IsOpen(m) == m.t \in OpenMarkers
MBot == [t |-> "bot", p |-> 0]
MParen == [t |-> "paren", p |-> 0]
MArgs(s, n) == [t |-> "args", p |-> 0, s |-> s, n |-> n]
MNArgs(n) == [t |-> "nargs", p |-> 0, n |-> n]
MIdx(s) == [t |-> "idx", p |-> 0, s |-> s]
MCq == [t |-> "cq", p |-> 0]
MABlock(as) == [t |-> "ablock", p |-> 0, as |-> as]
MBin(op) == [t |-> "bin", p |-> BinPrec[op], op |-> op]
MPre(op) == [t |-> "pre", p |-> LUnary, op |-> op]
MAsg(op) == [t |-> "asg", p |-> LAssign, op |-> op]
MArrow(as) == [t |-> "arrow", p |-> LAssign, as |-> as]
MYield(d) == [t |-> "yield", p |-> LAssign, d |-> d]
MCElse == [t |-> "celse", p |-> LCond]
MNew == [t |-> "new", p |-> LNew]

\* operands a marker keeps below itself on the operand stack
Owed(m) == CASE m.t \in {"bin", "asg", "cq", "idx"} -> 1
             [] m.t = "celse" -> 2
             [] m.t \in {"args", "nargs"} -> 1 + m.n
             [] OTHER -> 0
RECURSIVE SumOwed(_)
SumOwed(ms) == IF Len(ms) = 0 THEN 0 ELSE Owed(ms[1]) + SumOwed(Tail(ms))

\* [~In] is in force: in a for head and not inside any bracket
NoInActive == ph \in {"forinit", "forvar"} /\ \A i \in 1..Len(pst) : (IsOpen(pst[i]) => pst[i].t = "bot")

\* positions in which an AssignmentExpression (arrow, yield) may start
AssignCtxOK(m) == IsOpen(m) \/ m.t \in {"asg", "arrow", "yield", "celse"} \/ (m.t = "bin" /\ m.op = ",")

IsBinTok(t) == t \in BinOps /\ ~(t = "in" /\ NoInActive)
\* precedence of the lookahead when an operator is expected: markers with a higher value are reduced first
LaPrec(t) == CASE IsBinTok(t) -> BinPrec[t]
               [] t = "?" -> LCond
               [] t \in AsgOps \/ t \in UpdOps -> LLhs
               [] t \in {"(", "[", ".", "?."} -> 99
               [] OTHER -> 0
LaLeft(t) == IsBinTok(t) /\ t # "**"
ShouldReduce(m, t) == ~IsOpen(m) /\ (m.p > LaPrec(t) \/ (m.p = LaPrec(t) /\ LaLeft(t)))

BinOperandsOK(op, L, R) ==
    CASE op = "**" -> L.lvl >= LUpdate /\ R.lvl >= LExp
      [] op = "??" -> (L.lvl >= LBitOr \/ (L.lvl = LCoal /\ L.e.k = "bin" /\ L.e.op = "??")) /\ R.lvl >= LBitOr
      [] OTHER -> L.lvl >= BinPrec[op] /\ R.lvl >= BinPrec[op] + 1

Reject == /\ st' = "reject"
          /\ UNCHANGED <<cs, pos, ost, pst, mode, ph, res>>
Other == /\ st' = "other"
         /\ UNCHANGED <<cs, pos, ost, pst, mode, ph, res>>
Finish(r) == /\ st' = "ok"
             /\ res' = r
             /\ UNCHANGED <<cs, pos, ost, pst, mode, ph>>

\* a member / index / call applied to operand E: extends an unparenthesised optional chain
IsChain(E) == E.e.k = "opt" /\ E.lvl = LLhs
PostfixLvl(E) == IF E.lvl = LMember THEN LMember ELSE LLhs
ApplyDot(E, s, n) == IF IsChain(E) THEN Opd(Opt(E.e.t, Append(E.e.ch, ODot(s, n))), LLhs)
                     ELSE IF s THEN Opd(Opt(E.e, <<ODot(TRUE, n)>>), LLhs)
                     ELSE Opd(Mem(E.e, n), PostfixLvl(E))
ApplyIdx(E, s, i) == IF IsChain(E) THEN Opd(Opt(E.e.t, Append(E.e.ch, OIdx(s, i))), LLhs)
                     ELSE IF s THEN Opd(Opt(E.e, <<OIdx(TRUE, i)>>), LLhs)
                     ELSE Opd(Idx(E.e, i), PostfixLvl(E))
ApplyCall(E, s, args) == IF IsChain(E) THEN Opd(Opt(E.e.t, Append(E.e.ch, OCall(s, args))), LLhs)
                         ELSE IF s THEN Opd(Opt(E.e, <<OCall(TRUE, args)>>), LLhs)
                         ELSE Opd(Call(E.e, args), LLhs)
Exprs(os) == [i \in 1..Len(os) |-> os[i].e]

Init == /\ cs \in Cases
        /\ pos = 1
        /\ ost = <<>>
        /\ pst = <<MBot>>
        /\ mode = "X"
        /\ ph = IF cs.a # None /\ cs.toks = <<>> THEN "print" ELSE "start"
        /\ st = "run"
        /\ res = None

\* ---- printing: the case becomes the minimal print (v = 0) or the print with one inserted pair removed
PrintAct ==
    /\ st = "run" /\ ph = "print"
    /\ LET mt == PrintStmt(cs.a) IN
       \E v \in 0..NPairs(mt) :
           cs' = [cs EXCEPT !.v = v, !.toks = VariantOf(mt, v)]
    /\ ph' = "start"
    /\ UNCHANGED <<pos, ost, pst, mode, st, res>>

\* ---- statement start
Start ==
    /\ st = "run" /\ ph = "start"
    /\ IF TokAt(1) = "for" /\ TokAt(2) = "("
       THEN IF TokAt(3) = "var" /\ TokAt(4) = "x" /\ TokAt(5) = "="
            THEN ph' = "forvar" /\ pos' = 6 /\ UNCHANGED <<cs, ost, pst, mode, st, res>>
            ELSE IF TokAt(3) = "let" /\ TokAt(4) = "["
            THEN Other
            ELSE ph' = "forinit" /\ pos' = 3 /\ UNCHANGED <<cs, ost, pst, mode, st, res>>
       ELSE IF TokAt(1) \in {"{", "function", "class"} \/ (TokAt(1) = "let" /\ TokAt(2) = "[")
               \/ (TokAt(1) = "async" /\ TokAt(2) = "function")
            THEN Other
            ELSE ph' = "expr" /\ UNCHANGED <<cs, pos, ost, pst, mode, st, res>>

Running == st = "run" /\ ph \notin {"start", "print"}

\* ---- an operand is expected
ArrowBodyStart(as, n) ==     \* the cursor is on the token after `=>` (n tokens consumed up to there)
    IF TokAt(pos + n) = "{"
    THEN IF TokAt(pos + n + 1) = "return"
         THEN /\ pst' = Append(pst, MABlock(as)) /\ pos' = pos + n + 2
              /\ UNCHANGED <<cs, ost, mode, ph, st, res>>
         ELSE Other              \* other block bodies are outside the fragment
    ELSE /\ pst' = Append(pst, MArrow(as)) /\ pos' = pos + n
         /\ UNCHANGED <<cs, ost, mode, ph, st, res>>

ShiftOperand ==
    /\ Running /\ mode = "X"
    /\ LET t == Tok IN
       CASE t \in Names /\ t # "async" ->
              IF TokAt(pos + 1) = "=>"
              THEN IF AssignCtxOK(TopM) THEN ArrowBodyStart(FALSE, 2) ELSE Reject
              ELSE /\ ost' = Append(ost, Opd(Id(t), LMember)) /\ mode' = "O" /\ pos' = pos + 1
                   /\ UNCHANGED <<cs, pst, ph, st, res>>
         [] t = "async" ->
              IF TokAt(pos + 1) = "(" /\ TokAt(pos + 2) = "p" /\ TokAt(pos + 3) = ")" /\ TokAt(pos + 4) = "=>"
              THEN IF AssignCtxOK(TopM) THEN ArrowBodyStart(TRUE, 5) ELSE Reject
              ELSE IF TokAt(pos + 1) \in Names /\ TokAt(pos + 2) = "=>"
              THEN IF AssignCtxOK(TopM) THEN ArrowBodyStart(TRUE, 3) ELSE Reject
              ELSE IF TokAt(pos + 1) = "function" THEN Other
              ELSE /\ ost' = Append(ost, Opd(Id(t), LMember)) /\ mode' = "O" /\ pos' = pos + 1
                   /\ UNCHANGED <<cs, pst, ph, st, res>>
         [] t = "(" ->
              IF TokAt(pos + 1) = "p" /\ TokAt(pos + 2) = ")" /\ TokAt(pos + 3) = "=>"
              THEN IF AssignCtxOK(TopM) THEN ArrowBodyStart(FALSE, 4) ELSE Reject
              ELSE /\ pst' = Append(pst, MParen) /\ pos' = pos + 1
                   /\ UNCHANGED <<cs, ost, mode, ph, st, res>>
         [] t = "{" ->
              IF TokAt(pos + 1) = "}"
              THEN /\ ost' = Append(ost, Opd(ObjE, LMember)) /\ mode' = "O" /\ pos' = pos + 2
                   /\ UNCHANGED <<cs, pst, ph, st, res>>
              ELSE Other
         [] t = "function" ->
              IF TokAt(pos + 1) = "(" /\ TokAt(pos + 2) = ")" /\ TokAt(pos + 3) = "{" /\ TokAt(pos + 4) = "}"
              THEN /\ ost' = Append(ost, Opd(FnE, LMember)) /\ mode' = "O" /\ pos' = pos + 5
                   /\ UNCHANGED <<cs, pst, ph, st, res>>
              ELSE Other
         [] t = "class" ->
              IF TokAt(pos + 1) = "{" /\ TokAt(pos + 2) = "}"
              THEN /\ ost' = Append(ost, Opd(ClsE, LMember)) /\ mode' = "O" /\ pos' = pos + 3
                   /\ UNCHANGED <<cs, pst, ph, st, res>>
              ELSE Other
         [] t \in UnOps \/ t \in UpdOps \/ t = "await" ->
              /\ pst' = Append(pst, MPre(t)) /\ pos' = pos + 1
              /\ UNCHANGED <<cs, ost, mode, ph, st, res>>
         [] t = "new" ->
              /\ pst' = Append(pst, MNew) /\ pos' = pos + 1
              /\ UNCHANGED <<cs, ost, mode, ph, st, res>>
         [] t = "yield" ->
              IF ~AssignCtxOK(TopM) THEN Reject
              ELSE IF TokAt(pos + 1) = "*"
              THEN /\ pst' = Append(pst, MYield(TRUE)) /\ pos' = pos + 2
                   /\ UNCHANGED <<cs, ost, mode, ph, st, res>>
              ELSE IF TokAt(pos + 1) \in {")", "]", "}", ",", ";", ":", "<eof>"}
              THEN /\ ost' = Append(ost, Opd(Yield(FALSE, None), LAssign)) /\ mode' = "O" /\ pos' = pos + 1
                   /\ UNCHANGED <<cs, pst, ph, st, res>>
              ELSE /\ pst' = Append(pst, MYield(FALSE)) /\ pos' = pos + 1
                   /\ UNCHANGED <<cs, ost, mode, ph, st, res>>
         [] t = ")" /\ TopM.t \in {"args", "nargs"} /\ TopM.n = 0 ->      \* empty argument list
              LET callee == TopE IN
              /\ ost' = Append(PopE(1), IF TopM.t = "nargs" THEN Opd(New(callee.e, FALSE, <<>>), LMember)
                                        ELSE ApplyCall(callee, TopM.s, <<>>))
              /\ pst' = PopM /\ mode' = "O" /\ pos' = pos + 1
              /\ UNCHANGED <<cs, ph, st, res>>
         [] OTHER -> Reject

\* ---- an operator is expected: first reduce what binds tighter than the lookahead
Reduce ==
    /\ Running /\ mode = "O" /\ ShouldReduce(TopM, Tok)
    /\ LET m == TopM
           R == TopE IN
       CASE m.t = "bin" ->
              LET L == ost[Len(ost) - 1] IN
              IF BinOperandsOK(m.op, L, R)
              THEN /\ ost' = Append(PopE(2), Opd(Bin(m.op, L.e, R.e), m.p)) /\ pst' = PopM
                   /\ UNCHANGED <<cs, pos, mode, ph, st, res>>
              ELSE Reject
         [] m.t = "pre" ->
              IF R.lvl < LUnary THEN Reject
              ELSE IF m.op \in UpdOps
              THEN IF IsTargetAst(R.e)
                   THEN /\ ost' = Append(PopE(1), Opd(Upd(m.op, TRUE, R.e), LUpdate)) /\ pst' = PopM
                        /\ UNCHANGED <<cs, pos, mode, ph, st, res>>
                   ELSE Reject
              ELSE /\ ost' = Append(PopE(1), Opd(IF m.op = "await" THEN Await(R.e) ELSE Un(m.op, R.e), LUnary))
                   /\ pst' = PopM
                   /\ UNCHANGED <<cs, pos, mode, ph, st, res>>
         [] m.t = "asg" ->
              LET L == ost[Len(ost) - 1] IN
              /\ ost' = Append(PopE(2), Opd(Asg(m.op, L.e, R.e), LAssign)) /\ pst' = PopM
              /\ UNCHANGED <<cs, pos, mode, ph, st, res>>
         [] m.t = "arrow" ->
              /\ ost' = Append(PopE(1), Opd(Arrow(m.as, R.e), LAssign)) /\ pst' = PopM
              /\ UNCHANGED <<cs, pos, mode, ph, st, res>>
         [] m.t = "yield" ->
              /\ ost' = Append(PopE(1), Opd(Yield(m.d, R.e), LAssign)) /\ pst' = PopM
              /\ UNCHANGED <<cs, pos, mode, ph, st, res>>
         [] m.t = "celse" ->
              LET T == ost[Len(ost) - 1]
                  C == ost[Len(ost) - 2] IN
              /\ ost' = Append(PopE(3), Opd(Cond(C.e, T.e, R.e), LCond)) /\ pst' = PopM
              /\ UNCHANGED <<cs, pos, mode, ph, st, res>>
         [] m.t = "new" ->
              IF R.lvl >= LNew
              THEN /\ ost' = Append(PopE(1), Opd(New(R.e, TRUE, <<>>), LNew)) /\ pst' = PopM
                   /\ UNCHANGED <<cs, pos, mode, ph, st, res>>
              ELSE Reject

ShiftBinary ==
    /\ Running /\ mode = "O" /\ ~ShouldReduce(TopM, Tok) /\ IsBinTok(Tok)
    /\ IF Tok = ","
       THEN CASE TopM.t \in {"args", "nargs"} ->
                   /\ pst' = Append(PopM, [TopM EXCEPT !.n = @ + 1]) /\ mode' = "X" /\ pos' = pos + 1
                   /\ UNCHANGED <<cs, ost, ph, st, res>>
              [] TopM.t \in {"cq", "ablock"} -> Reject
              [] TopM.t = "bot" /\ ph = "forvar" -> Other          \* a second declarator
              [] TopM.t = "bot" /\ ph = "forofrhs" -> Reject
              [] OTHER -> /\ pst' = Append(pst, MBin(",")) /\ mode' = "X" /\ pos' = pos + 1
                          /\ UNCHANGED <<cs, ost, ph, st, res>>
       ELSE /\ pst' = Append(pst, MBin(Tok)) /\ mode' = "X" /\ pos' = pos + 1
            /\ UNCHANGED <<cs, ost, ph, st, res>>

ShiftCond ==
    /\ Running /\ mode = "O" /\ ~ShouldReduce(TopM, Tok)
    /\ \/ /\ Tok = "?"
          /\ IF TopE.lvl >= LCoal
             THEN /\ pst' = Append(pst, MCq) /\ mode' = "X" /\ pos' = pos + 1
                  /\ UNCHANGED <<cs, ost, ph, st, res>>
             ELSE Reject
       \/ /\ Tok = ":"
          /\ IF TopM.t = "cq"
             THEN /\ pst' = Append(PopM, MCElse) /\ mode' = "X" /\ pos' = pos + 1
                  /\ UNCHANGED <<cs, ost, ph, st, res>>
             ELSE Reject

ShiftAssign ==
    /\ Running /\ mode = "O" /\ ~ShouldReduce(TopM, Tok) /\ Tok \in AsgOps
    /\ IF IsTargetAst(TopE.e) /\ TopE.lvl >= LLhs
       THEN /\ pst' = Append(pst, MAsg(Tok)) /\ mode' = "X" /\ pos' = pos + 1
            /\ UNCHANGED <<cs, ost, ph, st, res>>
       ELSE Reject

ShiftPostfix ==
    /\ Running /\ mode = "O" /\ ~ShouldReduce(TopM, Tok)
    /\ LET E == TopE IN
       \/ /\ Tok \in UpdOps
          /\ IF IsTargetAst(E.e) /\ E.lvl >= LLhs
             THEN /\ ost' = Append(PopE(1), Opd(Upd(Tok, FALSE, E.e), LUpdate)) /\ pos' = pos + 1
                  /\ UNCHANGED <<cs, pst, mode, ph, st, res>>
             ELSE Reject
       \/ /\ Tok = "."
          /\ IF E.lvl >= LLhs /\ TokAt(pos + 1) \in Names
             THEN /\ ost' = Append(PopE(1), ApplyDot(E, FALSE, TokAt(pos + 1))) /\ pos' = pos + 2
                  /\ UNCHANGED <<cs, pst, mode, ph, st, res>>
             ELSE Reject
       \/ /\ Tok = "["
          /\ IF E.lvl >= LLhs
             THEN /\ pst' = Append(pst, MIdx(FALSE)) /\ mode' = "X" /\ pos' = pos + 1
                  /\ UNCHANGED <<cs, ost, ph, st, res>>
             ELSE Reject
       \/ /\ Tok = "("
          /\ IF TopM.t = "new"
             THEN IF E.lvl = LMember
                  THEN /\ pst' = Append(PopM, MNArgs(0)) /\ mode' = "X" /\ pos' = pos + 1
                       /\ UNCHANGED <<cs, ost, ph, st, res>>
                  ELSE Reject
             ELSE IF E.lvl >= LLhs
                  THEN /\ pst' = Append(pst, MArgs(FALSE, 0)) /\ mode' = "X" /\ pos' = pos + 1
                       /\ UNCHANGED <<cs, ost, ph, st, res>>
                  ELSE Reject
       \/ /\ Tok = "?."
          /\ IF E.lvl >= LLhs /\ TopM.t # "new"
             THEN CASE TokAt(pos + 1) \in Names ->
                         /\ ost' = Append(PopE(1), ApplyDot(E, TRUE, TokAt(pos + 1))) /\ pos' = pos + 2
                         /\ UNCHANGED <<cs, pst, mode, ph, st, res>>
                    [] TokAt(pos + 1) = "[" ->
                         /\ pst' = Append(pst, MIdx(TRUE)) /\ mode' = "X" /\ pos' = pos + 2
                         /\ UNCHANGED <<cs, ost, ph, st, res>>
                    [] TokAt(pos + 1) = "(" ->
                         /\ pst' = Append(pst, MArgs(TRUE, 0)) /\ mode' = "X" /\ pos' = pos + 2
                         /\ UNCHANGED <<cs, ost, ph, st, res>>
                    [] OTHER -> Reject
             ELSE Reject

\* closing brackets and statement ends; everything above the nearest open marker has been reduced
Close ==
    /\ Running /\ mode = "O" /\ ~ShouldReduce(TopM, Tok)
    /\ LET E == TopE
           m == TopM IN
       \/ /\ Tok = ")"
          /\ CASE m.t = "paren" ->
                    /\ ost' = Append(PopE(1), Opd(E.e, LMember)) /\ pst' = PopM /\ pos' = pos + 1
                    /\ UNCHANGED <<cs, mode, ph, st, res>>
               [] m.t = "args" ->
                    LET n == m.n + 1
                        args == Exprs(SubSeq(ost, Len(ost) - n + 1, Len(ost)))
                        callee == ost[Len(ost) - n] IN
                    /\ ost' = Append(PopE(n + 1), ApplyCall(callee, m.s, args)) /\ pst' = PopM /\ pos' = pos + 1
                    /\ UNCHANGED <<cs, mode, ph, st, res>>
               [] m.t = "nargs" ->
                    LET n == m.n + 1
                        args == Exprs(SubSeq(ost, Len(ost) - n + 1, Len(ost)))
                        callee == ost[Len(ost) - n] IN
                    /\ ost' = Append(PopE(n + 1), Opd(New(callee.e, FALSE, args), LMember)) /\ pst' = PopM /\ pos' = pos + 1
                    /\ UNCHANGED <<cs, mode, ph, st, res>>
               [] m.t = "bot" /\ ph \in {"forinrhs", "forofrhs"} ->
                    IF TokAt(pos + 1) = ";" /\ pos + 1 = Len(toks)
                    THEN Finish(IF ph = "forinrhs" THEN SForIn(res, E.e) ELSE SForOf(res, E.e))
                    ELSE Reject
               [] OTHER -> Reject
       \/ /\ Tok = "]"
          /\ IF m.t = "idx"
             THEN /\ ost' = Append(PopE(2), ApplyIdx(ost[Len(ost) - 1], m.s, E.e)) /\ pst' = PopM /\ pos' = pos + 1
                  /\ UNCHANGED <<cs, mode, ph, st, res>>
             ELSE Reject
       \/ /\ Tok = ";"
          /\ CASE m.t = "ablock" ->
                    IF TokAt(pos + 1) = "}"
                    THEN /\ ost' = Append(PopE(1), Opd(Arrow(m.as, E.e), LAssign)) /\ pst' = PopM /\ pos' = pos + 2
                         /\ UNCHANGED <<cs, mode, ph, st, res>>
                    ELSE Other
               [] m.t = "bot" /\ ph = "expr" ->
                    IF pos = Len(toks) THEN Finish(SExpr(E.e)) ELSE Reject
               [] m.t = "bot" /\ ph \in {"forinit", "forvar"} ->
                    IF TokAt(pos + 1) = ";" /\ TokAt(pos + 2) = ")" /\ TokAt(pos + 3) = ";" /\ pos + 3 = Len(toks)
                    THEN Finish(IF ph = "forinit" THEN SForInit(E.e) ELSE SForVar(E.e))
                    ELSE Reject
               [] OTHER -> Reject
       \/ /\ Tok = "in" /\ ~IsBinTok("in")         \* the `in` of a for-in head
          /\ IF m.t = "bot" /\ ph = "forinit" /\ IsTargetAst(E.e) /\ E.lvl >= LLhs
             THEN /\ res' = E.e /\ ost' = <<>> /\ ph' = "forinrhs" /\ mode' = "X" /\ pos' = pos + 1
                  /\ UNCHANGED <<cs, pst, st>>
             ELSE Reject
       \/ /\ Tok = "of"
          /\ IF m.t = "bot" /\ ph = "forinit" /\ IsTargetAst(E.e) /\ E.lvl >= LLhs
                /\ TokAt(3) # "let" /\ ~(TokAt(3) = "async" /\ pos = 4)
             THEN /\ res' = E.e /\ ost' = <<>> /\ ph' = "forofrhs" /\ mode' = "X" /\ pos' = pos + 1
                  /\ UNCHANGED <<cs, pst, st>>
             ELSE Reject
       \/ /\ Tok \notin {")", "]", ";", "in", "of", "?", ":", ".", "[", "(", "?."}
          /\ Tok \notin BinOps /\ Tok \notin AsgOps /\ Tok \notin UpdOps
          /\ Reject

Terminated == st # "run" /\ UNCHANGED vars
Next == PrintAct \/ Start \/ ShiftOperand \/ Reduce \/ ShiftBinary \/ ShiftCond \/ ShiftAssign \/ ShiftPostfix \/ Close \/ Terminated
Spec == Init /\ [][Next]_vars

----------------------------------------------------------------------------
(* Invariants of the machine *)
TypeOK == /\ st \in {"run", "ok", "reject", "other"}
          /\ mode \in {"X", "O"}
          /\ pos \in 1..(Len(toks) + 1)
          /\ Len(pst) >= 1 /\ pst[1].t = "bot"
\* every marker finds its operands: the operand stack holds exactly what the markers wait for
StackDiscipline == st = "run" => Len(ost) = SumOwed(pst) + (IF mode = "O" THEN 1 ELSE 0)
\* operand levels are consistent with the AST (an operand is never better than parenthesised)
LevelsOK == \A i \in 1..Len(ost) : ost[i].lvl \in 1..LMember
Done == st # "run"
=============================================================================
