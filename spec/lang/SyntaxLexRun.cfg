CONSTANT LexCases <- LRunCases
INIT LInit
NEXT LNext
INVARIANT LTypeOK
INVARIANT BufDiscipline
INVARIANT LEmitRun
CHECK_DEADLOCK TRUE
