------------------------------- MODULE JsCore -------------------------------
(***************************************************************************)
(* Reference semantics of MiniJS (DESIGN.md Appendix C) as a small-step    *)
(* CEK abstract machine: control c, environment pointer env, continuation  *)
(* k (a stack of frames), environment records envs, object heap, print     *)
(* trace out.  One action per evaluation rule, named after (and citing)    *)
(* the ECMA-262 clause it transcribes.                                      *)
(*                                                                         *)
(* Programs are flattened JSON ASTs (tools/jscore.py: flatten): a node     *)
(* table per program, children referenced by index (0 = absent), node      *)
(* indices in source pre-order.  All programs of a batch are evaluated in  *)
(* one TLC run: pid is chosen in Init, every behaviour is one program's    *)
(* deterministic evaluation; when it is done an invariant prints the       *)
(* RESULT line the checks compare with the real engine.                    *)
(*                                                                         *)
(* A run that leaves the modelled domain (number outside Values.tla's      *)
(* subset, built-in without a native rule, resource bounds) ends in        *)
(* completion "OutOfModel": skipped and counted, never compared.           *)
(***************************************************************************)
EXTENDS Values, TLC, Json, IOUtils

CONSTANTS MaxSteps, MaxHeap, MaxEnvs, MaxKont

Programs == ndJsonDeserialize(IOEnv.PROGRAMS)
NProg == Len(Programs)
NP(p, i) == Programs[p].nodes[i]

VARIABLES pid,    \* index of the program under evaluation
          c,      \* control: [m |-> "ev"|"evref"|"ret"|"abr"|"op"|"call"|"done", ...]
          env,    \* current lexical environment (index into envs)
          k,      \* continuation: sequence of frames, top first
          envs,   \* environment records
          heap,   \* objects
          out,    \* print trace
          steps,  \* number of machine steps taken
          aux     \* [depth |-> number of active calls, nsym |-> symbols allocated, sd |-> symbol descriptions]
vars == <<pid, c, env, k, envs, heap, out, steps, aux>>

N(i) == NP(pid, i)
Strict == Programs[pid].strict

Range(s) == {s[i] : i \in DOMAIN s}
HasDup(s) == \E i, j \in DOMAIN s : i < j /\ s[i] = s[j]
Last(s) == s[Len(s)]
Front(s) == SubSeq(s, 1, Len(s) - 1)

FunctionKinds == {"function", "generator", "fn", "genfn", "arrow", "method"}
LoopKinds == {"while", "dowhile", "for", "forin", "forof"}

-----------------------------------------------------------------------------
(* Static semantics (ECMA-262 8.2 Scope Analysis): pure functions of the node table *)

RECURSIVE BoundNames(_, _), BoundNamesL(_, _)
\* 8.2.1 BoundNames of a binding pattern, as a sequence (duplicates kept)
BoundNames(p, n) ==
  IF n = 0 THEN <<>>
  ELSE LET nd == NP(p, n)
       IN CASE nd.t = "ident" -> <<nd.n>>
            [] nd.t = "arraypat" -> BoundNamesL(p, nd.elems)
            [] nd.t = "objectpat" -> BoundNamesL(p, nd.props) \o BoundNames(p, nd.rest)
            [] nd.t \in {"pelem", "prest", "pprop"} -> BoundNames(p, nd.target)
            [] OTHER -> <<>>
BoundNamesL(p, ids) ==
  IF ids = <<>> THEN <<>> ELSE BoundNames(p, Head(ids)) \o BoundNamesL(p, Tail(ids))

\* bound names of a var/let/const statement
DeclNames(p, n) ==
  LET ds == NP(p, n).decls IN BoundNamesL(p, [i \in 1..Len(ds) |-> NP(p, ds[i]).target])

RECURSIVE VarNames(_, _), VarNamesL(_, _)
\* 8.2.6 VarDeclaredNames of a statement (function declarations are handled by TopFunDecls)
VarNames(p, n) ==
  IF n = 0 THEN {}
  ELSE LET nd == NP(p, n)
       IN CASE nd.t = "var" -> Range(DeclNames(p, n))
            [] nd.t \in {"block", "case"} -> VarNamesL(p, nd.body)
            [] nd.t = "if" -> VarNames(p, nd.a) \cup VarNames(p, nd.b)
            [] nd.t \in {"while", "dowhile", "labeled"} -> VarNames(p, nd.s)
            [] nd.t = "for" -> (IF nd.init # 0 /\ NP(p, nd.init).t = "var" THEN VarNames(p, nd.init) ELSE {})
                                 \cup VarNames(p, nd.s)
            [] nd.t \in {"forin", "forof"} -> (IF nd.kind = "var" THEN Range(BoundNames(p, nd.target)) ELSE {})
                                 \cup VarNames(p, nd.s)
            [] nd.t = "try" -> VarNames(p, nd.b) \cup VarNames(p, nd.h) \cup VarNames(p, nd.f)
            [] nd.t = "switch" -> VarNamesL(p, nd.cases)
            [] OTHER -> {}
VarNamesL(p, ids) == UNION {VarNames(p, ids[i]) : i \in DOMAIN ids}

\* function declarations directly contained in a statement list, in source order
FunDeclsIn(p, ids) == SelectSeq(ids, LAMBDA i : NP(p, i).t \in {"function", "generator"})
FunNamesIn(p, ids) == {NP(p, i).name : i \in Range(FunDeclsIn(p, ids))}

RECURSIVE LexDeclsL(_, _)
\* 8.2.5 LexicallyScopedDeclarations of a statement list (let, const, class): <<[n, const]>>
LexDeclsL(p, ids) ==
  IF ids = <<>> THEN <<>>
  ELSE LET nd == NP(p, Head(ids))
           here == CASE nd.t \in {"let", "const"} ->
                          LET ns == DeclNames(p, Head(ids))
                          IN [i \in 1..Len(ns) |-> [n |-> ns[i], const |-> nd.t = "const"]]
                     [] nd.t = "class" -> <<[n |-> nd.name, const |-> FALSE]>>
                     [] OTHER -> <<>>
       IN here \o LexDeclsL(p, Tail(ids))
LexNamesL(p, ids) == LET ds == LexDeclsL(p, ids) IN [i \in 1..Len(ds) |-> ds[i].n]

RECURSIVE ConcatBodies(_, _)
ConcatBodies(p, ids) == IF ids = <<>> THEN <<>> ELSE NP(p, Head(ids)).body \o ConcatBodies(p, Tail(ids))
\* the statements of all clauses of a switch (one lexical scope, 14.12.2)
SwitchStmts(p, n) == ConcatBodies(p, NP(p, n).cases)

RECURSIVE PatHasExpr(_, _)
\* 8.3.? ContainsExpression of a binding pattern
PatHasExpr(p, n) ==
  IF n = 0 THEN FALSE
  ELSE LET nd == NP(p, n)
       IN CASE nd.t = "arraypat" -> \E i \in DOMAIN nd.elems : PatHasExpr(p, nd.elems[i])
            [] nd.t = "objectpat" -> (\E i \in DOMAIN nd.props : PatHasExpr(p, nd.props[i])) \/ PatHasExpr(p, nd.rest)
            [] nd.t = "pelem" -> nd.default # 0 \/ PatHasExpr(p, nd.target)
            [] nd.t = "pprop" -> nd.computed \/ nd.default # 0 \/ PatHasExpr(p, nd.target)
            [] nd.t = "prest" -> PatHasExpr(p, nd.target)
            [] OTHER -> FALSE

ParamTargets(p, f) == LET ps == NP(p, f).params IN [i \in 1..Len(ps) |-> NP(p, ps[i]).target]
ParamNames(p, f) == BoundNamesL(p, ParamTargets(p, f))
\* 15.1.3 IsSimpleParameterList
SimpleParams(p, f) ==
  \A i \in DOMAIN NP(p, f).params :
     LET pa == NP(p, NP(p, f).params[i]) IN pa.default = 0 /\ ~pa.rest /\ NP(p, pa.target).t = "ident"
\* 15.1.2 ContainsExpression of the formal parameters
HasParamExprs(p, f) ==
  \E i \in DOMAIN NP(p, f).params :
     LET pa == NP(p, NP(p, f).params[i]) IN pa.default # 0 \/ PatHasExpr(p, pa.target)

\* the statement list of a function body (an arrow with an expression body has none)
BodyOf(p, f) == NP(p, f).body

-----------------------------------------------------------------------------
(* Early errors (the subset the program generators can provoke).  EarlyErr[p] is TRUE iff   *)
(* program p must be rejected with a SyntaxError before any evaluation.                      *)

Ctx0 == [labels |-> {}, loopLabels |-> {}, pending |-> {}, inLoop |-> FALSE, inSwitch |-> FALSE, inFn |-> FALSE]

\* 8.2.4/14.2.1/16.1.1: duplicate lexical names, or a lexical name that is also var-declared
ScopeClash(lexNames, varNames) == HasDup(lexNames) \/ Range(lexNames) \cap varNames # {}

RECURSIVE EE(_, _, _), EEL(_, _, _)
EEL(p, ids, ctx) == \E i \in DOMAIN ids : ids[i] # 0 /\ EE(p, ids[i], ctx)
EE(p, n, ctx) ==
  LET nd == NP(p, n)
      inner == [ctx EXCEPT !.pending = {}]
  IN CASE nd.t = "program" ->
            \/ ScopeClash(LexNamesL(p, nd.body), VarNamesL(p, nd.body) \cup FunNamesIn(p, nd.body))
            \/ EEL(p, nd.body, ctx)
       [] nd.t \in FunctionKinds ->
            \* 15.2.1, 15.3.1: duplicate parameters; parameter/lexical clash; body scope rules
            \/ (HasDup(ParamNames(p, n)) /\ (Programs[p].strict \/ ~SimpleParams(p, n) \/ nd.t \in {"arrow", "method"}))
            \/ Range(ParamNames(p, n)) \cap Range(LexNamesL(p, nd.body)) # {}
            \/ ScopeClash(LexNamesL(p, nd.body), VarNamesL(p, nd.body) \cup FunNamesIn(p, nd.body))
            \/ EEL(p, nd.ch, [Ctx0 EXCEPT !.inFn = TRUE])
       [] nd.t = "block" ->
            \/ ScopeClash(LexNamesL(p, nd.body) \o [i \in 1..Len(FunDeclsIn(p, nd.body)) |-> NP(p, FunDeclsIn(p, nd.body)[i]).name],
                          VarNamesL(p, nd.body))
            \/ EEL(p, nd.body, inner)
       [] nd.t = "switch" ->
            \/ ScopeClash(LexNamesL(p, SwitchStmts(p, n)), VarNamesL(p, nd.cases))
            \/ EEL(p, nd.ch, [inner EXCEPT !.inSwitch = TRUE])
       [] nd.t = "labeled" ->
            \/ nd.l \in ctx.labels
            \/ EE(p, nd.s, [ctx EXCEPT !.labels = @ \cup {nd.l}, !.pending = @ \cup {nd.l}])
       [] nd.t \in {"while", "dowhile"} ->
            EEL(p, nd.ch, [inner EXCEPT !.inLoop = TRUE, !.loopLabels = @ \cup ctx.pending])
       [] nd.t = "for" ->
            \/ (nd.init # 0 /\ NP(p, nd.init).t \in {"let", "const"}
                  /\ ScopeClash(DeclNames(p, nd.init), VarNames(p, nd.s)))
            \/ EEL(p, nd.ch, [inner EXCEPT !.inLoop = TRUE, !.loopLabels = @ \cup ctx.pending])
       [] nd.t \in {"forin", "forof"} ->
            \/ (nd.kind \in {"let", "const"} /\ ScopeClash(BoundNames(p, nd.target), VarNames(p, nd.s)))
            \/ EEL(p, nd.ch, [inner EXCEPT !.inLoop = TRUE, !.loopLabels = @ \cup ctx.pending])
       [] nd.t = "try" ->
            \* 14.15.1: catch parameter duplicates / clash with the catch block's lexical names
            \/ (nd.p # 0 /\ (HasDup(BoundNames(p, nd.p))
                              \/ Range(BoundNames(p, nd.p)) \cap Range(LexNamesL(p, NP(p, nd.h).body)) # {}))
            \/ EEL(p, nd.ch, inner)
       [] nd.t \in {"let", "const"} ->
            \/ (nd.t = "const" /\ \E i \in DOMAIN nd.decls : NP(p, nd.decls[i]).init = 0)
            \/ "let" \in Range(DeclNames(p, n))
            \/ EEL(p, nd.ch, inner)
       [] nd.t = "break" -> IF nd.l = "" THEN ~(ctx.inLoop \/ ctx.inSwitch) ELSE nd.l \notin ctx.labels
       [] nd.t = "continue" -> IF nd.l = "" THEN ~ctx.inLoop ELSE nd.l \notin ctx.loopLabels
       [] nd.t = "return" -> ~ctx.inFn \/ EEL(p, nd.ch, inner)
       [] OTHER -> EEL(p, nd.ch, inner)

EarlyErr == [p \in 1..NProg |-> EE(p, 1, Ctx0)]

\* Statically detected features outside the modelled fragment: Annex B.3.3 function declarations in
\* blocks of sloppy code (their var-hoisting semantics is not modelled).
RECURSIVE UsesAnnexB(_, _, _)
UsesAnnexB(p, n, top) ==
  LET nd == NP(p, n)
  IN \/ (nd.t \in {"function", "generator"} /\ ~top)
     \/ \E i \in DOMAIN nd.ch :
           nd.ch[i] # 0 /\ UsesAnnexB(p, nd.ch[i], nd.t = "program" \/ (nd.t \in FunctionKinds /\ i > Len(nd.params)))
StaticOOM == [p \in 1..NProg |-> ~Programs[p].strict /\ UsesAnnexB(p, 1, TRUE)]

-----------------------------------------------------------------------------
(* Objects (ECMA-262 6.1.7, 10.1).  A property is                                           *)
(*   [k |-> key, acc |-> is accessor, v, g, s, w, e, c]                                       *)
(* keys are code-unit sequences; the symbol with id i is the key <<-1, i>>.  Own properties   *)
(* are kept in creation order (props); array elements live in elems (Hole = absent).          *)
(* A data property whose value is OOM stands for "present in a real engine but not modelled": *)
(* reading it ends the run in OutOfModel.                                                     *)

SymKey(i) == <<-1, i>>
IsSymKey(key) == Len(key) = 2 /\ key[1] = -1
KeyOfPrim(v) == IF v.t = "sym" THEN SymKey(v.id) ELSE PrimToStr(v)      \* ToPropertyKey of a primitive
KeyToValue(key) == IF IsSymKey(key) THEN Sym(key[2]) ELSE Str(key)
\* no built-in prototype has a one-unit or all-digit property name
PlainKey(key) == IsSymKey(key) \/ Len(key) <= 1 \/ AllDigits(key)

DataProp(key, v) == [k |-> key, acc |-> FALSE, v |-> v, g |-> Undef, s |-> Undef, w |-> TRUE, e |-> TRUE, c |-> TRUE]
HiddenProp(key, v) == [DataProp(key, v) EXCEPT !.e = FALSE]
AccProp(key, g, s) == [k |-> key, acc |-> TRUE, v |-> Undef, g |-> g, s |-> s, w |-> FALSE, e |-> TRUE, c |-> TRUE]

PropIdx(props, key) ==
  LET I == {i \in DOMAIN props : props[i].k = key} IN IF I = {} THEN 0 ELSE CHOOSE i \in I : TRUE

\* intrinsic objects: fixed addresses in the initial heap
A_ObjectProto == 1
A_FunctionProto == 2
A_ArrayProto == 3
A_ErrorProto == 4
A_TypeErrorProto == 5
A_ReferenceErrorProto == 6
A_RangeErrorProto == 7
A_SyntaxErrorProto == 8
A_GeneratorProto == 9
A_PrimProto == 10        \* stands for String/Number/Boolean/Symbol.prototype (no modelled members)
A_Global == 11           \* the global object: only its identity is modelled
A_Error == 12
A_TypeError == 13
A_ReferenceError == 14
A_RangeError == 15
A_SyntaxError == 16
A_ObjValueOf == 17
A_ObjToString == 18
A_Object == 19
A_Array == 20
A_Symbol == 21
A_ArrayIsArray == 22
A_ObjectKeys == 23
A_ArrayIteratorProto == 24
A_ArrValues == 25
A_ArrIterNext == 26
A_GenNext == 27
A_GenReturn == 28
A_GenThrow == 29
A_String == 30
A_Number == 31
A_Boolean == 32
A_ArrPush == 33
A_ObjectCreate == 34
A_ObjectGetProto == 35
A_ObjectSetProto == 36
A_ObjectDefProp == 37
A_ObjectFreeze == 38
A_FnCall == 39
A_FnApply == 40
A_FnBind == 41
A_ArrJoin == 42
A_ArrToString == 43
A_ErrToString == 44
A_HasOwn == 45
NIntrinsics == 45

ErrorProtoOf(cls) ==
  CASE cls = "Error" -> A_ErrorProto
    [] cls = "TypeError" -> A_TypeErrorProto
    [] cls = "ReferenceError" -> A_ReferenceErrorProto
    [] cls = "RangeError" -> A_RangeErrorProto
    [] cls = "SyntaxError" -> A_SyntaxErrorProto
ErrorProtoName(a) ==
  CASE a = A_ErrorProto -> "Error"
    [] a = A_TypeErrorProto -> "TypeError"
    [] a = A_ReferenceErrorProto -> "ReferenceError"
    [] a = A_RangeErrorProto -> "RangeError"
    [] a = A_SyntaxErrorProto -> "SyntaxError"
    [] OTHER -> ""

OrdObj(proto, props) == [cls |-> "ord", proto |-> proto, props |-> props, ext |-> TRUE, intr |-> FALSE]
IntrObj(proto, props) == [OrdObj(proto, props) EXCEPT !.intr = TRUE]
ArrObj(elems) == [cls |-> "arr", proto |-> A_ArrayProto, props |-> <<>>, ext |-> TRUE, intr |-> FALSE, elems |-> elems]
\* a built-in function with a native rule (CallNative); ctor: usable with new
NatObj(nm, ctor, props) == [cls |-> "nat", proto |-> A_FunctionProto, props |-> props, ext |-> TRUE, intr |-> TRUE,
                            nm |-> nm, ctor |-> ctor]
\* an Error instance (20.5); the message of engine-created errors is not modelled (OOM)
ErrObj(cls, msg) == [cls |-> "err", proto |-> ErrorProtoOf(cls), props |-> <<HiddenProp(S_message, msg)>>,
                     ext |-> TRUE, intr |-> FALSE]

S_isArray == <<105,115,65,114,114,97,121>>
S_keys == <<107,101,121,115>>
S_values == <<118,97,108,117,101,115>>
S_iterator == <<105,116,101,114,97,116,111,114>>
S_toPrimitive == <<116,111,80,114,105,109,105,116,105,118,101>>
S_hasInstance == <<104,97,115,73,110,115,116,97,110,99,101>>
S_push == <<112,117,115,104>>
S_create == <<99,114,101,97,116,101>>
S_getPrototypeOf == <<103,101,116,80,114,111,116,111,116,121,112,101,79,102>>
S_setPrototypeOf == <<115,101,116,80,114,111,116,111,116,121,112,101,79,102>>
S_defineProperty == <<100,101,102,105,110,101,80,114,111,112,101,114,116,121>>
S_freeze == <<102,114,101,101,122,101>>
S_call == <<99,97,108,108>>
S_apply == <<97,112,112,108,121>>
S_bind == <<98,105,110,100>>
S_join == <<106,111,105,110>>
S_hasOwnProperty == <<104,97,115,79,119,110,80,114,111,112,101,114,116,121>>

ErrCtor(nm, protoAddr) == NatObj(nm, TRUE, <<[HiddenProp(S_prototype, Obj(protoAddr)) EXCEPT !.w = FALSE, !.c = FALSE]>>)
ErrProto(parent, ctorAddr) ==
  IntrObj(parent, <<HiddenProp(S_constructor, Obj(ctorAddr)), HiddenProp(S_message, OOM), HiddenProp(S_name, OOM)>>)
Native(nm) == NatObj(nm, FALSE, <<>>)

InitHeap == <<
  (* 1 *) IntrObj(0, <<HiddenProp(S_constructor, Obj(A_Object)), HiddenProp(S_valueOf, Obj(A_ObjValueOf)),
                       HiddenProp(S_toString, Obj(A_ObjToString)), HiddenProp(S_hasOwnProperty, Obj(A_HasOwn))>>),
  (* 2 *) NatObj("FunctionPrototype", FALSE, <<HiddenProp(SymKey(3), OOM), HiddenProp(S_call, Obj(A_FnCall)),
                       HiddenProp(S_apply, Obj(A_FnApply)), HiddenProp(S_bind, Obj(A_FnBind))>>),
  (* 3 *) [ArrObj(<<>>) EXCEPT !.proto = A_ObjectProto, !.intr = TRUE,
              !.props = <<HiddenProp(S_constructor, Obj(A_Array)), HiddenProp(S_values, Obj(A_ArrValues)),
                          HiddenProp(SymKey(1), Obj(A_ArrValues)), HiddenProp(S_push, Obj(A_ArrPush)),
                          HiddenProp(S_join, Obj(A_ArrJoin)), HiddenProp(S_toString, Obj(A_ArrToString))>>],
  (* 4 *) [ErrProto(A_ObjectProto, A_Error) EXCEPT !.props = @ \o <<HiddenProp(S_toString, Obj(A_ErrToString))>>],
  (* 5 *) ErrProto(A_ErrorProto, A_TypeError),
  (* 6 *) ErrProto(A_ErrorProto, A_ReferenceError),
  (* 7 *) ErrProto(A_ErrorProto, A_RangeError),
  (* 8 *) ErrProto(A_ErrorProto, A_SyntaxError),
  (* 9 *) IntrObj(A_ObjectProto, <<HiddenProp(S_next, Obj(A_GenNext)), HiddenProp(S_return, Obj(A_GenReturn)),
                       HiddenProp(S_throw, Obj(A_GenThrow)), HiddenProp(SymKey(1), OOM)>>),
  (* 10 *) IntrObj(A_ObjectProto, <<HiddenProp(SymKey(1), OOM)>>),
  (* 11 *) [IntrObj(A_ObjectProto, <<>>) EXCEPT !.cls = "glob"],
  (* 12 *) ErrCtor("Error", A_ErrorProto),
  (* 13 *) [ErrCtor("TypeError", A_TypeErrorProto) EXCEPT !.proto = A_Error],
  (* 14 *) [ErrCtor("ReferenceError", A_ReferenceErrorProto) EXCEPT !.proto = A_Error],
  (* 15 *) [ErrCtor("RangeError", A_RangeErrorProto) EXCEPT !.proto = A_Error],
  (* 16 *) [ErrCtor("SyntaxError", A_SyntaxErrorProto) EXCEPT !.proto = A_Error],
  (* 17 *) Native("Object.prototype.valueOf"),
  (* 18 *) Native("Object.prototype.toString"),
  (* 19 *) NatObj("Object", TRUE, <<[HiddenProp(S_prototype, Obj(A_ObjectProto)) EXCEPT !.w = FALSE, !.c = FALSE],
                       HiddenProp(S_keys, Obj(A_ObjectKeys)), HiddenProp(S_create, Obj(A_ObjectCreate)),
                       HiddenProp(S_getPrototypeOf, Obj(A_ObjectGetProto)), HiddenProp(S_setPrototypeOf, Obj(A_ObjectSetProto)),
                       HiddenProp(S_defineProperty, Obj(A_ObjectDefProp)), HiddenProp(S_freeze, Obj(A_ObjectFreeze))>>),
  (* 20 *) NatObj("Array", TRUE, <<[HiddenProp(S_prototype, Obj(A_ArrayProto)) EXCEPT !.w = FALSE, !.c = FALSE],
                       HiddenProp(S_isArray, Obj(A_ArrayIsArray))>>),
  (* 21 *) NatObj("Symbol", FALSE, <<[HiddenProp(S_iterator, SymIterator) EXCEPT !.w = FALSE, !.c = FALSE],
                       [HiddenProp(S_toPrimitive, SymToPrimitive) EXCEPT !.w = FALSE, !.c = FALSE],
                       [HiddenProp(S_hasInstance, SymHasInstance) EXCEPT !.w = FALSE, !.c = FALSE]>>),
  (* 22 *) Native("Array.isArray"),
  (* 23 *) Native("Object.keys"),
  (* 24 *) IntrObj(A_ObjectProto, <<HiddenProp(S_next, Obj(A_ArrIterNext)), HiddenProp(SymKey(1), OOM)>>),
  (* 25 *) Native("Array.prototype.values"),
  (* 26 *) Native("ArrayIterator.next"),
  (* 27 *) Native("Generator.prototype.next"),
  (* 28 *) Native("Generator.prototype.return"),
  (* 29 *) Native("Generator.prototype.throw"),
  (* 30 *) NatObj("String", TRUE, <<>>),
  (* 31 *) NatObj("Number", TRUE, <<>>),
  (* 32 *) NatObj("Boolean", TRUE, <<>>),
  (* 33 *) Native("Array.prototype.push"),
  (* 34 *) Native("Object.create"),
  (* 35 *) Native("Object.getPrototypeOf"),
  (* 36 *) Native("Object.setPrototypeOf"),
  (* 37 *) Native("Object.defineProperty"),
  (* 38 *) Native("Object.freeze"),
  (* 39 *) Native("Function.prototype.call"),
  (* 40 *) Native("Function.prototype.apply"),
  (* 41 *) Native("Function.prototype.bind"),
  (* 42 *) Native("Array.prototype.join"),
  (* 43 *) Native("Array.prototype.toString"),
  (* 44 *) Native("Error.prototype.toString"),
  (* 45 *) Native("Object.prototype.hasOwnProperty")
>>

IsCallableObj(h, a) == h[a].cls \in {"fun", "nat", "bound"}
IsCallable(h, v) == v.t = "obj" /\ IsCallableObj(h, v.a)
IsConstructor(h, v) ==
  /\ v.t = "obj"
  /\ \/ (h[v.a].cls = "fun" /\ h[v.a].fk \in {"normal", "classbase", "classderived"})
     \/ (h[v.a].cls = "nat" /\ h[v.a].ctor)
     \/ (h[v.a].cls = "bound" /\ h[v.a].tctor)

\* 10.1.5 [[GetOwnProperty]] incl. Array exotic objects (10.4.2): <<>> or <<property>>
OwnDesc(o, key) ==
  IF o.cls = "arr" /\ key = S_length
  THEN <<[DataProp(key, Num(Len(o.elems))) EXCEPT !.e = FALSE, !.c = FALSE]>>
  ELSE IF o.cls = "arr" /\ ArrayIndexOf(key) >= 0
  THEN LET i == ArrayIndexOf(key)
       IN IF i < Len(o.elems) /\ o.elems[i + 1].t # "hole" THEN <<DataProp(key, o.elems[i + 1])>> ELSE <<>>
  ELSE LET i == PropIdx(o.props, key) IN IF i = 0 THEN <<>> ELSE <<o.props[i]>>

RECURSIVE FindProp(_, _, _)
\* the property found by walking the prototype chain (10.1.8 OrdinaryGet / 10.1.7 HasProperty)
FindProp(h, a, key) ==
  IF a = 0 THEN <<>>
  ELSE LET d == OwnDesc(h[a], key)
       IN IF Len(d) > 0 THEN d
          ELSE IF h[a].intr /\ ~PlainKey(key) THEN <<DataProp(key, OOM)>>
          ELSE FindProp(h, h[a].proto, key)

\* where property lookup starts for a base value (ToObject of a primitive base, 6.2.5.5 GetValue)
LookupStart(v) == IF v.t = "obj" THEN v.a ELSE A_PrimProto

\* own property of a String value (10.4.3): length and index properties
StrOwn(s, key) ==
  IF key = S_length THEN <<[DataProp(key, Num(Len(s))) EXCEPT !.w = FALSE, !.e = FALSE, !.c = FALSE]>>
  ELSE LET i == ArrayIndexOf(key)
       IN IF i >= 0 /\ i < Len(s) THEN <<[DataProp(key, Str(<<s[i + 1]>>)) EXCEPT !.w = FALSE, !.c = FALSE]>> ELSE <<>>

\* lookup of key on a base value (object or primitive)
FindOnValue(h, v, key) ==
  IF v.t = "str" /\ Len(StrOwn(v.s, key)) > 0 THEN StrOwn(v.s, key) ELSE FindProp(h, LookupStart(v), key)

Holes(n) == [i \in 1..n |-> Hole]
MaxArrayLen == 40

\* writes a data value into an existing or new own property of object o (CreateDataProperty /
\* the data branch of OrdinarySet + ArraySetLength); result: the new object, or "oom"-classed object
WriteOwn(o, key, v) ==
  IF o.cls = "arr" /\ key = S_length
  THEN IF v.t = "num" /\ v.k = "int" /\ v.n >= 0 /\ v.n <= MaxArrayLen
       THEN [o EXCEPT !.elems = IF v.n <= Len(o.elems) THEN SubSeq(o.elems, 1, v.n)
                                 ELSE o.elems \o Holes(v.n - Len(o.elems))]
       ELSE [o EXCEPT !.cls = "oom"]
  ELSE IF o.cls = "arr" /\ ArrayIndexOf(key) >= 0
  THEN LET i == ArrayIndexOf(key)
       IN IF i >= MaxArrayLen THEN [o EXCEPT !.cls = "oom"]
          ELSE IF i < Len(o.elems) THEN [o EXCEPT !.elems[i + 1] = v]
          ELSE [o EXCEPT !.elems = (o.elems \o Holes(i - Len(o.elems))) \o <<v>>]
  ELSE LET i == PropIdx(o.props, key)
       IN IF i = 0 THEN [o EXCEPT !.props = Append(o.props, DataProp(key, v))]
          ELSE [o EXCEPT !.props[i].v = v]

\* 10.1.9.2 OrdinarySetWithOwnDescriptor with receiver rcv (a value).
\* Result [r |-> "ok" | "fail" | "setter" | "oom", h |-> heap, f |-> setter]
SetProp(h, base, key, v, rcv) ==
  LET d == FindOnValue(h, base, key)
      Res(r, hh, f) == [r |-> r, h |-> hh, f |-> f]
  IN IF Len(d) > 0 /\ d[1].acc
     THEN IF d[1].s.t = "undef" THEN Res("fail", h, Undef) ELSE Res("setter", h, d[1].s)
     ELSE IF Len(d) > 0 /\ d[1].v.t = "oom" THEN Res("oom", h, Undef)
     ELSE IF Len(d) > 0 /\ ~d[1].w THEN Res("fail", h, Undef)
     ELSE IF rcv.t # "obj" THEN Res("fail", h, Undef)
     ELSE LET ro == h[rcv.a]
              od == OwnDesc(ro, key)
          IN IF ro.cls = "glob" THEN Res("oom", h, Undef)
             ELSE IF Len(od) > 0 /\ (od[1].acc \/ ~od[1].w) THEN Res("fail", h, Undef)
             ELSE IF Len(od) = 0 /\ ~ro.ext THEN Res("fail", h, Undef)
             ELSE LET no == WriteOwn(ro, key, v)
                  IN IF no.cls = "oom" THEN Res("oom", h, Undef)
                     ELSE Res("ok", [h EXCEPT ![rcv.a] = no], Undef)

\* 10.1.10 OrdinaryDelete (+ array elements): [ok |-> BOOLEAN, o |-> object]
DeleteOwn(o, key) ==
  IF o.cls = "arr" /\ key = S_length THEN [ok |-> FALSE, o |-> o]
  ELSE IF o.cls = "arr" /\ ArrayIndexOf(key) >= 0
  THEN LET i == ArrayIndexOf(key)
       IN IF i < Len(o.elems) THEN [ok |-> TRUE, o |-> [o EXCEPT !.elems[i + 1] = Hole]] ELSE [ok |-> TRUE, o |-> o]
  ELSE LET i == PropIdx(o.props, key)
       IN IF i = 0 THEN [ok |-> TRUE, o |-> o]
          ELSE IF ~o.props[i].c THEN [ok |-> FALSE, o |-> o]
          ELSE [ok |-> TRUE, o |-> [o EXCEPT !.props = SubSeq(o.props, 1, i - 1) \o SubSeq(o.props, i + 1, Len(o.props))]]

RECURSIVE SortedIdx(_)
SortedIdx(S) == IF S = {} THEN <<>> ELSE LET m == CHOOSE x \in S : \A y \in S : x <= y IN <<m>> \o SortedIdx(S \ {m})
\* 10.1.11 OrdinaryOwnPropertyKeys: integer indices ascending, strings then symbols in creation order
OwnKeys(o) ==
  LET ps == o.props
      idxs == SortedIdx({ArrayIndexOf(ps[i].k) : i \in {j \in DOMAIN ps : ArrayIndexOf(ps[j].k) >= 0}})
      ik == [i \in 1..Len(idxs) |-> NumToStr(Num(idxs[i]))]
      sk == SelectSeq([i \in 1..Len(ps) |-> ps[i].k], LAMBDA x : ~IsSymKey(x) /\ ArrayIndexOf(x) < 0)
      yk == SelectSeq([i \in 1..Len(ps) |-> ps[i].k], LAMBDA x : IsSymKey(x))
      ak == IF o.cls = "arr"
            THEN LET present == SelectSeq([i \in 1..Len(o.elems) |-> i], LAMBDA i : o.elems[i].t # "hole")
                 IN [i \in 1..Len(present) |-> NumToStr(Num(present[i] - 1))] \o <<S_length>>
            ELSE <<>>
  IN ak \o ik \o sk \o yk
\* EnumerableOwnProperties(O, key) for data-only inspection (string keys)
EnumOwnStrKeys(o) ==
  SelectSeq(OwnKeys(o), LAMBDA x : ~IsSymKey(x) /\ OwnDesc(o, x)[1].e)

RECURSIVE ProtoChainHas(_, _, _)
ProtoChainHas(h, a, target) == IF a = 0 THEN FALSE ELSE IF a = target THEN TRUE ELSE ProtoChainHas(h, h[a].proto, target)

RECURSIVE ErrClassFrom(_, _, _)
ErrClassFrom(h, a, fuel) ==
  IF a = 0 \/ fuel = 0 THEN ""
  ELSE IF ErrorProtoName(a) # "" THEN ErrorProtoName(a) ELSE ErrClassFrom(h, h[a].proto, fuel - 1)

\* The structural rendering used by the host print function and for completions
\* (mirrors harness/crates/hcommon render(): never runs JS code)
Render(h, sd, v) ==
  CASE v.t = "undef" -> [r |-> "u"]
    [] v.t = "null" -> [r |-> "null"]
    [] v.t = "bool" -> [r |-> "b", b |-> v.b]
    [] v.t = "num" -> [r |-> "n", k |-> v.k, n |-> v.n]
    [] v.t = "str" -> [r |-> "s", s |-> v.s]
    [] v.t = "sym" -> [r |-> "y", s |-> sd[v.id]]
    [] v.t = "obj" -> IF IsCallableObj(h, v.a) THEN [r |-> "o", c |-> "Function"]
                      ELSE IF h[v.a].cls = "arr" THEN [r |-> "o", c |-> "Array", n |-> Len(h[v.a].elems)]
                      ELSE LET ec == ErrClassFrom(h, h[v.a].proto, 17)
                           IN IF ec # "" THEN [r |-> "o", c |-> "Error", e |-> ec] ELSE [r |-> "o", c |-> "Object"]
    [] OTHER -> [r |-> "?", c |-> v.t]

\* typeof (13.5.3)
TypeOf(h, v) ==
  CASE v.t = "undef" -> S_undefined
    [] v.t = "null" -> S_object
    [] v.t = "bool" -> S_boolean
    [] v.t = "num" -> S_number
    [] v.t = "str" -> S_string
    [] v.t = "sym" -> S_symbol
    [] v.t = "obj" -> IF IsCallableObj(h, v.a) THEN S_function ELSE S_object

\* 20.2.? function objects.  fk: "normal" | "arrow" | "method" | "gen" | "classbase" | "classderived"
\* own "length" and "name" exist but are not modelled (OOM)
FunObj(node, e, home, fk, hasProto, fa) ==
  [cls |-> "fun", proto |-> A_FunctionProto, ext |-> TRUE, intr |-> FALSE,
   props |-> <<[HiddenProp(S_length, OOM) EXCEPT !.w = FALSE], [HiddenProp(S_name, OOM) EXCEPT !.w = FALSE]>>
             \o (IF hasProto THEN <<[HiddenProp(S_prototype, Obj(fa + 1)) EXCEPT !.c = FALSE]>> ELSE <<>>),
   node |-> node, env |-> e, home |-> home, fk |-> fk, fields |-> <<>>]
\* 10.2.3 OrdinaryFunctionCreate + 10.2.5 MakeConstructor: appends the function (at Len(h)+1) and, for
\* constructors and generators, its prototype object (at Len(h)+2)
AllocFun(h, node, e, home, fk) ==
  LET fa == Len(h) + 1
  IN IF fk = "normal" THEN h \o <<FunObj(node, e, home, fk, TRUE, fa), OrdObj(A_ObjectProto, <<HiddenProp(S_constructor, Obj(fa))>>)>>
     ELSE IF fk = "gen" THEN h \o <<FunObj(node, e, home, fk, TRUE, fa), OrdObj(A_GeneratorProto, <<>>)>>
     ELSE Append(h, FunObj(node, e, home, fk, FALSE, fa))
FunKindOfNode(t) == CASE t \in {"function", "fn"} -> "normal"
                      [] t \in {"generator", "genfn"} -> "gen"
                      [] t = "arrow" -> "arrow"
                      [] OTHER -> "method"

-----------------------------------------------------------------------------
(* Environment Records (ECMA-262 9.1).  A binding is [v, init, imm]: imm = "no" (mutable),   *)
(* "const" (assignment throws a TypeError), "soft" (assignment throws only in strict code:   *)
(* the name of a named function expression, non-writable globals).  An uninitialised binding *)
(* holds the poison value TDZ, which must never flow anywhere (invariant NoTdzLeak).          *)
(* fe = <<>> for a declarative record, <<[ts, this, fobj, nt]>> for a function record        *)
(* (ts: "lexical" | "init" | "uninit").                                                       *)

TDZ == [t |-> "tdz"]
Binding(v, init, imm) == [v |-> v, init |-> init, imm |-> imm]
Uninit(imm) == Binding(TDZ, FALSE, imm)
NoBindings == [x \in {} |-> 0]
DeclEnv(par, b) == [par |-> par, b |-> b, fe |-> <<>>]
FunEnv(par, b, ts, this, fobj, nt) == [par |-> par, b |-> b, fe |-> <<[ts |-> ts, this |-> this, fobj |-> fobj, nt |-> nt]>>]

RECURSIVE LookupEnv(_, _, _)
\* 9.1.2.1 GetIdentifierReference: the record holding name, 0 if unresolvable
LookupEnv(es, e, name) ==
  IF e = 0 THEN 0 ELSE IF name \in DOMAIN es[e].b THEN e ELSE LookupEnv(es, es[e].par, name)

RECURSIVE ThisEnvOf(_, _)
\* 9.4.3 GetThisEnvironment: nearest function record with a this binding, 0 = the global record
ThisEnvOf(es, e) ==
  IF e = 0 THEN 0
  ELSE IF Len(es[e].fe) > 0 /\ es[e].fe[1].ts # "lexical" THEN e ELSE ThisEnvOf(es, es[e].par)

\* adds a binding rec for every name of S not yet bound in b
WithNames(b, S, rec) == b @@ [x \in (S \ DOMAIN b) |-> rec]

GlobalBindings ==
  LET ro(v) == Binding(v, TRUE, "soft")
      rw(v) == Binding(v, TRUE, "no")
  IN [x \in {"undefined", "NaN", "Infinity", "Error", "TypeError", "ReferenceError", "RangeError", "SyntaxError",
             "Object", "Array", "Symbol", "String", "Number", "Boolean", "globalThis"} |->
        CASE x = "undefined" -> ro(Undef)
          [] x = "NaN" -> ro(NaN)
          [] x = "Infinity" -> ro(PInf)
          [] x = "Error" -> rw(Obj(A_Error))
          [] x = "TypeError" -> rw(Obj(A_TypeError))
          [] x = "ReferenceError" -> rw(Obj(A_ReferenceError))
          [] x = "RangeError" -> rw(Obj(A_RangeError))
          [] x = "SyntaxError" -> rw(Obj(A_SyntaxError))
          [] x = "Object" -> rw(Obj(A_Object))
          [] x = "Array" -> rw(Obj(A_Array))
          [] x = "Symbol" -> rw(Obj(A_Symbol))
          [] x = "String" -> rw(Obj(A_String))
          [] x = "Number" -> rw(Obj(A_Number))
          [] x = "Boolean" -> rw(Obj(A_Boolean))
          [] x = "globalThis" -> rw(Obj(A_Global))]

-----------------------------------------------------------------------------
(* The machine *)

Ev(n) == [m |-> "ev", n |-> n]
EvRef(n) == [m |-> "evref", n |-> n]
Ret(v) == [m |-> "ret", v |-> v]
Abr(kind, v, l) == [m |-> "abr", kind |-> kind, v |-> v, l |-> l]
CallC(f, this, args, nt) == [m |-> "call", f |-> f, this |-> this, args |-> args, nt |-> nt]
Done(comp, v) == [m |-> "done", comp |-> comp, v |-> v]

\* Reference Records (6.2.5): an identifier reference or a property reference whose name may still be
\* an unconverted value (converted by GetValue / PutValue, 6.2.5.5 step 3.c)
IdRef(name) == [t |-> "ref", rk |-> "id", name |-> name, base |-> Undef, kv |-> Undef, this |-> Undef]
PropRef(base, kv) == [t |-> "ref", rk |-> "prop", name |-> "", base |-> base, kv |-> kv, this |-> base]
SuperRef(base, kv, this) == [t |-> "ref", rk |-> "prop", name |-> "", base |-> base, kv |-> kv, this |-> this]

top == k[1]
rest == Tail(k)
Push(f) == <<f>> \o k
Push2(f, g) == <<f, g>> \o k

\* UpdateEmpty (6.2.4.3)
UpdateEmpty(v, d) == IF v.t = "empty" THEN d ELSE v

Go(cc, kk) == c' = cc /\ k' = kk /\ UNCHANGED <<env, envs, heap, out, aux>>
GoE(cc, kk, ee) == c' = cc /\ k' = kk /\ env' = ee /\ UNCHANGED <<envs, heap, out, aux>>
GoH(cc, kk, hh) == c' = cc /\ k' = kk /\ heap' = hh /\ UNCHANGED <<env, envs, out, aux>>
\* throw a fresh native error of class cls (its message is not modelled)
ThrowErr(cls, kk) == GoH(Abr("throw", Obj(Len(heap) + 1), ""), kk, Append(heap, ErrObj(cls, OOM)))
OutOfModel(why) == c' = Done("OutOfModel", [why |-> why]) /\ UNCHANGED <<env, k, envs, heap, out, aux>>

Init ==
  /\ pid \in 1..NProg
  /\ c = IF EarlyErr[pid] THEN Done("early", [cls |-> "SyntaxError"])
         ELSE IF StaticOOM[pid] THEN Done("OutOfModel", [why |-> "annexB"])
         ELSE Ev(1)
  /\ env = 1
  /\ k = <<>>
  /\ envs = <<DeclEnv(0, GlobalBindings)>>
  /\ heap = InitHeap
  /\ out = <<>>
  /\ steps = 0
  /\ aux = [depth |-> 0, nsym |-> NumWellKnownSyms,
            sd |-> <<S_SymbolIterator, S_SymbolToPrimitive, S_SymbolHasInstance>>]

-----------------------------------------------------------------------------
(* Declaration instantiation *)

RECURSIVE InstFuns(_, _, _, _)
\* InstantiateFunctionObject for the declarations ids into environment e: [es, h]
InstFuns(ids, e, es, h) ==
  IF ids = <<>> THEN [es |-> es, h |-> h]
  ELSE LET nd == N(Head(ids))
           h2 == AllocFun(h, Head(ids), e, 0, FunKindOfNode(nd.t))
           es2 == [es EXCEPT ![e].b = (nd.name :> Binding(Obj(Len(h) + 1), TRUE, "no")) @@ @]
       IN InstFuns(Tail(ids), e, es2, h2)

LexBindings(decls) == [x \in {decls[i].n : i \in DOMAIN decls} |->
                         Uninit(IF \E i \in DOMAIN decls : decls[i].n = x /\ decls[i].const THEN "const" ELSE "no")]

\* 16.1.7 GlobalDeclarationInstantiation (single script: the clash checks are the early errors)
GlobalInst(body, es, h) ==
  LET vn == VarNamesL(pid, body)
      b1 == WithNames(es[1].b, vn, Binding(Undef, TRUE, "no"))
      b2 == b1 @@ LexBindings(LexDeclsL(pid, body))
  IN InstFuns(FunDeclsIn(pid, body), 1, [es EXCEPT ![1].b = b2], h)

\* 14.2.3 BlockDeclarationInstantiation for a statement list: [need, es, h] (new record at Len(es)+1)
BlockInst(stmts, par, es, h) ==
  LET lex == LexDeclsL(pid, stmts)
      funs == FunDeclsIn(pid, stmts)
      ne == Len(es) + 1
  IN IF lex = <<>> /\ funs = <<>> THEN [need |-> FALSE, es |-> es, h |-> h]
     ELSE LET r == InstFuns(funs, ne, Append(es, DeclEnv(par, LexBindings(lex))), h)
          IN [need |-> TRUE, es |-> r.es, h |-> r.h]

\* does the function need an arguments object (10.2.11 steps 15-18)?  Only functions that mention the
\* identifier are given one (without eval the difference is unobservable); the flattener marks them.
\* 10.2.11 FunctionDeclarationInstantiation steps 27-36: var, lexical and function declarations of the
\* body, after the parameters have been bound in record fe.  Result [es, h, e] (e: body environment).
\* Simplification: lexEnv = varEnv (the separate record of step 30 is only observable through eval).
FDIBody(f, fe, es, h) ==
  LET body == N(f).body
      funs == FunDeclsIn(pid, body)
      fnames == FunNamesIn(pid, body)
      vnames == VarNamesL(pid, body) \cup fnames
      hasPE == HasParamExprs(pid, f)
      pb == es[fe].b
      ve == IF hasPE THEN Len(es) + 1 ELSE fe
      es1 == IF hasPE
             THEN Append(es, DeclEnv(fe, [x \in vnames |->
                              Binding(IF x \in DOMAIN pb /\ x \notin fnames THEN pb[x].v ELSE Undef, TRUE, "no")]))
             ELSE [es EXCEPT ![fe].b = WithNames(@, vnames, Binding(Undef, TRUE, "no"))]
      es2 == [es1 EXCEPT ![ve].b = @ @@ LexBindings(LexDeclsL(pid, body))]
      r == InstFuns(funs, ve, es2, h)
  IN [es |-> r.es, h |-> r.h, e |-> ve]

-----------------------------------------------------------------------------
(* Evaluation of expressions: c = Ev(n) *)

nd == N(c.n)

\* 13.2.3 Literals
EvLiteral == nd.t = "lit" /\ Go(Ret(nd.val), k)

\* 13.1.3 IdentifierReference evaluation followed by GetValue (6.2.5.5) on an environment reference:
\* unresolvable -> ReferenceError; uninitialised (TDZ, 9.1.1.1.6 GetBindingValue) -> ReferenceError
GetIdent(name, kk) ==
  LET e == LookupEnv(envs, env, name)
  IN IF e = 0 THEN ThrowErr("ReferenceError", kk)
     ELSE IF ~envs[e].b[name].init THEN ThrowErr("ReferenceError", kk)
     ELSE Go(Ret(envs[e].b[name].v), kk)
EvIdentifier == nd.t = "ident" /\ GetIdent(nd.n, k)

\* 13.2.1 this: ResolveThisBinding (9.4.4); an uninitialised this (derived constructor before super()) throws
EvThis ==
  /\ nd.t = "this"
  /\ LET e == ThisEnvOf(envs, env)
     IN IF e = 0 THEN Go(Ret(Obj(A_Global)), k)
        ELSE IF envs[e].fe[1].ts = "uninit" THEN ThrowErr("ReferenceError", k)
        ELSE Go(Ret(envs[e].fe[1].this), k)

\* 13.3.12 new.target
EvNewTarget ==
  /\ nd.t = "newtarget"
  /\ LET e == ThisEnvOf(envs, env) IN Go(Ret(IF e = 0 THEN Undef ELSE envs[e].fe[1].nt), k)

\* 15.2.5 / 15.3.4 / 15.5.4 InstantiateOrdinaryFunctionExpression, arrow, generator expression.
\* A named function expression gets a scope holding its own name as an immutable ("soft") binding.
EvFunctionExpression ==
  /\ nd.t \in {"fn", "genfn", "arrow"}
  /\ IF nd.t # "arrow" /\ nd.name # ""
     THEN /\ envs' = Append(envs, DeclEnv(env, nd.name :> Binding(Obj(Len(heap) + 1), TRUE, "soft")))
          /\ heap' = AllocFun(heap, c.n, Len(envs) + 1, 0, FunKindOfNode(nd.t))
     ELSE /\ envs' = envs
          /\ heap' = AllocFun(heap, c.n, env, 0, FunKindOfNode(nd.t))
  /\ c' = Ret(Obj(Len(heap) + 1))
  /\ UNCHANGED <<env, k, out, aux>>

\* references evaluated for their value: 13.3.2 property accessors, 13.3.7 super.x
EvMemberValue ==
  /\ nd.t \in {"member", "super_member"}
  /\ Go(EvRef(c.n), Push([f |-> "getv", e |-> env]))

\* 13.2.4 ArrayLiteral: elements left to right (ArrayAccumulation)
EvArrayLiteral ==
  /\ nd.t = "array"
  /\ Go(Ret(Empty), Push([f |-> "arr", e |-> env, n |-> c.n, i |-> 0, acc |-> <<>>]))

\* 13.2.5 ObjectLiteral: OrdinaryObjectCreate(%Object.prototype%), then PropertyDefinitionEvaluation in order
EvObjectLiteral ==
  /\ nd.t = "object"
  /\ GoH(Ret(Empty), Push([f |-> "objlit", e |-> env, n |-> c.n, i |-> 0, a |-> Len(heap) + 1, key |-> <<>>]),
         Append(heap, OrdObj(A_ObjectProto, <<>>)))

\* 13.2.8 TemplateLiteral: the substitutions left to right, each ToString-ed before the next is evaluated
EvTemplate ==
  /\ nd.t = "template"
  /\ IF nd.exprs = <<>> THEN Go(Ret(Str(nd.quasis[1])), k)
     ELSE Go(Ev(nd.exprs[1]), Push([f |-> "tmpl", e |-> env, n |-> c.n, i |-> 1, acc |-> nd.quasis[1]]))

\* 13.5 Unary operators.  typeof of an unresolvable reference is "undefined" (13.5.3 step 2.a);
\* delete takes the reference (13.5.1)
EvUnary ==
  /\ nd.t = "unary"
  /\ IF nd.op = "typeof" /\ N(nd.e).t = "ident" /\ LookupEnv(envs, env, N(nd.e).n) = 0
     THEN Go(Ret(Str(S_undefined)), k)
     ELSE IF nd.op = "delete" /\ N(nd.e).t \in {"member", "ident", "super_member"}
     THEN Go(EvRef(nd.e), Push([f |-> "delete", e |-> env]))
     ELSE Go(Ev(nd.e), Push([f |-> "un", e |-> env, op |-> nd.op]))

\* 13.4 Update expressions: the reference, GetValue, ToNumeric, PutValue
EvUpdate == nd.t = "update" /\ Go(EvRef(nd.target), Push([f |-> "upd_r", e |-> env, n |-> c.n]))

\* 13.6-13.12 binary operators: left operand first
EvBinary == nd.t = "binary" /\ Go(Ev(nd.l), Push([f |-> "bin1", e |-> env, n |-> c.n]))
\* 13.13 binary logical operators (short circuit)
EvLogical == nd.t = "logical" /\ Go(Ev(nd.l), Push([f |-> "log", e |-> env, n |-> c.n]))
\* 13.14 conditional operator
EvConditional == nd.t = "cond" /\ Go(Ev(nd.c), Push([f |-> "cond", e |-> env, n |-> c.n]))
\* 13.16 comma operator
EvComma == nd.t = "seq" /\ Go(Ev(nd.es[1]), Push([f |-> "comma", e |-> env, n |-> c.n, i |-> 1]))

\* 13.15 Assignment operators.  A pattern target is a DestructuringAssignment (13.15.5): the right-hand side
\* is evaluated first; otherwise the left reference is evaluated first.
EvAssignment ==
  /\ nd.t = "assign"
  /\ IF N(nd.target).t \in {"arraypat", "objectpat"}
     THEN Go(Ev(nd.e), Push([f |-> "asg_pat", e |-> env, n |-> c.n]))
     ELSE Go(EvRef(nd.target), Push([f |-> "asg_r", e |-> env, n |-> c.n]))

\* 13.3.6 Function calls: EvaluateCall.  A callee that is a reference supplies the this value.
EvCall ==
  /\ nd.t = "call"
  /\ IF N(nd.f).t \in {"member", "ident", "super_member"}
     THEN Go(EvRef(nd.f), Push([f |-> "call_r", e |-> env, n |-> c.n]))
     ELSE Go(Ev(nd.f), Push([f |-> "call_f", e |-> env, n |-> c.n, this |-> Undef]))

\* 13.3.5 The new operator: EvaluateNew
EvNew == nd.t = "new" /\ Go(Ev(nd.f), Push([f |-> "new_f", e |-> env, n |-> c.n]))

\* 13.3.9 optional chains: the chain node delimits the short circuit
EvOptChain == nd.t = "optchain" /\ Go(Ev(nd.e), Push([f |-> "optchain", e |-> env]))

\* 13.3.7.1 SuperCall
EvSuperCall ==
  /\ nd.t = "super_call"
  /\ Go(Ret(Empty), Push([f |-> "args", e |-> env, n |-> c.n, fv |-> Undef, this |-> Undef, i |-> 0, acc |-> <<>>, kind |-> "super"]))

\* 15.5.5 yield / yield*
EvYield ==
  /\ nd.t = "yield"
  /\ IF nd.e = 0 THEN Go(Ret(Undef), Push([f |-> "yield", e |-> env, n |-> c.n]))
     ELSE Go(Ev(nd.e), Push([f |-> "yield", e |-> env, n |-> c.n]))

\* 15.7.14 class expressions
EvClassExpr == nd.t = "classexpr" /\ Go(Ret(Empty), Push([f |-> "class0", e |-> env, n |-> c.n]))

-----------------------------------------------------------------------------
(* Evaluation of references: c = EvRef(n) yields Ret(reference record) *)

\* 13.1.3 ResolveBinding
RefIdentifier == nd.t = "ident" /\ Go(Ret(IdRef(nd.n)), k)
\* 13.3.2 / 13.3.3 EvaluatePropertyAccessWith{Identifier,Expression}Key: base value first
RefMember == nd.t = "member" /\ Go(Ev(nd.o), Push([f |-> "ref_o", e |-> env, n |-> c.n]))
\* 13.3.7 MakeSuperPropertyReference: this first (may throw), then the key expression, then
\* the home object's [[GetPrototypeOf]]
RefSuperMember ==
  /\ nd.t = "super_member"
  /\ LET e == ThisEnvOf(envs, env)
     IN IF e = 0 THEN OutOfModel("super outside method")
        ELSE IF envs[e].fe[1].ts = "uninit" THEN ThrowErr("ReferenceError", k)
        ELSE IF nd.computed
        THEN Go(Ev(nd.k), Push([f |-> "sref_k", e |-> env, this |-> envs[e].fe[1].this, home |-> heap[envs[e].fe[1].fobj].home]))
        ELSE LET home == heap[envs[e].fe[1].fobj].home
             IN IF home = 0 THEN OutOfModel("super without home object")
                ELSE Go(Ret(SuperRef(IF heap[home].proto = 0 THEN Null ELSE Obj(heap[home].proto), Str(nd.key), envs[e].fe[1].this)), k)
\* any other expression in reference position is evaluated for its value (e.g. a call as callee)
RefOther == nd.t \notin {"ident", "member", "super_member"} /\ Go(Ev(c.n), k)

-----------------------------------------------------------------------------
(* Operators on primitives (13.15.3 ApplyStringOrNumericBinaryOperator, 7.2.13-7.2.15) *)

TErr == [t |-> "terr"]       \* "this operation throws a TypeError"
OpGetV(ref) == [m |-> "op", op |-> "getv", ref |-> ref]
OpPutV(ref, v, rv) == [m |-> "op", op |-> "putv", ref |-> ref, v |-> v, rv |-> rv]
OpToPrim(v, hint) == [m |-> "op", op |-> "toprim", v |-> v, hint |-> hint]
OpBind(pat, v, mode) == [m |-> "op", op |-> "bind", pat |-> pat, v |-> v, mode |-> mode]
OpIterOpen(v) == [m |-> "op", op |-> "iteropen", v |-> v]
List(l) == [t |-> "list", l |-> l]

NumericBin(op, l, r) ==
  IF l.t = "sym" \/ r.t = "sym" THEN TErr
  ELSE LET a == PrimToNumber(l)
           b == PrimToNumber(r)
       IN IF a.t = "oom" \/ b.t = "oom" THEN OOM ELSE NumBinOp(op, a, b)

PrimBinary(op, l, r) ==
  CASE op = "+" ->
         IF l.t = "str" \/ r.t = "str"
         THEN (IF l.t = "sym" \/ r.t = "sym" THEN TErr ELSE Concat(PrimToStr(l), PrimToStr(r)))
         ELSE NumericBin(op, l, r)
    [] op \in {"<", ">", "<=", ">="} ->
         LET x == IF op \in {"<", ">="} THEN PrimLess(l, r) ELSE PrimLess(r, l)
         IN CASE x = "SYM" -> TErr
              [] x = "OOM" -> OOM
              [] op \in {"<", ">"} -> Bool(x = "T")
              [] OTHER -> Bool(x = "F")
    [] op \in {"==", "!="} ->
         LET x == LooseEqPrim(l, r) IN IF x = "OOM" THEN OOM ELSE Bool((x = "T") = (op = "=="))
    [] OTHER -> NumericBin(op, l, r)

IsArith(op) == op \in {"-", "*", "/", "%", "**", "&", "|", "^", "<<", ">>", ">>>"}
HintOf(op) == IF op \in {"+", "==", "!="} THEN "default" ELSE "number"

FinishBinary(op, l, r, kk) ==
  LET v == PrimBinary(op, l, r)
  IN IF v.t = "terr" THEN ThrowErr("TypeError", kk) ELSE Go(Ret(v), kk)

\* 13.10.2 InstanceofOperator with the default Function.prototype[@@hasInstance] = 7.3.21 OrdinaryHasInstance
InstanceOf(l, r, kk) ==
  IF r.t # "obj" THEN ThrowErr("TypeError", kk)
  ELSE LET hm == FindProp(heap, r.a, SymKey(3))
       IN IF Len(hm) > 0 /\ hm[1].acc THEN OutOfModel("accessor @@hasInstance")
          ELSE IF Len(hm) > 0 /\ hm[1].v.t \notin {"oom", "undef", "null"}
          THEN (IF IsCallable(heap, hm[1].v)
                THEN GoE(CallC(hm[1].v, r, <<l>>, Undef), <<[f |-> "tobool", e |-> env]>> \o kk, env)
                ELSE ThrowErr("TypeError", kk))
          ELSE IF ~IsCallableObj(heap, r.a) THEN ThrowErr("TypeError", kk)
          ELSE IF heap[r.a].cls = "bound" THEN OutOfModel("instanceof bound function")
          ELSE IF l.t # "obj" THEN Go(Ret(Bool(FALSE)), kk)
          ELSE LET pd == FindProp(heap, r.a, S_prototype)
               IN IF Len(pd) = 0 THEN ThrowErr("TypeError", kk)
                  ELSE IF pd[1].acc \/ pd[1].v.t = "oom" THEN OutOfModel("instanceof prototype")
                  ELSE IF pd[1].v.t # "obj" THEN ThrowErr("TypeError", kk)
                  ELSE Go(Ret(Bool(ProtoChainHas(heap, heap[l.a].proto, pd[1].v.a))), kk)

\* 13.10.1 the in operator: HasProperty(rval, ToPropertyKey(lval))
InOperator(l, r, kk) ==
  IF r.t # "obj" THEN ThrowErr("TypeError", kk)
  ELSE IF l.t = "obj" THEN OutOfModel("object key for in")
  ELSE IF heap[r.a].cls = "glob" THEN OutOfModel("global object")
  ELSE LET d == FindProp(heap, r.a, KeyOfPrim(l))
       IN IF Len(d) > 0 /\ ~d[1].acc /\ d[1].v.t = "oom" THEN OutOfModel("unmodelled property")
          ELSE Go(Ret(Bool(Len(d) > 0)), kk)

\* the operands are values; objects are first converted with ToPrimitive, left operand first
ApplyBinary(op, l, r, kk) ==
  CASE op \in {"===", "!=="} -> Go(Ret(Bool(StrictEq(l, r) = (op = "==="))), kk)
    [] op = "in" -> InOperator(l, r, kk)
    [] op = "instanceof" -> InstanceOf(l, r, kk)
    [] op \in {"==", "!="} /\ l.t = "obj" /\ r.t = "obj" -> Go(Ret(Bool((l = r) = (op = "=="))), kk)
    [] op \in {"==", "!="} /\ ((l.t = "obj" /\ IsNullish(r)) \/ (r.t = "obj" /\ IsNullish(l))) ->
         Go(Ret(Bool(op = "!=")), kk)
    [] IsPrim(l) /\ IsPrim(r) -> FinishBinary(op, l, r, kk)
    [] l.t = "obj" ->
         Go(OpToPrim(l, HintOf(op)), <<[f |-> "binp", e |-> env, op |-> op, st |-> 1, l |-> l, r |-> r]>> \o kk)
    [] OTHER ->
         IF IsArith(op) /\ l.t = "sym" THEN ThrowErr("TypeError", kk)
         ELSE Go(OpToPrim(r, HintOf(op)), <<[f |-> "binp", e |-> env, op |-> op, st |-> 2, l |-> l, r |-> r]>> \o kk)

-----------------------------------------------------------------------------
(* Continuations of expressions: c = Ret(cv), top frame decides *)

fr == top
cv == c.v

\* GetValue of the reference (or value) just produced
RetGetValue ==
  /\ fr.f = "getv"
  /\ IF cv.t = "ref" THEN Go(OpGetV(cv), rest) ELSE Go(Ret(cv), rest)

\* 13.3.2 property accessor, base evaluated; optional member of a nullish base short-circuits the chain (13.3.9.1)
RetMemberBase ==
  /\ fr.f = "ref_o"
  /\ LET n == N(fr.n)
     IN IF n.optional /\ IsNullish(cv) THEN Go(Abr("optshort", Undef, ""), rest)
        ELSE IF n.computed THEN Go(Ev(n.k), <<[f |-> "ref_k", e |-> fr.e, o |-> cv]>> \o rest)
        ELSE Go(Ret(PropRef(cv, Str(n.key))), rest)
RetMemberKey == fr.f = "ref_k" /\ Go(Ret(PropRef(fr.o, cv)), rest)
RetSuperKey ==
  /\ fr.f = "sref_k"
  /\ IF fr.home = 0 THEN OutOfModel("super without home object")
     ELSE Go(Ret(SuperRef(IF heap[fr.home].proto = 0 THEN Null ELSE Obj(heap[fr.home].proto), cv, fr.this)), rest)

\* 13.2.4.1 ArrayAccumulation
RetArrayElement ==
  /\ fr.f = "arr"
  /\ LET els == N(fr.n).elems
         acc == IF fr.i = 0 THEN fr.acc ELSE IF cv.t = "list" THEN fr.acc \o cv.l ELSE Append(fr.acc, cv)
         j == fr.i + 1
     IN IF Len(acc) > MaxArrayLen THEN OutOfModel("array too long")
        ELSE IF j > Len(els) THEN GoH(Ret(Obj(Len(heap) + 1)), rest, Append(heap, ArrObj(acc)))
        ELSE IF N(els[j]).t = "hole" THEN Go(Ret(Hole), <<[fr EXCEPT !.i = j, !.acc = acc]>> \o rest)
        ELSE IF N(els[j]).t = "spread"
        THEN Go(Ev(N(els[j]).e), <<[f |-> "spread", e |-> fr.e], [fr EXCEPT !.i = j, !.acc = acc]>> \o rest)
        ELSE Go(Ev(els[j]), <<[fr EXCEPT !.i = j, !.acc = acc]>> \o rest)

\* spread element / argument: iterate the value into a list (13.2.4.1, 13.3.8.1)
RetSpread == fr.f = "spread" /\ Go(OpIterOpen(cv), <<[f |-> "collect", e |-> fr.e, acc |-> <<>>, it |-> Undef, nx |-> Undef]>> \o rest)

\* 13.5 unary operators on the operand value
RetUnary ==
  /\ fr.f = "un"
  /\ CASE fr.op = "!" -> Go(Ret(Bool(~ToBoolean(cv))), rest)
       [] fr.op = "void" -> Go(Ret(Undef), rest)
       [] fr.op = "typeof" -> Go(Ret(Str(TypeOf(heap, cv))), rest)
       [] fr.op = "delete" -> Go(Ret(Bool(TRUE)), rest)
       [] OTHER ->   \* - + ~ : ToNumeric / ToNumber (7.1.3, 7.1.4)
            IF cv.t = "obj" THEN Go(OpToPrim(cv, "number"), k)
            ELSE IF cv.t = "sym" THEN ThrowErr("TypeError", rest)
            ELSE LET n == PrimToNumber(cv)
                 IN IF n.t = "oom" THEN Go(Ret(OOM), rest)
                    ELSE Go(Ret(CASE fr.op = "-" -> NumNeg(n) [] fr.op = "+" -> n [] fr.op = "~" -> NumBitNot(n)), rest)

\* 13.5.1 delete on a reference
RetDelete ==
  /\ fr.f = "delete"
  /\ IF cv.t # "ref" THEN Go(Ret(Bool(TRUE)), rest)
     ELSE IF cv.rk = "id"
     THEN \* sloppy only (early error in strict code): declared bindings are not deletable; unresolvable -> true
          (IF Strict THEN OutOfModel("delete identifier in strict code")
           ELSE LET e == LookupEnv(envs, env, cv.name)
                IN IF e = 0 THEN Go(Ret(Bool(TRUE)), rest)
                   ELSE IF e = 1 /\ envs[1].b[cv.name].imm = "del"
                   THEN c' = Ret(Bool(TRUE)) /\ k' = rest
                        /\ envs' = [envs EXCEPT ![1].b = [x \in (DOMAIN @) \ {cv.name} |-> @[x]]]
                        /\ UNCHANGED <<env, heap, out, aux>>
                   ELSE Go(Ret(Bool(FALSE)), rest))
     ELSE IF cv.this # cv.base THEN ThrowErr("ReferenceError", rest)          \* delete super.x
     ELSE IF IsNullish(cv.base) THEN ThrowErr("TypeError", rest)
     ELSE IF cv.kv.t = "obj" THEN OutOfModel("object key in delete")
     ELSE IF cv.base.t # "obj"
     THEN (IF cv.base.t = "str" /\ Len(StrOwn(cv.base.s, KeyOfPrim(cv.kv))) > 0
           THEN (IF Strict THEN ThrowErr("TypeError", rest) ELSE Go(Ret(Bool(FALSE)), rest))
           ELSE Go(Ret(Bool(TRUE)), rest))
     ELSE IF heap[cv.base.a].cls = "glob" \/ heap[cv.base.a].intr THEN OutOfModel("delete on built-in")
     ELSE LET r == DeleteOwn(heap[cv.base.a], KeyOfPrim(cv.kv))
          IN IF r.ok THEN GoH(Ret(Bool(TRUE)), rest, [heap EXCEPT ![cv.base.a] = r.o])
             ELSE IF Strict THEN ThrowErr("TypeError", rest)
             ELSE Go(Ret(Bool(FALSE)), rest)

\* read-modify-write through a property reference whose key is still an object: the key would be
\* converted once by GetValue (6.2.5.5 step 3.c.ii); not modelled
RmwKeyOk(ref) == ~(ref.rk = "prop" /\ ref.kv.t = "obj")

\* 13.4.2-13.4.5 update expressions
RetUpdateRef ==
  /\ fr.f = "upd_r"
  /\ IF ~RmwKeyOk(cv) THEN OutOfModel("object key in update")
     ELSE Go(OpGetV(cv), <<[f |-> "upd_v", e |-> fr.e, n |-> fr.n, ref |-> cv]>> \o rest)
RetUpdateValue ==
  /\ fr.f = "upd_v"
  /\ IF cv.t = "obj" THEN Go(OpToPrim(cv, "number"), k)
     ELSE IF cv.t = "sym" THEN ThrowErr("TypeError", rest)
     ELSE LET old == PrimToNumber(cv)
              new == IF old.t = "oom" THEN OOM ELSE NumAdd(old, Num(IF N(fr.n).op = "++" THEN 1 ELSE -1))
          IN IF new.t = "oom" THEN Go(Ret(OOM), rest)
             ELSE Go(OpPutV(fr.ref, new, IF N(fr.n).prefix THEN new ELSE old), rest)

\* binary operators
RetBinaryLeft == fr.f = "bin1" /\ Go(Ev(N(fr.n).r), <<[f |-> "bin2", e |-> fr.e, n |-> fr.n, l |-> cv]>> \o rest)
RetBinaryRight == fr.f = "bin2" /\ ApplyBinary(N(fr.n).op, fr.l, cv, rest)
\* ToPrimitive of an operand finished (left first; ToNumeric(lval) throws before rval is converted)
RetBinaryPrimitive ==
  /\ fr.f = "binp"
  /\ IF fr.st = 1
     THEN IF IsArith(fr.op) /\ cv.t = "sym" THEN ThrowErr("TypeError", rest)
          ELSE IF fr.op \in {"==", "!="} /\ fr.r.t = "obj" THEN ApplyBinary(fr.op, cv, fr.r, rest)
          ELSE IF fr.r.t = "obj" THEN Go(OpToPrim(fr.r, HintOf(fr.op)), <<[fr EXCEPT !.st = 2, !.l = cv]>> \o rest)
          ELSE FinishBinary(fr.op, cv, fr.r, rest)
     ELSE FinishBinary(fr.op, fr.l, cv, rest)

\* 13.13 && || ??
RetLogical ==
  /\ fr.f = "log"
  /\ LET op == N(fr.n).op
         short == CASE op = "&&" -> ~ToBoolean(cv) [] op = "||" -> ToBoolean(cv) [] op = "??" -> ~IsNullish(cv)
     IN IF short THEN Go(Ret(cv), rest) ELSE Go(Ev(N(fr.n).r), rest)
RetConditional == fr.f = "cond" /\ Go(Ev(IF ToBoolean(cv) THEN N(fr.n).a ELSE N(fr.n).b), rest)
RetComma ==
  /\ fr.f = "comma"
  /\ IF fr.i = Len(N(fr.n).es) THEN Go(Ret(cv), rest)
     ELSE Go(Ev(N(fr.n).es[fr.i + 1]), <<[fr EXCEPT !.i = fr.i + 1]>> \o rest)

\* 13.15.2 assignment
RetAssignRef ==
  /\ fr.f = "asg_r"
  /\ IF N(fr.n).op = "=" THEN Go(Ev(N(fr.n).e), <<[f |-> "asg_v", e |-> fr.e, ref |-> cv]>> \o rest)
     ELSE IF ~RmwKeyOk(cv) THEN OutOfModel("object key in compound assignment")
     ELSE Go(OpGetV(cv), <<[f |-> "casg_l", e |-> fr.e, n |-> fr.n, ref |-> cv]>> \o rest)
RetAssignValue == fr.f = "asg_v" /\ Go(OpPutV(fr.ref, cv, cv), rest)
\* compound assignment: lval read; logical assignments short-circuit without PutValue
RetCompoundLeft ==
  /\ fr.f = "casg_l"
  /\ LET op == N(fr.n).op
     IN IF op \in {"&&=", "||=", "??="}
        THEN LET short == CASE op = "&&=" -> ~ToBoolean(cv) [] op = "||=" -> ToBoolean(cv) [] op = "??=" -> ~IsNullish(cv)
             IN IF short THEN Go(Ret(cv), rest)
                ELSE Go(Ev(N(fr.n).e), <<[f |-> "asg_v", e |-> fr.e, ref |-> fr.ref]>> \o rest)
        ELSE Go(Ev(N(fr.n).e), <<[f |-> "casg_r", e |-> fr.e, n |-> fr.n, ref |-> fr.ref, l |-> cv]>> \o rest)
RetCompoundRight ==
  /\ fr.f = "casg_r"
  /\ ApplyBinary(N(fr.n).bop, fr.l, cv, <<[f |-> "asg_v", e |-> fr.e, ref |-> fr.ref]>> \o rest)
\* 13.15.5 destructuring assignment: the value of the expression is the right-hand side value
RetAssignPattern ==
  /\ fr.f = "asg_pat"
  /\ Go(OpBind(N(fr.n).target, cv, "assign"), <<[f |-> "constv", e |-> fr.e, v |-> cv]>> \o rest)
RetConst == fr.f = "constv" /\ Go(Ret(fr.v), rest)
RetToBoolean == fr.f = "tobool" /\ Go(Ret(Bool(ToBoolean(cv))), rest)

\* 13.2.8.6 template literal: ToString of each substitution
RetTemplate ==
  /\ fr.f = "tmpl"
  /\ IF cv.t = "obj" THEN Go(OpToPrim(cv, "string"), k)
     ELSE IF cv.t = "sym" THEN ThrowErr("TypeError", rest)
     ELSE LET n == N(fr.n)
              a1 == Concat(fr.acc, PrimToStr(cv))
              a2 == IF a1.t = "oom" THEN OOM ELSE Concat(a1.s, n.quasis[fr.i + 1])
          IN IF a2.t = "oom" THEN Go(Ret(OOM), rest)
             ELSE IF fr.i = Len(n.exprs) THEN Go(Ret(a2), rest)
             ELSE Go(Ev(n.exprs[fr.i + 1]), <<[fr EXCEPT !.i = fr.i + 1, !.acc = a2.s]>> \o rest)

\* 13.3.9 optional chain completed normally
RetOptChain == fr.f = "optchain" /\ Go(Ret(cv), rest)

-----------------------------------------------------------------------------
(* Continuations of statements *)

\* 14.2.2 StatementList: the value of the list is the last non-empty statement value (UpdateEmpty)
RetStatementList ==
  /\ fr.f = "seq"
  /\ LET body == N(fr.n).body
         val == UpdateEmpty(cv, fr.v)
     IN IF fr.i = Len(body) THEN GoE(Ret(val), rest, fr.e)
        ELSE Go(Ev(body[fr.i + 1]), <<[fr EXCEPT !.i = fr.i + 1, !.v = val]>> \o rest)

\* 14.3 declarators left to right.  let x; initialises to undefined; var x; does nothing;
\* an initialiser is evaluated, then bound (InitializeBinding for let/const, PutValue for var)
RetDeclarators ==
  /\ fr.f = "decls"
  /\ LET ds == N(fr.n).decls
         kind == N(fr.n).t
         j == fr.i + 1
         nxt == <<[fr EXCEPT !.i = j]>> \o rest
     IN IF j > Len(ds) THEN Go(Ret(Empty), rest)
        ELSE LET d == N(ds[j])
             IN IF d.init # 0
                THEN Go(Ev(d.init), <<[f |-> "decl_v", e |-> fr.e, pat |-> d.target, mode |-> IF kind = "var" THEN "var" ELSE "init"]>> \o nxt)
                ELSE IF kind = "var" THEN Go(Ret(Empty), nxt)
                ELSE Go(OpBind(d.target, Undef, "init"), nxt)
RetDeclaratorValue == fr.f = "decl_v" /\ Go(OpBind(fr.pat, cv, fr.mode), rest)

\* 14.6.2 if: Completion(UpdateEmpty(stmtCompletion, undefined))
RetIfTest ==
  /\ fr.f = "if"
  /\ IF ToBoolean(cv) THEN Go(Ev(N(fr.n).a), <<[f |-> "ifv", e |-> fr.e]>> \o rest)
     ELSE IF N(fr.n).b # 0 THEN Go(Ev(N(fr.n).b), <<[f |-> "ifv", e |-> fr.e]>> \o rest)
     ELSE Go(Ret(Undef), rest)
RetIfBranch == fr.f = "ifv" /\ Go(Ret(UpdateEmpty(cv, Undef)), rest)

\* 14.7.2 / 14.7.3 do-while and while
RetLoopTest ==
  /\ fr.f = "loop_c"
  /\ IF ToBoolean(cv) THEN Go(Ev(N(fr.n).s), <<[fr EXCEPT !.f = "loop_b"]>> \o rest)
     ELSE Go(Ret(fr.v), rest)
RetLoopBody ==
  /\ fr.f = "loop_b"
  /\ Go(Ev(N(fr.n).c), <<[fr EXCEPT !.f = "loop_c", !.v = UpdateEmpty(cv, fr.v)]>> \o rest)

\* 14.7.4.4 CreatePerIterationEnvironment followed by the next phase of the for loop (14.7.4.3 ForBodyEvaluation)
\* phase "test": evaluate the test (or the body when there is none); phase "update": the increment, then the test
ForContinue(frm, val, phase, copy, kk, cur) ==
  LET n == N(frm.n)
      doCopy == copy /\ frm.per # {}
      ne == Len(envs) + 1
      goUpdate == phase = "update" /\ n.update # 0
      tgt == IF goUpdate THEN n.update ELSE IF n.c # 0 THEN n.c ELSE n.s
      fk == IF goUpdate THEN "for_u" ELSE IF n.c # 0 THEN "for_c" ELSE "for_b"
  IN /\ c' = Ev(tgt)
     /\ k' = <<[frm EXCEPT !.f = fk, !.v = val, !.ie = IF doCopy THEN ne ELSE cur]>> \o kk
     /\ envs' = IF doCopy THEN Append(envs, DeclEnv(envs[cur].par, [x \in frm.per |-> envs[cur].b[x]])) ELSE envs
     /\ env' = IF doCopy THEN ne ELSE cur
     /\ UNCHANGED <<heap, out, aux>>
RetForInit == fr.f = "for_i" /\ ForContinue(fr, fr.v, "test", TRUE, rest, env)
RetForTest ==
  /\ fr.f = "for_c"
  /\ IF ToBoolean(cv) THEN Go(Ev(N(fr.n).s), <<[fr EXCEPT !.f = "for_b"]>> \o rest)
     ELSE GoE(Ret(fr.v), rest, fr.e)
RetForBody == fr.f = "for_b" /\ ForContinue(fr, UpdateEmpty(cv, fr.v), "update", TRUE, rest, fr.ie)
RetForUpdate == fr.f = "for_u" /\ ForContinue(fr, fr.v, "test", FALSE, rest, fr.ie)

\* 14.13.4 LabelledEvaluation, normal completion
RetLabelled == fr.f = "label" /\ Go(Ret(cv), rest)

\* 14.10 / 14.14
RetReturn == fr.f = "return" /\ Go(Abr("return", cv, ""), rest)
RetThrow == fr.f = "throw" /\ Go(Abr("throw", cv, ""), rest)

\* 14.15.3 try: the block (or the catch block) completed normally with value cv
TryFinish(comp, kk, n, e0) ==
  IF N(n).f # 0 THEN GoE(Ev(N(n).f), <<[f |-> "fin", e |-> e0, comp |-> comp]>> \o kk, e0)
  ELSE GoE(comp, kk, e0)
RetTryBlock == fr.f \in {"try", "catch"} /\ TryFinish(Ret(UpdateEmpty(cv, Undef)), rest, fr.n, fr.e)
\* the catch parameter is bound: run the handler block
RetCatchBound == fr.f = "catch_b" /\ Go(Ev(N(fr.n).h), <<[f |-> "catch", e |-> fr.e, n |-> fr.n]>> \o rest)
\* 14.15.3: the finalizer completed normally: the saved completion takes effect
RetFinally == fr.f = "fin" /\ Go(fr.comp, rest)

\* 14.12.2 CaseBlockEvaluation.  Clauses with a test are searched in order (the default clause is skipped);
\* without a match execution starts at the default clause, if any.
NextTestedCase(cases, from) ==
  LET S == {i \in from..Len(cases) : N(cases[i]).test # 0} IN IF S = {} THEN 0 ELSE CHOOSE i \in S : \A j \in S : i <= j
DefaultCase(cases) ==
  LET S == {i \in DOMAIN cases : N(cases[i]).test = 0} IN IF S = {} THEN 0 ELSE CHOOSE i \in S : TRUE
\* continue the search at clause index `from`, or fall back to the default clause, or finish
SwitchSearch(n, d, from, e0, kk) ==
  LET cases == N(n).cases
      i == NextTestedCase(cases, from)
      dflt == DefaultCase(cases)
  IN IF i # 0 THEN Go(Ev(N(cases[i]).test), <<[f |-> "sw_t", e |-> e0, n |-> n, d |-> d, i |-> i]>> \o kk)
     ELSE IF dflt # 0 THEN Go(Ret(Empty), <<[f |-> "sw_b", e |-> e0, n |-> n, ci |-> dflt, si |-> 0, v |-> Undef]>> \o kk)
     ELSE GoE(Ret(Undef), kk, e0)
RetSwitchDiscriminant ==
  /\ fr.f = "sw_d"
  /\ LET r == BlockInst(SwitchStmts(pid, fr.n), env, envs, heap)
         cases == N(fr.n).cases
         i == NextTestedCase(cases, 1)
         dflt == DefaultCase(cases)
     IN /\ envs' = r.es
        /\ heap' = r.h
        /\ env' = IF r.need THEN Len(envs) + 1 ELSE env
        /\ UNCHANGED <<out, aux>>
        /\ IF i # 0 THEN c' = Ev(N(cases[i]).test) /\ k' = <<[f |-> "sw_t", e |-> fr.e, n |-> fr.n, d |-> cv, i |-> i]>> \o rest
           ELSE IF dflt # 0 THEN c' = Ret(Empty) /\ k' = <<[f |-> "sw_b", e |-> fr.e, n |-> fr.n, ci |-> dflt, si |-> 0, v |-> Undef]>> \o rest
           ELSE c' = Ret(Empty) /\ k' = <<[f |-> "sw_end", e |-> fr.e]>> \o rest
RetSwitchEnd == fr.f = "sw_end" /\ GoE(Ret(Undef), rest, fr.e)
\* CaseClauseIsSelected: IsStrictlyEqual(input, clauseSelector)
RetSwitchTest ==
  /\ fr.f = "sw_t"
  /\ IF StrictEq(fr.d, cv)
     THEN Go(Ret(Empty), <<[f |-> "sw_b", e |-> fr.e, n |-> fr.n, ci |-> fr.i, si |-> 0, v |-> Undef]>> \o rest)
     ELSE SwitchSearch(fr.n, fr.d, fr.i + 1, fr.e, rest)
\* statements of the selected clause and of the clauses that follow (fall through)
RetSwitchBody ==
  /\ fr.f = "sw_b"
  /\ LET cases == N(fr.n).cases
         val == UpdateEmpty(cv, fr.v)
         body == N(cases[fr.ci]).body
     IN IF fr.si < Len(body) THEN Go(Ev(body[fr.si + 1]), <<[fr EXCEPT !.si = fr.si + 1, !.v = val]>> \o rest)
        ELSE IF fr.ci < Len(cases) THEN Go(Ret(Empty), <<[fr EXCEPT !.ci = fr.ci + 1, !.si = 0, !.v = val]>> \o rest)
        ELSE GoE(Ret(val), rest, fr.e)

-----------------------------------------------------------------------------
(* Abrupt completions: c = Abr(kind, v, l) unwinds the continuation (6.2.4, 14.1.1 LoopContinues, ...) *)

ak == c.kind
\* the completion with its value updated (UpdateEmpty) when it carries one
AbrUpd(d) == IF ak \in {"break", "continue"} THEN [c EXCEPT !.v = UpdateEmpty(c.v, d)] ELSE c

\* 14.7.1.1 LoopContinues / BreakableStatement for while, do-while and for loops
AbrLoop ==
  /\ fr.f \in {"loop_b", "for_b"}
  /\ IF ak = "continue" /\ (c.l = "" \/ c.l \in fr.ls)
     THEN IF fr.f = "loop_b"
          THEN GoE(Ev(N(fr.n).c), <<[fr EXCEPT !.f = "loop_c", !.v = UpdateEmpty(c.v, fr.v)]>> \o rest, fr.e)
          ELSE ForContinue(fr, UpdateEmpty(c.v, fr.v), "update", TRUE, rest, fr.ie)
     ELSE IF ak = "break" /\ c.l = "" THEN GoE(Ret(UpdateEmpty(c.v, fr.v)), rest, fr.e)
     ELSE GoE(AbrUpd(fr.v), rest, fr.e)

\* 14.13.4: a break targeting this label completes the labelled statement normally
AbrLabelled ==
  /\ fr.f = "label"
  /\ IF ak = "break" /\ c.l = fr.l THEN GoE(Ret(c.v), rest, fr.e) ELSE GoE(c, rest, fr.e)

\* 14.12.4: an unlabelled break leaves the switch
AbrSwitch ==
  /\ fr.f = "sw_b"
  /\ IF ak = "break" /\ c.l = "" THEN GoE(Ret(UpdateEmpty(c.v, fr.v)), rest, fr.e)
     ELSE GoE(AbrUpd(fr.v), rest, fr.e)

\* 14.15.3 try: a throw completion enters the catch clause (CatchClauseEvaluation 14.15.2: the parameter is
\* bound in a new declarative record); any other abrupt completion, or a throw without handler, runs the
\* finalizer with the completion saved
AbrTry ==
  /\ fr.f = "try"
  /\ LET n == N(fr.n)
     IN IF ak = "throw" /\ n.h # 0
        THEN IF n.p = 0 THEN GoE(Ev(n.h), <<[f |-> "catch", e |-> fr.e, n |-> fr.n]>> \o rest, fr.e)
             ELSE /\ envs' = Append(envs, DeclEnv(fr.e, [x \in Range(BoundNames(pid, n.p)) |-> Uninit("no")]))
                  /\ env' = Len(envs) + 1
                  /\ c' = OpBind(n.p, c.v, "init")
                  /\ k' = <<[f |-> "catch_b", e |-> fr.e, n |-> fr.n]>> \o rest
                  /\ UNCHANGED <<heap, out, aux>>
        ELSE TryFinish(AbrUpd(Undef), rest, fr.n, fr.e)
AbrCatch == fr.f = "catch" /\ TryFinish(AbrUpd(Undef), rest, fr.n, fr.e)

\* 13.3.9: a short-circuited optional chain evaluates to undefined
AbrOptChain ==
  /\ fr.f = "optchain"
  /\ IF ak = "optshort" THEN GoE(Ret(Undef), rest, fr.e) ELSE GoE(c, rest, fr.e)

\* frames that only pass an abrupt completion on: the frame is discarded and its environment restored;
\* statement lists and if statements update an empty break/continue value (14.2.2, 14.6.2)
AbrPass == GoE(CASE fr.f = "seq" -> AbrUpd(fr.v) [] fr.f = "ifv" -> AbrUpd(Undef) [] OTHER -> c, rest, fr.e)

-----------------------------------------------------------------------------
(* Abstract operations that may run user code: c = [m |-> "op", op |-> ...] *)

\* 10.1.8 OrdinaryGet on the property found along the prototype chain, with the receiver `this`
GetFrom(base, key, this, kk) ==
  IF base.t = "obj" /\ heap[base.a].cls = "glob" THEN OutOfModel("property of the global object")
  ELSE LET d == FindOnValue(heap, base, key)
       IN IF Len(d) = 0 THEN Go(Ret(Undef), kk)
          ELSE IF d[1].acc
          THEN (IF d[1].g.t = "undef" THEN Go(Ret(Undef), kk) ELSE Go(CallC(d[1].g, this, <<>>, Undef), kk))
          ELSE Go(Ret(d[1].v), kk)

\* 6.2.5.5 GetValue
OpGetValue ==
  /\ c.op = "getv"
  /\ LET r == c.ref
     IN IF r.rk = "id" THEN GetIdent(r.name, k)
        ELSE IF IsNullish(r.base) THEN ThrowErr("TypeError", k)
        ELSE IF r.kv.t = "obj" THEN Go(OpToPrim(r.kv, "string"), Push([f |-> "getv_k", e |-> env, ref |-> r]))
        ELSE GetFrom(r.base, KeyOfPrim(r.kv), r.this, k)
RetGetValueKey == fr.f = "getv_k" /\ Go(OpGetV([fr.ref EXCEPT !.kv = cv]), rest)

\* 6.2.5.6 PutValue on an environment reference: 9.1.1.1.5 SetMutableBinding; an unresolvable reference
\* throws in strict code and creates a (deletable) global property in sloppy code
PutIdent(name, val, rv, kk) ==
  LET e == LookupEnv(envs, env, name)
  IN IF e = 0
     THEN IF Strict THEN ThrowErr("ReferenceError", kk)
          ELSE /\ envs' = [envs EXCEPT ![1].b = @ @@ (name :> Binding(val, TRUE, "del"))]
               /\ c' = Ret(rv) /\ k' = kk
               /\ UNCHANGED <<env, heap, out, aux>>
     ELSE LET b == envs[e].b[name]
          IN IF ~b.init THEN ThrowErr("ReferenceError", kk)
             ELSE IF b.imm = "const" THEN ThrowErr("TypeError", kk)
             ELSE IF b.imm = "soft" THEN (IF Strict THEN ThrowErr("TypeError", kk) ELSE Go(Ret(rv), kk))
             ELSE /\ envs' = [envs EXCEPT ![e].b[name].v = val]
                  /\ c' = Ret(rv) /\ k' = kk
                  /\ UNCHANGED <<env, heap, out, aux>>

\* 6.2.5.6 PutValue; the operation yields c.rv (the value of the enclosing expression)
OpPutValue ==
  /\ c.op = "putv"
  /\ LET r == c.ref
     IN IF r.rk = "id" THEN PutIdent(r.name, c.v, c.rv, k)
        ELSE IF IsNullish(r.base) THEN ThrowErr("TypeError", k)
        ELSE IF r.kv.t = "obj"
        THEN Go(OpToPrim(r.kv, "string"), Push([f |-> "putv_k", e |-> env, ref |-> r, v |-> c.v, rv |-> c.rv]))
        ELSE LET s == SetProp(heap, r.base, KeyOfPrim(r.kv), c.v, r.this)
             IN CASE s.r = "ok" -> GoH(Ret(c.rv), k, s.h)
                  [] s.r = "fail" -> IF Strict THEN ThrowErr("TypeError", k) ELSE Go(Ret(c.rv), k)
                  [] s.r = "setter" -> Go(CallC(s.f, r.this, <<c.v>>, Undef), Push([f |-> "constv", e |-> env, v |-> c.rv]))
                  [] s.r = "oom" -> OutOfModel("unmodelled property write")
RetPutValueKey == fr.f = "putv_k" /\ Go(OpPutV([fr.ref EXCEPT !.kv = cv], fr.v, fr.rv), rest)

\* 7.1.1 ToPrimitive: GetMethod(input, @@toPrimitive), else 7.1.1.1 OrdinaryToPrimitive
HintStr(h) == CASE h = "string" -> S_string [] h = "number" -> S_number [] OTHER -> S_default
OrdPrimName(hint, i) == IF (hint = "string") = (i = 1) THEN S_toString ELSE S_valueOf
OrdPrimNext(o, hint, i, kk) ==
  IF i > 2 THEN ThrowErr("TypeError", kk)
  ELSE Go(OpGetV(PropRef(o, Str(OrdPrimName(hint, i)))), <<[f |-> "ordprim_m", e |-> env, o |-> o, hint |-> hint, i |-> i]>> \o kk)
OpToPrimitive ==
  /\ c.op = "toprim"
  /\ IF c.v.t # "obj" THEN Go(Ret(c.v), k)
     ELSE LET d == FindProp(heap, c.v.a, SymKey(2))
          IN IF Len(d) = 0 THEN OrdPrimNext(c.v, c.hint, 1, k)
             ELSE IF d[1].acc \/ d[1].v.t = "oom" THEN OutOfModel("accessor @@toPrimitive")
             ELSE IF IsNullish(d[1].v) THEN OrdPrimNext(c.v, c.hint, 1, k)
             ELSE IF ~IsCallable(heap, d[1].v) THEN ThrowErr("TypeError", k)
             ELSE Go(CallC(d[1].v, c.v, <<Str(HintStr(c.hint))>>, Undef), Push([f |-> "toprim_r", e |-> env]))
RetToPrimitiveExotic == fr.f = "toprim_r" /\ IF cv.t = "obj" THEN ThrowErr("TypeError", rest) ELSE Go(Ret(cv), rest)
RetOrdinaryToPrimitiveMethod ==
  /\ fr.f = "ordprim_m"
  /\ IF IsCallable(heap, cv) THEN Go(CallC(cv, fr.o, <<>>, Undef), <<[fr EXCEPT !.f = "ordprim_r"]>> \o rest)
     ELSE OrdPrimNext(fr.o, fr.hint, fr.i + 1, rest)
RetOrdinaryToPrimitiveResult ==
  /\ fr.f = "ordprim_r"
  /\ IF cv.t # "obj" THEN Go(Ret(cv), rest) ELSE OrdPrimNext(fr.o, fr.hint, fr.i + 1, rest)

\* 8.6.2 BindingInitialization / 13.15.5 DestructuringAssignmentEvaluation / PutValue for var:
\* binds value c.v to the target c.pat; mode "init" (InitializeBinding), "var" / "assign" (PutValue)
OpBindIdentifier ==
  /\ c.op = "bind" /\ N(c.pat).t = "ident"
  /\ LET name == N(c.pat).n
         e == LookupEnv(envs, env, name)
     IN IF c.mode = "init"
        THEN /\ envs' = [envs EXCEPT ![e].b[name] = [@ EXCEPT !.v = c.v, !.init = TRUE]]
             /\ c' = Ret(Empty)
             /\ UNCHANGED <<env, k, heap, out, aux>>
        ELSE PutIdent(name, c.v, Empty, k)
OpBindMember ==
  /\ c.op = "bind" /\ N(c.pat).t \in {"member", "super_member"}
  /\ Go(EvRef(c.pat), Push([f |-> "bind_ref", e |-> env, v |-> c.v]))
RetBindReference == fr.f = "bind_ref" /\ Go(OpPutV(cv, fr.v, Empty), rest)

-----------------------------------------------------------------------------
(* Object literals (13.2.5.5 PropertyDefinitionEvaluation) *)

S_proto == <<95,95,112,114,111,116,111,95,95>>      \* "__proto__"

\* 10.1.6.3 ValidateAndApplyPropertyDescriptor on a fresh/ordinary object: replace in place or append
DefineOwn(o, p) ==
  LET i == PropIdx(o.props, p.k)
  IN IF i = 0 THEN [o EXCEPT !.props = Append(@, p)] ELSE [o EXCEPT !.props[i] = p]
\* accessor definition merges with an existing accessor of the same key (get + set pairs)
DefineAccessor(o, key, kind, f) ==
  LET i == PropIdx(o.props, key)
      old == IF i # 0 /\ o.props[i].acc THEN o.props[i] ELSE AccProp(key, Undef, Undef)
  IN DefineOwn(o, IF kind = "get" THEN [old EXCEPT !.g = f] ELSE [old EXCEPT !.s = f])

MethodKind(n) == IF N(n).gen THEN "gen" ELSE "method"

\* defines property definition node pn with key `key` on object a, or starts evaluating its value
ObjLitDefine(pn, key, a, kk) ==
  LET p == N(pn)
  IN CASE p.kind = "init" -> Go(Ev(p.v), <<[f |-> "objv", e |-> env, a |-> a, key |-> key, pn |-> pn]>> \o kk)
       [] p.kind = "method" ->
            LET h1 == AllocFun(heap, p.v, env, a, MethodKind(p.v))
            IN GoH(Ret(Empty), kk, [h1 EXCEPT ![a] = DefineOwn(@, DataProp(key, Obj(Len(heap) + 1)))])
       [] p.kind \in {"get", "set"} ->
            LET h1 == AllocFun(heap, p.v, env, a, "method")
            IN GoH(Ret(Empty), kk, [h1 EXCEPT ![a] = DefineAccessor(@, key, p.kind, Obj(Len(heap) + 1))])

RetObjectLiteral ==
  /\ fr.f = "objlit"
  /\ LET ps == N(fr.n).props
         j == fr.i + 1
         nxt == <<[fr EXCEPT !.i = j]>> \o rest
     IN IF j > Len(ps) THEN Go(Ret(Obj(fr.a)), rest)
        ELSE LET p == N(ps[j])
             IN IF p.kind = "spread" THEN Go(Ev(p.v), <<[f |-> "objspread", e |-> fr.e, a |-> fr.a]>> \o nxt)
                ELSE IF p.computed THEN Go(Ev(p.k), <<[f |-> "objk", e |-> fr.e, a |-> fr.a, pn |-> ps[j]]>> \o nxt)
                ELSE ObjLitDefine(ps[j], p.key, fr.a, nxt)
\* computed key: ToPropertyKey before the value is evaluated
RetObjectKey ==
  /\ fr.f = "objk"
  /\ IF cv.t = "obj" THEN Go(OpToPrim(cv, "string"), k)
     ELSE ObjLitDefine(fr.pn, KeyOfPrim(cv), fr.a, rest)
\* CreateDataPropertyOrThrow; the non-computed key __proto__ sets the prototype instead (B.3.1)
RetObjectValue ==
  /\ fr.f = "objv"
  /\ IF fr.key = S_proto /\ ~N(fr.pn).computed /\ ~N(fr.pn).shorthand
     THEN IF cv.t = "obj" THEN GoH(Ret(Empty), rest, [heap EXCEPT ![fr.a].proto = cv.a])
          ELSE IF cv.t = "null" THEN GoH(Ret(Empty), rest, [heap EXCEPT ![fr.a].proto = 0])
          ELSE Go(Ret(Empty), rest)
     ELSE GoH(Ret(Empty), rest, [heap EXCEPT ![fr.a] = DefineOwn(@, DataProp(fr.key, cv))])
\* 7.3.26 CopyDataProperties(target, source, {}) for a spread property: data properties only
RetObjectSpread ==
  /\ fr.f = "objspread"
  /\ IF IsNullish(cv) \/ cv.t \in {"bool", "num", "sym"} THEN Go(Ret(Empty), rest)
     ELSE IF cv.t = "str"
     THEN GoH(Ret(Empty), rest,
              [heap EXCEPT ![fr.a].props = @ \o [i \in 1..Len(cv.s) |-> DataProp(NumToStr(Num(i - 1)), Str(<<cv.s[i]>>))]])
     ELSE LET src == heap[cv.a]
              keys == SelectSeq(OwnKeys(src), LAMBDA x : OwnDesc(src, x)[1].e)
          IN IF src.cls \notin {"ord", "arr", "err", "args"} \/ \E i \in DOMAIN keys : OwnDesc(src, keys[i])[1].acc
             THEN OutOfModel("spread of accessor or exotic object")
             ELSE LET RECURSIVE Copy(_, _)
                      Copy(o, i) == IF i > Len(keys) THEN o
                                    ELSE Copy(DefineOwn(o, DataProp(keys[i], OwnDesc(src, keys[i])[1].v)), i + 1)
                  IN GoH(Ret(Empty), rest, [heap EXCEPT ![fr.a] = Copy(@, 1)])

ExtraRetFrames == {"objlit", "objk", "objv", "objspread"}
ExtraRetRules ==
  CASE fr.f = "objlit" -> RetObjectLiteral
    [] fr.f = "objk" -> RetObjectKey
    [] fr.f = "objv" -> RetObjectValue
    [] fr.f = "objspread" -> RetObjectSpread
ExtraAbrFrames == {}
ExtraAbrRules == FALSE
ExtraOpRules == OutOfModel("no rule for operation " \o c.op)
ExtraCallRules == OutOfModel("no rule for callee class " \o heap[c.f.a].cls)

-----------------------------------------------------------------------------
(* Calls (ECMA-262 10.2 ordinary function objects, 13.3.6 EvaluateCall, 13.3.5 EvaluateNew) *)

\* 13.3.6.2 EvaluateCall: the callee reference has been evaluated
RetCalleeReference ==
  /\ fr.f = "call_r"
  /\ IF cv.t = "ref"
     THEN Go(OpGetV(cv), <<[f |-> "call_f", e |-> fr.e, n |-> fr.n, this |-> IF cv.rk = "prop" THEN cv.this ELSE Undef]>> \o rest)
     ELSE Go(Ret(cv), <<[f |-> "call_f", e |-> fr.e, n |-> fr.n, this |-> Undef]>> \o rest)
\* callee value known; an optional call ?.() on a nullish callee short-circuits the chain
RetCallee ==
  /\ fr.f = "call_f"
  /\ IF N(fr.n).optional /\ IsNullish(cv) THEN Go(Abr("optshort", Undef, ""), rest)
     ELSE Go(Ret(Empty), <<[f |-> "args", e |-> fr.e, n |-> fr.n, fv |-> cv, this |-> fr.this, i |-> 0, acc |-> <<>>, kind |-> "call"]>> \o rest)
RetNewCallee ==
  /\ fr.f = "new_f"
  /\ Go(Ret(Empty), <<[f |-> "args", e |-> fr.e, n |-> fr.n, fv |-> cv, this |-> Undef, i |-> 0, acc |-> <<>>, kind |-> "new"]>> \o rest)

\* 13.3.8.1 ArgumentListEvaluation, then the call proper.  The callee is checked after the arguments
\* were evaluated (13.3.6.2 steps 3-5).
RetArguments ==
  /\ fr.f = "args"
  /\ LET as == N(fr.n).args
         acc == IF fr.i = 0 THEN fr.acc ELSE IF cv.t = "list" THEN fr.acc \o cv.l ELSE Append(fr.acc, cv)
         j == fr.i + 1
     IN IF Len(acc) > MaxArrayLen THEN OutOfModel("too many arguments")
        ELSE IF j <= Len(as)
        THEN IF N(as[j]).t = "spread"
             THEN Go(Ev(N(as[j]).e), <<[f |-> "spread", e |-> fr.e], [fr EXCEPT !.i = j, !.acc = acc]>> \o rest)
             ELSE Go(Ev(as[j]), <<[fr EXCEPT !.i = j, !.acc = acc]>> \o rest)
        ELSE CASE fr.kind = "call" ->
                    IF IsCallable(heap, fr.fv) THEN Go(CallC(fr.fv, fr.this, acc, Undef), rest)
                    ELSE ThrowErr("TypeError", rest)
               [] fr.kind = "new" ->
                    IF IsConstructor(heap, fr.fv) THEN Go(CallC(fr.fv, Undef, acc, fr.fv), rest)
                    ELSE ThrowErr("TypeError", rest)
               [] fr.kind = "print" ->
                    /\ out' = Append(out, [i \in 1..Len(acc) |-> Render(heap, aux.sd, acc[i])])
                    /\ c' = Ret(Undef) /\ k' = rest
                    /\ UNCHANGED <<env, envs, heap, aux>>
               [] fr.kind = "super" ->
                    \* 13.3.7.1 SuperCall: GetSuperConstructor = [[GetPrototypeOf]] of the active function
                    LET te == ThisEnvOf(envs, env)
                        sup == IF te = 0 THEN 0 ELSE heap[envs[te].fe[1].fobj].proto
                    IN IF te = 0 THEN OutOfModel("super() outside constructor")
                       ELSE IF sup = 0 \/ ~IsConstructor(heap, Obj(sup)) THEN ThrowErr("TypeError", rest)
                       ELSE Go(CallC(Obj(sup), Undef, acc, envs[te].fe[1].nt), <<[f |-> "super_r", e |-> fr.e, te |-> te]>> \o rest)

\* 10.1.14 GetPrototypeFromConstructor(newTarget, default): address, or -1 when not modelled
ProtoFromCtor(nt, dflt) ==
  LET d == FindProp(heap, nt.a, S_prototype)
  IN IF Len(d) = 0 THEN dflt
     ELSE IF d[1].acc \/ d[1].v.t = "oom" THEN -1
     ELSE IF d[1].v.t = "obj" THEN d[1].v.a ELSE dflt

\* 10.4.4.6 CreateUnmappedArgumentsObject (callee/caller poison pills and @@iterator are not modelled)
ArgsObj(args) ==
  [cls |-> "args", proto |-> A_ObjectProto, ext |-> TRUE, intr |-> FALSE,
   props |-> [i \in 1..Len(args) |-> DataProp(NumToStr(Num(i - 1)), args[i])]
             \o <<HiddenProp(S_length, Num(Len(args))), HiddenProp(SymKey(1), OOM), HiddenProp(S_callee, OOM)>>]

\* value bound to a simple parameter name: the last parameter of that name wins (10.2.11 step 24-26)
SimpleParamValue(names, args, x) ==
  LET i == CHOOSE j \in DOMAIN names : names[j] = x /\ \A l \in DOMAIN names : names[l] = x => l <= j
  IN IF i <= Len(args) THEN args[i] ELSE Undef

\* the frames that run the body of function node f in environment e, above the call boundary
BodyFrames(f, e, cb) ==
  IF N(f).t = "arrow" /\ N(f).ebody # 0 THEN <<[f |-> "arrowret", e |-> e], cb>>
  ELSE <<[f |-> "seq", e |-> e, n |-> f, i |-> 0, v |-> Empty], cb>>
BodyStart(f) == IF N(f).t = "arrow" /\ N(f).ebody # 0 THEN Ev(N(f).ebody) ELSE Ret(Empty)

\* 10.2.1 [[Call]] / 10.2.2 [[Construct]] of an ECMAScript function object:
\* PrepareForOrdinaryCall, OrdinaryCallBindThis, FunctionDeclarationInstantiation, body
CallClosure ==
  /\ c.f.t = "obj" /\ heap[c.f.a].cls = "fun"
  /\ LET fo == heap[c.f.a]
         f == fo.node
         fn == N(f)
         isNew == c.nt.t # "undef"
         derived == fo.fk = "classderived"
         needObj == isNew /\ ~derived
         proto == IF needObj THEN ProtoFromCtor(c.nt, A_ObjectProto) ELSE 0
         newObj == Obj(Len(heap) + 1)
         h1 == IF needObj THEN Append(heap, OrdObj(proto, <<>>)) ELSE heap
         \* 10.2.1.2 OrdinaryCallBindThis
         ts == IF fo.fk = "arrow" THEN "lexical" ELSE IF isNew /\ derived THEN "uninit" ELSE "init"
         thisv == IF needObj THEN newObj
                  ELSE IF Strict \/ fo.fk = "arrow" THEN c.this
                  ELSE IF IsNullish(c.this) THEN Obj(A_Global) ELSE c.this
         fe == Len(envs) + 1
         names == ParamNames(pid, f)
         simple == SimpleParams(pid, f)
         wantArgs == fn.usesArgs /\ fo.fk # "arrow" /\ "arguments" \notin Range(names)
         h2 == IF wantArgs THEN Append(h1, ArgsObj(c.args)) ELSE h1
         argB == IF wantArgs THEN ("arguments" :> Binding(Obj(Len(h1) + 1), TRUE, IF Strict THEN "const" ELSE "no")) ELSE NoBindings
         pB == IF simple THEN [x \in Range(names) |-> Binding(SimpleParamValue(names, c.args, x), TRUE, "no")]
               ELSE [x \in Range(names) |-> Uninit("no")]
         es1 == Append(envs, FunEnv(fo.env, pB @@ argB, ts, thisv, c.f.a, c.nt))
         cb == [f |-> "callb", e |-> env, new |-> isNew, thisv |-> IF needObj THEN newObj ELSE Undef, fe |-> fe, fk |-> fo.fk]
     IN IF fo.fk \in {"classbase", "classderived"} /\ ~isNew THEN ThrowErr("TypeError", k)
        ELSE IF proto = -1 THEN OutOfModel("accessor prototype")
        ELSE IF ~Strict /\ ~isNew /\ fo.fk # "arrow" /\ IsPrim(c.this) /\ ~IsNullish(c.this) THEN OutOfModel("this wrapper object")
        ELSE IF wantArgs /\ simple /\ ~Strict THEN OutOfModel("mapped arguments object")
        ELSE IF needObj /\ fo.fields # <<>> THEN OutOfModel("fields") \* replaced below when classes are enabled
        ELSE IF simple
        THEN LET r == FDIBody(f, fe, es1, h2)
             IN /\ envs' = r.es /\ heap' = r.h /\ env' = r.e
                /\ c' = BodyStart(f)
                /\ k' = BodyFrames(f, r.e, cb) \o k
                /\ aux' = [aux EXCEPT !.depth = @ + 1]
                /\ UNCHANGED out
        ELSE /\ envs' = es1 /\ heap' = h2 /\ env' = fe
             /\ c' = Ret(Empty)
             /\ k' = <<[f |-> "params", e |-> fe, n |-> f, i |-> 0, args |-> c.args], cb>> \o k
             /\ aux' = [aux EXCEPT !.depth = @ + 1]
             /\ UNCHANGED out

\* 10.2.11 steps 24-26 IteratorBindingInitialization of the formal parameters, left to right:
\* a missing/undefined argument takes the default (evaluated in the function scope, earlier parameters
\* visible, later ones in TDZ); a rest parameter takes the remaining arguments as an array
RetParameters ==
  /\ fr.f = "params"
  /\ LET ps == N(fr.n).params
         j == fr.i + 1
         nxt == <<[fr EXCEPT !.i = j]>> \o rest
     IN IF j > Len(ps)
        THEN LET r == FDIBody(fr.n, fr.e, envs, heap)
             IN /\ envs' = r.es /\ heap' = r.h /\ env' = r.e
                /\ c' = BodyStart(fr.n)
                /\ k' = BodyFrames(fr.n, r.e, Head(rest)) \o Tail(rest)
                /\ UNCHANGED <<out, aux>>
        ELSE LET pa == N(ps[j])
                 val == IF j <= Len(fr.args) THEN fr.args[j] ELSE Undef
             IN IF pa.rest
                THEN GoH(OpBind(pa.target, Obj(Len(heap) + 1), "init"), nxt,
                         Append(heap, ArrObj(IF j <= Len(fr.args) THEN SubSeq(fr.args, j, Len(fr.args)) ELSE <<>>)))
                ELSE IF val.t = "undef" /\ pa.default # 0
                THEN Go(Ev(pa.default), <<[f |-> "decl_v", e |-> fr.e, pat |-> pa.target, mode |-> "init"]>> \o nxt)
                ELSE Go(OpBind(pa.target, val, "init"), nxt)

RetArrowBody == fr.f = "arrowret" /\ Go(Abr("return", cv, ""), rest)

\* the value of the this binding of function record te, or a ReferenceError (9.1.1.3.4 GetThisBinding)
ThisOrThrow(te, kk, e0) ==
  IF envs[te].fe[1].ts = "uninit"
  THEN /\ heap' = Append(heap, ErrObj("ReferenceError", OOM))
       /\ c' = Abr("throw", Obj(Len(heap) + 1), "") /\ k' = kk /\ env' = e0
       /\ aux' = [aux EXCEPT !.depth = @ - 1]
       /\ UNCHANGED <<envs, out>>
  ELSE /\ c' = Ret(envs[te].fe[1].this) /\ k' = kk /\ env' = e0
       /\ aux' = [aux EXCEPT !.depth = @ - 1]
       /\ UNCHANGED <<envs, heap, out>>
Leave(cc, kk, e0) == c' = cc /\ k' = kk /\ env' = e0 /\ aux' = [aux EXCEPT !.depth = @ - 1] /\ UNCHANGED <<envs, heap, out>>

\* 10.2.1 step 7-9 / 10.2.2 steps 9-14: the body ran to its end (result undefined / the constructed object)
RetCallBoundary ==
  /\ fr.f = "callb"
  /\ IF ~fr.new THEN Leave(Ret(Undef), rest, fr.e)
     ELSE IF fr.fk = "classderived" THEN ThisOrThrow(fr.fe, rest, fr.e)
     ELSE Leave(Ret(fr.thisv), rest, fr.e)
\* a return completion reaches the boundary; [[Construct]]: an object result wins, a derived constructor
\* may only return an object or undefined
AbrCallBoundary ==
  /\ fr.f = "callb"
  /\ IF ak = "return"
     THEN IF ~fr.new \/ c.v.t = "obj" THEN Leave(Ret(c.v), rest, fr.e)
          ELSE IF fr.fk # "classderived" THEN Leave(Ret(fr.thisv), rest, fr.e)
          ELSE IF c.v.t # "undef"
          THEN /\ heap' = Append(heap, ErrObj("TypeError", OOM))
               /\ c' = Abr("throw", Obj(Len(heap) + 1), "") /\ k' = rest /\ env' = fr.e
               /\ aux' = [aux EXCEPT !.depth = @ - 1]
               /\ UNCHANGED <<envs, out>>
          ELSE ThisOrThrow(fr.fe, rest, fr.e)
     ELSE Leave(c, rest, fr.e)

\* 7.3.13 Call: the callee is not callable
CallNotCallable == ~IsCallable(heap, c.f) /\ ThrowErr("TypeError", k)

\* ToString of a primitive argument for built-ins (objects would run user code: not modelled there)
ArgOr(args, i) == IF i <= Len(args) THEN args[i] ELSE Undef

\* Built-in functions with native rules
CallNative ==
  /\ c.f.t = "obj" /\ heap[c.f.a].cls = "nat"
  /\ LET nm == heap[c.f.a].nm
         a1 == ArgOr(c.args, 1)
         a2 == ArgOr(c.args, 2)
     IN CASE nm \in {"Error", "TypeError", "ReferenceError", "RangeError", "SyntaxError"} ->
               \* 20.5.1.1 Error(message): also callable without new
               LET nt == IF c.nt.t = "undef" THEN c.f ELSE c.nt
                   proto == ProtoFromCtor(nt, ErrorProtoOf(nm))
               IN IF proto = -1 \/ a1.t = "obj" THEN OutOfModel("Error constructor argument")
                  ELSE IF a1.t = "sym" THEN ThrowErr("TypeError", k)
                  ELSE GoH(Ret(Obj(Len(heap) + 1)), k,
                           Append(heap, [ErrObj(nm, Undef) EXCEPT !.proto = proto,
                                           !.props = IF a1.t = "undef" THEN <<>> ELSE <<HiddenProp(S_message, Str(PrimToStr(a1)))>>]))
          [] nm = "Object.prototype.valueOf" ->
               IF c.this.t = "obj" THEN Go(Ret(c.this), k)
               ELSE IF IsNullish(c.this) THEN ThrowErr("TypeError", k) ELSE OutOfModel("wrapper object")
          [] nm = "Object.prototype.toString" ->
               \* 20.1.3.6 (no user-visible @@toStringTag exists in the fragment)
               IF c.this.t # "obj" THEN OutOfModel("toString of primitive")
               ELSE LET cl == heap[c.this.a].cls
                    IN CASE cl = "ord" -> Go(Ret(Str(S_objObject)), k)
                         [] cl = "arr" -> Go(Ret(Str(S_objArray)), k)
                         [] cl \in {"fun", "nat", "bound"} -> Go(Ret(Str(S_objFunction)), k)
                         [] cl = "err" -> Go(Ret(Str(S_objError)), k)
                         [] cl = "args" -> Go(Ret(Str(S_objArguments)), k)
                         [] OTHER -> OutOfModel("toString of exotic object")
          [] nm = "Array.isArray" -> Go(Ret(Bool(a1.t = "obj" /\ heap[a1.a].cls = "arr")), k)
          [] nm = "Symbol" ->
               \* 20.4.1.1 Symbol(description)
               IF c.nt.t # "undef" THEN ThrowErr("TypeError", k)
               ELSE IF a1.t \in {"obj", "sym"} THEN OutOfModel("Symbol description")
               ELSE /\ aux' = [aux EXCEPT !.nsym = @ + 1, !.sd = Append(@, IF a1.t = "undef" THEN <<>> ELSE PrimToStr(a1))]
                    /\ c' = Ret(Sym(aux.nsym + 1))
                    /\ UNCHANGED <<env, k, envs, heap, out>>
          [] OTHER -> OutOfModel("built-in " \o nm)

CallRules ==
  /\ c.m = "call"
  /\ CASE ~IsCallable(heap, c.f) -> CallNotCallable
       [] heap[c.f.a].cls = "fun" -> CallClosure
       [] heap[c.f.a].cls = "nat" -> CallNative
       [] OTHER -> ExtraCallRules

-----------------------------------------------------------------------------
(* Evaluation of statements: c = Ev(n) yields Ret(completion value or Empty) or an abrupt completion *)

\* labels of the LabelledStatements directly enclosing the statement being started (14.13.4 labelSet)
RECURSIVE LabelsOnTop(_)
LabelsOnTop(kk) == IF kk # <<>> /\ kk[1].f = "label" THEN {kk[1].l} \cup LabelsOnTop(Tail(kk)) ELSE {}

\* 16.1.6 ScriptEvaluation: GlobalDeclarationInstantiation, then the statement list
EvScript ==
  /\ nd.t = "program"
  /\ LET r == GlobalInst(nd.body, envs, heap)
     IN /\ envs' = r.es
        /\ heap' = r.h
        /\ c' = Ret(Empty)
        /\ k' = Push([f |-> "seq", e |-> env, n |-> c.n, i |-> 0, v |-> Empty])
        /\ UNCHANGED <<env, out, aux>>

\* 14.3.1 let/const and 14.3.2 var declarations: the declarators left to right
EvDeclaration ==
  /\ nd.t \in {"var", "let", "const"}
  /\ Go(Ret(Empty), Push([f |-> "decls", e |-> env, n |-> c.n, i |-> 0]))

\* 15.2.6 a function declaration evaluates to empty (it was instantiated on scope entry)
EvFunctionDeclaration == nd.t \in {"function", "generator", "empty"} /\ Go(Ret(Empty), k)

\* 15.7.15 class declaration: BindingClassDeclarationEvaluation
EvClassDeclaration == nd.t = "class" /\ Go(Ret(Empty), Push([f |-> "class0", e |-> env, n |-> c.n]))

\* 14.5 ExpressionStatement: the completion value is the value of the expression
EvExpressionStatement == nd.t = "expr" /\ Go(Ev(nd.e), k)

\* 14.2 Block: BlockDeclarationInstantiation in a new declarative record when the block declares anything
EvBlock ==
  /\ nd.t = "block"
  /\ LET r == BlockInst(nd.body, env, envs, heap)
     IN /\ envs' = r.es
        /\ heap' = r.h
        /\ env' = IF r.need THEN Len(envs) + 1 ELSE env
        /\ c' = Ret(Empty)
        /\ k' = Push([f |-> "seq", e |-> env, n |-> c.n, i |-> 0, v |-> Empty])
        /\ UNCHANGED <<out, aux>>

\* 14.6 if
EvIf == nd.t = "if" /\ Go(Ev(nd.c), Push([f |-> "if", e |-> env, n |-> c.n]))

\* 14.7.3 while, 14.7.2 do-while: frames carry V (the completion value so far) and the label set
EvWhile ==
  /\ nd.t = "while"
  /\ Go(Ev(nd.c), Push([f |-> "loop_c", e |-> env, n |-> c.n, v |-> Undef, ls |-> LabelsOnTop(k)]))
EvDoWhile ==
  /\ nd.t = "dowhile"
  /\ Go(Ev(nd.s), Push([f |-> "loop_b", e |-> env, n |-> c.n, v |-> Undef, ls |-> LabelsOnTop(k)]))

\* 14.7.4.2 ForLoopEvaluation: a let/const head gets its own record (loopEnv) whose let names are
\* copied per iteration (CreatePerIterationEnvironment)
EvFor ==
  /\ nd.t = "for"
  /\ LET lexical == nd.init # 0 /\ N(nd.init).t \in {"let", "const"}
         names == IF lexical THEN DeclNames(pid, nd.init) ELSE <<>>
         per == IF lexical /\ N(nd.init).t = "let" THEN Range(names) ELSE {}
         frm == [f |-> "for_i", e |-> env, n |-> c.n, v |-> Undef, ls |-> LabelsOnTop(k), per |-> per, ie |-> 0]
     IN IF lexical
        THEN /\ envs' = Append(envs, DeclEnv(env, [x \in Range(names) |-> Uninit(IF N(nd.init).t = "const" THEN "const" ELSE "no")]))
             /\ env' = Len(envs) + 1
             /\ c' = Ev(nd.init)
             /\ k' = Push(frm)
             /\ UNCHANGED <<heap, out, aux>>
        ELSE IF nd.init # 0 THEN Go(Ev(nd.init), Push(frm))
        ELSE Go(Ret(Empty), Push(frm))

\* 14.7.5.6 ForIn/OfHeadEvaluation: the subject expression is evaluated in a TDZ record holding the
\* names of a lexical head
EvForInOf ==
  /\ nd.t \in {"forin", "forof"}
  /\ LET frm == [f |-> "forhead", e |-> env, n |-> c.n, ls |-> LabelsOnTop(k)]
         subject == IF nd.t = "forin" THEN nd.obj ELSE nd.iter
     IN IF nd.kind \in {"let", "const"}
        THEN /\ envs' = Append(envs, DeclEnv(env, [x \in Range(BoundNames(pid, nd.target)) |-> Uninit("no")]))
             /\ env' = Len(envs) + 1
             /\ c' = Ev(subject)
             /\ k' = Push(frm)
             /\ UNCHANGED <<heap, out, aux>>
        ELSE Go(Ev(subject), Push(frm))

\* 14.13 LabelledStatement
EvLabelled == nd.t = "labeled" /\ Go(Ev(nd.s), Push([f |-> "label", e |-> env, l |-> nd.l]))

\* 14.8 continue, 14.9 break: abrupt completions with an empty value
EvBreak == nd.t = "break" /\ Go(Abr("break", Empty, nd.l), k)
EvContinue == nd.t = "continue" /\ Go(Abr("continue", Empty, nd.l), k)

\* 14.10 return
EvReturn ==
  /\ nd.t = "return"
  /\ IF nd.e = 0 THEN Go(Abr("return", Undef, ""), k)
     ELSE Go(Ev(nd.e), Push([f |-> "return", e |-> env]))

\* 14.14 throw
EvThrow == nd.t = "throw" /\ Go(Ev(nd.e), Push([f |-> "throw", e |-> env]))

\* 14.15 try
EvTry == nd.t = "try" /\ Go(Ev(nd.b), Push([f |-> "try", e |-> env, n |-> c.n]))

\* 14.12 switch: the discriminant, then CaseBlockEvaluation
EvSwitch == nd.t = "switch" /\ Go(Ev(nd.d), Push([f |-> "sw_d", e |-> env, n |-> c.n]))

\* the host function print(...args): arguments left to right, then one trace line
EvPrint ==
  /\ nd.t = "print"
  /\ Go(Ret(Empty), Push([f |-> "args", e |-> env, n |-> c.n, fv |-> Undef, this |-> Undef, i |-> 0, acc |-> <<>>, kind |-> "print"]))

SupportedKinds ==
  {"lit", "ident", "this", "newtarget", "fn", "genfn", "arrow", "member", "super_member", "array", "object",
   "template", "unary", "update", "binary", "logical", "cond", "seq", "assign", "call", "new", "optchain",
   "super_call", "yield", "classexpr", "program", "var", "let", "const", "function", "generator", "empty",
   "class", "expr", "block", "if", "while", "dowhile", "for", "forin", "forof", "labeled", "break", "continue",
   "return", "throw", "try", "switch", "print", "hole"}
\* node kinds without a rule (await, with, eval, async functions): outside the fragment
EvUnsupported == nd.t \notin SupportedKinds /\ OutOfModel("unsupported node " \o nd.t)

\* an elision in an array literal
EvHole == nd.t = "hole" /\ Go(Ret(Hole), k)

\* dispatch on the node kind: exactly one rule applies to each kind
EvRules ==
  /\ c.m = "ev"
  /\ CASE nd.t = "lit" -> EvLiteral
       [] nd.t = "ident" -> EvIdentifier
       [] nd.t = "this" -> EvThis
       [] nd.t = "newtarget" -> EvNewTarget
       [] nd.t \in {"fn","genfn","arrow"} -> EvFunctionExpression
       [] nd.t \in {"member","super_member"} -> EvMemberValue
       [] nd.t = "array" -> EvArrayLiteral
       [] nd.t = "object" -> EvObjectLiteral
       [] nd.t = "template" -> EvTemplate
       [] nd.t = "unary" -> EvUnary
       [] nd.t = "update" -> EvUpdate
       [] nd.t = "binary" -> EvBinary
       [] nd.t = "logical" -> EvLogical
       [] nd.t = "cond" -> EvConditional
       [] nd.t = "seq" -> EvComma
       [] nd.t = "assign" -> EvAssignment
       [] nd.t = "call" -> EvCall
       [] nd.t = "new" -> EvNew
       [] nd.t = "optchain" -> EvOptChain
       [] nd.t = "super_call" -> EvSuperCall
       [] nd.t = "yield" -> EvYield
       [] nd.t = "classexpr" -> EvClassExpr
       [] nd.t = "program" -> EvScript
       [] nd.t \in {"var","let","const"} -> EvDeclaration
       [] nd.t \in {"function","generator","empty"} -> EvFunctionDeclaration
       [] nd.t = "class" -> EvClassDeclaration
       [] nd.t = "expr" -> EvExpressionStatement
       [] nd.t = "block" -> EvBlock
       [] nd.t = "if" -> EvIf
       [] nd.t = "while" -> EvWhile
       [] nd.t = "dowhile" -> EvDoWhile
       [] nd.t = "for" -> EvFor
       [] nd.t \in {"forin","forof"} -> EvForInOf
       [] nd.t = "labeled" -> EvLabelled
       [] nd.t = "break" -> EvBreak
       [] nd.t = "continue" -> EvContinue
       [] nd.t = "return" -> EvReturn
       [] nd.t = "throw" -> EvThrow
       [] nd.t = "try" -> EvTry
       [] nd.t = "switch" -> EvSwitch
       [] nd.t = "print" -> EvPrint
       [] nd.t = "hole" -> EvHole
       [] OTHER -> EvUnsupported

RefRules ==
  /\ c.m = "evref"
  /\ CASE nd.t = "ident" -> RefIdentifier
       [] nd.t = "member" -> RefMember
       [] nd.t = "super_member" -> RefSuperMember
       [] OTHER -> RefOther

-----------------------------------------------------------------------------
(* The transition relation *)

\* a frame kind without a continuation rule: the construct is outside the modelled fragment
RetUnknownFrame == OutOfModel("no rule for frame " \o fr.f)

\* dispatch on the kind of the top frame
RetRules ==
  /\ c.m = "ret" /\ c.v.t # "oom" /\ k # <<>>
  /\ CASE fr.f = "getv" -> RetGetValue
       [] fr.f = "ref_o" -> RetMemberBase
       [] fr.f = "ref_k" -> RetMemberKey
       [] fr.f = "sref_k" -> RetSuperKey
       [] fr.f = "arr" -> RetArrayElement
       [] fr.f = "spread" -> RetSpread
       [] fr.f = "un" -> RetUnary
       [] fr.f = "delete" -> RetDelete
       [] fr.f = "upd_r" -> RetUpdateRef
       [] fr.f = "upd_v" -> RetUpdateValue
       [] fr.f = "bin1" -> RetBinaryLeft
       [] fr.f = "bin2" -> RetBinaryRight
       [] fr.f = "binp" -> RetBinaryPrimitive
       [] fr.f = "log" -> RetLogical
       [] fr.f = "cond" -> RetConditional
       [] fr.f = "comma" -> RetComma
       [] fr.f = "asg_r" -> RetAssignRef
       [] fr.f = "asg_v" -> RetAssignValue
       [] fr.f = "casg_l" -> RetCompoundLeft
       [] fr.f = "casg_r" -> RetCompoundRight
       [] fr.f = "asg_pat" -> RetAssignPattern
       [] fr.f = "constv" -> RetConst
       [] fr.f = "tobool" -> RetToBoolean
       [] fr.f = "tmpl" -> RetTemplate
       [] fr.f = "optchain" -> RetOptChain
       [] fr.f = "seq" -> RetStatementList
       [] fr.f = "decls" -> RetDeclarators
       [] fr.f = "decl_v" -> RetDeclaratorValue
       [] fr.f = "if" -> RetIfTest
       [] fr.f = "ifv" -> RetIfBranch
       [] fr.f = "loop_c" -> RetLoopTest
       [] fr.f = "loop_b" -> RetLoopBody
       [] fr.f = "for_i" -> RetForInit
       [] fr.f = "for_c" -> RetForTest
       [] fr.f = "for_b" -> RetForBody
       [] fr.f = "for_u" -> RetForUpdate
       [] fr.f = "label" -> RetLabelled
       [] fr.f = "return" -> RetReturn
       [] fr.f = "throw" -> RetThrow
       [] fr.f \in {"try","catch"} -> RetTryBlock
       [] fr.f = "catch_b" -> RetCatchBound
       [] fr.f = "fin" -> RetFinally
       [] fr.f = "sw_d" -> RetSwitchDiscriminant
       [] fr.f = "sw_end" -> RetSwitchEnd
       [] fr.f = "sw_t" -> RetSwitchTest
       [] fr.f = "sw_b" -> RetSwitchBody
       [] fr.f = "getv_k" -> RetGetValueKey
       [] fr.f = "putv_k" -> RetPutValueKey
       [] fr.f = "toprim_r" -> RetToPrimitiveExotic
       [] fr.f = "ordprim_m" -> RetOrdinaryToPrimitiveMethod
       [] fr.f = "ordprim_r" -> RetOrdinaryToPrimitiveResult
       [] fr.f = "bind_ref" -> RetBindReference
       [] fr.f = "call_r" -> RetCalleeReference
       [] fr.f = "call_f" -> RetCallee
       [] fr.f = "new_f" -> RetNewCallee
       [] fr.f = "args" -> RetArguments
       [] fr.f = "params" -> RetParameters
       [] fr.f = "arrowret" -> RetArrowBody
       [] fr.f = "callb" -> RetCallBoundary
       [] fr.f \in ExtraRetFrames -> ExtraRetRules
       [] OTHER -> RetUnknownFrame

AbrRules ==
  /\ c.m = "abr" /\ k # <<>>
  /\ CASE fr.f \in {"loop_b", "for_b"} -> AbrLoop
       [] fr.f = "label" -> AbrLabelled
       [] fr.f = "sw_b" -> AbrSwitch
       [] fr.f = "try" -> AbrTry
       [] fr.f = "catch" -> AbrCatch
       [] fr.f = "optchain" -> AbrOptChain
       [] fr.f = "callb" -> AbrCallBoundary
       [] fr.f \in ExtraAbrFrames -> ExtraAbrRules
       [] OTHER -> AbrPass

OpRules ==
  /\ c.m = "op"
  /\ CASE c.op = "getv" -> OpGetValue
       [] c.op = "putv" -> OpPutValue
       [] c.op = "toprim" -> OpToPrimitive
       [] c.op = "bind" /\ N(c.pat).t = "ident" -> OpBindIdentifier
       [] c.op = "bind" /\ N(c.pat).t \in {"member", "super_member"} -> OpBindMember
       [] OTHER -> ExtraOpRules

\* the value left the modelled domain (Values.tla OOM)
RetOutOfModelValue == c.m = "ret" /\ c.v.t = "oom" /\ OutOfModel("value outside the modelled domain")

\* 16.1.6 ScriptEvaluation ends: normal completion (empty |-> undefined) or an uncaught throw
FinishNormal == c.m = "ret" /\ c.v.t # "oom" /\ k = <<>> /\ c' = Done("value", UpdateEmpty(c.v, Undef)) /\ UNCHANGED <<env, k, envs, heap, out, aux>>
FinishThrow == c.m = "abr" /\ k = <<>> /\ ak = "throw" /\ c' = Done("throw", c.v) /\ UNCHANGED <<env, k, envs, heap, out, aux>>

LimitHit == steps >= MaxSteps \/ Len(heap) > MaxHeap \/ Len(envs) > MaxEnvs \/ Len(k) > MaxKont

Step ==
  CASE c.m = "ev" -> EvRules
    [] c.m = "evref" -> RefRules
    [] c.m = "ret" /\ c.v.t = "oom" -> RetOutOfModelValue
    [] c.m = "ret" /\ k = <<>> -> FinishNormal
    [] c.m = "ret" -> RetRules
    [] c.m = "abr" /\ k = <<>> -> FinishThrow
    [] c.m = "abr" -> AbrRules
    [] c.m = "op" -> OpRules
    [] c.m = "call" -> CallRules

Next ==
  \/ /\ c.m # "done"
     /\ IF LimitHit THEN OutOfModel("resource bound") ELSE Step
     /\ steps' = steps + 1
     /\ pid' = pid
  \/ /\ c.m = "done"
     /\ UNCHANGED vars

Spec == Init /\ [][Next]_vars

-----------------------------------------------------------------------------
(* Invariants checked by TLC on every state of every run (the model gate) *)

Modes == {"ev", "evref", "ret", "abr", "op", "call", "done"}
ModeOK == c.m \in Modes

\* environment chain well-formed: parents precede children (acyclic, rooted in the global record 1)
EnvChainOK ==
  /\ env \in 1..Len(envs)
  /\ envs[1].par = 0
  /\ \A e \in 2..Len(envs) : envs[e].par \in 1..(e - 1)
  /\ \A i \in DOMAIN k : k[i].e \in 1..Len(envs)

\* TDZ discipline: the poison value of an uninitialised binding never flows into the control, and a
\* binding holds it iff it is uninitialised
NoTdzLeak ==
  /\ c.m = "ret" => c.v.t # "tdz"
  /\ c.m = "abr" => c.v.t # "tdz"
  /\ c.m = "call" => \A i \in DOMAIN c.args : c.args[i].t # "tdz"
BindingsOK ==
  \A e \in DOMAIN envs : \A x \in DOMAIN envs[e].b : (envs[e].b[x].v.t = "tdz") = ~envs[e].b[x].init

\* continuation balanced: the number of call boundaries equals the call depth; every pending
\* break/continue/return completion has a frame that will consume it; at the end nothing is left
KontOK ==
  /\ Cardinality({i \in DOMAIN k : k[i].f \in {"callb", "genb"}}) = aux.depth
  /\ (c.m = "abr" /\ c.kind = "return") => \E i \in DOMAIN k : k[i].f \in {"callb", "genb"}
  /\ (c.m = "abr" /\ c.kind \in {"break", "continue"}) =>
        \E i \in DOMAIN k : \/ k[i].f \in {"loop_b", "for_b", "forx"}
                            \/ (k[i].f = "sw_b" /\ c.kind = "break")
                            \/ (k[i].f = "label" /\ k[i].l = c.l)
  /\ (c.m = "abr" /\ c.kind = "optshort") => \E i \in DOMAIN k : k[i].f = "optchain"
  /\ (c.m = "done" /\ c.comp \in {"value", "throw"}) => k = <<>> /\ aux.depth = 0

\* heap well-formed: prototype links and function environments point to existing things
HeapOK ==
  \A a \in DOMAIN heap :
     /\ heap[a].proto \in 0..Len(heap)
     /\ heap[a].cls = "fun" => heap[a].env \in 1..Len(envs)

\* the print trace only contains rendered values
OutOK == \A i \in DOMAIN out : \A j \in DOMAIN out[i] : out[i][j].r \in {"u", "null", "b", "n", "s", "y", "o"}

\* one RESULT line per finished program
Emit ==
  c.m = "done" =>
    PrintT(<<"RESULT", ToJson([pid |-> pid, steps |-> steps, out |-> out, comp |-> c.comp,
                               v |-> IF c.comp \in {"value", "throw"} THEN Render(heap, aux.sd, c.v) ELSE c.v])>>)

=============================================================================
