------------------------------- MODULE JsCore -------------------------------
(***************************************************************************)
(* Reference semantics of MiniJS (DESIGN.md Appendix C) as a small-step    *)
(* CEK abstract machine: control c, environment pointer env, continuation  *)
(* k (a stack of frames), environment records envs, object heap, print     *)
(* trace out.  One action per evaluation rule, named after (and citing)    *)
(* the ECMA-262 clause it transcribes.                                      *)
(*                                                                         *)
(* Programs are flattened JSON ASTs (tools/jscore.py: flatten): a node     *)
(* table per program, children referenced by index (0 = absent), node      *)
(* indices in source pre-order.  All programs of a batch are evaluated in  *)
(* one TLC run: pid is chosen in Init, every behaviour is one program's    *)
(* deterministic evaluation; when it is done an invariant prints the       *)
(* RESULT line the checks compare with the real engine.                    *)
(*                                                                         *)
(* A run that leaves the modelled domain (number outside Values.tla's      *)
(* subset, built-in without a native rule, resource bounds) ends in        *)
(* completion "OutOfModel": skipped and counted, never compared.           *)
(***************************************************************************)
EXTENDS Values, TLC, Json, IOUtils

CONSTANTS MaxSteps, MaxHeap, MaxEnvs, MaxKont

Programs == ndJsonDeserialize(IOEnv.PROGRAMS)
NProg == Len(Programs)
NP(p, i) == Programs[p].nodes[i]

VARIABLES pid,    \* index of the program under evaluation
          c,      \* control: [m |-> "ev"|"evref"|"ret"|"abr"|"op"|"call"|"done", ...]
          env,    \* current lexical environment (index into envs)
          k,      \* continuation: sequence of frames, top first
          envs,   \* environment records
          heap,   \* objects
          out,    \* print trace
          steps,  \* number of machine steps taken
          aux     \* [depth |-> number of active calls, nsym |-> symbols allocated, sd |-> symbol descriptions]
vars == <<pid, c, env, k, envs, heap, out, steps, aux>>

N(i) == NP(pid, i)
Strict == Programs[pid].strict

Range(s) == {s[i] : i \in DOMAIN s}
HasDup(s) == \E i, j \in DOMAIN s : i < j /\ s[i] = s[j]
Last(s) == s[Len(s)]
Front(s) == SubSeq(s, 1, Len(s) - 1)

FunctionKinds == {"function", "generator", "fn", "genfn", "arrow", "method"}
LoopKinds == {"while", "dowhile", "for", "forin", "forof"}

-----------------------------------------------------------------------------
(* Static semantics (ECMA-262 8.2 Scope Analysis): pure functions of the node table *)

RECURSIVE BoundNames(_, _), BoundNamesL(_, _)
\* 8.2.1 BoundNames of a binding pattern, as a sequence (duplicates kept)
BoundNames(p, n) ==
  IF n = 0 THEN <<>>
  ELSE LET nd == NP(p, n)
       IN CASE nd.t = "ident" -> <<nd.n>>
            [] nd.t = "arraypat" -> BoundNamesL(p, nd.elems)
            [] nd.t = "objectpat" -> BoundNamesL(p, nd.props) \o BoundNames(p, nd.rest)
            [] nd.t \in {"pelem", "prest", "pprop"} -> BoundNames(p, nd.target)
            [] OTHER -> <<>>
BoundNamesL(p, ids) ==
  IF ids = <<>> THEN <<>> ELSE BoundNames(p, Head(ids)) \o BoundNamesL(p, Tail(ids))

\* bound names of a var/let/const statement
DeclNames(p, n) ==
  LET ds == NP(p, n).decls IN BoundNamesL(p, [i \in 1..Len(ds) |-> NP(p, ds[i]).target])

RECURSIVE VarNames(_, _), VarNamesL(_, _)
\* 8.2.6 VarDeclaredNames of a statement (function declarations are handled by TopFunDecls)
VarNames(p, n) ==
  IF n = 0 THEN {}
  ELSE LET nd == NP(p, n)
       IN CASE nd.t = "var" -> Range(DeclNames(p, n))
            [] nd.t \in {"block", "case"} -> VarNamesL(p, nd.body)
            [] nd.t = "if" -> VarNames(p, nd.a) \cup VarNames(p, nd.b)
            [] nd.t \in {"while", "dowhile", "labeled"} -> VarNames(p, nd.s)
            [] nd.t = "for" -> (IF nd.init # 0 /\ NP(p, nd.init).t = "var" THEN VarNames(p, nd.init) ELSE {})
                                 \cup VarNames(p, nd.s)
            [] nd.t \in {"forin", "forof"} -> (IF nd.kind = "var" THEN Range(BoundNames(p, nd.target)) ELSE {})
                                 \cup VarNames(p, nd.s)
            [] nd.t = "try" -> VarNames(p, nd.b) \cup VarNames(p, nd.h) \cup VarNames(p, nd.f)
            [] nd.t = "switch" -> VarNamesL(p, nd.cases)
            [] OTHER -> {}
VarNamesL(p, ids) == UNION {VarNames(p, ids[i]) : i \in DOMAIN ids}

\* function declarations directly contained in a statement list, in source order
FunDeclsIn(p, ids) == SelectSeq(ids, LAMBDA i : NP(p, i).t \in {"function", "generator"})
FunNamesIn(p, ids) == {NP(p, i).name : i \in Range(FunDeclsIn(p, ids))}

RECURSIVE LexDeclsL(_, _)
\* 8.2.5 LexicallyScopedDeclarations of a statement list (let, const, class): <<[n, const]>>
LexDeclsL(p, ids) ==
  IF ids = <<>> THEN <<>>
  ELSE LET nd == NP(p, Head(ids))
           here == CASE nd.t \in {"let", "const"} ->
                          LET ns == DeclNames(p, Head(ids))
                          IN [i \in 1..Len(ns) |-> [n |-> ns[i], const |-> nd.t = "const"]]
                     [] nd.t = "class" -> <<[n |-> nd.name, const |-> FALSE]>>
                     [] OTHER -> <<>>
       IN here \o LexDeclsL(p, Tail(ids))
LexNamesL(p, ids) == LET ds == LexDeclsL(p, ids) IN [i \in 1..Len(ds) |-> ds[i].n]

RECURSIVE ConcatBodies(_, _)
ConcatBodies(p, ids) == IF ids = <<>> THEN <<>> ELSE NP(p, Head(ids)).body \o ConcatBodies(p, Tail(ids))
\* the statements of all clauses of a switch (one lexical scope, 14.12.2)
SwitchStmts(p, n) == ConcatBodies(p, NP(p, n).cases)

RECURSIVE PatHasExpr(_, _)
\* 8.3.? ContainsExpression of a binding pattern
PatHasExpr(p, n) ==
  IF n = 0 THEN FALSE
  ELSE LET nd == NP(p, n)
       IN CASE nd.t = "arraypat" -> \E i \in DOMAIN nd.elems : PatHasExpr(p, nd.elems[i])
            [] nd.t = "objectpat" -> (\E i \in DOMAIN nd.props : PatHasExpr(p, nd.props[i])) \/ PatHasExpr(p, nd.rest)
            [] nd.t = "pelem" -> nd.default # 0 \/ PatHasExpr(p, nd.target)
            [] nd.t = "pprop" -> nd.computed \/ nd.default # 0 \/ PatHasExpr(p, nd.target)
            [] nd.t = "prest" -> PatHasExpr(p, nd.target)
            [] OTHER -> FALSE

ParamTargets(p, f) == LET ps == NP(p, f).params IN [i \in 1..Len(ps) |-> NP(p, ps[i]).target]
ParamNames(p, f) == BoundNamesL(p, ParamTargets(p, f))
\* 15.1.3 IsSimpleParameterList
SimpleParams(p, f) ==
  \A i \in DOMAIN NP(p, f).params :
     LET pa == NP(p, NP(p, f).params[i]) IN pa.default = 0 /\ ~pa.rest /\ NP(p, pa.target).t = "ident"
\* 15.1.2 ContainsExpression of the formal parameters
HasParamExprs(p, f) ==
  \E i \in DOMAIN NP(p, f).params :
     LET pa == NP(p, NP(p, f).params[i]) IN pa.default # 0 \/ PatHasExpr(p, pa.target)

\* the statement list of a function body (an arrow with an expression body has none)
BodyOf(p, f) == NP(p, f).body

-----------------------------------------------------------------------------
(* Early errors (the subset the program generators can provoke).  EarlyErr[p] is TRUE iff   *)
(* program p must be rejected with a SyntaxError before any evaluation.                      *)

Ctx0 == [labels |-> {}, loopLabels |-> {}, pending |-> {}, inLoop |-> FALSE, inSwitch |-> FALSE, inFn |-> FALSE]

\* 8.2.4/14.2.1/16.1.1: duplicate lexical names, or a lexical name that is also var-declared
ScopeClash(lexNames, varNames) == HasDup(lexNames) \/ Range(lexNames) \cap varNames # {}

RECURSIVE EE(_, _, _), EEL(_, _, _)
EEL(p, ids, ctx) == \E i \in DOMAIN ids : ids[i] # 0 /\ EE(p, ids[i], ctx)
EE(p, n, ctx) ==
  LET nd == NP(p, n)
      inner == [ctx EXCEPT !.pending = {}]
  IN CASE nd.t = "program" ->
            \/ ScopeClash(LexNamesL(p, nd.body), VarNamesL(p, nd.body) \cup FunNamesIn(p, nd.body))
            \/ EEL(p, nd.body, ctx)
       [] nd.t \in FunctionKinds ->
            \* 15.2.1, 15.3.1: duplicate parameters; parameter/lexical clash; body scope rules
            \/ (HasDup(ParamNames(p, n)) /\ (Programs[p].strict \/ ~SimpleParams(p, n) \/ nd.t \in {"arrow", "method"}))
            \/ Range(ParamNames(p, n)) \cap Range(LexNamesL(p, nd.body)) # {}
            \/ ScopeClash(LexNamesL(p, nd.body), VarNamesL(p, nd.body) \cup FunNamesIn(p, nd.body))
            \/ EEL(p, nd.ch, [Ctx0 EXCEPT !.inFn = TRUE])
       [] nd.t = "block" ->
            \/ ScopeClash(LexNamesL(p, nd.body) \o [i \in 1..Len(FunDeclsIn(p, nd.body)) |-> NP(p, FunDeclsIn(p, nd.body)[i]).name],
                          VarNamesL(p, nd.body))
            \/ EEL(p, nd.body, inner)
       [] nd.t = "switch" ->
            \/ ScopeClash(LexNamesL(p, SwitchStmts(p, n)), VarNamesL(p, nd.cases))
            \/ EEL(p, nd.ch, [inner EXCEPT !.inSwitch = TRUE])
       [] nd.t = "labeled" ->
            \/ nd.l \in ctx.labels
            \/ EE(p, nd.s, [ctx EXCEPT !.labels = @ \cup {nd.l}, !.pending = @ \cup {nd.l}])
       [] nd.t \in {"while", "dowhile"} ->
            EEL(p, nd.ch, [inner EXCEPT !.inLoop = TRUE, !.loopLabels = @ \cup ctx.pending])
       [] nd.t = "for" ->
            \/ (nd.init # 0 /\ NP(p, nd.init).t \in {"let", "const"}
                  /\ ScopeClash(DeclNames(p, nd.init), VarNames(p, nd.s)))
            \/ EEL(p, nd.ch, [inner EXCEPT !.inLoop = TRUE, !.loopLabels = @ \cup ctx.pending])
       [] nd.t \in {"forin", "forof"} ->
            \/ (nd.kind \in {"let", "const"} /\ ScopeClash(BoundNames(p, nd.target), VarNames(p, nd.s)))
            \/ EEL(p, nd.ch, [inner EXCEPT !.inLoop = TRUE, !.loopLabels = @ \cup ctx.pending])
       [] nd.t = "try" ->
            \* 14.15.1: catch parameter duplicates / clash with the catch block's lexical names
            \/ (nd.p # 0 /\ (HasDup(BoundNames(p, nd.p))
                              \/ Range(BoundNames(p, nd.p)) \cap Range(LexNamesL(p, NP(p, nd.h).body)) # {}))
            \/ EEL(p, nd.ch, inner)
       [] nd.t \in {"let", "const"} ->
            \/ (nd.t = "const" /\ \E i \in DOMAIN nd.decls : NP(p, nd.decls[i]).init = 0)
            \/ "let" \in Range(DeclNames(p, n))
            \/ EEL(p, nd.ch, inner)
       [] nd.t = "break" -> IF nd.l = "" THEN ~(ctx.inLoop \/ ctx.inSwitch) ELSE nd.l \notin ctx.labels
       [] nd.t = "continue" -> IF nd.l = "" THEN ~ctx.inLoop ELSE nd.l \notin ctx.loopLabels
       [] nd.t = "return" -> ~ctx.inFn \/ EEL(p, nd.ch, inner)
       [] OTHER -> EEL(p, nd.ch, inner)

EarlyErr == [p \in 1..NProg |-> EE(p, 1, Ctx0)]

\* Statically detected features outside the modelled fragment: Annex B.3.3 function declarations in
\* blocks of sloppy code (their var-hoisting semantics is not modelled).
RECURSIVE UsesAnnexB(_, _, _)
UsesAnnexB(p, n, top) ==
  LET nd == NP(p, n)
  IN \/ (nd.t \in {"function", "generator"} /\ ~top)
     \/ \E i \in DOMAIN nd.ch :
           nd.ch[i] # 0 /\ UsesAnnexB(p, nd.ch[i], nd.t = "program" \/ (nd.t \in FunctionKinds /\ i > Len(nd.params)))
StaticOOM == [p \in 1..NProg |-> ~Programs[p].strict /\ UsesAnnexB(p, 1, TRUE)]

-----------------------------------------------------------------------------
(* Objects (ECMA-262 6.1.7, 10.1).  A property is                                           *)
(*   [k |-> key, acc |-> is accessor, v, g, s, w, e, c]                                       *)
(* keys are code-unit sequences; the symbol with id i is the key <<-1, i>>.  Own properties   *)
(* are kept in creation order (props); array elements live in elems (Hole = absent).          *)
(* A data property whose value is OOM stands for "present in a real engine but not modelled": *)
(* reading it ends the run in OutOfModel.                                                     *)

SymKey(i) == <<-1, i>>
IsSymKey(key) == Len(key) = 2 /\ key[1] = -1
KeyOfPrim(v) == IF v.t = "sym" THEN SymKey(v.id) ELSE PrimToStr(v)      \* ToPropertyKey of a primitive
KeyToValue(key) == IF IsSymKey(key) THEN Sym(key[2]) ELSE Str(key)
\* no built-in prototype has a one-unit or all-digit property name
PlainKey(key) == IsSymKey(key) \/ Len(key) <= 1 \/ AllDigits(key)

DataProp(key, v) == [k |-> key, acc |-> FALSE, v |-> v, g |-> Undef, s |-> Undef, w |-> TRUE, e |-> TRUE, c |-> TRUE]
HiddenProp(key, v) == [DataProp(key, v) EXCEPT !.e = FALSE]
AccProp(key, g, s) == [k |-> key, acc |-> TRUE, v |-> Undef, g |-> g, s |-> s, w |-> FALSE, e |-> TRUE, c |-> TRUE]

PropIdx(props, key) ==
  LET I == {i \in DOMAIN props : props[i].k = key} IN IF I = {} THEN 0 ELSE CHOOSE i \in I : TRUE

\* intrinsic objects: fixed addresses in the initial heap
A_ObjectProto == 1
A_FunctionProto == 2
A_ArrayProto == 3
A_ErrorProto == 4
A_TypeErrorProto == 5
A_ReferenceErrorProto == 6
A_RangeErrorProto == 7
A_SyntaxErrorProto == 8
A_GeneratorProto == 9
A_IteratorProto == 10    \* %IteratorPrototype%
A_Global == 11           \* the global object: only its identity is modelled
A_Error == 12
A_TypeError == 13
A_ReferenceError == 14
A_RangeError == 15
A_SyntaxError == 16
A_ObjValueOf == 17
A_ObjToString == 18
A_Object == 19
A_Array == 20
A_Symbol == 21
A_ArrayIsArray == 22
A_ObjectKeys == 23
A_ArrayIteratorProto == 24
A_ArrValues == 25
A_ArrIterNext == 26
A_GenNext == 27
A_GenReturn == 28
A_GenThrow == 29
A_String == 30
A_Number == 31
A_Boolean == 32
A_ArrPush == 33
A_ObjectCreate == 34
A_ObjectGetProto == 35
A_ObjectSetProto == 36
A_ObjectDefProp == 37
A_ObjectFreeze == 38
A_FnCall == 39
A_FnApply == 40
A_FnBind == 41
A_ArrJoin == 42
A_ArrToString == 43
A_ErrToString == 44
A_HasOwn == 45
A_StringProto == 46
A_NumberProto == 47
A_BooleanProto == 48
A_SymbolProto == 49
A_IterSelf == 50
NIntrinsics == 50

ErrorProtoOf(cls) ==
  CASE cls = "Error" -> A_ErrorProto
    [] cls = "TypeError" -> A_TypeErrorProto
    [] cls = "ReferenceError" -> A_ReferenceErrorProto
    [] cls = "RangeError" -> A_RangeErrorProto
    [] cls = "SyntaxError" -> A_SyntaxErrorProto
ErrorProtoName(a) ==
  CASE a = A_ErrorProto -> "Error"
    [] a = A_TypeErrorProto -> "TypeError"
    [] a = A_ReferenceErrorProto -> "ReferenceError"
    [] a = A_RangeErrorProto -> "RangeError"
    [] a = A_SyntaxErrorProto -> "SyntaxError"
    [] OTHER -> ""

OrdObj(proto, props) == [cls |-> "ord", proto |-> proto, props |-> props, ext |-> TRUE, intr |-> FALSE]
IntrObj(proto, props) == [OrdObj(proto, props) EXCEPT !.intr = TRUE]
ArrObj(elems) == [cls |-> "arr", proto |-> A_ArrayProto, props |-> <<>>, ext |-> TRUE, intr |-> FALSE, elems |-> elems]
\* a built-in function with a native rule (CallNative); ctor: usable with new
NatObj(nm, ctor, props) == [cls |-> "nat", proto |-> A_FunctionProto, props |-> props, ext |-> TRUE, intr |-> TRUE,
                            nm |-> nm, ctor |-> ctor]
\* an Error instance (20.5); the message of engine-created errors is not modelled (OOM)
ErrObj(cls, msg) == [cls |-> "err", proto |-> ErrorProtoOf(cls), props |-> <<HiddenProp(S_message, msg)>>,
                     ext |-> TRUE, intr |-> FALSE]

S_isArray == <<105,115,65,114,114,97,121>>
S_keys == <<107,101,121,115>>
S_values == <<118,97,108,117,101,115>>
S_iterator == <<105,116,101,114,97,116,111,114>>
S_toPrimitive == <<116,111,80,114,105,109,105,116,105,118,101>>
S_hasInstance == <<104,97,115,73,110,115,116,97,110,99,101>>
S_push == <<112,117,115,104>>
S_create == <<99,114,101,97,116,101>>
S_getPrototypeOf == <<103,101,116,80,114,111,116,111,116,121,112,101,79,102>>
S_setPrototypeOf == <<115,101,116,80,114,111,116,111,116,121,112,101,79,102>>
S_defineProperty == <<100,101,102,105,110,101,80,114,111,112,101,114,116,121>>
S_freeze == <<102,114,101,101,122,101>>
S_call == <<99,97,108,108>>
S_apply == <<97,112,112,108,121>>
S_bind == <<98,105,110,100>>
S_join == <<106,111,105,110>>
S_hasOwnProperty == <<104,97,115,79,119,110,80,114,111,112,101,114,116,121>>

ErrCtor(nm, protoAddr) == NatObj(nm, TRUE, <<[HiddenProp(S_prototype, Obj(protoAddr)) EXCEPT !.w = FALSE, !.c = FALSE]>>)
\* 20.5.3 / 20.5.6.3: constructor, message = "", name = the class name
ErrProto(parent, ctorAddr, nm) ==
  IntrObj(parent, <<HiddenProp(S_constructor, Obj(ctorAddr)), HiddenProp(S_message, Str(<<>>)), HiddenProp(S_name, Str(nm))>>)
S_Error == <<69,114,114,111,114>>
S_TypeError == <<84,121,112,101>> \o S_Error
S_ReferenceError == <<82,101,102,101,114,101,110,99,101>> \o S_Error
S_RangeError == <<82,97,110,103,101>> \o S_Error
S_SyntaxError == <<83,121,110,116,97,120>> \o S_Error
Native(nm) == NatObj(nm, FALSE, <<>>)

InitHeap == <<
  (* 1 *) IntrObj(0, <<HiddenProp(S_constructor, Obj(A_Object)), HiddenProp(S_valueOf, Obj(A_ObjValueOf)),
                       HiddenProp(S_toString, Obj(A_ObjToString)), HiddenProp(S_hasOwnProperty, Obj(A_HasOwn))>>),
  (* 2 *) [NatObj("FunctionPrototype", FALSE, <<HiddenProp(SymKey(3), OOM), HiddenProp(S_call, Obj(A_FnCall)),
                       HiddenProp(S_apply, Obj(A_FnApply)), HiddenProp(S_bind, Obj(A_FnBind))>>) EXCEPT !.proto = A_ObjectProto],
  (* 3 *) [ArrObj(<<>>) EXCEPT !.proto = A_ObjectProto, !.intr = TRUE,
              !.props = <<HiddenProp(S_constructor, Obj(A_Array)), HiddenProp(S_values, Obj(A_ArrValues)),
                          HiddenProp(SymKey(1), Obj(A_ArrValues)), HiddenProp(S_push, Obj(A_ArrPush)),
                          HiddenProp(S_join, Obj(A_ArrJoin)), HiddenProp(S_toString, Obj(A_ArrToString))>>],
  (* 4 *) [ErrProto(A_ObjectProto, A_Error, S_Error) EXCEPT !.props = @ \o <<HiddenProp(S_toString, Obj(A_ErrToString))>>],
  (* 5 *) ErrProto(A_ErrorProto, A_TypeError, S_TypeError),
  (* 6 *) ErrProto(A_ErrorProto, A_ReferenceError, S_ReferenceError),
  (* 7 *) ErrProto(A_ErrorProto, A_RangeError, S_RangeError),
  (* 8 *) ErrProto(A_ErrorProto, A_SyntaxError, S_SyntaxError),
  (* 9 *) IntrObj(A_ObjectProto, <<HiddenProp(S_next, Obj(A_GenNext)), HiddenProp(S_return, Obj(A_GenReturn)),
                       HiddenProp(S_throw, Obj(A_GenThrow)), HiddenProp(SymKey(1), Obj(A_IterSelf))>>),
  (* 10 *) IntrObj(A_ObjectProto, <<HiddenProp(SymKey(1), OOM)>>),
  (* 11 *) [IntrObj(A_ObjectProto, <<>>) EXCEPT !.cls = "glob"],
  (* 12 *) ErrCtor("Error", A_ErrorProto),
  (* 13 *) [ErrCtor("TypeError", A_TypeErrorProto) EXCEPT !.proto = A_Error],
  (* 14 *) [ErrCtor("ReferenceError", A_ReferenceErrorProto) EXCEPT !.proto = A_Error],
  (* 15 *) [ErrCtor("RangeError", A_RangeErrorProto) EXCEPT !.proto = A_Error],
  (* 16 *) [ErrCtor("SyntaxError", A_SyntaxErrorProto) EXCEPT !.proto = A_Error],
  (* 17 *) Native("Object.prototype.valueOf"),
  (* 18 *) Native("Object.prototype.toString"),
  (* 19 *) NatObj("Object", TRUE, <<[HiddenProp(S_prototype, Obj(A_ObjectProto)) EXCEPT !.w = FALSE, !.c = FALSE],
                       HiddenProp(S_keys, Obj(A_ObjectKeys)), HiddenProp(S_create, Obj(A_ObjectCreate)),
                       HiddenProp(S_getPrototypeOf, Obj(A_ObjectGetProto)), HiddenProp(S_setPrototypeOf, Obj(A_ObjectSetProto)),
                       HiddenProp(S_defineProperty, Obj(A_ObjectDefProp)), HiddenProp(S_freeze, Obj(A_ObjectFreeze))>>),
  (* 20 *) NatObj("Array", TRUE, <<[HiddenProp(S_prototype, Obj(A_ArrayProto)) EXCEPT !.w = FALSE, !.c = FALSE],
                       HiddenProp(S_isArray, Obj(A_ArrayIsArray))>>),
  (* 21 *) NatObj("Symbol", FALSE, <<[HiddenProp(S_iterator, SymIterator) EXCEPT !.w = FALSE, !.c = FALSE],
                       [HiddenProp(S_toPrimitive, SymToPrimitive) EXCEPT !.w = FALSE, !.c = FALSE],
                       [HiddenProp(S_hasInstance, SymHasInstance) EXCEPT !.w = FALSE, !.c = FALSE]>>),
  (* 22 *) Native("Array.isArray"),
  (* 23 *) Native("Object.keys"),
  (* 24 *) IntrObj(A_ObjectProto, <<HiddenProp(S_next, Obj(A_ArrIterNext)), HiddenProp(SymKey(1), Obj(A_IterSelf))>>),
  (* 25 *) Native("Array.prototype.values"),
  (* 26 *) Native("ArrayIterator.next"),
  (* 27 *) Native("Generator.prototype.next"),
  (* 28 *) Native("Generator.prototype.return"),
  (* 29 *) Native("Generator.prototype.throw"),
  (* 30 *) NatObj("String", TRUE, <<>>),
  (* 31 *) NatObj("Number", TRUE, <<>>),
  (* 32 *) NatObj("Boolean", TRUE, <<>>),
  (* 33 *) Native("Array.prototype.push"),
  (* 34 *) Native("Object.create"),
  (* 35 *) Native("Object.getPrototypeOf"),
  (* 36 *) Native("Object.setPrototypeOf"),
  (* 37 *) Native("Object.defineProperty"),
  (* 38 *) Native("Object.freeze"),
  (* 39 *) Native("Function.prototype.call"),
  (* 40 *) Native("Function.prototype.apply"),
  (* 41 *) Native("Function.prototype.bind"),
  (* 42 *) Native("Array.prototype.join"),
  (* 43 *) Native("Array.prototype.toString"),
  (* 44 *) Native("Error.prototype.toString"),
  (* 45 *) Native("Object.prototype.hasOwnProperty"),
  (* 46 *) IntrObj(A_ObjectProto, <<HiddenProp(SymKey(1), OOM)>>),       \* String.prototype (members not modelled)
  (* 47 *) IntrObj(A_ObjectProto, <<>>),                                 \* Number.prototype
  (* 48 *) IntrObj(A_ObjectProto, <<>>),                                 \* Boolean.prototype
  (* 49 *) IntrObj(A_ObjectProto, <<>>),                                 \* Symbol.prototype
  (* 50 *) Native("Iterator.prototype[@@iterator]")
>>

(* Names of the properties the built-in objects have in a conforming engine (ECMA-262 incl. Annex B and current
   proposals, as listed by V8).  A name in the set that has no modelled property is "present but not modelled":
   looking it up ends the run in OutOfModel.  Any other name is genuinely absent. *)
\* __defineGetter__ __defineSetter__ __lookupGetter__ __lookupSetter__ __proto__ constructor hasOwnProperty
\* isPrototypeOf propertyIsEnumerable toLocaleString toString valueOf
Names_ObjectProto == {
  <<95,95,100,101,102,105,110,101,71,101,116,116,101,114,95,95>>,
  <<95,95,100,101,102,105,110,101,83,101,116,116,101,114,95,95>>,
  <<95,95,108,111,111,107,117,112,71,101,116,116,101,114,95,95>>,
  <<95,95,108,111,111,107,117,112,83,101,116,116,101,114,95,95>>, <<95,95,112,114,111,116,111,95,95>>,
  <<99,111,110,115,116,114,117,99,116,111,114>>, <<104,97,115,79,119,110,80,114,111,112,101,114,116,121>>,
  <<105,115,80,114,111,116,111,116,121,112,101,79,102>>,
  <<112,114,111,112,101,114,116,121,73,115,69,110,117,109,101,114,97,98,108,101>>,
  <<116,111,76,111,99,97,108,101,83,116,114,105,110,103>>, <<116,111,83,116,114,105,110,103>>,
  <<118,97,108,117,101,79,102>>}
\* apply arguments bind call caller constructor length name toString
Names_FunctionProto == {
  <<97,112,112,108,121>>, <<97,114,103,117,109,101,110,116,115>>, <<98,105,110,100>>, <<99,97,108,108>>,
  <<99,97,108,108,101,114>>, <<99,111,110,115,116,114,117,99,116,111,114>>, <<108,101,110,103,116,104>>,
  <<110,97,109,101>>, <<116,111,83,116,114,105,110,103>>}
\* at concat constructor copyWithin entries every fill filter find findIndex findLast findLastIndex flat flatMap
\* forEach group groupToMap includes indexOf join keys lastIndexOf length map pop push reduce reduceRight reverse
\* shift slice some sort splice toLocaleString toReversed toSorted toSpliced toString unshift values with
Names_ArrayProto == {
  <<97,116>>, <<99,111,110,99,97,116>>, <<99,111,110,115,116,114,117,99,116,111,114>>,
  <<99,111,112,121,87,105,116,104,105,110>>, <<101,110,116,114,105,101,115>>, <<101,118,101,114,121>>,
  <<102,105,108,108>>, <<102,105,108,116,101,114>>, <<102,105,110,100>>, <<102,105,110,100,73,110,100,101,120>>,
  <<102,105,110,100,76,97,115,116>>, <<102,105,110,100,76,97,115,116,73,110,100,101,120>>, <<102,108,97,116>>,
  <<102,108,97,116,77,97,112>>, <<102,111,114,69,97,99,104>>, <<103,114,111,117,112>>,
  <<103,114,111,117,112,84,111,77,97,112>>, <<105,110,99,108,117,100,101,115>>, <<105,110,100,101,120,79,102>>,
  <<106,111,105,110>>, <<107,101,121,115>>, <<108,97,115,116,73,110,100,101,120,79,102>>,
  <<108,101,110,103,116,104>>, <<109,97,112>>, <<112,111,112>>, <<112,117,115,104>>, <<114,101,100,117,99,101>>,
  <<114,101,100,117,99,101,82,105,103,104,116>>, <<114,101,118,101,114,115,101>>, <<115,104,105,102,116>>,
  <<115,108,105,99,101>>, <<115,111,109,101>>, <<115,111,114,116>>, <<115,112,108,105,99,101>>,
  <<116,111,76,111,99,97,108,101,83,116,114,105,110,103>>, <<116,111,82,101,118,101,114,115,101,100>>,
  <<116,111,83,111,114,116,101,100>>, <<116,111,83,112,108,105,99,101,100>>, <<116,111,83,116,114,105,110,103>>,
  <<117,110,115,104,105,102,116>>, <<118,97,108,117,101,115>>, <<119,105,116,104>>}
\* cause constructor message name stack toString
Names_ErrorProto == {
  <<99,97,117,115,101>>, <<99,111,110,115,116,114,117,99,116,111,114>>, <<109,101,115,115,97,103,101>>,
  <<110,97,109,101>>, <<115,116,97,99,107>>, <<116,111,83,116,114,105,110,103>>}
\* anchor at big blink bold charAt charCodeAt codePointAt concat constructor endsWith fixed fontcolor fontsize
\* includes indexOf isWellFormed italics lastIndexOf length link localeCompare match matchAll normalize padEnd
\* padStart repeat replace replaceAll search slice small split startsWith strike sub substr substring sup
\* toLocaleLowerCase toLocaleUpperCase toLowerCase toString toUpperCase toWellFormed trim trimEnd trimLeft
\* trimRight trimStart valueOf
Names_StringProto == {
  <<97,110,99,104,111,114>>, <<97,116>>, <<98,105,103>>, <<98,108,105,110,107>>, <<98,111,108,100>>,
  <<99,104,97,114,65,116>>, <<99,104,97,114,67,111,100,101,65,116>>, <<99,111,100,101,80,111,105,110,116,65,116>>,
  <<99,111,110,99,97,116>>, <<99,111,110,115,116,114,117,99,116,111,114>>, <<101,110,100,115,87,105,116,104>>,
  <<102,105,120,101,100>>, <<102,111,110,116,99,111,108,111,114>>, <<102,111,110,116,115,105,122,101>>,
  <<105,110,99,108,117,100,101,115>>, <<105,110,100,101,120,79,102>>,
  <<105,115,87,101,108,108,70,111,114,109,101,100>>, <<105,116,97,108,105,99,115>>,
  <<108,97,115,116,73,110,100,101,120,79,102>>, <<108,101,110,103,116,104>>, <<108,105,110,107>>,
  <<108,111,99,97,108,101,67,111,109,112,97,114,101>>, <<109,97,116,99,104>>, <<109,97,116,99,104,65,108,108>>,
  <<110,111,114,109,97,108,105,122,101>>, <<112,97,100,69,110,100>>, <<112,97,100,83,116,97,114,116>>,
  <<114,101,112,101,97,116>>, <<114,101,112,108,97,99,101>>, <<114,101,112,108,97,99,101,65,108,108>>,
  <<115,101,97,114,99,104>>, <<115,108,105,99,101>>, <<115,109,97,108,108>>, <<115,112,108,105,116>>,
  <<115,116,97,114,116,115,87,105,116,104>>, <<115,116,114,105,107,101>>, <<115,117,98>>, <<115,117,98,115,116,114>>,
  <<115,117,98,115,116,114,105,110,103>>, <<115,117,112>>,
  <<116,111,76,111,99,97,108,101,76,111,119,101,114,67,97,115,101>>,
  <<116,111,76,111,99,97,108,101,85,112,112,101,114,67,97,115,101>>, <<116,111,76,111,119,101,114,67,97,115,101>>,
  <<116,111,83,116,114,105,110,103>>, <<116,111,85,112,112,101,114,67,97,115,101>>,
  <<116,111,87,101,108,108,70,111,114,109,101,100>>, <<116,114,105,109>>, <<116,114,105,109,69,110,100>>,
  <<116,114,105,109,76,101,102,116>>, <<116,114,105,109,82,105,103,104,116>>, <<116,114,105,109,83,116,97,114,116>>,
  <<118,97,108,117,101,79,102>>}
\* constructor toExponential toFixed toLocaleString toPrecision toString valueOf
Names_NumberProto == {
  <<99,111,110,115,116,114,117,99,116,111,114>>, <<116,111,69,120,112,111,110,101,110,116,105,97,108>>,
  <<116,111,70,105,120,101,100>>, <<116,111,76,111,99,97,108,101,83,116,114,105,110,103>>,
  <<116,111,80,114,101,99,105,115,105,111,110>>, <<116,111,83,116,114,105,110,103>>, <<118,97,108,117,101,79,102>>}
\* constructor toString valueOf
Names_BooleanProto == {
  <<99,111,110,115,116,114,117,99,116,111,114>>, <<116,111,83,116,114,105,110,103>>, <<118,97,108,117,101,79,102>>}
\* constructor description toString valueOf
Names_SymbolProto == {
  <<99,111,110,115,116,114,117,99,116,111,114>>, <<100,101,115,99,114,105,112,116,105,111,110>>,
  <<116,111,83,116,114,105,110,103>>, <<118,97,108,117,101,79,102>>}
\* constructor drop every filter find flatMap forEach map next reduce return some take throw toArray
Names_IterProto == {
  <<99,111,110,115,116,114,117,99,116,111,114>>, <<100,114,111,112>>, <<101,118,101,114,121>>,
  <<102,105,108,116,101,114>>, <<102,105,110,100>>, <<102,108,97,116,77,97,112>>, <<102,111,114,69,97,99,104>>,
  <<109,97,112>>, <<110,101,120,116>>, <<114,101,100,117,99,101>>, <<114,101,116,117,114,110>>, <<115,111,109,101>>,
  <<116,97,107,101>>, <<116,104,114,111,119>>, <<116,111,65,114,114,97,121>>}
\* EPSILON MAX_SAFE_INTEGER MAX_VALUE MIN_SAFE_INTEGER MIN_VALUE NEGATIVE_INFINITY NaN POSITIVE_INFINITY
\* arguments assign asyncDispose asyncIterator caller captureStackTrace create defineProperties defineProperty
\* dispose entries for freeze from fromCharCode fromCodePoint fromEntries getOwnPropertyDescriptor
\* getOwnPropertyDescriptors getOwnPropertyNames getOwnPropertySymbols getPrototypeOf hasInstance hasOwn is
\* isArray isConcatSpreadable isExtensible isFinite isFrozen isInteger isNaN isSafeInteger isSealed iterator
\* keyFor keys length match matchAll name of parseFloat parseInt prepareStackTrace preventExtensions prototype
\* raw replace seal search setPrototypeOf species split stackTraceLimit toPrimitive toStringTag unscopables
\* values
Names_Ctor == {
  <<69,80,83,73,76,79,78>>, <<77,65,88,95,83,65,70,69,95,73,78,84,69,71,69,82>>, <<77,65,88,95,86,65,76,85,69>>,
  <<77,73,78,95,83,65,70,69,95,73,78,84,69,71,69,82>>, <<77,73,78,95,86,65,76,85,69>>,
  <<78,69,71,65,84,73,86,69,95,73,78,70,73,78,73,84,89>>, <<78,97,78>>,
  <<80,79,83,73,84,73,86,69,95,73,78,70,73,78,73,84,89>>, <<97,114,103,117,109,101,110,116,115>>,
  <<97,115,115,105,103,110>>, <<97,115,121,110,99,68,105,115,112,111,115,101>>,
  <<97,115,121,110,99,73,116,101,114,97,116,111,114>>, <<99,97,108,108,101,114>>,
  <<99,97,112,116,117,114,101,83,116,97,99,107,84,114,97,99,101>>, <<99,114,101,97,116,101>>,
  <<100,101,102,105,110,101,80,114,111,112,101,114,116,105,101,115>>,
  <<100,101,102,105,110,101,80,114,111,112,101,114,116,121>>, <<100,105,115,112,111,115,101>>,
  <<101,110,116,114,105,101,115>>, <<102,111,114>>, <<102,114,101,101,122,101>>, <<102,114,111,109>>,
  <<102,114,111,109,67,104,97,114,67,111,100,101>>, <<102,114,111,109,67,111,100,101,80,111,105,110,116>>,
  <<102,114,111,109,69,110,116,114,105,101,115>>,
  <<103,101,116,79,119,110,80,114,111,112,101,114,116,121,68,101,115,99,114,105,112,116,111,114>>,
  <<103,101,116,79,119,110,80,114,111,112,101,114,116,121,68,101,115,99,114,105,112,116,111,114,115>>,
  <<103,101,116,79,119,110,80,114,111,112,101,114,116,121,78,97,109,101,115>>,
  <<103,101,116,79,119,110,80,114,111,112,101,114,116,121,83,121,109,98,111,108,115>>,
  <<103,101,116,80,114,111,116,111,116,121,112,101,79,102>>, <<104,97,115,73,110,115,116,97,110,99,101>>,
  <<104,97,115,79,119,110>>, <<105,115>>, <<105,115,65,114,114,97,121>>,
  <<105,115,67,111,110,99,97,116,83,112,114,101,97,100,97,98,108,101>>,
  <<105,115,69,120,116,101,110,115,105,98,108,101>>, <<105,115,70,105,110,105,116,101>>,
  <<105,115,70,114,111,122,101,110>>, <<105,115,73,110,116,101,103,101,114>>, <<105,115,78,97,78>>,
  <<105,115,83,97,102,101,73,110,116,101,103,101,114>>, <<105,115,83,101,97,108,101,100>>,
  <<105,116,101,114,97,116,111,114>>, <<107,101,121,70,111,114>>, <<107,101,121,115>>, <<108,101,110,103,116,104>>,
  <<109,97,116,99,104>>, <<109,97,116,99,104,65,108,108>>, <<110,97,109,101>>, <<111,102>>,
  <<112,97,114,115,101,70,108,111,97,116>>, <<112,97,114,115,101,73,110,116>>,
  <<112,114,101,112,97,114,101,83,116,97,99,107,84,114,97,99,101>>,
  <<112,114,101,118,101,110,116,69,120,116,101,110,115,105,111,110,115>>, <<112,114,111,116,111,116,121,112,101>>,
  <<114,97,119>>, <<114,101,112,108,97,99,101>>, <<115,101,97,108>>, <<115,101,97,114,99,104>>,
  <<115,101,116,80,114,111,116,111,116,121,112,101,79,102>>, <<115,112,101,99,105,101,115>>, <<115,112,108,105,116>>,
  <<115,116,97,99,107,84,114,97,99,101,76,105,109,105,116>>, <<116,111,80,114,105,109,105,116,105,118,101>>,
  <<116,111,83,116,114,105,110,103,84,97,103>>, <<117,110,115,99,111,112,97,98,108,101,115>>,
  <<118,97,108,117,101,115>>}
IntrNames(a) ==
  CASE a = A_ObjectProto -> Names_ObjectProto
    [] a = A_FunctionProto -> Names_FunctionProto
    [] a = A_ArrayProto -> Names_ArrayProto
    [] a = A_ErrorProto -> Names_ErrorProto
    [] a \in {A_TypeErrorProto, A_ReferenceErrorProto, A_RangeErrorProto, A_SyntaxErrorProto} -> {S_constructor, S_message, S_name}
    [] a = A_GeneratorProto -> Names_IterProto
    [] a \in {A_IteratorProto, A_ArrayIteratorProto} -> Names_IterProto \ {S_return, S_throw}
    [] a = A_StringProto -> Names_StringProto
    [] a = A_NumberProto -> Names_NumberProto
    [] a = A_BooleanProto -> Names_BooleanProto
    [] a = A_SymbolProto -> Names_SymbolProto
    [] OTHER -> Names_Ctor

IsCallableObj(h, a) == h[a].cls \in {"fun", "nat", "bound"}
IsCallable(h, v) == v.t = "obj" /\ IsCallableObj(h, v.a)
IsConstructor(h, v) ==
  /\ v.t = "obj"
  /\ \/ (h[v.a].cls = "fun" /\ h[v.a].fk \in {"normal", "classbase", "classderived"})
     \/ (h[v.a].cls = "nat" /\ h[v.a].ctor)
     \/ (h[v.a].cls = "bound" /\ h[v.a].tctor)

\* 10.1.5 [[GetOwnProperty]] incl. Array exotic objects (10.4.2): <<>> or <<property>>
OwnDesc(o, key) ==
  IF o.cls = "arr" /\ key = S_length
  THEN <<[DataProp(key, Num(Len(o.elems))) EXCEPT !.e = FALSE, !.c = FALSE]>>
  ELSE IF o.cls = "arr" /\ ArrayIndexOf(key) >= 0
  THEN LET i == ArrayIndexOf(key)
       IN IF i < Len(o.elems) /\ o.elems[i + 1].t # "hole" THEN <<DataProp(key, o.elems[i + 1])>> ELSE <<>>
  ELSE LET i == PropIdx(o.props, key) IN IF i = 0 THEN <<>> ELSE <<o.props[i]>>

RECURSIVE FindProp(_, _, _)
\* the property found by walking the prototype chain (10.1.8 OrdinaryGet / 10.1.7 HasProperty)
FindProp(h, a, key) ==
  IF a = 0 THEN <<>>
  ELSE LET d == OwnDesc(h[a], key)
       IN IF Len(d) > 0 THEN d
          ELSE IF h[a].intr /\ a <= NIntrinsics /\ key \in IntrNames(a) THEN <<DataProp(key, OOM)>>
          ELSE FindProp(h, h[a].proto, key)

\* where property lookup starts for a base value (ToObject of a primitive base, 6.2.5.5 GetValue)
LookupStart(v) ==
  CASE v.t = "obj" -> v.a
    [] v.t = "str" -> A_StringProto
    [] v.t = "num" -> A_NumberProto
    [] v.t = "bool" -> A_BooleanProto
    [] v.t = "sym" -> A_SymbolProto

\* own property of a String value (10.4.3): length and index properties
StrOwn(s, key) ==
  IF key = S_length THEN <<[DataProp(key, Num(Len(s))) EXCEPT !.w = FALSE, !.e = FALSE, !.c = FALSE]>>
  ELSE LET i == ArrayIndexOf(key)
       IN IF i >= 0 /\ i < Len(s) THEN <<[DataProp(key, Str(<<s[i + 1]>>)) EXCEPT !.w = FALSE, !.c = FALSE]>> ELSE <<>>

\* lookup of key on a base value (object or primitive)
FindOnValue(h, v, key) ==
  IF v.t = "str" /\ Len(StrOwn(v.s, key)) > 0 THEN StrOwn(v.s, key) ELSE FindProp(h, LookupStart(v), key)

Holes(n) == [i \in 1..n |-> Hole]
MaxArrayLen == 40

\* writes a data value into an existing or new own property of object o (CreateDataProperty /
\* the data branch of OrdinarySet + ArraySetLength); result: the new object, or "oom"-classed object
WriteOwn(o, key, v) ==
  IF o.cls = "arr" /\ key = S_length
  THEN IF v.t = "num" /\ v.k = "int" /\ v.n >= 0 /\ v.n <= MaxArrayLen
       THEN [o EXCEPT !.elems = IF v.n <= Len(o.elems) THEN SubSeq(o.elems, 1, v.n)
                                 ELSE o.elems \o Holes(v.n - Len(o.elems))]
       ELSE [o EXCEPT !.cls = "oom"]
  ELSE IF o.cls = "arr" /\ ArrayIndexOf(key) >= 0
  THEN LET i == ArrayIndexOf(key)
       IN IF i >= MaxArrayLen THEN [o EXCEPT !.cls = "oom"]
          ELSE IF i < Len(o.elems) THEN [o EXCEPT !.elems[i + 1] = v]
          ELSE [o EXCEPT !.elems = (o.elems \o Holes(i - Len(o.elems))) \o <<v>>]
  ELSE LET i == PropIdx(o.props, key)
       IN IF i = 0 THEN [o EXCEPT !.props = Append(o.props, DataProp(key, v))]
          ELSE [o EXCEPT !.props[i].v = v]

\* 10.1.9.2 OrdinarySetWithOwnDescriptor with receiver rcv (a value).
\* Result [r |-> "ok" | "fail" | "setter" | "oom", h |-> heap, f |-> setter]
SetProp(h, base, key, v, rcv) ==
  LET d == FindOnValue(h, base, key)
      Res(r, hh, f) == [r |-> r, h |-> hh, f |-> f]
  IN IF Len(d) > 0 /\ d[1].acc
     THEN IF d[1].s.t = "undef" THEN Res("fail", h, Undef) ELSE Res("setter", h, d[1].s)
     ELSE IF Len(d) > 0 /\ d[1].v.t = "oom" THEN Res("oom", h, Undef)
     ELSE IF Len(d) > 0 /\ ~d[1].w THEN Res("fail", h, Undef)
     ELSE IF rcv.t # "obj" THEN Res("fail", h, Undef)
     ELSE LET ro == h[rcv.a]
              od == OwnDesc(ro, key)
          IN IF ro.cls = "glob" THEN Res("oom", h, Undef)
             ELSE IF Len(od) > 0 /\ (od[1].acc \/ ~od[1].w) THEN Res("fail", h, Undef)
             ELSE IF Len(od) = 0 /\ ~ro.ext THEN Res("fail", h, Undef)
             ELSE LET no == WriteOwn(ro, key, v)
                  IN IF no.cls = "oom" THEN Res("oom", h, Undef)
                     ELSE Res("ok", [h EXCEPT ![rcv.a] = no], Undef)

\* 10.1.10 OrdinaryDelete (+ array elements): [ok |-> BOOLEAN, o |-> object]
DeleteOwn(o, key) ==
  IF o.cls = "arr" /\ key = S_length THEN [ok |-> FALSE, o |-> o]
  ELSE IF o.cls = "arr" /\ ArrayIndexOf(key) >= 0
  THEN LET i == ArrayIndexOf(key)
       IN IF i < Len(o.elems) THEN [ok |-> TRUE, o |-> [o EXCEPT !.elems[i + 1] = Hole]] ELSE [ok |-> TRUE, o |-> o]
  ELSE LET i == PropIdx(o.props, key)
       IN IF i = 0 THEN [ok |-> TRUE, o |-> o]
          ELSE IF ~o.props[i].c THEN [ok |-> FALSE, o |-> o]
          ELSE [ok |-> TRUE, o |-> [o EXCEPT !.props = SubSeq(o.props, 1, i - 1) \o SubSeq(o.props, i + 1, Len(o.props))]]

RECURSIVE SortedIdx(_)
SortedIdx(S) == IF S = {} THEN <<>> ELSE LET m == CHOOSE x \in S : \A y \in S : x <= y IN <<m>> \o SortedIdx(S \ {m})
\* 10.1.11 OrdinaryOwnPropertyKeys: integer indices ascending, strings then symbols in creation order
OwnKeys(o) ==
  LET ps == o.props
      idxs == SortedIdx({ArrayIndexOf(ps[i].k) : i \in {j \in DOMAIN ps : ArrayIndexOf(ps[j].k) >= 0}})
      ik == [i \in 1..Len(idxs) |-> NumToStr(Num(idxs[i]))]
      sk == SelectSeq([i \in 1..Len(ps) |-> ps[i].k], LAMBDA x : ~IsSymKey(x) /\ ArrayIndexOf(x) < 0)
      yk == SelectSeq([i \in 1..Len(ps) |-> ps[i].k], LAMBDA x : IsSymKey(x))
      ak == IF o.cls = "arr"
            THEN LET present == SelectSeq([i \in 1..Len(o.elems) |-> i], LAMBDA i : o.elems[i].t # "hole")
                 IN [i \in 1..Len(present) |-> NumToStr(Num(present[i] - 1))] \o <<S_length>>
            ELSE <<>>
  IN ak \o ik \o sk \o yk
\* EnumerableOwnProperties(O, key) for data-only inspection (string keys)
EnumOwnStrKeys(o) ==
  SelectSeq(OwnKeys(o), LAMBDA x : ~IsSymKey(x) /\ OwnDesc(o, x)[1].e)

RECURSIVE ProtoChainHas(_, _, _)
ProtoChainHas(h, a, target) == IF a = 0 THEN FALSE ELSE IF a = target THEN TRUE ELSE ProtoChainHas(h, h[a].proto, target)

RECURSIVE ErrClassFrom(_, _, _)
ErrClassFrom(h, a, fuel) ==
  IF a = 0 \/ fuel = 0 THEN ""
  ELSE IF ErrorProtoName(a) # "" THEN ErrorProtoName(a) ELSE ErrClassFrom(h, h[a].proto, fuel - 1)

\* The structural rendering used by the host print function and for completions
\* (mirrors harness/crates/hcommon render(): never runs JS code)
Render(h, sd, v) ==
  CASE v.t = "undef" -> [r |-> "u"]
    [] v.t = "null" -> [r |-> "null"]
    [] v.t = "bool" -> [r |-> "b", b |-> v.b]
    [] v.t = "num" -> [r |-> "n", k |-> v.k, n |-> v.n]
    [] v.t = "str" -> [r |-> "s", s |-> v.s]
    [] v.t = "sym" -> [r |-> "y", s |-> sd[v.id]]
    [] v.t = "obj" -> IF IsCallableObj(h, v.a) THEN [r |-> "o", c |-> "Function"]
                      ELSE IF h[v.a].cls = "arr" THEN [r |-> "o", c |-> "Array", n |-> Len(h[v.a].elems)]
                      ELSE LET ec == ErrClassFrom(h, h[v.a].proto, 17)
                           IN IF ec # "" THEN [r |-> "o", c |-> "Error", e |-> ec] ELSE [r |-> "o", c |-> "Object"]
    [] OTHER -> [r |-> "?", c |-> v.t]

\* typeof (13.5.3)
TypeOf(h, v) ==
  CASE v.t = "undef" -> S_undefined
    [] v.t = "null" -> S_object
    [] v.t = "bool" -> S_boolean
    [] v.t = "num" -> S_number
    [] v.t = "str" -> S_string
    [] v.t = "sym" -> S_symbol
    [] v.t = "obj" -> IF IsCallableObj(h, v.a) THEN S_function ELSE S_object

\* 20.2.? function objects.  fk: "normal" | "arrow" | "method" | "gen" | "classbase" | "classderived"
\* own "length" and "name" exist but are not modelled (OOM)
FunObj(node, e, home, fk, hasProto, fa) ==
  [cls |-> "fun", proto |-> A_FunctionProto, ext |-> TRUE, intr |-> FALSE,
   props |-> <<[HiddenProp(S_length, OOM) EXCEPT !.w = FALSE], [HiddenProp(S_name, OOM) EXCEPT !.w = FALSE]>>
             \o (IF hasProto THEN <<[HiddenProp(S_prototype, Obj(fa + 1)) EXCEPT !.c = FALSE]>> ELSE <<>>),
   node |-> node, env |-> e, home |-> home, fk |-> fk, fields |-> <<>>]
\* 10.2.3 OrdinaryFunctionCreate + 10.2.5 MakeConstructor: appends the function (at Len(h)+1) and, for
\* constructors and generators, its prototype object (at Len(h)+2)
AllocFun(h, node, e, home, fk) ==
  LET fa == Len(h) + 1
  IN IF fk = "normal" THEN h \o <<FunObj(node, e, home, fk, TRUE, fa), OrdObj(A_ObjectProto, <<HiddenProp(S_constructor, Obj(fa))>>)>>
     ELSE IF fk = "gen" THEN h \o <<FunObj(node, e, home, fk, TRUE, fa), OrdObj(A_GeneratorProto, <<>>)>>
     ELSE Append(h, FunObj(node, e, home, fk, FALSE, fa))
FunKindOfNode(t) == CASE t \in {"function", "fn"} -> "normal"
                      [] t \in {"generator", "genfn"} -> "gen"
                      [] t = "arrow" -> "arrow"
                      [] OTHER -> "method"

-----------------------------------------------------------------------------
(* Environment Records (ECMA-262 9.1).  A binding is [v, init, imm]: imm = "no" (mutable),   *)
(* "const" (assignment throws a TypeError), "soft" (assignment throws only in strict code:   *)
(* the name of a named function expression, non-writable globals).  An uninitialised binding *)
(* holds the poison value TDZ, which must never flow anywhere (invariant NoTdzLeak).          *)
(* fe = <<>> for a declarative record, <<[ts, this, fobj, nt]>> for a function record        *)
(* (ts: "lexical" | "init" | "uninit").                                                       *)

TDZ == [t |-> "tdz"]
Binding(v, init, imm) == [v |-> v, init |-> init, imm |-> imm]
Uninit(imm) == Binding(TDZ, FALSE, imm)
NoBindings == [x \in {} |-> 0]
DeclEnv(par, b) == [par |-> par, b |-> b, fe |-> <<>>]
FunEnv(par, b, ts, this, fobj, nt) == [par |-> par, b |-> b, fe |-> <<[ts |-> ts, this |-> this, fobj |-> fobj, nt |-> nt]>>]

RECURSIVE LookupEnv(_, _, _)
\* 9.1.2.1 GetIdentifierReference: the record holding name, 0 if unresolvable
LookupEnv(es, e, name) ==
  IF e = 0 THEN 0 ELSE IF name \in DOMAIN es[e].b THEN e ELSE LookupEnv(es, es[e].par, name)

RECURSIVE ThisEnvOf(_, _)
\* 9.4.3 GetThisEnvironment: nearest function record with a this binding, 0 = the global record
ThisEnvOf(es, e) ==
  IF e = 0 THEN 0
  ELSE IF Len(es[e].fe) > 0 /\ es[e].fe[1].ts # "lexical" THEN e ELSE ThisEnvOf(es, es[e].par)

\* adds a binding rec for every name of S not yet bound in b
WithNames(b, S, rec) == b @@ [x \in (S \ DOMAIN b) |-> rec]

GlobalBindings ==
  LET ro(v) == Binding(v, TRUE, "soft")
      rw(v) == Binding(v, TRUE, "no")
  IN [x \in {"undefined", "NaN", "Infinity", "Error", "TypeError", "ReferenceError", "RangeError", "SyntaxError",
             "Object", "Array", "Symbol", "String", "Number", "Boolean", "globalThis"} |->
        CASE x = "undefined" -> ro(Undef)
          [] x = "NaN" -> ro(NaN)
          [] x = "Infinity" -> ro(PInf)
          [] x = "Error" -> rw(Obj(A_Error))
          [] x = "TypeError" -> rw(Obj(A_TypeError))
          [] x = "ReferenceError" -> rw(Obj(A_ReferenceError))
          [] x = "RangeError" -> rw(Obj(A_RangeError))
          [] x = "SyntaxError" -> rw(Obj(A_SyntaxError))
          [] x = "Object" -> rw(Obj(A_Object))
          [] x = "Array" -> rw(Obj(A_Array))
          [] x = "Symbol" -> rw(Obj(A_Symbol))
          [] x = "String" -> rw(Obj(A_String))
          [] x = "Number" -> rw(Obj(A_Number))
          [] x = "Boolean" -> rw(Obj(A_Boolean))
          [] x = "globalThis" -> rw(Obj(A_Global))]

-----------------------------------------------------------------------------
(* The machine *)

Ev(n) == [m |-> "ev", n |-> n]
EvRef(n) == [m |-> "evref", n |-> n]
Ret(v) == [m |-> "ret", v |-> v]
Abr(kind, v, l) == [m |-> "abr", kind |-> kind, v |-> v, l |-> l]
CallC(f, this, args, nt) == [m |-> "call", f |-> f, this |-> this, args |-> args, nt |-> nt, pre |-> Undef]
Done(comp, v) == [m |-> "done", comp |-> comp, v |-> v]

\* Reference Records (6.2.5): an identifier reference or a property reference whose name may still be
\* an unconverted value (converted by GetValue / PutValue, 6.2.5.5 step 3.c)
IdRef(name) == [t |-> "ref", rk |-> "id", name |-> name, base |-> Undef, kv |-> Undef, this |-> Undef]
PropRef(base, kv) == [t |-> "ref", rk |-> "prop", name |-> "", base |-> base, kv |-> kv, this |-> base]
SuperRef(base, kv, this) == [t |-> "ref", rk |-> "prop", name |-> "", base |-> base, kv |-> kv, this |-> this]

top == k[1]
rest == Tail(k)
Push(f) == <<f>> \o k
Push2(f, g) == <<f, g>> \o k

\* UpdateEmpty (6.2.4.3)
UpdateEmpty(v, d) == IF v.t = "empty" THEN d ELSE v

Go(cc, kk) == c' = cc /\ k' = kk /\ UNCHANGED <<env, envs, heap, out, aux>>
GoE(cc, kk, ee) == c' = cc /\ k' = kk /\ env' = ee /\ UNCHANGED <<envs, heap, out, aux>>
GoH(cc, kk, hh) == c' = cc /\ k' = kk /\ heap' = hh /\ UNCHANGED <<env, envs, out, aux>>
\* throw a fresh native error of class cls (its message is not modelled)
ThrowErr(cls, kk) == GoH(Abr("throw", Obj(Len(heap) + 1), ""), kk, Append(heap, ErrObj(cls, OOM)))
OutOfModel(why) == c' = Done("OutOfModel", [why |-> why]) /\ UNCHANGED <<env, k, envs, heap, out, aux>>

Init ==
  /\ pid \in 1..NProg
  /\ c = IF EarlyErr[pid] THEN Done("early", [cls |-> "SyntaxError"])
         ELSE IF StaticOOM[pid] THEN Done("OutOfModel", [why |-> "annexB"])
         ELSE Ev(1)
  /\ env = 1
  /\ k = <<>>
  /\ envs = <<DeclEnv(0, GlobalBindings)>>
  /\ heap = InitHeap
  /\ out = <<>>
  /\ steps = 0
  /\ aux = [depth |-> 0, nsym |-> NumWellKnownSyms,
            sd |-> <<S_SymbolIterator, S_SymbolToPrimitive, S_SymbolHasInstance>>]

-----------------------------------------------------------------------------
(* Declaration instantiation *)

RECURSIVE InstFuns(_, _, _, _)
\* InstantiateFunctionObject for the declarations ids into environment e: [es, h]
InstFuns(ids, e, es, h) ==
  IF ids = <<>> THEN [es |-> es, h |-> h]
  ELSE LET nd == N(Head(ids))
           h2 == AllocFun(h, Head(ids), e, 0, FunKindOfNode(nd.t))
           es2 == [es EXCEPT ![e].b = (nd.name :> Binding(Obj(Len(h) + 1), TRUE, "no")) @@ @]
       IN InstFuns(Tail(ids), e, es2, h2)

LexBindings(decls) == [x \in {decls[i].n : i \in DOMAIN decls} |->
                         Uninit(IF \E i \in DOMAIN decls : decls[i].n = x /\ decls[i].const THEN "const" ELSE "no")]

\* 16.1.7 GlobalDeclarationInstantiation (single script: the clash checks are the early errors)
GlobalInst(body, es, h) ==
  LET vn == VarNamesL(pid, body)
      b1 == WithNames(es[1].b, vn, Binding(Undef, TRUE, "no"))
      b2 == b1 @@ LexBindings(LexDeclsL(pid, body))
  IN InstFuns(FunDeclsIn(pid, body), 1, [es EXCEPT ![1].b = b2], h)

\* 14.2.3 BlockDeclarationInstantiation for a statement list: [need, es, h] (new record at Len(es)+1)
BlockInst(stmts, par, es, h) ==
  LET lex == LexDeclsL(pid, stmts)
      funs == FunDeclsIn(pid, stmts)
      ne == Len(es) + 1
  IN IF lex = <<>> /\ funs = <<>> THEN [need |-> FALSE, es |-> es, h |-> h]
     ELSE LET r == InstFuns(funs, ne, Append(es, DeclEnv(par, LexBindings(lex))), h)
          IN [need |-> TRUE, es |-> r.es, h |-> r.h]

\* does the function need an arguments object (10.2.11 steps 15-18)?  Only functions that mention the
\* identifier are given one (without eval the difference is unobservable); the flattener marks them.
\* 10.2.11 FunctionDeclarationInstantiation steps 27-36: var, lexical and function declarations of the
\* body, after the parameters have been bound in record fe.  Result [es, h, e] (e: body environment).
\* Simplification: lexEnv = varEnv (the separate record of step 30 is only observable through eval).
FDIBody(f, fe, es, h) ==
  LET body == N(f).body
      funs == FunDeclsIn(pid, body)
      fnames == FunNamesIn(pid, body)
      vnames == VarNamesL(pid, body) \cup fnames
      hasPE == HasParamExprs(pid, f)
      pb == es[fe].b
      ve == IF hasPE THEN Len(es) + 1 ELSE fe
      es1 == IF hasPE
             THEN Append(es, DeclEnv(fe, [x \in vnames |->
                              Binding(IF x \in DOMAIN pb /\ x \notin fnames THEN pb[x].v ELSE Undef, TRUE, "no")]))
             ELSE [es EXCEPT ![fe].b = WithNames(@, vnames, Binding(Undef, TRUE, "no"))]
      es2 == [es1 EXCEPT ![ve].b = @ @@ LexBindings(LexDeclsL(pid, body))]
      r == InstFuns(funs, ve, es2, h)
  IN [es |-> r.es, h |-> r.h, e |-> ve]

-----------------------------------------------------------------------------
(* Evaluation of expressions: c = Ev(n) *)

nd == N(c.n)

\* 13.2.3 Literals
EvLiteral == nd.t = "lit" /\ Go(Ret(nd.val), k)

\* 13.1.3 IdentifierReference evaluation followed by GetValue (6.2.5.5) on an environment reference:
\* unresolvable -> ReferenceError; uninitialised (TDZ, 9.1.1.1.6 GetBindingValue) -> ReferenceError
GetIdent(name, kk) ==
  LET e == LookupEnv(envs, env, name)
  IN IF e = 0 THEN ThrowErr("ReferenceError", kk)
     ELSE IF ~envs[e].b[name].init THEN ThrowErr("ReferenceError", kk)
     ELSE Go(Ret(envs[e].b[name].v), kk)
EvIdentifier == nd.t = "ident" /\ GetIdent(nd.n, k)

\* 13.2.1 this: ResolveThisBinding (9.4.4); an uninitialised this (derived constructor before super()) throws
EvThis ==
  /\ nd.t = "this"
  /\ LET e == ThisEnvOf(envs, env)
     IN IF e = 0 THEN Go(Ret(Obj(A_Global)), k)
        ELSE IF envs[e].fe[1].ts = "uninit" THEN ThrowErr("ReferenceError", k)
        ELSE Go(Ret(envs[e].fe[1].this), k)

\* 13.3.12 new.target
EvNewTarget ==
  /\ nd.t = "newtarget"
  /\ LET e == ThisEnvOf(envs, env) IN Go(Ret(IF e = 0 THEN Undef ELSE envs[e].fe[1].nt), k)

\* 15.2.5 / 15.3.4 / 15.5.4 InstantiateOrdinaryFunctionExpression, arrow, generator expression.
\* A named function expression gets a scope holding its own name as an immutable ("soft") binding.
EvFunctionExpression ==
  /\ nd.t \in {"fn", "genfn", "arrow"}
  /\ IF nd.t # "arrow" /\ nd.name # ""
     THEN /\ envs' = Append(envs, DeclEnv(env, nd.name :> Binding(Obj(Len(heap) + 1), TRUE, "soft")))
          /\ heap' = AllocFun(heap, c.n, Len(envs) + 1, 0, FunKindOfNode(nd.t))
     ELSE /\ envs' = envs
          /\ heap' = AllocFun(heap, c.n, env, 0, FunKindOfNode(nd.t))
  /\ c' = Ret(Obj(Len(heap) + 1))
  /\ UNCHANGED <<env, k, out, aux>>

\* references evaluated for their value: 13.3.2 property accessors, 13.3.7 super.x
EvMemberValue ==
  /\ nd.t \in {"member", "super_member"}
  /\ Go(EvRef(c.n), Push([f |-> "getv", e |-> env]))

\* 13.2.4 ArrayLiteral: elements left to right (ArrayAccumulation)
EvArrayLiteral ==
  /\ nd.t = "array"
  /\ Go(Ret(Empty), Push([f |-> "arr", e |-> env, n |-> c.n, i |-> 0, acc |-> <<>>]))

\* 13.2.5 ObjectLiteral: OrdinaryObjectCreate(%Object.prototype%), then PropertyDefinitionEvaluation in order
EvObjectLiteral ==
  /\ nd.t = "object"
  /\ GoH(Ret(Empty), Push([f |-> "objlit", e |-> env, n |-> c.n, i |-> 0, a |-> Len(heap) + 1, key |-> <<>>]),
         Append(heap, OrdObj(A_ObjectProto, <<>>)))

\* 13.2.8 TemplateLiteral: the substitutions left to right, each ToString-ed before the next is evaluated
EvTemplate ==
  /\ nd.t = "template"
  /\ IF nd.exprs = <<>> THEN Go(Ret(Str(nd.quasis[1])), k)
     ELSE Go(Ev(nd.exprs[1]), Push([f |-> "tmpl", e |-> env, n |-> c.n, i |-> 1, acc |-> nd.quasis[1]]))

\* 13.5 Unary operators.  typeof of an unresolvable reference is "undefined" (13.5.3 step 2.a);
\* delete takes the reference (13.5.1)
EvUnary ==
  /\ nd.t = "unary"
  /\ IF nd.op = "typeof" /\ N(nd.e).t = "ident" /\ LookupEnv(envs, env, N(nd.e).n) = 0
     THEN Go(Ret(Str(S_undefined)), k)
     ELSE IF nd.op = "delete" /\ N(nd.e).t \in {"member", "ident", "super_member"}
     THEN Go(EvRef(nd.e), Push([f |-> "delete", e |-> env]))
     ELSE Go(Ev(nd.e), Push([f |-> "un", e |-> env, op |-> nd.op]))

\* 13.4 Update expressions: the reference, GetValue, ToNumeric, PutValue
EvUpdate == nd.t = "update" /\ Go(EvRef(nd.target), Push([f |-> "upd_r", e |-> env, n |-> c.n]))

\* 13.6-13.12 binary operators: left operand first
EvBinary == nd.t = "binary" /\ Go(Ev(nd.l), Push([f |-> "bin1", e |-> env, n |-> c.n]))
\* 13.13 binary logical operators (short circuit)
EvLogical == nd.t = "logical" /\ Go(Ev(nd.l), Push([f |-> "log", e |-> env, n |-> c.n]))
\* 13.14 conditional operator
EvConditional == nd.t = "cond" /\ Go(Ev(nd.c), Push([f |-> "cond", e |-> env, n |-> c.n]))
\* 13.16 comma operator
EvComma == nd.t = "seq" /\ Go(Ev(nd.es[1]), Push([f |-> "comma", e |-> env, n |-> c.n, i |-> 1]))

\* 13.15 Assignment operators.  A pattern target is a DestructuringAssignment (13.15.5): the right-hand side
\* is evaluated first; otherwise the left reference is evaluated first.
EvAssignment ==
  /\ nd.t = "assign"
  /\ IF N(nd.target).t \in {"arraypat", "objectpat"}
     THEN Go(Ev(nd.e), Push([f |-> "asg_pat", e |-> env, n |-> c.n]))
     ELSE Go(EvRef(nd.target), Push([f |-> "asg_r", e |-> env, n |-> c.n]))

\* 13.3.6 Function calls: EvaluateCall.  A callee that is a reference supplies the this value.
EvCall ==
  /\ nd.t = "call"
  /\ IF N(nd.f).t \in {"member", "ident", "super_member"}
     THEN Go(EvRef(nd.f), Push([f |-> "call_r", e |-> env, n |-> c.n]))
     ELSE Go(Ev(nd.f), Push([f |-> "call_f", e |-> env, n |-> c.n, this |-> Undef]))

\* 13.3.5 The new operator: EvaluateNew
EvNew == nd.t = "new" /\ Go(Ev(nd.f), Push([f |-> "new_f", e |-> env, n |-> c.n]))

\* 13.3.9 optional chains: the chain node delimits the short circuit
EvOptChain == nd.t = "optchain" /\ Go(Ev(nd.e), Push([f |-> "optchain", e |-> env]))

\* 13.3.7.1 SuperCall
EvSuperCall ==
  /\ nd.t = "super_call"
  /\ Go(Ret(Empty), Push([f |-> "args", e |-> env, n |-> c.n, fv |-> Undef, this |-> Undef, i |-> 0, acc |-> <<>>, kind |-> "super"]))

\* 15.5.5 yield / yield*
EvYield ==
  /\ nd.t = "yield"
  /\ IF nd.e = 0 THEN Go(Ret(Undef), Push([f |-> "yield", e |-> env, n |-> c.n]))
     ELSE Go(Ev(nd.e), Push([f |-> "yield", e |-> env, n |-> c.n]))

\* 15.7.14 class expressions
EvClassExpr == nd.t = "classexpr" /\ Go(Ret(Empty), Push([f |-> "class0", e |-> env, n |-> c.n]))

-----------------------------------------------------------------------------
(* Evaluation of references: c = EvRef(n) yields Ret(reference record) *)

\* 13.1.3 ResolveBinding
RefIdentifier == nd.t = "ident" /\ Go(Ret(IdRef(nd.n)), k)
\* 13.3.2 / 13.3.3 EvaluatePropertyAccessWith{Identifier,Expression}Key: base value first
RefMember == nd.t = "member" /\ Go(Ev(nd.o), Push([f |-> "ref_o", e |-> env, n |-> c.n]))
\* 13.3.7 MakeSuperPropertyReference: this first (may throw), then the key expression, then
\* the home object's [[GetPrototypeOf]]
RefSuperMember ==
  /\ nd.t = "super_member"
  /\ LET e == ThisEnvOf(envs, env)
     IN IF e = 0 THEN OutOfModel("super outside method")
        ELSE IF envs[e].fe[1].ts = "uninit" THEN ThrowErr("ReferenceError", k)
        ELSE IF nd.computed
        THEN Go(Ev(nd.k), Push([f |-> "sref_k", e |-> env, this |-> envs[e].fe[1].this, home |-> heap[envs[e].fe[1].fobj].home]))
        ELSE LET home == heap[envs[e].fe[1].fobj].home
             IN IF home = 0 THEN OutOfModel("super without home object")
                ELSE Go(Ret(SuperRef(IF heap[home].proto = 0 THEN Null ELSE Obj(heap[home].proto), Str(nd.key), envs[e].fe[1].this)), k)
\* any other expression in reference position is evaluated for its value (e.g. a call as callee)
RefOther == nd.t \notin {"ident", "member", "super_member"} /\ Go(Ev(c.n), k)

-----------------------------------------------------------------------------
(* Operators on primitives (13.15.3 ApplyStringOrNumericBinaryOperator, 7.2.13-7.2.15) *)

TErr == [t |-> "terr"]       \* "this operation throws a TypeError"
OpGetV(ref) == [m |-> "op", op |-> "getv", ref |-> ref]
OpPutV(ref, v, rv) == [m |-> "op", op |-> "putv", ref |-> ref, v |-> v, rv |-> rv]
OpToPrim(v, hint) == [m |-> "op", op |-> "toprim", v |-> v, hint |-> hint]
OpBind(pat, v, mode) == [m |-> "op", op |-> "bind", pat |-> pat, v |-> v, mode |-> mode]
OpIterOpen(v) == [m |-> "op", op |-> "iteropen", v |-> v]
List(l) == [t |-> "list", l |-> l]

NumericBin(op, l, r) ==
  IF l.t = "sym" \/ r.t = "sym" THEN TErr
  ELSE LET a == PrimToNumber(l)
           b == PrimToNumber(r)
       IN IF a.t = "oom" \/ b.t = "oom" THEN OOM ELSE NumBinOp(op, a, b)

PrimBinary(op, l, r) ==
  CASE op = "+" ->
         IF l.t = "str" \/ r.t = "str"
         THEN (IF l.t = "sym" \/ r.t = "sym" THEN TErr ELSE Concat(PrimToStr(l), PrimToStr(r)))
         ELSE NumericBin(op, l, r)
    [] op \in {"<", ">", "<=", ">="} ->
         LET x == IF op \in {"<", ">="} THEN PrimLess(l, r) ELSE PrimLess(r, l)
         IN CASE x = "SYM" -> TErr
              [] x = "OOM" -> OOM
              [] op \in {"<", ">"} -> Bool(x = "T")
              [] OTHER -> Bool(x = "F")
    [] op \in {"==", "!="} ->
         LET x == LooseEqPrim(l, r) IN IF x = "OOM" THEN OOM ELSE Bool((x = "T") = (op = "=="))
    [] OTHER -> NumericBin(op, l, r)

IsArith(op) == op \in {"-", "*", "/", "%", "**", "&", "|", "^", "<<", ">>", ">>>"}
HintOf(op) == IF op \in {"+", "==", "!="} THEN "default" ELSE "number"

FinishBinary(op, l, r, kk) ==
  LET v == PrimBinary(op, l, r)
  IN IF v.t = "terr" THEN ThrowErr("TypeError", kk) ELSE Go(Ret(v), kk)

\* 13.10.2 InstanceofOperator with the default Function.prototype[@@hasInstance] = 7.3.21 OrdinaryHasInstance
InstanceOf(l, r, kk) ==
  IF r.t # "obj" THEN ThrowErr("TypeError", kk)
  ELSE LET hm == FindProp(heap, r.a, SymKey(3))
       IN IF Len(hm) > 0 /\ hm[1].acc THEN OutOfModel("accessor @@hasInstance")
          ELSE IF Len(hm) > 0 /\ hm[1].v.t \notin {"oom", "undef", "null"}
          THEN (IF IsCallable(heap, hm[1].v)
                THEN GoE(CallC(hm[1].v, r, <<l>>, Undef), <<[f |-> "tobool", e |-> env]>> \o kk, env)
                ELSE ThrowErr("TypeError", kk))
          ELSE IF ~IsCallableObj(heap, r.a) THEN ThrowErr("TypeError", kk)
          ELSE IF heap[r.a].cls = "bound" THEN OutOfModel("instanceof bound function")
          ELSE IF l.t # "obj" THEN Go(Ret(Bool(FALSE)), kk)
          ELSE LET pd == FindProp(heap, r.a, S_prototype)
               IN IF Len(pd) = 0 THEN ThrowErr("TypeError", kk)
                  ELSE IF pd[1].acc \/ pd[1].v.t = "oom" THEN OutOfModel("instanceof prototype")
                  ELSE IF pd[1].v.t # "obj" THEN ThrowErr("TypeError", kk)
                  ELSE Go(Ret(Bool(ProtoChainHas(heap, heap[l.a].proto, pd[1].v.a))), kk)

\* 13.10.1 the in operator: HasProperty(rval, ToPropertyKey(lval))
InOperator(l, r, kk) ==
  IF r.t # "obj" THEN ThrowErr("TypeError", kk)
  ELSE IF l.t = "obj" THEN OutOfModel("object key for in")
  ELSE IF heap[r.a].cls = "glob" THEN OutOfModel("global object")
  ELSE LET d == FindProp(heap, r.a, KeyOfPrim(l))
       IN IF Len(d) > 0 /\ ~d[1].acc /\ d[1].v.t = "oom" THEN OutOfModel("unmodelled property")
          ELSE Go(Ret(Bool(Len(d) > 0)), kk)

\* the operands are values; objects are first converted with ToPrimitive, left operand first
ApplyBinary(op, l, r, kk) ==
  CASE op \in {"===", "!=="} -> Go(Ret(Bool(StrictEq(l, r) = (op = "==="))), kk)
    [] op = "in" -> InOperator(l, r, kk)
    [] op = "instanceof" -> InstanceOf(l, r, kk)
    [] op \in {"==", "!="} /\ l.t = "obj" /\ r.t = "obj" -> Go(Ret(Bool((l = r) = (op = "=="))), kk)
    [] op \in {"==", "!="} /\ ((l.t = "obj" /\ IsNullish(r)) \/ (r.t = "obj" /\ IsNullish(l))) ->
         Go(Ret(Bool(op = "!=")), kk)
    [] IsPrim(l) /\ IsPrim(r) -> FinishBinary(op, l, r, kk)
    [] l.t = "obj" ->
         Go(OpToPrim(l, HintOf(op)), <<[f |-> "binp", e |-> env, op |-> op, st |-> 1, l |-> l, r |-> r]>> \o kk)
    [] OTHER ->
         IF IsArith(op) /\ l.t = "sym" THEN ThrowErr("TypeError", kk)
         ELSE Go(OpToPrim(r, HintOf(op)), <<[f |-> "binp", e |-> env, op |-> op, st |-> 2, l |-> l, r |-> r]>> \o kk)

-----------------------------------------------------------------------------
(* Continuations of expressions: c = Ret(cv), top frame decides *)

fr == top
cv == c.v

\* GetValue of the reference (or value) just produced
RetGetValue ==
  /\ fr.f = "getv"
  /\ IF cv.t = "ref" THEN Go(OpGetV(cv), rest) ELSE Go(Ret(cv), rest)

\* 13.3.2 property accessor, base evaluated; optional member of a nullish base short-circuits the chain (13.3.9.1)
RetMemberBase ==
  /\ fr.f = "ref_o"
  /\ LET n == N(fr.n)
     IN IF n.optional /\ IsNullish(cv) THEN Go(Abr("optshort", Undef, ""), rest)
        ELSE IF n.computed THEN Go(Ev(n.k), <<[f |-> "ref_k", e |-> fr.e, o |-> cv]>> \o rest)
        ELSE Go(Ret(PropRef(cv, Str(n.key))), rest)
RetMemberKey == fr.f = "ref_k" /\ Go(Ret(PropRef(fr.o, cv)), rest)
RetSuperKey ==
  /\ fr.f = "sref_k"
  /\ IF fr.home = 0 THEN OutOfModel("super without home object")
     ELSE Go(Ret(SuperRef(IF heap[fr.home].proto = 0 THEN Null ELSE Obj(heap[fr.home].proto), cv, fr.this)), rest)

\* 13.2.4.1 ArrayAccumulation
RetArrayElement ==
  /\ fr.f = "arr"
  /\ LET els == N(fr.n).elems
         acc == IF fr.i = 0 THEN fr.acc ELSE IF cv.t = "list" THEN fr.acc \o cv.l ELSE Append(fr.acc, cv)
         j == fr.i + 1
     IN IF Len(acc) > MaxArrayLen THEN OutOfModel("array too long")
        ELSE IF j > Len(els) THEN GoH(Ret(Obj(Len(heap) + 1)), rest, Append(heap, ArrObj(acc)))
        ELSE IF N(els[j]).t = "hole" THEN Go(Ret(Hole), <<[fr EXCEPT !.i = j, !.acc = acc]>> \o rest)
        ELSE IF N(els[j]).t = "spread"
        THEN Go(Ev(N(els[j]).e), <<[f |-> "spread", e |-> fr.e], [fr EXCEPT !.i = j, !.acc = acc]>> \o rest)
        ELSE Go(Ev(els[j]), <<[fr EXCEPT !.i = j, !.acc = acc]>> \o rest)

\* spread element / argument: iterate the value into a list (13.2.4.1, 13.3.8.1)
RetSpread == fr.f = "spread" /\ Go(OpIterOpen(cv), <<[f |-> "collect", e |-> fr.e, acc |-> <<>>, it |-> Undef, nx |-> Undef]>> \o rest)

\* 13.5 unary operators on the operand value
RetUnary ==
  /\ fr.f = "un"
  /\ CASE fr.op = "!" -> Go(Ret(Bool(~ToBoolean(cv))), rest)
       [] fr.op = "void" -> Go(Ret(Undef), rest)
       [] fr.op = "typeof" -> Go(Ret(Str(TypeOf(heap, cv))), rest)
       [] fr.op = "delete" -> Go(Ret(Bool(TRUE)), rest)
       [] OTHER ->   \* - + ~ : ToNumeric / ToNumber (7.1.3, 7.1.4)
            IF cv.t = "obj" THEN Go(OpToPrim(cv, "number"), k)
            ELSE IF cv.t = "sym" THEN ThrowErr("TypeError", rest)
            ELSE LET n == PrimToNumber(cv)
                 IN IF n.t = "oom" THEN Go(Ret(OOM), rest)
                    ELSE Go(Ret(CASE fr.op = "-" -> NumNeg(n) [] fr.op = "+" -> n [] fr.op = "~" -> NumBitNot(n)), rest)

\* 13.5.1 delete on a reference
RetDelete ==
  /\ fr.f = "delete"
  /\ IF cv.t # "ref" THEN Go(Ret(Bool(TRUE)), rest)
     ELSE IF cv.rk = "id"
     THEN \* sloppy only (early error in strict code): declared bindings are not deletable; unresolvable -> true
          (IF Strict THEN OutOfModel("delete identifier in strict code")
           ELSE LET e == LookupEnv(envs, env, cv.name)
                IN IF e = 0 THEN Go(Ret(Bool(TRUE)), rest)
                   ELSE IF e = 1 /\ envs[1].b[cv.name].imm = "del"
                   THEN c' = Ret(Bool(TRUE)) /\ k' = rest
                        /\ envs' = [envs EXCEPT ![1].b = [x \in (DOMAIN @) \ {cv.name} |-> @[x]]]
                        /\ UNCHANGED <<env, heap, out, aux>>
                   ELSE Go(Ret(Bool(FALSE)), rest))
     ELSE IF cv.this # cv.base THEN ThrowErr("ReferenceError", rest)          \* delete super.x
     ELSE IF IsNullish(cv.base) THEN ThrowErr("TypeError", rest)
     ELSE IF cv.kv.t = "obj" THEN OutOfModel("object key in delete")
     ELSE IF cv.base.t # "obj"
     THEN (IF cv.base.t = "str" /\ Len(StrOwn(cv.base.s, KeyOfPrim(cv.kv))) > 0
           THEN (IF Strict THEN ThrowErr("TypeError", rest) ELSE Go(Ret(Bool(FALSE)), rest))
           ELSE Go(Ret(Bool(TRUE)), rest))
     ELSE IF heap[cv.base.a].cls = "glob" \/ heap[cv.base.a].intr THEN OutOfModel("delete on built-in")
     ELSE LET r == DeleteOwn(heap[cv.base.a], KeyOfPrim(cv.kv))
          IN IF r.ok THEN GoH(Ret(Bool(TRUE)), rest, [heap EXCEPT ![cv.base.a] = r.o])
             ELSE IF Strict THEN ThrowErr("TypeError", rest)
             ELSE Go(Ret(Bool(FALSE)), rest)

\* read-modify-write through a property reference whose key is still an object: the key would be
\* converted once by GetValue (6.2.5.5 step 3.c.ii); not modelled
RmwKeyOk(ref) == ~(ref.rk = "prop" /\ ref.kv.t = "obj")

\* 13.4.2-13.4.5 update expressions
RetUpdateRef ==
  /\ fr.f = "upd_r"
  /\ IF ~RmwKeyOk(cv) THEN OutOfModel("object key in update")
     ELSE Go(OpGetV(cv), <<[f |-> "upd_v", e |-> fr.e, n |-> fr.n, ref |-> cv]>> \o rest)
RetUpdateValue ==
  /\ fr.f = "upd_v"
  /\ IF cv.t = "obj" THEN Go(OpToPrim(cv, "number"), k)
     ELSE IF cv.t = "sym" THEN ThrowErr("TypeError", rest)
     ELSE LET old == PrimToNumber(cv)
              new == IF old.t = "oom" THEN OOM ELSE NumAdd(old, Num(IF N(fr.n).op = "++" THEN 1 ELSE -1))
          IN IF new.t = "oom" THEN Go(Ret(OOM), rest)
             ELSE Go(OpPutV(fr.ref, new, IF N(fr.n).prefix THEN new ELSE old), rest)

\* binary operators
RetBinaryLeft == fr.f = "bin1" /\ Go(Ev(N(fr.n).r), <<[f |-> "bin2", e |-> fr.e, n |-> fr.n, l |-> cv]>> \o rest)
RetBinaryRight == fr.f = "bin2" /\ ApplyBinary(N(fr.n).op, fr.l, cv, rest)
\* ToPrimitive of an operand finished (left first; ToNumeric(lval) throws before rval is converted)
RetBinaryPrimitive ==
  /\ fr.f = "binp"
  /\ IF fr.st = 1
     THEN IF IsArith(fr.op) /\ cv.t = "sym" THEN ThrowErr("TypeError", rest)
          ELSE IF fr.op \in {"==", "!="} /\ fr.r.t = "obj" THEN ApplyBinary(fr.op, cv, fr.r, rest)
          ELSE IF fr.r.t = "obj" THEN Go(OpToPrim(fr.r, HintOf(fr.op)), <<[fr EXCEPT !.st = 2, !.l = cv]>> \o rest)
          ELSE FinishBinary(fr.op, cv, fr.r, rest)
     ELSE FinishBinary(fr.op, fr.l, cv, rest)

\* 13.13 && || ??
RetLogical ==
  /\ fr.f = "log"
  /\ LET op == N(fr.n).op
         short == CASE op = "&&" -> ~ToBoolean(cv) [] op = "||" -> ToBoolean(cv) [] op = "??" -> ~IsNullish(cv)
     IN IF short THEN Go(Ret(cv), rest) ELSE Go(Ev(N(fr.n).r), rest)
RetConditional == fr.f = "cond" /\ Go(Ev(IF ToBoolean(cv) THEN N(fr.n).a ELSE N(fr.n).b), rest)
RetComma ==
  /\ fr.f = "comma"
  /\ IF fr.i = Len(N(fr.n).es) THEN Go(Ret(cv), rest)
     ELSE Go(Ev(N(fr.n).es[fr.i + 1]), <<[fr EXCEPT !.i = fr.i + 1]>> \o rest)

\* 13.15.2 assignment
RetAssignRef ==
  /\ fr.f = "asg_r"
  /\ IF N(fr.n).op = "=" THEN Go(Ev(N(fr.n).e), <<[f |-> "asg_v", e |-> fr.e, ref |-> cv]>> \o rest)
     ELSE IF ~RmwKeyOk(cv) THEN OutOfModel("object key in compound assignment")
     ELSE Go(OpGetV(cv), <<[f |-> "casg_l", e |-> fr.e, n |-> fr.n, ref |-> cv]>> \o rest)
RetAssignValue == fr.f = "asg_v" /\ Go(OpPutV(fr.ref, cv, cv), rest)
\* compound assignment: lval read; logical assignments short-circuit without PutValue
RetCompoundLeft ==
  /\ fr.f = "casg_l"
  /\ LET op == N(fr.n).op
     IN IF op \in {"&&=", "||=", "??="}
        THEN LET short == CASE op = "&&=" -> ~ToBoolean(cv) [] op = "||=" -> ToBoolean(cv) [] op = "??=" -> ~IsNullish(cv)
             IN IF short THEN Go(Ret(cv), rest)
                ELSE Go(Ev(N(fr.n).e), <<[f |-> "asg_v", e |-> fr.e, ref |-> fr.ref]>> \o rest)
        ELSE Go(Ev(N(fr.n).e), <<[f |-> "casg_r", e |-> fr.e, n |-> fr.n, ref |-> fr.ref, l |-> cv]>> \o rest)
RetCompoundRight ==
  /\ fr.f = "casg_r"
  /\ ApplyBinary(N(fr.n).bop, fr.l, cv, <<[f |-> "asg_v", e |-> fr.e, ref |-> fr.ref]>> \o rest)
\* 13.15.5 destructuring assignment: the value of the expression is the right-hand side value
RetAssignPattern ==
  /\ fr.f = "asg_pat"
  /\ Go(OpBind(N(fr.n).target, cv, "assign"), <<[f |-> "constv", e |-> fr.e, v |-> cv]>> \o rest)
RetConst == fr.f = "constv" /\ Go(Ret(fr.v), rest)
RetToBoolean == fr.f = "tobool" /\ Go(Ret(Bool(ToBoolean(cv))), rest)

\* 13.2.8.6 template literal: ToString of each substitution
RetTemplate ==
  /\ fr.f = "tmpl"
  /\ IF cv.t = "obj" THEN Go(OpToPrim(cv, "string"), k)
     ELSE IF cv.t = "sym" THEN ThrowErr("TypeError", rest)
     ELSE LET n == N(fr.n)
              a1 == Concat(fr.acc, PrimToStr(cv))
              a2 == IF a1.t = "oom" THEN OOM ELSE Concat(a1.s, n.quasis[fr.i + 1])
          IN IF a2.t = "oom" THEN Go(Ret(OOM), rest)
             ELSE IF fr.i = Len(n.exprs) THEN Go(Ret(a2), rest)
             ELSE Go(Ev(n.exprs[fr.i + 1]), <<[fr EXCEPT !.i = fr.i + 1, !.acc = a2.s]>> \o rest)

\* 13.3.9 optional chain completed normally
RetOptChain == fr.f = "optchain" /\ Go(Ret(cv), rest)

-----------------------------------------------------------------------------
(* Continuations of statements *)

\* 14.2.2 StatementList: the value of the list is the last non-empty statement value (UpdateEmpty)
RetStatementList ==
  /\ fr.f = "seq"
  /\ LET body == N(fr.n).body
         val == UpdateEmpty(cv, fr.v)
     IN IF fr.i = Len(body) THEN GoE(Ret(val), rest, fr.e)
        ELSE Go(Ev(body[fr.i + 1]), <<[fr EXCEPT !.i = fr.i + 1, !.v = val]>> \o rest)

\* 14.3 declarators left to right.  let x; initialises to undefined; var x; does nothing;
\* an initialiser is evaluated, then bound (InitializeBinding for let/const, PutValue for var)
RetDeclarators ==
  /\ fr.f = "decls"
  /\ LET ds == N(fr.n).decls
         kind == N(fr.n).t
         j == fr.i + 1
         nxt == <<[fr EXCEPT !.i = j]>> \o rest
     IN IF j > Len(ds) THEN Go(Ret(Empty), rest)
        ELSE LET d == N(ds[j])
             IN IF d.init # 0
                THEN Go(Ev(d.init), <<[f |-> "decl_v", e |-> fr.e, pat |-> d.target, mode |-> IF kind = "var" THEN "var" ELSE "init"]>> \o nxt)
                ELSE IF kind = "var" THEN Go(Ret(Empty), nxt)
                ELSE Go(OpBind(d.target, Undef, "init"), nxt)
RetDeclaratorValue == fr.f = "decl_v" /\ Go(OpBind(fr.pat, cv, fr.mode), rest)

\* 14.6.2 if: Completion(UpdateEmpty(stmtCompletion, undefined))
RetIfTest ==
  /\ fr.f = "if"
  /\ IF ToBoolean(cv) THEN Go(Ev(N(fr.n).a), <<[f |-> "ifv", e |-> fr.e]>> \o rest)
     ELSE IF N(fr.n).b # 0 THEN Go(Ev(N(fr.n).b), <<[f |-> "ifv", e |-> fr.e]>> \o rest)
     ELSE Go(Ret(Undef), rest)
RetIfBranch == fr.f = "ifv" /\ Go(Ret(UpdateEmpty(cv, Undef)), rest)

\* 14.7.2 / 14.7.3 do-while and while
RetLoopTest ==
  /\ fr.f = "loop_c"
  /\ IF ToBoolean(cv) THEN Go(Ev(N(fr.n).s), <<[fr EXCEPT !.f = "loop_b"]>> \o rest)
     ELSE Go(Ret(fr.v), rest)
RetLoopBody ==
  /\ fr.f = "loop_b"
  /\ Go(Ev(N(fr.n).c), <<[fr EXCEPT !.f = "loop_c", !.v = UpdateEmpty(cv, fr.v)]>> \o rest)

\* 14.7.4.4 CreatePerIterationEnvironment followed by the next phase of the for loop (14.7.4.3 ForBodyEvaluation)
\* phase "test": evaluate the test (or the body when there is none); phase "update": the increment, then the test
ForContinue(frm, val, phase, copy, kk, cur) ==
  LET n == N(frm.n)
      doCopy == copy /\ frm.per # {}
      ne == Len(envs) + 1
      goUpdate == phase = "update" /\ n.update # 0
      tgt == IF goUpdate THEN n.update ELSE IF n.c # 0 THEN n.c ELSE n.s
      fk == IF goUpdate THEN "for_u" ELSE IF n.c # 0 THEN "for_c" ELSE "for_b"
  IN /\ c' = Ev(tgt)
     /\ k' = <<[frm EXCEPT !.f = fk, !.v = val, !.ie = IF doCopy THEN ne ELSE cur]>> \o kk
     /\ envs' = IF doCopy THEN Append(envs, DeclEnv(envs[cur].par, [x \in frm.per |-> envs[cur].b[x]])) ELSE envs
     /\ env' = IF doCopy THEN ne ELSE cur
     /\ UNCHANGED <<heap, out, aux>>
RetForInit == fr.f = "for_i" /\ ForContinue(fr, fr.v, "test", TRUE, rest, env)
RetForTest ==
  /\ fr.f = "for_c"
  /\ IF ToBoolean(cv) THEN Go(Ev(N(fr.n).s), <<[fr EXCEPT !.f = "for_b"]>> \o rest)
     ELSE GoE(Ret(fr.v), rest, fr.e)
RetForBody == fr.f = "for_b" /\ ForContinue(fr, UpdateEmpty(cv, fr.v), "update", TRUE, rest, fr.ie)
RetForUpdate == fr.f = "for_u" /\ ForContinue(fr, fr.v, "test", FALSE, rest, fr.ie)

\* 14.13.4 LabelledEvaluation, normal completion
RetLabelled == fr.f = "label" /\ Go(Ret(cv), rest)

\* 14.10 / 14.14
RetReturn == fr.f = "return" /\ Go(Abr("return", cv, ""), rest)
RetThrow == fr.f = "throw" /\ Go(Abr("throw", cv, ""), rest)

\* 14.15.3 try: the block (or the catch block) completed normally with value cv
TryFinish(comp, kk, n, e0) ==
  IF N(n).f # 0 THEN GoE(Ev(N(n).f), <<[f |-> "fin", e |-> e0, comp |-> comp]>> \o kk, e0)
  ELSE GoE(comp, kk, e0)
RetTryBlock == fr.f \in {"try", "catch"} /\ TryFinish(Ret(UpdateEmpty(cv, Undef)), rest, fr.n, fr.e)
\* the catch parameter is bound: run the handler block
RetCatchBound == fr.f = "catch_b" /\ Go(Ev(N(fr.n).h), <<[f |-> "catch", e |-> fr.e, n |-> fr.n]>> \o rest)
\* 14.15.3: the finalizer completed normally: the saved completion takes effect
RetFinally == fr.f = "fin" /\ Go(fr.comp, rest)

\* 14.12.2 CaseBlockEvaluation.  Clauses with a test are searched in order (the default clause is skipped);
\* without a match execution starts at the default clause, if any.
NextTestedCase(cases, from) ==
  LET S == {i \in from..Len(cases) : N(cases[i]).test # 0} IN IF S = {} THEN 0 ELSE CHOOSE i \in S : \A j \in S : i <= j
DefaultCase(cases) ==
  LET S == {i \in DOMAIN cases : N(cases[i]).test = 0} IN IF S = {} THEN 0 ELSE CHOOSE i \in S : TRUE
\* continue the search at clause index `from`, or fall back to the default clause, or finish
SwitchSearch(n, d, from, e0, kk) ==
  LET cases == N(n).cases
      i == NextTestedCase(cases, from)
      dflt == DefaultCase(cases)
  IN IF i # 0 THEN Go(Ev(N(cases[i]).test), <<[f |-> "sw_t", e |-> e0, n |-> n, d |-> d, i |-> i]>> \o kk)
     ELSE IF dflt # 0 THEN Go(Ret(Empty), <<[f |-> "sw_b", e |-> e0, n |-> n, ci |-> dflt, si |-> 0, v |-> Undef]>> \o kk)
     ELSE GoE(Ret(Undef), kk, e0)
RetSwitchDiscriminant ==
  /\ fr.f = "sw_d"
  /\ LET r == BlockInst(SwitchStmts(pid, fr.n), env, envs, heap)
         cases == N(fr.n).cases
         i == NextTestedCase(cases, 1)
         dflt == DefaultCase(cases)
     IN /\ envs' = r.es
        /\ heap' = r.h
        /\ env' = IF r.need THEN Len(envs) + 1 ELSE env
        /\ UNCHANGED <<out, aux>>
        /\ IF i # 0 THEN c' = Ev(N(cases[i]).test) /\ k' = <<[f |-> "sw_t", e |-> fr.e, n |-> fr.n, d |-> cv, i |-> i]>> \o rest
           ELSE IF dflt # 0 THEN c' = Ret(Empty) /\ k' = <<[f |-> "sw_b", e |-> fr.e, n |-> fr.n, ci |-> dflt, si |-> 0, v |-> Undef]>> \o rest
           ELSE c' = Ret(Empty) /\ k' = <<[f |-> "sw_end", e |-> fr.e]>> \o rest
RetSwitchEnd == fr.f = "sw_end" /\ GoE(Ret(Undef), rest, fr.e)
\* CaseClauseIsSelected: IsStrictlyEqual(input, clauseSelector)
RetSwitchTest ==
  /\ fr.f = "sw_t"
  /\ IF StrictEq(fr.d, cv)
     THEN Go(Ret(Empty), <<[f |-> "sw_b", e |-> fr.e, n |-> fr.n, ci |-> fr.i, si |-> 0, v |-> Undef]>> \o rest)
     ELSE SwitchSearch(fr.n, fr.d, fr.i + 1, fr.e, rest)
\* statements of the selected clause and of the clauses that follow (fall through)
RetSwitchBody ==
  /\ fr.f = "sw_b"
  /\ LET cases == N(fr.n).cases
         val == UpdateEmpty(cv, fr.v)
         body == N(cases[fr.ci]).body
     IN IF fr.si < Len(body) THEN Go(Ev(body[fr.si + 1]), <<[fr EXCEPT !.si = fr.si + 1, !.v = val]>> \o rest)
        ELSE IF fr.ci < Len(cases) THEN Go(Ret(Empty), <<[fr EXCEPT !.ci = fr.ci + 1, !.si = 0, !.v = val]>> \o rest)
        ELSE GoE(Ret(val), rest, fr.e)

-----------------------------------------------------------------------------
(* Abrupt completions: c = Abr(kind, v, l) unwinds the continuation (6.2.4, 14.1.1 LoopContinues, ...) *)

ak == c.kind
\* the completion with its value updated (UpdateEmpty) when it carries one
AbrUpd(d) == IF ak \in {"break", "continue"} THEN [c EXCEPT !.v = UpdateEmpty(c.v, d)] ELSE c

\* 14.7.1.1 LoopContinues / BreakableStatement for while, do-while and for loops
AbrLoop ==
  /\ fr.f \in {"loop_b", "for_b"}
  /\ IF ak = "continue" /\ (c.l = "" \/ c.l \in fr.ls)
     THEN IF fr.f = "loop_b"
          THEN GoE(Ev(N(fr.n).c), <<[fr EXCEPT !.f = "loop_c", !.v = UpdateEmpty(c.v, fr.v)]>> \o rest, fr.e)
          ELSE ForContinue(fr, UpdateEmpty(c.v, fr.v), "update", TRUE, rest, fr.ie)
     ELSE IF ak = "break" /\ c.l = "" THEN GoE(Ret(UpdateEmpty(c.v, fr.v)), rest, fr.e)
     ELSE GoE(AbrUpd(fr.v), rest, fr.e)

\* 14.13.4: a break targeting this label completes the labelled statement normally
AbrLabelled ==
  /\ fr.f = "label"
  /\ IF ak = "break" /\ c.l = fr.l THEN GoE(Ret(c.v), rest, fr.e) ELSE GoE(c, rest, fr.e)

\* 14.12.4: an unlabelled break leaves the switch
AbrSwitch ==
  /\ fr.f = "sw_b"
  /\ IF ak = "break" /\ c.l = "" THEN GoE(Ret(UpdateEmpty(c.v, fr.v)), rest, fr.e)
     ELSE GoE(AbrUpd(fr.v), rest, fr.e)

\* 14.15.3 try: a throw completion enters the catch clause (CatchClauseEvaluation 14.15.2: the parameter is
\* bound in a new declarative record); any other abrupt completion, or a throw without handler, runs the
\* finalizer with the completion saved
AbrTry ==
  /\ fr.f = "try"
  /\ LET n == N(fr.n)
     IN IF ak = "throw" /\ n.h # 0
        THEN IF n.p = 0 THEN GoE(Ev(n.h), <<[f |-> "catch", e |-> fr.e, n |-> fr.n]>> \o rest, fr.e)
             ELSE /\ envs' = Append(envs, DeclEnv(fr.e, [x \in Range(BoundNames(pid, n.p)) |-> Uninit("no")]))
                  /\ env' = Len(envs) + 1
                  /\ c' = OpBind(n.p, c.v, "init")
                  /\ k' = <<[f |-> "catch_b", e |-> fr.e, n |-> fr.n]>> \o rest
                  /\ UNCHANGED <<heap, out, aux>>
        ELSE TryFinish(AbrUpd(Undef), rest, fr.n, fr.e)
AbrCatch == fr.f = "catch" /\ TryFinish(AbrUpd(Undef), rest, fr.n, fr.e)

\* 13.3.9: a short-circuited optional chain evaluates to undefined
AbrOptChain ==
  /\ fr.f = "optchain"
  /\ IF ak = "optshort" THEN GoE(Ret(Undef), rest, fr.e) ELSE GoE(c, rest, fr.e)

\* frames that only pass an abrupt completion on: the frame is discarded and its environment restored;
\* statement lists and if statements update an empty break/continue value (14.2.2, 14.6.2)
AbrPass == GoE(CASE fr.f = "seq" -> AbrUpd(fr.v) [] fr.f = "ifv" -> AbrUpd(Undef) [] OTHER -> c, rest, fr.e)

-----------------------------------------------------------------------------
(* Abstract operations that may run user code: c = [m |-> "op", op |-> ...] *)

\* 10.1.8 OrdinaryGet on the property found along the prototype chain, with the receiver `this`
GetFrom(base, key, this, kk) ==
  IF base.t = "obj" /\ heap[base.a].cls = "glob" THEN OutOfModel("property of the global object")
  ELSE LET d == FindOnValue(heap, base, key)
       IN IF Len(d) = 0 THEN Go(Ret(Undef), kk)
          ELSE IF d[1].acc
          THEN (IF d[1].g.t = "undef" THEN Go(Ret(Undef), kk) ELSE Go(CallC(d[1].g, this, <<>>, Undef), kk))
          ELSE IF d[1].v.t = "oom" THEN OutOfModel("unmodelled built-in property " \o ToString(key))
          ELSE Go(Ret(d[1].v), kk)

\* 6.2.5.5 GetValue
OpGetValue ==
  /\ c.op = "getv"
  /\ LET r == c.ref
     IN IF r.rk = "id" THEN GetIdent(r.name, k)
        ELSE IF IsNullish(r.base) THEN ThrowErr("TypeError", k)
        ELSE IF r.kv.t = "obj" THEN Go(OpToPrim(r.kv, "string"), Push([f |-> "getv_k", e |-> env, ref |-> r]))
        ELSE GetFrom(r.base, KeyOfPrim(r.kv), r.this, k)
RetGetValueKey == fr.f = "getv_k" /\ Go(OpGetV([fr.ref EXCEPT !.kv = cv]), rest)

\* 6.2.5.6 PutValue on an environment reference: 9.1.1.1.5 SetMutableBinding; an unresolvable reference
\* throws in strict code and creates a (deletable) global property in sloppy code
PutIdent(name, val, rv, kk) ==
  LET e == LookupEnv(envs, env, name)
  IN IF e = 0
     THEN IF Strict THEN ThrowErr("ReferenceError", kk)
          ELSE /\ envs' = [envs EXCEPT ![1].b = @ @@ (name :> Binding(val, TRUE, "del"))]
               /\ c' = Ret(rv) /\ k' = kk
               /\ UNCHANGED <<env, heap, out, aux>>
     ELSE LET b == envs[e].b[name]
          IN IF ~b.init THEN ThrowErr("ReferenceError", kk)
             ELSE IF b.imm = "const" THEN ThrowErr("TypeError", kk)
             ELSE IF b.imm = "soft" THEN (IF Strict THEN ThrowErr("TypeError", kk) ELSE Go(Ret(rv), kk))
             ELSE /\ envs' = [envs EXCEPT ![e].b[name].v = val]
                  /\ c' = Ret(rv) /\ k' = kk
                  /\ UNCHANGED <<env, heap, out, aux>>

\* 6.2.5.6 PutValue; the operation yields c.rv (the value of the enclosing expression)
OpPutValue ==
  /\ c.op = "putv"
  /\ LET r == c.ref
     IN IF r.rk = "id" THEN PutIdent(r.name, c.v, c.rv, k)
        ELSE IF IsNullish(r.base) THEN ThrowErr("TypeError", k)
        ELSE IF r.kv.t = "obj"
        THEN Go(OpToPrim(r.kv, "string"), Push([f |-> "putv_k", e |-> env, ref |-> r, v |-> c.v, rv |-> c.rv]))
        ELSE LET s == SetProp(heap, r.base, KeyOfPrim(r.kv), c.v, r.this)
             IN CASE s.r = "ok" -> GoH(Ret(c.rv), k, s.h)
                  [] s.r = "fail" -> IF Strict THEN ThrowErr("TypeError", k) ELSE Go(Ret(c.rv), k)
                  [] s.r = "setter" -> Go(CallC(s.f, r.this, <<c.v>>, Undef), Push([f |-> "constv", e |-> env, v |-> c.rv]))
                  [] s.r = "oom" -> OutOfModel("unmodelled property write")
RetPutValueKey == fr.f = "putv_k" /\ Go(OpPutV([fr.ref EXCEPT !.kv = cv], fr.v, fr.rv), rest)

\* 7.1.1 ToPrimitive: GetMethod(input, @@toPrimitive), else 7.1.1.1 OrdinaryToPrimitive
HintStr(h) == CASE h = "string" -> S_string [] h = "number" -> S_number [] OTHER -> S_default
OrdPrimName(hint, i) == IF (hint = "string") = (i = 1) THEN S_toString ELSE S_valueOf
OrdPrimNext(o, hint, i, kk) ==
  IF i > 2 THEN ThrowErr("TypeError", kk)
  ELSE Go(OpGetV(PropRef(o, Str(OrdPrimName(hint, i)))), <<[f |-> "ordprim_m", e |-> env, o |-> o, hint |-> hint, i |-> i]>> \o kk)
OpToPrimitive ==
  /\ c.op = "toprim"
  /\ IF c.v.t # "obj" THEN Go(Ret(c.v), k)
     ELSE LET d == FindProp(heap, c.v.a, SymKey(2))
          IN IF Len(d) = 0 THEN OrdPrimNext(c.v, c.hint, 1, k)
             ELSE IF d[1].acc \/ d[1].v.t = "oom" THEN OutOfModel("accessor @@toPrimitive")
             ELSE IF IsNullish(d[1].v) THEN OrdPrimNext(c.v, c.hint, 1, k)
             ELSE IF ~IsCallable(heap, d[1].v) THEN ThrowErr("TypeError", k)
             ELSE Go(CallC(d[1].v, c.v, <<Str(HintStr(c.hint))>>, Undef), Push([f |-> "toprim_r", e |-> env]))
RetToPrimitiveExotic == fr.f = "toprim_r" /\ IF cv.t = "obj" THEN ThrowErr("TypeError", rest) ELSE Go(Ret(cv), rest)
RetOrdinaryToPrimitiveMethod ==
  /\ fr.f = "ordprim_m"
  /\ IF IsCallable(heap, cv) THEN Go(CallC(cv, fr.o, <<>>, Undef), <<[fr EXCEPT !.f = "ordprim_r"]>> \o rest)
     ELSE OrdPrimNext(fr.o, fr.hint, fr.i + 1, rest)
RetOrdinaryToPrimitiveResult ==
  /\ fr.f = "ordprim_r"
  /\ IF cv.t # "obj" THEN Go(Ret(cv), rest) ELSE OrdPrimNext(fr.o, fr.hint, fr.i + 1, rest)

\* 8.6.2 BindingInitialization / 13.15.5 DestructuringAssignmentEvaluation / PutValue for var:
\* binds value c.v to the target c.pat; mode "init" (InitializeBinding), "var" / "assign" (PutValue)
OpBindIdentifier ==
  /\ c.op = "bind" /\ N(c.pat).t = "ident"
  /\ LET name == N(c.pat).n
         e == LookupEnv(envs, env, name)
     IN IF c.mode = "init"
        THEN /\ envs' = [envs EXCEPT ![e].b[name] = [@ EXCEPT !.v = c.v, !.init = TRUE]]
             /\ c' = Ret(Empty)
             /\ UNCHANGED <<env, k, heap, out, aux>>
        ELSE PutIdent(name, c.v, Empty, k)
OpBindMember ==
  /\ c.op = "bind" /\ N(c.pat).t \in {"member", "super_member"}
  /\ Go(EvRef(c.pat), Push([f |-> "bind_ref", e |-> env, v |-> c.v]))
RetBindReference == fr.f = "bind_ref" /\ Go(OpPutV(cv, fr.v, Empty), rest)

-----------------------------------------------------------------------------
(* Object literals (13.2.5.5 PropertyDefinitionEvaluation) *)

S_proto == <<95,95,112,114,111,116,111,95,95>>      \* "__proto__"

\* 10.1.6.3 ValidateAndApplyPropertyDescriptor on a fresh/ordinary object: replace in place or append
DefineOwn(o, p) ==
  LET i == PropIdx(o.props, p.k)
  IN IF i = 0 THEN [o EXCEPT !.props = Append(@, p)] ELSE [o EXCEPT !.props[i] = p]
\* accessor definition merges with an existing accessor of the same key (get + set pairs)
DefineAccessor(o, key, kind, f) ==
  LET i == PropIdx(o.props, key)
      old == IF i # 0 /\ o.props[i].acc THEN o.props[i] ELSE AccProp(key, Undef, Undef)
  IN DefineOwn(o, IF kind = "get" THEN [old EXCEPT !.g = f] ELSE [old EXCEPT !.s = f])

MethodKind(n) == IF N(n).gen THEN "gen" ELSE "method"

\* defines property definition node pn with key `key` on object a, or starts evaluating its value
ObjLitDefine(pn, key, a, kk) ==
  LET p == N(pn)
  IN CASE p.kind = "init" -> Go(Ev(p.v), <<[f |-> "objv", e |-> env, a |-> a, key |-> key, pn |-> pn]>> \o kk)
       [] p.kind = "method" ->
            LET h1 == AllocFun(heap, p.v, env, a, MethodKind(p.v))
            IN GoH(Ret(Empty), kk, [h1 EXCEPT ![a] = DefineOwn(@, DataProp(key, Obj(Len(heap) + 1)))])
       [] p.kind \in {"get", "set"} ->
            LET h1 == AllocFun(heap, p.v, env, a, "method")
            IN GoH(Ret(Empty), kk, [h1 EXCEPT ![a] = DefineAccessor(@, key, p.kind, Obj(Len(heap) + 1))])

RetObjectLiteral ==
  /\ fr.f = "objlit"
  /\ LET ps == N(fr.n).props
         j == fr.i + 1
         nxt == <<[fr EXCEPT !.i = j]>> \o rest
     IN IF j > Len(ps) THEN Go(Ret(Obj(fr.a)), rest)
        ELSE LET p == N(ps[j])
             IN IF p.kind = "spread" THEN Go(Ev(p.v), <<[f |-> "objspread", e |-> fr.e, a |-> fr.a]>> \o nxt)
                ELSE IF p.computed THEN Go(Ev(p.k), <<[f |-> "objk", e |-> fr.e, a |-> fr.a, pn |-> ps[j]]>> \o nxt)
                ELSE ObjLitDefine(ps[j], p.key, fr.a, nxt)
\* computed key: ToPropertyKey before the value is evaluated
RetObjectKey ==
  /\ fr.f = "objk"
  /\ IF cv.t = "obj" THEN Go(OpToPrim(cv, "string"), k)
     ELSE ObjLitDefine(fr.pn, KeyOfPrim(cv), fr.a, rest)
\* CreateDataPropertyOrThrow; the non-computed key __proto__ sets the prototype instead (B.3.1)
RetObjectValue ==
  /\ fr.f = "objv"
  /\ IF fr.key = S_proto /\ ~N(fr.pn).computed /\ ~N(fr.pn).shorthand
     THEN IF cv.t = "obj" THEN GoH(Ret(Empty), rest, [heap EXCEPT ![fr.a].proto = cv.a])
          ELSE IF cv.t = "null" THEN GoH(Ret(Empty), rest, [heap EXCEPT ![fr.a].proto = 0])
          ELSE Go(Ret(Empty), rest)
     ELSE GoH(Ret(Empty), rest, [heap EXCEPT ![fr.a] = DefineOwn(@, DataProp(fr.key, cv))])
\* 7.3.26 CopyDataProperties(target, source, excluded): own keys snapshot; each enumerable property still present
\* is read with Get (getters run, in key order) and defined on the target with CreateDataPropertyOrThrow
OpCopyProps(tgt, src, excl) == [m |-> "op", op |-> "copyprops", tgt |-> tgt, src |-> src, excl |-> excl]
OpCopyDataProperties ==
  /\ c.op = "copyprops"
  /\ IF IsNullish(c.src) \/ c.src.t \in {"bool", "num", "sym"} THEN Go(Ret(Empty), k)
     ELSE IF c.src.t = "str"
     THEN LET ks == SelectSeq([i \in 1..Len(c.src.s) |-> i], LAMBDA i : NumToStr(Num(i - 1)) \notin Range(c.excl))
              RECURSIVE Put(_, _)
              Put(o, j) == IF j > Len(ks) THEN o ELSE Put(DefineOwn(o, DataProp(NumToStr(Num(ks[j] - 1)), Str(<<c.src.s[ks[j]]>>))), j + 1)
          IN GoH(Ret(Empty), k, [heap EXCEPT ![c.tgt] = Put(@, 1)])
     ELSE IF heap[c.src.a].cls = "glob" THEN OutOfModel("spread of the global object")
     ELSE Go(Ret(Empty), Push([f |-> "cpy", e |-> env, tgt |-> c.tgt, src |-> c.src, i |-> 0,
                               keys |-> SelectSeq(OwnKeys(heap[c.src.a]), LAMBDA x : x \notin Range(c.excl))]))
RECURSIVE NextCopyKey(_, _, _)
\* index of the next key (after i) that is still an enumerable own property, or 0
NextCopyKey(o, keys, i) ==
  IF i > Len(keys) THEN 0
  ELSE LET d == OwnDesc(o, keys[i]) IN IF Len(d) = 1 /\ d[1].e THEN i ELSE NextCopyKey(o, keys, i + 1)
RetCopyDataProperties ==
  /\ fr.f = "cpy"
  /\ LET h1 == IF fr.i = 0 THEN heap ELSE [heap EXCEPT ![fr.tgt] = DefineOwn(@, DataProp(fr.keys[fr.i], cv))]
         j == NextCopyKey(h1[fr.src.a], fr.keys, fr.i + 1)
     IN IF j = 0 THEN GoH(Ret(Empty), rest, h1)
        ELSE GoH(OpGetV(PropRef(fr.src, KeyToValue(fr.keys[j]))), <<[fr EXCEPT !.i = j]>> \o rest, h1)
RetObjectSpread == fr.f = "objspread" /\ Go(OpCopyProps(fr.a, cv, <<>>), rest)

-----------------------------------------------------------------------------
(* Iteration (ECMA-262 7.4 Operations on Iterator Objects).  Iterator Records and step results travel as    *)
(* pseudo values: [t |-> "iter", it, nx] and [t |-> "step", done, v].                                        *)

IterRec(it, nx) == [t |-> "iter", it |-> it, nx |-> nx]
StepRes(done, val) == [t |-> "step", done |-> done, v |-> val]
OpIterStep(iter) == [m |-> "op", op |-> "iterstep", iter |-> iter]
OpIterClose(iter, comp) == [m |-> "op", op |-> "iterclose", iter |-> iter, comp |-> comp]

\* 7.4.3 GetIterator(obj, sync): GetMethod(obj, @@iterator), Call, the result must be an object, Get "next"
OpIteratorOpen ==
  /\ c.op = "iteropen"
  /\ IF IsNullish(c.v) THEN ThrowErr("TypeError", k)
     ELSE LET d == FindOnValue(heap, c.v, SymKey(1))
          IN IF Len(d) = 0 THEN ThrowErr("TypeError", k)
             ELSE IF d[1].acc \/ d[1].v.t = "oom" THEN OutOfModel("unmodelled @@iterator")
             ELSE IF ~IsCallable(heap, d[1].v) THEN ThrowErr("TypeError", k)
             ELSE Go(CallC(d[1].v, c.v, <<>>, Undef), Push([f |-> "iter_o", e |-> env]))
RetIteratorObject ==
  /\ fr.f = "iter_o"
  /\ IF cv.t # "obj" THEN ThrowErr("TypeError", rest)
     ELSE Go(OpGetV(PropRef(cv, Str(S_next))), <<[f |-> "iter_n", e |-> fr.e, it |-> cv]>> \o rest)
RetIteratorNext == fr.f = "iter_n" /\ Go(Ret(IterRec(fr.it, cv)), rest)

\* 7.4.8 IteratorStepValue: Call(next), result must be an object (7.4.4 IteratorNext), IteratorComplete, IteratorValue
OpIteratorStep ==
  /\ c.op = "iterstep"
  /\ IF ~IsCallable(heap, c.iter.nx) THEN ThrowErr("TypeError", k)
     ELSE Go(CallC(c.iter.nx, c.iter.it, <<>>, Undef), Push([f |-> "step_r", e |-> env]))
RetStepResult ==
  /\ fr.f = "step_r"
  /\ IF cv.t # "obj" THEN ThrowErr("TypeError", rest)
     ELSE Go(OpGetV(PropRef(cv, Str(S_done))), <<[f |-> "step_d", e |-> fr.e, r |-> cv]>> \o rest)
RetStepDone ==
  /\ fr.f = "step_d"
  /\ IF ToBoolean(cv) THEN Go(Ret(StepRes(TRUE, Undef)), rest)
     ELSE Go(OpGetV(PropRef(fr.r, Str(S_value))), <<[f |-> "step_v", e |-> fr.e]>> \o rest)
RetStepValue == fr.f = "step_v" /\ Go(Ret(StepRes(FALSE, cv)), rest)

\* 7.4.11 IteratorClose(iteratorRecord, completion): GetMethod(iterator, "return"), Call; a throw completion
\* wins over anything the return method does; otherwise its throw wins, and its result must be an object.
\* The operation ends by resuming `comp` (a control record: Ret(v) or an abrupt completion).
OpIteratorClose ==
  /\ c.op = "iterclose"
  /\ Go(OpGetV(PropRef(c.iter.it, Str(S_return))), Push([f |-> "iterclose", e |-> env, it |-> c.iter.it, comp |-> c.comp, st |-> "get"]))
IsThrowComp(comp) == comp.m = "abr" /\ comp.kind = "throw"
RetIteratorClose ==
  /\ fr.f = "iterclose"
  /\ IF fr.st = "get"
     THEN IF IsNullish(cv) THEN GoE(fr.comp, rest, fr.e)
          ELSE IF ~IsCallable(heap, cv) THEN (IF IsThrowComp(fr.comp) THEN GoE(fr.comp, rest, fr.e) ELSE ThrowErr("TypeError", rest))
          ELSE Go(CallC(cv, fr.it, <<>>, Undef), <<[fr EXCEPT !.st = "call"]>> \o rest)
     ELSE IF IsThrowComp(fr.comp) THEN GoE(fr.comp, rest, fr.e)
          ELSE IF cv.t # "obj" THEN ThrowErr("TypeError", rest)
          ELSE GoE(fr.comp, rest, fr.e)
AbrIteratorClose ==
  /\ fr.f = "iterclose"
  /\ IF ak = "throw" /\ IsThrowComp(fr.comp) THEN GoE(fr.comp, rest, fr.e) ELSE GoE(c, rest, fr.e)

\* spread / rest collection: all remaining values of an iterator as a list (13.2.4.1, 13.3.8.1)
RetCollect ==
  /\ fr.f = "collect"
  /\ IF cv.t = "iter" THEN Go(OpIterStep(cv), <<[fr EXCEPT !.it = cv]>> \o rest)
     ELSE IF cv.done THEN Go(Ret(List(fr.acc)), rest)
     ELSE IF Len(fr.acc) >= MaxArrayLen THEN OutOfModel("spread too long")
     ELSE Go(OpIterStep(fr.it), <<[fr EXCEPT !.acc = Append(@, cv.v)]>> \o rest)

\* 23.1.5 Array Iterator objects: CreateArrayIterator(array, value) / %ArrayIteratorPrototype%.next
ArrIterObj(a) == [cls |-> "arriter", proto |-> A_ArrayIteratorProto, props |-> <<>>, ext |-> TRUE, intr |-> FALSE,
                  arr |-> a, idx |-> 0, fin |-> FALSE]
\* 7.4.14 CreateIterResultObject
IterResultObj(val, done) == OrdObj(A_ObjectProto, <<DataProp(S_value, val), DataProp(S_done, Bool(done))>>)
CallArrayIterNatives(nm) ==
  IF nm = "Array.prototype.values"
  THEN IF c.this.t # "obj" \/ heap[c.this.a].cls # "arr" THEN OutOfModel("array iterator over a non-array")
       ELSE GoH(Ret(Obj(Len(heap) + 1)), k, Append(heap, ArrIterObj(c.this.a)))
  ELSE \* ArrayIterator.next
       IF c.this.t # "obj" \/ heap[c.this.a].cls # "arriter" THEN ThrowErr("TypeError", k)
       ELSE LET it == heap[c.this.a]
                els == heap[it.arr].elems
                ra == Len(heap) + 1
            IN IF it.fin \/ it.idx >= Len(els)
               THEN GoH(Ret(Obj(ra)), k, Append([heap EXCEPT ![c.this.a].fin = TRUE], IterResultObj(Undef, TRUE)))
               ELSE IF els[it.idx + 1].t = "hole" /\ Len(FindProp(heap, heap[it.arr].proto, NumToStr(Num(it.idx)))) > 0
               THEN OutOfModel("array hole backed by a prototype property")
               ELSE GoH(Ret(Obj(ra)), k,
                        Append([heap EXCEPT ![c.this.a].idx = @ + 1],
                               IterResultObj(IF els[it.idx + 1].t = "hole" THEN Undef ELSE els[it.idx + 1], FALSE)))

-----------------------------------------------------------------------------
(* for-in / for-of (14.7.5) *)

\* string-valued own keys of an object, in [[OwnPropertyKeys]] order
StrKeysOf(o) == SelectSeq(OwnKeys(o), LAMBDA x : ~IsSymKey(x))

RECURSIVE ForInAdvance(_, _, _, _)
\* 14.7.5.10.2.1 %ForInIteratorPrototype%.next: [done, key, o, keys, vis]
ForInAdvance(h, o, keys, vis) ==
  IF keys = <<>>
  THEN IF h[o].proto = 0 THEN [done |-> TRUE, key |-> <<>>, o |-> o, keys |-> <<>>, vis |-> vis]
       ELSE ForInAdvance(h, h[o].proto, StrKeysOf(h[h[o].proto]), vis)
  ELSE LET key == Head(keys)
           d == OwnDesc(h[o], key)
       IN IF key \in vis \/ Len(d) = 0 THEN ForInAdvance(h, o, Tail(keys), vis)
          ELSE IF d[1].e THEN [done |-> FALSE, key |-> key, o |-> o, keys |-> Tail(keys), vis |-> vis \cup {key}]
          ELSE ForInAdvance(h, o, Tail(keys), vis \cup {key})

\* binds the next value of a for-in/of loop (14.7.5.7 ForIn/OfBodyEvaluation step 6.g-h): a fresh record with
\* the loop's let/const names per iteration; var and assignment heads use PutValue
ForBindNext(frm, val, kk) ==
  LET n == N(frm.n)
  IN IF n.kind \in {"let", "const"}
     THEN /\ envs' = Append(envs, DeclEnv(frm.e, [x \in Range(BoundNames(pid, n.target)) |-> Uninit(IF n.kind = "const" THEN "const" ELSE "no")]))
          /\ env' = Len(envs) + 1
          /\ c' = OpBind(n.target, val, "init")
          /\ k' = <<[frm EXCEPT !.st = "bind"]>> \o kk
          /\ UNCHANGED <<heap, out, aux>>
     ELSE GoE(OpBind(n.target, val, IF n.kind = "var" THEN "var" ELSE "assign"), <<[frm EXCEPT !.st = "bind"]>> \o kk, frm.e)

\* for-in: next key or end of loop
ForInNext(frm, val, kk) ==
  LET r == ForInAdvance(heap, frm.o, frm.keys, frm.vis)
  IN IF r.done THEN GoE(Ret(val), kk, frm.e)
     ELSE ForBindNext([frm EXCEPT !.o = r.o, !.keys = r.keys, !.vis = r.vis, !.v = val], Str(r.key), kk)

\* 14.7.5.6 ForIn/OfHeadEvaluation: the subject has been evaluated (in the TDZ record, now discarded)
RetForHead ==
  /\ fr.f = "forhead"
  /\ LET n == N(fr.n)
         base == [f |-> "forx", e |-> fr.e, n |-> fr.n, v |-> Undef, ls |-> fr.ls, st |-> "open", iter |-> Undef,
                  o |-> 0, keys |-> <<>>, vis |-> {}]
     IN IF n.t = "forof" THEN GoE(OpIterOpen(cv), <<base>> \o rest, fr.e)
        ELSE IF IsNullish(cv) THEN GoE(Ret(Undef), rest, fr.e)
        ELSE IF cv.t = "str" /\ cv.s # <<>> THEN OutOfModel("for-in over a string")
        ELSE IF cv.t = "obj" /\ heap[cv.a].cls \in {"glob", "arriter", "gen"} THEN OutOfModel("for-in over an exotic object")
        ELSE LET o == LookupStart(cv)
             IN ForInNext([base EXCEPT !.o = o, !.keys = StrKeysOf(heap[o])], Undef, rest)

RetForInOf ==
  /\ fr.f = "forx"
  /\ CASE fr.st = "open" -> Go(OpIterStep(cv), <<[fr EXCEPT !.st = "step", !.iter = cv]>> \o rest)
       [] fr.st = "step" -> IF cv.done THEN GoE(Ret(fr.v), rest, fr.e) ELSE ForBindNext(fr, cv.v, rest)
       [] fr.st = "bind" -> Go(Ev(N(fr.n).s), <<[fr EXCEPT !.st = "body"]>> \o rest)
       [] fr.st = "body" ->
            IF N(fr.n).t = "forof"
            THEN GoE(OpIterStep(fr.iter), <<[fr EXCEPT !.st = "step", !.v = UpdateEmpty(cv, fr.v)]>> \o rest, fr.e)
            ELSE ForInNext(fr, UpdateEmpty(cv, fr.v), rest)

\* abrupt completion of the body or of the binding step: own continue goes on; anything else leaves the loop,
\* closing the iterator of a for-of (14.7.5.7 steps 6.g.iv, 6.l.iii); errors of the iterator protocol itself
\* (st open/step) propagate without closing
AbrForInOf ==
  /\ fr.f = "forx"
  /\ LET isOf == N(fr.n).t = "forof"
         val == UpdateEmpty(c.v, fr.v)
     IN IF fr.st \in {"open", "step"} THEN GoE(c, rest, fr.e)
        ELSE IF fr.st = "body" /\ ak = "continue" /\ (c.l = "" \/ c.l \in fr.ls)
        THEN IF isOf THEN GoE(OpIterStep(fr.iter), <<[fr EXCEPT !.st = "step", !.v = val]>> \o rest, fr.e)
             ELSE ForInNext(fr, val, rest)
        ELSE LET comp == IF fr.st = "body" /\ ak = "break" /\ c.l = "" THEN Ret(val) ELSE AbrUpd(fr.v)
             IN IF isOf THEN GoE(OpIterClose(fr.iter, comp), rest, fr.e) ELSE GoE(comp, rest, fr.e)

-----------------------------------------------------------------------------
(* Destructuring (8.6.2 BindingInitialization, 8.6.3 IteratorBindingInitialization, 13.15.5 destructuring     *)
(* assignment).  mode "init" | "var" | "assign" as for OpBind.                                                *)

IsPattern(n) == N(n).t \in {"arraypat", "objectpat"}

\* array pattern: GetIterator first
OpBindArrayPattern ==
  /\ c.op = "bind" /\ N(c.pat).t = "arraypat"
  /\ Go(OpIterOpen(c.v), Push([f |-> "piter", e |-> env, pat |-> c.pat, mode |-> c.mode, i |-> 0, iter |-> Undef,
                               done |-> FALSE, st |-> "open", ref |-> Undef, val |-> Undef, acc |-> <<>>]))

\* process element i+1 of the pattern, or finish (closing the iterator when it is not exhausted)
PatIterNext(frm, kk) ==
  LET els == N(frm.pat).elems
      j == frm.i + 1
      nf == [frm EXCEPT !.i = j, !.ref = Undef]
  IN IF j > Len(els)
     THEN IF frm.done THEN GoE(Ret(Empty), kk, frm.e) ELSE GoE(OpIterClose(frm.iter, Ret(Empty)), kk, frm.e)
     ELSE LET el == N(els[j])
          IN IF el.t # "hole" /\ frm.mode = "assign" /\ ~IsPattern(el.target)
             THEN Go(EvRef(el.target), <<[nf EXCEPT !.st = "lref"]>> \o kk)           \* target reference first
             ELSE IF el.t = "prest" THEN Go(Ret(StepRes(frm.done, Undef)), <<[nf EXCEPT !.st = "rest", !.acc = <<>>]>> \o kk)
             ELSE IF frm.done THEN Go(Ret(StepRes(TRUE, Undef)), <<[nf EXCEPT !.st = "step"]>> \o kk)
             ELSE Go(OpIterStep(frm.iter), <<[nf EXCEPT !.st = "step"]>> \o kk)

\* bind value val to element el of frame frm (nested pattern, stored reference, or binding)
PatBindElem(frm, target, val, kk) ==
  IF frm.ref.t = "ref" THEN Go(OpPutV(frm.ref, val, Empty), <<[frm EXCEPT !.st = "bind"]>> \o kk)
  ELSE Go(OpBind(target, val, frm.mode), <<[frm EXCEPT !.st = "bind"]>> \o kk)

RetPatternIterator ==
  /\ fr.f = "piter"
  /\ LET els == N(fr.pat).elems
         el == IF fr.i >= 1 THEN N(els[fr.i]) ELSE [t |-> "none"]
     IN CASE fr.st = "open" -> PatIterNext([fr EXCEPT !.iter = cv], rest)
          [] fr.st = "lref" ->
               IF el.t = "prest" THEN Go(Ret(StepRes(fr.done, Undef)), <<[fr EXCEPT !.st = "rest", !.ref = cv, !.acc = <<>>]>> \o rest)
               ELSE IF fr.done THEN Go(Ret(StepRes(TRUE, Undef)), <<[fr EXCEPT !.st = "step", !.ref = cv]>> \o rest)
               ELSE Go(OpIterStep(fr.iter), <<[fr EXCEPT !.st = "step", !.ref = cv]>> \o rest)
          [] fr.st = "step" ->
               LET f2 == [fr EXCEPT !.done = cv.done]
                   val == IF cv.done THEN Undef ELSE cv.v
               IN IF el.t = "hole" THEN PatIterNext(f2, rest)
                  ELSE IF val.t = "undef" /\ el.default # 0 THEN Go(Ev(el.default), <<[f2 EXCEPT !.st = "default"]>> \o rest)
                  ELSE PatBindElem(f2, el.target, val, rest)
          [] fr.st = "default" -> PatBindElem(fr, el.target, cv, rest)
          [] fr.st = "bind" -> PatIterNext(fr, rest)
          [] fr.st = "rest" ->
               \* collect the remaining values into a fresh array, then bind it
               IF cv.done
               THEN LET f2 == [fr EXCEPT !.done = TRUE]
                        ra == Len(heap) + 1
                    IN /\ heap' = Append(heap, ArrObj(fr.acc))
                       /\ UNCHANGED <<env, envs, out, aux>>
                       /\ IF fr.ref.t = "ref" THEN c' = OpPutV(fr.ref, Obj(ra), Empty) /\ k' = <<[f2 EXCEPT !.st = "bind"]>> \o rest
                          ELSE c' = OpBind(el.target, Obj(ra), fr.mode) /\ k' = <<[f2 EXCEPT !.st = "bind"]>> \o rest
               ELSE IF Len(fr.acc) >= MaxArrayLen THEN OutOfModel("rest element too long")
               ELSE Go(OpIterStep(fr.iter), <<[fr EXCEPT !.st = "rest1"]>> \o rest)
          [] fr.st = "rest1" ->
               Go(Ret(cv), <<[fr EXCEPT !.st = "rest", !.acc = IF cv.done THEN @ ELSE Append(@, cv.v)]>> \o rest)

\* 8.6.2 / 13.15.5.2: an abrupt completion while the iterator is not exhausted closes it; errors thrown by the
\* iterator itself (during open / step) mark it done and are passed on
AbrPatternIterator ==
  /\ fr.f = "piter"
  /\ IF fr.st \in {"open", "step", "rest", "rest1"} \/ fr.done THEN GoE(c, rest, fr.e)
     ELSE GoE(OpIterClose(fr.iter, c), rest, fr.e)

\* object pattern: RequireObjectCoercible, then the properties in order (key, target reference, GetV, default, bind)
OpBindObjectPattern ==
  /\ c.op = "bind" /\ N(c.pat).t = "objectpat"
  /\ IF IsNullish(c.v) THEN ThrowErr("TypeError", k)
     ELSE Go(Ret(Empty), Push([f |-> "pobj", e |-> env, pat |-> c.pat, mode |-> c.mode, v |-> c.v, i |-> 0, st |-> "next",
                               key |-> <<>>, ref |-> Undef, used |-> <<>>]))

PatObjGet(frm, kk) == Go(OpGetV(PropRef(frm.v, KeyToValue(frm.key))), <<[frm EXCEPT !.st = "get"]>> \o kk)
\* after the key is known: evaluate the target reference (assignment to a non-pattern), then read the property
PatObjKeyed(frm, kk) ==
  LET p == N(N(frm.pat).props[frm.i])
  IN IF frm.mode = "assign" /\ ~IsPattern(p.target) THEN Go(EvRef(p.target), <<[frm EXCEPT !.st = "lref"]>> \o kk)
     ELSE PatObjGet(frm, kk)

RetPatternObject ==
  /\ fr.f = "pobj"
  /\ LET ps == N(fr.pat).props
         p == IF fr.i >= 1 /\ fr.i <= Len(ps) THEN N(ps[fr.i]) ELSE [t |-> "none"]
     IN CASE fr.st \in {"next", "bind"} ->
               LET j == fr.i + 1
                   nf == [fr EXCEPT !.i = j, !.ref = Undef]
               IN IF j <= Len(ps)
                  THEN IF N(ps[j]).computed THEN Go(Ev(N(ps[j]).k), <<[nf EXCEPT !.st = "key"]>> \o rest)
                       ELSE PatObjKeyed([nf EXCEPT !.key = N(ps[j]).key, !.used = Append(@, N(ps[j]).key)], rest)
                  ELSE IF N(fr.pat).rest = 0 \/ (fr.st = "bind" /\ fr.i > Len(ps)) THEN Go(Ret(Empty), rest)
                  ELSE IF fr.mode = "assign" /\ ~IsPattern(N(N(fr.pat).rest).target)
                  THEN Go(EvRef(N(N(fr.pat).rest).target), <<[nf EXCEPT !.st = "restref"]>> \o rest)
                  ELSE Go(Ret(Undef), <<[nf EXCEPT !.st = "restref"]>> \o rest)
          [] fr.st = "key" ->
               IF cv.t = "obj" THEN Go(OpToPrim(cv, "string"), k)
               ELSE PatObjKeyed([fr EXCEPT !.key = KeyOfPrim(cv), !.used = Append(@, KeyOfPrim(cv))], rest)
          [] fr.st = "lref" -> PatObjGet([fr EXCEPT !.ref = cv], rest)
          [] fr.st = "get" ->
               IF cv.t = "undef" /\ p.default # 0 THEN Go(Ev(p.default), <<[fr EXCEPT !.st = "default"]>> \o rest)
               ELSE PatBindElem(fr, p.target, cv, rest)
          [] fr.st = "default" -> PatBindElem(fr, p.target, cv, rest)
          [] fr.st = "restref" ->
               \* 8.6.2 BindingRestProperty / 13.15.5.4: a fresh object receives the remaining properties
               GoH(OpCopyProps(Len(heap) + 1, fr.v, fr.used), <<[fr EXCEPT !.st = "restcopy", !.ref = cv, !.key = <<Len(heap) + 1>>]>> \o rest,
                   Append(heap, OrdObj(A_ObjectProto, <<>>)))
          [] fr.st = "restcopy" ->
               LET ro == Obj(fr.key[1])
                   f2 == [fr EXCEPT !.st = "bind"]
               IN IF fr.ref.t = "ref" THEN Go(OpPutV(fr.ref, ro, Empty), <<f2>> \o rest)
                  ELSE Go(OpBind(N(N(fr.pat).rest).target, ro, fr.mode), <<f2>> \o rest)

-----------------------------------------------------------------------------
(* Generators (ECMA-262 27.5 Generator Objects, 15.5 generator functions).                                    *)
(* A generator object keeps its suspended continuation: the frames between the point of suspension and the   *)
(* generator boundary frame "genb", and the environment to resume in.                                         *)

GenObj(proto, kont, genv) ==
  [cls |-> "gen", proto |-> proto, props |-> <<>>, ext |-> TRUE, intr |-> FALSE,
   state |-> "suspendedStart", kont |-> kont, genv |-> genv]

\* 15.5.2 EvaluateGeneratorBody: after FunctionDeclarationInstantiation, OrdinaryCreateFromConstructor(F,
\* "%GeneratorFunction.prototype.prototype%") and GeneratorStart: the object holding the not yet started body
GenProtoOf(h, fa) ==
  LET d == OwnDesc(h[fa], S_prototype)
  IN IF Len(d) = 1 /\ ~d[1].acc /\ d[1].v.t = "obj" THEN d[1].v.a ELSE A_GeneratorProto
NewGenerator(h, fa, f, e) == Append(h, GenObj(GenProtoOf(h, fa), <<[f |-> "seq", e |-> e, n |-> f, i |-> 0, v |-> Empty]>>, e))

RECURSIVE FirstGenb(_, _)
FirstGenb(kk, i) == IF kk[i].f = "genb" THEN i ELSE FirstGenb(kk, i + 1)

\* 27.5.3.7 GeneratorYield(iterNextObj): suspend the running generator.  kk: the continuation at the point
\* of suspension (top first), keep: frames that must stay on top of the saved continuation
GenSuspend(h, resv, keep, kk) ==
  LET gi == FirstGenb(kk, 1)
      gb == kk[gi]
  IN /\ heap' = [h EXCEPT ![gb.g].state = "suspendedYield", ![gb.g].kont = keep \o SubSeq(kk, 1, gi - 1), ![gb.g].genv = env]
     /\ c' = Ret(resv)
     /\ k' = SubSeq(kk, gi + 1, Len(kk))
     /\ env' = gb.e
     /\ aux' = [aux EXCEPT !.depth = @ - 1]
     /\ UNCHANGED <<envs, out>>

\* 15.5.5 yield: the operand value has been evaluated
RetYield ==
  /\ fr.f = "yield"
  /\ IF N(fr.n).delegate THEN Go(OpIterOpen(cv), <<[f |-> "ydel", e |-> fr.e, st |-> "open", iter |-> Undef, mode |-> "next", r |-> Undef, rv |-> Undef]>> \o rest)
     ELSE GenSuspend(Append(heap, IterResultObj(cv, FALSE)), Obj(Len(heap) + 1), <<>>, rest)

\* 27.5.3.3 GeneratorResume / 27.5.3.4 GeneratorResumeAbrupt: continue generator g with control cc
GenResume(g, cc, kk) ==
  /\ heap' = [heap EXCEPT ![g].state = "executing", ![g].kont = <<>>]
  /\ c' = cc
  /\ k' = heap[g].kont \o <<[f |-> "genb", e |-> env, g |-> g]>> \o kk
  /\ env' = heap[g].genv
  /\ aux' = [aux EXCEPT !.depth = @ + 1]
  /\ UNCHANGED <<envs, out>>

\* the generator finished: state completed; cc is what the caller gets
GenFinish(g, h, cc, kk, e0) ==
  /\ heap' = [h EXCEPT ![g].state = "completed", ![g].kont = <<>>]
  /\ c' = cc /\ k' = kk /\ env' = e0
  /\ aux' = [aux EXCEPT !.depth = @ - 1]
  /\ UNCHANGED <<envs, out>>

\* body ran to its end: { value: undefined, done: true }
RetGeneratorBoundary ==
  /\ fr.f = "genb"
  /\ GenFinish(fr.g, Append(heap, IterResultObj(Undef, TRUE)), Ret(Obj(Len(heap) + 1)), rest, fr.e)
\* return completion: { value: v, done: true }; a throw completion passes to the caller of next/throw/return
AbrGeneratorBoundary ==
  /\ fr.f = "genb"
  /\ IF ak = "return" THEN GenFinish(fr.g, Append(heap, IterResultObj(c.v, TRUE)), Ret(Obj(Len(heap) + 1)), rest, fr.e)
     ELSE GenFinish(fr.g, heap, c, rest, fr.e)

\* 27.5.1.2-4 %GeneratorPrototype%.next / return / throw with 27.5.3.2 GeneratorValidate
CallGeneratorNatives(nm) ==
  IF c.this.t # "obj" \/ heap[c.this.a].cls # "gen" THEN ThrowErr("TypeError", k)
  ELSE LET g == c.this.a
           st == heap[g].state
           a1 == IF Len(c.args) >= 1 THEN c.args[1] ELSE Undef
       IN IF st = "executing" THEN ThrowErr("TypeError", k)
          ELSE CASE nm = "Generator.prototype.next" ->
                      IF st = "completed" THEN GoH(Ret(Obj(Len(heap) + 1)), k, Append(heap, IterResultObj(Undef, TRUE)))
                      ELSE GenResume(g, IF st = "suspendedStart" THEN Ret(Empty) ELSE Ret(a1), k)
                 [] nm = "Generator.prototype.return" ->
                      IF st \in {"completed", "suspendedStart"}
                      THEN GoH(Ret(Obj(Len(heap) + 1)), k, Append([heap EXCEPT ![g].state = "completed", ![g].kont = <<>>], IterResultObj(a1, TRUE)))
                      ELSE GenResume(g, Abr("return", a1, ""), k)
                 [] nm = "Generator.prototype.throw" ->
                      IF st \in {"completed", "suspendedStart"}
                      THEN GoH(Abr("throw", a1, ""), k, [heap EXCEPT ![g].state = "completed", ![g].kont = <<>>])
                      ELSE GenResume(g, Abr("throw", a1, ""), k)

\* 15.5.5 yield* (delegation): the frame "ydel" stays in the generator's continuation while it is suspended
\* inside the delegation; received next / throw / return completions are forwarded to the inner iterator
YdelCall(frm, m, arg, st, mode, kk) ==
  IF ~IsCallable(heap, m) THEN ThrowErr("TypeError", kk)
  ELSE Go(CallC(m, frm.iter.it, <<arg>>, Undef), <<[frm EXCEPT !.st = st, !.mode = mode]>> \o kk)
RetYieldDelegate ==
  /\ fr.f = "ydel"
  /\ CASE fr.st = "open" -> YdelCall([fr EXCEPT !.iter = cv], cv.nx, Undef, "res", "next", rest)
       [] fr.st = "susp" -> YdelCall(fr, fr.iter.nx, cv, "res", "next", rest)
       [] fr.st = "res" ->
            IF cv.t # "obj" THEN ThrowErr("TypeError", rest)
            ELSE Go(OpGetV(PropRef(cv, Str(S_done))), <<[fr EXCEPT !.st = "done", !.r = cv]>> \o rest)
       [] fr.st = "done" ->
            IF ToBoolean(cv) THEN Go(OpGetV(PropRef(fr.r, Str(S_value))), <<[fr EXCEPT !.st = "val"]>> \o rest)
            ELSE GenSuspend(heap, fr.r, <<[fr EXCEPT !.st = "susp"]>>, rest)
       [] fr.st = "val" -> IF fr.mode = "return" THEN Go(Abr("return", cv, ""), rest) ELSE Go(Ret(cv), rest)
       [] fr.st = "throwm" ->
            IF IsNullish(cv) THEN GoE(OpIterClose(fr.iter, Ret(Empty)), <<[f |-> "terr", e |-> fr.e]>> \o rest, fr.e)
            ELSE YdelCall(fr, cv, fr.rv, "res", "throw", rest)
       [] fr.st = "retm" ->
            IF IsNullish(cv) THEN Go(Abr("return", fr.rv, ""), rest)
            ELSE YdelCall(fr, cv, fr.rv, "res", "return", rest)
\* a throw / return completion delivered by GeneratorResumeAbrupt while suspended in the delegation
AbrYieldDelegate ==
  /\ fr.f = "ydel"
  /\ IF fr.st = "susp" /\ ak = "throw" THEN GoE(OpGetV(PropRef(fr.iter.it, Str(S_throw))), <<[fr EXCEPT !.st = "throwm", !.rv = c.v]>> \o rest, fr.e)
     ELSE IF fr.st = "susp" /\ ak = "return" THEN GoE(OpGetV(PropRef(fr.iter.it, Str(S_return))), <<[fr EXCEPT !.st = "retm", !.rv = c.v]>> \o rest, fr.e)
     ELSE GoE(c, rest, fr.e)
RetThrowTypeError == fr.f = "terr" /\ ThrowErr("TypeError", rest)

-----------------------------------------------------------------------------
(* Classes (ECMA-262 15.7 ClassDefinitionEvaluation).  The flattener supplies an explicit constructor member   *)
(* (the default constructors of 15.7.14 step 14 are synthesised as                                             *)
(* constructor(){} / constructor(...args){ super(...args) }).                                                   *)
(* A class constructor keeps its instance fields in `fields`: <<[key, init (node or 0), env]>>.                *)

OpFields(o, fa, i) == [m |-> "op", op |-> "fields", o |-> o, fa |-> fa, i |-> i]

CtorMember(n) == LET ms == N(n).members IN CHOOSE i \in DOMAIN ms : N(ms[i]).kind = "ctor"

\* 15.7.14 steps 1-13: class scope with the (uninitialised) class binding, then the heritage
RetClassStart ==
  /\ fr.f = "class0"
  /\ LET n == N(fr.n)
         ce == Len(envs) + 1
         es1 == Append(envs, DeclEnv(env, IF n.name = "" THEN NoBindings ELSE (n.name :> Uninit("const"))))
     IN /\ envs' = es1 /\ env' = ce
        /\ UNCHANGED <<heap, out, aux>>
        /\ IF n.super # 0 THEN c' = Ev(n.super) /\ k' = <<[f |-> "class1", e |-> fr.e, n |-> fr.n]>> \o rest
           ELSE c' = Ret(Empty) /\ k' = <<[f |-> "class1", e |-> fr.e, n |-> fr.n]>> \o rest

\* steps 8-14: protoParent / constructorParent, the prototype object, the constructor function
RetClassHeritage ==
  /\ fr.f = "class1"
  /\ LET n == N(fr.n)
         has == n.super # 0
         pd == IF has /\ cv.t = "obj" THEN FindProp(heap, cv.a, S_prototype) ELSE <<>>
         protoParent == IF ~has THEN A_ObjectProto ELSE IF cv.t = "null" THEN 0
                        ELSE IF Len(pd) = 1 /\ pd[1].v.t = "obj" THEN pd[1].v.a ELSE 0
         ctorParent == IF ~has \/ cv.t = "null" THEN A_FunctionProto ELSE cv.a
         pa == Len(heap) + 1          \* the prototype object
         fa == Len(heap) + 2          \* the constructor
         ctor == N(n.members[CtorMember(fr.n)]).v
         fobj == [FunObj(ctor, env, pa, IF has THEN "classderived" ELSE "classbase", FALSE, fa) EXCEPT
                    !.proto = ctorParent,
                    !.props = @ \o <<[HiddenProp(S_prototype, Obj(pa)) EXCEPT !.w = FALSE, !.c = FALSE]>>]
         pobj == OrdObj(protoParent, <<HiddenProp(S_constructor, Obj(fa))>>)
     IN IF has /\ cv.t # "null" /\ ~IsConstructor(heap, cv) THEN ThrowErr("TypeError", rest)
        ELSE IF has /\ cv.t = "obj" /\ (Len(pd) = 0 \/ pd[1].acc \/ pd[1].v.t = "oom") THEN OutOfModel("superclass prototype")
        ELSE IF has /\ cv.t = "obj" /\ pd[1].v.t \notin {"obj", "null"} THEN ThrowErr("TypeError", rest)
        ELSE GoH(Ret(Empty), <<[f |-> "class2", e |-> fr.e, n |-> fr.n, fa |-> fa, pa |-> pa, i |-> 0, sf |-> <<>>]>> \o rest,
                 heap \o <<pobj, fobj>>)

\* steps 15-: ClassElementEvaluation in order.  Methods and accessors are defined (non-enumerable) on the
\* prototype or, when static, on the constructor; field names are evaluated now, their initialisers run later
ClassDefine(frm, m, key, kk) ==
  LET tgt == IF m.static THEN frm.fa ELSE frm.pa
  IN CASE m.kind = "method" ->
            LET h1 == AllocFun(heap, m.v, env, tgt, MethodKind(m.v))
            IN GoH(Ret(Empty), kk, [h1 EXCEPT ![tgt] = DefineOwn(@, HiddenProp(key, Obj(Len(heap) + 1)))])
       [] m.kind \in {"get", "set"} ->
            LET h1 == AllocFun(heap, m.v, env, tgt, "method")
                o1 == DefineAccessor(h1[tgt], key, m.kind, Obj(Len(heap) + 1))
                j == PropIdx(o1.props, key)
            IN GoH(Ret(Empty), kk, [h1 EXCEPT ![tgt] = [o1 EXCEPT !.props[j].e = FALSE]])
       [] m.kind = "field" ->
            IF m.static THEN Go(Ret(Empty), <<[Head(kk) EXCEPT !.sf = Append(@, [key |-> key, init |-> m.v, env |-> env])]>> \o Tail(kk))
            ELSE GoH(Ret(Empty), kk, [heap EXCEPT ![frm.fa].fields = Append(@, [key |-> key, init |-> m.v, env |-> env])])
RetClassElements ==
  /\ fr.f = "class2"
  /\ LET ms == N(fr.n).members
         j == fr.i + 1
         nf == [fr EXCEPT !.i = j]
     IN IF j <= Len(ms)
        THEN LET m == N(ms[j])
             IN IF m.kind = "ctor" THEN Go(Ret(Empty), <<nf>> \o rest)
                ELSE IF m.computed THEN Go(Ev(m.k), <<[f |-> "classk", e |-> env, mn |-> ms[j]], nf>> \o rest)
                ELSE ClassDefine(nf, m, m.key, <<nf>> \o rest)
        ELSE \* the class binding is initialised, then the static fields run with this = the constructor
             LET nm == N(fr.n).name
                 es1 == IF nm = "" THEN envs ELSE [envs EXCEPT ![env].b[nm] = Binding(Obj(fr.fa), TRUE, "const")]
             IN /\ envs' = es1
                /\ c' = [m |-> "op", op |-> "sfields", o |-> Obj(fr.fa), fs |-> fr.sf, i |-> 1]
                /\ k' = <<[f |-> "class3", e |-> fr.e, n |-> fr.n, fa |-> fr.fa]>> \o rest
                /\ UNCHANGED <<env, heap, out, aux>>
RetClassKey ==
  /\ fr.f = "classk"
  /\ IF cv.t = "obj" THEN Go(OpToPrim(cv, "string"), k)
     ELSE ClassDefine(Head(rest), N(fr.mn), KeyOfPrim(cv), rest)
\* 15.7.15 / 15.7.16: a class declaration initialises its (let-like) binding in the enclosing scope
RetClassDone ==
  /\ fr.f = "class3"
  /\ IF N(fr.n).t = "class"
     THEN /\ envs' = [envs EXCEPT ![LookupEnv(envs, fr.e, N(fr.n).name)].b[N(fr.n).name] = Binding(Obj(fr.fa), TRUE, "no")]
          /\ c' = Ret(Empty) /\ k' = rest /\ env' = fr.e
          /\ UNCHANGED <<heap, out, aux>>
     ELSE GoE(Ret(Obj(fr.fa)), rest, fr.e)

\* 7.3.34 InitializeInstanceElements / DefineField: each initialiser is evaluated like a method body with
\* this = the receiver (a fresh function record), then CreateDataPropertyOrThrow
FieldStep(o, fs, i, fobj, kk, after) ==
  IF i > Len(fs) THEN after
  ELSE LET fd == fs[i]
       IN IF fd.init = 0 THEN
               IF heap[o.a].ext
               THEN GoH([c EXCEPT !.i = i + 1], kk, [heap EXCEPT ![o.a] = DefineOwn(@, DataProp(fd.key, Undef))])
               ELSE ThrowErr("TypeError", kk)
          ELSE /\ envs' = Append(envs, FunEnv(fd.env, NoBindings, "init", o, fobj, Undef))
               /\ env' = Len(envs) + 1
               /\ c' = Ev(fd.init)
               /\ k' = <<[f |-> "fieldv", e |-> env, cont |-> [c EXCEPT !.i = i + 1], key |-> fd.key, o |-> o]>> \o kk
               /\ UNCHANGED <<heap, out, aux>>
OpInstanceFields == c.op = "fields" /\ FieldStep(c.o, heap[c.fa].fields, c.i, c.fa, k, Go(Ret(Empty), k))
OpStaticFields == c.op = "sfields" /\ FieldStep(c.o, c.fs, c.i, c.o.a, k, Go(Ret(Empty), k))
RetFieldValue ==
  /\ fr.f = "fieldv"
  /\ IF ~heap[fr.o.a].ext THEN ThrowErr("TypeError", rest)
     ELSE /\ heap' = [heap EXCEPT ![fr.o.a] = DefineOwn(@, DataProp(fr.key, cv))]
          /\ c' = fr.cont /\ k' = rest /\ env' = fr.e
          /\ UNCHANGED <<envs, out, aux>>

\* [[Construct]] of a base class with instance fields: the fields are initialised before the body (10.2.2 step 7)
RetConstructorFieldsDone == fr.f = "ctor_go" /\ Go(fr.call, rest)

\* 13.3.7.1 SuperCall steps 7-10: bind this (a second super() throws), initialise the fields, yield the object
RetSuperCall ==
  /\ fr.f = "super_r"
  /\ LET te == fr.te
         F == envs[te].fe[1].fobj
     IN IF envs[te].fe[1].ts # "uninit" THEN ThrowErr("ReferenceError", rest)
        ELSE /\ envs' = [envs EXCEPT ![te].fe[1].ts = "init", ![te].fe[1].this = cv]
             /\ c' = OpFields(cv, F, 1)
             /\ k' = <<[f |-> "constv", e |-> fr.e, v |-> cv]>> \o rest
             /\ UNCHANGED <<env, heap, out, aux>>

-----------------------------------------------------------------------------
(* Calls (ECMA-262 10.2 ordinary function objects, 13.3.6 EvaluateCall, 13.3.5 EvaluateNew) *)

\* 13.3.6.2 EvaluateCall: the callee reference has been evaluated
RetCalleeReference ==
  /\ fr.f = "call_r"
  /\ IF cv.t = "ref"
     THEN Go(OpGetV(cv), <<[f |-> "call_f", e |-> fr.e, n |-> fr.n, this |-> IF cv.rk = "prop" THEN cv.this ELSE Undef]>> \o rest)
     ELSE Go(Ret(cv), <<[f |-> "call_f", e |-> fr.e, n |-> fr.n, this |-> Undef]>> \o rest)
\* callee value known; an optional call ?.() on a nullish callee short-circuits the chain
RetCallee ==
  /\ fr.f = "call_f"
  /\ IF N(fr.n).optional /\ IsNullish(cv) THEN Go(Abr("optshort", Undef, ""), rest)
     ELSE Go(Ret(Empty), <<[f |-> "args", e |-> fr.e, n |-> fr.n, fv |-> cv, this |-> fr.this, i |-> 0, acc |-> <<>>, kind |-> "call"]>> \o rest)
RetNewCallee ==
  /\ fr.f = "new_f"
  /\ Go(Ret(Empty), <<[f |-> "args", e |-> fr.e, n |-> fr.n, fv |-> cv, this |-> Undef, i |-> 0, acc |-> <<>>, kind |-> "new"]>> \o rest)

\* 13.3.8.1 ArgumentListEvaluation, then the call proper.  The callee is checked after the arguments
\* were evaluated (13.3.6.2 steps 3-5).
RetArguments ==
  /\ fr.f = "args"
  /\ LET as == N(fr.n).args
         acc == IF fr.i = 0 THEN fr.acc ELSE IF cv.t = "list" THEN fr.acc \o cv.l ELSE Append(fr.acc, cv)
         j == fr.i + 1
     IN IF Len(acc) > MaxArrayLen THEN OutOfModel("too many arguments")
        ELSE IF j <= Len(as)
        THEN IF N(as[j]).t = "spread"
             THEN Go(Ev(N(as[j]).e), <<[f |-> "spread", e |-> fr.e], [fr EXCEPT !.i = j, !.acc = acc]>> \o rest)
             ELSE Go(Ev(as[j]), <<[fr EXCEPT !.i = j, !.acc = acc]>> \o rest)
        ELSE CASE fr.kind = "call" ->
                    IF IsCallable(heap, fr.fv) THEN Go(CallC(fr.fv, fr.this, acc, Undef), rest)
                    ELSE ThrowErr("TypeError", rest)
               [] fr.kind = "new" ->
                    IF IsConstructor(heap, fr.fv) THEN Go(CallC(fr.fv, Undef, acc, fr.fv), rest)
                    ELSE ThrowErr("TypeError", rest)
               [] fr.kind = "print" ->
                    /\ out' = Append(out, [i \in 1..Len(acc) |-> Render(heap, aux.sd, acc[i])])
                    /\ c' = Ret(Undef) /\ k' = rest
                    /\ UNCHANGED <<env, envs, heap, aux>>
               [] fr.kind = "super" ->
                    \* 13.3.7.1 SuperCall: GetSuperConstructor = [[GetPrototypeOf]] of the active function
                    LET te == ThisEnvOf(envs, env)
                        sup == IF te = 0 THEN 0 ELSE heap[envs[te].fe[1].fobj].proto
                    IN IF te = 0 THEN OutOfModel("super() outside constructor")
                       ELSE IF sup = 0 \/ ~IsConstructor(heap, Obj(sup)) THEN ThrowErr("TypeError", rest)
                       ELSE Go(CallC(Obj(sup), Undef, acc, envs[te].fe[1].nt), <<[f |-> "super_r", e |-> fr.e, te |-> te]>> \o rest)

\* 10.1.14 GetPrototypeFromConstructor(newTarget, default): address, or -1 when not modelled
ProtoFromCtor(nt, dflt) ==
  LET d == FindProp(heap, nt.a, S_prototype)
  IN IF Len(d) = 0 THEN dflt
     ELSE IF d[1].acc \/ d[1].v.t = "oom" THEN -1
     ELSE IF d[1].v.t = "obj" THEN d[1].v.a ELSE dflt

\* 10.4.4.6 CreateUnmappedArgumentsObject (callee/caller poison pills and @@iterator are not modelled)
ArgsObj(args) ==
  [cls |-> "args", proto |-> A_ObjectProto, ext |-> TRUE, intr |-> FALSE,
   props |-> [i \in 1..Len(args) |-> DataProp(NumToStr(Num(i - 1)), args[i])]
             \o <<HiddenProp(S_length, Num(Len(args))), HiddenProp(SymKey(1), OOM), HiddenProp(S_callee, OOM)>>]

\* value bound to a simple parameter name: the last parameter of that name wins (10.2.11 step 24-26)
SimpleParamValue(names, args, x) ==
  LET i == CHOOSE j \in DOMAIN names : names[j] = x /\ \A l \in DOMAIN names : names[l] = x => l <= j
  IN IF i <= Len(args) THEN args[i] ELSE Undef

\* the frames that run the body of function node f in environment e, above the call boundary
BodyFrames(f, e, cb) ==
  IF N(f).t = "arrow" /\ N(f).ebody # 0 THEN <<[f |-> "arrowret", e |-> e], cb>>
  ELSE <<[f |-> "seq", e |-> e, n |-> f, i |-> 0, v |-> Empty], cb>>
BodyStart(f) == IF N(f).t = "arrow" /\ N(f).ebody # 0 THEN Ev(N(f).ebody) ELSE Ret(Empty)

\* 10.2.1 [[Call]] / 10.2.2 [[Construct]] of an ECMAScript function object:
\* PrepareForOrdinaryCall, OrdinaryCallBindThis, FunctionDeclarationInstantiation, body
CallClosure ==
  /\ c.f.t = "obj" /\ heap[c.f.a].cls = "fun"
  /\ LET fo == heap[c.f.a]
         f == fo.node
         fn == N(f)
         isNew == c.nt.t # "undef"
         derived == fo.fk = "classderived"
         needObj == isNew /\ ~derived /\ c.pre.t = "undef"
         proto == IF needObj THEN ProtoFromCtor(c.nt, A_ObjectProto) ELSE 0
         newObj == Obj(Len(heap) + 1)
         h1 == IF needObj THEN Append(heap, OrdObj(proto, <<>>)) ELSE heap
         \* 10.2.1.2 OrdinaryCallBindThis
         ts == IF fo.fk = "arrow" THEN "lexical" ELSE IF isNew /\ derived THEN "uninit" ELSE "init"
         thisv == IF needObj THEN newObj
                  ELSE IF c.pre.t = "obj" THEN c.pre
                  ELSE IF Strict \/ fo.fk = "arrow" THEN c.this
                  ELSE IF IsNullish(c.this) THEN Obj(A_Global) ELSE c.this
         fe == Len(envs) + 1
         names == ParamNames(pid, f)
         simple == SimpleParams(pid, f)
         wantArgs == fn.usesArgs /\ fo.fk # "arrow" /\ "arguments" \notin Range(names)
         h2 == IF wantArgs THEN Append(h1, ArgsObj(c.args)) ELSE h1
         argB == IF wantArgs THEN ("arguments" :> Binding(Obj(Len(h1) + 1), TRUE, IF Strict THEN "const" ELSE "no")) ELSE NoBindings
         pB == IF simple THEN [x \in Range(names) |-> Binding(SimpleParamValue(names, c.args, x), TRUE, "no")]
               ELSE [x \in Range(names) |-> Uninit("no")]
         es1 == Append(envs, FunEnv(fo.env, pB @@ argB, ts, thisv, c.f.a, c.nt))
         cb == [f |-> "callb", e |-> env, new |-> isNew, thisv |-> IF isNew /\ ~derived THEN thisv ELSE Undef, fe |-> fe, fk |-> fo.fk]
     IN IF fo.fk \in {"classbase", "classderived"} /\ ~isNew THEN ThrowErr("TypeError", k)
        ELSE IF proto = -1 THEN OutOfModel("accessor prototype")
        ELSE IF ~Strict /\ ~isNew /\ fo.fk # "arrow" /\ IsPrim(c.this) /\ ~IsNullish(c.this) THEN OutOfModel("this wrapper object")
        ELSE IF wantArgs /\ simple /\ ~Strict THEN OutOfModel("mapped arguments object")
        ELSE IF needObj /\ fo.fields # <<>>
        THEN \* 10.2.2 step 7: InitializeInstanceElements before the body; the call is then re-issued with the object
             GoH(OpFields(newObj, c.f.a, 1), Push([f |-> "ctor_go", e |-> env, call |-> [c EXCEPT !.pre = newObj]]), h1)
        ELSE IF simple /\ fo.fk = "gen"
        THEN LET r == FDIBody(f, fe, es1, h2)
             IN /\ envs' = r.es /\ heap' = NewGenerator(r.h, c.f.a, f, r.e)
                /\ c' = Ret(Obj(Len(r.h) + 1))
                /\ UNCHANGED <<env, k, out, aux>>
        ELSE IF simple
        THEN LET r == FDIBody(f, fe, es1, h2)
             IN /\ envs' = r.es /\ heap' = r.h /\ env' = r.e
                /\ c' = BodyStart(f)
                /\ k' = BodyFrames(f, r.e, cb) \o k
                /\ aux' = [aux EXCEPT !.depth = @ + 1]
                /\ UNCHANGED out
        ELSE /\ envs' = es1 /\ heap' = h2 /\ env' = fe
             /\ c' = Ret(Empty)
             /\ k' = <<[f |-> "params", e |-> fe, n |-> f, i |-> 0, args |-> c.args], cb>> \o k
             /\ aux' = [aux EXCEPT !.depth = @ + 1]
             /\ UNCHANGED out

\* 10.2.11 steps 24-26 IteratorBindingInitialization of the formal parameters, left to right:
\* a missing/undefined argument takes the default (evaluated in the function scope, earlier parameters
\* visible, later ones in TDZ); a rest parameter takes the remaining arguments as an array
RetParameters ==
  /\ fr.f = "params"
  /\ LET ps == N(fr.n).params
         j == fr.i + 1
         nxt == <<[fr EXCEPT !.i = j]>> \o rest
     IN IF j > Len(ps)
        THEN LET r == FDIBody(fr.n, fr.e, envs, heap)
                 fa == envs[fr.e].fe[1].fobj
             IN IF heap[fa].fk = "gen"
                THEN /\ envs' = r.es /\ heap' = NewGenerator(r.h, fa, fr.n, r.e)
                     /\ c' = Abr("return", Obj(Len(r.h) + 1), "") /\ k' = rest
                     /\ UNCHANGED <<env, out, aux>>
                ELSE /\ envs' = r.es /\ heap' = r.h /\ env' = r.e
                     /\ c' = BodyStart(fr.n)
                     /\ k' = BodyFrames(fr.n, r.e, Head(rest)) \o Tail(rest)
                     /\ UNCHANGED <<out, aux>>
        ELSE LET pa == N(ps[j])
                 val == IF j <= Len(fr.args) THEN fr.args[j] ELSE Undef
             IN IF pa.rest
                THEN GoH(OpBind(pa.target, Obj(Len(heap) + 1), "init"), nxt,
                         Append(heap, ArrObj(IF j <= Len(fr.args) THEN SubSeq(fr.args, j, Len(fr.args)) ELSE <<>>)))
                ELSE IF val.t = "undef" /\ pa.default # 0
                THEN Go(Ev(pa.default), <<[f |-> "decl_v", e |-> fr.e, pat |-> pa.target, mode |-> "init"]>> \o nxt)
                ELSE Go(OpBind(pa.target, val, "init"), nxt)

RetArrowBody == fr.f = "arrowret" /\ Go(Abr("return", cv, ""), rest)

\* the value of the this binding of function record te, or a ReferenceError (9.1.1.3.4 GetThisBinding)
ThisOrThrow(te, kk, e0) ==
  IF envs[te].fe[1].ts = "uninit"
  THEN /\ heap' = Append(heap, ErrObj("ReferenceError", OOM))
       /\ c' = Abr("throw", Obj(Len(heap) + 1), "") /\ k' = kk /\ env' = e0
       /\ aux' = [aux EXCEPT !.depth = @ - 1]
       /\ UNCHANGED <<envs, out>>
  ELSE /\ c' = Ret(envs[te].fe[1].this) /\ k' = kk /\ env' = e0
       /\ aux' = [aux EXCEPT !.depth = @ - 1]
       /\ UNCHANGED <<envs, heap, out>>
Leave(cc, kk, e0) == c' = cc /\ k' = kk /\ env' = e0 /\ aux' = [aux EXCEPT !.depth = @ - 1] /\ UNCHANGED <<envs, heap, out>>

\* 10.2.1 step 7-9 / 10.2.2 steps 9-14: the body ran to its end (result undefined / the constructed object)
RetCallBoundary ==
  /\ fr.f = "callb"
  /\ IF ~fr.new THEN Leave(Ret(Undef), rest, fr.e)
     ELSE IF fr.fk = "classderived" THEN ThisOrThrow(fr.fe, rest, fr.e)
     ELSE Leave(Ret(fr.thisv), rest, fr.e)
\* a return completion reaches the boundary; [[Construct]]: an object result wins, a derived constructor
\* may only return an object or undefined
AbrCallBoundary ==
  /\ fr.f = "callb"
  /\ IF ak = "return"
     THEN IF ~fr.new \/ c.v.t = "obj" THEN Leave(Ret(c.v), rest, fr.e)
          ELSE IF fr.fk # "classderived" THEN Leave(Ret(fr.thisv), rest, fr.e)
          ELSE IF c.v.t # "undef"
          THEN /\ heap' = Append(heap, ErrObj("TypeError", OOM))
               /\ c' = Abr("throw", Obj(Len(heap) + 1), "") /\ k' = rest /\ env' = fr.e
               /\ aux' = [aux EXCEPT !.depth = @ - 1]
               /\ UNCHANGED <<envs, out>>
          ELSE ThisOrThrow(fr.fe, rest, fr.e)
     ELSE Leave(c, rest, fr.e)

\* 7.3.13 Call: the callee is not callable
CallNotCallable == ~IsCallable(heap, c.f) /\ ThrowErr("TypeError", k)

\* ToString of a primitive argument for built-ins (objects would run user code: not modelled there)
ArgOr(args, i) == IF i <= Len(args) THEN args[i] ELSE Undef

\* 23.1.3.18 Array.prototype.join: length is read once, the elements live; holes, undefined and null give "";
\* an object element is converted with ToString (ToPrimitive hint string), which may run user code
ElemStrKind(e) == CASE e.t \in {"hole", "undef", "null"} -> "empty" [] e.t = "obj" -> "obj" [] e.t = "sym" -> "sym" [] OTHER -> "prim"
RECURSIVE JoinRun(_, _, _, _, _)
\* consumes primitive elements from index i: [i, acc, stop] with stop "end" | "obj" | "sym" | "oom"
JoinRun(elems, sep, len, i, acc) ==
  IF i > len THEN [i |-> i, acc |-> acc, stop |-> "end"]
  ELSE LET e == IF i <= Len(elems) THEN elems[i] ELSE Undef
           kd == ElemStrKind(e)
           pre == IF i > 1 THEN sep ELSE <<>>
       IN IF kd \in {"obj", "sym"} THEN [i |-> i, acc |-> acc, stop |-> kd]
          ELSE LET piece == pre \o (IF kd = "empty" THEN <<>> ELSE PrimToStr(e))
               IN IF Len(acc) + Len(piece) > MaxStrLen THEN [i |-> i, acc |-> acc, stop |-> "oom"]
                  ELSE JoinRun(elems, sep, len, i + 1, acc \o piece)
JoinContinue(frm, kk) ==
  LET r == JoinRun(heap[frm.a].elems, frm.sep, frm.len, frm.i, frm.acc)
  IN CASE r.stop = "end" -> Go(Ret(Str(r.acc)), kk)
       [] r.stop = "oom" -> Go(Ret(OOM), kk)
       [] r.stop = "sym" -> ThrowErr("TypeError", kk)
       [] r.stop = "obj" -> Go(OpToPrim(heap[frm.a].elems[r.i], "string"), <<[frm EXCEPT !.i = r.i, !.acc = r.acc]>> \o kk)
ArrayJoin(arr, sepv, kk) ==
  IF arr.t # "obj" \/ heap[arr.a].cls # "arr" \/ sepv.t \in {"obj", "sym"} THEN OutOfModel("join on a non-array or with an object separator")
  ELSE JoinContinue([f |-> "join", e |-> env, a |-> arr.a, sep |-> IF sepv.t = "undef" THEN S_comma ELSE PrimToStr(sepv),
                     len |-> Len(heap[arr.a].elems), i |-> 1, acc |-> <<>>], kk)
\* the string conversion of element i is known
RetJoinElement ==
  /\ fr.f = "join"
  /\ IF cv.t = "sym" THEN ThrowErr("TypeError", rest)
     ELSE LET piece == (IF fr.i > 1 THEN fr.sep ELSE <<>>) \o PrimToStr(cv)
          IN IF Len(fr.acc) + Len(piece) > MaxStrLen THEN Go(Ret(OOM), rest)
             ELSE JoinContinue([fr EXCEPT !.i = fr.i + 1, !.acc = fr.acc \o piece], rest)

\* Built-in functions with native rules
CallNative ==
  /\ c.f.t = "obj" /\ heap[c.f.a].cls = "nat"
  /\ LET nm == heap[c.f.a].nm
         a1 == ArgOr(c.args, 1)
         a2 == ArgOr(c.args, 2)
     IN CASE nm \in {"Error", "TypeError", "ReferenceError", "RangeError", "SyntaxError"} ->
               \* 20.5.1.1 Error(message): also callable without new
               LET nt == IF c.nt.t = "undef" THEN c.f ELSE c.nt
                   proto == ProtoFromCtor(nt, ErrorProtoOf(nm))
               IN IF proto = -1 \/ a1.t = "obj" THEN OutOfModel("Error constructor argument")
                  ELSE IF a1.t = "sym" THEN ThrowErr("TypeError", k)
                  ELSE GoH(Ret(Obj(Len(heap) + 1)), k,
                           Append(heap, [ErrObj(nm, Undef) EXCEPT !.proto = proto,
                                           !.props = IF a1.t = "undef" THEN <<>> ELSE <<HiddenProp(S_message, Str(PrimToStr(a1)))>>]))
          [] nm = "Object.prototype.valueOf" ->
               IF c.this.t = "obj" THEN Go(Ret(c.this), k)
               ELSE IF IsNullish(c.this) THEN ThrowErr("TypeError", k) ELSE OutOfModel("wrapper object")
          [] nm = "Object.prototype.toString" ->
               \* 20.1.3.6 (no user-visible @@toStringTag exists in the fragment)
               IF c.this.t # "obj" THEN OutOfModel("toString of primitive")
               ELSE LET cl == heap[c.this.a].cls
                    IN CASE cl = "ord" -> Go(Ret(Str(S_objObject)), k)
                         [] cl = "arr" -> Go(Ret(Str(S_objArray)), k)
                         [] cl \in {"fun", "nat", "bound"} -> Go(Ret(Str(S_objFunction)), k)
                         [] cl = "err" -> Go(Ret(Str(S_objError)), k)
                         [] cl = "args" -> Go(Ret(Str(S_objArguments)), k)
                         [] OTHER -> OutOfModel("toString of exotic object")
          [] nm = "Array.isArray" -> Go(Ret(Bool(a1.t = "obj" /\ heap[a1.a].cls = "arr")), k)
          [] nm = "Symbol" ->
               \* 20.4.1.1 Symbol(description)
               IF c.nt.t # "undef" THEN ThrowErr("TypeError", k)
               ELSE IF a1.t \in {"obj", "sym"} THEN OutOfModel("Symbol description")
               ELSE /\ aux' = [aux EXCEPT !.nsym = @ + 1, !.sd = Append(@, IF a1.t = "undef" THEN <<>> ELSE PrimToStr(a1))]
                    /\ c' = Ret(Sym(aux.nsym + 1))
                    /\ UNCHANGED <<env, k, envs, heap, out>>
          [] nm \in {"Array.prototype.values", "ArrayIterator.next"} -> CallArrayIterNatives(nm)
          [] nm \in {"Generator.prototype.next", "Generator.prototype.return", "Generator.prototype.throw"} -> CallGeneratorNatives(nm)
          [] nm = "Iterator.prototype[@@iterator]" -> Go(Ret(c.this), k)
          [] nm = "Error.prototype.toString" ->
               \* 20.5.3.4: name (default "Error") and message (default ""), data properties holding primitives only
               IF c.this.t # "obj" THEN ThrowErr("TypeError", k)
               ELSE LET dn == FindProp(heap, c.this.a, S_name)
                        dm == FindProp(heap, c.this.a, S_message)
                        bad(d) == Len(d) > 0 /\ (d[1].acc \/ d[1].v.t \in {"obj", "oom", "sym"})
                        nmS == IF Len(dn) = 0 \/ dn[1].v.t = "undef" THEN S_Error ELSE PrimToStr(dn[1].v)
                        msS == IF Len(dm) = 0 \/ dm[1].v.t = "undef" THEN <<>> ELSE PrimToStr(dm[1].v)
                    IN IF bad(dn) \/ bad(dm) THEN OutOfModel("Error.prototype.toString on unmodelled name/message")
                       ELSE IF nmS = <<>> THEN Go(Ret(Str(msS)), k)
                       ELSE IF msS = <<>> THEN Go(Ret(Str(nmS)), k)
                       ELSE Go(Ret(Concat(nmS \o <<58, 32>>, msS)), k)
          [] nm = "Array.prototype.join" -> ArrayJoin(c.this, a1, k)
          [] nm = "Array.prototype.toString" ->
               \* 23.1.3.36: calls this.join when it is callable (here: when it is still the built-in)
               LET j == IF c.this.t = "obj" THEN FindProp(heap, c.this.a, S_join) ELSE <<>>
               IN IF Len(j) = 1 /\ ~j[1].acc /\ j[1].v = Obj(A_ArrJoin) THEN ArrayJoin(c.this, Undef, k)
                  ELSE OutOfModel("Array.prototype.toString with a replaced join")
          [] nm = "Array.prototype.push" ->
               IF c.this.t # "obj" \/ heap[c.this.a].cls # "arr" \/ ~heap[c.this.a].ext THEN OutOfModel("push on a non-array")
               ELSE IF Len(heap[c.this.a].elems) + Len(c.args) > MaxArrayLen THEN OutOfModel("array too long")
               ELSE GoH(Ret(Num(Len(heap[c.this.a].elems) + Len(c.args))), k, [heap EXCEPT ![c.this.a].elems = @ \o c.args])
          [] OTHER -> OutOfModel("built-in " \o nm)

-----------------------------------------------------------------------------
(* Dispatch tables of the rules defined above *)

ExtraRetFrames == {"objlit", "objk", "objv", "objspread", "iter_o", "iter_n", "step_r", "step_d", "step_v", "iterclose",
                   "collect", "forhead", "forx", "piter", "pobj", "yield", "ydel", "genb", "terr",
                   "class0", "class1", "class2", "classk", "class3", "fieldv", "ctor_go", "super_r", "join", "cpy"}
ExtraRetRules ==
  CASE fr.f = "objlit" -> RetObjectLiteral
    [] fr.f = "objk" -> RetObjectKey
    [] fr.f = "objv" -> RetObjectValue
    [] fr.f = "objspread" -> RetObjectSpread
    [] fr.f = "iter_o" -> RetIteratorObject
    [] fr.f = "iter_n" -> RetIteratorNext
    [] fr.f = "step_r" -> RetStepResult
    [] fr.f = "step_d" -> RetStepDone
    [] fr.f = "step_v" -> RetStepValue
    [] fr.f = "iterclose" -> RetIteratorClose
    [] fr.f = "collect" -> RetCollect
    [] fr.f = "forhead" -> RetForHead
    [] fr.f = "forx" -> RetForInOf
    [] fr.f = "piter" -> RetPatternIterator
    [] fr.f = "pobj" -> RetPatternObject
    [] fr.f = "yield" -> RetYield
    [] fr.f = "ydel" -> RetYieldDelegate
    [] fr.f = "genb" -> RetGeneratorBoundary
    [] fr.f = "terr" -> RetThrowTypeError
    [] fr.f = "class0" -> RetClassStart
    [] fr.f = "class1" -> RetClassHeritage
    [] fr.f = "class2" -> RetClassElements
    [] fr.f = "classk" -> RetClassKey
    [] fr.f = "class3" -> RetClassDone
    [] fr.f = "fieldv" -> RetFieldValue
    [] fr.f = "ctor_go" -> RetConstructorFieldsDone
    [] fr.f = "super_r" -> RetSuperCall
    [] fr.f = "join" -> RetJoinElement
    [] fr.f = "cpy" -> RetCopyDataProperties
ExtraAbrFrames == {"iterclose", "forx", "piter", "genb", "ydel"}
ExtraAbrRules ==
  CASE fr.f = "iterclose" -> AbrIteratorClose
    [] fr.f = "forx" -> AbrForInOf
    [] fr.f = "piter" -> AbrPatternIterator
    [] fr.f = "genb" -> AbrGeneratorBoundary
    [] fr.f = "ydel" -> AbrYieldDelegate
ExtraOpRules ==
  CASE c.op = "iteropen" -> OpIteratorOpen
    [] c.op = "iterstep" -> OpIteratorStep
    [] c.op = "iterclose" -> OpIteratorClose
    [] c.op = "copyprops" -> OpCopyDataProperties
    [] c.op = "fields" -> OpInstanceFields
    [] c.op = "sfields" -> OpStaticFields
    [] c.op = "bind" /\ N(c.pat).t = "arraypat" -> OpBindArrayPattern
    [] c.op = "bind" /\ N(c.pat).t = "objectpat" -> OpBindObjectPattern
    [] OTHER -> OutOfModel("no rule for operation " \o c.op)
ExtraCallRules == OutOfModel("no rule for callee class " \o heap[c.f.a].cls)

CallRules ==
  /\ c.m = "call"
  /\ CASE ~IsCallable(heap, c.f) -> CallNotCallable
       [] heap[c.f.a].cls = "fun" -> CallClosure
       [] heap[c.f.a].cls = "nat" -> CallNative
       [] OTHER -> ExtraCallRules

-----------------------------------------------------------------------------
(* Evaluation of statements: c = Ev(n) yields Ret(completion value or Empty) or an abrupt completion *)

\* labels of the LabelledStatements directly enclosing the statement being started (14.13.4 labelSet)
RECURSIVE LabelsOnTop(_)
LabelsOnTop(kk) == IF kk # <<>> /\ kk[1].f = "label" THEN {kk[1].l} \cup LabelsOnTop(Tail(kk)) ELSE {}

\* 16.1.6 ScriptEvaluation: GlobalDeclarationInstantiation, then the statement list
EvScript ==
  /\ nd.t = "program"
  /\ LET r == GlobalInst(nd.body, envs, heap)
     IN /\ envs' = r.es
        /\ heap' = r.h
        /\ c' = Ret(Empty)
        /\ k' = Push([f |-> "seq", e |-> env, n |-> c.n, i |-> 0, v |-> Empty])
        /\ UNCHANGED <<env, out, aux>>

\* 14.3.1 let/const and 14.3.2 var declarations: the declarators left to right
EvDeclaration ==
  /\ nd.t \in {"var", "let", "const"}
  /\ Go(Ret(Empty), Push([f |-> "decls", e |-> env, n |-> c.n, i |-> 0]))

\* 15.2.6 a function declaration evaluates to empty (it was instantiated on scope entry)
EvFunctionDeclaration == nd.t \in {"function", "generator", "empty"} /\ Go(Ret(Empty), k)

\* 15.7.15 class declaration: BindingClassDeclarationEvaluation
EvClassDeclaration == nd.t = "class" /\ Go(Ret(Empty), Push([f |-> "class0", e |-> env, n |-> c.n]))

\* 14.5 ExpressionStatement: the completion value is the value of the expression
EvExpressionStatement == nd.t = "expr" /\ Go(Ev(nd.e), k)

\* 14.2 Block: BlockDeclarationInstantiation in a new declarative record when the block declares anything
EvBlock ==
  /\ nd.t = "block"
  /\ LET r == BlockInst(nd.body, env, envs, heap)
     IN /\ envs' = r.es
        /\ heap' = r.h
        /\ env' = IF r.need THEN Len(envs) + 1 ELSE env
        /\ c' = Ret(Empty)
        /\ k' = Push([f |-> "seq", e |-> env, n |-> c.n, i |-> 0, v |-> Empty])
        /\ UNCHANGED <<out, aux>>

\* 14.6 if
EvIf == nd.t = "if" /\ Go(Ev(nd.c), Push([f |-> "if", e |-> env, n |-> c.n]))

\* 14.7.3 while, 14.7.2 do-while: frames carry V (the completion value so far) and the label set
EvWhile ==
  /\ nd.t = "while"
  /\ Go(Ev(nd.c), Push([f |-> "loop_c", e |-> env, n |-> c.n, v |-> Undef, ls |-> LabelsOnTop(k)]))
EvDoWhile ==
  /\ nd.t = "dowhile"
  /\ Go(Ev(nd.s), Push([f |-> "loop_b", e |-> env, n |-> c.n, v |-> Undef, ls |-> LabelsOnTop(k)]))

\* 14.7.4.2 ForLoopEvaluation: a let/const head gets its own record (loopEnv) whose let names are
\* copied per iteration (CreatePerIterationEnvironment)
EvFor ==
  /\ nd.t = "for"
  /\ LET lexical == nd.init # 0 /\ N(nd.init).t \in {"let", "const"}
         names == IF lexical THEN DeclNames(pid, nd.init) ELSE <<>>
         per == IF lexical /\ N(nd.init).t = "let" THEN Range(names) ELSE {}
         frm == [f |-> "for_i", e |-> env, n |-> c.n, v |-> Undef, ls |-> LabelsOnTop(k), per |-> per, ie |-> 0]
     IN IF lexical
        THEN /\ envs' = Append(envs, DeclEnv(env, [x \in Range(names) |-> Uninit(IF N(nd.init).t = "const" THEN "const" ELSE "no")]))
             /\ env' = Len(envs) + 1
             /\ c' = Ev(nd.init)
             /\ k' = Push(frm)
             /\ UNCHANGED <<heap, out, aux>>
        ELSE IF nd.init # 0 THEN Go(Ev(nd.init), Push(frm))
        ELSE Go(Ret(Empty), Push(frm))

\* 14.7.5.6 ForIn/OfHeadEvaluation: the subject expression is evaluated in a TDZ record holding the
\* names of a lexical head
EvForInOf ==
  /\ nd.t \in {"forin", "forof"}
  /\ LET frm == [f |-> "forhead", e |-> env, n |-> c.n, ls |-> LabelsOnTop(k)]
         subject == IF nd.t = "forin" THEN nd.obj ELSE nd.iter
     IN IF nd.kind \in {"let", "const"}
        THEN /\ envs' = Append(envs, DeclEnv(env, [x \in Range(BoundNames(pid, nd.target)) |-> Uninit("no")]))
             /\ env' = Len(envs) + 1
             /\ c' = Ev(subject)
             /\ k' = Push(frm)
             /\ UNCHANGED <<heap, out, aux>>
        ELSE Go(Ev(subject), Push(frm))

\* 14.13 LabelledStatement
EvLabelled == nd.t = "labeled" /\ Go(Ev(nd.s), Push([f |-> "label", e |-> env, l |-> nd.l]))

\* 14.8 continue, 14.9 break: abrupt completions with an empty value
EvBreak == nd.t = "break" /\ Go(Abr("break", Empty, nd.l), k)
EvContinue == nd.t = "continue" /\ Go(Abr("continue", Empty, nd.l), k)

\* 14.10 return
EvReturn ==
  /\ nd.t = "return"
  /\ IF nd.e = 0 THEN Go(Abr("return", Undef, ""), k)
     ELSE Go(Ev(nd.e), Push([f |-> "return", e |-> env]))

\* 14.14 throw
EvThrow == nd.t = "throw" /\ Go(Ev(nd.e), Push([f |-> "throw", e |-> env]))

\* 14.15 try
EvTry == nd.t = "try" /\ Go(Ev(nd.b), Push([f |-> "try", e |-> env, n |-> c.n]))

\* 14.12 switch: the discriminant, then CaseBlockEvaluation
EvSwitch == nd.t = "switch" /\ Go(Ev(nd.d), Push([f |-> "sw_d", e |-> env, n |-> c.n]))

\* the host function print(...args): arguments left to right, then one trace line
EvPrint ==
  /\ nd.t = "print"
  /\ Go(Ret(Empty), Push([f |-> "args", e |-> env, n |-> c.n, fv |-> Undef, this |-> Undef, i |-> 0, acc |-> <<>>, kind |-> "print"]))

SupportedKinds ==
  {"lit", "ident", "this", "newtarget", "fn", "genfn", "arrow", "member", "super_member", "array", "object",
   "template", "unary", "update", "binary", "logical", "cond", "seq", "assign", "call", "new", "optchain",
   "super_call", "yield", "classexpr", "program", "var", "let", "const", "function", "generator", "empty",
   "class", "expr", "block", "if", "while", "dowhile", "for", "forin", "forof", "labeled", "break", "continue",
   "return", "throw", "try", "switch", "print", "hole"}
\* node kinds without a rule (await, with, eval, async functions): outside the fragment
EvUnsupported == nd.t \notin SupportedKinds /\ OutOfModel("unsupported node " \o nd.t)

\* an elision in an array literal
EvHole == nd.t = "hole" /\ Go(Ret(Hole), k)

\* dispatch on the node kind: exactly one rule applies to each kind
EvRules ==
  /\ c.m = "ev"
  /\ CASE nd.t = "lit" -> EvLiteral
       [] nd.t = "ident" -> EvIdentifier
       [] nd.t = "this" -> EvThis
       [] nd.t = "newtarget" -> EvNewTarget
       [] nd.t \in {"fn","genfn","arrow"} -> EvFunctionExpression
       [] nd.t \in {"member","super_member"} -> EvMemberValue
       [] nd.t = "array" -> EvArrayLiteral
       [] nd.t = "object" -> EvObjectLiteral
       [] nd.t = "template" -> EvTemplate
       [] nd.t = "unary" -> EvUnary
       [] nd.t = "update" -> EvUpdate
       [] nd.t = "binary" -> EvBinary
       [] nd.t = "logical" -> EvLogical
       [] nd.t = "cond" -> EvConditional
       [] nd.t = "seq" -> EvComma
       [] nd.t = "assign" -> EvAssignment
       [] nd.t = "call" -> EvCall
       [] nd.t = "new" -> EvNew
       [] nd.t = "optchain" -> EvOptChain
       [] nd.t = "super_call" -> EvSuperCall
       [] nd.t = "yield" -> EvYield
       [] nd.t = "classexpr" -> EvClassExpr
       [] nd.t = "program" -> EvScript
       [] nd.t \in {"var","let","const"} -> EvDeclaration
       [] nd.t \in {"function","generator","empty"} -> EvFunctionDeclaration
       [] nd.t = "class" -> EvClassDeclaration
       [] nd.t = "expr" -> EvExpressionStatement
       [] nd.t = "block" -> EvBlock
       [] nd.t = "if" -> EvIf
       [] nd.t = "while" -> EvWhile
       [] nd.t = "dowhile" -> EvDoWhile
       [] nd.t = "for" -> EvFor
       [] nd.t \in {"forin","forof"} -> EvForInOf
       [] nd.t = "labeled" -> EvLabelled
       [] nd.t = "break" -> EvBreak
       [] nd.t = "continue" -> EvContinue
       [] nd.t = "return" -> EvReturn
       [] nd.t = "throw" -> EvThrow
       [] nd.t = "try" -> EvTry
       [] nd.t = "switch" -> EvSwitch
       [] nd.t = "print" -> EvPrint
       [] nd.t = "hole" -> EvHole
       [] OTHER -> EvUnsupported

RefRules ==
  /\ c.m = "evref"
  /\ CASE nd.t = "ident" -> RefIdentifier
       [] nd.t = "member" -> RefMember
       [] nd.t = "super_member" -> RefSuperMember
       [] OTHER -> RefOther

-----------------------------------------------------------------------------
(* The transition relation *)

\* a frame kind without a continuation rule: the construct is outside the modelled fragment
RetUnknownFrame == OutOfModel("no rule for frame " \o fr.f)

\* dispatch on the kind of the top frame
RetRules ==
  /\ c.m = "ret" /\ c.v.t # "oom" /\ k # <<>>
  /\ CASE fr.f = "getv" -> RetGetValue
       [] fr.f = "ref_o" -> RetMemberBase
       [] fr.f = "ref_k" -> RetMemberKey
       [] fr.f = "sref_k" -> RetSuperKey
       [] fr.f = "arr" -> RetArrayElement
       [] fr.f = "spread" -> RetSpread
       [] fr.f = "un" -> RetUnary
       [] fr.f = "delete" -> RetDelete
       [] fr.f = "upd_r" -> RetUpdateRef
       [] fr.f = "upd_v" -> RetUpdateValue
       [] fr.f = "bin1" -> RetBinaryLeft
       [] fr.f = "bin2" -> RetBinaryRight
       [] fr.f = "binp" -> RetBinaryPrimitive
       [] fr.f = "log" -> RetLogical
       [] fr.f = "cond" -> RetConditional
       [] fr.f = "comma" -> RetComma
       [] fr.f = "asg_r" -> RetAssignRef
       [] fr.f = "asg_v" -> RetAssignValue
       [] fr.f = "casg_l" -> RetCompoundLeft
       [] fr.f = "casg_r" -> RetCompoundRight
       [] fr.f = "asg_pat" -> RetAssignPattern
       [] fr.f = "constv" -> RetConst
       [] fr.f = "tobool" -> RetToBoolean
       [] fr.f = "tmpl" -> RetTemplate
       [] fr.f = "optchain" -> RetOptChain
       [] fr.f = "seq" -> RetStatementList
       [] fr.f = "decls" -> RetDeclarators
       [] fr.f = "decl_v" -> RetDeclaratorValue
       [] fr.f = "if" -> RetIfTest
       [] fr.f = "ifv" -> RetIfBranch
       [] fr.f = "loop_c" -> RetLoopTest
       [] fr.f = "loop_b" -> RetLoopBody
       [] fr.f = "for_i" -> RetForInit
       [] fr.f = "for_c" -> RetForTest
       [] fr.f = "for_b" -> RetForBody
       [] fr.f = "for_u" -> RetForUpdate
       [] fr.f = "label" -> RetLabelled
       [] fr.f = "return" -> RetReturn
       [] fr.f = "throw" -> RetThrow
       [] fr.f \in {"try","catch"} -> RetTryBlock
       [] fr.f = "catch_b" -> RetCatchBound
       [] fr.f = "fin" -> RetFinally
       [] fr.f = "sw_d" -> RetSwitchDiscriminant
       [] fr.f = "sw_end" -> RetSwitchEnd
       [] fr.f = "sw_t" -> RetSwitchTest
       [] fr.f = "sw_b" -> RetSwitchBody
       [] fr.f = "getv_k" -> RetGetValueKey
       [] fr.f = "putv_k" -> RetPutValueKey
       [] fr.f = "toprim_r" -> RetToPrimitiveExotic
       [] fr.f = "ordprim_m" -> RetOrdinaryToPrimitiveMethod
       [] fr.f = "ordprim_r" -> RetOrdinaryToPrimitiveResult
       [] fr.f = "bind_ref" -> RetBindReference
       [] fr.f = "call_r" -> RetCalleeReference
       [] fr.f = "call_f" -> RetCallee
       [] fr.f = "new_f" -> RetNewCallee
       [] fr.f = "args" -> RetArguments
       [] fr.f = "params" -> RetParameters
       [] fr.f = "arrowret" -> RetArrowBody
       [] fr.f = "callb" -> RetCallBoundary
       [] fr.f \in ExtraRetFrames -> ExtraRetRules
       [] OTHER -> RetUnknownFrame

AbrRules ==
  /\ c.m = "abr" /\ k # <<>>
  /\ CASE fr.f \in {"loop_b", "for_b"} -> AbrLoop
       [] fr.f = "label" -> AbrLabelled
       [] fr.f = "sw_b" -> AbrSwitch
       [] fr.f = "try" -> AbrTry
       [] fr.f = "catch" -> AbrCatch
       [] fr.f = "optchain" -> AbrOptChain
       [] fr.f = "callb" -> AbrCallBoundary
       [] fr.f \in ExtraAbrFrames -> ExtraAbrRules
       [] OTHER -> AbrPass

OpRules ==
  /\ c.m = "op"
  /\ CASE c.op = "getv" -> OpGetValue
       [] c.op = "putv" -> OpPutValue
       [] c.op = "toprim" -> OpToPrimitive
       [] c.op = "bind" /\ N(c.pat).t = "ident" -> OpBindIdentifier
       [] c.op = "bind" /\ N(c.pat).t \in {"member", "super_member"} -> OpBindMember
       [] OTHER -> ExtraOpRules

\* the value left the modelled domain (Values.tla OOM)
RetOutOfModelValue == c.m = "ret" /\ c.v.t = "oom" /\ OutOfModel("value outside the modelled domain" \o (IF k = <<>> THEN "" ELSE " in " \o fr.f))

\* 16.1.6 ScriptEvaluation ends: normal completion (empty |-> undefined) or an uncaught throw
FinishNormal == c.m = "ret" /\ c.v.t # "oom" /\ k = <<>> /\ c' = Done("value", UpdateEmpty(c.v, Undef)) /\ UNCHANGED <<env, k, envs, heap, out, aux>>
FinishThrow == c.m = "abr" /\ k = <<>> /\ ak = "throw" /\ c' = Done("throw", c.v) /\ UNCHANGED <<env, k, envs, heap, out, aux>>

LimitHit == steps >= MaxSteps \/ Len(heap) > MaxHeap \/ Len(envs) > MaxEnvs \/ Len(k) > MaxKont

Step ==
  CASE c.m = "ev" -> EvRules
    [] c.m = "evref" -> RefRules
    [] c.m = "ret" /\ c.v.t = "oom" -> RetOutOfModelValue
    [] c.m = "ret" /\ k = <<>> -> FinishNormal
    [] c.m = "ret" -> RetRules
    [] c.m = "abr" /\ k = <<>> -> FinishThrow
    [] c.m = "abr" -> AbrRules
    [] c.m = "op" -> OpRules
    [] c.m = "call" -> CallRules

Next ==
  \/ /\ c.m # "done"
     /\ IF LimitHit THEN OutOfModel("resource bound") ELSE Step
     /\ steps' = steps + 1
     /\ pid' = pid
  \/ /\ c.m = "done"
     /\ UNCHANGED vars

Spec == Init /\ [][Next]_vars

-----------------------------------------------------------------------------
(* Invariants checked by TLC on every state of every run (the model gate) *)

Modes == {"ev", "evref", "ret", "abr", "op", "call", "done"}
ModeOK == c.m \in Modes

\* environment chain well-formed: parents precede children (acyclic, rooted in the global record 1)
EnvChainOK ==
  /\ env \in 1..Len(envs)
  /\ envs[1].par = 0
  /\ \A e \in 2..Len(envs) : envs[e].par \in 1..(e - 1)
  /\ \A i \in DOMAIN k : k[i].e \in 1..Len(envs)

\* TDZ discipline: the poison value of an uninitialised binding never flows into the control, and a
\* binding holds it iff it is uninitialised
NoTdzLeak ==
  /\ c.m = "ret" => c.v.t # "tdz"
  /\ c.m = "abr" => c.v.t # "tdz"
  /\ c.m = "call" => \A i \in DOMAIN c.args : c.args[i].t # "tdz"
BindingsOK ==
  \A e \in DOMAIN envs : \A x \in DOMAIN envs[e].b : (envs[e].b[x].v.t = "tdz") = ~envs[e].b[x].init

\* continuation balanced: the number of call boundaries equals the call depth; every pending
\* break/continue/return completion has a frame that will consume it; at the end nothing is left
KontOK ==
  /\ Cardinality({i \in DOMAIN k : k[i].f \in {"callb", "genb"}}) = aux.depth
  /\ (c.m = "abr" /\ c.kind = "return") => \E i \in DOMAIN k : k[i].f \in {"callb", "genb"}
  /\ (c.m = "abr" /\ c.kind \in {"break", "continue"}) =>
        \E i \in DOMAIN k : \/ k[i].f \in {"loop_b", "for_b", "forx"}
                            \/ (k[i].f = "sw_b" /\ c.kind = "break")
                            \/ (k[i].f = "label" /\ k[i].l = c.l)
  /\ (c.m = "abr" /\ c.kind = "optshort") => \E i \in DOMAIN k : k[i].f = "optchain"
  /\ (c.m = "done" /\ c.comp \in {"value", "throw"}) => k = <<>> /\ aux.depth = 0

\* heap well-formed: prototype links and function environments point to existing things
HeapOK ==
  \A a \in DOMAIN heap :
     /\ heap[a].proto \in 0..Len(heap) /\ heap[a].proto # a
     /\ heap[a].cls = "fun" => heap[a].env \in 1..Len(envs)

\* the print trace only contains rendered values
OutOK == \A i \in DOMAIN out : \A j \in DOMAIN out[i] : out[i][j].r \in {"u", "null", "b", "n", "s", "y", "o"}

\* one RESULT line per finished program
Emit ==
  c.m = "done" =>
    PrintT(<<"RESULT", ToJson([pid |-> pid, steps |-> steps, out |-> out, comp |-> c.comp,
                               v |-> IF c.comp \in {"value", "throw"} THEN Render(heap, aux.sd, c.v) ELSE c.v])>>)

=============================================================================
