CONSTANT Cases <- MCCases
INIT Init
NEXT Next
INVARIANT TypeOK
INVARIANT StackDiscipline
INVARIANT LevelsOK
INVARIANT RoundTrip
INVARIANT Minimal
INVARIANT IllegalRejected
INVARIANT LegalAccepted
INVARIANT Emit
CHECK_DEADLOCK TRUE
