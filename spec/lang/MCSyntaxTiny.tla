---- MODULE MCSyntaxTiny ----
EXTENDS MCSyntax
MCCases == CasesFor("tiny")
ASSUME PrintT(<<"NCASES", Cardinality(MCCases)>>)
====
