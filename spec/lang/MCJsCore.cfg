CONSTANTS
  MaxSteps = 20000
  MaxHeap = 260
  MaxEnvs = 400
  MaxKont = 300
INIT Init
NEXT Next
INVARIANT ModeOK
INVARIANT EnvChainOK
INVARIANT NoTdzLeak
INVARIANT BindingsOK
INVARIANT KontOK
INVARIANT HeapOK
INVARIANT OutOK
INVARIANT Emit
CHECK_DEADLOCK TRUE
