CONSTANT Cases <- RunCases
INIT Init
NEXT Next
INVARIANT TypeOK
INVARIANT StackDiscipline
INVARIANT LevelsOK
INVARIANT EmitRun
CHECK_DEADLOCK TRUE
