----------------------------- MODULE MCJsCore -----------------------------
(* Batch evaluation of the programs in $PROGRAMS with the JsCore machine: every invariant of the
   model gate is checked on every step of every program; Emit prints one RESULT line per program. *)
EXTENDS JsCore
=============================================================================
