---- MODULE MCSyntaxThorough ----
EXTENDS MCSyntax
MCCases == CasesFor("thorough")
ASSUME PrintT(<<"NCASES", Cardinality(MCCases)>>)
====
