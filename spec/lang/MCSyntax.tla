------------------------------ MODULE MCSyntax ------------------------------
(* Bounded universes of ASTs for Syntax.tla and the model gate:              *)
(*   RoundTrip  Parse(Print(a)) = a for every statement of the universe;     *)
(*   Minimal    removing any one inserted pair of parentheses yields a       *)
(*              rejection, a statement outside the fragment or another AST;  *)
(*   Illegal    the listed unparenthesised mixes are rejected.               *)
(* Every finished case is emitted as a CASE line for the conformance run.    *)
EXTENDS Syntax, Json

A == Id("a")
LeafAll == {A, ObjE, FnE, ClsE, Id("let")}
BinRep == {",", "??", "||", "&&", "|", "==", "<", "in", "<<", "+", "-", "*", "**"}
UnRep == {"-", "+", "typeof"}

RECURSIVE HasYA(_)
SeqHasYA(xs) == \E i \in 1..Len(xs) : HasYA(xs[i])
HasYA(e) ==
    CASE e.k \in {"yield", "await"} -> TRUE
      [] e.k \in {"id", "obj", "fn", "class", "none"} -> FALSE
      [] e.k \in {"bin", "asg"} -> HasYA(e.l) \/ HasYA(e.r)
      [] e.k \in {"un", "upd", "arrow"} -> HasYA(e.x)
      [] e.k = "cond" -> HasYA(e.c) \/ HasYA(e.t) \/ HasYA(e.f)
      [] e.k = "new" -> HasYA(e.c) \/ SeqHasYA(e.args)
      [] e.k = "call" -> HasYA(e.f) \/ SeqHasYA(e.args)
      [] e.k = "mem" -> HasYA(e.o)
      [] e.k = "idx" -> HasYA(e.o) \/ HasYA(e.i)
      [] e.k = "opt" -> HasYA(e.t) \/ \E i \in 1..Len(e.ch) :
                            (e.ch[i].k = "idx" /\ HasYA(e.ch[i].i)) \/ (e.ch[i].k = "call" /\ SeqHasYA(e.ch[i].args))

Targets(S) == {e \in S : IsTargetAst(e)}

\* one constructor level over the child set S (B: children used for the second operand where the
\* product would be cubic)
Ops(S, B) ==
    {Bin(op, l, r) : op \in BinRep, l \in S, r \in S}
    \cup {Un(op, x) : op \in UnRep, x \in S}
    \cup {Await(x) : x \in S}
    \cup {Upd(op, pre, x) : op \in UpdOps, pre \in BOOLEAN, x \in Targets(S)}
    \cup {Asg(op, l, r) : op \in {"=", "+="}, l \in Targets(S), r \in S}
    \cup {Cond(c, t, A) : c \in S, t \in S} \cup {Cond(A, A, f) : f \in S} \cup {Cond(c, t, f) : c \in B, t \in B, f \in B}
    \cup {Arrow(as, x) : as \in BOOLEAN, x \in {y \in S : ~HasYA(y)}}
    \cup {New(c, TRUE, <<>>) : c \in S} \cup {New(c, FALSE, <<>>) : c \in S} \cup {New(c, FALSE, <<x>>) : c \in S, x \in B}
    \cup {Call(f, <<>>) : f \in S} \cup {Call(f, <<x>>) : f \in B, x \in S}
    \cup {Mem(o, "b") : o \in S}
    \cup {Idx(o, i) : o \in S, i \in B} \cup {Idx(o, i) : o \in B, i \in S}
    \cup {Opt(t, <<ODot(TRUE, "b")>>) : t \in S}
    \cup {Opt(t, <<OIdx(TRUE, i)>>) : t \in B, i \in S}
    \cup {Opt(t, <<OCall(TRUE, <<>>)>>) : t \in S}
    \cup {Opt(t, <<ODot(TRUE, "b"), ODot(FALSE, "c")>>) : t \in S}
    \cup {Opt(t, <<ODot(TRUE, "b"), OCall(FALSE, <<x>>)>>) : t \in B, x \in S}
    \cup {Opt(t, <<ODot(TRUE, "b"), OIdx(TRUE, A)>>) : t \in S}
    \cup {Yield(FALSE, None)} \cup {Yield(d, x) : d \in BOOLEAN, x \in S}

\* depth <= 2 (one operator level) over all leaves; depth <= 3 over the leaf a
\* (operators with a dummy parameter: TLC evaluates parameterless definitions eagerly at start-up)
D1All(z) == LeafAll \cup Ops(LeafAll, LeafAll)
D1a(z) == {A} \cup Ops({A}, {A})
D2a(z) == D1a(z) \cup Ops(D1a(z), {A})
\* depth 3 restricted to one representative per shape, for the quick tier
BinQ == {",", "??", "||", "+", "**", "in"}
OpsQ(S) == {Bin(op, l, r) : op \in BinQ, l \in S, r \in S}
           \cup {Un("-", x) : x \in S} \cup {Await(x) : x \in S}
           \cup {Asg("=", l, r) : l \in Targets(S), r \in S}
           \cup {Cond(c, A, A) : c \in S} \cup {Cond(A, t, A) : t \in S} \cup {Cond(A, A, f) : f \in S}
           \cup {Arrow(FALSE, x) : x \in {y \in S : ~HasYA(y)}}
           \cup {New(c, TRUE, <<>>) : c \in S} \cup {New(c, FALSE, <<>>) : c \in S}
           \cup {Call(f, <<>>) : f \in S} \cup {Call(A, <<x>>) : x \in S}
           \cup {Mem(o, "b") : o \in S} \cup {Idx(A, i) : i \in S}
           \cup {Opt(t, <<ODot(TRUE, "b")>>) : t \in S}
           \cup {Yield(FALSE, x) : x \in S}
D2q(z) == D1a(z) \cup OpsQ(D1a(z))
\* depth 3 along one spine: one deep operand, the other operands are the leaf
OpsS(S) == {Bin(op, l, A) : op \in BinQ, l \in S} \cup {Bin(op, A, r) : op \in BinQ, r \in S}
           \cup {Un("-", x) : x \in S} \cup {Await(x) : x \in S}
           \cup {Asg("=", l, A) : l \in Targets(S)} \cup {Asg("=", A, r) : r \in S}
           \cup {Cond(c, A, A) : c \in S} \cup {Cond(A, t, A) : t \in S} \cup {Cond(A, A, f) : f \in S}
           \cup {Arrow(FALSE, x) : x \in {y \in S : ~HasYA(y)}}
           \cup {New(c, TRUE, <<>>) : c \in S} \cup {New(c, FALSE, <<>>) : c \in S}
           \cup {Call(f, <<>>) : f \in S} \cup {Call(A, <<x>>) : x \in S}
           \cup {Mem(o, "b") : o \in S} \cup {Idx(A, i) : i \in S}
           \cup {Opt(t, <<ODot(TRUE, "b")>>) : t \in S}
           \cup {Yield(FALSE, x) : x \in S}
D2s(z) == D1a(z) \cup OpsS(D1a(z))
DLet(z) == Ops({Id("let")}, {A})

ForLhs(z) == {A, Id("let"), Id("async"), Mem(Id("let"), "b"), Idx(Id("let"), A), Mem(A, "b"), Idx(A, A),
           Mem(Id("async"), "b"), Mem(Call(A, <<>>), "b")}

Stmts(E1, E2) ==
    {SExpr(e) : e \in E2}
    \cup {SForInit(e) : e \in E1} \cup {SForVar(e) : e \in E1}
    \cup {SForIn(l, e) : l \in ForLhs(0), e \in D1a(0)} \cup {SForOf(l, e) : l \in ForLhs(0), e \in D1a(0)}

StmtsFor(tier) ==
    CASE tier = "tiny" -> Stmts(D1a(0), D1a(0))
      [] tier = "quick" -> Stmts(D1a(0) \cup DLet(0), D1All(0) \cup D2s(0))
      [] tier = "thorough" -> Stmts(D1All(0) \cup D2s(0), D1All(0) \cup D2q(0))
      [] tier = "deep" -> Stmts(D1All(0) \cup D2q(0), D1All(0) \cup D2a(0))

\* the listed illegal mixes (token sequences), all of which must be rejected
Illegal(z) == {
    <<"a", "??", "a", "||", "a", ";">>, <<"a", "||", "a", "??", "a", ";">>, <<"a", "&&", "a", "??", "a", ";">>,
    <<"a", "??", "a", "&&", "a", ";">>,
    <<"-", "a", "**", "a", ";">>, <<"typeof", "a", "**", "a", ";">>, <<"await", "a", "**", "a", ";">>,
    <<"a", "+", "a", "=", "a", ";">>, <<"-", "a", "=", "a", ";">>, <<"a", "++", "++", ";">>, <<"++", "a", "++", ";">>,
    <<"(", "a", ",", "a", ")", "=", "a", ";">>, <<"a", "?.", "b", "=", "a", ";">>, <<"a", "?.", "b", "++", ";">>,
    <<"new", "a", "?.", "b", "(", ")", ";">>,
    <<"a", "+", "(", "p", ")", "=>", "a", ";">>, <<"a", "+", "yield", "a", ";">>, <<"-", "yield", "a", ";">>,
    <<"(", "p", ")", "=>", "{", "return", "a", ";", "}", "(", ")", ";">>,
    <<"(", "p", ")", "=>", "{", "return", "a", ";", "}", "+", "a", ";">>,
    <<"(", "p", ")", "=>", "{", "return", "a", ";", "}", "?", "a", ":", "a", ";">>,
    <<"a", "?", "a", ",", "a", ":", "a", ";">>,
    <<"for", "(", "a", "in", "a", ";", ";", ")", ";">>, <<"for", "(", "var", "x", "=", "a", "in", "a", ";", ";", ")", ";">>,
    <<"for", "(", "(", "p", ")", "=>", "a", "in", "a", ";", ";", ")", ";">>,
    <<"for", "(", "a", "?", "a", ":", "a", "in", "a", ";", ";", ")", ";">>,
    <<"for", "(", "let", "of", "a", ")", ";">>, <<"for", "(", "async", "of", "a", ")", ";">>,
    <<"for", "(", "let", ".", "b", "of", "a", ")", ";">>,
    <<"for", "(", "a", "of", "a", ",", "a", ")", ";">>,
    <<"for", "(", "a", "+", "a", "of", "a", ")", ";">>, <<"for", "(", "a", "(", ")", "in", "a", ")", ";">>,
    <<"new", "-", "a", ";">>, <<"a", "yield", ";">>, <<"a", "a", ";">>, <<"a", "+", ";">>, <<"(", "a", ";">>,
    <<"a", ")", ";">>, <<"a", "[", "a", ";">>, <<"a", "?", "a", ";">>, <<"a", "?", "a", ":", ";">>
}
\* legal companions of the above (the same mixes with the parentheses or in a position where they are allowed)
Legal(z) == {
    <<"for", "(", "a", "?", "a", "in", "a", ":", "a", ";", ";", ")", ";">>,
    <<"for", "(", "a", "[", "a", "in", "a", "]", ";", ";", ")", ";">>,
    <<"for", "(", "a", "(", "a", "in", "a", ")", ";", ";", ")", ";">>,
    <<"for", "(", "let", "in", "a", ")", ";">>, <<"for", "(", "let", ";", ";", ")", ";">>,
    <<"for", "(", "(", "let", ")", "of", "a", ")", ";">>, <<"for", "(", "async", ".", "b", "of", "a", ")", ";">>,
    <<"a", "?", "a", ":", "a", "=", "a", ";">>, <<"a", "??", "a", "??", "a", ";">>, <<"a", "??", "a", "|", "a", ";">>,
    <<"++", "a", "**", "a", ";">>, <<"a", "++", "**", "a", ";">>, <<"a", "**", "-", "a", ";">>,
    <<"(", "a", ")", "=", "a", ";">>, <<"(", "a", ".", "b", ")", "++", ";">>,
    <<"new", "new", "a", ";">>, <<"new", "new", "a", "(", ")", ";">>, <<"new", "new", "a", "(", ")", "(", ")", ";">>,
    <<"new", "a", ".", "b", "(", ")", ".", "c", ";">>, <<"new", "a", "(", ")", "?.", "b", ";">>,
    <<"a", "=", "yield", ";">>, <<"a", "(", "yield", ",", "yield", "a", ")", ";">>, <<"yield", "yield", "a", ";">>,
    <<"p", "=>", "p", "=>", "a", ";">>, <<"async", "p", "=>", "a", ";">>, <<"a", "=", "p", "=>", "a", ",", "a", ";">>,
    <<"a", "?", "p", "=>", "a", ":", "p", "=>", "a", ";">>
}

CasesOf(SS) ==
    {[a |-> s, v |-> 0, toks |-> <<>>] : s \in SS}
    \cup {[a |-> None, v |-> 0 - 1, toks |-> t] : t \in Illegal(0)}
    \cup {[a |-> None, v |-> 0 - 2, toks |-> t] : t \in Legal(0)}
CasesFor(tier) == CasesOf(StmtsFor(tier))

RoundTrip == (Done /\ cs.v = 0) => (st = "ok" /\ res = cs.a)
Minimal == (Done /\ cs.v > 0) => ~(st = "ok" /\ res = cs.a)
IllegalRejected == (Done /\ cs.v = 0 - 1) => st = "reject"
LegalAccepted == (Done /\ cs.v = 0 - 2) => st = "ok"
Emit == Done => PrintT(<<"CASE", ToJson([v |-> cs.v, toks |-> cs.toks, st |-> st, res |-> res])>>)
=============================================================================
