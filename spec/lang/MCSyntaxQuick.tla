---- MODULE MCSyntaxQuick ----
EXTENDS MCSyntax
MCCases == CasesFor("quick")
ASSUME PrintT(<<"NCASES", Cardinality(MCCases)>>)
====
