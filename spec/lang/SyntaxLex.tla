----------------------------- MODULE SyntaxLex -----------------------------
(***************************************************************************)
(* C19, lexical layer: literal classes and their re-lexing rules.          *)
(*                                                                         *)
(* Source text is a sequence of abstract characters (strings): the letters *)
(* and digits that matter, punctuators, and named characters               *)
(*   DQ " SQ ' BS \ BT ` DOL $ LB { RB } SL / LK [ RK ] DOT . SP space     *)
(*   LF CR LS (U+2028) PS (U+2029) CTL (U+0001) HS (a lone surrogate)      *)
(* plus the hex groups U000A U000D U2028 U2029 U0001 UD800 U0061 U0022     *)
(* U0027 U005C U0060 U0024 that follow `\u`.                               *)
(*                                                                         *)
(* Lex is a state machine over the characters (ECMA-262 chapter 12):       *)
(* string literals with escapes and line continuations, no-substitution    *)
(* templates (cooked value, CR and CRLF cooked to LF), numeric literals    *)
(* with the rule that no IdentifierStart or digit follows them (12.9.3),   *)
(* BigInt suffix, identifier names with unicode escapes, regular           *)
(* expression literals (`/` ends the body only outside a class and not     *)
(* after a backslash), punctuators.  A token is [c: class, v: value].      *)
(*                                                                         *)
(* Spell gives the reference spelling of a token (what a printer must      *)
(* emit); Naive is the spelling without any escaping.  TLC checks          *)
(*   Lex(Spell(t)) = <<t>>                     for every token of the      *)
(*   Lex(Naive(t)) = <<t>>  <=>  Plain(t)      bounded universe,           *)
(* which fixes the partition of literal contents into the classes that     *)
(* need an escape (used as signatures of the known printer findings) and   *)
(* those that do not.  PropertyKey classes and numeric literals in member  *)
(* position are token sequences with their own context (KeyCases,          *)
(* MemberCases).  SyntaxLexRun.tla runs the same lexer on the characters   *)
(* of the implementation's printed text.                                   *)
(***************************************************************************)
EXTENDS Naturals, Sequences, FiniteSets, TLC

Letters == {"a", "b", "e", "f", "i", "n", "r", "u", "x", "g"}
Digits == {"0", "1", "5"}
HexGroups == {"U000A", "U000D", "U2028", "U2029", "U0001", "UD800", "U0061", "U0022", "U0027", "U005C", "U0060", "U0024"}
HexChar == [h \in HexGroups |->
    CASE h = "U000A" -> "LF" [] h = "U000D" -> "CR" [] h = "U2028" -> "LS" [] h = "U2029" -> "PS" [] h = "U0001" -> "CTL"
      [] h = "UD800" -> "HS" [] h = "U0061" -> "a" [] h = "U0022" -> "DQ" [] h = "U0027" -> "SQ" [] h = "U005C" -> "BS"
      [] h = "U0060" -> "BT" [] h = "U0024" -> "DOL"]
Puncts == {"=", ";", "(", ")", "LK", "RK", "LB", "RB", ":", ",", "-", "DOT", "SL", "+"}
White == {"SP", "LF", "CR", "LS", "PS"}
LineTerm == {"LF", "CR", "LS", "PS"}

Tk(c, v) == [c |-> c, v |-> v]

(***************************************************************************)
(* Reference spelling.                                                     *)
(***************************************************************************)
\* string literal character inside quotes q ("DQ" or "SQ")
StrEsc(ch, q) ==
    CASE ch = q -> <<"BS", q>>
      [] ch = "BS" -> <<"BS", "BS">>
      [] ch = "LF" -> <<"BS", "n">>
      [] ch = "CR" -> <<"BS", "r">>
      [] ch = "LS" -> <<"BS", "u", "U2028">>
      [] ch = "PS" -> <<"BS", "u", "U2029">>
      [] ch = "CTL" -> <<"BS", "u", "U0001">>
      [] ch = "HS" -> <<"BS", "u", "UD800">>
      [] OTHER -> <<ch>>
TplEsc(ch) ==
    CASE ch = "BT" -> <<"BS", "BT">>
      [] ch = "BS" -> <<"BS", "BS">>
      [] ch = "DOL" -> <<"BS", "DOL">>
      [] ch = "CR" -> <<"BS", "r">>
      [] ch = "HS" -> <<"BS", "u", "UD800">>
      [] OTHER -> <<ch>>
RECURSIVE Flat(_)
Flat(ss) == IF Len(ss) = 0 THEN <<>> ELSE ss[1] \o Flat(Tail(ss))
SpellStr(v, q) == <<q>> \o Flat([i \in 1..Len(v) |-> StrEsc(v[i], q)]) \o <<q>>
NaiveStr(v) == <<"DQ">> \o v \o <<"DQ">>
SpellTpl(v) == <<"BT">> \o Flat([i \in 1..Len(v) |-> TplEsc(v[i])]) \o <<"BT">>
NaiveTpl(v) == <<"BT">> \o v \o <<"BT">>
\* which contents survive the naive spelling
PlainStr(v) == \A i \in 1..Len(v) : v[i] \notin {"DQ", "BS", "LF", "CR", "HS"}
PlainTpl(v) == /\ \A i \in 1..Len(v) : v[i] \notin {"BT", "BS", "CR", "HS"}
               /\ \A i \in 1..(Len(v) - 1) : ~(v[i] = "DOL" /\ v[i + 1] = "LB")

(***************************************************************************)
(* The lexer.                                                              *)
(*   chars, i   input and cursor            buf   value being collected    *)
(*   mode       top | dq | sq | esc | uesc | tpl | tesc | tuesc | num |    *)
(*              id | iduesc | re | reflags                                  *)
(*   sub        sub-state: string quote to return to / number phase /      *)
(*              regex-in-class flag                                         *)
(*   out        tokens so far              st    run | ok | error           *)
(***************************************************************************)
CONSTANT LexCases        \* set of records with fields chars, want (expected tokens), tag
VARIABLES lc, i, mode, sub, buf, out, st
lvars == <<lc, i, mode, sub, buf, out, st>>
chars == lc.chars
Ch == IF i <= Len(chars) THEN chars[i] ELSE "EOF"
ChAt(j) == IF j <= Len(chars) THEN chars[j] ELSE "EOF"

\* a regular expression literal may start here (the previous token is not an operand)
RegexAllowed == Len(out) = 0 \/ (out[Len(out)].c = "punct" /\ out[Len(out)].v \in {"=", "(", ",", ":", "LK", ";", "LB", "+", "-"})

\* value of a numeric literal: spelling without leading zeros, a trailing "." or ".0"
RECURSIVE StripZeros(_)
StripZeros(b) == IF Len(b) > 1 /\ b[1] = "0" /\ b[2] \in Digits THEN StripZeros(Tail(b)) ELSE b
NumCanon(b) ==
    LET b1 == StripZeros(b)
        n == Len(b1) IN
    IF n >= 2 /\ b1[n] = "DOT" THEN SubSeq(b1, 1, n - 1)
    ELSE IF n >= 3 /\ b1[n] = "0" /\ b1[n - 1] = "DOT" THEN SubSeq(b1, 1, n - 2)
    ELSE b1

LInit == /\ lc \in LexCases
         /\ i = 1 /\ mode = "top" /\ sub = "" /\ buf = <<>> /\ out = <<>> /\ st = "run"

Fail == st' = "error" /\ UNCHANGED <<lc, i, mode, sub, buf, out>>
Emit(tok, j, m) == /\ out' = Append(out, tok) /\ i' = j /\ mode' = m /\ buf' = <<>> /\ sub' = ""
                   /\ UNCHANGED <<lc, st>>
Go(j, m, s, b) == /\ i' = j /\ mode' = m /\ sub' = s /\ buf' = b /\ UNCHANGED <<lc, out, st>>

Top ==
    /\ st = "run" /\ mode = "top"
    /\ LET c == Ch IN
       CASE c = "EOF" -> st' = "ok" /\ UNCHANGED <<lc, i, mode, sub, buf, out>>
         [] c \in White -> Go(i + 1, "top", "", <<>>)
         [] c = "DQ" -> Go(i + 1, "dq", "", <<>>)
         [] c = "SQ" -> Go(i + 1, "sq", "", <<>>)
         [] c = "BT" -> Go(i + 1, "tpl", "", <<>>)
         [] c \in Digits -> Go(i + 1, "num", "int", <<c>>)
         [] c \in Letters -> Go(i + 1, "id", "", <<c>>)
         [] c = "BS" -> IF ChAt(i + 1) = "u" /\ ChAt(i + 2) \in HexGroups /\ HexChar[ChAt(i + 2)] \in Letters
                        THEN Go(i + 3, "id", "", <<HexChar[ChAt(i + 2)]>>) ELSE Fail
         [] c = "SL" /\ RegexAllowed -> Go(i + 1, "re", "", <<>>)
         [] c \in Puncts -> Emit(Tk("punct", c), i + 1, "top")
         [] OTHER -> Fail

\* ---- string literals (12.9.4)
InString ==
    /\ st = "run" /\ mode \in {"dq", "sq"}
    /\ LET c == Ch
           q == IF mode = "dq" THEN "DQ" ELSE "SQ" IN
       CASE c = q -> Emit(Tk("str", buf), i + 1, "top")
         [] c \in {"LF", "CR", "EOF"} -> Fail                       \* unterminated; LS and PS are allowed (ES2019)
         [] c = "HS" -> Fail                                        \* printed text is a sequence of scalar values
         [] c = "BS" -> Go(i + 1, "esc", mode, buf)
         [] OTHER -> Go(i + 1, mode, "", Append(buf, c))

Escape ==       \* after a backslash in a string (sub = the string mode) or a template (mode tesc)
    /\ st = "run" /\ mode \in {"esc", "tesc"}
    /\ LET c == Ch
           back == IF mode = "esc" THEN sub ELSE "tpl" IN
       CASE c = "EOF" -> Fail
         [] c = "n" -> Go(i + 1, back, "", Append(buf, "LF"))
         [] c = "r" -> Go(i + 1, back, "", Append(buf, "CR"))
         [] c = "u" -> IF ChAt(i + 1) \in HexGroups THEN Go(i + 2, back, "", Append(buf, HexChar[ChAt(i + 1)])) ELSE Fail
         [] c = "x" -> Fail                                         \* \x needs two hex digits: not in the alphabet
         [] c = "CR" -> Go(IF ChAt(i + 1) = "LF" THEN i + 2 ELSE i + 1, back, "", buf)      \* line continuation
         [] c \in {"LF", "LS", "PS"} -> Go(i + 1, back, "", buf)
         [] c \in Digits -> Fail                                    \* octal / \0 forms are not modelled
         [] OTHER -> Go(i + 1, back, "", Append(buf, c))            \* the character itself

\* ---- templates without substitutions (12.9.6): cooked value
InTemplate ==
    /\ st = "run" /\ mode = "tpl"
    /\ LET c == Ch IN
       CASE c = "BT" -> Emit(Tk("tpl", buf), i + 1, "top")
         [] c \in {"EOF", "HS"} -> Fail
         [] c = "BS" -> Go(i + 1, "tesc", "", buf)
         [] c = "DOL" /\ ChAt(i + 1) = "LB" -> Emit(Tk("tplhead", buf), i + 2, "top")     \* a substitution starts
         [] c = "CR" -> Go(IF ChAt(i + 1) = "LF" THEN i + 2 ELSE i + 1, "tpl", "", Append(buf, "LF"))
         [] OTHER -> Go(i + 1, "tpl", "", Append(buf, c))

\* ---- numeric literals (12.9.3); sub = int | frac | exp0 | exp
InNumber ==
    /\ st = "run" /\ mode = "num"
    /\ LET c == Ch IN
       CASE c \in Digits -> Go(i + 1, "num", IF sub = "exp0" THEN "exp" ELSE sub, Append(buf, c))
         [] c = "DOT" /\ sub = "int" -> Go(i + 1, "num", "frac", Append(buf, c))
         [] c = "e" /\ sub \in {"int", "frac"} ->
              IF ChAt(i + 1) \in Digits THEN Go(i + 1, "num", "exp0", Append(buf, c))
              ELSE IF ChAt(i + 1) = "+" /\ ChAt(i + 2) \in Digits THEN Go(i + 2, "num", "exp0", buf \o <<"e", "+">>)
              ELSE Fail
         [] c = "n" /\ sub = "int" ->
              IF ChAt(i + 1) \in Letters \cup Digits THEN Fail ELSE Emit(Tk("big", StripZeros(buf)), i + 1, "top")
         [] c \in Letters \/ c = "BS" -> Fail          \* an IdentifierStart directly after a numeric literal
         [] OTHER -> Emit(Tk("num", NumCanon(buf)), i, "top")

\* ---- identifier names (12.7), value = the cooked name
InIdent ==
    /\ st = "run" /\ mode = "id"
    /\ LET c == Ch IN
       CASE c \in Letters \cup Digits -> Go(i + 1, "id", "", Append(buf, c))
         [] c = "BS" -> IF ChAt(i + 1) = "u" /\ ChAt(i + 2) \in HexGroups /\ HexChar[ChAt(i + 2)] \in Letters
                        THEN Go(i + 3, "id", "", Append(buf, HexChar[ChAt(i + 2)])) ELSE Fail
         [] OTHER -> Emit(Tk("id", buf), i, "top")

\* ---- regular expression literals (12.9.5); sub = "" | "cls"; value = source of the body, then the flags
InRegex ==
    /\ st = "run" /\ mode = "re"
    /\ LET c == Ch IN
       CASE c \in {"EOF", "LF", "CR", "LS", "PS"} -> Fail
         [] c = "BS" -> IF ChAt(i + 1) \in {"EOF", "LF", "CR", "LS", "PS"} THEN Fail
                        ELSE Go(i + 2, "re", sub, buf \o <<"BS", ChAt(i + 1)>>)
         [] c = "LK" -> Go(i + 1, "re", "cls", Append(buf, c))
         [] c = "RK" -> Go(i + 1, "re", "", Append(buf, c))
         [] c = "SL" /\ sub = "" -> IF Len(buf) = 0 THEN Fail ELSE Go(i + 1, "reflags", "", Append(buf, "SL"))
         [] OTHER -> Go(i + 1, "re", sub, Append(buf, c))
RegexFlags ==
    /\ st = "run" /\ mode = "reflags"
    /\ IF Ch \in Letters THEN Go(i + 1, "reflags", "", Append(buf, Ch)) ELSE Emit(Tk("regex", buf), i, "top")

LTerminated == st # "run" /\ UNCHANGED lvars
LNext == Top \/ InString \/ Escape \/ InTemplate \/ InNumber \/ InIdent \/ InRegex \/ RegexFlags \/ LTerminated
LSpec == LInit /\ [][LNext]_lvars

LDone == st # "run"
LTypeOK == /\ st \in {"run", "ok", "error"}
           /\ i \in 1..(Len(chars) + 1)
           /\ mode \in {"top", "dq", "sq", "esc", "tesc", "tpl", "num", "id", "re", "reflags"}
\* a value is being collected only inside a token
BufDiscipline == (mode = "top" /\ st = "run") => buf = <<>>

(***************************************************************************)
(* Property keys: the key a token denotes (13.2.5.5: a NumericLiteral key   *)
(* is ToString of its value) and the canonical numeric strings.            *)
(***************************************************************************)
KeyOf(tok) == tok.v      \* num tokens carry the canonical spelling already (NumCanon)
=============================================================================
