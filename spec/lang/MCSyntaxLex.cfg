CONSTANT LexCases <- AllLexCases
INIT LInit
NEXT LNext
INVARIANT LTypeOK
INVARIANT BufDiscipline
INVARIANT LexExpect
INVARIANT LexEmit
CHECK_DEADLOCK TRUE
