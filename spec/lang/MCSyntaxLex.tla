---------------------------- MODULE MCSyntaxLex ----------------------------
(* Bounded universe of lexical cases for SyntaxLex.tla.  Each case is a     *)
(* character sequence, the token list it is meant to denote, and whether    *)
(* the declarative class rule says that it does (ok).  LexExpect checks the *)
(* rule against the lexer machine on every case; every finished case is     *)
(* emitted as a LEX line.                                                   *)
EXTENDS SyntaxLex, Json

StrAlpha == {"a", "-", "DQ", "SQ", "BS", "LF", "CR", "LS", "PS", "CTL", "HS"}
TplAlpha == {"a", "BT", "DOL", "LB", "BS", "CR", "LF", "HS"}
SeqsUpTo2(S) == {<<>>} \cup {<<c>> : c \in S} \cup {<<c, d>> : c \in S, d \in S}

Ctx(lit) == <<"x", "SP", "=", "SP">> \o lit \o <<";">>
CtxWant(tok) == <<Tk("id", <<"x">>), Tk("punct", "="), tok, Tk("punct", ";")>>
Case(tag, cs, want, ok, cmp) == [tag |-> tag, chars |-> cs, want |-> want, ok |-> ok, cmp |-> cmp]

StrCases(z) ==
    {Case("str-ref-dq", Ctx(SpellStr(v, "DQ")), CtxWant(Tk("str", v)), TRUE, "full") : v \in SeqsUpTo2(StrAlpha)}
    \cup {Case("str-ref-sq", Ctx(SpellStr(v, "SQ")), CtxWant(Tk("str", v)), TRUE, "full") : v \in SeqsUpTo2(StrAlpha)}
    \cup {Case("str-naive", Ctx(NaiveStr(v)), CtxWant(Tk("str", v)), PlainStr(v), "full") : v \in SeqsUpTo2(StrAlpha)}
TplCases(z) ==
    {Case("tpl-ref", Ctx(SpellTpl(v)), CtxWant(Tk("tpl", v)), TRUE, "full") : v \in SeqsUpTo2(TplAlpha)}
    \cup {Case("tpl-naive", Ctx(NaiveTpl(v)), CtxWant(Tk("tpl", v)), PlainTpl(v), "full") : v \in SeqsUpTo2(TplAlpha)}

\* numeric literals followed by a member access
NumSpellings == {<<"1">>, <<"0">>, <<"1", "0">>, <<"1", "DOT", "5">>, <<"1", "e", "1">>, <<"1", "DOT", "5", "e", "1">>, <<"0", "DOT", "5">>}
NeedsSep(s) == \A j \in 1..Len(s) : s[j] \notin {"DOT", "e"}       \* an integer spelling: `1.a` would read the dot
MemWant(s) == <<Tk("num", NumCanon(s)), Tk("punct", "DOT"), Tk("id", <<"a">>), Tk("punct", ";")>>
MemberCases(z) ==
    {Case("num-member-direct", s \o <<"DOT", "a", ";">>, MemWant(s), ~NeedsSep(s), "full") : s \in NumSpellings}
    \cup {Case("num-member-dotdot", s \o <<"DOT", "DOT", "a", ";">>, MemWant(s), NeedsSep(s), "full") : s \in NumSpellings}
    \cup {Case("num-member-space", s \o <<"SP", "DOT", "a", ";">>, MemWant(s), TRUE, "full") : s \in NumSpellings}
    \cup {Case("num-member-paren", <<"(">> \o s \o <<")", "DOT", "a", ";">>,
               <<Tk("punct", "(")>> \o <<Tk("num", NumCanon(s)), Tk("punct", ")")>> \o Tail(MemWant(s)), TRUE, "full") : s \in NumSpellings}
    \cup {Case("bigint", Ctx(s \o <<"n">>), CtxWant(Tk("big", s)), TRUE, "full") : s \in {<<"1">>, <<"1", "0">>, <<"0">>}}
    \cup {Case("num-then-ident", Ctx(s \o <<"a">>), CtxWant(Tk("num", NumCanon(s))), FALSE, "full") : s \in NumSpellings}

\* regular expression bodies
ReBodies == {<<"a">>, <<"BS", "SL">>, <<"LK", "SL", "RK">>, <<"BS", "RK">>, <<"LK", "BS", "RK", "RK">>, <<"a", "BS", "SL", "a">>,
             <<"LK", "a", "RK", "a">>, <<"BS", "BS">>, <<"BS", "LK">>}
ReBad == {<<"a", "SL", "a">>, <<"LK", "a">>, <<"a", "LF">>}
RegexCases(z) ==
    {Case("regex", Ctx(<<"SL">> \o b \o <<"SL", "g">>), CtxWant(Tk("regex", b \o <<"SL", "g">>)), TRUE, "full") : b \in ReBodies}
    \cup {Case("regex-bad", Ctx(<<"SL">> \o b \o <<"SL", "g">>), CtxWant(Tk("regex", b \o <<"SL", "g">>)), FALSE, "full") : b \in ReBad}
    \cup {Case("division", <<"a", "SP", "SL", "SP", "b", "SP", "SL", "SP", "g", ";">>,
               <<Tk("id", <<"a">>), Tk("punct", "SL"), Tk("id", <<"b">>), Tk("punct", "SL"), Tk("id", <<"g">>), Tk("punct", ";")>>, TRUE, "full")}

\* identifier names: unicode escapes, keywords as property names
IdCases(z) ==
    {Case("ident-escape", Ctx(<<"BS", "u", "U0061", "b">>), CtxWant(Tk("id", <<"a", "b">>)), TRUE, "full"),
     Case("ident-escape-mid", Ctx(<<"b", "BS", "u", "U0061">>), CtxWant(Tk("id", <<"b", "a">>)), TRUE, "full"),
     Case("ident-escape-bad", Ctx(<<"BS", "u", "U0022">>), CtxWant(Tk("id", <<"DQ">>)), FALSE, "full"),
     Case("keyword-member", <<"x", "DOT", "i", "f", ";">>, <<Tk("id", <<"x">>), Tk("punct", "DOT"), Tk("id", <<"i", "f">>), Tk("punct", ";")>>, TRUE, "full"),
     Case("keyword-member-escape", <<"x", "DOT", "BS", "u", "U0061", "f", ";">>, <<Tk("id", <<"x">>), Tk("punct", "DOT"), Tk("id", <<"a", "f">>), Tk("punct", ";")>>, TRUE, "full")}

\* property keys by class: value, bare spelling, whether the bare spelling denotes the key
KeyCtx(k) == <<"x", "SP", "=", "SP", "LB">> \o k \o <<":", "SP", "1", "RB", ";">>
KeyWant(v) == <<Tk("id", <<"x">>), Tk("punct", "="), Tk("punct", "LB"), Tk("key", v), Tk("punct", ":"), Tk("num", <<"1">>), Tk("punct", "RB"), Tk("punct", ";")>>
Keys == {[cls |-> "identifier-name", v |-> <<"a", "b">>, bare |-> TRUE],
         [cls |-> "reserved-word", v |-> <<"i", "f">>, bare |-> TRUE],
         [cls |-> "needs-quotes", v |-> <<"a", "-", "b">>, bare |-> FALSE],
         [cls |-> "needs-quotes-space", v |-> <<"a", "SP", "b">>, bare |-> FALSE],
         [cls |-> "needs-quotes-empty", v |-> <<>>, bare |-> FALSE],
         [cls |-> "needs-quotes-digit-start", v |-> <<"1", "a">>, bare |-> FALSE],
         [cls |-> "canonical-numeric", v |-> <<"1">>, bare |-> TRUE],
         [cls |-> "canonical-numeric-fraction", v |-> <<"1", "DOT", "5">>, bare |-> TRUE],
         [cls |-> "canonical-numeric-zero", v |-> <<"0">>, bare |-> TRUE],
         [cls |-> "non-canonical-numeric-leading-zero", v |-> <<"0", "1">>, bare |-> FALSE],
         [cls |-> "non-canonical-numeric-trailing-zero", v |-> <<"1", "DOT", "0">>, bare |-> FALSE],
         [cls |-> "non-canonical-numeric-trailing-dot", v |-> <<"1", "DOT">>, bare |-> FALSE]}
KeyCases(z) ==
    {Case("key-bare " \o k.cls, KeyCtx(k.v), KeyWant(k.v), k.bare, "values") : k \in Keys}
    \cup {Case("key-quoted " \o k.cls, KeyCtx(SpellStr(k.v, "DQ")), KeyWant(k.v), TRUE, "values") : k \in Keys}
    \cup {Case("key-computed " \o k.cls, KeyCtx(<<"LK">> \o SpellStr(k.v, "SQ") \o <<"RK">>),
               <<Tk("id", <<"x">>), Tk("punct", "="), Tk("punct", "LB"), Tk("punct", "LK"), Tk("str", k.v), Tk("punct", "RK"),
                 Tk("punct", ":"), Tk("num", <<"1">>), Tk("punct", "RB"), Tk("punct", ";")>>, TRUE, "full") : k \in Keys}

AllLexCases == StrCases(0) \cup TplCases(0) \cup MemberCases(0) \cup RegexCases(0) \cup IdCases(0) \cup KeyCases(0)

Vals(ts) == [j \in 1..Len(ts) |-> ts[j].v]
Same(got, want, cmp) == IF cmp = "full" THEN got = want ELSE Len(got) = Len(want) /\ Vals(got) = Vals(want)
LexExpect == LDone => (((st = "ok") /\ Same(out, lc.want, lc.cmp)) <=> lc.ok)
LexEmit == LDone => PrintT(<<"LEX", ToJson([tag |-> lc.tag, chars |-> lc.chars, st |-> st, out |-> out, ok |-> lc.ok])>>)
=============================================================================
