----------------------------- MODULE SyntaxLexRun -----------------------------
(* The lexer of SyntaxLex.tla run on character sequences read from a file (one  *)
(* JSON object {"id", "chars"} per line; path in the environment variable       *)
(* C19_CHARS): the implementation's printed text mapped to the abstract          *)
(* alphabet.  Every result is emitted as a LEXRUN line.                          *)
EXTENDS SyntaxLex, Json, IOUtils

LInputs == ndJsonDeserialize(IOEnv.C19_CHARS)
LRunCases == {[tag |-> "run", id |-> LInputs[j].id, chars |-> LInputs[j].chars] : j \in 1..Len(LInputs)}
LEmitRun == LDone => PrintT(<<"LEXRUN", ToJson([id |-> lc.id, st |-> st, out |-> out])>>)
=============================================================================
