CONSTANTS
  Setups <- SelR
  PathOps <- LeafR
  LeafOps <- LeafR
  MaxDepth = 12
  MaxBufs = 4
  MaxViews = 16
  MaxDvs = 4
  EmitEdges = FALSE
INIT Init
NEXT NextRandom
INVARIANT TypeOK
INVARIANT InBounds
INVARIANT ViewsWithin
INVARIANT DvWithin
INVARIANT OobReportsZero
INVARIANT DetachedEmpty
INVARIANT MaxRespected
INVARIANT EmitReplay
CHECK_DEADLOCK FALSE
