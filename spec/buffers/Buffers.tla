------------------------------ MODULE Buffers ------------------------------
(***************************************************************************)
(* Reference model of ArrayBuffer / SharedArrayBuffer, the integer-indexed *)
(* exotic objects (typed arrays) and DataView of ECMA-262 (2025 text with  *)
(* resizable buffers and ArrayBuffer.prototype.transfer).                  *)
(*                                                                         *)
(* State: the buffers (byte sequence, maximum length or Fixed, shared,     *)
(* detached), the typed-array views (buffer, element type, byte offset,    *)
(* array length or Auto = length-tracking) and the DataViews.  Every       *)
(* operation of the API is one pure operator  s, op |-> [s, r, tags, en]   *)
(* (new state, result, non-triviality tags, enabledness) transcribing the  *)
(* numbered steps of the standard, wrapped by one action each.  Every read *)
(* and write of a byte goes through RdBytes/WrBytes, which turn an index   *)
(* outside 1..Len(bytes) into Poison: the invariant InBounds says that no  *)
(* operator of the standard, as transcribed, ever touches a byte outside   *)
(* the buffer.                                                             *)
(*                                                                         *)
(* Numbers are a 32-bit-safe symbolic domain (TLC integers are Java ints): *)
(*   [k |-> "fin", i, f, w]  =  i + f/4 + W(w)   (f in 0..3; W(w) = 0 or a *)
(*        symbolic non-zero multiple of 2^32 with |W| > |i|, then f = 0)   *)
(*   NaN, +Infinity, -Infinity, -0, undefined                              *)
(* which is closed under every integer element conversion: a Uint32 value  *)
(* >= 2^31 is FinW(v - 2^32, "p32").                                       *)
(***************************************************************************)
EXTENDS Integers, Sequences, FiniteSets, TLC, Json

CONSTANTS Setups,     \* catalogue of initial configurations (buffers, views, DataViews)
          PathOps,    \* operations that may extend a history
          LeafOps,    \* operations tried in every reachable state; only those in PathOps are extended
          MaxDepth,   \* at most MaxDepth operations extend a history
          MaxBufs, MaxViews, MaxDvs,   \* how many created objects are retained
          EmitEdges   \* TRUE: one EDGE line per transition; FALSE: one REPLAY line per history of MaxDepth

VARIABLES bufs, views, dviews, hist, depth
vars == <<bufs, views, dviews, hist, depth>>

Fixed == -1      \* max of a fixed-length buffer
Auto  == -1      \* [[ArrayLength]] / [[ByteLength]] = auto (length-tracking)

Min(a, b) == IF a < b THEN a ELSE b
Max(a, b) == IF a > b THEN a ELSE b

-----------------------------------------------------------------------------
(* Element types (ECMA-262 Table 70)                                         *)

IntTypes  == {"Int8", "Uint8", "Uint8C", "Int16", "Uint16", "Int32", "Uint32"}
RawTypes  == {"Float16", "Float32", "Float64", "BigInt64", "BigUint64"}  \* modelled at byte level only
ElemTypes == IntTypes \cup RawTypes

Size(t) == CASE t \in {"Int8", "Uint8", "Uint8C"}       -> 1
             [] t \in {"Int16", "Uint16", "Float16"}   -> 2
             [] t \in {"Int32", "Uint32", "Float32"}   -> 4
             [] OTHER                                  -> 8
ContentType(t) == IF t \in {"BigInt64", "BigUint64"} THEN "BigInt" ELSE "Number"
IsUnsigned(t) == t \in {"Uint8", "Uint8C", "Uint16", "Uint32"}

-----------------------------------------------------------------------------
(* The numeric domain                                                        *)

NaN     == [k |-> "nan"]
PInf    == [k |-> "pinf"]
NInf    == [k |-> "ninf"]
NegZero == [k |-> "nz"]
Undef   == [k |-> "undef"]
Poison  == [k |-> "poison"]          \* result of an out-of-bounds byte access: never allowed
Fin(i)     == [k |-> "fin", i |-> i, f |-> 0, w |-> "0"]
FinQ(i, f) == [k |-> "fin", i |-> i, f |-> f, w |-> "0"]     \* i + f/4
FinW(i, w) == [k |-> "fin", i |-> i, f |-> 0, w |-> w]       \* i + W(w)

\* symbolic multiples of 2^32 (the renderer owns the exact values and checks that they are exact doubles)
PosBig  == {"p32", "p40"}                  \* 2^32 <= W <= 2^53 - 1
PosHuge == {"p53", "p63", "p64", "e38"}   \* W > 2^53 - 1
NegBig  == {"n32", "n40"}
NegHuge == {"n53", "n63", "n64", "ne38"}
WClass(w) == CASE w \in PosBig -> "pbig" [] w \in PosHuge -> "phuge" [] w \in NegBig -> "nbig" [] OTHER -> "nhuge"

ToNumber(x) == IF x.k = "undef" THEN NaN ELSE x

\* truncate(x) modulo 2^32 as a representative in the Int range (W(w) is a multiple of 2^32)
Trunc(x) == IF x.w = "0" /\ x.i < 0 /\ x.f > 0 THEN x.i + 1 ELSE x.i

\* 7.1.5 ToIntegerOrInfinity, on extended integers [s, v]
XInt(v) == [s |-> "int", v |-> v]
ToIntOrInf(x0) ==
  LET x == ToNumber(x0) IN
  CASE x.k \in {"nan", "nz"} -> XInt(0)
    [] x.k = "pinf" -> [s |-> "pinf", v |-> 0]
    [] x.k = "ninf" -> [s |-> "ninf", v |-> 0]
    [] OTHER -> IF x.w = "0" THEN XInt(Trunc(x)) ELSE [s |-> WClass(x.w), v |-> 0]

\* 7.1.22 ToIndex: undefined -> 0; outside 0 .. 2^53 - 1 -> RangeError (s = "err")
ToIndex(x) ==
  IF x.k = "undef" THEN XInt(0)
  ELSE LET r == ToIntOrInf(x) IN
       IF r.s = "pbig" \/ (r.s = "int" /\ r.v >= 0) THEN r ELSE [s |-> "err", v |-> 0]

\* relative index clamping used by slice/subarray/fill/copyWithin (len is a small natural)
RelIdx(x, len) ==
  LET r == ToIntOrInf(x) IN
  CASE r.s \in {"ninf", "nbig", "nhuge"} -> 0
    [] r.s \in {"pinf", "pbig", "phuge"} -> len
    [] OTHER -> IF r.v < 0 THEN Max(len + r.v, 0) ELSE Min(r.v, len)
RelEnd(x, len) == IF x.k = "undef" THEN len ELSE RelIdx(x, len)

-----------------------------------------------------------------------------
(* 7.1.6 - 7.1.12 integer conversions.  `int` stands for truncate(number)    *)
(* modulo 2^32; every modulus below divides 2^32, so the results are exact.  *)

ToUint8Clamp(x) ==
  CASE x.k = "nan" -> Fin(0)
    [] x.k \in {"nz", "ninf"} -> Fin(0)
    [] x.k = "pinf" -> Fin(255)
    [] x.w # "0" -> IF WClass(x.w) \in {"pbig", "phuge"} THEN Fin(255) ELSE Fin(0)
    [] x.i < 0 \/ (x.i = 0 /\ x.f = 0) -> Fin(0)             \* number <= 0
    [] x.i >= 255 -> Fin(255)                                 \* number >= 255
    [] x.f > 2 -> Fin(x.i + 1)                                \* f + 0.5 < number
    [] x.f < 2 -> Fin(x.i)                                    \* number < f + 0.5
    [] OTHER -> IF x.i % 2 = 1 THEN Fin(x.i + 1) ELSE Fin(x.i)  \* tie: to even

ConvFinite(t, x) ==
  LET int == Trunc(x) IN
  CASE t = "Int8"   -> LET m == int % 256 IN Fin(IF m >= 128 THEN m - 256 ELSE m)
    [] t = "Uint8"  -> Fin(int % 256)
    [] t = "Int16"  -> LET m == int % 65536 IN Fin(IF m >= 32768 THEN m - 65536 ELSE m)
    [] t = "Uint16" -> Fin(int % 65536)
    [] t = "Int32"  -> Fin(int)
    [] t = "Uint32" -> IF int >= 0 THEN Fin(int) ELSE FinW(int, "p32")

Conv(t, x0) ==
  LET x == ToNumber(x0) IN
  IF t = "Uint8C" THEN ToUint8Clamp(x)
  ELSE IF x.k \in {"nan", "nz", "pinf", "ninf"} THEN Fin(0)
  ELSE ConvFinite(t, x)

Pow256(j) == CASE j = 0 -> 1 [] j = 1 -> 256 [] j = 2 -> 65536 [] OTHER -> 16777216
Reverse(s) == [j \in 1..Len(s) |-> s[Len(s) + 1 - j]]

\* 25.1.3.15 NumericToRawBytes for the integer types: n-byte binary / two's complement encoding
NumericToRawBytes(t, v, le) ==
  LET c == Conv(t, v)
      raw == [j \in 1..Size(t) |-> (c.i \div Pow256(j - 1)) % 256]    \* floor division = two's complement
  IN IF le THEN raw ELSE Reverse(raw)

\* 25.1.3.13 RawBytesToNumeric for the integer types
RawBytesToNumeric(t, raw0, le) ==
  LET raw == IF le THEN raw0 ELSE Reverse(raw0)
      n == Size(t)
  IN CASE n = 1 -> Fin(IF IsUnsigned(t) \/ raw[1] < 128 THEN raw[1] ELSE raw[1] - 256)
       [] n = 2 -> LET u == raw[1] + 256 * raw[2] IN Fin(IF IsUnsigned(t) \/ u < 32768 THEN u ELSE u - 65536)
       [] OTHER -> LET lo == raw[1] + 256 * raw[2] + 65536 * raw[3]
                       s  == lo + (IF raw[4] >= 128 THEN raw[4] - 256 ELSE raw[4]) * 16777216
                   IN IF IsUnsigned(t) /\ s < 0 THEN FinW(s, "p32") ELSE Fin(s)

-----------------------------------------------------------------------------
(* Guarded byte access: the only places where `bytes` is indexed             *)

PoisonByte == 999
RdBytes(bytes, idx, n) ==        \* idx is 0-based
  IF idx >= 0 /\ idx + n <= Len(bytes) THEN [j \in 1..n |-> bytes[idx + j]]
  ELSE [j \in 1..n |-> PoisonByte]
WrBytes(bytes, idx, raw) ==
  IF idx >= 0 /\ idx + Len(raw) <= Len(bytes)
  THEN [j \in 1..Len(bytes) |-> IF j > idx /\ j <= idx + Len(raw) THEN raw[j - idx] ELSE bytes[j]]
  ELSE [j \in 1..Len(bytes) + 1 |-> PoisonByte]
Clean(raw) == \A j \in 1..Len(raw) : raw[j] \in 0..255

\* 25.1.3.16 GetValueFromBuffer / 25.1.3.18 SetValueInBuffer
GetValueFromBuffer(bytes, idx, t, le) ==
  LET raw == RdBytes(bytes, idx, Size(t)) IN IF Clean(raw) THEN RawBytesToNumeric(t, raw, le) ELSE Poison
SetValueInBuffer(bytes, idx, t, v, le) == WrBytes(bytes, idx, NumericToRawBytes(t, v, le))

Zeros(n) == [j \in 1..n |-> 0]
\* first n bytes of `bytes`, zero-extended (CopyDataBlockBytes into a fresh zeroed block)
Refit(bytes, n) == [j \in 1..n |-> IF j <= Len(bytes) THEN bytes[j] ELSE 0]

-----------------------------------------------------------------------------
(* Buffer and view records                                                   *)

Buf(bytes, max, sh) == [bytes |-> bytes, max |-> max, sh |-> sh, det |-> FALSE, rz |-> FALSE]
View(b, t, off, len) == [b |-> b, t |-> t, off |-> off, len |-> len]
DView(b, off, len) == [b |-> b, off |-> off, len |-> len]

\* 10.4.5.13 IsTypedArrayOutOfBounds
TAOutOfBounds(bf, v) ==
  \/ bf.det
  \/ LET bl == Len(bf.bytes)
         end == IF v.len = Auto THEN bl ELSE v.off + v.len * Size(v.t)
     IN v.off > bl \/ end > bl
\* 10.4.5.14 TypedArrayLength (not out of bounds)
TALength(bf, v) == IF v.len # Auto THEN v.len ELSE (Len(bf.bytes) - v.off) \div Size(v.t)
\* 10.4.5.12 TypedArrayByteLength
TAByteLength(bf, v) == IF TAOutOfBounds(bf, v) THEN 0 ELSE TALength(bf, v) * Size(v.t)
\* getters 23.2.3.{18,3,4}: length, byteLength, byteOffset
LengthGetter(bf, v)     == IF TAOutOfBounds(bf, v) THEN 0 ELSE TALength(bf, v)
ByteLengthGetter(bf, v) == TAByteLength(bf, v)
ByteOffsetGetter(bf, v) == IF TAOutOfBounds(bf, v) THEN 0 ELSE v.off

\* 25.3.1.3 IsViewOutOfBounds, 25.3.1.2 GetViewByteLength
DvOutOfBounds(bf, d) ==
  \/ bf.det
  \/ LET bl == Len(bf.bytes)
         end == IF d.len = Auto THEN bl ELSE d.off + d.len
     IN d.off > bl \/ end > bl
DvByteLength(bf, d) == IF d.len # Auto THEN d.len ELSE Len(bf.bytes) - d.off

-----------------------------------------------------------------------------
(* Index keys of element access.  ic: "m1" -1, "z" 0, "last", "len" (last+1),*)
(* "big" 2^32, "negz" the key "-0", "frac" 0.5; resolved against the current *)
(* length when the operation is applied.                                     *)

ResolveIdx(ic, len) ==
  CASE ic = "m1" -> -1 [] ic = "z" -> 0 [] ic = "last" -> len - 1 [] ic = "len" -> len
    [] ic = "mid" -> len \div 2 [] OTHER -> 0
\* 10.4.5.16 IsValidIntegerIndex
ValidIndex(bf, v, ic, n) ==
  /\ ~bf.det
  /\ ic \notin {"negz", "frac", "big"}     \* -0, non-integral; 2^32 is >= every length
  /\ ~TAOutOfBounds(bf, v)
  /\ n >= 0 /\ n < TALength(bf, v)

-----------------------------------------------------------------------------
(* Results                                                                   *)

\* compact encoding of numbers in observations: a plain integer, or a string
EncNum(x) ==
  CASE x.k = "fin" -> IF x.w = "0" /\ x.f = 0 THEN x.i ELSE x.w \o ":" \o ToString(x.i) \o ":" \o ToString(x.f)
    [] OTHER -> x.k

RUndef      == [k |-> "u"]
RNum(x)     == [k |-> "n", x |-> x]
RThrow(c)   == [k |-> "t", c |-> c]
RSelf       == [k |-> "self"]                       \* the method returned its receiver
TypeErr     == RThrow("TypeError")
RangeErr    == RThrow("RangeError")

Ret(s, r, tags)  == [s |-> s, r |-> r, tags |-> tags, en |-> TRUE, aux |-> <<>>]
RetA(s, r, tags, aux) == [s |-> s, r |-> r, tags |-> tags, en |-> TRUE, aux |-> aux]   \* aux: converted source values
Disabled(s)      == [s |-> s, r |-> RUndef, tags |-> {}, en |-> FALSE, aux |-> <<>>]

Elems(t, bytes) ==      \* elements of a typed array of type t over exactly these bytes
  IF t \in IntTypes
  THEN [j \in 1..(Len(bytes) \div Size(t)) |-> GetValueFromBuffer(bytes, (j - 1) * Size(t), t, TRUE)]
  ELSE <<>>
RArr(t, bytes) == [k |-> "a", t |-> t, bytes |-> bytes, e |-> Elems(t, bytes)]

ViewTags(bf, v) ==
  (IF bf.det THEN {"det"} ELSE IF TAOutOfBounds(bf, v) THEN {"oob"} ELSE {}) \cup (IF bf.rz THEN {"rz"} ELSE {})
DvTags(bf, d) ==
  (IF bf.det THEN {"det"} ELSE IF DvOutOfBounds(bf, d) THEN {"oob"} ELSE {}) \cup (IF bf.rz THEN {"rz"} ELSE {})

SetBuf(s, i, bf)  == [s EXCEPT !.bufs[i] = bf]
SetBytes(s, i, b) == [s EXCEPT !.bufs[i].bytes = b]

\* keep a created buffer / view / DataView if the operation asks for it (op.keep) and there is room; slot 0 = not kept
KeepBuf(s, bf, keep) == IF keep /\ Len(s.bufs) < MaxBufs THEN [s |-> [s EXCEPT !.bufs = Append(@, bf)], slot |-> Len(s.bufs) + 1]
                  ELSE [s |-> s, slot |-> 0]
RBuf(bf, slot) == [k |-> "b", slot |-> slot, bytes |-> bf.bytes, max |-> bf.max, sh |-> bf.sh]

-----------------------------------------------------------------------------
(* 25.1.6.6 ArrayBuffer.prototype.resize ( newLength )                       *)

DoResize(s, op) ==
  IF op.b > Len(s.bufs) THEN Disabled(s) ELSE
  LET bf == s.bufs[op.b] n == ToIndex(op.n) IN
  IF bf.max = Fixed \/ bf.sh THEN Ret(s, TypeErr, {})          \* steps 2-3 (a SharedArrayBuffer has no `resize`)
  ELSE IF n.s = "err" THEN Ret(s, RangeErr, {})                 \* step 4
  ELSE IF bf.det THEN Ret(s, TypeErr, {"det"})                  \* step 5
  ELSE IF n.s # "int" \/ n.v > bf.max THEN Ret(s, RangeErr, {}) \* step 6
  ELSE Ret(SetBuf(s, op.b, [bf EXCEPT !.bytes = Refit(bf.bytes, n.v), !.rz = @ \/ n.v # Len(bf.bytes)]), RUndef, {})

(* 25.2.5.3 SharedArrayBuffer.prototype.grow ( newLength )                   *)
DoGrow(s, op) ==
  IF op.b > Len(s.bufs) THEN Disabled(s) ELSE
  LET bf == s.bufs[op.b] n == ToIndex(op.n) IN
  IF bf.max = Fixed \/ ~bf.sh THEN Ret(s, TypeErr, {})          \* an ArrayBuffer has no `grow`
  ELSE IF n.s = "err" THEN Ret(s, RangeErr, {})
  ELSE IF n.s # "int" \/ n.v > bf.max THEN Ret(s, RangeErr, {})
  ELSE IF n.v < Len(bf.bytes) THEN Ret(s, RangeErr, {})
  ELSE Ret(SetBuf(s, op.b, [bf EXCEPT !.bytes = Refit(bf.bytes, n.v), !.rz = @ \/ n.v # Len(bf.bytes)]), RUndef, {})

(* 25.1.6.8/9 transfer / transferToFixedLength = ArrayBufferCopyAndDetach    *)
DoTransfer(s, op) ==
  IF op.b > Len(s.bufs) THEN Disabled(s) ELSE
  LET bf == s.bufs[op.b]
      n == IF op.n.k = "undef" THEN XInt(Len(bf.bytes)) ELSE ToIndex(op.n)
      newMax == IF ~op.fx /\ bf.max # Fixed THEN bf.max ELSE Fixed
  IN
  IF bf.sh THEN Ret(s, TypeErr, {})                             \* step 2
  ELSE IF n.s = "err" THEN Ret(s, RangeErr, {})                 \* step 4
  ELSE IF bf.det THEN Ret(s, TypeErr, {"det"})                  \* step 5
  ELSE IF n.s # "int" /\ newMax = Fixed THEN Disabled(s)        \* a 4 GiB allocation: outside the model
  ELSE IF n.s # "int" \/ (newMax # Fixed /\ n.v > newMax) THEN Ret(s, RangeErr, {})   \* AllocateArrayBuffer
  ELSE LET nb == Buf(Refit(bf.bytes, n.v), newMax, FALSE)
           s1 == SetBuf(s, op.b, [bf EXCEPT !.bytes = <<>>, !.det = TRUE])           \* DetachArrayBuffer
           kp == KeepBuf(s1, nb, op.keep)
       IN Ret(kp.s, RBuf(nb, kp.slot), {"transfer"})

(* host DetachArrayBuffer (test262 $262.detachArrayBuffer)                   *)
DoDetach(s, op) ==     \* the host function returns null
  IF op.b > Len(s.bufs) THEN Disabled(s) ELSE
  LET bf == s.bufs[op.b] IN
  IF bf.sh \/ bf.det THEN Disabled(s)
  ELSE Ret(SetBuf(s, op.b, [bf EXCEPT !.bytes = <<>>, !.det = TRUE]), [k |-> "null"], {"transfer"})

-----------------------------------------------------------------------------
(* Arguments whose conversion has a side effect.  An operation may carry     *)
(*   ev = [pos, k, b, n (, j)] :                                             *)
(* the argument at position pos (element j of the list for pos = "vals") is  *)
(* an object whose valueOf first resizes buffer b to n bytes (k = "resize")  *)
(* or detaches it (k = "detach") and then returns the number written in the  *)
(* operation.  The standard converts arguments at fixed points and           *)
(* re-validates the view afterwards; After(s, op, pos) is the state after    *)
(* the conversion of the argument at pos.                                    *)

HasEv(op) == "ev" \in DOMAIN op
EvAt(op, pos) == HasEv(op) /\ op.ev.pos = pos
Evil(s, op) ==
  LET e == op.ev
      r == IF e.k = "resize" THEN DoResize(s, [k |-> "resize", b |-> e.b, n |-> Fin(e.n)])
           ELSE DoDetach(s, [k |-> "detach", b |-> e.b])
  IN [s |-> r.s, ok |-> r.en /\ r.r.k \in {"u", "null"}]
After(s, op, pos) == IF EvAt(op, pos) THEN Evil(s, op).s ELSE s
AfterAll(s, op) == IF HasEv(op) THEN Evil(s, op).s ELSE s
\* the inner call must succeed where it happens (content does not matter for that): otherwise outside the model
EvOK(s, op) == ~HasEv(op) \/ Evil(s, op).ok
EvTags(op) == IF HasEv(op) THEN {"ev", "rz"} ELSE {}

(* 25.1.6.7 ArrayBuffer.prototype.slice / 25.2.5.6 SharedArrayBuffer.prototype.slice *)
DoBSlice(s, op) ==
  IF op.b > Len(s.bufs) \/ ~EvOK(s, op) THEN Disabled(s) ELSE
  LET bf == s.bufs[op.b] IN
  IF bf.det THEN Ret(s, TypeErr, {"det"})                                      \* step 4
  ELSE LET len == Len(bf.bytes)                                                \* step 5
           first == RelIdx(op.a1, len)                                         \* steps 6-9
           final == RelEnd(op.a2, len)                                         \* steps 10-13
           newLen == Max(final - first, 0)
           s1 == AfterAll(s, op)                                               \* the conversions are over
           bf1 == s1.bufs[op.b]
       IN IF bf1.det THEN Ret(s1, TypeErr, {"det"} \cup EvTags(op))            \* step 23
          ELSE LET cur == Len(bf1.bytes)                                       \* steps 26-27
                   cnt == IF first < cur THEN Min(newLen, cur - first) ELSE 0
                   nb == Buf(Refit(RdBytes(bf1.bytes, first, cnt), newLen), Fixed, bf.sh)
                   kp == KeepBuf(s1, nb, op.keep)
               IN Ret(kp.s, RBuf(nb, kp.slot), (IF bf.rz THEN {"rz"} ELSE {}) \cup EvTags(op))

-----------------------------------------------------------------------------
(* 23.2.5.1.3 InitializeTypedArrayFromArrayBuffer; offset/length already     *)
(* converted by ToIndex (extended integers), length may be "undef"           *)

InitFromBuffer(bf, b, t, off, len, lenUndef) ==    \* -> [ok, c, v]
  LET sz == Size(t)
      bl == Len(bf.bytes)
      err(c) == [ok |-> FALSE, c |-> c, v |-> View(b, t, 0, 0), early |-> FALSE]
      early(c) == [ok |-> FALSE, c |-> c, v |-> View(b, t, 0, 0), early |-> TRUE]   \* before the length is converted
  IN
  IF off.s = "err" THEN early("RangeError")                                    \* step 2
  ELSE IF off.s = "int" /\ off.v % sz # 0 THEN early("RangeError")             \* step 3 (2^32, 2^40 are multiples)
  ELSE IF ~lenUndef /\ len.s = "err" THEN err("RangeError")                    \* step 5
  ELSE IF bf.det THEN err("TypeError")                                         \* step 6
  ELSE IF lenUndef /\ bf.max # Fixed THEN                                      \* step 8
       IF off.s # "int" \/ off.v > bl THEN err("RangeError")
       ELSE [ok |-> TRUE, c |-> "", v |-> View(b, t, off.v, Auto), early |-> FALSE]
  ELSE IF lenUndef THEN                                                        \* step 9.a
       IF bl % sz # 0 THEN err("RangeError")
       ELSE IF off.s # "int" \/ bl - off.v < 0 THEN err("RangeError")
       ELSE [ok |-> TRUE, c |-> "", v |-> View(b, t, off.v, (bl - off.v) \div sz), early |-> FALSE]
  ELSE IF off.s # "int" \/ len.s # "int" THEN err("RangeError")                \* step 9.b with a huge operand
  ELSE IF off.v + len.v * sz > bl THEN err("RangeError")
  ELSE [ok |-> TRUE, c |-> "", v |-> View(b, t, off.v, len.v), early |-> FALSE]

KeepView(s, v, keep) == IF keep /\ Len(s.views) < MaxViews THEN [s |-> [s EXCEPT !.views = Append(@, v)], slot |-> Len(s.views) + 1]
                  ELSE [s |-> s, slot |-> 0]
RView(bf, v, slot) == [k |-> "v", slot |-> slot, t |-> v.t, off |-> ByteOffsetGetter(bf, v),
                       len |-> LengthGetter(bf, v), blen |-> ByteLengthGetter(bf, v)]

\* new T(buffer, byteOffset, length)
DoNewView(s, op) ==
  IF op.b > Len(s.bufs) \/ ~EvOK(s, op) THEN Disabled(s) ELSE
  LET s1 == After(s, op, "off")                \* step 2 converts the offset, step 5 the length
      s2 == After(s1, op, "len")
      bf == s2.bufs[op.b]                      \* steps 6-9 read the buffer after both conversions
      r == InitFromBuffer(bf, op.b, op.t, ToIndex(op.off), ToIndex(op.len), op.len.k = "undef")
      tags == (IF bf.det THEN {"det"} ELSE {}) \cup (IF bf.rz THEN {"rz"} ELSE {}) \cup EvTags(op)
  IN IF ~r.ok THEN Ret(IF r.early THEN s1 ELSE s2, RThrow(r.c), tags)
     ELSE LET kp == KeepView(s2, r.v, op.keep) IN Ret(kp.s, RView(bf, r.v, kp.slot), tags)

(* 25.3.2.1 DataView ( buffer, byteOffset, byteLength )                      *)
DoNewDv(s, op) ==
  IF op.b > Len(s.bufs) \/ ~EvOK(s, op) THEN Disabled(s) ELSE
  LET off == ToIndex(op.off)
      s1 == After(s, op, "off")
      bf1 == s1.bufs[op.b]
      bl1 == Len(bf1.bytes)                                                    \* step 6
      lenUndef == op.len.k = "undef"
      len == ToIndex(op.len)
      s2 == After(s1, op, "len")
      bf2 == s2.bufs[op.b]
      bl2 == Len(bf2.bytes)                                                    \* step 14
      tags == (IF bf2.det THEN {"det"} ELSE {}) \cup EvTags(op)
      ok(d) == IF op.keep /\ Len(s2.dviews) < MaxDvs
               THEN Ret([s2 EXCEPT !.dviews = Append(@, d)],
                        [k |-> "d", slot |-> Len(s2.dviews) + 1, off |-> d.off, blen |-> DvByteLength(bf2, d)], tags)
               ELSE Ret(s2, [k |-> "d", slot |-> 0, off |-> d.off, blen |-> DvByteLength(bf2, d)], tags)
  IN
  IF off.s = "err" THEN Ret(s1, RangeErr, tags)                                \* step 4
  ELSE IF bf1.det THEN Ret(s1, TypeErr, tags)                                  \* step 5
  ELSE IF off.s # "int" \/ off.v > bl1 THEN Ret(s1, RangeErr, tags)            \* step 7
  ELSE IF lenUndef THEN ok(DView(op.b, off.v, IF bf1.max = Fixed THEN bl1 - off.v ELSE Auto))   \* step 9
  ELSE IF len.s = "err" THEN Ret(s2, RangeErr, tags)                           \* step 10.a
  ELSE IF len.s # "int" \/ off.v + len.v > bl1 THEN Ret(s2, RangeErr, tags)    \* step 10.b (length read at step 6)
  ELSE IF bf2.det THEN Ret(s2, TypeErr, tags)                                  \* step 13
  ELSE IF off.v > bl2 \/ off.v + len.v > bl2 THEN Ret(s2, RangeErr, tags)      \* steps 15-16
  ELSE ok(DView(op.b, off.v, len.v))

-----------------------------------------------------------------------------
(* 10.4.5.17/18 TypedArrayGetElement / TypedArraySetElement                  *)

DoGet(s, op) ==
  IF op.v > Len(s.views) THEN Disabled(s) ELSE
  LET v == s.views[op.v] bf == s.bufs[v.b] IN
  IF v.t \notin IntTypes THEN Disabled(s) ELSE
  LET n == ResolveIdx(op.ic, LengthGetter(bf, v)) IN
  IF ValidIndex(bf, v, op.ic, n)
  THEN Ret(s, RNum(GetValueFromBuffer(bf.bytes, n * Size(v.t) + v.off, v.t, TRUE)), ViewTags(bf, v))
  ELSE Ret(s, RUndef, ViewTags(bf, v))

DoSet(s, op) ==
  IF op.v > Len(s.views) \/ ~EvOK(s, op) THEN Disabled(s) ELSE
  LET v == s.views[op.v] IN
  IF v.t \notin IntTypes THEN Disabled(s) ELSE
  LET n == ResolveIdx(op.ic, LengthGetter(s.bufs[v.b], v))      \* the key is fixed before the call
      s1 == After(s, op, "val")                                  \* step 1-2: ToNumber(value) comes first
      bf == s1.bufs[v.b]
      tags == ViewTags(bf, v) \cup EvTags(op)
  IN IF ValidIndex(bf, v, op.ic, n)                               \* step 3: then the index is validated
     THEN Ret(SetBytes(s1, v.b, SetValueInBuffer(bf.bytes, n * Size(v.t) + v.off, v.t, op.val, TRUE)), RUndef, tags)
     ELSE Ret(s1, RUndef, tags)

\* bit-pattern round trip through a float / BigInt view:  V[j] = V[i]  (both valid; the pattern is not a NaN)
IsNaNPattern(t, raw) ==
  CASE t = "Float16" -> (raw[2] \div 4) % 32 = 31 /\ ((raw[2] % 4) # 0 \/ raw[1] # 0)
    [] t = "Float32" -> (raw[4] % 128) * 2 + (raw[3] \div 128) = 255 /\ ((raw[3] % 128) # 0 \/ raw[2] # 0 \/ raw[1] # 0)
    [] t = "Float64" -> (raw[8] % 128) * 16 + (raw[7] \div 16) = 2047
                        /\ ((raw[7] % 16) # 0 \/ \E j \in 1..6 : raw[j] # 0)
    [] OTHER -> FALSE
DoFCopy(s, op) ==
  IF op.v > Len(s.views) THEN Disabled(s) ELSE
  LET v == s.views[op.v] bf == s.bufs[v.b] sz == Size(v.t) IN
  IF v.t \notin RawTypes \/ TAOutOfBounds(bf, v) THEN Disabled(s) ELSE
  LET len == TALength(bf, v)
      i == ResolveIdx(op.ic, len) j == ResolveIdx(op.jc, len) IN
  IF ~(i >= 0 /\ i < len /\ j >= 0 /\ j < len) THEN Disabled(s) ELSE
  LET raw == RdBytes(bf.bytes, i * sz + v.off, sz) IN
  IF IsNaNPattern(v.t, raw) THEN Disabled(s)
  ELSE Ret(SetBytes(s, v.b, WrBytes(bf.bytes, j * sz + v.off, raw)), RUndef, ViewTags(bf, v) \cup {"raw"})

-----------------------------------------------------------------------------
(* 23.2.3.9 %TypedArray%.prototype.fill ( value [ , start [ , end ] ] )      *)

RECURSIVE FillFrom(_, _, _, _, _)
FillFrom(bytes, v, k, end, val) ==
  IF k >= end THEN bytes
  ELSE FillFrom(SetValueInBuffer(bytes, k * Size(v.t) + v.off, v.t, val, TRUE), v, k + 1, end, val)

DoFill(s, op) ==
  IF op.v > Len(s.views) \/ ~EvOK(s, op) THEN Disabled(s) ELSE
  LET v == s.views[op.v] bf == s.bufs[v.b] IN
  IF v.t \notin IntTypes THEN Disabled(s)
  ELSE IF TAOutOfBounds(bf, v) THEN Ret(s, TypeErr, ViewTags(bf, v))           \* step 2 ValidateTypedArray
  ELSE LET len == TALength(bf, v)                                              \* step 3
           k == RelIdx(op.a1, len)                                             \* steps 6-8 (old length)
           end == RelEnd(op.a2, len)                                           \* steps 9-11
           s1 == AfterAll(s, op)                                               \* value, start, end are converted
           bf1 == s1.bufs[v.b]
           tags == ViewTags(bf, v) \cup ViewTags(bf1, v) \cup EvTags(op)
       IN IF TAOutOfBounds(bf1, v) THEN Ret(s1, TypeErr, tags)                  \* steps 12-13
          ELSE Ret(SetBytes(s1, v.b, FillFrom(bf1.bytes, v, k, Min(end, TALength(bf1, v)), op.val)), RSelf, tags)   \* 14-16

(* 23.2.3.6 %TypedArray%.prototype.copyWithin ( target, start [ , end ] )    *)
RECURSIVE CwLoop(_, _, _, _, _, _)
CwLoop(bytes, from, to, dir, cnt, limit) ==      \* step 17.n, byte by byte
  IF cnt <= 0 THEN bytes
  ELSE CwLoop(IF from < limit /\ to < limit THEN WrBytes(bytes, to, RdBytes(bytes, from, 1)) ELSE bytes,
              from + dir, to + dir, dir, cnt - 1, limit)

DoCopyWithin(s, op) ==
  IF op.v > Len(s.views) \/ ~EvOK(s, op) THEN Disabled(s) ELSE
  LET v == s.views[op.v] bf == s.bufs[v.b] sz == Size(v.t) IN
  IF TAOutOfBounds(bf, v) THEN Ret(s, TypeErr, ViewTags(bf, v))                \* step 2
  ELSE LET len == TALength(bf, v)
           to == RelIdx(op.a1, len)
           from == RelIdx(op.a2, len)
           final == RelEnd(op.a3, len)
           count == Min(final - from, len - to)                                \* step 16
           s1 == AfterAll(s, op)
           bf1 == s1.bufs[v.b]
           tags == ViewTags(bf, v) \cup ViewTags(bf1, v) \cup EvTags(op)
       IN IF count <= 0 THEN Ret(s1, RSelf, tags)
          ELSE IF TAOutOfBounds(bf1, v) THEN Ret(s1, TypeErr, tags)            \* step 17.d
          ELSE LET limit == TALength(bf1, v) * sz + v.off                      \* 17.e-h
                   toB == to * sz + v.off
                   fromB == from * sz + v.off
                   cb == count * sz
                   back == fromB < toB /\ toB < fromB + cb                     \* 17.l
                   ovl == from # to /\ from < to + count /\ to < from + count
                   nb == IF back THEN CwLoop(bf1.bytes, fromB + cb - 1, toB + cb - 1, -1, cb, limit)
                         ELSE CwLoop(bf1.bytes, fromB, toB, 1, cb, limit)
               IN Ret(SetBytes(s1, v.b, nb), RSelf, tags \cup (IF ovl THEN {"ovl"} ELSE {}))

(* 23.2.3.26 %TypedArray%.prototype.set ( source [ , offset ] )              *)
RECURSIVE SetListFrom(_, _, _, _, _, _)
SetListFrom(bytes, bf, v, vals, k, toff) ==      \* 23.2.3.26.2 step 9: TypedArraySetElement per element
  IF k > Len(vals) THEN bytes
  ELSE SetListFrom(SetValueInBuffer(bytes, (toff + k - 1) * Size(v.t) + v.off, v.t, vals[k], TRUE), bf, v, vals, k + 1, toff)

NegOffset(x) == LET r == ToIntOrInf(x) IN r.s \in {"ninf", "nbig", "nhuge"} \/ (r.s = "int" /\ r.v < 0)

\* 23.2.3.26.2 step 9 on states: element k is converted (side effect), then stored if the index is still valid
RECURSIVE SetListSt(_, _, _, _, _)
SetListSt(s, op, vidx, k, toff) ==
  IF k > Len(op.vals) THEN s
  ELSE LET s1 == IF EvAt(op, "vals") /\ op.ev.j = k THEN Evil(s, op).s ELSE s
           v == s1.views[vidx] bf == s1.bufs[v.b] idx == toff + k - 1
           s2 == IF ~TAOutOfBounds(bf, v) /\ idx < TALength(bf, v)
                 THEN SetBytes(s1, v.b, SetValueInBuffer(bf.bytes, idx * Size(v.t) + v.off, v.t, op.vals[k], TRUE))
                 ELSE s1
       IN SetListSt(s2, op, vidx, k + 1, toff)

DoSetArr(s, op) ==
  IF op.v > Len(s.views) \/ ~EvOK(s, op) THEN Disabled(s) ELSE
  LET v == s.views[op.v]
      toff == ToIntOrInf(op.a1)
      s1 == After(s, op, "a1")                                                 \* set step 4
      bf == s1.bufs[v.b]
      tags == ViewTags(s.bufs[v.b], v) \cup ViewTags(bf, v) \cup EvTags(op)
  IN
  IF v.t \notin IntTypes THEN Disabled(s)
  ELSE IF NegOffset(op.a1) THEN Ret(s1, RangeErr, tags)                        \* set step 5
  ELSE IF TAOutOfBounds(bf, v) THEN Ret(s1, TypeErr, tags)                     \* ArrayLike step 2
  ELSE IF toff.s # "int" THEN Ret(s1, RangeErr, tags)                          \* steps 6-7 (+inf, huge)
  ELSE IF Len(op.vals) + toff.v > TALength(bf, v) THEN Ret(s1, RangeErr, tags)
  ELSE LET s2 == SetListSt(s1, op, op.v, 1, toff.v) IN
       Ret(s2, RUndef, tags \cup ViewTags(s2.bufs[v.b], v))

\* element-wise conversion of srcBytes (elements of type st) into type tt, little endian
ConvertElems(st, tt, srcBytes) ==
  LET n == Len(srcBytes) \div Size(st)
      one(j) == NumericToRawBytes(tt, GetValueFromBuffer(srcBytes, (j - 1) * Size(st), st, TRUE), TRUE)
  IN [q \in 1..(n * Size(tt)) |-> one(((q - 1) \div Size(tt)) + 1)[((q - 1) % Size(tt)) + 1]]

SrcVals(st, srcBytes) == [j \in 1..(Len(srcBytes) \div Size(st)) |-> EncNum(GetValueFromBuffer(srcBytes, (j - 1) * Size(st), st, TRUE))]

DoSetTA(s, op) ==
  IF op.v > Len(s.views) \/ op.src > Len(s.views) THEN Disabled(s) ELSE
  LET v == s.views[op.v] bf == s.bufs[v.b]
      sv == s.views[op.src] sbf == s.bufs[sv.b]
      toff == ToIntOrInf(op.a1)
      tags == ViewTags(bf, v) \cup ViewTags(sbf, sv)
  IN
  IF NegOffset(op.a1) THEN Ret(s, RangeErr, tags)                              \* set step 5
  ELSE IF TAOutOfBounds(bf, v) THEN Ret(s, TypeErr, tags)                      \* 23.2.3.26.1 step 3
  ELSE IF TAOutOfBounds(sbf, sv) THEN Ret(s, TypeErr, tags)                    \* step 7
  ELSE IF toff.s # "int" THEN Ret(s, RangeErr, tags)                           \* steps 15-16
  ELSE LET srcLen == TALength(sbf, sv) tlen == TALength(bf, v) IN
  IF srcLen + toff.v > tlen THEN Ret(s, RangeErr, tags)
  ELSE IF ContentType(v.t) # ContentType(sv.t) THEN Ret(s, TypeErr, tags)      \* step 17
  ELSE IF v.t # sv.t /\ (v.t \notin IntTypes \/ sv.t \notin IntTypes) THEN Disabled(s)   \* float conversions: not modelled
  ELSE LET src == RdBytes(sbf.bytes, sv.off, srcLen * Size(sv.t))              \* (clone of) the source range
           data == IF v.t = sv.t THEN src ELSE IF Clean(src) THEN ConvertElems(sv.t, v.t, src) ELSE <<PoisonByte>>
           tb == toff.v * Size(v.t) + v.off
           ovl == v.b = sv.b /\ srcLen > 0 /\ sv.off < tb + Len(data) /\ tb < sv.off + Len(src)
       IN RetA(SetBytes(s, v.b, WrBytes(bf.bytes, tb, data)), RUndef, tags \cup (IF ovl THEN {"ovl"} ELSE {}),
               IF v.t # sv.t /\ Clean(src) THEN SrcVals(sv.t, src) ELSE <<>>)

(* 23.2.3.28 %TypedArray%.prototype.subarray ( start, end )                  *)
DoSub(s, op) ==
  IF op.v > Len(s.views) \/ ~EvOK(s, op) THEN Disabled(s) ELSE
  LET v == s.views[op.v] bf == s.bufs[v.b] sz == Size(v.t)
      srcLen == IF TAOutOfBounds(bf, v) THEN 0 ELSE TALength(bf, v)           \* steps 5-7
      start == RelIdx(op.a1, srcLen)
      begin == v.off + start * sz                                              \* step 14
      endUndef == op.a2.k = "undef"
      end == RelEnd(op.a2, srcLen)
      s1 == AfterAll(s, op)
      bf1 == s1.bufs[v.b]                                                      \* the constructor sees the buffer as it is now
      r == IF v.len = Auto /\ endUndef
           THEN InitFromBuffer(bf1, v.b, v.t, XInt(begin), XInt(0), TRUE)      \* step 15
           ELSE InitFromBuffer(bf1, v.b, v.t, XInt(begin), XInt(Max(end - start, 0)), FALSE)   \* step 16
      tags == ViewTags(bf, v) \cup ViewTags(bf1, v) \cup EvTags(op)
  IN IF ~r.ok THEN Ret(s1, RThrow(r.c), tags)
     ELSE LET kp == KeepView(s1, r.v, op.keep) IN Ret(kp.s, RView(bf1, r.v, kp.slot), tags)

(* 23.2.3.27 %TypedArray%.prototype.slice ( start, end )                     *)
DoSlice(s, op) ==
  IF op.v > Len(s.views) \/ ~EvOK(s, op) THEN Disabled(s) ELSE
  LET v == s.views[op.v] bf == s.bufs[v.b] sz == Size(v.t) IN
  IF TAOutOfBounds(bf, v) THEN Ret(s, TypeErr, ViewTags(bf, v))                \* step 2
  ELSE LET len == TALength(bf, v)
           start == RelIdx(op.a1, len)
           end == RelEnd(op.a2, len)
           count == Max(end - start, 0)                                        \* step 12; A has `count` elements
           s1 == AfterAll(s, op)
           bf1 == s1.bufs[v.b]
           tags == ViewTags(bf, v) \cup ViewTags(bf1, v) \cup EvTags(op)
       IN IF count = 0 THEN Ret(s1, RArr(v.t, <<>>), tags)
          ELSE IF TAOutOfBounds(bf1, v) THEN Ret(s1, TypeErr, tags)            \* step 14.b
          ELSE LET end1 == Min(end, TALength(bf1, v))                          \* 14.c
                   cnt1 == Max(end1 - start, 0)                                \* 14.d
               IN Ret(s1, RArr(v.t, Refit(RdBytes(bf1.bytes, start * sz + v.off, cnt1 * sz), count * sz)), tags)

(* 23.2.5.1.2 InitializeTypedArrayFromTypedArray:  new T(typedArray)         *)
DoFromTA(s, op) ==
  IF op.v > Len(s.views) THEN Disabled(s) ELSE
  LET v == s.views[op.v] bf == s.bufs[v.b] IN
  IF TAOutOfBounds(bf, v) THEN Ret(s, TypeErr, ViewTags(bf, v))                \* step 7
  ELSE LET src == RdBytes(bf.bytes, v.off, TALength(bf, v) * Size(v.t)) IN
       IF op.t = v.t THEN Ret(s, RArr(op.t, src), ViewTags(bf, v))             \* step 10 CloneArrayBuffer
       ELSE IF ContentType(op.t) # ContentType(v.t) THEN Ret(s, TypeErr, ViewTags(bf, v))   \* step 11.b
       ELSE IF op.t \notin IntTypes \/ v.t \notin IntTypes THEN Disabled(s)
       ELSE RetA(s, RArr(op.t, IF Clean(src) THEN ConvertElems(v.t, op.t, src) ELSE <<PoisonByte>>), ViewTags(bf, v) \cup {"conv"},
                 IF Clean(src) THEN SrcVals(v.t, src) ELSE <<>>)

(* 23.2.5.1.4/5 new T([values]): every element through TypedArraySetElement  *)
DoFromList(s, op) ==
  IF op.t \notin IntTypes THEN Disabled(s)
  ELSE LET v == View(0, op.t, 0, Len(op.vals))
           bytes == SetListFrom(Zeros(Len(op.vals) * Size(op.t)), 0, v, op.vals, 1, 0)
       IN Ret(s, RArr(op.t, bytes), {"conv"})

-----------------------------------------------------------------------------
(* 25.3.1.5 GetViewValue / 25.3.1.6 SetViewValue                             *)

DoDvGet(s, op) ==
  IF op.d > Len(s.dviews) \/ ~EvOK(s, op) THEN Disabled(s) ELSE
  LET d == s.dviews[op.d] gi == ToIndex(op.a1)
      s1 == After(s, op, "a1")
      bf == s1.bufs[d.b]
      tags == DvTags(bf, d) \cup EvTags(op)
  IN
  IF op.t \notin IntTypes \/ op.t = "Uint8C" THEN Disabled(s)
  ELSE IF gi.s = "err" THEN Ret(s1, RangeErr, tags)                            \* step 3
  ELSE IF DvOutOfBounds(bf, d) THEN Ret(s1, TypeErr, tags)                     \* step 7
  ELSE IF gi.s # "int" \/ gi.v + Size(op.t) > DvByteLength(bf, d) THEN Ret(s1, RangeErr, tags)   \* step 10
  ELSE Ret(s1, RNum(GetValueFromBuffer(bf.bytes, gi.v + d.off, op.t, op.le)), tags)

DoDvSet(s, op) ==
  IF op.d > Len(s.dviews) \/ ~EvOK(s, op) THEN Disabled(s) ELSE
  LET d == s.dviews[op.d] gi == ToIndex(op.a1)
      s1 == After(s, op, "a1")                                                 \* step 3 ToIndex(requestIndex)
      s2 == After(s1, op, "val")                                               \* step 4-5 ToNumber(value)
      bf == s2.bufs[d.b]
      tags == DvTags(bf, d) \cup EvTags(op)
  IN
  IF op.t \notin IntTypes \/ op.t = "Uint8C" THEN Disabled(s)
  ELSE IF gi.s = "err" THEN Ret(s1, RangeErr, DvTags(s1.bufs[d.b], d) \cup EvTags(op))
  ELSE IF DvOutOfBounds(bf, d) THEN Ret(s2, TypeErr, tags)
  ELSE IF gi.s # "int" \/ gi.v + Size(op.t) > DvByteLength(bf, d) THEN Ret(s2, RangeErr, tags)
  ELSE Ret(SetBytes(s2, d.b, SetValueInBuffer(bf.bytes, gi.v + d.off, op.t, op.val, op.le)), RUndef, tags)

-----------------------------------------------------------------------------
(* 25.4 Atomics.load / store / add on one agent.                             *)
(* ValidateAtomicAccessOnIntegerTypedArray, then the value is converted, then *)
(* RevalidateAtomicAccess looks at the buffer again.                         *)

\* 𝔽(ToIntegerOrInfinity(value)) as a number of the domain (what Atomics.store returns)
IntegerValue(x0) ==
  LET x == ToNumber(x0) IN
  CASE x.k \in {"nan", "nz"} -> Fin(0)
    [] x.k \in {"pinf", "ninf"} -> x
    [] OTHER -> IF x.w = "0" THEN Fin(Trunc(x)) ELSE x

\* -> [ok, r (error result), s1 (state after the index conversion), pos]
AtomicAccess(s, op) ==
  LET v == s.views[op.v] bf == s.bufs[v.b]
      ai == ToIndex(op.a1)
      s1 == After(s, op, "a1")
      no(st, r) == [ok |-> FALSE, r |-> r, s1 |-> st, pos |-> 0]
  IN IF TAOutOfBounds(bf, v) THEN no(s, TypeErr)                     \* ValidateTypedArray
     ELSE IF v.t = "Uint8C" THEN no(s, TypeErr)                      \* ValidateIntegerTypedArray step 3.b
     ELSE IF ai.s = "err" THEN no(s1, RangeErr)                      \* ValidateAtomicAccess step 2
     ELSE IF ai.s # "int" \/ ai.v >= TALength(bf, v) THEN no(s1, RangeErr)   \* step 4 (length read before)
     ELSE [ok |-> TRUE, r |-> RUndef, s1 |-> s1, pos |-> ai.v * Size(v.t) + v.off]
\* 25.4.3.4 RevalidateAtomicAccess -> "" | error class
Revalidate(bf, v, pos) ==
  IF TAOutOfBounds(bf, v) THEN "TypeError" ELSE IF pos >= Len(bf.bytes) THEN "RangeError" ELSE ""

\* two's complement sum of two little-endian raw byte sequences (GetModifySetValueInBuffer with add)
RECURSIVE AddRaw(_, _, _, _)
AddRaw(a, b, j, carry) ==
  IF j > Len(a) THEN <<>>
  ELSE LET t == a[j] + b[j] + carry IN <<t % 256>> \o AddRaw(a, b, j + 1, t \div 256)

DoAtomic(s, op) ==
  IF op.v > Len(s.views) \/ ~EvOK(s, op) THEN Disabled(s) ELSE
  LET v == s.views[op.v] IN
  IF v.t \notin IntTypes THEN Disabled(s) ELSE
  LET a == AtomicAccess(s, op)
      s2 == IF op.k = "aload" THEN a.s1 ELSE After(a.s1, op, "val")   \* store / add convert the value now
      bf == s2.bufs[v.b]
      sz == Size(v.t)
      tags == ViewTags(s.bufs[v.b], v) \cup ViewTags(bf, v) \cup EvTags(op) \cup {"atomic"}
      rv == Revalidate(bf, v, a.pos)
  IN IF ~a.ok THEN Ret(a.s1, a.r, tags)
     ELSE IF rv # "" THEN Ret(s2, RThrow(rv), tags)
     \* a shrink that cuts the element in two passes RevalidateAtomicAccess although GetValueFromBuffer's
     \* precondition fails (gap of the standard): outside the model
     ELSE IF a.pos + sz > Len(bf.bytes) THEN Disabled(s)
     ELSE IF op.k = "aload" THEN Ret(s2, RNum(GetValueFromBuffer(bf.bytes, a.pos, v.t, TRUE)), tags)
     ELSE LET iv == IntegerValue(op.val) IN
          IF op.k = "astore"
          THEN Ret(SetBytes(s2, v.b, SetValueInBuffer(bf.bytes, a.pos, v.t, iv, TRUE)), RNum(iv), tags)
          ELSE LET old == RdBytes(bf.bytes, a.pos, sz)
                   sum == AddRaw(old, NumericToRawBytes(v.t, iv, TRUE), 1, 0)
               IN Ret(SetBytes(s2, v.b, WrBytes(bf.bytes, a.pos, sum)), RNum(RawBytesToNumeric(v.t, old, TRUE)), tags)

-----------------------------------------------------------------------------
(* Dispatcher and observations                                               *)

Step(s, op) ==
  CASE op.k = "resize"   -> DoResize(s, op)
    [] op.k = "grow"     -> DoGrow(s, op)
    [] op.k = "transfer" -> DoTransfer(s, op)
    [] op.k = "detach"   -> DoDetach(s, op)
    [] op.k = "bslice"   -> DoBSlice(s, op)
    [] op.k = "newview"  -> DoNewView(s, op)
    [] op.k = "newdv"    -> DoNewDv(s, op)
    [] op.k = "get"      -> DoGet(s, op)
    [] op.k = "set"      -> DoSet(s, op)
    [] op.k = "fcopy"    -> DoFCopy(s, op)
    [] op.k = "fill"     -> DoFill(s, op)
    [] op.k = "cw"       -> DoCopyWithin(s, op)
    [] op.k = "setarr"   -> DoSetArr(s, op)
    [] op.k = "setta"    -> DoSetTA(s, op)
    [] op.k = "sub"      -> DoSub(s, op)
    [] op.k = "slice"    -> DoSlice(s, op)
    [] op.k = "fromta"   -> DoFromTA(s, op)
    [] op.k = "fromlist" -> DoFromList(s, op)
    [] op.k = "dvget"    -> DoDvGet(s, op)
    [] op.k = "dvset"    -> DoDvSet(s, op)
    [] op.k \in {"aload", "astore", "aadd"} -> DoAtomic(s, op)

OpKinds == {"resize", "grow", "transfer", "detach", "bslice", "newview", "newdv", "get", "set", "fcopy", "fill",
            "cw", "setarr", "setta", "sub", "slice", "fromta", "fromlist", "dvget", "dvset", "aload", "astore", "aadd"}

Enc(x) == EncNum(x)

ProbeClasses == <<"m1", "z", "last", "len", "big", "negz", "frac">>
ProbeView(s, v) ==
  LET bf == s.bufs[v.b] len == LengthGetter(bf, v) IN
  [len |-> len, blen |-> ByteLengthGetter(bf, v), boff |-> ByteOffsetGetter(bf, v),
   e |-> IF v.t \in IntTypes
         THEN [q \in 1..Len(ProbeClasses) |->
                 LET ic == ProbeClasses[q] n == ResolveIdx(ic, len) IN
                 IF ValidIndex(bf, v, ic, n) THEN Enc(GetValueFromBuffer(bf.bytes, n * Size(v.t) + v.off, v.t, TRUE)) ELSE "undef"]
         ELSE <<>>]
ProbeBuf(bf) ==
  [det |-> bf.det, len |-> Len(bf.bytes), rs |-> bf.max # Fixed, sh |-> bf.sh,
   max |-> IF bf.det THEN 0 ELSE IF bf.max = Fixed THEN Len(bf.bytes) ELSE bf.max,
   bytes |-> bf.bytes]
ProbeDv(s, d) ==
  LET bf == s.bufs[d.b] IN
  IF DvOutOfBounds(bf, d) THEN [blen |-> -1, boff |-> -1]        \* both getters throw a TypeError
  ELSE [blen |-> DvByteLength(bf, d), boff |-> d.off]
Obs(s) == [b |-> [i \in 1..Len(s.bufs) |-> ProbeBuf(s.bufs[i])],
           v |-> [i \in 1..Len(s.views) |-> ProbeView(s, s.views[i])],
           d |-> [i \in 1..Len(s.dviews) |-> ProbeDv(s, s.dviews[i])]]

\* the observation after a step, relative to the state before it: components that cannot have changed
\* (same buffer record; view / DataView of an unchanged buffer) are abbreviated to [same |-> TRUE]
Same == [same |-> TRUE]
ObsDelta(s0, s1) ==
  LET bsame(i) == i <= Len(s0.bufs) /\ s1.bufs[i] = s0.bufs[i] IN
  [b |-> [i \in 1..Len(s1.bufs) |-> IF bsame(i) THEN Same ELSE ProbeBuf(s1.bufs[i])],
   v |-> [i \in 1..Len(s1.views) |-> IF i <= Len(s0.views) /\ bsame(s1.views[i].b) THEN Same ELSE ProbeView(s1, s1.views[i])],
   d |-> [i \in 1..Len(s1.dviews) |-> IF i <= Len(s0.dviews) /\ bsame(s1.dviews[i].b) THEN Same ELSE ProbeDv(s1, s1.dviews[i])]]

EncRes(r) ==
  CASE r.k = "n" -> [k |-> "n", x |-> Enc(r.x)]
    [] r.k = "a" -> [k |-> "a", t |-> r.t, bytes |-> r.bytes, e |-> [j \in 1..Len(r.e) |-> Enc(r.e[j])]]
    [] OTHER -> r

\* the resolved form of an operation (index classes replaced by what they denote now)
Resolve(s, op) ==
  IF op.k \in {"get", "set"} /\ op.v <= Len(s.views)
  THEN LET v == s.views[op.v] IN [op EXCEPT !.n = ResolveIdx(op.ic, LengthGetter(s.bufs[v.b], v))]
  ELSE IF op.k = "fcopy" /\ op.v <= Len(s.views)
  THEN LET v == s.views[op.v] len == LengthGetter(s.bufs[v.b], v) IN
       [op EXCEPT !.n = ResolveIdx(op.ic, len), !.m = ResolveIdx(op.jc, len)]
  ELSE op

NoPoisonBytes(bytes) == \A j \in 1..Len(bytes) : bytes[j] \in 0..255
NoPoisonRes(r) ==
  CASE r.k = "n" -> r.x.k # "poison"
    [] r.k = "a" -> NoPoisonBytes(r.bytes) /\ \A j \in 1..Len(r.e) : r.e[j].k # "poison"
    [] r.k = "b" -> NoPoisonBytes(r.bytes)
    [] OTHER -> TRUE
NoPoisonState(s) == \A i \in 1..Len(s.bufs) : NoPoisonBytes(s.bufs[i].bytes)

-----------------------------------------------------------------------------
(* The state machine                                                         *)

Cur == [bufs |-> bufs, views |-> views, dviews |-> dviews]

\* initial byte pattern of buffer i: 100 i + j
Pattern(i, n) == [j \in 1..n |-> (100 * i + j) % 256]

RECURSIVE ApplySetup(_, _, _)
ApplySetup(s, ops, k) == IF k > Len(ops) THEN s ELSE ApplySetup(Step(s, ops[k]).s, ops, k + 1)

SetupState(su) ==
  ApplySetup([bufs |-> [i \in 1..Len(su.bufs) |-> Buf(Pattern(i, su.bufs[i].len), su.bufs[i].max, su.bufs[i].sh)],
              views |-> <<>>, dviews |-> <<>>], su.mk, 1)

\* a set-up is well formed when each of its constructions succeeds and is kept
SetupOK(su) ==
  LET s == SetupState(su) IN
  Len(s.views) + Len(s.dviews) = Len(su.mk) /\ Len(s.bufs) = Len(su.bufs)

Init ==
  \E su \in Setups :
    LET s == SetupState(su) IN
    /\ bufs = s.bufs /\ views = s.views /\ dviews = s.dviews
    /\ depth = 0
    /\ hist = <<[op |-> [k |-> "setup", su |-> su], r |-> RUndef, obs |-> Obs(s), tags |-> {}, aux |-> <<>>, loop |-> FALSE]>>

Rec(op, r) == [op |-> Resolve(Cur, op), r |-> EncRes(r.r), obs |-> ObsDelta(Cur, r.s), tags |-> r.tags, aux |-> r.aux,
               loop |-> r.s = Cur]

\* one operation: always reported (EDGE) when EmitEdges, extended only when in PathOps and below the bound
Do(op) ==
  LET r == Step(Cur, op)
      rec == Rec(op, r)
      extend == op \in PathOps /\ depth < MaxDepth
  IN /\ r.en
     /\ Assert(NoPoisonRes(r.r) /\ NoPoisonState(r.s), <<"InBounds violated by", op>>)
     /\ IF EmitEdges
        THEN PrintT(<<"EDGE", ToJson([su |-> hist[1].op.su.id, pre |-> [i \in 1..(Len(hist) - 1) |-> hist[i + 1].op],
                                     rec |-> rec, ext |-> extend])>>)
        ELSE extend
     /\ IF extend
        THEN /\ bufs' = r.s.bufs /\ views' = r.s.views /\ dviews' = r.s.dviews
             /\ depth' = depth + 1
             /\ hist' = Append(hist, rec)
        ELSE UNCHANGED vars

Act(kind) == \E op \in LeafOps : op.k = kind /\ Do(op)

Resize == Act("resize")      Grow == Act("grow")          Transfer == Act("transfer")
Detach == Act("detach")      BufSlice == Act("bslice")    NewView == Act("newview")
NewDataView == Act("newdv")  GetElem == Act("get")        SetElem == Act("set")
FloatCopy == Act("fcopy")    Fill == Act("fill")          CopyWithin == Act("cw")
SetFromList == Act("setarr") SetFromTA == Act("setta")    Subarray == Act("sub")
Slice == Act("slice")        FromTA == Act("fromta")      FromList == Act("fromlist")
DvGet == Act("dvget")        DvSet == Act("dvset")
AtomicsLoad == Act("aload")  AtomicsStore == Act("astore") AtomicsAdd == Act("aadd")

Next == \/ Resize \/ Grow \/ Transfer \/ Detach \/ BufSlice \/ NewView \/ NewDataView
        \/ GetElem \/ SetElem \/ FloatCopy \/ Fill \/ CopyWithin \/ SetFromList \/ SetFromTA
        \/ Subarray \/ Slice \/ FromTA \/ FromList \/ DvGet \/ DvSet
        \/ AtomicsLoad \/ AtomicsStore \/ AtomicsAdd

\* -simulate: TLC would evaluate every successor before choosing one; draw a few operations first instead
\* (the set expression mentions a variable so that TLC does not treat the draw as a constant)
\* two of the six draws are geometry changes, so that about a third of the steps resize / transfer / detach
GeoKinds == {"resize", "grow", "transfer", "detach"}
NextRandom ==
  \E i \in 1..6 :
    Do(RandomElement(IF depth < 0 THEN {} ELSE IF i <= 2 THEN {op \in LeafOps : op.k \in GeoKinds} ELSE LeafOps))

Spec == Init /\ [][Next]_vars

\* scripted mode (replay of a stored history, shrinking): the set-up record carries the operations to apply;
\* an operation that is not enabled ends the script with a "disabled" record
Script == hist[1].op.su.ops
NextScript ==
  /\ depth < Len(Script)
  /\ LET op == Script[depth + 1]
         r == Step(Cur, op)
     IN IF r.en
        THEN /\ Assert(NoPoisonRes(r.r) /\ NoPoisonState(r.s), <<"InBounds violated by", op>>)
             /\ bufs' = r.s.bufs /\ views' = r.s.views /\ dviews' = r.s.dviews
             /\ depth' = depth + 1
             /\ hist' = Append(hist, Rec(op, r))
        ELSE /\ UNCHANGED <<bufs, views, dviews>>
             /\ depth' = Len(Script)
             /\ hist' = Append(hist, [op |-> op, r |-> [k |-> "disabled"], obs |-> ObsDelta(Cur, Cur), tags |-> {},
                                      aux |-> <<>>, loop |-> TRUE])
EmitScript == depth = Len(Script) => PrintT(<<"REPLAY", ToJson(hist)>>)

\* fingerprint of the transition-exhaustive configurations: the history is only a witness
StateView == <<bufs, views, dviews, depth>>

-----------------------------------------------------------------------------
(* Invariants of the model (the model gate)                                  *)

TypeOK ==
  /\ \A i \in 1..Len(bufs) : /\ bufs[i].max \in {Fixed} \cup Nat
                              /\ bufs[i].det \in BOOLEAN /\ bufs[i].sh \in BOOLEAN
  /\ \A i \in 1..Len(views) : /\ views[i].b \in 1..Len(bufs) /\ views[i].t \in ElemTypes
                               /\ views[i].off \in Nat /\ views[i].len \in {Auto} \cup Nat
                               /\ views[i].off % Size(views[i].t) = 0
  /\ \A i \in 1..Len(dviews) : dviews[i].b \in 1..Len(bufs) /\ dviews[i].off \in Nat /\ dviews[i].len \in {Auto} \cup Nat
  /\ Len(bufs) <= MaxBufs /\ Len(views) <= MaxViews /\ Len(dviews) <= MaxDvs

\* no operator indexed `bytes` outside 1..Len(bytes) (states; leaf results are asserted in Do)
InBounds == NoPoisonState(Cur)

\* a view that is not out of bounds lies inside its buffer, element by element
ViewsWithin ==
  \A i \in 1..Len(views) :
    LET v == views[i] bf == bufs[v.b] IN
    ~TAOutOfBounds(bf, v) =>
      /\ v.off + TAByteLength(bf, v) <= Len(bf.bytes)
      /\ \A n \in 0..(TALength(bf, v) - 1) : n * Size(v.t) + v.off + Size(v.t) <= Len(bf.bytes)
      /\ (v.len = Auto => Len(bf.bytes) - (v.off + TAByteLength(bf, v)) < Size(v.t))    \* tracks the whole tail
DvWithin ==
  \A i \in 1..Len(dviews) :
    LET d == dviews[i] bf == bufs[d.b] IN
    ~DvOutOfBounds(bf, d) => d.off + DvByteLength(bf, d) <= Len(bf.bytes) /\ DvByteLength(bf, d) >= 0

\* views out of bounds report length 0, byteLength 0, byteOffset 0 and have no valid index
OobReportsZero ==
  \A i \in 1..Len(views) :
    LET v == views[i] bf == bufs[v.b] IN
    TAOutOfBounds(bf, v) =>
      /\ LengthGetter(bf, v) = 0 /\ ByteLengthGetter(bf, v) = 0 /\ ByteOffsetGetter(bf, v) = 0
      /\ \A ic \in {"m1", "z", "last", "len", "big"} : ~ValidIndex(bf, v, ic, ResolveIdx(ic, 0))

\* a detached buffer is empty for ever and puts every view on it out of bounds
DetachedEmpty ==
  \A i \in 1..Len(bufs) :
    bufs[i].det => /\ bufs[i].bytes = <<>> /\ ~bufs[i].sh
                   /\ \A j \in 1..Len(views) : views[j].b = i => TAOutOfBounds(bufs[i], views[j])
                   /\ \A j \in 1..Len(dviews) : dviews[j].b = i => DvOutOfBounds(bufs[i], dviews[j])
MaxRespected == \A i \in 1..Len(bufs) : bufs[i].max # Fixed => Len(bufs[i].bytes) <= bufs[i].max

\* action properties: fixed-length buffers keep their length while attached; detachment is permanent;
\* shared buffers never shrink; views and DataViews are immutable once created
FixedNeverResizes ==
  [][\A i \in 1..Len(bufs) : (bufs[i].max = Fixed /\ ~bufs'[i].det) => Len(bufs'[i].bytes) = Len(bufs[i].bytes)]_vars
DetachIsForever == [][\A i \in 1..Len(bufs) : bufs[i].det => bufs'[i].det]_vars
SharedNeverShrinks == [][\A i \in 1..Len(bufs) : bufs[i].sh => Len(bufs'[i].bytes) >= Len(bufs[i].bytes)]_vars
ViewsImmutable ==
  [][/\ \A i \in 1..Len(views) : views'[i] = views[i]
     /\ \A i \in 1..Len(dviews) : dviews'[i] = dviews[i]
     /\ \A i \in 1..Len(bufs) : bufs'[i].max = bufs[i].max /\ bufs'[i].sh = bufs[i].sh]_vars

\* replay emission for history-complete configurations (-simulate)
EmitReplay == (~EmitEdges /\ depth = MaxDepth) => PrintT(<<"REPLAY", ToJson(hist)>>)
=============================================================================
