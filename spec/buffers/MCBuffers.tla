------------------------------ MODULE MCBuffers ------------------------------
(***************************************************************************)
(* Bounded instances of Buffers.tla: set-up catalogues and operation       *)
(* alphabets of the scenario families of check C15.  A configuration picks *)
(* Setups / PathOps / LeafOps / MaxDepth; every reachable state (by the    *)
(* PathOps, depth <= MaxDepth, fingerprint StateView) is combined with     *)
(* every LeafOp (transition-exhaustive, one EDGE line per transition).     *)
(***************************************************************************)
EXTENDS Buffers, IOUtils

U == Undef
N(i) == Fin(i)
MinInt == -2147483647 - 1

OpResize(b, n)         == [k |-> "resize", b |-> b, n |-> n]
OpGrow(b, n)           == [k |-> "grow", b |-> b, n |-> n]
OpTransfer(b, n, fx)   == [k |-> "transfer", b |-> b, n |-> n, fx |-> fx, keep |-> FALSE]
OpDetach(b)            == [k |-> "detach", b |-> b]
OpBSlice(b, a1, a2)    == [k |-> "bslice", b |-> b, a1 |-> a1, a2 |-> a2, keep |-> FALSE]
OpNewView(b, t, o, l)  == [k |-> "newview", b |-> b, t |-> t, off |-> o, len |-> l, keep |-> FALSE]
OpNewDv(b, o, l)       == [k |-> "newdv", b |-> b, off |-> o, len |-> l, keep |-> FALSE]
OpGet(v, ic)           == [k |-> "get", v |-> v, ic |-> ic, n |-> 0]
OpSet(v, ic, val)      == [k |-> "set", v |-> v, ic |-> ic, n |-> 0, val |-> val]
OpFCopy(v, ic, jc)     == [k |-> "fcopy", v |-> v, ic |-> ic, jc |-> jc, n |-> 0, m |-> 0]
OpFill(v, val, a1, a2) == [k |-> "fill", v |-> v, val |-> val, a1 |-> a1, a2 |-> a2]
OpCw(v, a1, a2, a3)    == [k |-> "cw", v |-> v, a1 |-> a1, a2 |-> a2, a3 |-> a3]
OpSetArr(v, vals, a1)  == [k |-> "setarr", v |-> v, vals |-> vals, a1 |-> a1]
OpSetTA(v, src, a1)    == [k |-> "setta", v |-> v, src |-> src, a1 |-> a1]
OpSub(v, a1, a2)       == [k |-> "sub", v |-> v, a1 |-> a1, a2 |-> a2, keep |-> FALSE]
K(op) == [op EXCEPT !.keep = TRUE]      \* the created object is retained (set-ups, path operations)
KS(ops) == [i \in 1..Len(ops) |-> K(ops[i])]
OpSlice(v, a1, a2)     == [k |-> "slice", v |-> v, a1 |-> a1, a2 |-> a2]
OpFromTA(t, v)         == [k |-> "fromta", t |-> t, v |-> v]
OpFromList(t, vals)    == [k |-> "fromlist", t |-> t, vals |-> vals]
OpDvGet(d, t, a1, le)  == [k |-> "dvget", d |-> d, t |-> t, a1 |-> a1, le |-> le]
OpALoad(v, a1)         == [k |-> "aload", v |-> v, a1 |-> a1]
OpAStore(v, a1, x)     == [k |-> "astore", v |-> v, a1 |-> a1, val |-> x]
OpAAdd(v, a1, x)       == [k |-> "aadd", v |-> v, a1 |-> a1, val |-> x]
OpDvSet(d, t, a1, x, le) == [k |-> "dvset", d |-> d, t |-> t, a1 |-> a1, val |-> x, le |-> le]

\* the argument at `pos` is an object whose valueOf resizes buffer b to n bytes / detaches it before returning the number
EvR(op, pos, b, n) == op @@ ("ev" :> [pos |-> pos, k |-> "resize", b |-> b, n |-> n, j |-> 0])
EvD(op, pos, b)    == op @@ ("ev" :> [pos |-> pos, k |-> "detach", b |-> b, n |-> 0, j |-> 0])
EvRJ(op, j, b, n)  == op @@ ("ev" :> [pos |-> "vals", k |-> "resize", b |-> b, n |-> n, j |-> j])
EvDJ(op, j, b)     == op @@ ("ev" :> [pos |-> "vals", k |-> "detach", b |-> b, n |-> 0, j |-> j])

B(len, max) == [len |-> len, max |-> max, sh |-> FALSE]
SB(len, max) == [len |-> len, max |-> max, sh |-> TRUE]
Su(id, bs, mk) == [id |-> id, bufs |-> bs, mk |-> KS(mk), ops |-> <<>>]
IntTypeSeq == <<"Int8", "Uint8", "Uint8C", "Int16", "Uint16", "Int32", "Uint32">>
DvTypes == {"Int8", "Uint8", "Int16", "Uint16", "Int32", "Uint32"}

-----------------------------------------------------------------------------
(* The value catalogue of the conversion families                            *)

IntVals == {N(0), N(1), N(-1), N(127), N(128), N(129), N(239), N(255), N(256), N(257), N(-128), N(-129), N(-255),
            N(-256), N(-257), N(32767), N(32768), N(65535), N(65536), N(65537), N(-32768), N(-32769), N(-65536),
            N(16777216), N(305419896), N(-19088744), N(2147483647), N(MinInt), N(-2147483647)}
FracVals == {FinQ(0, 2), FinQ(0, 1), FinQ(0, 3), FinQ(1, 2), FinQ(2, 2), FinQ(3, 2), FinQ(254, 2), FinQ(254, 3), FinQ(255, 1),
             FinQ(-1, 2), FinQ(-2, 2), FinQ(-1, 3), FinQ(127, 2), FinQ(300, 3), FinQ(-129, 1), FinQ(65535, 3), FinQ(-32769, 2)}
WideVals == {FinW(0, "p32"), FinW(5, "p32"), FinW(-1, "p32"), FinW(MinInt, "p32"), FinW(-2147483647, "p32"),
             FinW(0, "n32"), FinW(-5, "n32"), FinW(1, "n32"), FinW(255, "p40"), FinW(-256, "n40"),
             FinW(0, "p53"), FinW(2, "p53"), FinW(-2, "n53"),
             FinW(0, "p63"), FinW(2048, "p63"), FinW(38912, "p63"), FinW(0, "n63"), FinW(-2048, "n63"), FinW(-38912, "n63"),
             FinW(0, "p64"), FinW(0, "n64"), FinW(0, "e38"), FinW(0, "ne38")}
SpecialVals == {NaN, PInf, NInf, NegZero, U}
AllVals == IntVals \cup FracVals \cup WideVals \cup SpecialVals
FewVals == {N(-1), N(258), FinQ(2, 2), FinW(2048, "p63"), NaN}

-----------------------------------------------------------------------------
(* Family G: geometry under resize / transfer / detach                       *)

SetupsG ==
  { Su("g1", <<B(8, 12)>>, <<OpNewView(1, "Uint8", U, U), OpNewView(1, "Uint16", N(2), N(2)),
                            OpNewView(1, "Int32", N(4), U), OpNewDv(1, U, U), OpNewDv(1, N(2), N(4))>>),
    Su("g2", <<B(8, 12)>>, <<OpNewView(1, "Uint8", N(4), N(4)), OpNewView(1, "Int16", U, U),
                            OpNewView(1, "Uint32", U, N(2)), OpNewDv(1, N(4), U)>>),
    Su("g3", <<B(8, 12), B(8, Fixed)>>, <<OpNewView(1, "Uint8", N(1), U), OpNewView(2, "Uint8", U, U),
                                         OpNewView(1, "Int16", N(2), N(3)), OpNewDv(2, N(1), U)>>),
    Su("g4", <<SB(4, 8), B(8, Fixed)>>, <<OpNewView(1, "Uint8", U, U), OpNewView(1, "Uint16", U, N(2)),
                                         OpNewView(2, "Int8", N(2), N(4)), OpNewDv(1, N(1), U)>>) }

ResizeSizes == {0, 3, 5, 6, 8, 12}
PathG == {OpResize(1, N(n)) : n \in ResizeSizes} \cup {OpGrow(1, N(6)), OpGrow(1, N(8))}
         \cup {K(OpTransfer(1, U, FALSE)), K(OpTransfer(1, N(4), TRUE)), OpDetach(1), OpResize(2, N(4))}
         \cup {OpSet(1, "last", N(-86)), OpFill(3, N(7), N(1), U)}
Args3 == {U, N(0), N(1), N(-1), N(2), N(-2), N(3), N(100), NInf}
LeafG == PathG
  \cup {OpResize(1, x) : x \in {N(13), N(-1), FinW(0, "p32"), FinW(0, "p53"), FinQ(5, 2), NaN, U}}
  \cup {OpGrow(1, x) : x \in {N(2), N(9), N(-1)}}
  \cup {OpTransfer(1, x, fx) : x \in {N(0), N(13), N(12), N(-1)}, fx \in BOOLEAN}
  \cup {OpTransfer(2, U, FALSE), OpDetach(2)}
  \cup {OpBSlice(b, x, y) : b \in 1..2, x \in {U, N(2), N(-3)}, y \in {U, N(-1), N(6), N(100)}}
  \cup {OpSet(v, ic, N(-2)) : v \in 1..3, ic \in {"m1", "z", "last", "len", "big", "negz", "frac"}}
  \cup {OpGet(v, ic) : v \in 1..3, ic \in {"m1", "z", "mid", "last", "len", "big", "negz", "frac"}}
  \cup {OpFill(v, N(513), x, y) : v \in 1..3, x \in {U, N(1), N(-2)}, y \in {U, N(-1), N(100)}}
  \cup {OpCw(v, x, y, z) : v \in 1..3, x \in {N(0), N(1), N(-1)}, y \in {N(0), N(1), N(2)}, z \in {U, N(-1)}}
  \cup {OpSetArr(v, <<N(1), N(-2)>>, x) : v \in 1..3, x \in {U, N(1), N(3), N(7), N(-1), PInf, FinW(0, "p32")}}
  \cup {OpSetArr(v, <<>>, x) : v \in 1..3, x \in {N(0), N(100)}}
  \cup {OpSetTA(v, w, x) : v \in 1..3, w \in 1..3, x \in {U, N(1), N(-1)}}
  \cup {OpSub(v, x, y) : v \in 1..3, x \in {U, N(1), N(-1), N(100)}, y \in {U, N(2), N(-1)}}
  \cup {OpSlice(v, x, y) : v \in 1..3, x \in {U, N(1), N(-2)}, y \in {U, N(2), N(100)}}
  \cup {OpFromTA(t, v) : t \in {"Uint8", "Int16", "Uint32"}, v \in 1..3}
  \cup {OpALoad(v, x) : v \in 1..3, x \in {U, N(0), N(1), N(2), N(7), N(8), N(-1), FinW(0, "p32"), FinW(0, "p53")}}
  \cup {OpAStore(v, x, N(-2)) : v \in 1..3, x \in {N(0), N(1), N(3), N(8)}}
  \cup {OpAAdd(v, x, N(200)) : v \in 1..3, x \in {N(0), N(1), N(3), N(8)}}
  \cup {OpNewView(b, t, x, y) : b \in 1..2, t \in {"Uint8", "Int16"}, x \in {U, N(2), N(6)}, y \in {U, N(1), N(3)}}
  \cup {OpNewDv(b, x, y) : b \in 1..2, x \in {U, N(3), N(9)}, y \in {U, N(2), N(6)}}
  \cup {OpDvGet(d, t, x, le) : d \in 1..2, t \in {"Int8", "Uint16", "Int32"}, x \in {U, N(0), N(1), N(3), N(5), N(7), N(8), N(-1)}, le \in BOOLEAN}
  \cup {OpDvSet(d, t, x, N(-2), le) : d \in 1..2, t \in {"Uint8", "Int16", "Uint32"}, x \in {N(0), N(2), N(5), N(9), FinW(0, "p32"), FinW(0, "p53")}, le \in BOOLEAN}

-----------------------------------------------------------------------------
(* Family E: arguments whose conversion resizes or detaches the buffer of    *)
(* the receiver in the middle of a call (the re-validation steps)            *)

SetupsE ==
  { Su("e1", <<B(8, 12)>>, <<OpNewView(1, "Uint8", U, U), OpNewView(1, "Uint16", N(2), N(2)),
                            OpNewView(1, "Int16", N(4), U), OpNewDv(1, U, U), OpNewDv(1, N(2), N(4))>>),
    Su("e2", <<B(8, 12), B(8, Fixed)>>, <<OpNewView(1, "Uint8", N(2), N(5)), OpNewView(1, "Int32", U, U),
                                         OpNewView(2, "Uint8", U, U), OpNewDv(1, N(4), U)>>) }
EvSizes == {0, 3, 5, 7, 12}
\* every side effect applied to the operations in S at position pos
EvAll(S, pos) == {EvR(op, pos, 1, n) : op \in S, n \in EvSizes} \cup {EvD(op, pos, 1) : op \in S}
PathE == {OpResize(1, N(5)), OpResize(1, N(12)), OpSet(1, "z", N(-86))}
LeafE == PathE
  \cup EvAll({OpSet(v, ic, N(-2)) : v \in 1..3, ic \in {"z", "last", "mid"}}, "val")
  \cup EvAll({OpFill(v, N(513), x, y) : v \in 1..3, x \in {N(0), N(1)}, y \in {U, N(-1)}}, "val")
  \cup EvAll({OpFill(v, N(514), x, y) : v \in 1..3, x \in {N(0), N(1)}, y \in {U, N(-1)}}, "a1")
  \cup EvAll({OpFill(v, N(515), N(1), y) : v \in 1..3, y \in {N(-1), N(100)}}, "a2")
  \cup EvAll({OpCw(v, x, y, z) : v \in 1..3, x \in {N(0), N(2)}, y \in {N(0), N(1)}, z \in {U, N(-1)}}, "a1")
  \cup EvAll({OpCw(v, N(1), y, N(100)) : v \in 1..3, y \in {N(0), N(2)}}, "a3")
  \cup EvAll({OpSlice(v, x, y) : v \in 1..3, x \in {N(0), N(1)}, y \in {U, N(-1)}}, "a1")
  \cup EvAll({OpSlice(v, N(1), y) : v \in 1..3, y \in {N(100), N(-1)}}, "a2")
  \cup EvAll({OpSub(v, x, y) : v \in 1..3, x \in {N(0), N(1)}, y \in {U, N(2)}}, "a1")
  \cup EvAll({OpSub(v, N(0), y) : v \in 1..3, y \in {N(2), N(100)}}, "a2")
  \cup {EvRJ(OpSetArr(v, <<N(1), N(-2), N(3)>>, x), j, 1, n) : v \in 1..3, x \in {U, N(1)}, j \in 1..3, n \in EvSizes}
  \cup {EvDJ(OpSetArr(v, <<N(1), N(-2), N(3)>>, x), j, 1) : v \in 1..3, x \in {U, N(1)}, j \in 1..3}
  \cup EvAll({OpSetArr(v, <<N(1), N(-2)>>, x) : v \in 1..3, x \in {N(0), N(1), N(-1)}}, "a1")
  \cup EvAll({OpDvGet(d, t, x, TRUE) : d \in 1..2, t \in {"Int8", "Int32"}, x \in {N(0), N(3), N(5), N(-1)}}, "a1")
  \cup EvAll({OpDvSet(d, t, x, N(-2), FALSE) : d \in 1..2, t \in {"Uint8", "Int16"}, x \in {N(0), N(3), N(6), N(-1)}}, "a1")
  \cup EvAll({OpDvSet(d, t, x, N(-3), TRUE) : d \in 1..2, t \in {"Uint8", "Uint32"}, x \in {N(0), N(3), N(6), N(-1)}}, "val")
  \cup EvAll({OpNewView(1, t, x, y) : t \in {"Uint8", "Int16"}, x \in {N(0), N(2), N(6)}, y \in {U, N(2)}}, "off")
  \cup EvAll({OpNewView(1, t, x, y) : t \in {"Uint8", "Int16"}, x \in {N(0), N(2), N(3)}, y \in {N(1), N(3)}}, "len")
  \cup EvAll({OpNewDv(1, x, y) : x \in {N(0), N(3), N(6)}, y \in {U, N(2), N(5)}}, "off")
  \cup EvAll({OpNewDv(1, x, y) : x \in {N(0), N(3), N(-1)}, y \in {N(2), N(5)}}, "len")
  \cup EvAll({OpALoad(v, x) : v \in 1..3, x \in {N(0), N(1), N(2)}}, "a1")
  \cup EvAll({OpAStore(v, x, N(-2)) : v \in 1..3, x \in {N(0), N(1), N(2)}}, "a1")
  \cup EvAll({OpAStore(v, x, N(-3)) : v \in 1..3, x \in {N(0), N(1), N(2)}}, "val")
  \cup EvAll({OpAAdd(v, x, N(77)) : v \in 1..3, x \in {N(0), N(1), N(2)}}, "val")
  \cup EvAll({OpBSlice(1, x, y) : x \in {N(0), N(2)}, y \in {U, N(6)}}, "a1")
  \cup EvAll({OpBSlice(1, N(1), y) : y \in {N(6), N(100)}}, "a2")

-----------------------------------------------------------------------------
(* Family C: element conversions (store paths, content-type conversion,      *)
(* DataView at every offset and endianness)                                  *)

\* one 8-byte fixed buffer with a view of every integer type, one 16-byte buffer as conversion source
SetupsC ==
  { Su("c1", <<B(8, Fixed), B(16, Fixed)>>,
       <<OpNewView(1, "Int8", U, U), OpNewView(1, "Uint8", U, U), OpNewView(1, "Uint8C", U, U),
         OpNewView(1, "Int16", U, U), OpNewView(1, "Uint16", U, U), OpNewView(1, "Int32", U, U),
         OpNewView(1, "Uint32", U, U),
         OpNewView(2, "Int8", U, U), OpNewView(2, "Uint8", U, U), OpNewView(2, "Uint8C", U, U),
         OpNewView(2, "Int16", U, U), OpNewView(2, "Uint16", U, U), OpNewView(2, "Int32", U, U),
         OpNewView(2, "Uint32", U, U), OpNewDv(1, U, U), OpNewDv(2, N(1), N(9))>>) }

\* byte images loaded into the source buffer (through the Uint8 view 9) before the conversions
SrcImages ==
  { <<N(239), N(255), N(128), N(127), N(0), N(1), N(254), N(129), N(255), N(255), N(255), N(127), N(0), N(0), N(0), N(128)>>,
    <<N(1), N(2), N(3), N(4), N(250), N(251), N(252), N(253), N(0), N(128), N(255), N(255), N(120), N(86), N(52), N(18)>> }
PathC == {OpSetArr(9, img, N(0)) : img \in SrcImages}
LeafC == PathC
  \cup {OpSet(v, "z", x) : v \in 1..7, x \in AllVals}
  \cup {OpFill(v, x, N(1), N(2)) : v \in 1..7, x \in AllVals}
  \cup {OpFromList(IntTypeSeq[v], <<x, N(1)>>) : v \in 1..7, x \in AllVals}
  \cup {OpSetArr(v, <<N(3), x>>, N(0)) : v \in 1..7, x \in AllVals}
  \cup {OpDvSet(1, t, N(0), x, le) : t \in DvTypes, x \in AllVals, le \in BOOLEAN}
  \cup {OpAStore(v, N(1), x) : v \in 1..7, x \in AllVals}
  \cup {OpAAdd(v, N(0), x) : v \in {1, 2, 4, 5, 6, 7}, x \in IntVals \cup FracVals}
  \cup {OpALoad(v, N(1)) : v \in 1..14}
  \cup {OpFromTA(IntTypeSeq[v], w) : v \in 1..7, w \in 8..14}
  \cup {OpSetTA(v, w, N(0)) : v \in 1..7, w \in {8, 9, 10}} \cup {OpSetTA(v, w, N(0)) : v \in {1, 2, 3}, w \in 11..14}
  \cup {OpSlice(v, N(1), N(-1)) : v \in 8..14}
  \cup {OpDvGet(d, t, N(o), le) : d \in 1..2, t \in DvTypes, o \in 0..9, le \in BOOLEAN}
  \cup {OpDvSet(d, t, N(o), N(-19088744), le) : d \in 1..2, t \in DvTypes, o \in 0..9, le \in BOOLEAN}

-----------------------------------------------------------------------------
(* Family O: overlapping copies inside one buffer                            *)

SetupsO ==
  { Su("o1", <<B(16, Fixed)>>, <<OpNewView(1, "Uint8", U, U), OpNewView(1, "Uint8", N(4), N(8)),
                               OpNewView(1, "Uint16", N(2), N(5)), OpNewView(1, "Int32", N(4), N(2))>>),
    Su("o2", <<B(16, 24)>>, <<OpNewView(1, "Int8", N(2), U), OpNewView(1, "Uint8C", N(0), N(12)),
                            OpNewView(1, "Int16", N(4), U), OpNewView(1, "Uint32", N(8), N(2))>>) }
PathO == {OpCw(1, N(2), N(0), N(9)), OpSetTA(2, 3, N(1)), OpFill(3, N(-2), N(1), N(3)), OpResize(1, N(12)), OpResize(1, N(20))}
LeafO == PathO
  \cup {OpCw(v, N(x), N(y), z) : v \in 1..4, x \in {0, 1, 2, 5, -2}, y \in {0, 1, 3, -3}, z \in {U, N(4), N(-1)}}
  \cup {OpSetTA(v, w, N(x)) : v \in 1..4, w \in 1..4, x \in {0, 1, 2, 4, 9}}
  \cup {OpSlice(v, N(x), y) : v \in 1..4, x \in {0, 1, 3}, y \in {U, N(-1)}}
  \cup {OpFill(v, N(-3), N(x), y) : v \in 1..4, x \in {0, 2}, y \in {U, N(3)}}
  \cup {OpSub(v, N(1), U) : v \in 1..4}

-----------------------------------------------------------------------------
(* Family X: construction of views and DataViews over every kind of buffer   *)

SetupsX == { Su("x1", <<B(8, Fixed), B(8, 12), SB(6, 8)>>, <<>>) }
PathX == {OpResize(2, N(5)), OpResize(2, N(12)), OpDetach(1), K(OpTransfer(2, U, FALSE)), OpGrow(3, N(8))}
OffsX == {U, N(-1), N(0), N(1), N(2), N(3), N(4), N(5), N(6), N(7), N(8), N(9), N(12), N(13), FinQ(2, 2), FinW(0, "p32"), FinW(0, "p53"), PInf}
LensX == {U, N(-1), N(0), N(1), N(2), N(3), N(4), N(6), N(8), N(9), N(12), FinW(0, "p32"), FinW(0, "p53")}
LeafX == PathX
  \cup {OpNewView(b, t, x, y) : b \in 1..3, t \in ElemTypes, x \in OffsX, y \in LensX}
  \cup {OpNewDv(b, x, y) : b \in 1..3, x \in OffsX, y \in LensX}

-----------------------------------------------------------------------------
(* Family F: float / BigInt views, byte level (bit-pattern round trips)      *)

SetupsF ==
  { Su("f1", <<B(16, 24), B(16, Fixed)>>,
       <<OpNewView(1, "Uint8", U, U), OpNewView(1, "Float32", N(4), U), OpNewView(1, "Float64", U, N(2)),
         OpNewView(2, "Float32", U, U), OpNewView(2, "Uint8", U, U)>>),
    Su("f2", <<B(16, 24), B(16, Fixed)>>,
       <<OpNewView(1, "Uint8", U, U), OpNewView(1, "BigInt64", N(8), U), OpNewView(1, "Float16", N(2), N(6)),
         OpNewView(2, "BigUint64", U, U), OpNewView(2, "Float16", N(4), U)>>) }
\* special patterns: +-0, +-Infinity, subnormals, a quiet NaN (the round trip is then disabled), extremes
FloatImages ==
  { <<N(0), N(0), N(0), N(128), N(0), N(0), N(128), N(127), N(1), N(0), N(0), N(0), N(255), N(255), N(127), N(255)>>,
    <<N(0), N(0), N(0), N(0), N(0), N(0), N(240), N(127), N(0), N(0), N(0), N(0), N(0), N(0), N(240), N(255)>>,
    <<N(0), N(124), N(1), N(0), N(0), N(252), N(255), N(123), N(0), N(0), N(192), N(127), N(1), N(0), N(128), N(0)>>,
    <<N(24), N(45), N(68), N(84), N(251), N(33), N(9), N(64), N(255), N(255), N(255), N(255), N(255), N(255), N(239), N(127)>> }
PathF == {OpSetArr(1, img, N(0)) : img \in FloatImages} \cup {OpResize(1, N(12)), OpResize(1, N(24))}
LeafF == PathF
  \cup {OpFCopy(v, ic, jc) : v \in 2..5, ic \in {"z", "last", "mid"}, jc \in {"z", "last", "mid"}}
  \cup {OpCw(v, N(x), N(y), U) : v \in 2..5, x \in {0, 1}, y \in {0, 1, 2}}
  \cup {OpSetTA(v, w, N(x)) : v \in 2..5, w \in 2..5, x \in {0, 1}}
  \cup {OpSlice(v, N(x), U) : v \in 2..5, x \in {0, 1}}
  \cup {OpFromTA(t, v) : t \in {"Float32", "Float64", "BigInt64", "BigUint64", "Float16", "Uint8"}, v \in 2..5}
  \cup {OpSub(v, N(1), y) : v \in 2..5, y \in {U, N(2)}}

-----------------------------------------------------------------------------
(* Family R: long random histories over a mixed alphabet (-simulate)         *)

SetupsR == SetupsG \cup SetupsO
LeafR ==
  {OpResize(1, N(n)) : n \in {0, 2, 4, 7, 8, 10, 12, 16, 20, 24}} \cup {OpGrow(1, N(6)), OpGrow(1, N(8))}
  \cup {K(OpTransfer(b, x, fx)) : b \in 1..3, x \in {U, N(6), N(12)}, fx \in BOOLEAN} \cup {OpDetach(b) : b \in 1..3}
  \cup {K(OpBSlice(b, x, y)) : b \in 1..2, x \in {U, N(2)}, y \in {U, N(-1)}}
  \cup {K(OpNewView(b, t, x, y)) : b \in 1..3, t \in {"Uint8", "Int16", "Uint32", "Uint8C"}, x \in {U, N(2), N(4)}, y \in {U, N(2)}}
  \cup {K(OpNewDv(b, x, y)) : b \in 1..3, x \in {U, N(2)}, y \in {U, N(4)}}
  \cup {OpSet(v, ic, x) : v \in 1..5, ic \in {"m1", "z", "last", "len"}, x \in FewVals}
  \cup {OpGet(v, ic) : v \in 1..5, ic \in {"z", "mid", "last", "len"}}
  \cup {OpFill(v, x, y, z) : v \in 1..5, x \in FewVals, y \in {U, N(1), N(-2)}, z \in {U, N(-1)}}
  \cup {OpCw(v, x, y, z) : v \in 1..5, x \in {N(0), N(1), N(-2)}, y \in {N(0), N(1), N(3)}, z \in {U, N(-1)}}
  \cup {OpSetArr(v, <<N(300), N(-2), FinQ(1, 2)>>, x) : v \in 1..5, x \in {U, N(1), N(2)}}
  \cup {OpSetTA(v, w, x) : v \in 1..5, w \in 1..5, x \in {U, N(1), N(2)}}
  \cup {K(OpSub(v, x, y)) : v \in 1..5, x \in {U, N(1), N(-1)}, y \in {U, N(2)}}
  \cup {OpSlice(v, x, y) : v \in 1..5, x \in {U, N(1)}, y \in {U, N(-1)}}
  \cup {OpFromTA(t, v) : t \in {"Uint8", "Int16", "Int32"}, v \in 1..5}
  \cup {OpDvGet(d, t, N(o), le) : d \in 1..3, t \in {"Int8", "Uint16", "Int32"}, o \in {0, 1, 4, 6}, le \in BOOLEAN}
  \cup {OpDvSet(d, t, N(o), x, le) : d \in 1..3, t \in {"Uint8", "Int16", "Uint32"}, o \in {0, 3, 5}, x \in {N(-2), N(305419896)}, le \in BOOLEAN}
  \cup {EvR(op, "val", 1, n) : op \in {OpSet(v, "last", N(-3)) : v \in 1..5} \cup {OpFill(v, N(-4), N(1), U) : v \in 1..5}
                                       \cup {OpDvSet(d, "Int16", N(3), N(-5), TRUE) : d \in 1..3}, n \in {2, 7, 12, 20}}
  \cup {EvR(op, "a1", 1, n) : op \in {OpCw(v, N(1), N(0), U) : v \in 1..5} \cup {OpSlice(v, N(1), U) : v \in 1..5}
                                      \cup {K(OpSub(v, N(1), U)) : v \in 1..5} \cup {OpDvGet(d, "Int32", N(2), FALSE) : d \in 1..3}
                                      \cup {K(OpBSlice(1, N(1), N(7)))}, n \in {2, 7, 12, 20}}
  \cup {EvRJ(OpSetArr(v, <<N(9), N(-9)>>, N(1)), 2, 1, n) : v \in 1..5, n \in {2, 7, 12}}
  \cup {EvD(OpFill(v, N(-6), N(0), U), "val", 1) : v \in 1..5}
  \cup {OpALoad(v, N(x)) : v \in 1..5, x \in {0, 1, 3}} \cup {OpAStore(v, N(x), N(-7)) : v \in 1..5, x \in {0, 1, 3}}
  \cup {OpAAdd(v, N(x), N(255)) : v \in 1..5, x \in {0, 1, 3}}
  \cup {EvR(OpAStore(v, N(1), N(5)), "val", 1, n) : v \in 1..5, n \in {2, 8, 12}}

\* C15_SETUP=<id> in the environment restricts a catalogue to one set-up (one TLC process per set-up)
Sel(S) == IF "C15_SETUP" \in DOMAIN IOEnv /\ IOEnv.C15_SETUP # "" THEN {su \in S : su.id = IOEnv.C15_SETUP} ELSE S
SelG == Sel(SetupsG)   SelC == Sel(SetupsC)   SelO == Sel(SetupsO)
SelX == Sel(SetupsX)   SelF == Sel(SetupsF)   SelR == Sel(SetupsR)   SelE == Sel(SetupsE)

ASSUME \A su \in Setups : SetupOK(su)
ASSUME PathOps \subseteq LeafOps

\* emitted once per initial state when edges are emitted: the expected observation of the set-up
EmitInit == (EmitEdges /\ depth = 0) => PrintT(<<"INIT", ToJson(hist[1])>>)
=============================================================================
