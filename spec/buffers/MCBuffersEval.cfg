CONSTANTS
  Setups <- EvalSetups
  PathOps <- NoOps
  LeafOps <- NoOps
  MaxDepth = 99
  MaxBufs = 4
  MaxViews = 16
  MaxDvs = 4
  EmitEdges = FALSE
INIT Init
NEXT NextScript
INVARIANT TypeOK
INVARIANT InBounds
INVARIANT ViewsWithin
INVARIANT DvWithin
INVARIANT OobReportsZero
INVARIANT DetachedEmpty
INVARIANT MaxRespected
INVARIANT EmitScript
CHECK_DEADLOCK FALSE
