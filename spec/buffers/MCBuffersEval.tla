---------------------------- MODULE MCBuffersEval ----------------------------
(***************************************************************************)
(* Scripted instance of Buffers.tla: the histories to evaluate are read    *)
(* from the ndjson file named by the environment variable C15_HISTS (one   *)
(* object {id, bufs, mk, ops} per line).  Used to re-evaluate a stored     *)
(* replay and to shrink failing histories: the model, not the driver,      *)
(* recomputes the expected observations of every candidate.                *)
(***************************************************************************)
EXTENDS MCBuffers

Hists == ndJsonDeserialize(IOEnv.C15_HISTS)
EvalSetups == {Hists[i] : i \in 1..Len(Hists)}
NoOps == {}
=============================================================================
