CONSTANTS
  Setups <- SelX
  PathOps <- PathX
  LeafOps <- LeafX
  MaxDepth = 0
  MaxBufs = 4
  MaxViews = 16
  MaxDvs = 4
  EmitEdges = TRUE
INIT Init
NEXT Next
VIEW StateView
INVARIANT TypeOK
INVARIANT InBounds
INVARIANT ViewsWithin
INVARIANT DvWithin
INVARIANT OobReportsZero
INVARIANT DetachedEmpty
INVARIANT MaxRespected
INVARIANT EmitInit
PROPERTY FixedNeverResizes
PROPERTY DetachIsForever
PROPERTY SharedNeverShrinks
PROPERTY ViewsImmutable
CHECK_DEADLOCK FALSE
