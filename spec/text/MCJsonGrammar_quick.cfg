CONSTANTS
  MaxLen = 5
  MaxWs = 5
  MaxBody = 5
  MinEmit = 0
SPECIFICATION Spec
INVARIANT TypeOK
INVARIANT GrammarAgree
INVARIANT Balanced
INVARIANT CompletionOK
INVARIANT DeadStaysDead
INVARIANT ValueOK
INVARIANT EmitInv
CHECK_DEADLOCK FALSE
