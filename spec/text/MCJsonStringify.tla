--------------------------- MODULE MCJsonStringify ---------------------------
(***************************************************************************)
(* Value-tree builder for the Stringify part of C18.  A behaviour picks a  *)
(* configuration (replacer, space), then builds one ECMAScript value       *)
(* bottom-up with a stack of open containers (choose a shape, then fill    *)
(* it in), bounded in nesting depth, width and node count.  When the value *)
(* is complete the reference text Stringify(value, replacer, space) is     *)
(* emitted.  Checked exhaustively for small bounds (BFS) and by seeded     *)
(* simulation for the larger ones.                                         *)
(***************************************************************************)
EXTENDS JsonStringify, Json

CONSTANTS MaxDepth,     \* nesting of containers
          MaxWidth,     \* children per container
          MaxNodes,     \* values per tree
          Small,        \* TRUE: reduced configuration and leaf sets (exhaustive runs)
          Gate          \* TRUE: also evaluate the read-back invariants

VARIABLES stack, root, done, pend, nodes, rep, space
vars == <<stack, root, done, pend, nodes, rep, space>>

R(n, d) == JNum(NRat(FALSE, n, d))
SAdv == <<97, 34, 92, 10, 31, 233, 8232>>         \* a " \ LF US e-acute LS
LeavesFull == { JUndef, JNull, JBool(TRUE), JBool(FALSE),
                JNum(NZero(FALSE)), JNum(NZero(TRUE)), R(1, 1), R(3, 2), JNum(NRat(TRUE, 5, 4)), R(123456, 1),
                JNum(NNaN), JNum(NInf(FALSE)), JNum(NInf(TRUE)),
                JStr(<<>>), JStr(<<97>>), JStr(SAdv), JStr(<<55296, 97>>), JStr(<<56320>>), JStr(<<55357, 56832>>),
                JStr(<<8, 12, 13, 9, 0, 127>>),
                JFn, JSym, JBig, JBox(R(2, 1)), JBox(JStr(<<98>>)), JBox(JBool(FALSE)) }
LeavesSmall == { JUndef, JNull, JBool(TRUE), JNum(NZero(TRUE)), R(3, 2), JNum(NNaN),
                 JStr(SAdv), JStr(<<55296, 97>>), JFn, JBox(R(2, 1)) }
Leaves == IF Small THEN LeavesSmall ELSE LeavesFull

\* a b x "" 1 0 10 __proto__ key-with-quote-and-lone-surrogate
KeysFull == { <<97>>, <<98>>, <<120>>, <<>>, <<49>>, <<48>>, <<49, 48>>, KProto, <<34, 56320, 10>> }
KeysSmall == { <<97>>, <<98>>, <<49>>, KProto }
Keys == IF Small THEN KeysSmall ELSE KeysFull
Tojs == IF Small THEN {"none", "key"} ELSE {"none", "none", "key", "undef", "num", "x"}

RepsFull == { RNone,
              RList(<< JStr(<<97>>) >>), RList(<< JStr(<<98>>), JStr(<<97>>), JStr(<<98>>) >>),
              RList(<< R(1, 1), JStr(<<97>>), JNull, JNum(NZero(TRUE)) >>),
              RList(<< JBox(JStr(<<120>>)), JBox(R(10, 1)), JBool(TRUE), JStr(KProto) >>),
              RList(<< >>),
              RFn("id"), RFn("dropb"), RFn("numN"), RFn("wrap") }
RepsSmall == { RNone, RList(<< JStr(<<98>>), JStr(<<97>>), JStr(<<98>>) >>), RFn("dropb"), RFn("wrap") }
SpacesFull == { JUndef, JNull, JBool(TRUE), JNum(NZero(FALSE)), R(1, 1), R(2, 1), R(10, 1), R(11, 1), R(5, 2),
                JNum(NRat(TRUE, 1, 1)), JNum(NInf(FALSE)), JNum(NInf(TRUE)), JNum(NNaN),
                JStr(<<9>>), JStr(<<45, 45>>), JStr(<<>>), JStr(<<97, 98, 99, 100, 101, 102, 103, 104, 105, 106, 107>>),
                JStr(<<32, 9, 32, 9, 32, 9, 32, 9, 32, 9, 10>>),
                JBox(R(3, 1)), JBox(JStr(<<45>>)), JBox(JBool(TRUE)) }
SpacesSmall == { JUndef, R(2, 1), JStr(<<9>>), R(11, 1), JStr(<<32, 9, 32, 9, 32, 9, 32, 9, 32, 9, 10>>) }   \* two of them beyond the clamp

Frame2(kind, key, toj) == [kind |-> kind, key |-> key, toj |-> toj, items |-> <<>>]

Init == /\ stack = <<>> /\ root = JUndef /\ done = FALSE /\ pend = "none" /\ nodes = 0
        /\ rep \in (IF Small THEN RepsSmall ELSE RepsFull)
        /\ space \in (IF Small THEN SpacesSmall ELSE SpacesFull)

CanAdd == nodes < MaxNodes /\ (stack = <<>> \/ Len(stack[Len(stack)].items) < MaxWidth)
KeyChoices == IF stack # <<>> /\ stack[Len(stack)].kind = "obj" THEN Keys ELSE { <<>> }

\* a complete value v (defined under key) goes to the parent, or becomes the root
Deliver(stk, key, v) ==
  IF stk = <<>> THEN /\ root' = v /\ done' = TRUE /\ stack' = stk
  ELSE LET n == Len(stk) f == stk[n] IN
       /\ stack' = [stk EXCEPT ![n].items = Append(f.items, IF f.kind = "obj" THEN [k |-> key, v |-> v] ELSE v)]
       /\ UNCHANGED <<root, done>>

ChooseShape ==
  /\ ~done /\ pend = "none"
  /\ pend' \in ({"leaf" : x \in {1} \cap {y \in {1} : CanAdd}}
                \cup {s \in {"arr", "obj"} : CanAdd /\ Len(stack) < MaxDepth}
                \cup {s \in {"close"} : stack # <<>>})
  /\ UNCHANGED <<stack, root, done, nodes, rep, space>>
FillLeaf ==
  /\ pend = "leaf" /\ pend' = "none" /\ nodes' = nodes + 1
  /\ \E l \in Leaves, key \in KeyChoices : Deliver(stack, key, l)
  /\ UNCHANGED <<rep, space>>
FillOpen ==
  /\ pend \in {"arr", "obj"} /\ pend' = "none" /\ nodes' = nodes + 1
  /\ \E key \in KeyChoices, toj \in (IF pend = "obj" THEN Tojs ELSE {"none"}) :
        stack' = Append(stack, Frame2(pend, key, toj))
  /\ UNCHANGED <<root, done, rep, space>>
FillClose ==
  /\ pend = "close" /\ pend' = "none"
  /\ LET n == Len(stack) f == stack[n] IN
       Deliver(SubSeq(stack, 1, n - 1), f.key, IF f.kind = "arr" THEN JArr(f.items) ELSE JObj(f.items, f.toj))
  /\ UNCHANGED <<nodes, rep, space>>
Next == ChooseShape \/ FillLeaf \/ FillOpen \/ FillClose
Spec == Init /\ [][Next]_vars

(***************************************************************************)
(* Model gate                                                              *)
(***************************************************************************)
Out == Stringify(root, rep, space)

TypeOK == /\ Len(stack) <= MaxDepth /\ nodes <= MaxNodes /\ pend \in {"none", "leaf", "arr", "obj", "close"}
          /\ \A i \in 1..Len(stack) : Len(stack[i].items) <= MaxWidth

GapIsWs == \A i \in 1..Len(GapOf(space)) : GapOf(space)[i] \in {32, 9, 10, 13}
\* the gap never exceeds ten units
GapOK == Len(GapOf(space)) <= 10

(* Properties of the reference text `out` of a complete value:                                            *)
(*  ValidJson  provided the gap consists of JSON whitespace (a gap such as "--" is copied into the text   *)
(*             as it is), the text is a JSON text for the machine of JsonGrammar;                         *)
(*  RoundTrip  for a JSON-representable value without replacer it reads back as the value itself;         *)
(*  RootOK     without a replacer a JSON-typed root never gives undefined.                                *)
OutOK(out) ==
  LET fin == ParseText(out.s) IN
  /\ (Gate /\ out.r = "str" /\ GapIsWs) => Accepting(fin)
  /\ (Gate /\ rep.k = "none" /\ Representable(root) /\ GapIsWs) => (out.r = "str" /\ FinalValue(fin) = AsJson(root))
  /\ (rep.k = "none" /\ root.t \in {"null", "bool", "num", "str", "arr"}) => out.r # "undef"

\* model gate and emission in one invariant (the reference text is computed once per complete value)
CheckAndEmit ==
  done => LET out == Out IN
          /\ OutOK(out)
          /\ PrintT(<<"TREE", ToJson([v |-> root, rep |-> rep, space |-> space, out |-> out,
                                      gap |-> GapOf(space), gapws |-> GapIsWs])>>)
=============================================================================
