------------------------------ MODULE JsString ------------------------------
(***************************************************************************)
(* Reference semantics of boa_string: a string IS its sequence of UTF-16   *)
(* code units.  Every public operation of the crate is an operator on      *)
(* Seq(0..65535).  The state machine is the string builder: the state is   *)
(* the sequence built so far, the only action appends one code unit, so    *)
(* the reachable states are exactly all sequences up to the bound.         *)
(* Positions in emitted observations are 0-based (as in the Rust API).     *)
(***************************************************************************)
EXTENDS Naturals, Integers, Sequences, FiniteSets, SequencesExt, TLC, Json

CONSTANTS Alphabet,      \* code units pushed by the builder
          MaxLen,        \* bound on the built sequence
          OtherMaxLen    \* bound on the second operand of binary operations

VARIABLE u

IsHigh(c) == c >= 55296 /\ c <= 56319      \* D800..DBFF
IsLow(c)  == c >= 56320 /\ c <= 57343      \* DC00..DFFF
IsSurr(c) == IsHigh(c) \/ IsLow(c)

\* ECMAScript WhiteSpace + LineTerminator (what String.prototype.trim removes)
IsWs(c) == \/ c \in {9, 10, 11, 12, 13, 32, 160, 5760, 8232, 8233, 8239, 8287, 12288, 65279}
           \/ (c >= 8192 /\ c <= 8202)

\* CodePointAt(string, position) of ECMA-262 6.1.4 / 11.1.4; i is 1-based here
CodePointAt(s, i) ==
  LET first == s[i] IN
  IF ~IsSurr(first) THEN [cp |-> first, n |-> 1, unpaired |-> FALSE]
  ELSE IF IsLow(first) \/ i = Len(s) THEN [cp |-> first, n |-> 1, unpaired |-> TRUE]
  ELSE IF ~IsLow(s[i + 1]) THEN [cp |-> first, n |-> 1, unpaired |-> TRUE]
  ELSE [cp |-> (first - 55296) * 1024 + (s[i + 1] - 56320) + 65536, n |-> 2, unpaired |-> FALSE]

RECURSIVE CodePointsFrom(_, _)
CodePointsFrom(s, i) ==
  IF i > Len(s) THEN <<>>
  ELSE LET r == CodePointAt(s, i) IN <<r>> \o CodePointsFrom(s, i + r.n)
CodePoints(s) == CodePointsFrom(s, 1)

WellFormed(s) == \A k \in 1..Len(CodePoints(s)) : ~CodePoints(s)[k].unpaired

\* to_std_string_lossy: every unpaired surrogate becomes U+FFFD; result re-encoded as code units
RECURSIVE LossyFrom(_, _)
LossyFrom(s, i) ==
  IF i > Len(s) THEN <<>>
  ELSE LET r == CodePointAt(s, i) IN
       (IF r.unpaired THEN <<65533>> ELSE SubSeq(s, i, i + r.n - 1)) \o LossyFrom(s, i + r.n)
Lossy(s) == LossyFrom(s, 1)

RECURSIVE TrimStart(_)
TrimStart(s) == IF s # <<>> /\ IsWs(Head(s)) THEN TrimStart(Tail(s)) ELSE s
RECURSIVE TrimEnd(_)
TrimEnd(s) == IF s # <<>> /\ IsWs(s[Len(s)]) THEN TrimEnd(SubSeq(s, 1, Len(s) - 1)) ELSE s
Trim(s) == TrimEnd(TrimStart(s))

\* slice(p1, p2) with 0-based half-open bounds, 0 <= p1 <= p2 <= Len
Slice(s, p1, p2) == SubSeq(s, p1 + 1, p2)

IsPrefixOf(n, s) == Len(n) <= Len(s) /\ SubSeq(s, 1, Len(n)) = n
IsSuffixOf(n, s) == Len(n) <= Len(s) /\ SubSeq(s, Len(s) - Len(n) + 1, Len(s)) = n

\* StringIndexOf(string, searchValue, fromIndex) (0-based; -1 = not found)
IndexOf(s, n, from) ==
  IF n = <<>> THEN (IF from <= Len(s) THEN from ELSE -1)
  ELSE LET hits == {i \in from..(Len(s) - Len(n)) : SubSeq(s, i + 1, i + Len(n)) = n}
       IN IF hits = {} THEN -1 ELSE CHOOSE i \in hits : \A j \in hits : i <= j

\* code-unit lexicographic order: -1, 0, 1
RECURSIVE Cmp(_, _)
Cmp(a, b) ==
  IF a = <<>> /\ b = <<>> THEN 0
  ELSE IF a = <<>> THEN -1
  ELSE IF b = <<>> THEN 1
  ELSE IF Head(a) < Head(b) THEN -1
  ELSE IF Head(a) > Head(b) THEN 1
  ELSE Cmp(Tail(a), Tail(b))

\* StringToNumber restricted to what the alphabet can spell: optional sign and decimal digits.
Digit(c) == c >= 48 /\ c <= 57
RECURSIVE DigitsValue(_, _)
DigitsValue(s, acc) == IF s = <<>> THEN acc ELSE DigitsValue(Tail(s), acc * 10 + (Head(s) - 48))
ToNumber(s) ==
  LET t == Trim(s) IN
  IF ~WellFormed(s) THEN [k |-> "nan"]
  ELSE IF t = <<>> THEN [k |-> "int", v |-> 0, neg |-> FALSE]
  ELSE LET neg  == Head(t) = 45
           body == IF Head(t) \in {43, 45} THEN Tail(t) ELSE t
       IN IF body # <<>> /\ (\A i \in 1..Len(body) : Digit(body[i]))
          THEN (IF Len(body) <= 9 THEN [k |-> "int", v |-> DigitsValue(body, 0), neg |-> neg]
                ELSE [k |-> "skip"])                      \* beyond TLC's 32-bit integers
          ELSE IF \E i \in 1..Len(t) : t[i] \in {46, 69, 101, 73, 110, 120, 88, 98, 66, 111, 79, 95}
               THEN [k |-> "skip"]     \* spellings of the numeric grammar this model does not cover
               ELSE [k |-> "nan"]

\* all 0 <= p1 <= p2 <= Len(s), as a sequence
SliceBounds(s) == SetToSeq({<<p1, p2>> \in (0..Len(s)) \X (0..Len(s)) : p1 <= p2})

Seqs(n) == UNION {[1..k -> Alphabet] : k \in 0..n}

(***************************************************************************)
(* Properties of the reference itself (checked by TLC in every state).     *)
(***************************************************************************)
RefOK ==
  /\ Len(Lossy(u)) = Len(u)                       \* lossy replacement preserves the unit count (BMP replacement)
  /\ WellFormed(Lossy(u))
  /\ (WellFormed(u) => Lossy(u) = u)
  /\ Trim(Trim(u)) = Trim(u)
  /\ \A p1 \in 0..Len(u) : \A p2 \in p1..Len(u) :
        Slice(u, 0, p1) \o Slice(u, p1, p2) \o Slice(u, p2, Len(u)) = u
  /\ \A v \in Seqs(OtherMaxLen) :
        /\ (Cmp(u, v) = 0) = (u = v)
        /\ Cmp(u, v) = -Cmp(v, u)
        /\ IndexOf(u \o v, v, 0) # -1
        /\ IsPrefixOf(v, v \o u) /\ IsSuffixOf(v, u \o v)

(***************************************************************************)
(* Observations emitted for conformance (one line per reachable string).   *)
(***************************************************************************)
Unary(s) ==
  [u      |-> s,
   cps    |-> [k \in 1..Len(CodePoints(s)) |-> <<CodePoints(s)[k].cp, CodePoints(s)[k].n, CodePoints(s)[k].unpaired>>],
   cpat   |-> [i \in 1..Len(s) |-> <<CodePointAt(s, i).cp, CodePointAt(s, i).unpaired>>],
   wf     |-> WellFormed(s),
   lossy  |-> Lossy(s),
   trim   |-> Trim(s), trims |-> TrimStart(s), trime |-> TrimEnd(s),
   num    |-> ToNumber(s),
   slices |-> [k \in 1..Len(SliceBounds(s)) |-> <<SliceBounds(s)[k][1], SliceBounds(s)[k][2], Slice(s, SliceBounds(s)[k][1], SliceBounds(s)[k][2])>>]]

Binary(s, v) ==
  [v   |-> v,
   cmp |-> Cmp(s, v),
   sw  |-> IsPrefixOf(v, s), ew |-> IsSuffixOf(v, s),
   idx |-> [f \in 1..(Len(s) + 2) |-> IndexOf(s, v, f - 1)]]

Emit == PrintT(<<"REPLAY", ToJson([un |-> Unary(u), bin |-> [v \in Seqs(OtherMaxLen) |-> Binary(u, v)]])>>)

Init == u = <<>>
Push(c) == Len(u) < MaxLen /\ u' = Append(u, c)
Next == \E c \in Alphabet : Push(c)
Spec == Init /\ [][Next]_u
=============================================================================
