CONSTANTS
  Alphabet <- AlphaFull
  MaxLen = 2
  OtherMaxLen = 1
INIT Init
NEXT Next
INVARIANT RefOK
INVARIANT EmitInv
CHECK_DEADLOCK FALSE
