CONSTANTS
  Alphabet <- AlphaSmall
  MaxLen = 5
  OtherMaxLen = 2
INIT Init
NEXT Next
INVARIANT RefOK
INVARIANT EmitInv
CHECK_DEADLOCK FALSE
