CONSTANTS
  MaxDepth = 3
  MaxWidth = 3
  MaxNodes = 12
  Small = FALSE
  Gate = TRUE
SPECIFICATION Spec
INVARIANT TypeOK
INVARIANT ValidJson
INVARIANT RoundTrip
INVARIANT GapOK
INVARIANT RootOK
INVARIANT EmitInv
CHECK_DEADLOCK FALSE
