CONSTANTS
  MaxDepth = 3
  MaxWidth = 3
  MaxNodes = 12
  Small = FALSE
  Gate = TRUE
SPECIFICATION Spec
INVARIANT TypeOK
INVARIANT GapOK
INVARIANT CheckAndEmit
CHECK_DEADLOCK FALSE
