CONSTANTS
  MaxDepth = 2
  MaxWidth = 3
  MaxNodes = 8
  Small = FALSE
  Gate = TRUE
SPECIFICATION Spec
INVARIANT TypeOK
INVARIANT ValidJson
INVARIANT RoundTrip
INVARIANT GapOK
INVARIANT RootOK
INVARIANT EmitInv
CHECK_DEADLOCK FALSE
