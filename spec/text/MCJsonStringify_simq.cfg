CONSTANTS
  MaxDepth = 2
  MaxWidth = 3
  MaxNodes = 8
  Small = FALSE
  Gate = TRUE
SPECIFICATION Spec
INVARIANT TypeOK
INVARIANT GapOK
INVARIANT CheckAndEmit
CHECK_DEADLOCK FALSE
