------------------------------ MODULE JsonGrammar ------------------------------
(***************************************************************************)
(* C18 - the JSON text grammar (ECMA-404, as referenced by ECMA-262        *)
(* 25.5.1 JSON.parse) and the value JSON.parse must produce.               *)
(*                                                                         *)
(* The text is seen as a sequence of TOKENS; a token is a short sequence   *)
(* of UTF-16 code units (one unit, a backslash escape, or one of the three *)
(* literal words) and has a CLASS.  The recogniser is a pushdown machine   *)
(* that consumes one token per step: state = control mode + stack of open  *)
(* containers (+ the value under construction).  Its control and stack     *)
(* transitions depend on the token's class only; the code units are used   *)
(* only to build values.  A second, relational transcription of the        *)
(* ECMA-404 productions (InGrammar) is kept next to the machine and the    *)
(* model gate checks that both accept the same class strings.              *)
(*                                                                         *)
(* Value mapping (ECMA-262 25.5.1 steps 4-10, 13.2.5 with the JSON.parse   *)
(* rule that __proto__ is an ordinary key, CreateDataProperty for          *)
(* duplicates, 10.1.11.1 OrdinaryOwnPropertyKeys for the key order):       *)
(*   numbers  by StringToNumber, restricted to a small exactly             *)
(*            representable domain plus signed zero, overflow to           *)
(*            +-Infinity (exact) and deep underflow to +-0; the rest "out" *)
(*            (accepted, value not prescribed here - property C13);        *)
(*   strings  are code-unit sequences (escapes decoded, lone surrogates    *)
(*            and U+2028/2029 kept as they are);                           *)
(*   objects  keep the first position of a duplicated key and its last     *)
(*            value; array-index keys come first in ascending order.       *)
(***************************************************************************)
EXTENDS Naturals, Integers, Sequences, FiniteSets, SequencesExt, TLC

(***************************************************************************)
(* Code units and token classes                                            *)
(***************************************************************************)
IsHexUnit(c) == (c >= 48 /\ c <= 57) \/ (c >= 65 /\ c <= 70) \/ (c >= 97 /\ c <= 102)
HexDigitVal(c) == IF c <= 57 THEN c - 48 ELSE IF c <= 70 THEN c - 55 ELSE c - 87
Hex4(u, i) == HexDigitVal(u[i]) * 4096 + HexDigitVal(u[i + 1]) * 256
              + HexDigitVal(u[i + 2]) * 16 + HexDigitVal(u[i + 3])

\* ECMAScript WhiteSpace that is NOT JSON whitespace and not a C0 control (NBSP, OGHAM SPACE, the
\* U+2000 block, NNBSP, MMSP, IDEOGRAPHIC SPACE, BOM/ZWNBSP).  VT and FF are C0 controls (class CTL).
IsJsOnlySpace(c) == c \in {160, 5760, 8239, 8287, 12288, 65279} \/ (c >= 8192 /\ c <= 8202)
IsSurrogate(c) == c >= 55296 /\ c <= 57343
IsHighSurr(c) == c >= 55296 /\ c <= 56319

Classes == {"LBRACK", "RBRACK", "LBRACE", "RBRACE", "COLON", "COMMA",
            "SP",      \* U+0020: JSON whitespace, ordinary character inside a string
            "WSC",     \* TAB, LF, CR: JSON whitespace, raw control character inside a string
            "UWS",     \* other Unicode spaces: never whitespace in JSON
            "LS",      \* U+2028 / U+2029: line terminators of ECMAScript, ordinary characters in JSON strings
            "CTL",     \* other C0 controls (NUL, BS, VT, FF, 0x1F ...)
            "MINUS", "PLUS", "ZERO", "DIGIT", "DOT", "EXP",
            "QUOTE",
            "PLAIN",   \* any other unit: letters, DEL, non-ASCII, apostrophe, slash ...
            "SURR",    \* a raw surrogate code unit (paired or not)
            "ESC",     \* backslash + one of " \ / b f n r t
            "U4", "U4HI", "U4LO",   \* \uXXXX: not a surrogate / high surrogate / low surrogate
            "BADESC",  \* backslash + anything else, truncated \u, lone backslash
            "LIT"}     \* true false null

Ws == {"SP", "WSC"}
Digits == {"ZERO", "DIGIT"}
\* classes that end the string, are decoded, or are illegal inside a string; all others insert themselves
StrEscapes == {"ESC", "U4", "U4HI", "U4LO"}
StrIllegal == {"BADESC", "CTL", "WSC"}

UnitClass(c) ==
  CASE c = 91 -> "LBRACK" [] c = 93 -> "RBRACK" [] c = 123 -> "LBRACE" [] c = 125 -> "RBRACE"
    [] c = 58 -> "COLON"  [] c = 44 -> "COMMA"  [] c = 32 -> "SP"
    [] c \in {9, 10, 13} -> "WSC"
    [] c < 32 /\ c \notin {9, 10, 13} -> "CTL"
    [] c = 45 -> "MINUS"  [] c = 43 -> "PLUS"   [] c = 48 -> "ZERO"
    [] c >= 49 /\ c <= 57 -> "DIGIT"
    [] c = 46 -> "DOT"    [] c \in {69, 101} -> "EXP"
    [] c = 34 -> "QUOTE"  [] c = 92 -> "BADESC"
    [] c \in {8232, 8233} -> "LS"
    [] IsJsOnlySpace(c) -> "UWS"
    [] IsSurrogate(c) -> "SURR"
    [] OTHER -> "PLAIN"

SimpleEscapes == {34, 92, 47, 98, 102, 110, 114, 116}
SimpleEscapeValue(c) ==
  CASE c = 34 -> 34 [] c = 92 -> 92 [] c = 47 -> 47 [] c = 98 -> 8 [] c = 102 -> 12
    [] c = 110 -> 10 [] c = 114 -> 13 [] c = 116 -> 9

WTrue  == <<116, 114, 117, 101>>
WFalse == <<102, 97, 108, 115, 101>>
WNull  == <<110, 117, 108, 108>>

\* Class of one token given as its code units ("BAD" = not a token of this alphabet)
Classify(u) ==
  IF Len(u) = 0 THEN "BAD"
  ELSE IF Len(u) = 1 THEN UnitClass(u[1])
  ELSE IF u[1] = 92 THEN
         IF Len(u) = 2 /\ u[2] \in SimpleEscapes THEN "ESC"
         ELSE IF Len(u) = 6 /\ u[2] = 117 /\ (\A i \in 3..6 : IsHexUnit(u[i]))
              THEN (IF ~IsSurrogate(Hex4(u, 3)) THEN "U4"
                    ELSE IF IsHighSurr(Hex4(u, 3)) THEN "U4HI" ELSE "U4LO")
         ELSE IF Len(u) = 2 THEN "BADESC"
         ELSE "BAD"
  ELSE IF u \in {WTrue, WFalse, WNull} THEN "LIT"
  ELSE "BAD"

MkTok(u) == [c |-> Classify(u), u |-> u]

(***************************************************************************)
(* Values                                                                  *)
(***************************************************************************)
VNull      == [t |-> "null"]
VBool(b)   == [t |-> "bool", b |-> b]
VNum(n)    == [t |-> "num", n |-> n]
VStr(s)    == [t |-> "str", s |-> s]
VArr(xs)   == [t |-> "arr", items |-> xs]
VObj(ps)   == [t |-> "obj", props |-> ps]        \* ps: sequence of [k |-> units, v |-> value] in own-key order

\* ---- numbers: digits are kept as sequences, the value is computed when the number ends
NewNum == [neg |-> FALSE, idig |-> <<>>, fdig |-> <<>>, eneg |-> FALSE, edig |-> <<>>]

RECURSIVE StripLeadingZeros(_)
StripLeadingZeros(d) == IF d # <<>> /\ Head(d) = 0 THEN StripLeadingZeros(Tail(d)) ELSE d
RECURSIVE StripTrailingZeros(_)
StripTrailingZeros(d) == IF d # <<>> /\ d[Len(d)] = 0 THEN StripTrailingZeros(SubSeq(d, 1, Len(d) - 1)) ELSE d
RECURSIVE DigitsVal(_, _)
DigitsVal(d, acc) == IF d = <<>> THEN acc ELSE DigitsVal(Tail(d), acc * 10 + Head(d))
\* value of the exponent digits, saturating (TLC integers are 32-bit)
RECURSIVE ExpVal(_, _)
ExpVal(d, acc) == IF d = <<>> THEN acc
                  ELSE ExpVal(Tail(d), IF acc >= 100000 THEN 100000 ELSE acc * 10 + Head(d))
RECURSIVE Pow(_, _)
Pow(b, n) == IF n = 0 THEN 1 ELSE b * Pow(b, n - 1)

(* StringToNumber (ECMA-262 7.1.4.1.1) on a JSON number.  With s the significant digits (no leading or  *)
(* trailing zeros, d of them) and the value 0.s * 10^(d+q):                                             *)
(*   s empty                 -> +-0                                                                     *)
(*   value >= 2^1024 - 2^970 -> +-Infinity: that number is the midpoint between the largest double and  *)
(*                              2^1024 and the tie goes to the even significand, i.e. up.  It has 309   *)
(*                              digits (OverflowDigits), so the comparison is by magnitude d + q and    *)
(*                              then digit by digit - exact, without big numbers                        *)
(*   d + q < -330            -> value < 10^-330 < 2^-1075: rounds to +-0                                 *)
(*   small and dyadic        -> exact rational num/den, den a power of two                              *)
(*   otherwise               -> "out" (correct rounding is property C13's business)                     *)
OverflowDigits ==
  <<1, 7, 9, 7, 6, 9, 3, 1, 3, 4, 8, 6, 2, 3, 1, 5, 8, 0, 7, 9, 3, 7, 2, 8, 9, 7, 1, 4, 0, 5, 3, 0, 3, 4, 1, 5, 0, 7, 9, 9,
    3, 4, 1, 3, 2, 7, 1, 0, 0, 3, 7, 8, 2, 6, 9, 3, 6, 1, 7, 3, 7, 7, 8, 9, 8, 0, 4, 4, 4, 9, 6, 8, 2, 9, 2, 7, 6, 4, 7, 5,
    0, 9, 4, 6, 6, 4, 9, 0, 1, 7, 9, 7, 7, 5, 8, 7, 2, 0, 7, 0, 9, 6, 3, 3, 0, 2, 8, 6, 4, 1, 6, 6, 9, 2, 8, 8, 7, 9, 1, 0,
    9, 4, 6, 5, 5, 5, 5, 4, 7, 8, 5, 1, 9, 4, 0, 4, 0, 2, 6, 3, 0, 6, 5, 7, 4, 8, 8, 6, 7, 1, 5, 0, 5, 8, 2, 0, 6, 8, 1, 9,
    0, 8, 9, 0, 2, 0, 0, 0, 7, 0, 8, 3, 8, 3, 6, 7, 6, 2, 7, 3, 8, 5, 4, 8, 4, 5, 8, 1, 7, 7, 1, 1, 5, 3, 1, 7, 6, 4, 4, 7,
    5, 7, 3, 0, 2, 7, 0, 0, 6, 9, 8, 5, 5, 5, 7, 1, 3, 6, 6, 9, 5, 9, 6, 2, 2, 8, 4, 2, 9, 1, 4, 8, 1, 9, 8, 6, 0, 8, 3, 4,
    9, 3, 6, 4, 7, 5, 2, 9, 2, 7, 1, 9, 0, 7, 4, 1, 6, 8, 4, 4, 4, 3, 6, 5, 5, 1, 0, 7, 0, 4, 3, 4, 2, 7, 1, 1, 5, 5, 9, 6,
    9, 9, 5, 0, 8, 0, 9, 3, 0, 4, 2, 8, 8, 0, 1, 7, 7, 9, 0, 4, 1, 7, 4, 4, 9, 7, 7, 9, 2>>
ASSUME Len(OverflowDigits) = 309
RECURSIVE GeqDigits(_, _, _)       \* 0.s >= 0.t as decimal fractions, from position i
GeqDigits(s, t, i) ==
  IF i > Len(s) /\ i > Len(t) THEN TRUE
  ELSE LET a == IF i <= Len(s) THEN s[i] ELSE 0
           b == IF i <= Len(t) THEN t[i] ELSE 0
       IN IF a # b THEN a > b ELSE GeqDigits(s, t, i + 1)
NumValue(n) ==
  LET mant == n.idig \o n.fdig
      lead == StripLeadingZeros(mant)
      s    == StripTrailingZeros(lead)
      d    == Len(s)
      e    == (IF n.eneg THEN -1 ELSE 1) * ExpVal(StripLeadingZeros(n.edig), 0)
      q    == e - Len(n.fdig) + (Len(lead) - d)
  IN IF d = 0 THEN [k |-> "zero", neg |-> n.neg]
     ELSE IF d + q > 309 \/ (d + q = 309 /\ GeqDigits(s, OverflowDigits, 1)) THEN [k |-> "inf", neg |-> n.neg]
     ELSE IF d + q < -330 THEN [k |-> "zero", neg |-> n.neg]
     ELSE IF d <= 6 /\ q >= 0 /\ d + q <= 9
       THEN [k |-> "rat", neg |-> n.neg, num |-> DigitsVal(s, 0) * Pow(10, q), den |-> 1]
     ELSE IF d <= 6 /\ q < 0 /\ q >= -6 /\ DigitsVal(s, 0) % Pow(5, -q) = 0
       THEN [k |-> "rat", neg |-> n.neg, num |-> DigitsVal(s, 0) \div Pow(5, -q), den |-> Pow(2, -q)]
     ELSE [k |-> "out"]

\* ---- object keys: array indices (canonical numeric strings below 2^32 - 1) sort first
AllDigitUnits(k) == \A i \in 1..Len(k) : k[i] >= 48 /\ k[i] <= 57
RECURSIVE SeqLess(_, _)
SeqLess(a, b) == IF a = <<>> \/ b = <<>> THEN FALSE       \* equal length sequences, lexicographic
                 ELSE IF Head(a) # Head(b) THEN Head(a) < Head(b) ELSE SeqLess(Tail(a), Tail(b))
MaxIndexDigits == <<52, 50, 57, 52, 57, 54, 55, 50, 57, 52>>     \* "4294967294"
IsIndexKey(k) == /\ Len(k) >= 1 /\ Len(k) <= 10 /\ AllDigitUnits(k)
                 /\ (Len(k) > 1 => k[1] # 48)
                 /\ (Len(k) = 10 => (k = MaxIndexDigits \/ SeqLess(k, MaxIndexDigits)))
IndexLess(a, b) == Len(a) < Len(b) \/ (Len(a) = Len(b) /\ SeqLess(a, b))

\* CreateDataProperty on a fresh ordinary object: an existing key keeps its position and gets the new value
RECURSIVE PutProp(_, _, _)
PutProp(ps, k, v) ==
  IF ps = <<>> THEN << [k |-> k, v |-> v] >>
  ELSE IF Head(ps).k = k THEN << [k |-> k, v |-> v] >> \o Tail(ps)
  ELSE << Head(ps) >> \o PutProp(Tail(ps), k, v)
RECURSIVE Collapse(_, _)
Collapse(members, acc) == IF members = <<>> THEN acc
                          ELSE Collapse(Tail(members), PutProp(acc, Head(members).k, Head(members).v))
\* OrdinaryOwnPropertyKeys: indices ascending, then the other string keys in creation order
OwnKeyOrder(ps) ==
  LET idx == SelectSeq(ps, LAMBDA p : IsIndexKey(p.k))
      oth == SelectSeq(ps, LAMBDA p : ~IsIndexKey(p.k))
  IN SortSeq(idx, LAMBDA a, b : IndexLess(a.k, b.k)) \o oth
MkObject(members) == VObj(OwnKeyOrder(Collapse(members, <<>>)))

LitValue(u) == IF u = WTrue THEN VBool(TRUE) ELSE IF u = WFalse THEN VBool(FALSE) ELSE VNull

(* InternalizeJSONProperty (25.5.1.1): the reviver is called bottom-up - for an array the elements in index  *)
(* order, for an object the members in own-key order, then the holder's property itself; the root under the  *)
(* name "".  ReviverCalls(v) is the sequence of names an (identity) reviver is called with.                  *)
RECURSIVE IntDigits(_)
IntDigits(n) == IF n < 10 THEN <<48 + n>> ELSE IntDigits(n \div 10) \o <<48 + (n % 10)>>
RECURSIVE ReviverWalk(_, _)
ReviverWalk(name, v) ==
  (IF v.t = "arr" THEN FlattenSeq([i \in 1..Len(v.items) |-> ReviverWalk(IntDigits(i - 1), v.items[i])])
   ELSE IF v.t = "obj" THEN FlattenSeq([i \in 1..Len(v.props) |-> ReviverWalk(v.props[i].k, v.props[i].v)])
   ELSE <<>>) \o <<name>>
ReviverCalls(v) == ReviverWalk(<<>>, v)

(***************************************************************************)
(* The recogniser                                                          *)
(***************************************************************************)
NumTerminal == {"nzero", "nint", "nfrac", "nexpd"}
NumModes    == NumTerminal \cup {"nminus", "ndot", "nexp", "nexps"}
ValueModes  == {"start", "arr1", "arrn", "objv"}       \* a value may begin here
Modes == ValueModes \cup NumModes \cup {"obj1", "objk", "colon", "after", "str", "dead"}

NoVal == [t |-> "none"]
InitState == [mode |-> "start", stack |-> <<>>, str |-> <<>>, iskey |-> FALSE, num |-> NewNum, res |-> NoVal]
Dead(st) == [st EXCEPT !.mode = "dead"]

Top(st) == st.stack[Len(st.stack)]
Pop(st) == [st EXCEPT !.stack = SubSeq(st.stack, 1, Len(st.stack) - 1)]

\* a complete value v arrives in the current context
PutValue(st, v) ==
  IF st.stack = <<>> THEN [st EXCEPT !.mode = "after", !.res = v]
  ELSE LET f == Top(st) n == Len(st.stack) IN
       IF f.kind = "arr"
       THEN [st EXCEPT !.mode = "after", !.stack[n].items = Append(f.items, v)]
       ELSE [st EXCEPT !.mode = "after", !.stack[n].items = Append(f.items, [k |-> f.key, v |-> v])]

CloseArray(st)  == PutValue(Pop(st), VArr(Top(st).items))
CloseObject(st) == PutValue(Pop(st), MkObject(Top(st).items))
Frame(kind) == [kind |-> kind, items |-> <<>>, key |-> <<>>]

\* after a complete value
After(st, tok) ==
  LET c == tok.c IN
  IF c \in Ws THEN st
  ELSE IF st.stack = <<>> THEN Dead(st)
  ELSE IF c = "COMMA" THEN [st EXCEPT !.mode = IF Top(st).kind = "arr" THEN "arrn" ELSE "objk"]
  ELSE IF c = "RBRACK" /\ Top(st).kind = "arr" THEN CloseArray(st)
  ELSE IF c = "RBRACE" /\ Top(st).kind = "obj" THEN CloseObject(st)
  ELSE Dead(st)

\* where a value may start (modes start, arr1, arrn, objv)
BeginValue(st, tok) ==
  LET c == tok.c IN
  IF c \in Ws THEN st
  ELSE IF c = "LBRACK" THEN [st EXCEPT !.mode = "arr1", !.stack = Append(st.stack, Frame("arr"))]
  ELSE IF c = "LBRACE" THEN [st EXCEPT !.mode = "obj1", !.stack = Append(st.stack, Frame("obj"))]
  ELSE IF c = "QUOTE"  THEN [st EXCEPT !.mode = "str", !.str = <<>>, !.iskey = FALSE]
  ELSE IF c = "MINUS"  THEN [st EXCEPT !.mode = "nminus", !.num = [NewNum EXCEPT !.neg = TRUE]]
  ELSE IF c = "ZERO"   THEN [st EXCEPT !.mode = "nzero", !.num = [NewNum EXCEPT !.idig = <<0>>]]
  ELSE IF c = "DIGIT"  THEN [st EXCEPT !.mode = "nint", !.num = [NewNum EXCEPT !.idig = <<tok.u[1] - 48>>]]
  ELSE IF c = "LIT"    THEN PutValue(st, LitValue(tok.u))
  ELSE IF c = "RBRACK" /\ st.mode = "arr1" THEN CloseArray(st)
  ELSE Dead(st)

InString(st, tok) ==
  LET c == tok.c IN
  IF c = "QUOTE" THEN
       (IF st.iskey THEN [st EXCEPT !.mode = "colon", !.stack[Len(st.stack)].key = st.str]
        ELSE PutValue(st, VStr(st.str)))
  ELSE IF c = "ESC" THEN [st EXCEPT !.str = Append(st.str, SimpleEscapeValue(tok.u[2]))]
  ELSE IF c \in {"U4", "U4HI", "U4LO"} THEN [st EXCEPT !.str = Append(st.str, Hex4(tok.u, 3))]
  ELSE IF c \in StrIllegal THEN Dead(st)
  ELSE [st EXCEPT !.str = st.str \o tok.u]          \* every other token stands for itself

\* inside a number; a token that cannot continue it ends it (if it may end here)
InNumber(st, tok) ==
  LET c == tok.c  m == st.mode  dg == tok.u[1] - 48
      cont == CASE m = "nminus" -> c \in Digits
                [] m = "nzero"  -> c \in {"DOT", "EXP"}
                [] m = "nint"   -> c \in Digits \cup {"DOT", "EXP"}
                [] m = "ndot"   -> c \in Digits
                [] m = "nfrac"  -> c \in Digits \cup {"EXP"}
                [] m = "nexp"   -> c \in Digits \cup {"PLUS", "MINUS"}
                [] m = "nexps"  -> c \in Digits
                [] m = "nexpd"  -> c \in Digits
  IN IF cont THEN
          (IF c = "DOT" THEN [st EXCEPT !.mode = "ndot"]
           ELSE IF c = "EXP" THEN [st EXCEPT !.mode = "nexp"]
           ELSE IF c = "PLUS" THEN [st EXCEPT !.mode = "nexps"]
           ELSE IF c = "MINUS" THEN [st EXCEPT !.mode = "nexps", !.num.eneg = TRUE]
           ELSE IF m = "nminus" THEN [st EXCEPT !.mode = IF c = "ZERO" THEN "nzero" ELSE "nint", !.num.idig = <<dg>>]
           ELSE IF m = "nint" THEN [st EXCEPT !.num.idig = Append(st.num.idig, dg)]
           ELSE IF m \in {"ndot", "nfrac"} THEN [st EXCEPT !.mode = "nfrac", !.num.fdig = Append(st.num.fdig, dg)]
           ELSE [st EXCEPT !.mode = "nexpd", !.num.edig = Append(st.num.edig, dg)])
     ELSE IF m \in NumTerminal THEN After(PutValue(st, VNum(NumValue(st.num))), tok)
     ELSE Dead(st)

Step(st, tok) ==
  LET m == st.mode c == tok.c IN
  IF m = "dead" \/ c = "BAD" THEN Dead(st)
  ELSE IF m \in ValueModes THEN BeginValue(st, tok)
  ELSE IF m \in NumModes THEN InNumber(st, tok)
  ELSE IF m = "str" THEN InString(st, tok)
  ELSE IF m = "after" THEN After(st, tok)
  ELSE IF m = "colon" THEN (IF c \in Ws THEN st ELSE IF c = "COLON" THEN [st EXCEPT !.mode = "objv"] ELSE Dead(st))
  ELSE \* obj1, objk: a key; obj1 also allows the empty object
       IF c \in Ws THEN st
       ELSE IF c = "QUOTE" THEN [st EXCEPT !.mode = "str", !.str = <<>>, !.iskey = TRUE]
       ELSE IF c = "RBRACE" /\ m = "obj1" THEN CloseObject(st)
       ELSE Dead(st)

RECURSIVE Run(_, _)
Run(st, toks) == IF toks = <<>> THEN st ELSE Run(Step(st, Head(toks)), Tail(toks))

\* end of text
Accepting(st) == st.stack = <<>> /\ (st.mode = "after" \/ st.mode \in NumTerminal)
FinalValue(st) == IF st.mode = "after" THEN st.res ELSE VNum(NumValue(st.num))

\* Shortest class string that completes a live state to an accepted text
RECURSIVE Closers(_)
Closers(stack) == IF stack = <<>> THEN <<>>
                  ELSE << IF stack[Len(stack)].kind = "arr" THEN "RBRACK" ELSE "RBRACE" >>
                       \o Closers(SubSeq(stack, 1, Len(stack) - 1))
Completion(st) ==
  LET m == st.mode IN
  IF m = "arr1" \/ m = "obj1" \/ m = "after" \/ m \in NumTerminal THEN Closers(st.stack)
  ELSE IF m \in {"start", "arrn", "objv", "nminus", "ndot", "nexp", "nexps"} THEN <<"ZERO">> \o Closers(st.stack)
  ELSE IF m = "objk" THEN <<"QUOTE", "QUOTE", "COLON", "ZERO">> \o Closers(st.stack)
  ELSE IF m = "colon" THEN <<"COLON", "ZERO">> \o Closers(st.stack)
  ELSE IF m = "str" THEN <<"QUOTE">> \o (IF st.iskey THEN <<"COLON", "ZERO">> ELSE <<>>) \o Closers(st.stack)
  ELSE <<>>

(***************************************************************************)
(* The ECMA-404 productions, transcribed relationally over class strings.  *)
(* XEnds(s, i) is the set of positions j such that s[i..j-1] derives X.    *)
(***************************************************************************)
At(s, i, c) == i <= Len(s) /\ s[i] = c
AtIn(s, i, C) == i <= Len(s) /\ s[i] \in C

RECURSIVE WsEnds(_, _)
WsEnds(s, i) == {i} \cup (IF AtIn(s, i, Ws) THEN WsEnds(s, i + 1) ELSE {})
RECURSIVE DigitsEnds(_, _)         \* one or more digits
DigitsEnds(s, i) == IF AtIn(s, i, Digits) THEN {i + 1} \cup DigitsEnds(s, i + 1) ELSE {}
IntEnds(s, i) ==                    \* int = 0 | onenine digits* , with optional minus
  LET j == IF At(s, i, "MINUS") THEN i + 1 ELSE i IN
  IF At(s, j, "ZERO") THEN {j + 1}
  ELSE IF At(s, j, "DIGIT") THEN {j + 1} \cup DigitsEnds(s, j + 1) ELSE {}
FracEnds(s, i) == {i} \cup (IF At(s, i, "DOT") THEN DigitsEnds(s, i + 1) ELSE {})
ExpEnds(s, i) == {i} \cup (IF At(s, i, "EXP")
                           THEN DigitsEnds(s, IF AtIn(s, i + 1, {"PLUS", "MINUS"}) THEN i + 2 ELSE i + 1)
                           ELSE {})
NumberEnds(s, i) == UNION {UNION {ExpEnds(s, k) : k \in FracEnds(s, j)} : j \in IntEnds(s, i)}

CharClasses == (Classes \ StrIllegal) \ {"QUOTE"}      \* characters and escapes allowed in a string
RECURSIVE CharsEnds(_, _)
CharsEnds(s, i) == {i} \cup (IF AtIn(s, i, CharClasses) THEN CharsEnds(s, i + 1) ELSE {})
StringEnds(s, i) == IF At(s, i, "QUOTE") THEN {j + 1 : j \in {k \in CharsEnds(s, i + 1) : At(s, k, "QUOTE")}} ELSE {}

RECURSIVE ValueEnds(_, _), ElementEnds(_, _), ElementsEnds(_, _), MemberEnds(_, _), MembersEnds(_, _)
ElementEnds(s, i)  == UNION {UNION {WsEnds(s, k) : k \in ValueEnds(s, j)} : j \in WsEnds(s, i)}
ElementsEnds(s, i) == LET E == ElementEnds(s, i) IN
                      E \cup UNION {ElementsEnds(s, j + 1) : j \in {k \in E : At(s, k, "COMMA")}}
MemberEnds(s, i)   == UNION {UNION {UNION {ElementEnds(s, l + 1) : l \in {m \in WsEnds(s, k) : At(s, m, "COLON")}}
                                    : k \in StringEnds(s, j)} : j \in WsEnds(s, i)}
MembersEnds(s, i)  == LET M == MemberEnds(s, i) IN
                      M \cup UNION {MembersEnds(s, j + 1) : j \in {k \in M : At(s, k, "COMMA")}}
ValueEnds(s, i) ==
  IF i > Len(s) THEN {}
  ELSE IF s[i] = "LIT" THEN {i + 1}
  ELSE IF s[i] = "QUOTE" THEN StringEnds(s, i)
  ELSE IF s[i] \in {"MINUS", "ZERO", "DIGIT"} THEN NumberEnds(s, i)
  ELSE IF s[i] = "LBRACK" THEN
       {j + 1 : j \in {k \in WsEnds(s, i + 1) \cup ElementsEnds(s, i + 1) : At(s, k, "RBRACK")}}
  ELSE IF s[i] = "LBRACE" THEN
       {j + 1 : j \in {k \in WsEnds(s, i + 1) \cup MembersEnds(s, i + 1) : At(s, k, "RBRACE")}}
  ELSE {}
\* json = element
InGrammar(s) == (Len(s) + 1) \in ElementEnds(s, 1)

=============================================================================
