SPECIFICATION Spec
INVARIANT AgreeInv
INVARIANT DeadInv
INVARIANT EmitInv
CHECK_DEADLOCK FALSE
