SPECIFICATION Spec
INVARIANT SegInv
INVARIANT TokInv
INVARIANT EmitInv
CHECK_DEADLOCK FALSE
