CONSTANTS
  ExpSet <- ExpAll
  PayloadSet <- Payloads
  IntSet <- Ints
  AddrSet <- Addrs
INIT Init
NEXT Next
INVARIANT Lossless
INVARIANT Unambiguous
INVARIANT NumbersStayNumbers
INVARIANT NaNIsNaN
INVARIANT NeverFloatForTagged
INVARIANT EmitInv
CHECK_DEADLOCK FALSE
