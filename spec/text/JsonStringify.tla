----------------------------- MODULE JsonStringify -----------------------------
(***************************************************************************)
(* C18, second part - JSON.stringify (ECMA-262 25.5.2) over a small        *)
(* domain of ECMAScript values:                                            *)
(*   SerializeJSONProperty / Object / Array, QuoteJSONString (well-formed  *)
(*   JSON.stringify: lone surrogates are escaped), toJSON, function and    *)
(*   array replacers (PropertyList with duplicates removed), the gap       *)
(*   computed from a Number/String space argument (clamped to 10),         *)
(*   unwrapping of Number/String/Boolean objects, undefined / function /   *)
(*   symbol skipped in objects and written as null in arrays, -0 -> "0",   *)
(*   NaN / Infinity -> null, BigInt -> TypeError.                          *)
(* The text is a sequence of UTF-16 code units.  Tokenize cuts such a text *)
(* into the tokens of JsonGrammar, so that "the output of stringify is a   *)
(* JSON text that reads back as the value" is a checkable statement of the *)
(* model itself (RoundTrip in MCJsonStringify).                            *)
(***************************************************************************)
EXTENDS JsonGrammar

(***************************************************************************)
(* ECMAScript values of the modelled domain                                *)
(***************************************************************************)
JUndef      == [t |-> "undef"]
JNull       == [t |-> "null"]
JBool(b)    == [t |-> "bool", b |-> b]
JNum(n)     == [t |-> "num", n |-> n]           \* n as produced by NumValue, or [k |-> "nan"]
JStr(s)     == [t |-> "str", s |-> s]
JFn         == [t |-> "fn"]                      \* some callable object
JSym        == [t |-> "sym"]
JBig        == [t |-> "big"]                     \* some BigInt
JBox(v)     == [t |-> "box", v |-> v]            \* Number / String / Boolean object wrapping primitive v
JArr(xs)    == [t |-> "arr", items |-> xs]
\* ordinary object: members in creation order (a repeated key is a redefinition), toj = behaviour of an own
\* toJSON method: "none" | "key" (returns its argument) | "undef" | "num" (returns 7) | "x" (returns this.x)
JObj(ms, toj) == [t |-> "obj", props |-> ms, toj |-> toj]

NZero(neg)          == [k |-> "zero", neg |-> neg]
NRat(neg, num, den) == [k |-> "rat", neg |-> neg, num |-> num, den |-> den]
NInf(neg)           == [k |-> "inf", neg |-> neg]
NNaN                == [k |-> "nan"]

\* %Object.prototype% itself: reached by Get(o, "__proto__") on an object without such an own property (the
\* inherited accessor); it has no enumerable own property, no toJSON, and its own __proto__ is null
JObjProto   == [t |-> "objproto"]
KProto      == <<95, 95, 112, 114, 111, 116, 111, 95, 95>>

OwnProps(o) == IF o.t = "objproto" THEN <<>>
               ELSE OwnKeyOrder(Collapse(o.props, <<>>))     \* [[OwnPropertyKeys]] order, last definition wins
\* Get(o, key): own data property, else the prototype chain - of the keys used here only __proto__ is inherited
GetProp(o, key) ==
  IF o.t = "objproto" THEN (IF key = KProto THEN JNull ELSE JUndef)
  ELSE LET ps == SelectSeq(OwnProps(o), LAMBDA p : p.k = key)
       IN IF ps # <<>> THEN ps[1].v ELSE IF key = KProto THEN JObjProto ELSE JUndef

(***************************************************************************)
(* Number::toString on the modelled numbers (6.1.6.1.20)                   *)
(***************************************************************************)
RECURSIVE FracDigits(_, _)
FracDigits(r, den) == IF r = 0 THEN <<>> ELSE <<48 + ((r * 10) \div den)>> \o FracDigits((r * 10) % den, den)
NumToString(n) ==
  CASE n.k = "zero" -> <<48>>
    [] n.k = "nan"  -> <<78, 97, 78>>
    [] n.k = "inf"  -> (IF n.neg THEN <<45>> ELSE <<>>) \o <<73, 110, 102, 105, 110, 105, 116, 121>>
    [] n.k = "rat"  -> (IF n.neg THEN <<45>> ELSE <<>>) \o IntDigits(n.num \div n.den)
                        \o (IF n.num % n.den = 0 THEN <<>> ELSE <<46>> \o FracDigits(n.num % n.den, n.den))

(***************************************************************************)
(* QuoteJSONString (25.5.2.3), by code points                              *)
(***************************************************************************)
IsLowSurr(c) == c >= 56320 /\ c <= 57343
HexLow(n) == IF n < 10 THEN 48 + n ELSE 87 + n
UnicodeEscape(c) == <<92, 117, HexLow(c \div 4096), HexLow((c \div 256) % 16), HexLow((c \div 16) % 16), HexLow(c % 16)>>
RECURSIVE QuoteFrom(_, _)
QuoteFrom(s, i) ==
  IF i > Len(s) THEN <<>>
  ELSE LET c == s[i] IN
       IF IsHighSurr(c) /\ i < Len(s) /\ IsLowSurr(s[i + 1]) THEN <<c, s[i + 1]>> \o QuoteFrom(s, i + 2)
       ELSE (CASE c = 8 -> <<92, 98>> [] c = 9 -> <<92, 116>> [] c = 10 -> <<92, 110>>
               [] c = 12 -> <<92, 102>> [] c = 13 -> <<92, 114>> [] c = 34 -> <<92, 34>> [] c = 92 -> <<92, 92>>
               [] (c < 32 /\ c \notin {8, 9, 10, 12, 13}) \/ IsSurrogate(c) -> UnicodeEscape(c)
               [] OTHER -> <<c>>) \o QuoteFrom(s, i + 1)
Quote(s) == <<34>> \o QuoteFrom(s, 1) \o <<34>>

(***************************************************************************)
(* JSON.stringify steps 4-8: PropertyList and gap                          *)
(***************************************************************************)
\* replacer: [k |-> "none"] | [k |-> "list", items |-> values] | [k |-> "fn", f |-> name]
RNone == [k |-> "none"]
RList(items) == [k |-> "list", items |-> items]
RFn(f) == [k |-> "fn", f |-> f]

ListItemKey(v) ==      \* item of the replacer array -> property name, or <<-1>> for "not added"
  LET w == IF v.t = "box" /\ v.v.t \in {"str", "num"} THEN v.v ELSE v IN
  IF w.t = "str" THEN w.s ELSE IF w.t = "num" THEN NumToString(w.n) ELSE <<-1>>
RECURSIVE PropList(_, _)
PropList(items, acc) ==
  IF items = <<>> THEN acc
  ELSE LET key == ListItemKey(Head(items)) IN
       PropList(Tail(items), IF key = <<-1>> \/ (\E i \in 1..Len(acc) : acc[i] = key) THEN acc ELSE Append(acc, key))

Spaces(n) == [i \in 1..n |-> 32]
GapOf(space) ==
  LET sp == IF space.t = "box" /\ space.v.t \in {"str", "num"} THEN space.v ELSE space IN
  IF sp.t = "num" THEN
       (IF sp.n.k = "inf" THEN (IF sp.n.neg THEN <<>> ELSE Spaces(10))
        ELSE IF sp.n.k = "rat" /\ ~sp.n.neg THEN
             LET m == sp.n.num \div sp.n.den IN Spaces(IF m > 10 THEN 10 ELSE m)      \* ToIntegerOrInfinity, min 10
        ELSE <<>>)
  ELSE IF sp.t = "str" THEN (IF Len(sp.s) <= 10 THEN sp.s ELSE SubSeq(sp.s, 1, 10))
  ELSE <<>>

MkCfg(rep, space) == [rep |-> rep, gap |-> GapOf(space),
                      plist |-> IF rep.k = "list" THEN PropList(rep.items, <<>>) ELSE <<>>]

(***************************************************************************)
(* The behaviours of the user functions of the modelled domain             *)
(***************************************************************************)
ApplyToJSON(v, key) ==
  IF v.t = "obj" /\ v.toj # "none"
  THEN (CASE v.toj = "key" -> JStr(key) [] v.toj = "undef" -> JUndef
          [] v.toj = "num" -> JNum(NRat(FALSE, 7, 1)) [] v.toj = "x" -> GetProp(v, <<120>>))
  ELSE v
\* replacer functions: id; dropb: key "b" -> undefined; numN: numbers -> "N"; wrap: the root value v -> {w: v}
ApplyRep(f, key, v) ==
  CASE f = "id"    -> v
    [] f = "dropb" -> (IF key = <<98>> THEN JUndef ELSE v)
    [] f = "numN"  -> (IF v.t = "num" THEN JStr(<<78>>) ELSE v)
    [] f = "wrap"  -> (IF key = <<>> THEN JObj(<< [k |-> <<119>>, v |-> v] >>, "none") ELSE v)

(***************************************************************************)
(* SerializeJSONProperty / Object / Array                                  *)
(* result: [r |-> "undef"] | [r |-> "throw"] | [r |-> "str", s |-> units]  *)
(***************************************************************************)
RUndef == [r |-> "undef"]
RThrow == [r |-> "throw"]
RStr(s) == [r |-> "str", s |-> s]
TNull == <<110, 117, 108, 108>>

RECURSIVE Join(_, _)
Join(parts, sep) == IF parts = <<>> THEN <<>>
                    ELSE IF Len(parts) = 1 THEN parts[1]
                    ELSE parts[1] \o sep \o Join(Tail(parts), sep)
Wrap(open, close, parts, ind, ind2, gap) ==
  IF parts = <<>> THEN <<open, close>>
  ELSE IF gap = <<>> THEN <<open>> \o Join(parts, <<44>>) \o <<close>>
  ELSE <<open, 10>> \o ind2 \o Join(parts, <<44, 10>> \o ind2) \o <<10>> \o ind \o <<close>>

RECURSIVE SerProp(_, _, _, _), SerObj(_, _, _), SerArr(_, _, _)
SerProp(cfg, ind, key, v0) ==
  LET v1 == ApplyToJSON(v0, key)                                           \* step 2
      v2 == IF cfg.rep.k = "fn" THEN ApplyRep(cfg.rep.f, key, v1) ELSE v1  \* step 3
      v  == IF v2.t = "box" THEN v2.v ELSE v2                              \* step 4
  IN CASE v.t = "null" -> RStr(TNull)
       [] v.t = "bool" -> RStr(IF v.b THEN WTrue ELSE WFalse)
       [] v.t = "str"  -> RStr(Quote(v.s))
       [] v.t = "num"  -> RStr(IF v.n.k \in {"zero", "rat"} THEN NumToString(v.n) ELSE TNull)
       [] v.t = "big"  -> RThrow
       [] v.t = "arr"  -> SerArr(cfg, ind, v)
       [] v.t \in {"obj", "objproto"} -> SerObj(cfg, ind, v)
       [] OTHER        -> RUndef                                           \* undefined, functions, symbols

SerArr(cfg, ind, v) ==
  LET ind2  == ind \o cfg.gap
      res   == [i \in 1..Len(v.items) |-> SerProp(cfg, ind2, IntDigits(i - 1), v.items[i])]
      parts == [i \in 1..Len(v.items) |-> IF res[i].r = "str" THEN res[i].s ELSE TNull]
  IN IF \E i \in 1..Len(res) : res[i].r = "throw" THEN RThrow
     ELSE RStr(Wrap(91, 93, parts, ind, ind2, cfg.gap))

SerObj(cfg, ind, v) ==
  LET ind2 == ind \o cfg.gap
      own  == OwnProps(v)
      keys == IF cfg.rep.k = "list" THEN cfg.plist ELSE [i \in 1..Len(own) |-> own[i].k]
      res  == [i \in 1..Len(keys) |-> SerProp(cfg, ind2, keys[i], GetProp(v, keys[i]))]
      kept == SelectSeq([i \in 1..Len(keys) |-> i], LAMBDA i : res[i].r = "str")
      parts == [j \in 1..Len(kept) |->
                  Quote(keys[kept[j]]) \o <<58>> \o (IF cfg.gap = <<>> THEN <<>> ELSE <<32>>) \o res[kept[j]].s]
  IN IF \E i \in 1..Len(res) : res[i].r = "throw" THEN RThrow
     ELSE RStr(Wrap(123, 125, parts, ind, ind2, cfg.gap))

\* JSON.stringify(value, replacer, space): the wrapper object's "" property
Stringify(v, rep, space) == SerProp(MkCfg(rep, space), <<>>, <<>>, v)

(***************************************************************************)
(* Cutting a text into tokens (longest match); the harness does the same   *)
(***************************************************************************)
WordAt(u, i, w) == i + Len(w) - 1 <= Len(u) /\ SubSeq(u, i, i + Len(w) - 1) = w
RECURSIVE Segments(_, _)
Segments(u, i) ==
  IF i > Len(u) THEN <<>>
  ELSE IF u[i] = 92 THEN
       (IF i + 5 <= Len(u) /\ u[i + 1] = 117 /\ (\A j \in 2..5 : IsHexUnit(u[i + j]))
        THEN <<SubSeq(u, i, i + 5)>> \o Segments(u, i + 6)
        ELSE IF i + 1 <= Len(u) THEN <<SubSeq(u, i, i + 1)>> \o Segments(u, i + 2)
        ELSE << <<92>> >>)
  ELSE IF WordAt(u, i, WTrue)  THEN <<WTrue>>  \o Segments(u, i + 4)
  ELSE IF WordAt(u, i, WFalse) THEN <<WFalse>> \o Segments(u, i + 5)
  ELSE IF WordAt(u, i, WNull)  THEN <<WNull>>  \o Segments(u, i + 4)
  ELSE << <<u[i]>> >> \o Segments(u, i + 1)
Tokenize(u) == LET sg == Segments(u, 1) IN [j \in 1..Len(sg) |-> MkTok(sg[j])]
ParseText(u) == Run(InitState, Tokenize(u))

(***************************************************************************)
(* The JSON value a representable ECMAScript value stands for              *)
(***************************************************************************)
RECURSIVE Representable(_), AsJson(_)
Representable(v) ==
  \/ v.t \in {"null", "bool", "str"}
  \/ v.t = "num" /\ (v.n.k = "rat" \/ (v.n.k = "zero" /\ ~v.n.neg))
  \/ v.t = "arr" /\ \A i \in 1..Len(v.items) : Representable(v.items[i])
  \/ v.t = "obj" /\ v.toj = "none" /\ \A i \in 1..Len(v.props) : Representable(v.props[i].v)
AsJson(v) ==
  IF v.t = "arr" THEN VArr([i \in 1..Len(v.items) |-> AsJson(v.items[i])])
  ELSE IF v.t = "obj" THEN MkObject([i \in 1..Len(v.props) |-> [k |-> v.props[i].k, v |-> AsJson(v.props[i].v)]])
  ELSE v
=============================================================================
