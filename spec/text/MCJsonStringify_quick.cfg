CONSTANTS
  MaxDepth = 1
  MaxWidth = 2
  MaxNodes = 2
  Small = TRUE
  Gate = TRUE
SPECIFICATION Spec
INVARIANT TypeOK
INVARIANT ValidJson
INVARIANT RoundTrip
INVARIANT GapOK
INVARIANT RootOK
INVARIANT EmitInv
CHECK_DEADLOCK FALSE
