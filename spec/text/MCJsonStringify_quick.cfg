CONSTANTS
  MaxDepth = 1
  MaxWidth = 2
  MaxNodes = 2
  Small = TRUE
  Gate = TRUE
SPECIFICATION Spec
INVARIANT TypeOK
INVARIANT GapOK
INVARIANT CheckAndEmit
CHECK_DEADLOCK FALSE
