CONSTANTS
  MaxDepth = 2
  MaxWidth = 1
  MaxNodes = 3
  Small = TRUE
  Gate = TRUE
SPECIFICATION Spec
INVARIANT TypeOK
INVARIANT GapOK
INVARIANT CheckAndEmit
CHECK_DEADLOCK FALSE
