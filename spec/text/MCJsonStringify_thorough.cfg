CONSTANTS
  MaxDepth = 2
  MaxWidth = 1
  MaxNodes = 3
  Small = TRUE
  Gate = TRUE
SPECIFICATION Spec
INVARIANT TypeOK
INVARIANT ValidJson
INVARIANT RoundTrip
INVARIANT GapOK
INVARIANT RootOK
INVARIANT EmitInv
CHECK_DEADLOCK FALSE
