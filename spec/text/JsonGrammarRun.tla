--------------------------- MODULE JsonGrammarRun ---------------------------
(***************************************************************************)
(* Pass 2 of C18: the recogniser of JsonGrammar run over CONCRETE token    *)
(* sequences supplied by the harness (other representatives of an          *)
(* enumerated class string, completed simulation prefixes, curated and     *)
(* mutated texts, and the tokenised output of the implementation's         *)
(* JSON.stringify).  The harness only cuts a text into tokens; the class   *)
(* of every token, acceptance and the value are decided here, and the cut  *)
(* itself is re-checked against JsonStringify!Segments.                    *)
(* Input: ndjson file named by the environment variable C18_INPUT, one     *)
(* record {"id": n, "t": [[code units of token 1], ...]} per line.         *)
(* The state graph is a two-level fan-out (root -> bucket -> text) so that *)
(* TLC's workers share the texts; the behaviour of the machine on text k   *)
(* is Run(InitState, tokens of k).                                         *)
(***************************************************************************)
EXTENDS JsonStringify, Json, IOUtils

Texts == ndJsonDeserialize(IOEnv.C18_INPUT)
NB == 96

VARIABLES b, k
vars == <<b, k>>

Init == b = 0 /\ k = 0
Next == \/ b = 0 /\ k = 0 /\ b' \in 1..NB /\ k' = 0
        \/ b > 0 /\ k = 0 /\ b' = b /\ k' \in {b + NB * m : m \in 0..((Len(Texts) - b) \div NB)}
Spec == Init /\ [][Next]_vars

Toks(n) == [j \in 1..Len(Texts[n].t) |-> MkTok(Texts[n].t[j])]
Fin(n) == Run(InitState, Toks(n))

\* the harness cut the text where the specification cuts it
SegInv == k > 0 => Segments(FlattenSeq(Texts[k].t), 1) = Texts[k].t
\* no token outside the alphabet
TokInv == k > 0 => \A j \in 1..Len(Texts[k].t) : Classify(Texts[k].t[j]) # "BAD"

EmitInv == k > 0 => LET f == Fin(k) IN
             PrintT(<<"OUT", ToJson([id |-> Texts[k].id, acc |-> Accepting(f),
                                     val |-> IF Accepting(f) THEN FinalValue(f) ELSE NoVal,
                                     rev |-> IF Accepting(f) THEN ReviverCalls(FinalValue(f)) ELSE <<>>])>>)
=============================================================================
