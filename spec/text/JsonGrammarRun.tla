--------------------------- MODULE JsonGrammarRun ---------------------------
(***************************************************************************)
(* Pass 2 of C18: the recogniser of JsonGrammar run over CONCRETE token    *)
(* sequences supplied by the harness (other representatives of an          *)
(* enumerated class string, grammar-generated and mutated texts, and the   *)
(* tokenised output of the implementation's JSON.stringify).  The harness  *)
(* only cuts a text into tokens; class, acceptance and value are decided   *)
(* here.  Input: ndjson file named by the environment variable C18_INPUT,  *)
(* one record {"id": n, "t": [[code units of token 1], ...]} per line.     *)
(* The behaviour of text k is Init(k), then one Step per token.            *)
(***************************************************************************)
EXTENDS JsonGrammar, Json, IOUtils

Texts == ndJsonDeserialize(IOEnv.C18_INPUT)

VARIABLES k, i, st
vars == <<k, i, st>>

Init == k \in 1..Len(Texts) /\ i = 0 /\ st = InitState
Next == /\ i < Len(Texts[k].t)
        /\ i' = i + 1
        /\ st' = Step(st, MkTok(Texts[k].t[i + 1]))
        /\ k' = k
Spec == Init /\ [][Next]_vars

Done == i = Len(Texts[k].t)

\* the machine agrees with the relational grammar on the class string of the whole text
ClassesOf(t) == [j \in 1..Len(t) |-> Classify(t[j])]
AgreeInv == Done => (Accepting(st) = InGrammar(ClassesOf(Texts[k].t)))
DeadInv  == (st.mode = "dead") => ~Accepting(st)

EmitInv == Done => PrintT(<<"OUT", ToJson([id |-> Texts[k].id, acc |-> Accepting(st),
                                            val |-> IF Accepting(st) THEN FinalValue(st) ELSE NoVal])>>)
=============================================================================
