------------------------------- MODULE NanBox -------------------------------
(***************************************************************************)
(* The compact value representation of boa (value/inner/nan_boxed.rs) as a *)
(* one-cell state machine: `val` is the abstract JavaScript value that was *)
(* stored last, `word` the 64-bit pattern the cell holds.  A word is a     *)
(* record of fields because TLC integers are 32-bit:                       *)
(*   s (bit 63), e (bits 62..52), nib (bits 51..48), h2 (47..32),          *)
(*   h1 (31..16), h0 (15..0).                                              *)
(* The encoders / predicates / decoders transcribe `mod bits` one to one;  *)
(* the invariants state the property: lossless, unambiguous, numbers stay  *)
(* numbers (every NaN pattern reads back as the number NaN).               *)
(***************************************************************************)
EXTENDS Naturals, Integers, Sequences, FiniteSets, TLC, Json

CONSTANTS ExpSet,        \* exponents explored (subset of 0..2047)
          PayloadSet,    \* set of <<h2, h1, h0>> mantissa low-48-bit patterns
          IntSet,        \* set of <<hi16, lo16>> two's complement halves of int32 values
          AddrSet        \* set of <<a2, a1, a0>> 48-bit pointer addresses (non-null)

VARIABLES val, word

W(s, e, nib, h2, h1, h0) == [s |-> s, e |-> e, nib |-> nib, h2 |-> h2, h1 |-> h1, h0 |-> h0]

FloatWords == {W(s, e, n, p[1], p[2], p[3]) : s \in {0, 1}, e \in ExpSet, n \in 0..15, p \in PayloadSet}

IsNaNPattern(w) == w.e = 2047 /\ ~(w.nib = 0 /\ w.h2 = 0 /\ w.h1 = 0 /\ w.h0 = 0)
CanonNaN == W(0, 2047, 8, 0, 0, 0)

\* ---- encoders (bits::tag_*) ----
TagF64(w)  == IF IsNaNPattern(w) THEN CanonNaN ELSE w
TagI32(i)  == W(0, 2047, 9, 0, i[1], i[2])
TagBool(b) == W(0, 2047, 10, 0, 0, IF b THEN 1 ELSE 0)
ValueNull  == W(0, 2047, 11, 0, 0, 0)
ValueUndef == W(0, 2047, 11, 0, 0, 1)
PtrNib(k)  == CASE k = "object" -> 12 [] k = "string" -> 13 [] k = "symbol" -> 14 [] k = "bigint" -> 15
TagPtr(k, a) == W(0, 2047, PtrNib(k), a[1], a[2], a[3])

\* ---- predicates (bits::is_*; MASK_KIND ignores the sign bit) ----
KindNib(w)  == IF w.e = 2047 THEN w.nib ELSE -1
IsFloat(w)  == w.e # 2047 \/ w.nib = 0 \/ w.nib = 8
IsInt32(w)  == KindNib(w) = 9
IsBool(w)   == KindNib(w) = 10
IsOther(w)  == KindNib(w) = 11
IsObject(w) == KindNib(w) = 12
IsString(w) == KindNib(w) = 13
IsSymbol(w) == KindNib(w) = 14
IsBigInt(w) == KindNib(w) = 15

Kinds(w) == {k \in {"float", "int", "bool", "other", "object", "string", "symbol", "bigint"} :
              CASE k = "float" -> IsFloat(w) [] k = "int" -> IsInt32(w) [] k = "bool" -> IsBool(w)
                [] k = "other" -> IsOther(w) [] k = "object" -> IsObject(w) [] k = "string" -> IsString(w)
                [] k = "symbol" -> IsSymbol(w) [] k = "bigint" -> IsBigInt(w)}

\* ---- decoder (NanBoxedValue::as_variant) ----
Decode(w) ==
  IF IsObject(w) THEN [t |-> "ptr", k |-> "object", a |-> <<w.h2, w.h1, w.h0>>]
  ELSE IF IsString(w) THEN [t |-> "ptr", k |-> "string", a |-> <<w.h2, w.h1, w.h0>>]
  ELSE IF IsSymbol(w) THEN [t |-> "ptr", k |-> "symbol", a |-> <<w.h2, w.h1, w.h0>>]
  ELSE IF IsBigInt(w) THEN [t |-> "ptr", k |-> "bigint", a |-> <<w.h2, w.h1, w.h0>>]
  ELSE IF IsInt32(w) THEN [t |-> "int", i |-> <<w.h1, w.h0>>]
  ELSE IF IsBool(w) THEN [t |-> "bool", b |-> (w.h0 % 2 = 1)]
  ELSE IF IsOther(w) THEN (IF w = ValueNull THEN [t |-> "null"] ELSE [t |-> "undef"])
  ELSE IF IsNaNPattern(w) THEN [t |-> "nan"] ELSE [t |-> "num", w |-> w]

\* what the abstract value must read back as
Canon(v) == IF v.t = "num" /\ IsNaNPattern(v.w) THEN [t |-> "nan"] ELSE v

Init == val = [t |-> "undef"] /\ word = ValueUndef

StoreF64  == \E w \in FloatWords : val' = [t |-> "num", w |-> w] /\ word' = TagF64(w)
StoreI32  == \E i \in IntSet : val' = [t |-> "int", i |-> i] /\ word' = TagI32(i)
StoreBool == \E b \in BOOLEAN : val' = [t |-> "bool", b |-> b] /\ word' = TagBool(b)
StoreNull == val' = [t |-> "null"] /\ word' = ValueNull
StoreUndef == val' = [t |-> "undef"] /\ word' = ValueUndef
StorePtr  == \E k \in {"object", "string", "symbol", "bigint"}, a \in AddrSet :
                val' = [t |-> "ptr", k |-> k, a |-> a] /\ word' = TagPtr(k, a)

\* The cell is memoryless (a store overwrites the whole word), so exploring one store from the
\* freshly initialised cell covers every store; a Clear step returns to the initial state.
Fresh == val = [t |-> "undef"] /\ word = ValueUndef
Clear == ~Fresh /\ val' = [t |-> "undef"] /\ word' = ValueUndef
Next == (Fresh /\ (StoreF64 \/ StoreI32 \/ StoreBool \/ StoreNull \/ StoreUndef \/ StorePtr)) \/ Clear
Spec == Init /\ [][Next]_<<val, word>>

\* ---- the property ----
Lossless    == Decode(word) = Canon(val)
Unambiguous == Cardinality(Kinds(word)) = 1
NumbersStayNumbers == (val.t = "num") => (Kinds(word) = {"float"} /\ Decode(word).t \in {"num", "nan"})
NaNIsNaN    == (val.t = "num" /\ IsNaNPattern(val.w)) => Decode(word) = [t |-> "nan"]
NeverFloatForTagged == (val.t # "num") => ~IsFloat(word)

\* ---- observation for conformance: one line per stored double ----
Emit == (val.t = "num") =>
          PrintT(<<"W", ToJson([w |-> <<val.w.s, val.w.e, val.w.nib, val.w.h2, val.w.h1, val.w.h0>>, d |-> Decode(word).t])>>)
=============================================================================
