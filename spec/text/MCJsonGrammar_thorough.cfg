CONSTANTS
  MaxLen = 7
  MaxWs = 2
  MaxBody = 4
  MinEmit = 0
SPECIFICATION Spec
INVARIANT TypeOK
INVARIANT GrammarAgree
INVARIANT Balanced
INVARIANT CompletionOK
INVARIANT DeadStaysDead
INVARIANT ValueOK
INVARIANT EmitInv
CHECK_DEADLOCK FALSE
