------------------------------- MODULE Numeric -------------------------------
(***************************************************************************)
(* Exact reference for Number <-> text conversions (ECMA-262 6.1.6.1.20    *)
(* Number::toString, 7.1.4.1.1 StringToNumber / RoundMVResult,             *)
(* 21.1.3 toFixed / toExponential / toPrecision / toString(radix)).        *)
(*                                                                         *)
(* A double is [s, e, m]: sign, biased exponent 0..2047, 52-bit mantissa   *)
(* as a BigNat.  All arithmetic is exact (BigNat).                         *)
(*                                                                         *)
(* Number::toString is the state machine of Steele & White / Burger &      *)
(* Dybvig "free-format" digit generation: Setup, ScaleUp*, ScaleDown*,     *)
(* Generate*, Done; TLC checks its loop invariants in every state and, at  *)
(* Done, that the digits round-trip (IsCorrectlyRounded) - the same        *)
(* predicate that validates recorded text->number conversions of the       *)
(* implementation.                                                         *)
(***************************************************************************)
EXTENDS BigNat, FiniteSets, TLC, Json, IOUtils

Cases == ndJsonDeserialize(IOEnv.CASES)

VARIABLES pid, phase, r, s, mp, mm, k, digs

vars == <<pid, phase, r, s, mp, mm, k, digs>>

\* ---------------------------------------------------------------- doubles
P52 == BnPow2(52)
IsFinite(x) == x.e # 2047
IsZero(x) == x.e = 0 /\ x.m = <<>>
Frac(x) == IF x.e = 0 THEN x.m ELSE BnAdd(x.m, P52)          \* integer significand F
Exp2(x) == IF x.e = 0 THEN -1074 ELSE x.e - 1075             \* value = F * 2^Exp2
BoundaryLow(x) == x.e > 1 /\ x.m = <<>>                      \* the gap below is half the gap above
Abs(n) == IF n < 0 THEN -n ELSE n
Pos(n) == IF n > 0 THEN n ELSE 0

\* compare A * 2^ea with N * 10^q exactly
CmpScaled(A, ea, N, q) ==
  BnCmp(BnMulPow10(BnShl(A, Pos(ea)), Pos(-q)), BnShl(BnMulPow10(N, Pos(q)), Pos(-ea)))

\* Does the exact decimal N * 10^q (N a BigNat) round to the double x under round-half-even?
\* (RoundMVResult of ECMA-262.)  x is non-negative here; signs are handled by the callers.
IsCorrectlyRounded(N, q, x) ==
  IF x.e = 2047 THEN                                   \* Infinity: D >= 2^1024 - 2^970 = (2^54 - 1) * 2^970
    x.m = <<>> /\ CmpScaled(BnSub(BnPow2(54), BnOne), 970, N, q) # 1
  ELSE IF IsZero(x) THEN                               \* D <= 2^-1075 (tie goes to the even neighbour 0)
    N = <<>> \/ CmpScaled(BnOne, -1075, N, q) # -1
  ELSE
    LET F    == Frac(x)
        ee   == Exp2(x)
        F4   == BnMulSmall(F, 4)
        hi   == BnAdd(F4, <<2>>)
        lo   == IF BoundaryLow(x) THEN BnSub(F4, <<1>>) ELSE BnSub(F4, <<2>>)
        N4   == BnMulSmall(N, 4)
        chi  == CmpScaled(hi, ee, N4, q)                \* sign of hi*2^ee - 4D
        clo  == CmpScaled(lo, ee, N4, q)                \* sign of lo*2^ee - 4D
        even == BnIsEven(F)
    IN /\ (chi = 1 \/ (chi = 0 /\ even))                \* D below (or at, if even) the upper midpoint
       /\ (clo = -1 \/ (clo = 0 /\ even))               \* D above (or at, if even) the lower midpoint

\* ---------------------------------------------------------------- free-format digit generation
X == Cases[pid].x
Even == BnIsEven(Frac(X))
IsFmt == Cases[pid].kind = "fmt"
Special == ~IsFmt \/ ~IsFinite(X) \/ IsZero(X)

Init ==
  /\ pid \in 1..Len(Cases)
  /\ phase = "setup"
  /\ r = <<>> /\ s = <<>> /\ mp = <<>> /\ mm = <<>> /\ k = 0 /\ digs = <<>>

Setup ==
  /\ phase = "setup"
  /\ IF Special THEN phase' = "done" /\ UNCHANGED <<pid, r, s, mp, mm, k, digs>>
     ELSE LET F == Frac(X)  ee == Exp2(X) IN
       /\ IF ee >= 0
          THEN IF ~BoundaryLow(X)
               THEN r' = BnShl(F, ee + 1) /\ s' = <<2>> /\ mp' = BnPow2(ee) /\ mm' = BnPow2(ee)
               ELSE r' = BnShl(F, ee + 2) /\ s' = <<4>> /\ mp' = BnPow2(ee + 1) /\ mm' = BnPow2(ee)
          ELSE IF ~BoundaryLow(X)
               THEN r' = BnShl(F, 1) /\ s' = BnPow2(1 - ee) /\ mp' = BnOne /\ mm' = BnOne
               ELSE r' = BnShl(F, 2) /\ s' = BnPow2(2 - ee) /\ mp' = <<2>> /\ mm' = BnOne
       /\ phase' = "up" /\ k' = 0 /\ UNCHANGED <<pid, digs>>

High == BnAdd(r, mp)
ScaleUp ==
  /\ phase = "up"
  /\ IF (IF Even THEN BnLe(s, High) ELSE BnLt(s, High))
     THEN s' = BnMulSmall(s, 10) /\ k' = k + 1 /\ UNCHANGED <<pid, phase, r, mp, mm, digs>>
     ELSE phase' = "down" /\ UNCHANGED <<pid, r, s, mp, mm, k, digs>>

ScaleDown ==
  /\ phase = "down"
  /\ LET h10 == BnMulSmall(High, 10) IN
     IF (IF Even THEN BnLt(h10, s) ELSE BnLe(h10, s))
     THEN r' = BnMulSmall(r, 10) /\ mp' = BnMulSmall(mp, 10) /\ mm' = BnMulSmall(mm, 10) /\ k' = k - 1
          /\ UNCHANGED <<pid, phase, s, digs>>
     ELSE phase' = "gen" /\ UNCHANGED <<pid, r, s, mp, mm, k, digs>>

Generate ==
  /\ phase = "gen"
  /\ LET qr  == BnDigitDiv(BnMulSmall(r, 10), s, 0)
         d   == qr[1]
         r1  == qr[2]
         mp1 == BnMulSmall(mp, 10)
         mm1 == BnMulSmall(mm, 10)
         tc1 == IF Even THEN BnLe(r1, mm1) ELSE BnLt(r1, mm1)
         tc2 == IF Even THEN BnLe(s, BnAdd(r1, mp1)) ELSE BnLt(s, BnAdd(r1, mp1))
         c2  == BnCmp(BnMulSmall(r1, 2), s)
         last == IF tc1 /\ ~tc2 THEN d
                 ELSE IF ~tc1 /\ tc2 THEN d + 1
                 ELSE IF c2 = -1 THEN d ELSE IF c2 = 1 THEN d + 1
                 ELSE (IF d % 2 = 0 THEN d ELSE d + 1)
     IN /\ r' = r1 /\ mp' = mp1 /\ mm' = mm1
        /\ IF ~tc1 /\ ~tc2
           THEN digs' = Append(digs, d) /\ UNCHANGED phase
           ELSE digs' = Append(digs, last) /\ phase' = "done"
        /\ UNCHANGED <<pid, s, k>>

Next == Setup \/ ScaleUp \/ ScaleDown \/ Generate
Spec == Init /\ [][Next]_vars

\* ---------------------------------------------------------------- invariants of the digit machine
TypeOK ==
  /\ phase \in {"setup", "up", "down", "gen", "done"}
  /\ \A i \in 1..Len(digs) : digs[i] \in 0..9

LoopInv ==
  (phase \in {"gen", "done"} /\ ~Special) =>
     /\ BnLt(r, s)                                   \* the remainder is a proper fraction of s
     /\ (digs # <<>> => digs[1] # 0)                 \* no leading zero digit
     /\ k \in -330..320

\* the produced digits, read as a decimal, round to X again (Number(String(x)) = x) ...
RoundTrips ==
  (phase = "done" /\ ~Special) =>
     IsCorrectlyRounded(BnFromDigits(digs), k - Len(digs), X)
\* ... and no digit string that is one digit shorter does (shortness), unless there is only one digit
Shortest ==
  (phase = "done" /\ ~Special /\ Len(digs) > 1) =>
     LET pre == SubSeq(digs, 1, Len(digs) - 1)
         n0  == BnFromDigits(pre)
     IN /\ ~IsCorrectlyRounded(n0, k - Len(pre), X)
        /\ ~IsCorrectlyRounded(BnAdd(n0, BnOne), k - Len(pre), X)

\* ---------------------------------------------------------------- text production
Ch(c) == c                                            \* characters are code points
D2C(d) == 48 + d
DigitsChars(ds) == [i \in 1..Len(ds) |-> D2C(ds[i])]
Zeros(n) == [i \in 1..n |-> 48]
RECURSIVE IntDigits(_)
IntDigits(n) == IF n < 10 THEN <<n>> ELSE IntDigits(n \div 10) \o <<n % 10>>
SignedExp(n) == (IF n < 0 THEN <<45>> ELSE <<43>>) \o DigitsChars(IntDigits(Abs(n)))

\* Number::toString(x) radix 10, for positive finite non-zero x with digits ds and decimal exponent n
FormatShortest(ds, n) ==
  LET kk == Len(ds) IN
  IF kk <= n /\ n <= 21 THEN DigitsChars(ds) \o Zeros(n - kk)
  ELSE IF 0 < n /\ n <= 21 THEN DigitsChars(SubSeq(ds, 1, n)) \o <<46>> \o DigitsChars(SubSeq(ds, n + 1, kk))
  ELSE IF -6 < n /\ n <= 0 THEN <<48, 46>> \o Zeros(-n) \o DigitsChars(ds)
  ELSE IF kk = 1 THEN DigitsChars(ds) \o <<101>> \o SignedExp(n - 1)
  ELSE <<D2C(ds[1]), 46>> \o DigitsChars(SubSeq(ds, 2, kk)) \o <<101>> \o SignedExp(n - 1)

Neg(x) == x.s = 1
WithSign(x, t) == IF Neg(x) THEN <<45>> \o t ELSE t
InfinityChars == <<73, 110, 102, 105, 110, 105, 116, 121>>
NaNChars == <<78, 97, 78>>

ToStringOf(x, ds, n) ==
  IF x.e = 2047 THEN (IF x.m = <<>> THEN WithSign(x, InfinityChars) ELSE NaNChars)
  ELSE IF IsZero(x) THEN <<48>>
  ELSE WithSign(x, FormatShortest(ds, n))

\* floor(a / 10^n)
RECURSIVE BnDivPow10(_, _)
BnDivPow10(a, n) ==
  IF a = <<>> \/ n = 0 THEN a
  ELSE IF n >= 4 THEN BnDivPow10(Tail(a), n - 4)
  ELSE BnDivPow10(BnDivSmall(a, 10), n - 1)

\* round-half-up of F * 2^ee * 10^p (ee, p may be negative): the integer n closest to it, larger on ties:
\* n = floor((2*num + den) / (2*den)) with num = F * 2^max(ee,0) * 10^max(p,0), den = 2^max(-ee,0) * 10^max(-p,0)
RoundScaled(F, ee, p) ==
  LET num == BnMulPow10(BnShl(F, Pos(ee)), Pos(p))
      den == BnMulPow10(BnPow2(Pos(-ee)), Pos(-p))
  IN IF den = BnOne THEN num
     ELSE BnDivPow10(BnShr(BnAdd(BnMulSmall(num, 2), den), Pos(-ee) + 1), Pos(-p))

PadLeft(ds, n) == IF Len(ds) >= n THEN ds ELSE Zeros(n - Len(ds)) \o ds

\* Number.prototype.toFixed(fd) for finite x with |x| < 10^21
ToFixed(x, fd) ==
  LET n   == IF IsZero(x) THEN <<>> ELSE RoundScaled(Frac(x), Exp2(x), fd)
      dsz == PadLeft(DigitsChars(BnDigits(n)), fd + 1)
      body == IF fd = 0 THEN dsz
              ELSE SubSeq(dsz, 1, Len(dsz) - fd) \o <<46>> \o SubSeq(dsz, Len(dsz) - fd + 1, Len(dsz))
  IN IF Neg(x) /\ ~IsZero(x) THEN <<45>> \o body ELSE body

\* floor(log10 x) for positive finite x, searched from the estimate est
RECURSIVE Log10From(_, _, _)
Log10From(F, ee, est) ==
  IF CmpScaled(F, ee, BnOne, est) = -1 THEN Log10From(F, ee, est - 1)           \* x < 10^est
  ELSE IF CmpScaled(F, ee, BnOne, est + 1) # -1 THEN Log10From(F, ee, est + 1)  \* x >= 10^(est+1)
  ELSE est

\* n with p significant digits and exponent e such that n * 10^(e-p+1) is closest to x (larger n on ties)
SigDigits(x, p, kest) ==
  LET F  == Frac(x)  ee == Exp2(x)
      e0 == Log10From(F, ee, kest - 1)
      n0 == RoundScaled(F, ee, p - 1 - e0)
  IN IF BnCmp(n0, BnPow10(p)) # -1 THEN [n |-> BnPow10(p - 1), e |-> e0 + 1] ELSE [n |-> n0, e |-> e0]

ToExponential(x, fd, kest) ==
  IF IsZero(x) THEN (IF fd = 0 THEN <<48>> ELSE <<48, 46>> \o Zeros(fd)) \o <<101, 43, 48>>
  ELSE LET sd == SigDigits(x, fd + 1, kest)
           ds == DigitsChars(BnDigits(sd.n))
           mant == IF fd = 0 THEN ds ELSE <<ds[1], 46>> \o SubSeq(ds, 2, Len(ds))
       IN WithSign(x, mant \o <<101>> \o SignedExp(sd.e))

ToPrecision(x, p, kest) ==
  IF IsZero(x) THEN (IF p = 1 THEN <<48>> ELSE <<48, 46>> \o Zeros(p - 1))
  ELSE LET sd == SigDigits(x, p, kest)
           ds == DigitsChars(BnDigits(sd.n))
           e  == sd.e
           body == IF e < -6 \/ e >= p
                   THEN (IF p = 1 THEN ds ELSE <<ds[1], 46>> \o SubSeq(ds, 2, Len(ds))) \o <<101>> \o SignedExp(e)
                   ELSE IF e = p - 1 THEN ds
                   ELSE IF e >= 0 THEN SubSeq(ds, 1, e + 1) \o <<46>> \o SubSeq(ds, e + 2, Len(ds))
                   ELSE <<48, 46>> \o Zeros(-(e + 1)) \o ds
       IN WithSign(x, body)

\* Number.prototype.toString(radix) for integral x < 2^53
RadixChar(d) == IF d < 10 THEN 48 + d ELSE 87 + d
RECURSIVE RadixDigits(_, _)
RadixDigits(n, radix) == IF n = <<>> THEN <<>> ELSE RadixDigits(BnDivSmall(n, radix), radix) \o <<RadixChar(BnModSmall(n, radix))>>
IntegerValue(x) == BnShl(Frac(x), Exp2(x))             \* only used when Exp2(x) >= 0 or the case says it is integral
ToStringRadix(xint, neg, radix) ==
  IF xint = <<>> THEN <<48>> ELSE (IF neg THEN <<45>> ELSE <<>>) \o RadixDigits(xint, radix)

\* ---------------------------------------------------------------- observations
FmtResult ==
  LET c == Cases[pid] IN
  [id |-> c.id,
   str |-> ToStringOf(X, digs, k),
   fixed |-> [i \in 1..Len(c.fixed) |-> ToFixed(X, c.fixed[i])],
   expo  |-> [i \in 1..Len(c.expo)  |-> ToExponential(X, c.expo[i], k)],
   prec  |-> [i \in 1..Len(c.prec)  |-> ToPrecision(X, c.prec[i], k)],
   radix |-> [i \in 1..Len(c.radix) |-> ToStringRadix(c.int, Neg(X), c.radix[i])]]

\* validation of a recorded text -> number conversion: case = [dec: [neg, dig, q], got: double]
ParseVerdict ==
  LET c == Cases[pid]
      N == BnFromDigits(c.dec.dig)
  IN [id |-> c.id,
      ok |-> /\ (c.got.e = 2047 => c.got.m = <<>>)           \* never NaN for a numeric literal
             /\ (N # <<>> => (c.got.s = 1) = c.dec.neg)      \* sign (zero results keep the literal's sign too)
             /\ (N = <<>> => IsZero(c.got) /\ ((c.got.s = 1) = c.dec.neg))
             /\ IsCorrectlyRounded(N, c.dec.q, c.got)]

Emit ==
  (phase = "done") =>
     IF IsFmt THEN PrintT(<<"FMT", ToJson(FmtResult)>>) ELSE PrintT(<<"PARSE", ToJson(ParseVerdict)>>)
=============================================================================
