CONSTANTS
  Alphabet <- AlphaFull
  MaxLen = 3
  OtherMaxLen = 2
INIT Init
NEXT Next
INVARIANT RefOK
INVARIANT EmitInv
CHECK_DEADLOCK FALSE
