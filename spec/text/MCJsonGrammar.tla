--------------------------- MODULE MCJsonGrammar ---------------------------
(***************************************************************************)
(* Pass 1 of C18: TLC enumerates every LIVE class string (viable prefix of *)
(* a JSON text) up to MaxLen tokens as a behaviour of the recogniser and   *)
(* emits, per string: accepted-at-end-of-text or not, the value for the    *)
(* canonical representatives, the set of classes that kill it (one more    *)
(* token makes it a non-prefix), and its shortest completion.              *)
(***************************************************************************)
EXTENDS JsonGrammar, Json

CONSTANTS MaxLen,        \* tokens per class string
          MaxWs,         \* whitespace tokens per class string
          MaxBody,       \* string-body tokens per class string
          MinEmit        \* emit only class strings at least this long (simulation runs)

VARIABLES hist, st
vars == <<hist, st>>

\* Representatives per class; the first one is the canonical one used by the enumeration.
Reps == [
  LBRACK |-> << <<91>> >>, RBRACK |-> << <<93>> >>, LBRACE |-> << <<123>> >>, RBRACE |-> << <<125>> >>,
  COLON  |-> << <<58>> >>, COMMA |-> << <<44>> >>,
  SP     |-> << <<32>> >>,
  WSC    |-> << <<10>>, <<9>>, <<13>> >>,
  UWS    |-> << <<160>>, <<65279>>, <<12288>>, <<8192>>, <<5760>>, <<8239>> >>,
  LS     |-> << <<8232>>, <<8233>> >>,
  CTL    |-> << <<0>>, <<8>>, <<11>>, <<12>>, <<31>>, <<27>> >>,
  MINUS  |-> << <<45>> >>, PLUS |-> << <<43>> >>, ZERO |-> << <<48>> >>,
  DIGIT  |-> << <<49>>, <<52>>, <<57>>, <<53>>, <<50>> >>,
  DOT    |-> << <<46>> >>,
  EXP    |-> << <<101>>, <<69>> >>,
  QUOTE  |-> << <<34>> >>,
  \* a b x e-acute pi DEL ' / * n _ ( ; = ` $ t U+FFFD U+FFFF
  PLAIN  |-> << <<97>>, <<98>>, <<120>>, <<233>>, <<960>>, <<127>>, <<39>>, <<47>>, <<42>>, <<110>>, <<95>>,
                <<40>>, <<59>>, <<61>>, <<96>>, <<36>>, <<116>>, <<65533>>, <<65535>> >>,
  SURR   |-> << <<55296>>, <<56320>>, <<56319>>, <<57343>>, <<55357>>, <<56832>> >>,
  \* \n \" \\ \/ \b \f \r \t
  ESC    |-> << <<92, 110>>, <<92, 34>>, <<92, 92>>, <<92, 47>>, <<92, 98>>, <<92, 102>>, <<92, 114>>, <<92, 116>> >>,
  \* A é \u0000 \u001F " \   ￿ « ﻿
  U4     |-> << <<92, 117, 48, 48, 52, 49>>, <<92, 117, 48, 48, 101, 57>>, <<92, 117, 48, 48, 48, 48>>,
                <<92, 117, 48, 48, 49, 70>>, <<92, 117, 48, 48, 50, 50>>, <<92, 117, 48, 48, 53, 67>>,
                <<92, 117, 50, 48, 50, 56>>, <<92, 117, 70, 70, 70, 70>>, <<92, 117, 48, 48, 65, 98>>,
                <<92, 117, 70, 69, 70, 70>> >>,
  \* \ud800 \uDBFF \uD83D
  U4HI   |-> << <<92, 117, 100, 56, 48, 48>>, <<92, 117, 68, 66, 70, 70>>, <<92, 117, 68, 56, 51, 68>> >>,
  \* \udc00 \uDFFF \uDE00
  U4LO   |-> << <<92, 117, 100, 99, 48, 48>>, <<92, 117, 68, 70, 70, 70>>, <<92, 117, 68, 69, 48, 48>> >>,
  \* \x \a \' \0 \v \u(truncated) \U \<LF> \<LS> \<SP> lone-backslash \1 \8
  BADESC |-> << <<92, 120>>, <<92, 97>>, <<92, 39>>, <<92, 48>>, <<92, 118>>, <<92, 117>>, <<92, 85>>,
                <<92, 10>>, <<92, 8232>>, <<92, 32>>, <<92>>, <<92, 49>>, <<92, 56>> >>,
  LIT    |-> << WTrue, WFalse, WNull >> ]

ASSUME DOMAIN Reps = Classes
ASSUME \A c \in Classes : \A i \in 1..Len(Reps[c]) : Classify(Reps[c][i]) = c
\* tokens that stand for themselves inside a string never contain a quote, a backslash or a control
ASSUME \A c \in (Classes \ (StrIllegal \cup StrEscapes \cup {"QUOTE"})) : \A i \in 1..Len(Reps[c]) :
          \A j \in 1..Len(Reps[c][i]) : Reps[c][i][j] >= 32 /\ Reps[c][i][j] \notin {34, 92}
ASSUME PrintT(<<"REPS", ToJson(Reps)>>)

Canon(c) == [c |-> c, u |-> Reps[c][1]]

\* Inside a string all self-inserting classes behave alike: the enumeration uses these (the harness
\* renders PLAIN tokens inside strings with representatives of every self-inserting class).
StrAlphabet == {"QUOTE", "PLAIN", "SURR", "ESC", "U4", "U4HI", "U4LO"}

Count(s, C) == Cardinality({i \in 1..Len(s) : s[i] \in C})

Init == hist = <<>> /\ st = InitState
Next == /\ Len(hist) < MaxLen
        /\ \E c \in (IF st.mode = "str" THEN StrAlphabet ELSE Classes) :
             LET s2 == Step(st, Canon(c)) IN
             /\ s2.mode # "dead"
             /\ (c \in Ws => Count(hist, Ws) < MaxWs)
             /\ (st.mode = "str" /\ c # "QUOTE" => Count(hist, StrAlphabet \ {"QUOTE"}) < MaxBody)
             /\ hist' = Append(hist, c)
             /\ st' = s2
Spec == Init /\ [][Next]_vars

Kills == {c \in Classes : Step(st, Canon(c)).mode = "dead"}

(***************************************************************************)
(* Model gate                                                              *)
(***************************************************************************)
TypeOK == st.mode \in Modes \ {"dead"} /\ hist \in Seq(Classes)

\* the pushdown machine and the relational grammar accept the same strings: every string up to MaxLen tokens is
\* either a live one (first conjunct) or a one-token extension of a shorter live one (second conjunct)
GrammarAgree ==
  /\ Accepting(st) = InGrammar(hist)
  /\ Len(hist) < MaxLen => \A c \in Classes : Accepting(Step(st, Canon(c))) = InGrammar(Append(hist, c))

\* stack depth = opened - closed containers (no structural token occurs inside a string in these behaviours)
Balanced == Len(st.stack) = Count(hist, {"LBRACK", "LBRACE"}) - Count(hist, {"RBRACK", "RBRACE"})

\* every live string is a viable prefix: its completion is accepted
CompletionOK == Accepting(Run(st, [i \in 1..Len(Completion(st)) |-> Canon(Completion(st)[i])]))
\* a killed string stays dead (Step is the identity on dead states by its first clause; checked here for the
\* tokens a lenient parser would resynchronise on)
DeadStaysDead ==
  Len(hist) < MaxLen =>
    \A c \in Kills : \A d \in {"RBRACK", "QUOTE"} : Step(Step(st, Canon(c)), Canon(d)).mode = "dead"

\* accepted values are well formed: object keys distinct, indices first and ascending
RECURSIVE WellFormed(_)
WellFormed(v) ==
  IF v.t = "arr" THEN \A i \in 1..Len(v.items) : WellFormed(v.items[i])
  ELSE IF v.t = "obj" THEN
       /\ \A i, j \in 1..Len(v.props) : i < j =>
             /\ v.props[i].k # v.props[j].k
             /\ (IsIndexKey(v.props[j].k) => IsIndexKey(v.props[i].k) /\ IndexLess(v.props[i].k, v.props[j].k))
       /\ \A i \in 1..Len(v.props) : WellFormed(v.props[i].v)
  ELSE v.t \in {"null", "bool", "num", "str"}
ValueOK == Accepting(st) => WellFormed(FinalValue(st))

EmitInv ==
  Len(hist) >= MinEmit =>
  PrintT(<<"CASE", ToJson([t |-> hist, acc |-> Accepting(st), mode |-> st.mode,
                            val |-> IF Accepting(st) THEN FinalValue(st) ELSE NoVal,
                            rev |-> IF Accepting(st) THEN ReviverCalls(FinalValue(st)) ELSE <<>>,
                            kills |-> Kills, comp |-> Completion(st)])>>)
=============================================================================
