CONSTANTS
  MaxLen = 26
  MaxWs = 6
  MaxBody = 10
  MinEmit = 8
SPECIFICATION Spec
INVARIANT TypeOK
INVARIANT Balanced
INVARIANT CompletionOK
INVARIANT ValueOK
INVARIANT EmitInv
CHECK_DEADLOCK FALSE
