---- MODULE MCJsString ----
EXTENDS JsString
\* a, 1, -, space, NBSP (Latin-1 whitespace), e-acute, y-diaeresis, s-caron (U+0161: low byte = "a"), pi, BOM (whitespace), high / low surrogate
AlphaFull == {97, 49, 45, 32, 160, 233, 255, 353, 960, 65279, 55357, 56832}
AlphaSmall == {97, 233, 960, 55357, 56832}
EmitInv == Emit
====
