INIT Init
NEXT Next
INVARIANT TypeOK
INVARIANT LoopInv
INVARIANT RoundTrips
INVARIANT Shortest
INVARIANT Emit
CHECK_DEADLOCK FALSE
