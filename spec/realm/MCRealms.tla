------------------------------ MODULE MCRealms ------------------------------
(***************************************************************************************************************)
(* Scenario model for C20: every history within a budget of steps over the alphabet                             *)
(*   Sabotage(realm, how, focus path or its mate) | SabotageAll | Pass / Forward | Eval | AllocNoise |          *)
(*   NewRealm / NewContext / DropContext                                                                       *)
(* followed by one observation of every live realm.  A FAMILY fixes the budgets (how many steps of which kind), *)
(* the set-up prefix and the set of focus paths; family and focus path are chosen in the initial state, so one  *)
(* TLC run covers all families and all catalogue paths of a tier.  Each finished history is emitted with the    *)
(* observations the reference side of Realms.tla prescribes (HIST lines); the invariants and the action         *)
(* property of Realms.tla are checked in every state of every history (the model gate).                        *)
(*                                                                                                             *)
(* Fams is a set of records                                                                                    *)
(*   [name, focus (set of paths), setup ("all4" | "lazy"), minSteps, maxSteps, maxSab, maxPass, maxEval,        *)
(*    maxNoise, maxLife, maxSabAll, howsFocus, howsMate, kinds, allHolders, obsAll]                              *)
(* supplied by the driver (tools/checks/C20.py generates the module that defines it; MCRealmsGate.tla is a      *)
(* committed example).                                                                                         *)
(***************************************************************************************************************)
EXTENDS Realms, Json

CONSTANTS Fams,
          Emit             \* TRUE: print one HIST line per finished history

VARIABLES focus, fam, done
mcvars == <<vars, focus, fam, done>>

Mate == PathInfo[focus].mate
Slice == IF fam.obsAll THEN {p \in Paths : HolderOf(p) \in active} ELSE {focus, Mate}
Count(ops) == Cardinality({i \in DOMAIN hist : hist[i].op \in ops})
SetupLen == IF fam.setup = "all4" THEN 4 ELSE 1
Steps == Len(hist) - SetupLen

HowOK(how, p) == how \in {"freeze", "proto"} => HolderOf(p) \in HolderHows

(* holders the alphabet of a history of family f with focus path p can reach *)
PathsNeeded(f, p) ==
  LET sl == {p, PathInfo[p].mate}
      withdeps == (sl \cup UNION {PathInfo[q].deps : q \in sl} \cup {PathInfo[q].via : q \in sl}) \ {""} IN
  withdeps \cup UNION {IdentNeedsHere(k) \cup IdentNeedsThere(k) : k \in f.kinds}
HoldersNeeded(f, p) ==
  IF f.allHolders THEN HolderNames
  ELSE {HolderOf(q) : q \in PathsNeeded(f, p)} \cup {ProtoHolderOfKind(k) : k \in f.kinds}

MCInit ==
  /\ fam \in Fams
  /\ focus \in fam.focus
  /\ done = FALSE
  /\ ctxs = <<>> /\ realmCtx = <<>> /\ intr = <<>> /\ heap = <<>> /\ next = 1
  /\ inbox = <<>> /\ registry = {} /\ warm = {} /\ hist = <<>>
  /\ active = HoldersNeeded(fam, focus)

(* the fixed prefix: context 1 (realms 1, 2) and context 2 (realms 3, 4); "lazy": only context 1 / realm 1 *)
SetupStep ==
  /\ Len(hist) < SetupLen
  /\ CASE Len(hist) = 0 -> NewContext
       [] Len(hist) = 1 -> NewRealm(1)
       [] Len(hist) = 2 -> NewContext
       [] Len(hist) = 3 -> NewRealm(2)

Step ==
  /\ Len(hist) >= SetupLen /\ Steps < fam.maxSteps
  /\ \/ /\ Count({"sab"}) < fam.maxSab
        /\ \E r \in LiveRealms :
             \/ \E how \in fam.howsFocus : HowOK(how, focus) /\ Sabotage(r, how, focus)
             \/ Mate # focus /\ \E how \in fam.howsMate : HowOK(how, Mate) /\ Sabotage(r, how, Mate)
     \/ /\ Count({"saball"}) < fam.maxSabAll
        /\ \E r \in LiveRealms : \E rot \in 0..1 : SabotageAll(r, rot)
     \/ /\ Count({"pass", "forward"}) < fam.maxPass
        /\ \/ \E from \in LiveRealms, to \in LiveRealms : \E k \in fam.kinds :
                Pass(from, to, k, IF k = "fn" THEN focus ELSE "")
           \/ \E from \in LiveRealms, to \in LiveRealms : Forward(from, to)
     \/ /\ Count({"eval"}) < fam.maxEval
        /\ \E r \in LiveRealms : Eval(r, Slice)
     \/ /\ Count({"noise"}) < fam.maxNoise
        /\ AllocNoise(3)
     \/ /\ Count({"newctx", "newrealm", "dropctx"}) - SetupLen < fam.maxLife
        /\ \/ NewContext
           \/ \E c \in DOMAIN ctxs : NewRealm(c)
           \/ \E c \in DOMAIN ctxs : Cardinality({x \in DOMAIN ctxs : ctxs[x] = "live"}) > 1 /\ DropContext(c)

Finish ==
  /\ Len(hist) >= SetupLen /\ Steps >= fam.minSteps /\ LiveRealms # {}
  /\ ObserveAll(Slice)
  /\ done' = TRUE

MCNext ==
  /\ ~done
  /\ \/ SetupStep /\ UNCHANGED <<focus, fam, done>>
     \/ Step /\ UNCHANGED <<focus, fam, done>>
     \/ Finish /\ UNCHANGED <<focus, fam>>

MCSpec == MCInit /\ [][MCNext]_mcvars

EmitInv == (done /\ Emit) =>
  PrintT(<<"HIST", ToJson([fam |-> fam.name, focus |-> focus, mate |-> Mate, steps |-> hist])>>)
=============================================================================
