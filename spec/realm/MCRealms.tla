------------------------------ MODULE MCRealms ------------------------------
(***************************************************************************************************************)
(* Scenario model for C20: every history within a budget of steps over the alphabet                             *)
(*   Sabotage(realm, how, focus path or its mate) | Pass / Forward | Eval | AllocNoise | NewRealm / NewContext  *)
(*   / DropContext | SabotageAll                                                                               *)
(* followed by one observation of every live realm.  The focus path is chosen in the initial state, so one TLC  *)
(* run covers a whole set of catalogue paths.  Each finished history is emitted with the observations the       *)
(* reference side of Realms.tla prescribes (HIST lines); the invariants of Realms.tla are checked in every      *)
(* state of every history (the model gate).                                                                    *)
(***************************************************************************************************************)
EXTENDS Realms, Json

CONSTANTS FocusSet,        \* catalogue paths that may be the focus of a history
          Setup,           \* "all4": 2 contexts x 2 realms exist up front; "lazy": only context 1 / realm 1
          MinSteps, MaxSteps,
          MaxSab, MaxPass, MaxEval, MaxNoise, MaxLife, MaxSabAll,
          HowsFocus, HowsMate, KindsPass,
          AllHolders,      \* TRUE: materialise every holder of the catalogue (needed by SabotageAll)
          ObsAll,          \* TRUE: observations probe every materialised path, not only the slice
          Emit             \* TRUE: print one HIST line per finished history

VARIABLES focus, done
mcvars == <<vars, focus, done>>

Mate == PathInfo[focus].mate
Slice == IF ObsAll THEN {p \in Paths : HolderOf(p) \in active} ELSE {focus, Mate}
SabSet == {focus, Mate}
Count(ops) == Cardinality({i \in DOMAIN hist : hist[i].op \in ops})
SetupLen == IF Setup = "all4" THEN 4 ELSE 1
Steps == Len(hist) - SetupLen

HowOK(how, p) == how \in {"freeze", "proto"} => HolderOf(p) \in HolderHows

(* holders the alphabet of a history with this focus can reach *)
PathsNeeded(f) ==
  LET sl == {f, PathInfo[f].mate}
      withdeps == (sl \cup UNION {PathInfo[p].deps : p \in sl} \cup {PathInfo[p].via : p \in sl}) \ {""} IN
  withdeps \cup UNION {IdentNeedsHere(k) \cup IdentNeedsThere(k) : k \in KindsPass}
HoldersNeeded(f) ==
  IF AllHolders THEN HolderNames
  ELSE {HolderOf(p) : p \in PathsNeeded(f)} \cup {ProtoHolderOfKind(k) : k \in KindsPass}

MCInit ==
  /\ focus \in FocusSet
  /\ done = FALSE
  /\ ctxs = <<>> /\ realmCtx = <<>> /\ intr = <<>> /\ heap = <<>> /\ next = 1
  /\ inbox = <<>> /\ registry = {} /\ warm = {} /\ hist = <<>>
  /\ active = HoldersNeeded(focus)

(* the fixed prefix: context 1 (realms 1, 2) and context 2 (realms 3, 4) *)
SetupStep ==
  /\ Len(hist) < SetupLen
  /\ CASE Len(hist) = 0 -> NewContext
       [] Len(hist) = 1 -> NewRealm(1)
       [] Len(hist) = 2 -> NewContext
       [] Len(hist) = 3 -> NewRealm(2)

Step ==
  /\ Len(hist) >= SetupLen /\ Steps < MaxSteps
  /\ \/ /\ Count({"sab"}) < MaxSab
        /\ \E r \in LiveRealms :
             \/ \E how \in HowsFocus : HowOK(how, focus) /\ Sabotage(r, how, focus)
             \/ Mate # focus /\ \E how \in HowsMate : HowOK(how, Mate) /\ Sabotage(r, how, Mate)
     \/ /\ Count({"saball"}) < MaxSabAll
        /\ \E r \in LiveRealms : \E rot \in 0..1 : SabotageAll(r, rot)
     \/ /\ Count({"pass", "forward"}) < MaxPass
        /\ \/ \E from \in LiveRealms, to \in LiveRealms : \E k \in KindsPass :
                Pass(from, to, k, IF k = "fn" THEN focus ELSE "")
           \/ \E from \in LiveRealms, to \in LiveRealms : Forward(from, to)
     \/ /\ Count({"eval"}) < MaxEval
        /\ \E r \in LiveRealms : Eval(r, Slice)
     \/ /\ Count({"noise"}) < MaxNoise
        /\ AllocNoise(3)
     \/ /\ Count({"newctx", "newrealm", "dropctx"}) - SetupLen < MaxLife
        /\ \/ NewContext
           \/ \E c \in DOMAIN ctxs : NewRealm(c)
           \/ \E c \in DOMAIN ctxs : Cardinality({x \in DOMAIN ctxs : ctxs[x] = "live"}) > 1 /\ DropContext(c)

Finish ==
  /\ Len(hist) >= SetupLen /\ Steps >= MinSteps /\ LiveRealms # {}
  /\ ObserveAll(Slice)
  /\ done' = TRUE

MCNext ==
  /\ ~done
  /\ \/ SetupStep /\ UNCHANGED <<focus, done>>
     \/ Step /\ UNCHANGED <<focus, done>>
     \/ Finish /\ UNCHANGED focus

MCSpec == MCInit /\ [][MCNext]_mcvars

EmitInv == (done /\ Emit) => PrintT(<<"HIST", ToJson([focus |-> focus, mate |-> Mate, steps |-> hist])>>)

(* counters for the vacuity guard of the driver: histories in which a sabotage in one realm precedes an         *)
(* observation in ANOTHER realm that reaches the same path *)
=============================================================================
