\* generated by tools/checks/C20.py
CONSTANTS
  Fams <- FamsDef
  MaxCtx = 3
  MaxRealmsPerCtx = 2
  ShareHolders = {}
  ShareScope = "none"
  Emit = FALSE
SPECIFICATION MCSpec
INVARIANT TypeOK
INVARIANT NonInterference
INVARIANT DisjointIntrinsics
INVARIANT CrossRealmIdentity
INVARIANT PropertyInvariants
INVARIANT EmitInv
PROPERTY IsolatedSteps
CHECK_DEADLOCK FALSE
