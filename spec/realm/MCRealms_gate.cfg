\* model gate (small): all step kinds, two focus paths, every invariant and the action property
CONSTANTS
  MaxCtx = 3
  MaxRealmsPerCtx = 2
  ShareHolders = {}
  ShareScope = "none"
  FocusSet = {"Array.prototype.push", "Math.PI"}
  Setup = "all4"
  MinSteps = 0
  MaxSteps = 2
  MaxSab = 2
  MaxPass = 1
  MaxEval = 1
  MaxNoise = 1
  MaxLife = 1
  MaxSabAll = 0
  HowsFocus = {"overwrite", "delete", "freeze", "getter", "proto"}
  HowsMate = {"overwrite"}
  KindsPass = {"fn", "arr"}
  AllHolders = FALSE
  ObsAll = FALSE
  Emit = FALSE
SPECIFICATION MCSpec
INVARIANT TypeOK
INVARIANT NonInterference
INVARIANT DisjointIntrinsics
INVARIANT CrossRealmIdentity
INVARIANT PropertyInvariants
INVARIANT EmitInv
PROPERTY IsolatedSteps
CHECK_DEADLOCK FALSE
