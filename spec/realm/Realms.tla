------------------------------- MODULE Realms -------------------------------
(***************************************************************************************************************)
(* C20 - evaluation is deterministic and contexts / realms are isolated from each other.                        *)
(*                                                                                                             *)
(* One THREAD (an ECMAScript agent in the sense of ECMA-262 9.7) with                                           *)
(*   - contexts (boa `Context`: job queue, VM, shape-tree root), created and dropped dynamically;               *)
(*   - realms inside a context (ECMA-262 9.3 Realm Record: [[Intrinsics]], [[GlobalObject]]), created by        *)
(*     `Context::build` (first realm) and `Context::create_realm`;                                             *)
(*   - thread-level state: the collector's heap (object identities `1..next-1`, advanced by every allocation,  *)
(*     including script-invisible "noise"), the global symbol registry (ECMA-262 20.4.2.2: one List shared by  *)
(*     ALL realms - `Symbol.for(k)` denotes the same symbol in every realm of the agent), and the read-only     *)
(*     well-known symbols / static strings (no state, not modelled).                                           *)
(*                                                                                                             *)
(* MECHANISM SIDE.  A realm's table of intrinsics `intr[r]` maps each holder name (Array.prototype, Math,      *)
(* globalThis, ...) to an OBJECT IDENTITY in the thread heap; the state of the object (extensible?, prototype  *)
(* link replaced?, the catalogue properties it owns with their attributes) lives in `heap`.  Scripts act on    *)
(* objects: a sabotage in realm r reaches the object `intr[r][holder]` and nothing else.  Objects created by   *)
(* scripts (`Pass`) record their creator realm and the identity of their prototype.                            *)
(*                                                                                                             *)
(* REFERENCE SIDE.  `Replay(r)` folds ONLY the sabotage steps addressed to realm r (the history restricted to  *)
(* r) over the pristine table.  The expected trace of `Eval(r, P)` is computed from `Replay` of the realm that  *)
(* owns the intrinsics P reaches (r itself, or the creator realm of a function handed over with `Pass`).        *)
(*                                                                                                             *)
(* PROPERTIES.  NonInterference: for every realm, what the mechanism would show = Replay(r); in action form    *)
(* (IsolatedSteps): a step changes the view of realm r only if it is a sabotage addressed to r.                *)
(* CrossRealmIdentity: an object keeps the prototype of its creator realm, and that prototype is not the       *)
(* corresponding intrinsic of any other realm.  PropertyInvariants: essential invariants of ECMA-262 6.1.7.3   *)
(* (a non-configurable, non-writable data property never changes; a frozen holder stays frozen).               *)
(*                                                                                                             *)
(* The constants ShareHolders / ShareScope describe a DEFECTIVE engine (new realms reuse some intrinsic        *)
(* objects of an older realm); with ShareHolders = {} the properties hold, otherwise TLC refutes them - this   *)
(* is how the model gate shows that the properties have teeth (MCRealms_mutant.cfg).                           *)
(***************************************************************************************************************)
EXTENDS Naturals, Sequences, FiniteSets, TLC, RealmsCatalogue

CONSTANTS MaxCtx,            \* contexts ever created on the thread
          MaxRealmsPerCtx,
          ShareHolders,      \* mutation: holder names that a new realm takes over from a donor realm
          ShareScope         \* "none" | "sibling" (donor = first realm of the same context) | "thread" (donor = realm 1)

VARIABLES ctxs,       \* ctx id -> "live" | "dropped"
          realmCtx,   \* realm id -> ctx id                          (realm ids 1..n in creation order)
          intr,       \* realm id -> [HolderNames -> object id]       the realm's table of intrinsics
          heap,       \* object id -> holder object | script object  (thread-level: the collector's heap)
          next,       \* next free object id                          (allocation history of the thread)
          inbox,      \* realm id -> object id handed to the realm through the host, 0 = none
          registry,   \* keys in the global symbol registry           (thread-level, agent-wide by specification)
          warm,       \* realms that already evaluated a probe        (implementation-shaped: caches are warm)
          active,     \* holder names that are materialised in this behaviour (constant along a behaviour; the
                      \* scenario model picks the holders its alphabet can reach, which keeps TLC's states small)
          hist        \* the history: sequence of step records, Eval steps carry the expected observations

vars == <<ctxs, realmCtx, intr, heap, next, inbox, registry, warm, active, hist>>

Paths == {PathSeq[i] : i \in DOMAIN PathSeq}
HolderOf(p) == PathInfo[p].holder
PathsOf(h) == {p \in Paths : HolderOf(p) = h}
Hows == {"overwrite", "delete", "freeze", "getter", "proto"}
RichKinds == {"xarr", "xerr", "xprom", "ufn", "eval", "fctor", "gen", "cls", "tmpl", "args", "xthrow", "ufthrow", "xctor"}
PassKinds == {"fn", "arr", "err", "prom", "sym"} \cup RichKinds

(***************************************************************************************************************)
(* Property cells and holder objects.  v: which value a Get finds (orig = the built-in, repl = the function    *)
(* the saboteur assigned, getter = an accessor installed by the saboteur, absent = no own property).           *)
(***************************************************************************************************************)
InitCell(p) == [v |-> "orig", acc |-> PathInfo[p].acc, w |-> PathInfo[p].w, c |-> PathInfo[p].c]
InitHolders == [h \in HolderNames |-> [ext |-> TRUE, proto |-> "orig", cells |-> [p \in PathsOf(h) |-> InitCell(p)]]]
InitHolder(h) == InitHolders[h]          \* (a constant: TLC evaluates the table once)

(* ECMA-262 10.1.9 OrdinarySet with Receiver = the holder, sloppy mode (failure is silent). *)
SetCell(hs, p) ==
  LET cl == hs.cells[p] IN
  IF cl.v = "absent"
    THEN IF hs.ext THEN [hs EXCEPT !.cells[p] = [v |-> "repl", acc |-> FALSE, w |-> TRUE, c |-> TRUE]] ELSE hs
  ELSE IF cl.acc THEN hs                                   \* accessor without [[Set]]: rejected
  ELSE IF cl.w THEN [hs EXCEPT !.cells[p].v = "repl"] ELSE hs

(* 10.1.10 OrdinaryDelete; result = value of the `delete` expression *)
DeleteCell(hs, p) ==
  LET cl == hs.cells[p] IN
  IF cl.v = "absent" THEN [hs |-> hs, res |-> "true"]
  ELSE IF cl.c THEN [hs |-> [hs EXCEPT !.cells[p] = [v |-> "absent", acc |-> FALSE, w |-> FALSE, c |-> FALSE]], res |-> "true"]
  ELSE [hs |-> hs, res |-> "false"]

(* 20.1.2.6 Object.freeze / 7.3.16 SetIntegrityLevel(frozen) on an ordinary object *)
FreezeHolder(hs) ==
  [hs EXCEPT !.ext = FALSE,
             !.cells = [p \in DOMAIN hs.cells |->
                          IF hs.cells[p].v = "absent" THEN hs.cells[p]
                          ELSE [hs.cells[p] EXCEPT !.c = FALSE, !.w = FALSE]]]

(* Object.defineProperty(holder, key, {get, configurable: true}) - 10.1.6.3 ValidateAndApplyPropertyDescriptor *)
GetterCell(hs, p) ==
  LET cl == hs.cells[p]
      acc == [v |-> "getter", acc |-> TRUE, w |-> FALSE, c |-> TRUE] IN
  IF cl.v = "absent"
    THEN IF hs.ext THEN [hs |-> [hs EXCEPT !.cells[p] = acc], res |-> "ok"] ELSE [hs |-> hs, res |-> "TypeError"]
  ELSE IF cl.c THEN [hs |-> [hs EXCEPT !.cells[p] = acc], res |-> "ok"]
  ELSE [hs |-> hs, res |-> "TypeError"]

(* Object.setPrototypeOf(holder, fresh object): 10.1.2 OrdinarySetPrototypeOf, 10.4.7 immutable prototype *)
ProtoHolder(hs, h) ==
  IF h \in ImmutableProto \/ ~hs.ext THEN [hs |-> hs, res |-> "TypeError"]
  ELSE [hs |-> [hs EXCEPT !.proto = "repl"], res |-> "ok"]

(* One sabotage applied to the holder object of path p. *)
ApplyHS(hs, how, p) ==
  CASE how = "overwrite" -> [hs |-> SetCell(hs, p), res |-> "done"]
    [] how = "delete"    -> DeleteCell(hs, p)
    [] how = "freeze"    -> [hs |-> FreezeHolder(hs), res |-> "ok"]
    [] how = "getter"    -> GetterCell(hs, p)
    [] how = "proto"     -> ProtoHolder(hs, HolderOf(p))

(***************************************************************************************************************)
(* Views.  A view is what a realm's scripts can find out about its intrinsics: HolderNames -> holder state.     *)
(***************************************************************************************************************)
PristineView == [h \in active |-> InitHolder(h)]
ApplyView(view, how, p) ==
  LET a == ApplyHS(view[HolderOf(p)], how, p) IN [view |-> [view EXCEPT ![HolderOf(p)] = a.hs], res |-> a.res]

HolderPart(o) == [ext |-> o.ext, proto |-> o.proto, cells |-> o.cells]
MechView(r) == [h \in active |-> HolderPart(heap[intr[r][h]])]

(* all sabotage sub-steps of one history entry, in order (a "saball" entry is a macro of many) *)
RECURSIVE ApplyAll(_, _)
ApplyAll(view, ops) ==
  IF ops = <<>> THEN view ELSE ApplyAll(ApplyView(view, ops[1][1], ops[1][2]).view, Tail(ops))

(* the results the sabotage scripts of a macro entry report, in order *)
RECURSIVE ResAll(_, _)
ResAll(view, ops) ==
  IF ops = <<>> THEN <<>>
  ELSE LET a == ApplyView(view, ops[1][1], ops[1][2]) IN <<a.res>> \o ResAll(a.view, Tail(ops))

RECURSIVE ReplayFrom(_, _, _)
ReplayFrom(view, h, r) ==
  IF h = <<>> THEN view
  ELSE LET e == h[1] IN
       ReplayFrom(IF e.op = "sab" /\ e.realm = r THEN ApplyView(view, e.how, e.path).view
                  ELSE IF e.op = "saball" /\ e.realm = r THEN ApplyAll(view, e.ops)
                  ELSE view, Tail(h), r)
Replay(r) == ReplayFrom(PristineView, hist, r)     \* the history RESTRICTED to r

(***************************************************************************************************************)
(* Observations (the abstract trace of a probe).  A probe of path p first resolves the global name `via` (if    *)
(* any) and then the path itself; a probe that also reaches other catalogue paths (deps) has no prediction      *)
(* unless those are pristine ("skip": the harness does not compare).                                            *)
(***************************************************************************************************************)
CellV(view, p) == view[HolderOf(p)].cells[p].v
ObsPath(view, p) ==
  LET i == PathInfo[p] IN
  IF \E d \in i.deps : CellV(view, d) # "orig" THEN "skip"
  ELSE IF i.via # "" /\ CellV(view, i.via) # "orig" THEN "ns-" \o CellV(view, i.via)
  ELSE CellV(view, p)
ObsHolder(view, h) == [frozen |-> ~view[h].ext, proto |-> view[h].proto = "orig"]

(* kinds of objects handed over.  fn: a function whose body is the probe of a path.  arr / err / prom / sym: an array, *)
(* an error, a settled promise, a registered symbol with a small identity probe.  RichKinds: objects whose identity    *)
(* probe exercises many cross-realm rules at once (GetFunctionRealm, ArraySpeciesCreate, indirect eval, template       *)
(* objects, literals inside foreign function code, the realm of the running frame after a foreign native, function   *)
(* or constructor threw and the exception was caught in the calling frame ...) and therefore reaches many intrinsics  *)
(* of both realms: the                                                                                                *)
(* prediction is given only while both realms are pristine.                                                           *)
ProtoHolderOfKind(k) ==
  CASE k \in {"arr", "xarr"} -> "Array.prototype" [] k \in {"err", "xerr"} -> "Error.prototype"
    [] k \in {"prom", "xprom"} -> "Promise.prototype" [] k = "sym" -> "Symbol"
    [] OTHER -> "Function.prototype"
(* catalogue paths the identity probe of a kind reaches in the evaluating realm / in the creator realm *)
IdentNeedsHere(k) ==
  CASE k = "fn" -> {"globalThis.Object"}
    [] k = "arr" -> {"globalThis.Array", "Array.isArray", "globalThis.Object"}
    [] k = "err" -> {"globalThis.Error"}
    [] k = "prom" -> {"globalThis.Promise"}
    [] k = "sym" -> {"globalThis.Symbol", "Symbol.for"}
    [] OTHER -> {}
IdentNeedsThere(k) == IF k = "prom" THEN {"Promise.prototype.then"} ELSE {}

(* expected observation of evaluating, in realm r, the probes of path set ps and of the inbox *)
ExpectIn(r, ps) ==
  LET own == Replay(r)
      o == IF inbox[r] = 0 THEN [kind |-> "none"] ELSE heap[inbox[r]] IN
  [realm |-> r,
   paths |-> [p \in ps |-> ObsPath(own, p)],
   holders |-> [h \in {HolderOf(p) : p \in ps} |-> ObsHolder(own, h)],
   inbox |-> IF inbox[r] = 0 THEN [kind |-> "none"]
             ELSE IF o.kind = "fn"
               THEN [kind |-> "fn", creator |-> o.creator, path |-> o.path, st |-> ObsPath(Replay(o.creator), o.path)]
             ELSE [kind |-> o.kind, creator |-> o.creator, same |-> (o.creator = r),
                   ok |-> IF o.kind \in RichKinds THEN own = PristineView /\ Replay(o.creator) = PristineView
                          ELSE (\A q \in IdentNeedsHere(o.kind) : CellV(own, q) = "orig")
                               /\ (\A q \in IdentNeedsThere(o.kind) : CellV(Replay(o.creator), q) = "orig")]]

(***************************************************************************************************************)
(* Actions                                                                                                     *)
(***************************************************************************************************************)
Realms == DOMAIN realmCtx
Live(r) == r \in Realms /\ ctxs[realmCtx[r]] = "live"
LiveRealms == {r \in Realms : Live(r)}
RealmsOf(c) == {r \in Realms : realmCtx[r] = c}
HolderIdx(h) == CHOOSE i \in DOMAIN HolderSeq : HolderSeq[i] = h
Min(S) == CHOOSE x \in S : \A y \in S : x <= y

Donor(c) == IF ShareScope = "thread" /\ Realms # {} THEN 1
            ELSE IF ShareScope = "sibling" /\ RealmsOf(c) # {} THEN Min(RealmsOf(c)) ELSE 0

(* allocate the intrinsics of a new realm r of context c: one fresh object per holder (unless the defect shares it) *)
AllocRealm(r, c) ==
  LET d == Donor(c)
      fresh == {h \in active : d = 0 \/ h \notin ShareHolders}
      tab == [h \in active |-> IF h \in fresh THEN next + HolderIdx(h) - 1 ELSE intr[d][h]] IN
  /\ intr' = intr @@ (r :> tab)
  /\ heap' = heap @@ [i \in {tab[h] : h \in fresh} |->
                        LET h == CHOOSE hh \in fresh : tab[hh] = i IN
                        [kind |-> "holder", name |-> h, creator |-> r, ext |-> TRUE, proto |-> "orig",
                         cells |-> InitHolder(h).cells]]
  /\ next' = next + Len(HolderSeq)
  /\ realmCtx' = realmCtx @@ (r :> c)
  /\ inbox' = inbox @@ (r :> 0)

NewContext ==
  LET c == Cardinality(DOMAIN ctxs) + 1
      r == Cardinality(Realms) + 1 IN
  /\ c <= MaxCtx
  /\ ctxs' = ctxs @@ (c :> "live")
  /\ AllocRealm(r, c)
  /\ hist' = Append(hist, [op |-> "newctx", ctx |-> c, realm |-> r])
  /\ UNCHANGED <<registry, warm, active>>

NewRealm(c) ==
  LET r == Cardinality(Realms) + 1 IN
  /\ c \in DOMAIN ctxs /\ ctxs[c] = "live"
  /\ Cardinality(RealmsOf(c)) < MaxRealmsPerCtx
  /\ AllocRealm(r, c)
  /\ hist' = Append(hist, [op |-> "newrealm", ctx |-> c, realm |-> r])
  /\ UNCHANGED <<ctxs, registry, warm, active>>

(* The context is dropped by the host.  Its realms can no longer evaluate; objects that were handed to other    *)
(* realms stay alive and keep working (their realm record is reachable from them).                             *)
DropContext(c) ==
  /\ c \in DOMAIN ctxs /\ ctxs[c] = "live"
  /\ ctxs' = [ctxs EXCEPT ![c] = "dropped"]
  /\ hist' = Append(hist, [op |-> "dropctx", ctx |-> c])
  /\ UNCHANGED <<realmCtx, intr, heap, next, inbox, registry, warm, active>>

(* Sabotage(realm, path, how): a script of realm r mutates one of ITS intrinsics *)
Sabotage(r, how, p) ==
  LET id == intr[r][HolderOf(p)]
      a == ApplyHS(HolderPart(heap[id]), how, p)
      ref == ApplyView(Replay(r), how, p) IN
  /\ Live(r)
  /\ heap' = [heap EXCEPT ![id].ext = a.hs.ext, ![id].proto = a.hs.proto, ![id].cells = a.hs.cells]
  /\ hist' = Append(hist, [op |-> "sab", realm |-> r, how |-> how, path |-> p, res |-> ref.res])
  /\ UNCHANGED <<ctxs, realmCtx, intr, next, inbox, registry, warm, active>>

(* every catalogue path of realm r is sabotaged in catalogue order, the manner rotating with `rot` *)
HowSeq == <<"overwrite", "delete", "getter", "freeze", "proto">>
SabAllOps(rot) ==
  LET ps == SelectSeq(PathSeq, LAMBDA p : HolderOf(p) \in active) IN
  [i \in DOMAIN ps |->
     LET how == HowSeq[((i + rot) % 5) + 1]
         p == ps[i] IN
     <<IF how \in {"freeze", "proto"} /\ HolderOf(p) \notin HolderHows THEN "overwrite" ELSE how, p>>]
RECURSIVE MechAll(_, _, _)
MechAll(hp, r, ops) ==
  IF ops = <<>> THEN hp
  ELSE LET id == intr[r][HolderOf(ops[1][2])]
           a == ApplyHS(HolderPart(hp[id]), ops[1][1], ops[1][2]) IN
       MechAll([hp EXCEPT ![id].ext = a.hs.ext, ![id].proto = a.hs.proto, ![id].cells = a.hs.cells], r, Tail(ops))
SabotageAll(r, rot) ==
  /\ Live(r)
  /\ heap' = MechAll(heap, r, SabAllOps(rot))
  /\ hist' = Append(hist, [op |-> "saball", realm |-> r, rot |-> rot, ops |-> SabAllOps(rot),
                            ress |-> ResAll(Replay(r), SabAllOps(rot))])
  /\ UNCHANGED <<ctxs, realmCtx, intr, next, inbox, registry, warm, active>>

(* Pass(obj, fromRealm, toRealm): a script of `from` creates an object, the host hands it to `to`.  kind "fn":   *)
(* a function whose body is the probe of path p (it resolves intrinsics in ITS realm, ECMA-262 10.2.1.1).       *)
Pass(from, to, kind, p) ==
  /\ Live(from) /\ Live(to)
  /\ kind \in RichKinds => Replay(from) = PristineView       \* (the maker expression of a rich kind needs a pristine realm)
  /\ heap' = heap @@ (next :> [kind |-> kind, creator |-> from, path |-> p,
                               protoId |-> intr[from][ProtoHolderOfKind(kind)]])
  /\ next' = next + 1
  /\ inbox' = [inbox EXCEPT ![to] = next]
  /\ registry' = IF kind = "sym" THEN registry \cup {"k"} ELSE registry
  /\ hist' = Append(hist, [op |-> "pass", from |-> from, to |-> to, kind |-> kind, path |-> p])
  /\ UNCHANGED <<ctxs, realmCtx, intr, warm, active>>

(* the object a realm received is handed on unchanged: it still belongs to its creator *)
Forward(from, to) ==
  /\ Live(from) /\ Live(to) /\ from # to /\ inbox[from] # 0
  /\ inbox' = [inbox EXCEPT ![to] = inbox[from]]
  /\ hist' = Append(hist, [op |-> "forward", from |-> from, to |-> to])
  /\ UNCHANGED <<ctxs, realmCtx, intr, heap, next, registry, warm, active>>

(* Eval(realm, P): P = the probes of the path set ps plus the inbox probe.  Evaluation changes nothing a script *)
(* can see; the step records what the reference prescribes.                                                    *)
Eval(r, ps) ==
  /\ Live(r)
  /\ warm' = warm \cup {r}
  /\ hist' = Append(hist, [op |-> "eval", realm |-> r, exp |-> ExpectIn(r, ps)])
  /\ UNCHANGED <<ctxs, realmCtx, intr, heap, next, inbox, registry, active>>

(* every live realm evaluates P, in realm order *)
ObserveAll(ps) ==
  /\ warm' = warm \cup LiveRealms
  /\ hist' = Append(hist, [op |-> "observe", exps |-> [r \in LiveRealms |-> ExpectIn(r, ps)]])
  /\ UNCHANGED <<ctxs, realmCtx, intr, heap, next, inbox, registry, active>>

(* AllocNoise: objects / shapes / strings are allocated and dropped, symbols registered - no script of any      *)
(* realm can tell *)
AllocNoise(k) ==
  /\ next' = next + k
  /\ registry' = registry \cup {"noise"}
  /\ hist' = Append(hist, [op |-> "noise", n |-> k])
  /\ UNCHANGED <<ctxs, realmCtx, intr, heap, inbox, warm, active>>

Init ==
  /\ ctxs = <<>> /\ realmCtx = <<>> /\ intr = <<>> /\ heap = <<>> /\ next = 1
  /\ inbox = <<>> /\ registry = {} /\ warm = {} /\ hist = <<>>
  /\ active \in SUBSET HolderNames

(***************************************************************************************************************)
(* Properties                                                                                                  *)
(***************************************************************************************************************)
TypeOK ==
  /\ \A r \in Realms : \A h \in active : intr[r][h] \in DOMAIN heap /\ heap[intr[r][h]].kind = "holder"
                                               /\ heap[intr[r][h]].name = h
  /\ DOMAIN heap \subseteq 1..(next - 1)
  /\ \A r \in Realms : inbox[r] = 0 \/ (inbox[r] \in DOMAIN heap /\ heap[inbox[r]].kind \in PassKinds)

(* what realm r can observe is a function of the history restricted to r *)
NonInterference == \A r \in Realms : MechView(r) = Replay(r)

(* no two realms reach the same intrinsic object *)
DisjointIntrinsics == \A r1, r2 \in Realms : \A h \in active : r1 # r2 => intr[r1][h] # intr[r2][h]

(* an object keeps the prototype of its creator realm; seen from another realm it is foreign *)
CrossRealmIdentity ==
  \A r \in Realms : inbox[r] # 0 =>
    LET o == heap[inbox[r]]
        ph == ProtoHolderOfKind(o.kind) IN
    /\ o.protoId = intr[o.creator][ph]
    /\ (o.creator # r => o.protoId # intr[r][ph])
    /\ (o.creator = r => o.protoId = intr[r][ph])

(* ECMA-262 6.1.7.3: frozen means frozen *)
PropertyInvariants ==
  \A i \in DOMAIN heap : heap[i].kind = "holder" =>
    /\ (~heap[i].ext =>
          \A p \in DOMAIN heap[i].cells : heap[i].cells[p].v # "absent" => ~heap[i].cells[p].c /\ ~heap[i].cells[p].w)
    /\ \A p \in DOMAIN heap[i].cells :
          LET cl == heap[i].cells[p] IN
          /\ (~PathInfo[p].c /\ ~PathInfo[p].w => cl = InitCell(p))       \* born immutable: never changes
          /\ (cl.acc => ~cl.w)

(* action form: a step changes the view of realm r only if it is a sabotage addressed to r; noise, evaluation, *)
(* passing objects around, creating and dropping contexts change no view; nothing ever un-freezes               *)
LastStep == hist'[Len(hist')]
IsolatedSteps ==
  [][\A r \in Realms :
       /\ (MechView(r)' # MechView(r) => LastStep.op \in {"sab", "saball"} /\ LastStep.realm = r)
       /\ \A h \in active : ~MechView(r)[h].ext => ~(MechView(r)')[h].ext]_vars
=============================================================================
