\* thorough: <= 5 modules, <= 6 edges, synchronous bodies, at most one thrower
CONSTANTS
  MaxN = 5
  MaxEdges = 6
  Kinds <- KindsSync
  Binds <- BindsOne
  SelfLoops = FALSE
  MaxSpecial = 1
  Drains <- DrainsNo
  Given <- NoGiven
  Scripts = "same"
INIT Init
NEXT Next
INVARIANT TypeOK
INVARIANT RunAtMostOnce
INVARIANT DepsFirst
INVARIANT StackOK
INVARIANT PendingOK
INVARIANT SecondEvaluateIsIdempotent
INVARIANT LoaderOnce
INVARIANT ErrorsReachExactlyDependents
INVARIANT Settled
INVARIANT EmitInv
CHECK_DEADLOCK FALSE
