\* quick: all graphs on <= 2 modules incl. self imports x {s,st,a,at} x two binding styles x any first/second Evaluate
CONSTANTS
  MaxN = 2
  MaxEdges = 4
  Kinds <- KindsCore
  Binds <- BindsTwo
  SelfLoops = TRUE
  MaxSpecial = 8
  Drains <- DrainsBoth
  Given <- NoGiven
  Scripts = "any"
INIT Init
NEXT Next
INVARIANT TypeOK
INVARIANT RunAtMostOnce
INVARIANT DepsFirst
INVARIANT StackOK
INVARIANT PendingOK
INVARIANT SecondEvaluateIsIdempotent
INVARIANT LoaderOnce
INVARIANT ErrorsReachExactlyDependents
INVARIANT Settled
INVARIANT EmitInv
CHECK_DEADLOCK FALSE
