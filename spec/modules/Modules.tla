------------------------------- MODULE Modules -------------------------------
(***************************************************************************)
(* ECMA-262 16.2.1.5 (Cyclic Module Records) and 16.2.1.6 (Source Text     *)
(* Module Records) as state and transitions: LoadRequestedModules /        *)
(* InnerModuleLoading / ContinueModuleLoading, Link / InnerModuleLinking,  *)
(* Evaluate / InnerModuleEvaluation, ExecuteAsyncModule,                   *)
(* AsyncModuleExecutionFulfilled / Rejected, GatherAvailableAncestors and  *)
(* the promise job queue.  The recursive algorithms run on an explicit     *)
(* frame stack, one action per numbered step group.                        *)
(*                                                                         *)
(* The module graph itself is built by the model (phase "gen"): a          *)
(* depth-first builder creates module k+1 or adds an edge to an existing   *)
(* module, so every (graph, per-module request order, entry) is generated  *)
(* exactly once up to renaming: modules are numbered in the depth-first    *)
(* pre-order of the entry module 1, every module is reachable from 1.      *)
(*                                                                         *)
(* Module bodies are abstract.  Module m is                                *)
(*    import {x as x_d [, y as y_d]} from "d"  |  import * as n_d from "d" *)
(*    [export {x as y} from "<first request>"]            (bind: reexport) *)
(*    export let x = 1;  print(m,"run");  <read x (and y) of every d>;     *)
(*    x = 2;  [throw Em]  [await 0; print(m,"resume"); <reads>; x = 3;]    *)
(*    [throw Em]                                                           *)
(* kind: "s" sync, "st" sync throwing, "a" one top-level await, "at" throws*)
(* after its await, "ap" throws before it, "aw" awaits three times (a slow *)
(* body: modules started after it can settle before it does)               *)
(* after the await, "ap" contains an await but throws before reaching it.  *)
(* A read of a binding whose module body has not started observes the TDZ  *)
(* (value 0).                                                              *)
(***************************************************************************)
EXTENDS Naturals, Integers, Sequences, FiniteSets, TLC, Json

CONSTANTS MaxN,        \* maximal number of modules
          MaxEdges,    \* maximal number of import edges
          Kinds,       \* subset of {"s","st","a","at","ap"}
          Binds,       \* subset of {"named","ns","reexp","nsreexp"}
          SelfLoops,   \* BOOLEAN: a module may import itself
          MaxSpecial,  \* at most this many bodies of a kind other than "s"
          Drains,      \* subset of BOOLEAN: may the host run the jobs between the two Evaluate calls
          Scripts,     \* "same": Evaluate(1) twice; "any": first or second Evaluate on any module
          Given        \* <<>>: the model builds the scenarios; otherwise a sequence of scenarios
                       \* [n, req, kind, bind, script] whose behaviours are computed (shrinking, replay)

VARIABLES
  \* ---- the scenario (built in phase "gen", constant afterwards)
  n, req, kind, bind, gstack, script,
  \* ---- Cyclic Module Record fields
  status, dfsIndex, dfsAncestor, cycleRoot, asyncOrder, pending, asyncParents, evalError, topCap, loaded,
  \* ---- agent / algorithm state
  asyncCount,   \* [[ModuleAsyncEvaluationCount]]
  ld,           \* GraphLoadingState of the current LoadRequestedModules
  frames,       \* activation records of InnerModuleLinking / InnerModuleEvaluation
  stack,        \* the `stack` parameter
  index,        \* the `index` parameter / result
  thrown,       \* 0, or the id of the module whose error is propagating as an abrupt completion
  act,          \* "idle" | "link" | "eval" | "exec" (inside AsyncModuleExecutionFulfilled step 12)
  evalRoot,     \* module whose Evaluate() is in progress
  execList,     \* remaining sortedExecList
  jobs,         \* promise job queue (FIFO)
  caps,         \* promise capabilities handed to the host: [st, why]
  \* ---- observations / history
  val, ran, fin, threw, depsOK, out, loaderLog, proms, obs, phase, hpc, callMark

scen   == <<n, req, kind, bind, gstack, script>>
recs   == <<status, dfsIndex, dfsAncestor, cycleRoot, asyncOrder, pending, asyncParents, evalError, topCap, loaded>>
algo   == <<asyncCount, ld, frames, stack, index, thrown, act, evalRoot, execList, jobs, caps>>
hist   == <<val, ran, fin, threw, depsOK, out, loaderLog, proms, obs, phase, hpc, callMark>>
vars   == <<scen, recs, algo, hist>>

Mods == 1..MaxN
UNSET == -1
DONE  == -2
IsInt(o) == o >= 0

Min(a, b) == IF a < b THEN a ELSE b
Last(s) == s[Len(s)]
Front(s) == SubSeq(s, 1, Len(s) - 1)
SeqToSet(s) == {s[k] : k \in 1..Len(s)}
RECURSIVE LoadJobs(_, _)
LoadJobs(m, us) == IF us = <<>> THEN <<>> ELSE <<[t |-> "loaded", m |-> m, r |-> Head(us), e |-> 0]>> \o LoadJobs(m, Tail(us))
RECURSIVE LoadLog(_, _)
LoadLog(m, us) == IF us = <<>> THEN <<>> ELSE <<<<m, Head(us)>>>> \o LoadLog(m, Tail(us))

HasTLA(m) == kind[m] \in {"a", "at", "ap", "aw"}
ReExports(m) == bind[m] \in {"reexp", "nsreexp"} /\ Len(req[m]) > 0
NsImporter(m) == bind[m] \in {"ns", "nsreexp"}

\* transitive closure of the import relation (used by the invariants only)
RECURSIVE ReachFrom(_, _)
ReachFrom(todo, seen) ==
  IF todo = {} THEN seen
  ELSE LET m == CHOOSE x \in todo : TRUE
           nx == SeqToSet(req[m]) \ seen
       IN ReachFrom((todo \ {m}) \cup nx, seen \cup nx)
ReachPlus(m) == ReachFrom({m}, {})           \* modules reachable by >= 1 edge
ReachStar(m) == ReachPlus(m) \cup {m}

-----------------------------------------------------------------------------
(* Phase "gen": depth-first construction of the graph *)

Edges == LET RECURSIVE Sum(_)
             Sum(k) == IF k = 0 THEN 0 ELSE Len(req[k]) + Sum(k - 1)
         IN Sum(n)

GenNew ==
  /\ phase = "gen" /\ gstack # <<>> /\ n < MaxN /\ Edges < MaxEdges
  /\ \E b \in Binds :
       LET top == Last(gstack) IN
       /\ n' = n + 1
       /\ req' = [req EXCEPT ![top] = Append(@, n + 1)]
       /\ bind' = [bind EXCEPT ![n + 1] = b]
       /\ gstack' = Append(gstack, n + 1)
  /\ UNCHANGED <<kind, script, recs, algo, hist>>

GenOld ==
  /\ phase = "gen" /\ gstack # <<>> /\ Edges < MaxEdges
  /\ LET top == Last(gstack) IN
     \E k \in 1..n :
       /\ k \notin SeqToSet(req[top])
       /\ (k = top => SelfLoops)
       /\ req' = [req EXCEPT ![top] = Append(@, k)]
  /\ UNCHANGED <<n, kind, bind, gstack, script, recs, algo, hist>>

GenPop ==
  /\ phase = "gen" /\ gstack # <<>>
  /\ gstack' = Front(gstack)
  /\ phase' = IF Len(gstack) = 1 THEN "host" ELSE "gen"
  /\ UNCHANGED <<n, req, kind, bind, script, recs, algo,
                 val, ran, fin, threw, depsOK, out, loaderLog, proms, obs, hpc, callMark>>

-----------------------------------------------------------------------------
(* Module bodies *)

Ev(m, e, d, v) == [m |-> m, e |-> e, d |-> d, v |-> v]

\* what module m observes when it reads the bindings it imports from d, given binding values vl
ReadsOf(m, d, vl) ==
  <<Ev(m, "rd", d, vl[d])>>
  \o (IF ReExports(d) THEN <<Ev(m, "ry", d, vl[req[d][1]])>> ELSE <<>>)
  \o (IF NsImporter(m) THEN <<Ev(m, "has", d, IF ReExports(d) THEN 1 ELSE 0)>> ELSE <<>>)

RECURSIVE AllReads(_, _, _)
AllReads(m, k, vl) == IF k > Len(req[m]) THEN <<>> ELSE ReadsOf(m, req[m][k], vl) \o AllReads(m, k + 1, vl)

\* first part of the body: up to the throw, the await, or the end
StartEvents(m) == LET v1 == [val EXCEPT ![m] = 1] IN <<Ev(m, "run", 0, 0)>> \o AllReads(m, 1, v1)
ResumeEvents(m) == LET v2 == [val EXCEPT ![m] = 2] IN <<Ev(m, "resume", 0, 0)>> \o AllReads(m, 1, v2)

\* DepsFirst, evaluated when the body of m starts: every requested module that does not itself depend on m (a
\* non-cyclic dependency) has finished - and so, by induction, have that module's own non-cyclic dependencies.
\* (A dependency reached only through a cycle member, as 3 in 1 -> [2, 3], 2 -> [1], may still be outstanding
\* when 2 runs: 16.2.1.5.3.1 treats the edge 2 -> 1 as satisfied because 1 is on the stack.)
DepsFinished(m) == \A d \in SeqToSet(req[m]) : (m \notin ReachPlus(d)) => fin[d]

\* Updates of the history variables for "the body of m starts".  Returns a record.
BodyStart(m, k) ==
  [ out   |-> out \o StartEvents(m),
    val   |-> [val EXCEPT ![m] = 2],
    ran   |-> [ran EXCEPT ![m] = @ + 1],
    depsOK |-> [depsOK EXCEPT ![m] = DepsFinished(m)],
    throws |-> k \in {"st", "ap"},
    fin   |-> [fin EXCEPT ![m] = (k = "s")] ]

-----------------------------------------------------------------------------
(* 16.2.1.5.1 LoadRequestedModules, InnerModuleLoading, ContinueModuleLoading *)

\* InnerModuleLoading(state, m) on a work list: todo = the pending invocations in call order; an entry -m
\* stands for "steps 3-5 of the invocation for m".  L = [visited, count, loading, newJobs, newLog].
LoadRun(todo, L) ==
  LET RECURSIVE Go(_, _)
      Go(td, LL) ==
        IF td = <<>> \/ ~LL.loading THEN LL
        ELSE IF Head(td) < 0
             THEN LET L1 == [LL EXCEPT !.count = @ - 1] IN Go(Tail(td), [L1 EXCEPT !.loading = (L1.count # 0)])
             ELSE LET m == Head(td) IN
                  IF status[m] = "new" /\ m \notin LL.visited THEN
                    LET reqs == req[m]
                        isKnown(r) == r \in loaded[m]
                        unknown == SelectSeq(reqs, LAMBDA r : ~isKnown(r))
                        known == SelectSeq(reqs, isKnown)
                        L1 == [LL EXCEPT !.visited = @ \cup {m}, !.count = @ + Len(reqs),
                                 !.newJobs = @ \o LoadJobs(m, unknown),
                                 !.newLog = @ \o LoadLog(m, unknown)]
                    IN Go(known \o <<0 - m>> \o Tail(td), L1)
                  ELSE Go(<<0 - m>> \o Tail(td), LL)
  IN Go(todo, L)

\* Effect of running InnerModuleLoading(state, m) in the current state: new ld, jobs, log, statuses.
DoInnerLoad(m, ldNow, jobsNow) ==
  LET L0 == [visited |-> ldNow.visited, count |-> ldNow.count, loading |-> TRUE, newJobs |-> <<>>, newLog |-> <<>>]
      L == LoadRun(<<m>>, L0)
  IN [ ld |-> [ldNow EXCEPT !.visited = L.visited, !.count = L.count, !.loading = L.loading,
                            !.state = IF L.loading THEN "pending" ELSE "fulfilled"],
       jobs |-> jobsNow \o L.newJobs,
       log |-> loaderLog \o L.newLog,
       \* step 5.b: every visited module that is still new becomes unlinked
       status |-> IF L.loading THEN status
                  ELSE [x \in Mods |-> IF x \in L.visited /\ status[x] = "new" THEN "unlinked" ELSE status[x]] ]

HLoad(m) ==
  LET r == DoInnerLoad(m, [visited |-> {}, count |-> 1, loading |-> TRUE, state |-> "pending"], jobs) IN
  /\ ld' = r.ld /\ jobs' = r.jobs /\ loaderLog' = r.log /\ status' = r.status

\* the host finished loading request rq of module m: FinishLoadingImportedModule + ContinueModuleLoading
JobLoaded(m, rq, rest) ==
  /\ loaded' = [loaded EXCEPT ![m] = @ \cup {rq}]
  /\ IF ld.loading
     THEN LET r == DoInnerLoad(rq, ld, rest) IN
          /\ ld' = r.ld /\ jobs' = r.jobs /\ loaderLog' = r.log /\ status' = r.status
     ELSE /\ jobs' = rest /\ UNCHANGED <<ld, loaderLog, status>>

-----------------------------------------------------------------------------
(* 16.2.1.5.2 Link, InnerModuleLinking *)

Frame(m, mi) == [m |-> m, i |-> 1, mi |-> mi, ex |-> FALSE]

\* step 9.c for module m after InnerModuleLinking(r) returned, with the statuses st and ancestors anc
LinkAfterChild(m, r, st, anc) ==
  IF st[r] = "linking" THEN [anc EXCEPT ![m] = Min(@, anc[r])] ELSE anc

HLink(m) ==
  \* Link(): steps 1-3; InnerModuleLinking(module, stack, 0)
  /\ status[m] \in {"unlinked", "linked", "evaluating-async", "evaluated"}
  /\ IF status[m] = "unlinked"
     THEN /\ status' = [status EXCEPT ![m] = "linking"]
          /\ dfsIndex' = [dfsIndex EXCEPT ![m] = 0]
          /\ dfsAncestor' = [dfsAncestor EXCEPT ![m] = 0]
          /\ index' = 1 /\ stack' = <<m>> /\ frames' = <<Frame(m, 0)>> /\ act' = "link"
     ELSE UNCHANGED <<status, dfsIndex, dfsAncestor, index, stack, frames, act>>

LinkStep ==
  /\ act = "link" /\ frames # <<>>
  /\ LET f == Last(frames)  m == f.m IN
     /\ f.i <= Len(req[m])
     /\ LET r == req[m][f.i] IN
        IF status[r] = "unlinked"
        THEN \* InnerModuleLinking(r) steps 3-8
             /\ status' = [status EXCEPT ![r] = "linking"]
             /\ dfsIndex' = [dfsIndex EXCEPT ![r] = index]
             /\ dfsAncestor' = [dfsAncestor EXCEPT ![r] = index]
             /\ index' = index + 1
             /\ stack' = Append(stack, r)
             /\ frames' = Append(frames, Frame(r, index))
        ELSE \* InnerModuleLinking(r) step 2 returns at once; step 9.c of m
             /\ dfsAncestor' = LinkAfterChild(m, r, status, dfsAncestor)
             /\ frames' = [frames EXCEPT ![Len(frames)].i = @ + 1]
             /\ UNCHANGED <<status, dfsIndex, index, stack>>
  /\ UNCHANGED <<scen, cycleRoot, asyncOrder, pending, asyncParents, evalError, topCap, loaded,
                 asyncCount, ld, thrown, act, evalRoot, execList, jobs, caps, hist>>

\* positions of the stack that are popped when module m is the root of its component
PoppedBy(m) == LET p == CHOOSE k \in 1..Len(stack) : stack[k] = m IN SeqToSet(SubSeq(stack, p, Len(stack)))
StackBelow(m) == LET p == CHOOSE k \in 1..Len(stack) : stack[k] = m IN SubSeq(stack, 1, p - 1)

LinkFinish ==
  \* steps 10-14 of InnerModuleLinking(m) (InitializeEnvironment creates the bindings: all in TDZ), return to
  \* the caller, which performs its step 9.c
  /\ act = "link" /\ frames # <<>>
  /\ LET f == Last(frames)  m == f.m IN
     /\ f.i > Len(req[m])
     /\ LET isRoot == dfsAncestor[m] = dfsIndex[m]
            st1 == IF isRoot THEN [x \in Mods |-> IF x \in PoppedBy(m) THEN "linked" ELSE status[x]] ELSE status
        IN
        /\ status' = st1
        /\ stack' = IF isRoot THEN StackBelow(m) ELSE stack
        /\ IF Len(frames) = 1
           THEN /\ frames' = <<>> /\ act' = "idle" /\ UNCHANGED dfsAncestor
           ELSE LET pf == frames[Len(frames) - 1] IN
                /\ dfsAncestor' = LinkAfterChild(pf.m, m, st1, dfsAncestor)
                /\ frames' = [Front(frames) EXCEPT ![Len(frames) - 1].i = @ + 1]
                /\ UNCHANGED act
  /\ UNCHANGED <<scen, dfsIndex, cycleRoot, asyncOrder, pending, asyncParents, evalError, topCap, loaded,
                 asyncCount, ld, index, thrown, evalRoot, execList, jobs, caps, hist>>

-----------------------------------------------------------------------------
(* 16.2.1.5.3 Evaluate, InnerModuleEvaluation *)

Settle(cs, c, st, why) == IF c = 0 \/ cs[c].st # "pending" THEN cs ELSE [cs EXCEPT ![c] = [st |-> st, why |-> why]]

\* ExecuteAsyncModule(m): the body runs up to its first await (or throws before it); the continuation, or
\* the settlement of the module's own capability, is a promise job.
AsyncStartJob(m, k) == IF k = "ap" THEN [t |-> "settled", m |-> m, r |-> 0, e |-> m]
                    ELSE [t |-> "resume", m |-> m, r |-> IF k = "aw" THEN 2 ELSE 0, e |-> 0]   \* r: awaits still ahead

\* InnerModuleEvaluation step 11.c for module m after the call for r returned normally, on the given record
\* state.  Returns the updated fields and whether an error must be thrown (11.c.iv.3).
EvalAfterChild(m, r, st, anc, pend, par) ==
  LET rr == IF st[r] = "evaluating" THEN r ELSE cycleRoot[r]
      err == IF st[r] = "evaluating" THEN 0 ELSE evalError[rr]
      anc1 == IF st[r] = "evaluating" THEN [anc EXCEPT ![m] = Min(@, anc[r])] ELSE anc
      isAsync == err = 0 /\ IsInt(asyncOrder[rr])
  IN [ anc |-> anc1,
       pend |-> IF isAsync THEN [pend EXCEPT ![m] = @ + 1] ELSE pend,
       par |-> IF isAsync THEN [par EXCEPT ![rr] = Append(@, m)] ELSE par,
       err |-> err ]

HEvaluate(m) ==
  /\ status[m] \in {"linked", "evaluating-async", "evaluated"}
  /\ LET r == IF status[m] = "linked" THEN m ELSE cycleRoot[m] IN
     IF topCap[r] # 0
     THEN \* step 4: the recorded promise is returned, nothing else happens
          /\ proms' = Append(proms, topCap[r])
          /\ UNCHANGED <<status, dfsIndex, dfsAncestor, pending, topCap, caps, frames, stack, index, act, evalRoot, thrown>>
     ELSE LET c == Len(caps) + 1 IN
          /\ proms' = Append(proms, c)
          /\ topCap' = [topCap EXCEPT ![r] = c]
          /\ evalRoot' = r
          /\ IF status[r] = "linked"
             THEN \* InnerModuleEvaluation(r, stack, 0) steps 5-10
                  /\ caps' = Append(caps, [st |-> "pending", why |-> 0])
                  /\ status' = [status EXCEPT ![r] = "evaluating"]
                  /\ dfsIndex' = [dfsIndex EXCEPT ![r] = 0]
                  /\ dfsAncestor' = [dfsAncestor EXCEPT ![r] = 0]
                  /\ pending' = [pending EXCEPT ![r] = 0]
                  /\ index' = 1 /\ stack' = <<r>> /\ frames' = <<Frame(r, 0)>> /\ act' = "eval"
                  /\ UNCHANGED thrown
             ELSE \* InnerModuleEvaluation returns at step 2; Evaluate steps 9 / 10 with an empty stack
                  /\ caps' = Append(caps,
                       IF status[r] = "evaluated" /\ evalError[r] # 0 THEN [st |-> "rejected", why |-> evalError[r]]
                       ELSE IF status[r] = "evaluated" THEN [st |-> "fulfilled", why |-> 0]
                       ELSE [st |-> "pending", why |-> 0])
                  /\ UNCHANGED <<status, dfsIndex, dfsAncestor, pending, frames, stack, index, act, thrown>>

EvalStep ==
  /\ act = "eval" /\ thrown = 0 /\ frames # <<>>
  /\ LET f == Last(frames)  m == f.m IN
     /\ f.i <= Len(req[m])
     /\ LET r == req[m][f.i] IN
        IF status[r] = "linked"
        THEN \* InnerModuleEvaluation(r) steps 5-10
             /\ status' = [status EXCEPT ![r] = "evaluating"]
             /\ dfsIndex' = [dfsIndex EXCEPT ![r] = index]
             /\ dfsAncestor' = [dfsAncestor EXCEPT ![r] = index]
             /\ pending' = [pending EXCEPT ![r] = 0]
             /\ index' = index + 1
             /\ stack' = Append(stack, r)
             /\ frames' = Append(frames, Frame(r, index))
             /\ UNCHANGED <<asyncParents, thrown>>
        ELSE IF status[r] = "evaluated" /\ evalError[r] # 0
        THEN \* step 2.b: ? module.[[EvaluationError]]
             /\ thrown' = evalError[r]
             /\ UNCHANGED <<status, dfsIndex, dfsAncestor, pending, index, stack, frames, asyncParents>>
        ELSE \* steps 2.a / 3 return index; step 11.c of m
             LET u == EvalAfterChild(m, r, status, dfsAncestor, pending, asyncParents) IN
             /\ dfsAncestor' = u.anc /\ pending' = u.pend /\ asyncParents' = u.par
             /\ thrown' = u.err
             /\ frames' = IF u.err = 0 THEN [frames EXCEPT ![Len(frames)].i = @ + 1] ELSE frames
             /\ UNCHANGED <<status, dfsIndex, index, stack>>
  /\ UNCHANGED <<scen, cycleRoot, asyncOrder, evalError, topCap, loaded,
                 asyncCount, ld, act, evalRoot, execList, jobs, caps, hist>>

EvalBody ==
  \* steps 12 / 13 of InnerModuleEvaluation(m).  The kind of the body of m (whether it contains an await, whether
  \* and where it throws) is chosen here, the first time it matters: a module that is never reached keeps "s".
  /\ act = "eval" /\ thrown = 0 /\ frames # <<>>
  /\ LET f == Last(frames)  m == f.m IN
     /\ f.i > Len(req[m]) /\ ~f.ex
     /\ frames' = [frames EXCEPT ![Len(frames)].ex = TRUE]
     /\ \E k \in (IF script.fixed THEN {kind[m]}
                  ELSE IF Cardinality({x \in 1..n : kind[x] # "s"}) >= MaxSpecial THEN {"s"} ELSE Kinds) :
        /\ kind' = [kind EXCEPT ![m] = k]
        /\ IF pending[m] > 0 \/ k \in {"a", "at", "ap", "aw"}
           THEN /\ asyncOrder' = [asyncOrder EXCEPT ![m] = asyncCount]
                /\ asyncCount' = asyncCount + 1
                /\ IF pending[m] = 0
                   THEN LET b == BodyStart(m, k) IN
                        /\ out' = b.out /\ val' = b.val /\ ran' = b.ran /\ depsOK' = b.depsOK
                        /\ threw' = [threw EXCEPT ![m] = b.throws]
                        /\ jobs' = Append(jobs, AsyncStartJob(m, k))
                        /\ UNCHANGED fin
                   ELSE UNCHANGED <<out, val, ran, depsOK, threw, jobs, fin>>
                /\ UNCHANGED thrown
           ELSE LET b == BodyStart(m, k) IN
                /\ out' = b.out /\ val' = b.val /\ ran' = b.ran /\ depsOK' = b.depsOK /\ fin' = b.fin
                /\ threw' = [threw EXCEPT ![m] = b.throws]
                /\ thrown' = IF b.throws THEN m ELSE 0
                /\ UNCHANGED <<asyncOrder, asyncCount, jobs>>
  /\ UNCHANGED <<n, req, bind, gstack, script, status, dfsIndex, dfsAncestor, cycleRoot, pending, asyncParents, evalError, topCap, loaded,
                 ld, stack, index, act, evalRoot, execList, caps, loaderLog, proms, obs, phase, hpc, callMark>>

EvalPop ==
  \* steps 14-17 of InnerModuleEvaluation(m); then step 11.c of the caller, or step 10 of Evaluate
  /\ act = "eval" /\ thrown = 0 /\ frames # <<>>
  /\ LET f == Last(frames)  m == f.m IN
     /\ f.i > Len(req[m]) /\ f.ex
     /\ LET isRoot == dfsAncestor[m] = dfsIndex[m]
            pop == IF isRoot THEN PoppedBy(m) ELSE {}
            st1 == [x \in Mods |-> IF x \in pop
                                   THEN (IF asyncOrder[x] = UNSET THEN "evaluated" ELSE "evaluating-async")
                                   ELSE status[x]]
            cr1 == [x \in Mods |-> IF x \in pop THEN m ELSE cycleRoot[x]]
        IN
        /\ status' = st1 /\ cycleRoot' = cr1
        /\ stack' = IF isRoot THEN StackBelow(m) ELSE stack
        /\ IF Len(frames) = 1
           THEN \* Evaluate step 10
                /\ frames' = <<>> /\ act' = "idle"
                /\ caps' = IF st1[m] = "evaluated" THEN Settle(caps, topCap[m], "fulfilled", 0) ELSE caps
                /\ UNCHANGED <<dfsAncestor, pending, asyncParents, thrown>>
           ELSE LET pf == frames[Len(frames) - 1]
                    \* cycleRoot of m as the caller sees it is cr1
                    rr == IF st1[m] = "evaluating" THEN m ELSE cr1[m]
                    err == IF st1[m] = "evaluating" THEN 0 ELSE evalError[rr]
                    isAsync == err = 0 /\ IsInt(asyncOrder[rr])
                IN
                /\ dfsAncestor' = IF st1[m] = "evaluating" THEN [dfsAncestor EXCEPT ![pf.m] = Min(@, dfsAncestor[m])]
                                  ELSE dfsAncestor
                /\ pending' = IF isAsync THEN [pending EXCEPT ![pf.m] = @ + 1] ELSE pending
                /\ asyncParents' = IF isAsync THEN [asyncParents EXCEPT ![rr] = Append(@, pf.m)] ELSE asyncParents
                /\ thrown' = err
                /\ frames' = [Front(frames) EXCEPT ![Len(frames) - 1].i = @ + 1]
                /\ UNCHANGED <<act, caps>>
  /\ UNCHANGED <<scen, dfsIndex, asyncOrder, evalError, topCap, loaded,
                 asyncCount, ld, index, evalRoot, execList, jobs, hist>>

EvalAbrupt ==
  \* Evaluate step 9: the abrupt completion reached Evaluate
  /\ act = "eval" /\ thrown # 0
  /\ status' = [x \in Mods |-> IF x \in SeqToSet(stack) THEN "evaluated" ELSE status[x]]
  /\ evalError' = [x \in Mods |-> IF x \in SeqToSet(stack) THEN thrown ELSE evalError[x]]
  /\ cycleRoot' = [x \in Mods |-> IF x \in SeqToSet(stack) /\ cycleRoot[x] = 0 THEN x ELSE cycleRoot[x]]
  /\ caps' = Settle(caps, topCap[evalRoot], "rejected", thrown)
  /\ frames' = <<>> /\ stack' = <<>> /\ thrown' = 0 /\ act' = "idle"
  /\ UNCHANGED <<scen, dfsIndex, dfsAncestor, asyncOrder, pending, asyncParents, topCap, loaded,
                 asyncCount, ld, index, evalRoot, execList, jobs, hist>>

-----------------------------------------------------------------------------
(* 16.2.1.5.3.2-5 ExecuteAsyncModule, GatherAvailableAncestors,
   AsyncModuleExecutionFulfilled, AsyncModuleExecutionRejected *)

\* GatherAvailableAncestors(m, execList) as a depth-first work list over [[AsyncParentModules]].
\* G = [pend, el]; st / err are the record fields at the time of the call.
RECURSIVE Gather(_, _, _, _)
Gather(todo, G, st, err) ==
  IF todo = <<>> THEN G
  ELSE LET p == Head(todo) IN
       IF p \notin SeqToSet(G.el) /\ err[cycleRoot[p]] = 0
       THEN LET pd == G.pend[p] - 1
                G1 == [pend |-> [G.pend EXCEPT ![p] = pd], el |-> IF pd = 0 THEN Append(G.el, p) ELSE G.el]
            IN IF pd = 0 /\ ~HasTLA(p)
               THEN Gather(asyncParents[p] \o Tail(todo), G1, st, err)
               ELSE Gather(Tail(todo), G1, st, err)
       ELSE Gather(Tail(todo), G, st, err)

\* sort a sequence of modules by [[AsyncEvaluationOrder]] (insertion sort)
RECURSIVE SortByOrder(_)
SortByOrder(s) ==
  IF s = <<>> THEN <<>>
  ELSE LET mn == CHOOSE x \in SeqToSet(s) : \A y \in SeqToSet(s) : asyncOrder[x] <= asyncOrder[y]
       IN <<mn>> \o SortByOrder(SelectSeq(s, LAMBDA x : x # mn))

\* AsyncModuleExecutionRejected(m, e): the set of modules that become evaluated with error e
RECURSIVE RejectSet(_, _, _)
RejectSet(todo, acc, st) ==
  IF todo = <<>> THEN acc
  ELSE LET p == Head(todo) IN
       IF st[p] = "evaluated" \/ p \in acc THEN RejectSet(Tail(todo), acc, st)
       ELSE RejectSet(asyncParents[p] \o Tail(todo), acc \cup {p}, st)

\* apply AsyncModuleExecutionRejected(m, e) to (status, evalError, asyncOrder, caps)
ApplyReject(m, e) ==
  LET rs == RejectSet(<<m>>, {}, status)
      RECURSIVE RejCaps(_, _)
      RejCaps(S, cs) == IF S = {} THEN cs
                        ELSE LET x == CHOOSE y \in S : TRUE IN RejCaps(S \ {x}, Settle(cs, topCap[x], "rejected", e))
  IN [ status |-> [x \in Mods |-> IF x \in rs THEN "evaluated" ELSE status[x]],
       evalError |-> [x \in Mods |-> IF x \in rs THEN e ELSE evalError[x]],
       asyncOrder |-> [x \in Mods |-> IF x \in rs THEN DONE ELSE asyncOrder[x]],
       caps |-> RejCaps(rs, caps) ]

JobResume(m, rest) ==
  \* the body of m continues after its await
  /\ out' = out \o ResumeEvents(m)
  /\ val' = [val EXCEPT ![m] = 3]
  /\ threw' = [threw EXCEPT ![m] = (kind[m] = "at")]
  /\ fin' = [fin EXCEPT ![m] = (kind[m] \in {"a", "aw"})]
  /\ jobs' = Append(rest, [t |-> "settled", m |-> m, r |-> 0, e |-> IF kind[m] = "at" THEN m ELSE 0])

JobFulfilled(m, rest) ==
  \* AsyncModuleExecutionFulfilled(m)
  /\ jobs' = rest
  /\ IF status[m] = "evaluated"
     THEN UNCHANGED <<status, asyncOrder, pending, caps, execList, act>>
     ELSE LET G == Gather(asyncParents[m], [pend |-> pending, el |-> <<>>], status, evalError)
              el == SortByOrder(G.el)
          IN /\ status' = [status EXCEPT ![m] = "evaluated"]
             /\ asyncOrder' = [asyncOrder EXCEPT ![m] = DONE]
             /\ caps' = Settle(caps, topCap[m], "fulfilled", 0)
             /\ pending' = G.pend
             /\ execList' = el
             /\ act' = IF el = <<>> THEN "idle" ELSE "exec"

JobRejected(m, e, rest) ==
  /\ jobs' = rest
  /\ LET u == ApplyReject(m, e) IN
     /\ status' = u.status /\ evalError' = u.evalError /\ asyncOrder' = u.asyncOrder /\ caps' = u.caps

\* the host runs jobs only where its script says run_jobs (and then until the queue is empty)
DrainPoints == {"link1", "drain1", "link2", "drain2"}

RunJob ==
  /\ phase = "host" /\ act = "idle" /\ jobs # <<>> /\ hpc \in DrainPoints
  /\ LET j == Head(jobs)  rest == Tail(jobs) IN
     CASE j.t = "loaded" ->
            /\ JobLoaded(j.m, j.r, rest)
            /\ UNCHANGED <<asyncOrder, pending, evalError, caps, execList, act, val, fin, threw, out>>
       [] j.t = "resume" /\ j.r > 0 ->         \* a slow body: the next of its awaits, one more tick
            /\ jobs' = Append(rest, [j EXCEPT !.r = @ - 1])
            /\ UNCHANGED <<status, asyncOrder, pending, evalError, caps, execList, act, val, fin, threw, out, loaded, ld, loaderLog>>
       [] j.t = "resume" /\ j.r = 0 ->
            /\ JobResume(j.m, rest)
            /\ UNCHANGED <<status, asyncOrder, pending, evalError, caps, execList, act, loaded, ld, loaderLog>>
       [] j.t = "settled" /\ j.e = 0 ->
            /\ JobFulfilled(j.m, rest)
            /\ UNCHANGED <<evalError, val, fin, threw, out, loaded, ld, loaderLog>>
       [] j.t = "settled" /\ j.e # 0 ->
            /\ JobRejected(j.m, j.e, rest)
            /\ UNCHANGED <<pending, execList, act, val, fin, threw, out, loaded, ld, loaderLog>>
  /\ UNCHANGED <<scen, dfsIndex, dfsAncestor, cycleRoot, asyncParents, topCap,
                 asyncCount, frames, stack, index, thrown, evalRoot,
                 ran, depsOK, proms, obs, phase, hpc, callMark>>

ExecNext ==
  \* AsyncModuleExecutionFulfilled step 12 for the next element of sortedExecList
  /\ act = "exec" /\ execList # <<>>
  /\ LET m == Head(execList) IN
     /\ execList' = Tail(execList)
     /\ act' = IF Tail(execList) = <<>> THEN "idle" ELSE "exec"
     /\ IF status[m] = "evaluated"
        THEN UNCHANGED <<status, evalError, asyncOrder, caps, jobs, out, val, ran, depsOK, threw, fin>>
        ELSE LET b == BodyStart(m, kind[m]) IN
             /\ out' = b.out /\ val' = b.val /\ ran' = b.ran /\ depsOK' = b.depsOK
             /\ threw' = [threw EXCEPT ![m] = b.throws]
             /\ IF HasTLA(m)
                THEN \* ExecuteAsyncModule(m)
                     /\ jobs' = Append(jobs, AsyncStartJob(m, kind[m]))
                     /\ UNCHANGED <<status, evalError, asyncOrder, caps, fin>>
                ELSE \* ExecuteModule(m)
                     /\ fin' = b.fin
                     /\ UNCHANGED jobs
                     /\ IF b.throws
                        THEN LET u == ApplyReject(m, m) IN
                             /\ status' = u.status /\ evalError' = u.evalError
                             /\ asyncOrder' = u.asyncOrder /\ caps' = u.caps
                        ELSE /\ status' = [status EXCEPT ![m] = "evaluated"]
                             /\ asyncOrder' = [asyncOrder EXCEPT ![m] = DONE]
                             /\ caps' = Settle(caps, topCap[m], "fulfilled", 0)
                             /\ UNCHANGED evalError
  /\ UNCHANGED <<scen, dfsIndex, dfsAncestor, cycleRoot, pending, asyncParents, topCap, loaded,
                 asyncCount, ld, frames, stack, index, thrown, evalRoot,
                 loaderLog, proms, obs, phase, hpc, callMark>>

-----------------------------------------------------------------------------
(* The host: load(1); run jobs; link(1); evaluate(e1); [run jobs; load(e2); run jobs; link(e2);]
   evaluate(e2); run jobs *)

Quiet == act = "idle" /\ jobs = <<>>
PromStates == [k \in 1..Len(proms) |-> caps[proms[k]]]
Observe(at) == Append(obs, [at |-> at, len |-> Len(out), ps |-> PromStates, ld |-> ld.state])

\* choices of the host, each made when it is needed (so that scenarios share their prefixes)
FirstChoices == IF script.fixed THEN {script.e1} ELSE IF Scripts = "same" THEN {1} ELSE 1..n
SecondChoices == IF script.fixed THEN {script.e2} ELSE IF Scripts = "same" THEN {script.e1} ELSE 1..n
DrainChoices == IF script.fixed THEN {script.drain} ELSE Drains

HostStep ==
  /\ phase = "host" /\ act = "idle"
  /\ CASE hpc = "load1" ->
            /\ HLoad(1) /\ hpc' = "link1"
            /\ UNCHANGED <<script, dfsIndex, dfsAncestor, pending, topCap, caps, frames, stack, index, act, evalRoot,
                           thrown, proms, obs, callMark>>
       [] hpc = "link1" ->
            /\ jobs = <<>> /\ ld.state = "fulfilled"
            /\ HLink(1) /\ hpc' = "eval1"
            /\ UNCHANGED <<script, pending, topCap, caps, evalRoot, thrown, proms, obs, callMark, ld, jobs, loaderLog>>
       [] hpc = "eval1" ->
            /\ jobs = <<>>
            /\ \E e \in FirstChoices :
                 /\ script' = [script EXCEPT !.e1 = e]
                 /\ HEvaluate(e)
                 /\ callMark' = [len |-> Len(out), fresh |-> status[e] = "linked"]
            /\ hpc' = "after1"
            /\ UNCHANGED <<obs, ld, jobs, loaderLog>>
       [] hpc = "after1" ->
            /\ obs' = Observe("eval1")
            /\ \E d \in DrainChoices, e \in SecondChoices :
                 /\ script' = [script EXCEPT !.drain = d, !.e2 = e]
                 /\ hpc' = IF d THEN "drain1" ELSE "eval2"
            /\ UNCHANGED <<status, dfsIndex, dfsAncestor, pending, topCap, caps, frames, stack, index, act,
                           evalRoot, thrown, proms, callMark, ld, jobs, loaderLog>>
       [] hpc = "drain1" ->
            /\ jobs = <<>>
            /\ obs' = Observe("drain1")
            /\ HLoad(script.e2) /\ hpc' = "link2"
            /\ UNCHANGED <<script, dfsIndex, dfsAncestor, pending, topCap, caps, frames, stack, index, act, evalRoot,
                           thrown, proms, callMark>>
       [] hpc = "link2" ->
            /\ jobs = <<>> /\ ld.state = "fulfilled"
            /\ HLink(script.e2) /\ hpc' = "eval2"
            /\ UNCHANGED <<script, pending, topCap, caps, evalRoot, thrown, proms, obs, callMark, ld, jobs, loaderLog>>
       [] hpc = "eval2" ->
            /\ HEvaluate(script.e2)
            /\ callMark' = [len |-> Len(out), fresh |-> status[script.e2] = "linked"]
            /\ hpc' = "after2"
            /\ UNCHANGED <<script, obs, ld, jobs, loaderLog>>
       [] hpc = "after2" ->
            /\ obs' = Observe("eval2") /\ hpc' = "drain2"
            /\ UNCHANGED <<script, status, dfsIndex, dfsAncestor, pending, topCap, caps, frames, stack, index, act,
                           evalRoot, thrown, proms, callMark, ld, jobs, loaderLog>>
       [] hpc = "drain2" ->
            /\ jobs = <<>>
            /\ obs' = Observe("drain2") /\ hpc' = "done"
            /\ UNCHANGED <<script, status, dfsIndex, dfsAncestor, pending, topCap, caps, frames, stack, index, act,
                           evalRoot, thrown, proms, callMark, ld, jobs, loaderLog>>
  /\ phase' = IF hpc' = "done" THEN "done" ELSE "host"
  /\ UNCHANGED <<n, req, kind, bind, gstack, cycleRoot, asyncOrder, asyncParents, evalError, loaded,
                 asyncCount, execList, val, ran, fin, threw, depsOK, out>>

-----------------------------------------------------------------------------
Init ==
  /\ LET G == Given IN      \* (evaluated once: Given may be read from a file)
     IF G = <<>>
     THEN /\ n = 1
          /\ req = [m \in Mods |-> <<>>]
          /\ kind = [m \in Mods |-> "s"]      \* decided when InnerModuleEvaluation reaches step 12 of the module
          /\ \E b \in Binds : bind = [m \in Mods |-> IF m = 1 THEN b ELSE "named"]
          /\ gstack = <<1>>
          /\ script = [e1 |-> 1, e2 |-> 1, drain |-> FALSE, fixed |-> FALSE]
          /\ phase = "gen"
     ELSE \E i \in 1..Len(G) :
          LET g == G[i] IN
          /\ n = g.n
          /\ req = [m \in Mods |-> IF m <= g.n THEN g.req[m] ELSE <<>>]
          /\ kind = [m \in Mods |-> IF m <= g.n THEN g.kind[m] ELSE "s"]
          /\ bind = [m \in Mods |-> IF m <= g.n THEN g.bind[m] ELSE "named"]
          /\ gstack = <<>>
          /\ script = [e1 |-> g.script.e1, e2 |-> g.script.e2, drain |-> g.script.drain, fixed |-> TRUE]
          /\ phase = "host"
  /\ status = [m \in Mods |-> "new"]
  /\ dfsIndex = [m \in Mods |-> -1] /\ dfsAncestor = [m \in Mods |-> -1]
  /\ cycleRoot = [m \in Mods |-> 0]
  /\ asyncOrder = [m \in Mods |-> UNSET]
  /\ pending = [m \in Mods |-> 0]
  /\ asyncParents = [m \in Mods |-> <<>>]
  /\ evalError = [m \in Mods |-> 0]
  /\ topCap = [m \in Mods |-> 0]
  /\ loaded = [m \in Mods |-> {}]
  /\ asyncCount = 0
  /\ ld = [visited |-> {}, count |-> 0, loading |-> FALSE, state |-> "none"]
  /\ frames = <<>> /\ stack = <<>> /\ index = 0 /\ thrown = 0 /\ act = "idle" /\ evalRoot = 0
  /\ execList = <<>> /\ jobs = <<>> /\ caps = <<>>
  /\ val = [m \in Mods |-> 0] /\ ran = [m \in Mods |-> 0] /\ fin = [m \in Mods |-> FALSE]
  /\ threw = [m \in Mods |-> FALSE] /\ depsOK = [m \in Mods |-> TRUE]
  /\ out = <<>> /\ loaderLog = <<>> /\ proms = <<>> /\ obs = <<>>
  /\ hpc = "load1" /\ callMark = [len |-> 0, fresh |-> TRUE]

Next == GenNew \/ GenOld \/ GenPop \/ HostStep \/ RunJob \/ LinkStep \/ LinkFinish
        \/ EvalStep \/ EvalBody \/ EvalPop \/ EvalAbrupt \/ ExecNext

Spec == Init /\ [][Next]_vars /\ WF_vars(Next)

-----------------------------------------------------------------------------
(* Properties of the design (checked by TLC on every state of every scenario) *)

Live == 1..n

TypeOK ==
  /\ \A m \in Live : status[m] \in {"new", "unlinked", "linking", "linked", "evaluating", "evaluating-async", "evaluated"}
  /\ \A m \in Live : pending[m] >= 0
  /\ act \in {"idle", "link", "eval", "exec"}

\* each body runs at most once
RunAtMostOnce == \A m \in Live : ran[m] <= 1

\* ... and only after all its non-cyclic dependencies have finished
DepsFirst == \A m \in Live : depsOK[m]

\* stack discipline of the spec's assertions
StackOK ==
  /\ \A m \in Live : (status[m] = "evaluating") <=> (act = "eval" /\ m \in SeqToSet(stack))
  /\ \A m \in Live : (status[m] = "linking") <=> (act = "link" /\ m \in SeqToSet(stack))
  /\ \A k \in 1..Len(stack) : \A k2 \in 1..Len(stack) : (stack[k] = stack[k2]) => k = k2
  /\ \A m \in Live : status[m] \in {"linking", "evaluating"} => dfsAncestor[m] <= dfsIndex[m]

\* a body runs only while its module is evaluating / evaluating-async and has no pending async dependency
PendingOK == \A m \in Live : status[m] = "evaluating-async" /\ ran[m] = 1 => pending[m] = 0

\* a second Evaluate of something already evaluated runs nothing synchronously
SecondEvaluateIsIdempotent ==
  /\ (hpc \in {"after1", "after2"} /\ ~callMark.fresh) => Len(out) = callMark.len
  /\ (phase = "done" /\ script.e1 = script.e2) => (Len(proms) = 2 /\ proms[1] = proms[2])

\* loader: one host call per (referrer, specifier), exactly the import edges once loading has finished
LoaderOnce ==
  /\ \A a \in 1..Len(loaderLog) : \A b \in 1..Len(loaderLog) : loaderLog[a] = loaderLog[b] => a = b
  /\ (ld.state = "fulfilled") =>
        SeqToSet(loaderLog) = {<<m, r>> \in Live \X Live : r \in SeqToSet(req[m])}

\* at quiescence: errors reach exactly the dependents, every promise is settled with the right outcome
AtRest == phase = "done"
ErrorsReachExactlyDependents ==
  AtRest =>
    /\ \A m \in Live : evalError[m] # 0 => (threw[evalError[m]] /\ evalError[m] \in ReachStar(m))
    \* (a member of a cycle can finish before the root of the cycle fails: consumers look at the cycle root)
    /\ \A m \in Live : (status[m] = "evaluated" /\ evalError[cycleRoot[m]] = 0) => \A d \in ReachStar(m) : fin[d]
    /\ \A m \in Live : (status[m] = "evaluated" /\ evalError[m] # 0) => ~fin[m] \/ (\E t \in ReachPlus(m) : m \in ReachPlus(t))
    \* (members of a cycle whose root failed are never executed: they stay evaluating-async, and every later
    \* Evaluate of them goes through the cycle root and its error)
    /\ \A m \in Live : (status[m] \in {"linked", "evaluated"}) \/ (status[m] = "evaluating-async" /\ evalError[cycleRoot[m]] # 0)
    /\ \A m \in Live : fin[m] => ran[m] = 1
    /\ \A m \in Live : threw[m] => (ran[m] = 1 /\ ~fin[m])

Settled ==
  AtRest =>
    \A k \in 1..Len(proms) :
      LET c == caps[proms[k]]  e == IF k = 1 THEN script.e1 ELSE script.e2 IN
      /\ c.st \in {"fulfilled", "rejected"}
      /\ c.st = "fulfilled" => \A d \in ReachStar(e) : fin[d]
      /\ c.st = "rejected" => (threw[c.why] /\ c.why \in ReachStar(e))

\* liveness: every scenario reaches the state in which all evaluations have settled
EvaluatedImpliesSettledEventually == <>(phase = "done")

-----------------------------------------------------------------------------
(* Emission of one replay record per scenario *)

Scenario ==
  [ n |-> n,
    req |-> [m \in 1..n |-> req[m]],
    kind |-> [m \in 1..n |-> kind[m]],
    bind |-> [m \in 1..n |-> bind[m]],
    script |-> [e1 |-> script.e1, e2 |-> script.e2, drain |-> script.drain],
    out |-> out,
    obs |-> obs,
    log |-> loaderLog,
    val |-> [m \in 1..n |-> val[m]],
    st |-> [m \in 1..n |-> status[m]],
    err |-> [m \in 1..n |-> evalError[m]],
    same |-> (proms[1] = proms[2]) ]

Emit == (phase = "done") => PrintT(<<"REPLAY", ToJson(Scenario)>>)
=============================================================================
