\* behaviours of scenarios handed over by the driver (shrinking, replay)
CONSTANTS
  MaxN = 8
  MaxEdges = 64
  Kinds <- KindsAll
  Binds <- BindsAll
  SelfLoops = TRUE
  MaxSpecial = 8
  Drains <- DrainsBoth
  Given <- GivenFromEnv
  Scripts = "any"
INIT Init
NEXT Next
INVARIANT TypeOK
INVARIANT RunAtMostOnce
INVARIANT DepsFirst
INVARIANT StackOK
INVARIANT PendingOK
INVARIANT SecondEvaluateIsIdempotent
INVARIANT LoaderOnce
INVARIANT ErrorsReachExactlyDependents
INVARIANT Settled
INVARIANT EmitInv
CHECK_DEADLOCK FALSE
