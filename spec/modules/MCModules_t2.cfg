\* thorough: <= 2 modules, all five body kinds x all four binding styles
CONSTANTS
  MaxN = 2
  MaxEdges = 4
  Kinds <- KindsAll
  Binds <- BindsAll
  SelfLoops = TRUE
  MaxSpecial = 8
  Drains <- DrainsBoth
  Given <- NoGiven
  Scripts = "same"
INIT Init
NEXT Next
INVARIANT TypeOK
INVARIANT RunAtMostOnce
INVARIANT DepsFirst
INVARIANT StackOK
INVARIANT PendingOK
INVARIANT SecondEvaluateIsIdempotent
INVARIANT LoaderOnce
INVARIANT ErrorsReachExactlyDependents
INVARIANT Settled
INVARIANT EmitInv
CHECK_DEADLOCK FALSE
