\* thorough: <= 3 modules x all five body kinds
CONSTANTS
  MaxN = 3
  MaxEdges = 9
  Kinds <- KindsAll
  Binds <- BindsOne
  SelfLoops = FALSE
  MaxSpecial = 8
  Drains <- DrainsBoth
  Given <- NoGiven
  Scripts = "same"
INIT Init
NEXT Next
INVARIANT TypeOK
INVARIANT RunAtMostOnce
INVARIANT DepsFirst
INVARIANT StackOK
INVARIANT PendingOK
INVARIANT SecondEvaluateIsIdempotent
INVARIANT LoaderOnce
INVARIANT ErrorsReachExactlyDependents
INVARIANT Settled
INVARIANT EmitInv
CHECK_DEADLOCK FALSE
