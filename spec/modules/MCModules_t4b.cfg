\* thorough: graphs on <= 4 modules with <= 6 edges, at most two special bodies of {st,a}
CONSTANTS
  MaxN = 4
  MaxEdges = 6
  Kinds <- KindsTri
  Binds <- BindsOne
  SelfLoops = FALSE
  MaxSpecial = 2
  Drains <- DrainsNo
  Given <- NoGiven
  Scripts = "same"
INIT Init
NEXT Next
INVARIANT TypeOK
INVARIANT RunAtMostOnce
INVARIANT DepsFirst
INVARIANT StackOK
INVARIANT PendingOK
INVARIANT SecondEvaluateIsIdempotent
INVARIANT LoaderOnce
INVARIANT ErrorsReachExactlyDependents
INVARIANT Settled
INVARIANT EmitInv
CHECK_DEADLOCK FALSE
