\* quick: graphs on 4 modules with at most 4 edges, at most two bodies that are not plain synchronous ones, chosen from
\* {throws after its await, three awaits}: an async module that settles later than one started after it
CONSTANTS
  MaxN = 4
  MaxEdges = 4
  Kinds <- KindsSlow
  Binds <- BindsOne
  SelfLoops = FALSE
  MaxSpecial = 2
  Drains <- DrainsNo
  Given <- NoGiven
  Scripts = "same"
INIT Init
NEXT Next
INVARIANT TypeOK
INVARIANT RunAtMostOnce
INVARIANT DepsFirst
INVARIANT StackOK
INVARIANT PendingOK
INVARIANT SecondEvaluateIsIdempotent
INVARIANT LoaderOnce
INVARIANT ErrorsReachExactlyDependents
INVARIANT Settled
INVARIANT EmitInv
CHECK_DEADLOCK FALSE
