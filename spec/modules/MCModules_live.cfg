\* liveness under weak fairness
CONSTANTS
  MaxN = 2
  MaxEdges = 4
  Kinds <- KindsCore
  Binds <- BindsOne
  SelfLoops = TRUE
  MaxSpecial = 8
  Drains <- DrainsBoth
  Given <- NoGiven
  Scripts = "any"
SPECIFICATION Spec
INVARIANT TypeOK
INVARIANT RunAtMostOnce
INVARIANT DepsFirst
INVARIANT StackOK
INVARIANT PendingOK
INVARIANT SecondEvaluateIsIdempotent
INVARIANT LoaderOnce
INVARIANT ErrorsReachExactlyDependents
INVARIANT Settled
PROPERTY EvaluatedImpliesSettledEventually
CHECK_DEADLOCK FALSE
