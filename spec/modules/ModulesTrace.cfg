INIT Init
NEXT Next
INVARIANT StatusOK
POSTCONDITION Accepted
CHECK_DEADLOCK FALSE
