\* thorough: -simulate, random graphs up to 8 modules, everything enabled
CONSTANTS
  MaxN = 8
  MaxEdges = 14
  Kinds <- KindsAll
  Binds <- BindsAll
  SelfLoops = TRUE
  MaxSpecial = 8
  Drains <- DrainsBoth
  Given <- NoGiven
  Scripts = "any"
INIT Init
NEXT Next
INVARIANT TypeOK
INVARIANT RunAtMostOnce
INVARIANT DepsFirst
INVARIANT StackOK
INVARIANT PendingOK
INVARIANT SecondEvaluateIsIdempotent
INVARIANT LoaderOnce
INVARIANT ErrorsReachExactlyDependents
INVARIANT Settled
INVARIANT EmitInv
CHECK_DEADLOCK FALSE
