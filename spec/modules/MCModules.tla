---- MODULE MCModules ----
EXTENDS Modules, IOUtils
KindsAll == {"s", "st", "a", "at", "ap"}
KindsCore == {"s", "st", "a", "at"}
KindsSync == {"s", "st"}
KindsOne == {"s"}
KindsTri == {"s", "st", "a"}
BindsAll == {"named", "ns", "reexp", "nsreexp"}
BindsTwo == {"named", "nsreexp"}
BindsOne == {"named"}
EmitInv == Emit
NoGiven == <<>>
DrainsBoth == {TRUE, FALSE}
DrainsNo == {FALSE}
KindsSA == {"s", "a"}
KindsSlow == {"s", "at", "aw"}
\* scenarios handed over by the driver (shrinking candidates, replay files): one JSON object per line
GivenFromEnv == ndJsonDeserialize(IOEnv.C17_SCEN)
====
