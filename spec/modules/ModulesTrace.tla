----------------------------- MODULE ModulesTrace -----------------------------
(***************************************************************************)
(* Trace specification for recorded module status transitions (hook        *)
(* `verif::take_module_events`, cfg boa_verif): one event per change of    *)
(* [[Status]] of a Cyclic Module Record.  It replays the status machine    *)
(* and the stack discipline of Modules.tla (InnerModuleLinking /           *)
(* InnerModuleEvaluation keep the modules that are `linking` /             *)
(* `evaluating` on a stack; a module completes only after each of its      *)
(* requests has been visited; strongly connected components leave the      *)
(* stack from the top; an abrupt completion flushes the stack from the     *)
(* bottom) against the recorded events.  boa's intermediate status         *)
(* `pre-linked` is the part of `linking` after InitializeEnvironment;       *)
(* `evaluated-error` is `evaluated` with a non-empty [[EvaluationError]].  *)
(* Many executions are concatenated; a `reset` event carries the graph.    *)
(***************************************************************************)
EXTENDS Naturals, Sequences, FiniteSets, TLC, Json, IOUtils

Rec == ndJsonDeserialize(IOEnv.C17_TRACE)

VARIABLES l,        \* index of the next event
          n, req,   \* the module graph of the current execution
          st,       \* status per module
          lstack,   \* modules that are linking / pre-linked, in stack order
          estack    \* modules that are evaluating, in stack order

vars == <<l, n, req, st, lstack, estack>>

SeqToSet(s) == {s[k] : k \in 1..Len(s)}
Last(s) == s[Len(s)]
Front(s) == SubSeq(s, 1, Len(s) - 1)
Remove(s, m) == SelectSeq(s, LAMBDA x : x # m)
Requested(m) == SeqToSet(req[m])
\* m is entered from a module that is on the stack and requests it (or it is the root of the traversal)
CalledFrom(stk, m) == stk = <<>> \/ \E x \in SeqToSet(stk) : m \in Requested(x)

Init == l = 1 /\ n = 0 /\ req = <<>> /\ st = <<>> /\ lstack = <<>> /\ estack = <<>>

Reset ==
  /\ l <= Len(Rec) /\ Rec[l].ev = "reset"
  /\ n' = Rec[l].n /\ req' = Rec[l].req
  /\ st' = [m \in 1..Rec[l].n |-> "unlinked"]
  /\ lstack' = <<>> /\ estack' = <<>> /\ l' = l + 1

Step ==
  /\ l <= Len(Rec) /\ Rec[l].ev = "st"
  /\ LET e == Rec[l]  m == e.m IN
     /\ m \in 1..n
     /\ st[m] = e.from
     /\ st' = [st EXCEPT ![m] = e.to]
     /\ CASE e.from = "unlinked" /\ e.to = "linking" ->
               /\ estack = <<>> /\ CalledFrom(lstack, m)
               /\ lstack' = Append(lstack, m) /\ UNCHANGED estack
          [] e.from = "linking" /\ e.to = "pre-linked" ->
               \* InitializeEnvironment: every request has been visited
               /\ m \in SeqToSet(lstack) /\ \A d \in Requested(m) : st[d] # "unlinked"
               /\ UNCHANGED <<lstack, estack>>
          [] e.from = "pre-linked" /\ e.to = "linked" ->
               /\ lstack # <<>> /\ Last(lstack) = m
               /\ lstack' = Front(lstack) /\ UNCHANGED estack
          [] e.from = "linking" /\ e.to = "unlinked" ->
               \* Link() step 4.a after an abrupt completion
               /\ m \in SeqToSet(lstack)
               /\ lstack' = Remove(lstack, m) /\ UNCHANGED estack
          [] e.from = "linked" /\ e.to = "evaluating" ->
               /\ lstack = <<>> /\ CalledFrom(estack, m)
               /\ estack' = Append(estack, m) /\ UNCHANGED lstack
          [] e.from = "evaluating" /\ e.to \in {"evaluated", "evaluating-async"} ->
               \* InnerModuleEvaluation step 16: the component leaves the stack from the top
               /\ estack # <<>> /\ Last(estack) = m /\ \A d \in Requested(m) : st[d] # "linked"
               /\ estack' = Front(estack) /\ UNCHANGED lstack
          [] e.from = "evaluating" /\ e.to = "evaluated-error" ->
               \* Evaluate step 9: an abrupt completion flushes the stack from the bottom
               /\ estack # <<>> /\ Head(estack) = m
               /\ estack' = Tail(estack) /\ UNCHANGED lstack
          [] e.from = "evaluating-async" /\ e.to \in {"evaluated", "evaluated-error"} ->
               /\ estack = <<>> /\ UNCHANGED <<lstack, estack>>
  /\ l' = l + 1 /\ UNCHANGED <<n, req>>

Next == Reset \/ Step

StatusOK == \A m \in 1..n : /\ (st[m] = "evaluating") <=> (m \in SeqToSet(estack))
                            /\ (st[m] \in {"linking", "pre-linked"}) <=> (m \in SeqToSet(lstack))

Accepted ==
  LET d == TLCGet("stats").diameter IN
  IF d - 1 = Len(Rec) THEN TRUE
  ELSE /\ PrintT(<<"REJECTED", ToJson([at |-> d, event |-> Rec[d]])>>)
       /\ FALSE
=============================================================================
