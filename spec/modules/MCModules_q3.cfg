\* quick: all graphs on <= 3 modules (no self import) x {s,st,a,at}, entry evaluated twice
CONSTANTS
  MaxN = 3
  MaxEdges = 9
  Kinds <- KindsCore
  Binds <- BindsOne
  SelfLoops = FALSE
  MaxSpecial = 8
  Drains <- DrainsBoth
  Given <- NoGiven
  Scripts = "same"
INIT Init
NEXT Next
INVARIANT TypeOK
INVARIANT RunAtMostOnce
INVARIANT DepsFirst
INVARIANT StackOK
INVARIANT PendingOK
INVARIANT SecondEvaluateIsIdempotent
INVARIANT LoaderOnce
INVARIANT ErrorsReachExactlyDependents
INVARIANT Settled
INVARIANT EmitInv
CHECK_DEADLOCK FALSE
