\* thorough: ALL graphs on <= 4 modules (no self import), at most one body with a top-level await
CONSTANTS
  MaxN = 4
  MaxEdges = 12
  Kinds <- KindsSA
  Binds <- BindsOne
  SelfLoops = FALSE
  MaxSpecial = 1
  Drains <- DrainsNo
  Given <- NoGiven
  Scripts = "same"
INIT Init
NEXT Next
INVARIANT TypeOK
INVARIANT RunAtMostOnce
INVARIANT DepsFirst
INVARIANT StackOK
INVARIANT PendingOK
INVARIANT SecondEvaluateIsIdempotent
INVARIANT LoaderOnce
INVARIANT ErrorsReachExactlyDependents
INVARIANT Settled
INVARIANT EmitInv
CHECK_DEADLOCK FALSE
