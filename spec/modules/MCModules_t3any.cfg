\* thorough: <= 3 modules, <= 4 edges incl. self imports, any first/second Evaluate
CONSTANTS
  MaxN = 3
  MaxEdges = 4
  Kinds <- KindsSA
  Binds <- BindsOne
  SelfLoops = TRUE
  MaxSpecial = 8
  Drains <- DrainsBoth
  Given <- NoGiven
  Scripts = "any"
INIT Init
NEXT Next
INVARIANT TypeOK
INVARIANT RunAtMostOnce
INVARIANT DepsFirst
INVARIANT StackOK
INVARIANT PendingOK
INVARIANT SecondEvaluateIsIdempotent
INVARIANT LoaderOnce
INVARIANT ErrorsReachExactlyDependents
INVARIANT Settled
INVARIANT EmitInv
CHECK_DEADLOCK FALSE
