CONSTANT Scenarios = {}
CONSTANT Quirks = {}
INIT MCInit
NEXT Next
INVARIANT JobsFifo
INVARIANT EachJobOnce
INVARIANT JobAfterSyncCode
INVARIANT SettleOnce
INVARIANT ReactionAfterSettle
INVARIANT AwaitResumesOnce
INVARIANT StructureOK
INVARIANT GeneratorsOK
INVARIANT EmitInv
PROPERTY SettledIsStable
CHECK_DEADLOCK FALSE
