INIT TraceInit
NEXT TraceNext
INVARIANT FifoInv
POSTCONDITION AllMatched
CHECK_DEADLOCK FALSE
