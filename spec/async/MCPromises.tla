---------------------------- MODULE MCPromises ----------------------------
(***************************************************************************)
(* Bounded scenario universes for Promises.tla and replay emission.        *)
(* A universe is described by a parameter record (see Univ); a tier is a   *)
(* union of universes.  Canonical forms: tasks that never interact are not *)
(* multiplied (every family below makes the tasks interact through a       *)
(* shared promise, through the promise of an earlier task, or through the  *)
(* clock chain); a shared promise S2 occurs only after S1.                 *)
(***************************************************************************)
EXTENDS Promises, Json, IOUtils

O(k)  == [o |-> k, s |-> 0]
OS(s) == [o |-> "S", s |-> s]
OT(j) == [o |-> "T", s |-> j]
None  == [o |-> "none", s |-> 0]
Thr   == [o |-> "throw", s |-> 0]

Kinds(ks) == {O(k) : k \in ks}

FullKinds == {"v", "F", "R", "ThS", "ThR", "ThA", "ThX", "ThT", "ThD", "Gn", "Gf", "Gx", "Pp", "Pc"}
MidKinds  == {"v", "F", "R", "ThS", "ThA", "Gn", "Pp", "Pc"}
CoreKinds == {"v", "F", "ThS"}

Aw(x)      == [op |-> "aw", x |-> x, s |-> 0]
Awc(x)     == [op |-> "awc", x |-> x, s |-> 0]
Res(s, x)  == [op |-> "res", x |-> x, s |-> s]
Rej(s)     == [op |-> "rej", x |-> O("u"), s |-> s]

ThenL(f, r) == [lk |-> "then", f |-> f, r |-> r]
CatchL(r)   == [lk |-> "catch", f |-> None, r |-> r]
FinL(f)     == [lk |-> "finally", f |-> f, r |-> None]

SeqsOfLen(S, k) == [1..k -> S]

ATask(ss, r) == [kind |-> "A", steps |-> ss, ret |-> r]
CTask(b, ls) == [kind |-> "C", base |-> b, links |-> ls]
MTask(c, xs) == [kind |-> "M", comb |-> c, xs |-> xs]
GTask(ss, r) == [kind |-> "G", steps |-> ss, ret |-> r]
Yi(x)      == [op |-> "yi", x |-> x, s |-> 0]
Ys(j)      == [op |-> "ys", x |-> O("u"), s |-> j]
Gq(g, j)   == [op |-> "gq", x |-> O("u"), s |-> j, g |-> g]
Awq(g, j)  == [op |-> "awq", x |-> O("u"), s |-> j, g |-> g]

\* the clock: a chain of n plain reactions; its k-th print marks the k-th generation of jobs
Clock(n) == CTask(O("u"), [k \in 1..n |-> ThenL(O("u"), None)])

\* tasks of weight exactly k for parameter record p (weight = number of steps / links)
TasksW(p, k) ==
  {ATask(ss, r) : ss \in SeqsOfLen(p.steps, k), r \in p.rets}
  \cup (IF k = 0 THEN {} ELSE {CTask(b, ls) : b \in p.bases, ls \in SeqsOfLen(p.links, k)})

RECURSIVE TaskSeqs(_, _, _)
TaskSeqs(p, n, w) ==
  IF n = 0 THEN {<<>>}
  ELSE UNION {{<<t>> \o rest : t \in TasksW(p, k), rest \in TaskSeqs(p, n - 1, w - k)} : k \in 0..(IF w < p.maxw THEN w ELSE p.maxw)}

\* operands occurring in a task, in textual order (for well-formedness / canonical form)
OpsOfTask(t) ==
  IF t.kind \in {"A", "G"} THEN [k \in 1..Len(t.steps) |-> t.steps[k].x] \o <<t.ret>>
  ELSE IF t.kind = "M" THEN t.xs
  ELSE <<t.base>> \o [k \in 1..(2 * Len(t.links)) |->
                        IF k % 2 = 1 THEN t.links[(k + 1) \div 2].f ELSE t.links[k \div 2].r]

SharedOfTask(t) ==
  IF t.kind = "A" THEN {t.steps[k].s : k \in 1..Len(t.steps)} \ {0} ELSE {}

\* T(j) only refers to an earlier task; S(s) and res/rej only to existing shared promises;
\* if two shared promises exist, S1 is mentioned by an earlier-or-same task than S2
WF(s) ==
  /\ \A i \in 1..Len(s.tasks) : \A k \in 1..Len(OpsOfTask(s.tasks[i])) :
        LET x == OpsOfTask(s.tasks[i])[k]
        IN /\ x.o = "T" => (x.s >= 1 /\ x.s < i)
           /\ x.o = "S" => (x.s >= 1 /\ x.s <= s.ns)

Mk(ns, ts, late) == [ns |-> ns, tasks |-> ts, late |-> late]

\* universe: exactly n tasks from p (total weight <= w), followed by a clock of p.clock links
\* (none if 0), with every late sequence of p.lates
Univ(p, n, w) ==
  {s \in {Mk(p.ns, ts \o (IF p.clock = 0 THEN <<>> ELSE <<Clock(p.clock)>>), l) :
            ts \in TaskSeqs(p, n, w), l \in p.lates} : WF(s)}

-----------------------------------------------------------------------------
\* Families

NoLate == {<<>>}

\* F1: one task alone against the clock, full operand alphabet at every kind of site
\*     (await operand, async return after 0 / 1 awaits, Promise.resolve base, handler return of
\*     then / catch / finally on a fulfilled and a rejected base, missing handlers)
AllLinks == {ThenL(f, None) : f \in Kinds(FullKinds) \cup {Thr}}
            \cup {ThenL(None, None), ThenL(O("u"), O("u")), ThenL(None, O("u"))}
            \cup {CatchL(r) : r \in Kinds(FullKinds) \cup {Thr}}
            \cup {FinL(f) : f \in Kinds(FullKinds \cup {"u"}) \cup {Thr}}
SoloA == [ns |-> 0, steps |-> {Aw(x) : x \in Kinds(FullKinds)}, rets |-> Kinds(FullKinds \cup {"u"}) \cup {Thr},
          bases |-> {}, links |-> {}, maxw |-> 1, clock |-> 7, lates |-> NoLate]
SoloB == [ns |-> 0, steps |-> {}, rets |-> {}, bases |-> Kinds(FullKinds),
          links |-> {ThenL(O("u"), O("u")), FinL(O("u"))}, maxw |-> 1, clock |-> 7, lates |-> NoLate]
SoloC == [ns |-> 0, steps |-> {}, rets |-> {}, bases |-> Kinds({"F", "R"}),
          links |-> AllLinks, maxw |-> 1, clock |-> 7, lates |-> NoLate]

\* F1b: one task of weight 2 against the clock, middle alphabet
Solo2 == [ns |-> 0, steps |-> {Aw(x) : x \in Kinds(MidKinds)}, rets |-> Kinds({"u", "F", "ThS"}) \cup {Thr},
          bases |-> Kinds({"F", "R", "ThS"}),
          links |-> {ThenL(f, None) : f \in Kinds({"u", "F", "R", "ThS", "Pp"}) \cup {Thr}}
                    \cup {ThenL(None, None), CatchL(O("u")), CatchL(O("F")), FinL(O("u")), FinL(O("F")), FinL(Thr)},
          maxw |-> 2, clock |-> 8, lates |-> NoLate]

\* F2: tasks that interact through the shared promise S1 (waiters, settlers, chains on it),
\* settle operand over the full alphabet for one settler, core alphabet for combinations
SharedFull == [ns |-> 1,
               steps |-> {Aw(OS(1))} \cup {Res(1, x) : x \in Kinds(FullKinds)} \cup {Rej(1)},
               rets |-> {O("u")}, bases |-> {OS(1)}, links |-> {ThenL(O("u"), O("u"))},
               maxw |-> 1, clock |-> 6, lates |-> NoLate]
SharedCore == [ns |-> 1,
               steps |-> {Aw(OS(1)), Aw(O("v")), Res(1, O("v")), Res(1, O("F")), Rej(1)},
               rets |-> {O("u"), OS(1)}, bases |-> {OS(1)},
               links |-> {ThenL(O("u"), O("u")), ThenL(OS(1), None), FinL(O("u"))},
               maxw |-> 2, clock |-> 0, lates |-> NoLate]
SharedLate == [ns |-> 1,
               steps |-> {Aw(OS(1)), Aw(O("v"))},
               rets |-> {O("u")}, bases |-> {OS(1)}, links |-> {ThenL(O("u"), O("u")), FinL(O("u"))},
               maxw |-> 2, clock |-> 0,
               lates |-> {<<Res(1, x)>> : x \in Kinds(MidKinds)} \cup {<<Rej(1)>>, <<Res(1, O("v")), Rej(1)>>}]

\* F3: a task awaits / chains on / returns the promise of an earlier task
OnTask == [ns |-> 0,
           steps |-> {Aw(OT(1)), Aw(O("v")), Aw(O("ThS"))},
           rets |-> {O("u"), O("F"), OT(1), Thr}, bases |-> {OT(1), O("F")},
           links |-> {ThenL(O("u"), O("u")), ThenL(OT(1), None), FinL(OT(1))},
           maxw |-> 2, clock |-> 0, lates |-> NoLate]

\* F4: three concurrent tasks, core alphabet, one step each (FIFO across independent chains)
Trio == [ns |-> 1,
         steps |-> {Aw(O("v")), Aw(O("F")), Aw(O("ThS")), Aw(OS(1)), Res(1, O("v"))},
         rets |-> {O("u")}, bases |-> {O("F"), OS(1)}, links |-> {ThenL(O("u"), None)},
         maxw |-> 1, clock |-> 0, lates |-> NoLate]

\* F5: await inside try / catch: execution continues after a rejected await
Caught == [ns |-> 0, steps |-> {Awc(x) : x \in Kinds({"R", "ThR", "ThT", "Gx", "v"})} \cup {Aw(O("v")), Aw(O("R"))},
           rets |-> {O("u"), Thr}, bases |-> {}, links |-> {}, maxw |-> 2, clock |-> 6, lates |-> NoLate]

\* F6: combinators (library code of the model) over every operand kind, alone against the clock,
\*     and over a shared promise that another task settles
Combs == {"all", "allSettled", "race", "any"}
CombUniv(ops, maxn, before, after, ns, clock) ==
  {Mk(ns, b \o <<MTask(c, xs)>> \o a \o (IF clock = 0 THEN <<>> ELSE <<Clock(clock)>>), <<>>) :
     c \in Combs, xs \in UNION {SeqsOfLen(ops, n) : n \in 0..maxn}, b \in before, a \in after}
Settlers == {<<ATask(<<st>>, O("u"))>> : st \in {Res(1, O("v")), Res(1, O("F")), Rej(1), Aw(O("v"))}}
            \cup {<<ATask(<<Aw(O("v")), st>>, O("u"))>> : st \in {Res(1, O("v")), Rej(1)}}

\* F7: an async generator (task 1) driven by a consumer (task 2) that fires requests back to back
\*     (request queue) or awaits them one by one; against the clock
SeqsUpTo(S, n) == UNION {SeqsOfLen(S, k) : k \in 0..n}
GenUniv(bsteps, maxb, rets, csteps, maxc, clock) ==
  {Mk(0, <<GTask(b, r), ATask(c, O("u"))>> \o (IF clock = 0 THEN <<>> ELSE <<Clock(clock)>>), <<>>) :
     b \in SeqsUpTo(bsteps, maxb), r \in rets, c \in SeqsUpTo(csteps, maxc) \ {<<>>}}
\* F8: yield*: generator 2 delegates to generator 1; the consumer (task 3) drives generator 2
DelegUniv(isteps, maxi, irets, osteps, maxo, csteps, maxc, clock) ==
  {Mk(0, <<GTask(ib, ir), GTask(ob, O("u")), ATask(c, O("u"))>> \o (IF clock = 0 THEN <<>> ELSE <<Clock(clock)>>), <<>>) :
     ib \in SeqsUpTo(isteps, maxi), ir \in irets,
     ob \in {x \in SeqsUpTo(osteps, maxo) : \E k \in 1..Len(x) : x[k].op = "ys"},
     c \in SeqsUpTo(csteps, maxc) \ {<<>>}}
Reqs3 == {Gq("next", 1), Gq("return", 1), Awq("next", 1)}
Reqs5 == Reqs3 \cup {Gq("throw", 1), Awq("return", 1)}

\* (operators with a dummy parameter: TLC evaluates every zero-arity constant definition eagerly)
QuickScenarios(z) ==
  Univ(SoloA, 1, 1) \cup Univ(SoloB, 1, 1) \cup Univ(SoloC, 1, 1) \cup Univ(Solo2, 1, 2)
  \cup Univ(SharedFull, 2, 2) \cup Univ(SharedCore, 2, 3)
  \cup Univ(SharedLate, 2, 2) \cup Univ(OnTask, 2, 3) \cup Univ(Trio, 3, 3)
  \cup Univ(Caught, 1, 2)
  \cup CombUniv(Kinds(FullKinds), 1, {<<>>}, {<<>>}, 0, 5)
  \cup CombUniv(Kinds({"v", "F", "R", "ThS"}), 2, {<<>>}, {<<>>}, 0, 5)
  \cup CombUniv({OS(1), O("v"), O("R")}, 2, {<<>>}, Settlers, 1, 0)
  \cup GenUniv({Yi(O("v")), Yi(O("F")), Aw(O("v"))}, 2, {O("u"), O("F"), Thr}, Reqs3, 2, 6)
  \cup GenUniv({Yi(O("v")), Yi(O("F"))}, 1, {O("u"), Thr}, Reqs3, 3, 6)
  \cup GenUniv({Yi(x) : x \in Kinds(FullKinds)}, 1, {O("u")}, {Gq("next", 1)}, 2, 6)
  \cup GenUniv({}, 0, Kinds(FullKinds), {Gq("next", 1), Gq("return", 1)}, 2, 6)
  \cup GenUniv({Yi(O("v"))}, 2, {O("v")}, Reqs5, 3, 0)
  \cup DelegUniv({Yi(O("v"))}, 2, {O("u"), O("v"), Thr}, {Ys(1)}, 1,
              {Gq("next", 2), Gq("return", 2), Gq("throw", 2), Awq("next", 2)}, 3, 6)

-----------------------------------------------------------------------------
\* Thorough tier: deeper and wider versions of the same families

Solo3 == [Solo2 EXCEPT !.maxw = 3]
SoloBC == [ns |-> 0, steps |-> {}, rets |-> {}, bases |-> Kinds(FullKinds), links |-> AllLinks,
           maxw |-> 1, clock |-> 7, lates |-> NoLate]
SharedWide == [SharedCore EXCEPT !.steps = @ \cup {Aw(O("F")), Res(1, O("ThS")), Res(1, O("Pp"))},
                                 !.bases = @ \cup {O("F")}]
Shared3 == [ns |-> 1, steps |-> {Aw(OS(1)), Aw(O("v")), Res(1, O("v")), Res(1, O("F")), Rej(1)},
            rets |-> {O("u")}, bases |-> {OS(1)}, links |-> {ThenL(O("u"), O("u")), FinL(O("u"))},
            maxw |-> 2, clock |-> 0, lates |-> NoLate]
Shared2 == [ns |-> 2,
            steps |-> {Aw(OS(1)), Aw(OS(2)), Res(1, O("v")), Res(1, OS(2)), Res(2, O("v")), Res(2, O("F")), Rej(2)},
            rets |-> {O("u")}, bases |-> {OS(1), OS(2)}, links |-> {ThenL(O("u"), O("u"))},
            maxw |-> 2, clock |-> 0, lates |-> NoLate]
OnTaskWide == [OnTask EXCEPT !.steps = @ \cup {Aw(O("R")), Aw(O("F"))}, !.rets = @ \cup {O("ThS")},
                             !.links = @ \cup {CatchL(O("u"))}]
OnTask3 == [ns |-> 0, steps |-> {Aw(OT(1)), Aw(OT(2)), Aw(O("v")), Aw(O("F"))},
            rets |-> {O("u"), OT(1), OT(2)}, bases |-> {OT(1), OT(2)},
            links |-> {ThenL(O("u"), O("u")), ThenL(OT(1), None)},
            maxw |-> 1, clock |-> 0, lates |-> NoLate]
Quad == [Trio EXCEPT !.steps = @ \cup {Rej(1)}]

ThoroughScenarios(z) ==
  QuickScenarios(z) \cup Univ(Solo3, 1, 3) \cup Univ(SoloBC, 1, 1)
  \cup Univ(SharedWide, 2, 3) \cup Univ(Shared3, 3, 3) \cup Univ(Shared2, 3, 3)
  \cup Univ(OnTaskWide, 2, 3) \cup Univ(OnTask3, 3, 3) \cup Univ(Quad, 4, 4)
  \cup Univ([Caught EXCEPT !.maxw = 3], 1, 3)
  \cup CombUniv(Kinds(MidKinds), 2, {<<>>}, {<<>>}, 0, 5)
  \cup CombUniv({OS(1), O("v"), O("R"), O("F"), O("ThS")}, 2, Settlers \cup {<<>>}, Settlers, 1, 0)
  \cup CombUniv({OS(1), O("v"), O("R")}, 3, {<<>>}, Settlers, 1, 0)
  \cup GenUniv({Yi(O("v")), Yi(O("F")), Yi(O("R")), Aw(O("v"))}, 2, {O("u"), O("F"), Thr}, Reqs5, 3, 6)
  \cup DelegUniv({Yi(O("v")), Aw(O("v"))}, 2, {O("u"), O("v"), Thr}, {Ys(1), Yi(O("v"))}, 2,
              {Gq("next", 2), Gq("return", 2), Gq("throw", 2), Awq("next", 2)}, 3, 6)

-----------------------------------------------------------------------------
\* scenarios supplied by the driver (seeded samples beyond the exhaustive bound): ndjson file
FileScenarios(z) == LET recs == ndJsonDeserialize(IOEnv.SCN) IN {recs[k] : k \in 1..Len(recs)}

\* Init over a universe given by an operator with a parameter: evaluated once, by the thread that
\* computes the initial states (a zero-arity constant would be evaluated once per TLC worker)
InitOver(S) == \E s \in S : InitWith(s)

\* the observation stream in a compact form: ["p", label, values] print, ["+", id] job enqueued,
\* [">", id] job runs, ["k", op] rejection tracker call, ["P", phase] phase separator
Compact(o) == [k \in 1..Len(o) |->
                 CASE o[k].e = "print" -> <<"p", o[k].l, o[k].vs>>
                   [] o[k].e = "enq"   -> <<"+", o[k].id>>
                   [] o[k].e = "run"   -> <<">", o[k].id>>
                   [] o[k].e = "trk"   -> <<"k", o[k].op>>
                   [] o[k].e = "phase" -> <<"P", o[k].p>>]

Emit == Done => PrintT(<<"REPLAY", ToJson([scn |-> scn, out |-> Compact(out)])>>)
EmitInv == Emit
=============================================================================
