---------------------------- MODULE JobQueueTrace ----------------------------
(***************************************************************************)
(* Trace validation: the events recorded by the cfg(boa_verif) hook in     *)
(* SimpleJobExecutor ({"e":"e","id":n} enqueue, {"e":"r","id":n} run,      *)
(* {"e":"reset"} end of one execution) must be a behaviour of JobQueue.    *)
(* Accepted iff every event of the file was matched (POSTCONDITION).       *)
(***************************************************************************)
EXTENDS JobQueue, Json, IOUtils, TLC

Rec == ndJsonDeserialize(IOEnv.TRACE)

VARIABLE l     \* number of events matched so far

TraceInit == Init /\ l = 0

TraceNext ==
  /\ l < Len(Rec)
  /\ l' = l + 1
  /\ LET ev == Rec[l + 1]
     IN \/ ev.e = "e" /\ Enqueue(ev.id)
        \/ ev.e = "r" /\ Run(ev.id)
        \/ ev.e = "reset" /\ Reset

AllMatched ==
  \/ TLCGet("stats").diameter - 1 = Len(Rec)
  \/ PrintT(<<"UNMATCHED", ToJson([at |-> TLCGet("stats").diameter, of |-> Len(Rec)])>>) /\ FALSE
=============================================================================
