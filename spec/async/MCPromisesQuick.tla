---- MODULE MCPromisesQuick ----
(* Quick tier: the exhaustive universes of MCPromises plus the seeded scenarios the driver supplies in $SCN *)
EXTENDS MCPromises
MCInit == InitOver(QuickScenarios(0) \cup FileScenarios(0))
====
