------------------------------ MODULE JobQueue ------------------------------
(***************************************************************************)
(* The promise job queue of a host (ECMA-262 9.5 HostEnqueuePromiseJob):   *)
(* jobs run one at a time, each exactly once, in the order of the          *)
(* HostEnqueuePromiseJob calls.  Job ids are handed out 1, 2, 3, ... in    *)
(* enqueue order.  Used for trace validation of the events recorded inside *)
(* SimpleJobExecutor (JobQueueTrace.tla).                                  *)
(***************************************************************************)
EXTENDS Naturals, Sequences

VARIABLES q,      \* ids of the jobs that were enqueued and have not started yet, oldest first
          last    \* id of the most recently enqueued job (0 = none)

Init == q = <<>> /\ last = 0

Enqueue(id) == /\ id = last + 1
               /\ last' = id
               /\ q' = Append(q, id)

Run(id) == /\ q # <<>>
           /\ id = Head(q)
           /\ q' = Tail(q)
           /\ UNCHANGED last

\* the host returns from run_jobs with an empty queue; a new context starts from scratch
Quiescent == q = <<>>
Reset == Quiescent /\ q' = <<>> /\ last' = 0

Next == (\E id \in 1..(last + 1) : Enqueue(id) \/ Run(id)) \/ Reset

\* the queue always holds the most recent ids, consecutively: nothing is lost, duplicated or reordered
FifoInv == \A k \in 1..Len(q) : q[k] = last - Len(q) + k
=============================================================================
