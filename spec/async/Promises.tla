------------------------------ MODULE Promises ------------------------------
(***************************************************************************)
(* Reference model of ECMA-262 promise jobs (27.2), Await (27.7.5.3) and   *)
(* async function start/return/throw (27.7.5.1-2), as state + transitions. *)
(*                                                                         *)
(* A behaviour = one SCENARIO (chosen in Init from the constant set        *)
(* Scenarios) executed by the deterministic machine below:                 *)
(*   script 1 (starts every task in order) ; drain the job queue ;         *)
(*   script 2 (the "late" settle operations) ; drain the job queue.        *)
(* The machine has exactly one successor in every non-final state, so the  *)
(* value of `out` in the final state is THE order the standard prescribes. *)
(*                                                                         *)
(* Scenario language (rendered to JavaScript by tools/checks/C16.py):      *)
(*   scenario = [ns, tasks, late]                                          *)
(*     ns    number of shared pending promises S1..Sns created up front    *)
(*           with their resolving functions (new Promise(executor))        *)
(*     tasks sequence of tasks, started in order by script 1               *)
(*     late  sequence of res/rej steps run as script 2                     *)
(*   task kind "A": async function  [kind, steps, ret]                     *)
(*        step [op |-> "aw", x]        r = await X; print(label, r)        *)
(*             [op |-> "res", s, x]    resolveS(X)                         *)
(*             [op |-> "rej", s]       rejectS(n)                          *)
(*        ret  operand, or [o |-> "throw"]                                 *)
(*        the caller attaches T.then(v => print(ok,v), e => print(err,e))  *)
(*   task kind "C": promise chain   [kind, base, links]                    *)
(*        T = Promise.resolve(BASE) ; T = T.then(F,R) | .catch(R) |        *)
(*        .finally(FIN) ... ; handlers print (label, argument) and then    *)
(*        return an operand or throw; [o |-> "none"] = handler missing     *)
(*   operand [o, s]:                                                       *)
(*     "u" undefined, "v" number, "F"/"R" fresh fulfilled/rejected native  *)
(*     promise, "S" shared promise s, "T" promise of earlier task s,       *)
(*     "ThS" thenable resolving synchronously, "ThR" rejecting, "ThA"      *)
(*     resolving from a later job, "ThX" resolve-then-throw, "ThT" throw,  *)
(*     "ThD" resolve twice then reject, "Gn"/"Gf"/"Gx" object with a       *)
(*     `then` GETTER returning undefined / a function / throwing,          *)
(*     "Pp" native promise with a patched own `then`, "Pc" native promise  *)
(*     with a patched `constructor`                                        *)
(*                                                                         *)
(* Observation stream `out`: print events, job enqueue/run events (ids in  *)
(* enqueue order), HostPromiseRejectionTracker events, phase separators.   *)
(***************************************************************************)
EXTENDS Naturals, Sequences, FiniteSets, TLC

CONSTANT Scenarios   \* the scenario universe (MC modules may instead define their own Init with InitWith)

VARIABLES scn,       \* the scenario being executed (constant along a behaviour)
          promises,  \* Seq of [state, result, fr, rr, handled, pthen, pctor]
          caps,      \* Seq of resolving-function pairs [promise, done]  (done = alreadyResolved)
          queue,     \* the job queue (FIFO): Seq of job records
          tasks,     \* Seq of task activations [st, pc, rf, resume]
          tp,        \* tp[i] = promise id task i currently exposes as T_i (0 = not yet)
          out,       \* observation stream
          ctl,       \* control stack of the running synchronous code (<<>> = none)
          phase,     \* "script1" | "jobs1" | "script2" | "jobs2" | "done"
          act,       \* number of the current synchronous activity (script or job)
          nextJob,   \* id given to the next enqueued job
          ran,       \* number of jobs that have run
          settles    \* settles[p] = how many times promise p was settled (history variable)

vars == <<scn, promises, caps, queue, tasks, tp, out, ctl, phase, act, nextJob, ran, settles>>

-----------------------------------------------------------------------------
\* Values

U        == [t |-> "u"]
N(n)     == [t |-> "n", n |-> n]
P(i)     == [t |-> "p", id |-> i]
ErrV(c)  == [t |-> "err", c |-> c]
Th(k, l, n) == [t |-> "th", kind |-> k, l |-> l, n |-> n]

IsObject(v)   == v.t \in {"p", "th", "err", "f"}
IsCallable(v) == v.t = "f"

Normal(v) == [k |-> "normal", v |-> v]
Throw(v)  == [k |-> "throw", v |-> v]

NoL == ""     \* "no label"

\* label of a program point: kind, task index, position, sub-position
Lab(k, i, j) == k \o ToString(i) \o "." \o ToString(j)
\* number carried by the operand at a site (distinct per site, so values can be traced)
SiteN(i, j, x) == i * 100 + j * 10 + x

Arg(args, k) == IF k <= Len(args) THEN args[k] ELSE U

-----------------------------------------------------------------------------
\* The heap record threaded through the abstract operations.
\*
\* TLC evaluates operator arguments and LET definitions lazily and, inside an action, WITHOUT caching:
\* an argument used k times is evaluated k times, so nested "heap in, heap out" operators would cost
\* time exponential in the nesting depth.  Discipline used below: every intermediate heap is bound
\* with Let (a singleton-set comprehension binds a VALUE), operators are only applied to bound
\* identifiers (or fields of them), actions bind with \E x \in {e}.

Let(e, Body(_)) == CHOOSE r \in {Body(v) : v \in {e}} : TRUE

Heap == [pr |-> promises, cp |-> caps, q |-> queue, o |-> out, nj |-> nextJob, act |-> act,
         st |-> settles, tp |-> tp]

SetHeap(h) == /\ promises' = h.pr /\ caps' = h.cp /\ queue' = h.q /\ out' = h.o
              /\ nextJob' = h.nj /\ settles' = h.st /\ tp' = h.tp

PrintArg(h, l, v) == [h EXCEPT !.o = Append(@, [e |-> "print", l |-> l, v |-> v])]
PrintNoArg(h, l) == [h EXCEPT !.o = Append(@, [e |-> "print", l |-> l])]
Track(h, op) == [h EXCEPT !.o = Append(@, [e |-> "trk", op |-> op])]

NewPromiseRec == [state |-> "pending", result |-> U, fr |-> <<>>, rr |-> <<>>, handled |-> FALSE,
                  pthen |-> NoL, pctor |-> FALSE]

\* CreateResolvingFunctions(promise): a fresh alreadyResolved record shared by resolve and reject
NewResolvingFunctions(h, p) ==
  [h |-> [h EXCEPT !.cp = Append(@, [promise |-> p, done |-> FALSE])], rf |-> Len(h.cp) + 1]

\* NewPromiseCapability(%Promise%): new pending promise + its resolving functions
NewCapability(h) ==
  Let([h EXCEPT !.pr = Append(@, NewPromiseRec), !.st = Append(@, 0)], LAMBDA h1 :
  Let(NewResolvingFunctions(h1, Len(h1.pr)), LAMBDA r :
      [h |-> r.h, p |-> Len(h1.pr), rf |-> r.rf]))

\* HostEnqueuePromiseJob
Enq(h, job) ==
  [h EXCEPT !.q  = Append(@, job),
            !.o  = Append(@, [e |-> "enq", id |-> h.nj, kind |-> job.kind, act |-> h.act]),
            !.nj = @ + 1]

\* NewPromiseReactionJob(reaction, argument); src = the promise whose settlement triggers it
ReactionJob(h, reaction, arg, src) ==
  [id |-> h.nj, kind |-> "reaction", type |-> reaction.type, handler |-> reaction.handler,
   cap |-> reaction.cap, arg |-> arg, src |-> src]

\* NewPromiseResolveThenableJob(promiseToResolve, thenable, then)
ThenableJob(h, p, thenable, thenFn) ==
  [id |-> h.nj, kind |-> "thenable", p |-> p, thenable |-> thenable, thenFn |-> thenFn]

\* TriggerPromiseReactions(reactions, argument): one job per reaction, in list order
RECURSIVE Trigger(_, _, _, _, _)
Trigger(h, rs, k, arg, src) ==
  IF k > Len(rs) THEN h
  ELSE Let(Enq(h, ReactionJob(h, rs[k], arg, src)), LAMBDA h1 : Trigger(h1, rs, k + 1, arg, src))

\* FulfillPromise(promise, value)
Fulfill(h, p, v) ==
  Let([h EXCEPT !.pr[p] = [@ EXCEPT !.state = "fulfilled", !.result = v, !.fr = <<>>, !.rr = <<>>],
                !.st[p] = @ + 1], LAMBDA h1 :
      Trigger(h1, h.pr[p].fr, 1, v, p))

\* RejectPromise(promise, reason): tracker "reject" (step 7) before TriggerPromiseReactions (step 8)
Reject(h, p, r) ==
  Let([h EXCEPT !.pr[p] = [@ EXCEPT !.state = "rejected", !.result = r, !.fr = <<>>, !.rr = <<>>],
                !.st[p] = @ + 1], LAMBDA h1 :
  Let(IF h.pr[p].handled THEN h1 ELSE Track(h1, "reject"), LAMBDA h2 :
      Trigger(h2, h.pr[p].rr, 1, r, p)))

-----------------------------------------------------------------------------
\* Function values (closures of the scenario language and of the standard)

FnUser(l, ret, i, j, x, noarg) == [t |-> "f", f |-> "user", l |-> l, ret |-> ret, i |-> i, j |-> j, x |-> x, noarg |-> noarg]
FnResolve(rf)   == [t |-> "f", f |-> "resolve", rf |-> rf]
FnReject(rf)    == [t |-> "f", f |-> "reject", rf |-> rf]
FnThenM(k, l, n) == [t |-> "f", f |-> "thenM", kind |-> k, l |-> l, n |-> n]
FnPatchedThen(l) == [t |-> "f", f |-> "patchedThen", l |-> l]
FnProtoThen      == [t |-> "f", f |-> "protoThen"]
FnCallRes(rf, n) == [t |-> "f", f |-> "callRes", rf |-> rf, n |-> n]
FnAwaitF(i)      == [t |-> "f", f |-> "awaitF", task |-> i]
FnAwaitR(i)      == [t |-> "f", f |-> "awaitR", task |-> i]
FnThenFinally(fin)  == [t |-> "f", f |-> "thenFinally", fin |-> fin]
FnCatchFinally(fin) == [t |-> "f", f |-> "catchFinally", fin |-> fin]
FnValueThunk(v)  == [t |-> "f", f |-> "valueThunk", v |-> v]
FnThrower(v)     == [t |-> "f", f |-> "thrower", v |-> v]

-----------------------------------------------------------------------------
\* Get(resolution, "then") for the objects of the scenario language -> [h, c]
GetThen(h, x) ==
  IF x.t = "p" THEN
     [h |-> h, c |-> Normal(IF h.pr[x.id].pthen # NoL THEN FnPatchedThen(h.pr[x.id].pthen) ELSE FnProtoThen)]
  ELSE IF x.t = "th" THEN
     (CASE x.kind \in {"ThS", "ThR", "ThA", "ThX", "ThT", "ThD"} ->
            [h |-> h, c |-> Normal(FnThenM(x.kind, x.l, x.n))]
       [] x.kind = "Gn" -> [h |-> PrintNoArg(h, x.l), c |-> Normal(U)]
       [] x.kind = "Gf" -> [h |-> PrintNoArg(h, x.l), c |-> Normal(FnThenM("GfM", x.l \o "m", x.n))]
       [] x.kind = "Gx" -> [h |-> PrintNoArg(h, x.l), c |-> Throw(N(x.n))])
  ELSE [h |-> h, c |-> Normal(U)]

\* Promise Resolve Functions (27.2.1.3.2)
ResolveFn(h, rf, x) ==
  IF h.cp[rf].done THEN h
  ELSE Let([h EXCEPT !.cp[rf].done = TRUE], LAMBDA h1 :
       Let(h.cp[rf].promise, LAMBDA p :
         IF x.t = "p" /\ x.id = p THEN Reject(h1, p, ErrV("TypeError"))
         ELSE IF ~IsObject(x) THEN Fulfill(h1, p, x)
         ELSE Let(GetThen(h1, x), LAMBDA g :
                IF g.c.k = "throw" THEN Reject(g.h, p, g.c.v)
                ELSE IF ~IsCallable(g.c.v) THEN Fulfill(g.h, p, x)
                ELSE Enq(g.h, ThenableJob(g.h, p, x, g.c.v)))))

\* Promise Reject Functions (27.2.1.3.1)
RejectFn(h, rf, r) ==
  IF h.cp[rf].done THEN h
  ELSE Let([h EXCEPT !.cp[rf].done = TRUE], LAMBDA h1 : Reject(h1, h.cp[rf].promise, r))

\* PerformPromiseThen(promise, onFulfilled, onRejected, resultCapability); cap = rf id, 0 = undefined
PerformThen(h, p, onF, onR, cap) ==
  LET frec == [cap |-> cap, type |-> "Fulfill", handler |-> IF IsCallable(onF) THEN onF ELSE U]
      rrec == [cap |-> cap, type |-> "Reject",  handler |-> IF IsCallable(onR) THEN onR ELSE U]
      pr == h.pr[p]
  IN Let(CASE pr.state = "pending"   -> [h EXCEPT !.pr[p].fr = Append(@, frec), !.pr[p].rr = Append(@, rrec)]
           [] pr.state = "fulfilled" -> Enq(h, ReactionJob(h, frec, pr.result, p))
           [] pr.state = "rejected"  ->
                Let(IF pr.handled THEN h ELSE Track(h, "handle"), LAMBDA h0 :
                    Enq(h0, ReactionJob(h0, rrec, pr.result, p))),
         LAMBDA h1 : [h1 EXCEPT !.pr[p].handled = TRUE])

\* Promise.prototype.then(onF, onR) on a native promise p (species constructor is %Promise%)
PromiseThen(h, p, onF, onR) ==
  Let(NewCapability(h), LAMBDA c :
      [h |-> PerformThen(c.h, p, onF, onR, c.rf), c |-> Normal(P(c.p))])

\* Invoke(promiseValue, "then", <<onF, onR>>) where promiseValue is a native promise
InvokeThen(h, pv, onF, onR) ==
  IF h.pr[pv.id].pthen # NoL
  THEN Let(PrintNoArg(h, h.pr[pv.id].pthen), LAMBDA h1 : PromiseThen(h1, pv.id, onF, onR))
  ELSE PromiseThen(h, pv.id, onF, onR)

\* PromiseResolve(%Promise%, x) (27.2.4.7.1) -> [h, v]
PromiseResolveOp(h, x) ==
  IF x.t = "p" /\ ~h.pr[x.id].pctor THEN [h |-> h, v |-> x]
  ELSE Let(NewCapability(h), LAMBDA c : [h |-> ResolveFn(c.h, c.rf, x), v |-> P(c.p)])

\* Evaluation of an operand expression at site (i, j, x) -> [h, v]
EvalOp(h, opnd, i, j, x) ==
  LET n == SiteN(i, j, x)
      l == Lab("o", i, j) \o "." \o ToString(x)
  IN CASE opnd.o = "u" -> [h |-> h, v |-> U]
       [] opnd.o = "v" -> [h |-> h, v |-> N(n)]
       [] opnd.o = "F" -> Let(NewCapability(h), LAMBDA c : [h |-> ResolveFn(c.h, c.rf, N(n)), v |-> P(c.p)])
       [] opnd.o = "R" -> Let(NewCapability(h), LAMBDA c : [h |-> RejectFn(c.h, c.rf, N(n)), v |-> P(c.p)])
       [] opnd.o = "S" -> [h |-> h, v |-> P(opnd.s)]
       [] opnd.o = "T" -> [h |-> h, v |-> P(h.tp[opnd.s])]
       [] opnd.o \in {"ThS", "ThR", "ThA", "ThX", "ThT", "ThD", "Gn", "Gf", "Gx"} ->
            [h |-> h, v |-> Th(opnd.o, l, n)]
       [] opnd.o = "Pp" ->
            Let(NewCapability(h), LAMBDA c :
            Let(ResolveFn(c.h, c.rf, N(n)), LAMBDA h1 :
                [h |-> [h1 EXCEPT !.pr[c.p].pthen = l], v |-> P(c.p)]))
       [] opnd.o = "Pc" ->
            Let(NewCapability(h), LAMBDA c :
            Let(ResolveFn(c.h, c.rf, N(n)), LAMBDA h1 :
                [h |-> [h1 EXCEPT !.pr[c.p].pctor = TRUE], v |-> P(c.p)]))

\* Call of a scenario-language handler -> [h, c]
CallUser(h, f, args) ==
  Let(IF f.noarg THEN PrintNoArg(h, f.l) ELSE PrintArg(h, f.l, Arg(args, 1)), LAMBDA h1 :
      IF f.ret.o = "throw" THEN [h |-> h1, c |-> Throw(N(SiteN(f.i, f.j, f.x)))]
      ELSE Let(EvalOp(h1, f.ret, f.i, f.j, f.x), LAMBDA e : [h |-> e.h, c |-> Normal(e.v)]))

\* Call(f, thisV, args) for every function value except the await continuations -> [h, c]
CallFn(h, f, thisV, args) ==
  CASE f.f = "user"    -> CallUser(h, f, args)
    [] f.f = "resolve" -> [h |-> ResolveFn(h, f.rf, Arg(args, 1)), c |-> Normal(U)]
    [] f.f = "reject"  -> [h |-> RejectFn(h, f.rf, Arg(args, 1)), c |-> Normal(U)]
    [] f.f = "callRes" -> [h |-> ResolveFn(h, f.rf, N(f.n)), c |-> Normal(U)]
    [] f.f = "valueThunk" -> [h |-> h, c |-> Normal(f.v)]
    [] f.f = "thrower"    -> [h |-> h, c |-> Throw(f.v)]
    [] f.f = "protoThen"   -> PromiseThen(h, thisV.id, Arg(args, 1), Arg(args, 2))
    [] f.f = "patchedThen" ->
         Let(PrintNoArg(h, f.l), LAMBDA h1 : PromiseThen(h1, thisV.id, Arg(args, 1), Arg(args, 2)))
    [] f.f = "thenM" ->
         \* the `then` method of a scripted thenable; args are always resolving functions here
         Let(PrintNoArg(h, f.l), LAMBDA h1 :
         LET res == Arg(args, 1).rf
             rej == Arg(args, 2).rf
         IN (CASE f.kind \in {"ThS", "GfM"} -> [h |-> ResolveFn(h1, res, N(f.n)), c |-> Normal(U)]
              [] f.kind = "ThR" -> [h |-> RejectFn(h1, rej, N(f.n)), c |-> Normal(U)]
              [] f.kind = "ThX" -> [h |-> ResolveFn(h1, res, N(f.n)), c |-> Throw(N(f.n + 1))]
              [] f.kind = "ThT" -> [h |-> h1, c |-> Throw(N(f.n))]
              [] f.kind = "ThD" ->
                   Let(ResolveFn(h1, res, N(f.n)), LAMBDA h2 :
                   Let(ResolveFn(h2, res, N(f.n + 1)), LAMBDA h3 :
                       [h |-> RejectFn(h3, rej, N(f.n + 2)), c |-> Normal(U)]))
              [] f.kind = "ThA" ->
                   \* Promise.resolve().then(function(){ r(n) })
                   Let(NewCapability(h1), LAMBDA c0 :
                   Let(ResolveFn(c0.h, c0.rf, U), LAMBDA h2 :
                       [h |-> PromiseThen(h2, c0.p, FnCallRes(res, f.n), U).h, c |-> Normal(U)]))))
    [] f.f \in {"thenFinally", "catchFinally"} ->
         \* 27.2.5.3.1 / 27.2.5.3.2 with C = %Promise%
         Let(CallUser(h, f.fin, <<>>), LAMBDA r :
             IF r.c.k = "throw" THEN r
             ELSE Let(PromiseResolveOp(r.h, r.c.v), LAMBDA pr :
                      InvokeThen(pr.h, pr.v,
                                 IF f.f = "thenFinally" THEN FnValueThunk(Arg(args, 1)) ELSE FnThrower(Arg(args, 1)),
                                 U)))

-----------------------------------------------------------------------------
\* Statements of the two scripts

RECURSIVE StmtsFrom(_, _)
StmtsFrom(s, i) ==
  IF i > Len(s.tasks) THEN <<>>
  ELSE LET t == s.tasks[i]
           mine == IF t.kind = "A" THEN <<[s |-> "call", i |-> i], [s |-> "obs", i |-> i]>>
                   ELSE <<[s |-> "base", i |-> i]>> \o [l \in 1..Len(t.links) |-> [s |-> "link", i |-> i, l |-> l]]
       IN mine \o StmtsFrom(s, i + 1)

Stmts(s, ph) == IF ph = 1 THEN StmtsFrom(s, 1) ELSE [j \in 1..Len(s.late) |-> [s |-> "late", j |-> j]]

LateIdx == 9      \* task index used for labels / numbers of script 2

HandlerOf(spec, l, i, j, x, noarg) == IF spec.o = "none" THEN U ELSE FnUser(l, spec, i, j, x, noarg)

SettleStep(h, step, i, j) ==   \* res / rej of a shared promise (rf id of S_s is s)
  IF step.op = "res" THEN Let(EvalOp(h, step.x, i, j, 0), LAMBDA e : ResolveFn(e.h, step.s, e.v))
  ELSE RejectFn(h, step.s, N(SiteN(i, j, 0)))

-----------------------------------------------------------------------------
InitWith(s) ==
  /\ scn = s
  /\ promises = [k \in 1..s.ns |-> NewPromiseRec]
  /\ caps = [k \in 1..s.ns |-> [promise |-> k, done |-> FALSE]]
  /\ settles = [k \in 1..s.ns |-> 0]
  /\ queue = <<>>
  /\ tasks = [k \in 1..Len(s.tasks) |-> [st |-> "new", pc |-> 0, rf |-> 0, resume |-> [k |-> "none"]]]
  /\ tp = [k \in 1..Len(s.tasks) |-> 0]
  /\ out = <<>>
  /\ ctl = <<[k |-> "main", ph |-> 1, pc |-> 1]>>
  /\ phase = "script1"
  /\ act = 1
  /\ nextJob = 1
  /\ ran = 0

Init == \E s \in Scenarios : InitWith(s)

Top == ctl[Len(ctl)]
Pop == SubSeq(ctl, 1, Len(ctl) - 1)

\* one statement of the running script
ScriptStep ==
  /\ ctl # <<>> /\ Top.k = "main"
  /\ \E f \in {Top} : \E ss \in {Stmts(scn, f.ph)} : \E H \in {Heap} :
       IF f.pc > Len(ss)
       THEN /\ ctl' = <<>>
            /\ phase' = IF f.ph = 1 THEN "jobs1" ELSE "jobs2"
            /\ out' = Append(out, [e |-> "phase", p |-> IF f.ph = 1 THEN "jobs1" ELSE "jobs2"])
            /\ UNCHANGED <<scn, promises, caps, queue, tasks, tp, act, nextJob, ran, settles>>
       ELSE /\ UNCHANGED <<scn, phase, act, ran>>
            /\ \E st \in {ss[f.pc]} : \E adv \in {[ctl EXCEPT ![Len(ctl)].pc = @ + 1]} :
                 CASE st.s = "call" ->
                        \* AsyncFunctionStart: NewPromiseCapability, then run the body synchronously
                        \E c \in {NewCapability(H)} :
                           /\ \E h2 \in {[c.h EXCEPT !.tp[st.i] = c.p]} : SetHeap(h2)
                           /\ tasks' = [tasks EXCEPT ![st.i] = [@ EXCEPT !.st = "running", !.rf = c.rf]]
                           /\ ctl' = Append(adv, [k |-> "task", id |-> st.i])
                   [] st.s = "obs" ->
                        \E r \in {InvokeThen(H, P(tp[st.i]),
                                             FnUser(Lab("ok", st.i, 0), [o |-> "u", s |-> 0], st.i, 0, 8, FALSE),
                                             FnUser(Lab("err", st.i, 0), [o |-> "u", s |-> 0], st.i, 0, 9, FALSE))} :
                           \E h2 \in {r.h} : SetHeap(h2) /\ ctl' = adv /\ UNCHANGED tasks
                   [] st.s = "base" ->
                        \* T = Promise.resolve(BASE)
                        \E e \in {EvalOp(H, scn.tasks[st.i].base, st.i, 0, 0)} :
                        \E r \in {PromiseResolveOp(e.h, e.v)} :
                        \E h2 \in {[r.h EXCEPT !.tp[st.i] = r.v.id]} :
                           SetHeap(h2) /\ ctl' = adv /\ UNCHANGED tasks
                   [] st.s = "link" ->
                        \E lk \in {scn.tasks[st.i].links[st.l]} : \E cur \in {P(tp[st.i])} :
                        \E hf \in {HandlerOf(lk.f, Lab("f", st.i, st.l), st.i, st.l, 1, FALSE)} :
                        \E hr \in {HandlerOf(lk.r, Lab("r", st.i, st.l), st.i, st.l, 2, FALSE)} :
                        \E hn \in {HandlerOf(lk.f, Lab("n", st.i, st.l), st.i, st.l, 3, TRUE)} :
                        \E r \in {CASE lk.lk = "then"    -> InvokeThen(H, cur, hf, hr)
                                    [] lk.lk = "catch"   -> InvokeThen(H, cur, U, hr)
                                    [] lk.lk = "finally" -> InvokeThen(H, cur, FnThenFinally(hn), FnCatchFinally(hn))} :
                        \E h2 \in {[r.h EXCEPT !.tp[st.i] = r.c.v.id]} :
                           SetHeap(h2) /\ ctl' = adv /\ UNCHANGED tasks
                   [] st.s = "late" ->
                        \E h2 \in {SettleStep(H, scn.late[st.j], LateIdx, st.j)} :
                           SetHeap(h2) /\ ctl' = adv /\ UNCHANGED tasks

\* one step of the running async function body
TaskStep ==
  /\ ctl # <<>> /\ Top.k = "task"
  /\ UNCHANGED <<scn, phase, act, ran>>
  /\ \E i \in {Top.id} : \E t \in {tasks[Top.id]} : \E body \in {scn.tasks[Top.id]} : \E H \in {Heap} :
     LET finish(h) == /\ SetHeap(h) /\ ctl' = Pop
                      /\ tasks' = [tasks EXCEPT ![i] = [@ EXCEPT !.st = "done", !.resume = [k |-> "none"]]]
     IN /\ Assert(t.st = "running", "a suspended or finished task is running")
        /\ CASE t.resume.k = "throw" ->
                  \* Await resumed with a throw completion; no try/catch in the body: AsyncBlockStart
                  \* step 3.g: Call(promiseCapability.[[Reject]], undefined, << result.[[Value]] >>)
                  \E h2 \in {RejectFn(H, t.rf, t.resume.v)} : finish(h2)
             [] t.resume.k = "normal" ->
                  /\ \E h2 \in {PrintArg(H, Lab("aw", i, t.pc), t.resume.v)} : SetHeap(h2)
                  /\ ctl' = ctl
                  /\ tasks' = [tasks EXCEPT ![i] = [@ EXCEPT !.pc = @ + 1, !.resume = [k |-> "none"]]]
             [] t.resume.k = "none" /\ t.pc = 0 ->
                  /\ \E h2 \in {PrintNoArg(H, Lab("go", i, 0))} : SetHeap(h2)
                  /\ ctl' = ctl
                  /\ tasks' = [tasks EXCEPT ![i].pc = 1]
             [] t.resume.k = "none" /\ t.pc > 0 /\ t.pc <= Len(body.steps) ->
                  \E step \in {body.steps[t.pc]} :
                     IF step.op = "aw"
                     THEN \* Await(v): promise = PromiseResolve(%Promise%, v); PerformPromiseThen(promise,
                          \* onFulfilled, onRejected); suspend
                          \E e \in {EvalOp(H, step.x, i, t.pc, 0)} :
                          \E r \in {PromiseResolveOp(e.h, e.v)} :
                          \E h2 \in {PerformThen(r.h, r.v.id, FnAwaitF(i), FnAwaitR(i), 0)} :
                             /\ SetHeap(h2)
                             /\ tasks' = [tasks EXCEPT ![i].st = "suspended"]
                             /\ ctl' = Pop
                     ELSE /\ \E h2 \in {SettleStep(H, step, i, t.pc)} : SetHeap(h2)
                          /\ tasks' = [tasks EXCEPT ![i].pc = @ + 1] /\ ctl' = ctl
             [] t.resume.k = "none" /\ t.pc > Len(body.steps) ->
                  \* AsyncBlockStart 3.e-g: resolve / reject the function's capability
                  IF body.ret.o = "throw"
                  THEN \E h2 \in {RejectFn(H, t.rf, N(SiteN(i, 9, 0)))} : finish(h2)
                  ELSE \E e \in {EvalOp(H, body.ret, i, 9, 0)} :
                       \E h2 \in {ResolveFn(e.h, t.rf, e.v)} : finish(h2)

\* the job at the head of the queue runs (only when no synchronous code is running)
RunJob ==
  /\ ctl = <<>> /\ phase \in {"jobs1", "jobs2"} /\ queue # <<>>
  /\ UNCHANGED <<scn, phase>>
  /\ act' = act + 1
  /\ ran' = ran + 1
  /\ \E j \in {Head(queue)} :
     \E h0 \in {[Heap EXCEPT !.q = Tail(@), !.act = act + 1,
                             !.o = Append(@, [e |-> "run", id |-> j.id, act |-> act + 1])]} :
        IF j.kind = "reaction" THEN
          IF j.handler.t = "f" /\ j.handler.f \in {"awaitF", "awaitR"} THEN
            \* await continuation: resume the suspended async function with the settled value
            \E i \in {j.handler.task} :
               /\ Assert(tasks[i].st = "suspended", "resumed a task that is not suspended")
               /\ SetHeap(h0)
               /\ tasks' = [tasks EXCEPT ![i] = [@ EXCEPT !.st = "running",
                              !.resume = IF j.handler.f = "awaitF" THEN Normal(j.arg) ELSE Throw(j.arg)]]
               /\ ctl' = <<[k |-> "task", id |-> i]>>
          ELSE
            \E r \in {IF j.handler.t = "u"
                      THEN [h |-> h0, c |-> IF j.type = "Fulfill" THEN Normal(j.arg) ELSE Throw(j.arg)]
                      ELSE CallFn(h0, j.handler, U, <<j.arg>>)} :
            \E h1 \in {IF j.cap = 0 THEN r.h
                       ELSE IF r.c.k = "normal" THEN ResolveFn(r.h, j.cap, r.c.v)
                       ELSE RejectFn(r.h, j.cap, r.c.v)} :
               SetHeap(h1) /\ UNCHANGED <<tasks, ctl>>
        ELSE
          \* NewPromiseResolveThenableJob: fresh resolving functions, then.call(thenable, res, rej)
          \E nr \in {NewResolvingFunctions(h0, j.p)} :
          \E r \in {CallFn(nr.h, j.thenFn, j.thenable, <<FnResolve(nr.rf), FnReject(nr.rf)>>)} :
          \E h1 \in {IF r.c.k = "throw" THEN RejectFn(r.h, nr.rf, r.c.v) ELSE r.h} :
             SetHeap(h1) /\ UNCHANGED <<tasks, ctl>>

\* the queue is empty: run_jobs returns; the host evaluates script 2 (if any)
Quiesce ==
  /\ ctl = <<>> /\ phase \in {"jobs1", "jobs2"} /\ queue = <<>>
  /\ IF phase = "jobs1" /\ scn.late # <<>>
     THEN /\ phase' = "script2" /\ act' = act + 1
          /\ ctl' = <<[k |-> "main", ph |-> 2, pc |-> 1]>>
          /\ out' = Append(out, [e |-> "phase", p |-> "script2"])
     ELSE /\ phase' = "done" /\ act' = act /\ ctl' = ctl
          /\ out' = Append(out, [e |-> "phase", p |-> "done"])
  /\ UNCHANGED <<scn, promises, caps, queue, tasks, tp, nextJob, ran, settles>>

Next == ScriptStep \/ TaskStep \/ RunJob \/ Quiesce

Spec == Init /\ [][Next]_vars

Done == phase = "done"

-----------------------------------------------------------------------------
\* Invariants

\* The observation stream is append-only, so a prefix-closed condition on it holds in every state
\* of a behaviour iff it holds in the final state; such conditions are evaluated there (Done => ...),
\* the conditions that relate the stream to the current queue in every state.
Events(kind) == SelectSeq(out, LAMBDA ev : ev.e = kind)
Ids(evs) == [k \in 1..Len(evs) |-> evs[k].id]
Pos(kind, id) == CHOOSE k \in 1..Len(out) : out[k].e = kind /\ out[k].id = id

\* jobs run in the order of the HostEnqueuePromiseJob calls; what has not run yet is the queue
JobsFifo ==
  /\ \A k \in 1..Len(queue) : queue[k].id = ran + k
  /\ nextJob = ran + Len(queue) + 1
  /\ Done => \A enq \in {Ids(Events("enq"))} : \A run \in {Ids(Events("run"))} :
               /\ enq = [k \in 1..(nextJob - 1) |-> k]
               /\ run = enq

\* no job runs twice; at the end every enqueued job has run
EachJobOnce ==
  /\ ran < nextJob
  /\ Done => \A run \in {Ids(Events("run"))} :
               /\ \A a, b \in 1..Len(run) : a # b => run[a] # run[b]
               /\ queue = <<>> /\ Len(run) = nextJob - 1 /\ ran = nextJob - 1

\* a job runs in a later activity than the synchronous code that enqueued it (and later in the
\* stream), and only when no other synchronous code is on the control stack (run-to-completion)
JobAfterSyncCode ==
  /\ (ctl # <<>> /\ phase \in {"jobs1", "jobs2"}) => Len(ctl) = 1
  /\ Done => \A enq \in {Events("enq")} : \A run \in {Events("run")} :
               \A a \in 1..Len(run) :
                  /\ enq[run[a].id].id = run[a].id
                  /\ enq[run[a].id].act < run[a].act
                  /\ Pos("enq", run[a].id) < Pos("run", run[a].id)

\* a promise is settled at most once; settled promises keep no reactions; pending ones no result
SettleOnce ==
  \A p \in 1..Len(promises) :
     /\ settles[p] <= 1
     /\ (promises[p].state = "pending") = (settles[p] = 0)
     /\ promises[p].state = "pending" => promises[p].result = U
     /\ promises[p].state # "pending" => (promises[p].fr = <<>> /\ promises[p].rr = <<>>)
     /\ Len(promises[p].fr) = Len(promises[p].rr)

\* a reaction job exists only for a settled promise, with the matching type and argument
ReactionAfterSettle ==
  \A k \in 1..Len(queue) :
     queue[k].kind = "reaction" =>
        /\ promises[queue[k].src].state = (IF queue[k].type = "Fulfill" THEN "fulfilled" ELSE "rejected")
        /\ promises[queue[k].src].result = queue[k].arg

\* an async function is suspended iff exactly one await continuation pair for it is pending
\* (as reactions of a pending promise, or as one reaction job in the queue)
PendingAwaits(i) ==
  LET inReactions == UNION {{<<p, k>> : k \in {kk \in 1..Len(promises[p].fr) : promises[p].fr[kk].handler = FnAwaitF(i)}} :
                               p \in 1..Len(promises)}
      inQueue == {k \in 1..Len(queue) : queue[k].kind = "reaction"
                                        /\ queue[k].handler \in {FnAwaitF(i), FnAwaitR(i)}}
  IN Cardinality(inReactions) + Cardinality(inQueue)

AwaitResumesOnce ==
  \A i \in 1..Len(tasks) :
     scn.tasks[i].kind = "A" => (PendingAwaits(i) = IF tasks[i].st = "suspended" THEN 1 ELSE 0)

StructureOK ==
  /\ Len(settles) = Len(promises)
  /\ \A r \in 1..Len(caps) : caps[r].promise \in 1..Len(promises)
  /\ phase = "done" => ctl = <<>>
  /\ Done => nextJob = Len(Events("enq")) + 1

\* action property: a settled promise never changes state or result again
SettledIsStable ==
  [][\A p \in 1..Len(promises) :
        promises[p].state # "pending" =>
           (promises'[p].state = promises[p].state /\ promises'[p].result = promises[p].result)]_vars

=============================================================================
