------------------------------ MODULE Promises ------------------------------
(***************************************************************************)
(* Reference model of ECMA-262 promise jobs (27.2), Await (27.7.5.3) and   *)
(* async function start/return/throw (27.7.5.1-2), as state + transitions. *)
(*                                                                         *)
(* A behaviour = one SCENARIO (chosen in Init from the constant set        *)
(* Scenarios) executed by the deterministic machine below:                 *)
(*   script 1 (starts every task in order) ; drain the job queue ;         *)
(*   script 2 (the "late" settle operations) ; drain the job queue.        *)
(* The machine has exactly one successor in every non-final state, so the  *)
(* value of `out` in the final state is THE order the standard prescribes. *)
(*                                                                         *)
(* Scenario language (rendered to JavaScript by tools/checks/C16.py):      *)
(*   scenario = [ns, tasks, late]                                          *)
(*     ns    number of shared pending promises S1..Sns created up front    *)
(*           with their resolving functions (new Promise(executor))        *)
(*     tasks sequence of tasks, started in order by script 1               *)
(*     late  sequence of res/rej steps run as script 2                     *)
(*   task kind "A": async function  [kind, steps, ret]                     *)
(*        step [op |-> "aw", x]        r = await X; print(label, r)        *)
(*             [op |-> "awc", x]       the same inside try / catch (the    *)
(*                                     handler prints and execution goes   *)
(*                                     on with the next step)              *)
(*             [op |-> "res", s, x]    resolveS(X)                         *)
(*             [op |-> "rej", s]       rejectS(n)                          *)
(*        ret  operand, or [o |-> "throw"]                                 *)
(*        the caller attaches T.then(v => print(ok,v), e => print(err,e))  *)
(*   task kind "C": promise chain   [kind, base, links]                    *)
(*        T = Promise.resolve(BASE) ; T = T.then(F,R) | .catch(R) |        *)
(*        .finally(FIN) ... ; handlers print (label, argument) and then    *)
(*        return an operand or throw; [o |-> "none"] = handler missing     *)
(*             [op |-> "gq", g, s]     fire a request at async generator s *)
(*                                     (g = "next" | "return" | "throw")   *)
(*                                     and observe its promise             *)
(*             [op |-> "awq", g, s]    r = await G.next(n) ...; print      *)
(*   task kind "G": async generator [kind, steps, ret]                     *)
(*        async function* g(){ ... } ; G = g()   (body starts at the first *)
(*        next()); steps as in "A" plus [op |-> "yi", x]  r = yield X;     *)
(*        print(label, r), and [op |-> "ys", s]  r = yield* G_s (another   *)
(*        async generator object of the scenario); print(label, r).        *)
(*        AsyncGeneratorStart / Enqueue / Resume /                         *)
(*        Yield / UnwrapYieldResumption / CompleteStep / AwaitReturn /     *)
(*        DrainQueue of 27.6.3 are library code of the model.              *)
(*   task kind "M": combinator      [kind, comb, xs]                       *)
(*        T = Promise.all | allSettled | race | any ([X1, ..., Xn]) with   *)
(*        the algorithms of 27.2.4.1-3, 27.2.4.5 as library code; the      *)
(*        caller attaches an observer that prints the elements             *)
(*   operand [o, s]:                                                       *)
(*     "u" undefined, "v" number, "F"/"R" fresh fulfilled/rejected native  *)
(*     promise, "S" shared promise s, "T" promise of earlier task s,       *)
(*     "ThS" thenable resolving synchronously, "ThR" rejecting, "ThA"      *)
(*     resolving from a later job, "ThX" resolve-then-throw, "ThT" throw,  *)
(*     "ThD" resolve twice then reject, "Gn"/"Gf"/"Gx" object with a       *)
(*     `then` GETTER returning undefined / a function / throwing,          *)
(*     "Pp" native promise with a patched own `then`, "Pc" native promise  *)
(*     with a patched `constructor`                                        *)
(*                                                                         *)
(* Observation stream `out`: print events, job enqueue/run events (ids in  *)
(* enqueue order), HostPromiseRejectionTracker events, phase separators.   *)
(***************************************************************************)
EXTENDS Naturals, Sequences, FiniteSets, TLC

CONSTANTS Scenarios, \* the scenario universe (MC modules may instead define their own Init with InitWith)
          Quirks     \* {} = ECMA-262 as published.  Named deviations, used only to CLASSIFY a disagreement
                     \* that was already found against the unmodified model (known findings):
                     \*   "ysReturnAwait": in `yield* inner` of an async generator, when the result of
                     \*   inner.return(v) is done, the value is awaited before the generator returns (the
                     \*   text of 15.5.5 before the await was removed from that step; one extra job)

VARIABLES scn,       \* the scenario being executed (constant along a behaviour)
          promises,  \* Seq of [state, result, fr, rr, handled, pthen, pctor]
          caps,      \* Seq of resolving-function pairs [promise, done]  (done = alreadyResolved)
          queue,     \* the job queue (FIFO): Seq of job records
          tasks,     \* Seq of task activations [st, pc, rf, resume]
          tp,        \* tp[i] = promise id task i currently exposes as T_i (0 = not yet)
          out,       \* observation stream
          ctl,       \* control stack of the running synchronous code (<<>> = none)
          phase,     \* "script1" | "jobs1" | "script2" | "jobs2" | "done"
          act,       \* number of the current synchronous activity (script or job)
          nextJob,   \* id given to the next enqueued job
          ran,       \* number of jobs that have run
          settles,   \* settles[p] = how many times promise p was settled (history variable)
          combs,     \* Seq of combinator records [kind, cap, vals, remaining, called]
          gens       \* gens[i] = [st, q] of the async generator object of task i (q = request queue)

vars == <<scn, promises, caps, queue, tasks, tp, out, ctl, phase, act, nextJob, ran, settles, combs, gens>>

-----------------------------------------------------------------------------
\* Values

U        == [t |-> "u"]
N(n)     == [t |-> "n", n |-> n]
P(i)     == [t |-> "p", id |-> i]
ErrV(c)  == [t |-> "err", c |-> c]
Th(k, l, n) == [t |-> "th", kind |-> k, l |-> l, n |-> n]
Str(x)   == [t |-> "s", s |-> x]
Arr(xs)  == [t |-> "arr", xs |-> xs]                     \* an Array (no `then` anywhere on its prototype chain)
Ent(st, v) == [t |-> "ent", status |-> st, v |-> v]     \* { status, value | reason } of Promise.allSettled

Bool(b)  == [t |-> "b", b |-> b]
Iter(v, d) == [t |-> "iter", v |-> v, done |-> d]       \* CreateIterResultObject(v, d)

IsObject(v)   == v.t \in {"p", "th", "err", "f", "arr", "ent", "iter"}

\* the scripts print through a helper that spreads arrays, { status, value | reason } records and
\* iterator results into their components
FlatOne(x) == CASE x.t = "ent"  -> <<Str(x.status), x.v>>
                [] x.t = "iter" -> <<x.v, Bool(x.done)>>
                [] OTHER        -> <<x>>
RECURSIVE FlatSeq(_, _)
FlatSeq(xs, k) == IF k > Len(xs) THEN <<>> ELSE FlatOne(xs[k]) \o FlatSeq(xs, k + 1)
Flat(v) == IF v.t = "arr" THEN FlatSeq(v.xs, 1) ELSE FlatOne(v)
IsCallable(v) == v.t = "f"

Normal(v) == [k |-> "normal", v |-> v]
Throw(v)  == [k |-> "throw", v |-> v]

NoL == ""     \* "no label"

\* label of a program point: kind, task index, position, sub-position
Lab(k, i, j) == k \o ToString(i) \o "." \o ToString(j)
\* number carried by the operand at a site (distinct per site, so values can be traced)
SiteN(i, j, x) == i * 100 + j * 10 + x

Arg(args, k) == IF k <= Len(args) THEN args[k] ELSE U

-----------------------------------------------------------------------------
\* The heap record threaded through the abstract operations.
\*
\* TLC evaluates operator arguments and LET definitions lazily and, inside an action, WITHOUT caching:
\* an argument used k times is evaluated k times, so nested "heap in, heap out" operators would cost
\* time exponential in the nesting depth.  Discipline used below: every intermediate heap is bound
\* with Let (a singleton-set comprehension binds a VALUE), operators are only applied to bound
\* identifiers (or fields of them), actions bind with \E x \in {e}.

Let(e, Body(_)) == CHOOSE r \in {Body(v) : v \in {e}} : TRUE

Heap == [pr |-> promises, cp |-> caps, q |-> queue, o |-> out, nj |-> nextJob, act |-> act,
         st |-> settles, tp |-> tp, cb |-> combs, gn |-> gens]

SetHeap(h) == /\ promises' = h.pr /\ caps' = h.cp /\ queue' = h.q /\ out' = h.o
              /\ nextJob' = h.nj /\ settles' = h.st /\ tp' = h.tp /\ combs' = h.cb /\ gens' = h.gn

PrintVals(h, l, vs) == [h EXCEPT !.o = Append(@, [e |-> "print", l |-> l, vs |-> vs])]
PrintArg(h, l, v) == PrintVals(h, l, Flat(v))
PrintNoArg(h, l) == PrintVals(h, l, <<>>)
Track(h, op) == [h EXCEPT !.o = Append(@, [e |-> "trk", op |-> op])]

NewPromiseRec == [state |-> "pending", result |-> U, fr |-> <<>>, rr |-> <<>>, handled |-> FALSE,
                  pthen |-> NoL, pctor |-> FALSE]

\* CreateResolvingFunctions(promise): a fresh alreadyResolved record shared by resolve and reject
NewResolvingFunctions(h, p) ==
  [h |-> [h EXCEPT !.cp = Append(@, [promise |-> p, done |-> FALSE])], rf |-> Len(h.cp) + 1]

\* NewPromiseCapability(%Promise%): new pending promise + its resolving functions
NewCapability(h) ==
  Let([h EXCEPT !.pr = Append(@, NewPromiseRec), !.st = Append(@, 0)], LAMBDA h1 :
  Let(NewResolvingFunctions(h1, Len(h1.pr)), LAMBDA r :
      [h |-> r.h, p |-> Len(h1.pr), rf |-> r.rf]))

\* HostEnqueuePromiseJob
Enq(h, job) ==
  [h EXCEPT !.q  = Append(@, job),
            !.o  = Append(@, [e |-> "enq", id |-> h.nj, kind |-> job.kind, act |-> h.act]),
            !.nj = @ + 1]

\* NewPromiseReactionJob(reaction, argument); src = the promise whose settlement triggers it
ReactionJob(h, reaction, arg, src) ==
  [id |-> h.nj, kind |-> "reaction", type |-> reaction.type, handler |-> reaction.handler,
   cap |-> reaction.cap, arg |-> arg, src |-> src]

\* NewPromiseResolveThenableJob(promiseToResolve, thenable, then)
ThenableJob(h, p, thenable, thenFn) ==
  [id |-> h.nj, kind |-> "thenable", p |-> p, thenable |-> thenable, thenFn |-> thenFn]

\* TriggerPromiseReactions(reactions, argument): one job per reaction, in list order
RECURSIVE Trigger(_, _, _, _, _)
Trigger(h, rs, k, arg, src) ==
  IF k > Len(rs) THEN h
  ELSE Let(Enq(h, ReactionJob(h, rs[k], arg, src)), LAMBDA h1 : Trigger(h1, rs, k + 1, arg, src))

\* FulfillPromise(promise, value)
Fulfill(h, p, v) ==
  Let([h EXCEPT !.pr[p] = [@ EXCEPT !.state = "fulfilled", !.result = v, !.fr = <<>>, !.rr = <<>>],
                !.st[p] = @ + 1], LAMBDA h1 :
      Trigger(h1, h.pr[p].fr, 1, v, p))

\* RejectPromise(promise, reason): tracker "reject" (step 7) before TriggerPromiseReactions (step 8)
Reject(h, p, r) ==
  Let([h EXCEPT !.pr[p] = [@ EXCEPT !.state = "rejected", !.result = r, !.fr = <<>>, !.rr = <<>>],
                !.st[p] = @ + 1], LAMBDA h1 :
  Let(IF h.pr[p].handled THEN h1 ELSE Track(h1, "reject"), LAMBDA h2 :
      Trigger(h2, h.pr[p].rr, 1, r, p)))

-----------------------------------------------------------------------------
\* Function values (closures of the scenario language and of the standard)

FnUser(l, ret, i, j, x, noarg) == [t |-> "f", f |-> "user", l |-> l, ret |-> ret, i |-> i, j |-> j, x |-> x, noarg |-> noarg]
FnResolve(rf)   == [t |-> "f", f |-> "resolve", rf |-> rf]
FnReject(rf)    == [t |-> "f", f |-> "reject", rf |-> rf]
FnThenM(k, l, n) == [t |-> "f", f |-> "thenM", kind |-> k, l |-> l, n |-> n]
FnPatchedThen(l) == [t |-> "f", f |-> "patchedThen", l |-> l]
FnProtoThen      == [t |-> "f", f |-> "protoThen"]
FnCallRes(rf, n) == [t |-> "f", f |-> "callRes", rf |-> rf, n |-> n]
FnAwaitF(i)      == [t |-> "f", f |-> "awaitF", task |-> i]
FnAwaitR(i)      == [t |-> "f", f |-> "awaitR", task |-> i]
FnThenFinally(fin)  == [t |-> "f", f |-> "thenFinally", fin |-> fin]
FnCatchFinally(fin) == [t |-> "f", f |-> "catchFinally", fin |-> fin]
FnValueThunk(v)  == [t |-> "f", f |-> "valueThunk", v |-> v]
FnThrower(v)     == [t |-> "f", f |-> "thrower", v |-> v]
FnGenRetF(i)     == [t |-> "f", f |-> "genRetF", task |-> i]    \* closures of AsyncGeneratorAwaitReturn
FnGenRetR(i)     == [t |-> "f", f |-> "genRetR", task |-> i]
FnElemF(c, k)    == [t |-> "f", f |-> "elemF", c |-> c, idx |-> k]    \* Promise.all / allSettled resolve element
FnElemR(c, k)    == [t |-> "f", f |-> "elemR", c |-> c, idx |-> k]    \* allSettled / any reject element

-----------------------------------------------------------------------------
\* Get(resolution, "then") for the objects of the scenario language -> [h, c]
GetThen(h, x) ==
  IF x.t = "p" THEN
     [h |-> h, c |-> Normal(IF h.pr[x.id].pthen # NoL THEN FnPatchedThen(h.pr[x.id].pthen) ELSE FnProtoThen)]
  ELSE IF x.t = "th" THEN
     (CASE x.kind \in {"ThS", "ThR", "ThA", "ThX", "ThT", "ThD"} ->
            [h |-> h, c |-> Normal(FnThenM(x.kind, x.l, x.n))]
       [] x.kind = "Gn" -> [h |-> PrintNoArg(h, x.l), c |-> Normal(U)]
       [] x.kind = "Gf" -> [h |-> PrintNoArg(h, x.l), c |-> Normal(FnThenM("GfM", x.l \o "m", x.n))]
       [] x.kind = "Gx" -> [h |-> PrintNoArg(h, x.l), c |-> Throw(N(x.n))])
  ELSE [h |-> h, c |-> Normal(U)]

\* Promise Resolve Functions (27.2.1.3.2)
ResolveFn(h, rf, x) ==
  IF h.cp[rf].done THEN h
  ELSE Let([h EXCEPT !.cp[rf].done = TRUE], LAMBDA h1 :
       Let(h.cp[rf].promise, LAMBDA p :
         IF x.t = "p" /\ x.id = p THEN Reject(h1, p, ErrV("TypeError"))
         ELSE IF ~IsObject(x) THEN Fulfill(h1, p, x)
         ELSE Let(GetThen(h1, x), LAMBDA g :
                IF g.c.k = "throw" THEN Reject(g.h, p, g.c.v)
                ELSE IF ~IsCallable(g.c.v) THEN Fulfill(g.h, p, x)
                ELSE Enq(g.h, ThenableJob(g.h, p, x, g.c.v)))))

\* Promise Reject Functions (27.2.1.3.1)
RejectFn(h, rf, r) ==
  IF h.cp[rf].done THEN h
  ELSE Let([h EXCEPT !.cp[rf].done = TRUE], LAMBDA h1 : Reject(h1, h.cp[rf].promise, r))

\* PerformPromiseThen(promise, onFulfilled, onRejected, resultCapability); cap = rf id, 0 = undefined
PerformThen(h, p, onF, onR, cap) ==
  LET frec == [cap |-> cap, type |-> "Fulfill", handler |-> IF IsCallable(onF) THEN onF ELSE U]
      rrec == [cap |-> cap, type |-> "Reject",  handler |-> IF IsCallable(onR) THEN onR ELSE U]
      pr == h.pr[p]
  IN Let(CASE pr.state = "pending"   -> [h EXCEPT !.pr[p].fr = Append(@, frec), !.pr[p].rr = Append(@, rrec)]
           [] pr.state = "fulfilled" -> Enq(h, ReactionJob(h, frec, pr.result, p))
           [] pr.state = "rejected"  ->
                Let(IF pr.handled THEN h ELSE Track(h, "handle"), LAMBDA h0 :
                    Enq(h0, ReactionJob(h0, rrec, pr.result, p))),
         LAMBDA h1 : [h1 EXCEPT !.pr[p].handled = TRUE])

\* Promise.prototype.then(onF, onR) on a native promise p (species constructor is %Promise%)
PromiseThen(h, p, onF, onR) ==
  Let(NewCapability(h), LAMBDA c :
      [h |-> PerformThen(c.h, p, onF, onR, c.rf), c |-> Normal(P(c.p))])

\* Invoke(promiseValue, "then", <<onF, onR>>) where promiseValue is a native promise
InvokeThen(h, pv, onF, onR) ==
  IF h.pr[pv.id].pthen # NoL
  THEN Let(PrintNoArg(h, h.pr[pv.id].pthen), LAMBDA h1 : PromiseThen(h1, pv.id, onF, onR))
  ELSE PromiseThen(h, pv.id, onF, onR)

\* PromiseResolve(%Promise%, x) (27.2.4.7.1) -> [h, v]
PromiseResolveOp(h, x) ==
  IF x.t = "p" /\ ~h.pr[x.id].pctor THEN [h |-> h, v |-> x]
  ELSE Let(NewCapability(h), LAMBDA c : [h |-> ResolveFn(c.h, c.rf, x), v |-> P(c.p)])

\* Evaluation of an operand expression at site (i, j, x) -> [h, v]
EvalOp(h, opnd, i, j, x) ==
  LET n == SiteN(i, j, x)
      l == Lab("o", i, j) \o "." \o ToString(x)
  IN CASE opnd.o = "u" -> [h |-> h, v |-> U]
       [] opnd.o = "v" -> [h |-> h, v |-> N(n)]
       [] opnd.o = "F" -> Let(NewCapability(h), LAMBDA c : [h |-> ResolveFn(c.h, c.rf, N(n)), v |-> P(c.p)])
       [] opnd.o = "R" -> Let(NewCapability(h), LAMBDA c : [h |-> RejectFn(c.h, c.rf, N(n)), v |-> P(c.p)])
       [] opnd.o = "S" -> [h |-> h, v |-> P(opnd.s)]
       [] opnd.o = "T" -> [h |-> h, v |-> P(h.tp[opnd.s])]
       [] opnd.o \in {"ThS", "ThR", "ThA", "ThX", "ThT", "ThD", "Gn", "Gf", "Gx"} ->
            [h |-> h, v |-> Th(opnd.o, l, n)]
       [] opnd.o = "Pp" ->
            Let(NewCapability(h), LAMBDA c :
            Let(ResolveFn(c.h, c.rf, N(n)), LAMBDA h1 :
                [h |-> [h1 EXCEPT !.pr[c.p].pthen = l], v |-> P(c.p)]))
       [] opnd.o = "Pc" ->
            Let(NewCapability(h), LAMBDA c :
            Let(ResolveFn(c.h, c.rf, N(n)), LAMBDA h1 :
                [h |-> [h1 EXCEPT !.pr[c.p].pctor = TRUE], v |-> P(c.p)]))

-----------------------------------------------------------------------------
\* Async generator objects (27.6.3).  gn[i] = [st, q]; st is "start" (suspended-start), "yield"
\* (suspended-yield), "executing", "draining" (draining-queue) or "completed"; a request is
\* [k (completion type), v, rf (resolving functions of its promise capability)].

Ret(v) == [k |-> "return", v |-> v]

\* AsyncGeneratorCompleteStep(generator, completion, done)
GenCompleteStep(h, i, c, done) ==
  Let(Head(h.gn[i].q), LAMBDA next :
  Let([h EXCEPT !.gn[i].q = Tail(@)], LAMBDA h1 :
      IF c.k = "throw" THEN RejectFn(h1, next.rf, c.v) ELSE ResolveFn(h1, next.rf, Iter(c.v, done))))

\* AsyncGeneratorAwaitReturn(generator)
GenAwaitReturn(h, i) ==
  Let(PromiseResolveOp(h, Head(h.gn[i].q).v), LAMBDA pr :
      PerformThen(pr.h, pr.v.id, FnGenRetF(i), FnGenRetR(i), 0))

\* AsyncGeneratorDrainQueue(generator)
RECURSIVE GenDrainQueue(_, _)
GenDrainQueue(h, i) ==
  IF h.gn[i].q = <<>> THEN [h EXCEPT !.gn[i].st = "completed"]
  ELSE Let(Head(h.gn[i].q), LAMBDA next :
         IF next.k = "return" THEN GenAwaitReturn(h, i)
         ELSE Let(GenCompleteStep(h, i, IF next.k = "normal" THEN Normal(U) ELSE Throw(next.v), TRUE), LAMBDA h1 :
                  GenDrainQueue(h1, i)))

\* %AsyncGeneratorPrototype%.next / return / throw (v) -> [h, p (the returned promise), resume (a
\* completion, or "none": whether AsyncGeneratorResume has to run the body now)]
GenRequest(h, i, g, v) ==
  Let(NewCapability(h), LAMBDA cap :
  LET st == h.gn[i].st
      enq(c) == [cap.h EXCEPT !.gn[i].q = Append(@, [k |-> c.k, v |-> c.v, rf |-> cap.rf])]
      NoRes == [k |-> "none"]
  IN CASE g = "next" ->
            IF st = "completed"
            THEN [h |-> ResolveFn(cap.h, cap.rf, Iter(U, TRUE)), p |-> cap.p, resume |-> NoRes]
            ELSE [h |-> enq(Normal(v)), p |-> cap.p, resume |-> IF st \in {"start", "yield"} THEN Normal(v) ELSE NoRes]
       [] g = "return" ->
            IF st \in {"start", "completed"}
            THEN Let([enq(Ret(v)) EXCEPT !.gn[i].st = "draining"], LAMBDA h1 :
                     [h |-> GenAwaitReturn(h1, i), p |-> cap.p, resume |-> NoRes])
            ELSE [h |-> enq(Ret(v)), p |-> cap.p, resume |-> IF st = "yield" THEN Ret(v) ELSE NoRes]
       [] g = "throw" ->
            IF st \in {"start", "completed"}
            THEN Let([cap.h EXCEPT !.gn[i].st = "completed"], LAMBDA h1 :
                     [h |-> RejectFn(h1, cap.rf, v), p |-> cap.p, resume |-> NoRes])
            ELSE [h |-> enq(Throw(v)), p |-> cap.p, resume |-> IF st = "yield" THEN Throw(v) ELSE NoRes])

\* Call of a scenario-language handler -> [h, c]
CallUser(h, f, args) ==
  Let(IF f.noarg THEN PrintNoArg(h, f.l) ELSE PrintArg(h, f.l, Arg(args, 1)), LAMBDA h1 :
      IF f.ret.o = "throw" THEN [h |-> h1, c |-> Throw(N(SiteN(f.i, f.j, f.x)))]
      ELSE Let(EvalOp(h1, f.ret, f.i, f.j, f.x), LAMBDA e : [h |-> e.h, c |-> Normal(e.v)]))

\* Call(f, thisV, args) for every function value except the await continuations -> [h, c]
CallFn(h, f, thisV, args) ==
  CASE f.f = "user"    -> CallUser(h, f, args)
    [] f.f = "resolve" -> [h |-> ResolveFn(h, f.rf, Arg(args, 1)), c |-> Normal(U)]
    [] f.f = "reject"  -> [h |-> RejectFn(h, f.rf, Arg(args, 1)), c |-> Normal(U)]
    [] f.f = "callRes" -> [h |-> ResolveFn(h, f.rf, N(f.n)), c |-> Normal(U)]
    [] f.f = "valueThunk" -> [h |-> h, c |-> Normal(f.v)]
    [] f.f = "thrower"    -> [h |-> h, c |-> Throw(f.v)]
    [] f.f = "protoThen"   -> PromiseThen(h, thisV.id, Arg(args, 1), Arg(args, 2))
    [] f.f = "patchedThen" ->
         Let(PrintNoArg(h, f.l), LAMBDA h1 : PromiseThen(h1, thisV.id, Arg(args, 1), Arg(args, 2)))
    [] f.f = "thenM" ->
         \* the `then` method of a scripted thenable; args are always resolving functions here
         Let(PrintNoArg(h, f.l), LAMBDA h1 :
         LET res == Arg(args, 1).rf
             rej == Arg(args, 2).rf
         IN (CASE f.kind \in {"ThS", "GfM"} -> [h |-> ResolveFn(h1, res, N(f.n)), c |-> Normal(U)]
              [] f.kind = "ThR" -> [h |-> RejectFn(h1, rej, N(f.n)), c |-> Normal(U)]
              [] f.kind = "ThX" -> [h |-> ResolveFn(h1, res, N(f.n)), c |-> Throw(N(f.n + 1))]
              [] f.kind = "ThT" -> [h |-> h1, c |-> Throw(N(f.n))]
              [] f.kind = "ThD" ->
                   Let(ResolveFn(h1, res, N(f.n)), LAMBDA h2 :
                   Let(ResolveFn(h2, res, N(f.n + 1)), LAMBDA h3 :
                       [h |-> RejectFn(h3, rej, N(f.n + 2)), c |-> Normal(U)]))
              [] f.kind = "ThA" ->
                   \* Promise.resolve().then(function(){ r(n) })
                   Let(NewCapability(h1), LAMBDA c0 :
                   Let(ResolveFn(c0.h, c0.rf, U), LAMBDA h2 :
                       [h |-> PromiseThen(h2, c0.p, FnCallRes(res, f.n), U).h, c |-> Normal(U)]))))
    [] f.f = "genRetF" ->
         Let(GenCompleteStep(h, f.task, Normal(Arg(args, 1)), TRUE), LAMBDA h1 :
             [h |-> GenDrainQueue(h1, f.task), c |-> Normal(U)])
    [] f.f = "genRetR" ->
         Let(GenCompleteStep(h, f.task, Throw(Arg(args, 1)), TRUE), LAMBDA h1 :
             [h |-> GenDrainQueue(h1, f.task), c |-> Normal(U)])
    [] f.f \in {"elemF", "elemR"} ->
         \* 27.2.4.1.3 Promise.all resolve element, 27.2.4.2.2-3 allSettled elements, 27.2.4.3.2 any reject element
         IF h.cb[f.c].called[f.idx] THEN [h |-> h, c |-> Normal(U)]
         ELSE LET kind == h.cb[f.c].kind
                  x == Arg(args, 1)
                  val == IF kind = "allSettled" THEN Ent(IF f.f = "elemF" THEN "fulfilled" ELSE "rejected", x) ELSE x
              IN Let([h EXCEPT !.cb[f.c].called[f.idx] = TRUE, !.cb[f.c].vals[f.idx] = val,
                               !.cb[f.c].remaining = @ - 1], LAMBDA h1 :
                     IF h1.cb[f.c].remaining # 0 THEN [h |-> h1, c |-> Normal(U)]
                     ELSE IF kind = "any"
                          THEN [h |-> RejectFn(h1, h1.cb[f.c].cap, ErrV("AggregateError")), c |-> Normal(U)]
                          ELSE [h |-> ResolveFn(h1, h1.cb[f.c].cap, Arr(h1.cb[f.c].vals)), c |-> Normal(U)])
    [] f.f \in {"thenFinally", "catchFinally"} ->
         \* 27.2.5.3.1 / 27.2.5.3.2 with C = %Promise%
         Let(CallUser(h, f.fin, <<>>), LAMBDA r :
             IF r.c.k = "throw" THEN r
             ELSE Let(PromiseResolveOp(r.h, r.c.v), LAMBDA pr :
                      InvokeThen(pr.h, pr.v,
                                 IF f.f = "thenFinally" THEN FnValueThunk(Arg(args, 1)) ELSE FnThrower(Arg(args, 1)),
                                 U)))

-----------------------------------------------------------------------------
\* Promise.all / allSettled / race / any ( [x1 .. xn] ) with C = %Promise% (27.2.4.1, .2, .3, .5)

\* the array literal evaluates its elements first
RECURSIVE EvalOps(_, _, _, _, _)
EvalOps(h, xs, i, k, acc) ==
  IF k > Len(xs) THEN [h |-> h, vs |-> acc]
  ELSE Let(EvalOp(h, xs[k], i, k, 0), LAMBDA e : EvalOps(e.h, xs, i, k + 1, Append(acc, e.v)))

\* the loop of PerformPromiseAll / AllSettled / Race / Any
RECURSIVE CombLoop(_, _, _, _, _, _)
CombLoop(h, kind, c, crf, vs, k) ==
  IF k > Len(vs) THEN h
  ELSE \* nextPromise = Call(promiseResolve, C, << next >>)
       Let(PromiseResolveOp(h, vs[k]), LAMBDA pr :
       Let(IF kind = "race" THEN pr.h ELSE [pr.h EXCEPT !.cb[c].remaining = @ + 1], LAMBDA h1 :
       \* Invoke(nextPromise, "then", << onFulfilled, onRejected >>)
       Let(InvokeThen(h1, pr.v,
                      IF kind \in {"all", "allSettled"} THEN FnElemF(c, k) ELSE FnResolve(crf),
                      IF kind \in {"allSettled", "any"} THEN FnElemR(c, k) ELSE FnReject(crf)), LAMBDA r :
           CombLoop(r.h, kind, c, crf, vs, k + 1))))

\* -> [h, p]
Combinator(h, kind, xs, i) ==
  Let(NewCapability(h), LAMBDA cap :
  Let(EvalOps(cap.h, xs, i, 1, <<>>), LAMBDA e :
  Let([e.h EXCEPT !.cb = Append(@, [kind |-> kind, cap |-> cap.rf, vals |-> [k \in 1..Len(xs) |-> U],
                                    remaining |-> 1, called |-> [k \in 1..Len(xs) |-> FALSE]])], LAMBDA h1 :
  Let(Len(h1.cb), LAMBDA c :
  Let(CombLoop(h1, kind, c, cap.rf, e.vs, 1), LAMBDA h2 :
      IF kind = "race" THEN [h |-> h2, p |-> cap.p]
      ELSE Let([h2 EXCEPT !.cb[c].remaining = @ - 1], LAMBDA h3 :
               IF h3.cb[c].remaining # 0 THEN [h |-> h3, p |-> cap.p]
               ELSE IF kind = "any" THEN [h |-> RejectFn(h3, cap.rf, ErrV("AggregateError")), p |-> cap.p]
               ELSE [h |-> ResolveFn(h3, cap.rf, Arr(h3.cb[c].vals)), p |-> cap.p]))))))

-----------------------------------------------------------------------------
\* Statements of the two scripts

RECURSIVE StmtsFrom(_, _)
StmtsFrom(s, i) ==
  IF i > Len(s.tasks) THEN <<>>
  ELSE LET t == s.tasks[i]
           mine == CASE t.kind = "A" -> <<[s |-> "call", i |-> i], [s |-> "obs", i |-> i]>>
                     [] t.kind = "M" -> <<[s |-> "comb", i |-> i], [s |-> "obs", i |-> i]>>
                     [] t.kind = "G" -> <<>>     \* G = g(): creates the generator object, runs nothing
                     [] t.kind = "C" -> <<[s |-> "base", i |-> i]>>
                                        \o [l \in 1..Len(t.links) |-> [s |-> "link", i |-> i, l |-> l]]
       IN mine \o StmtsFrom(s, i + 1)

Stmts(s, ph) == IF ph = 1 THEN StmtsFrom(s, 1) ELSE [j \in 1..Len(s.late) |-> [s |-> "late", j |-> j]]

LateIdx == 9      \* task index used for labels / numbers of script 2

HandlerOf(spec, l, i, j, x, noarg) == IF spec.o = "none" THEN U ELSE FnUser(l, spec, i, j, x, noarg)

SettleStep(h, step, i, j) ==   \* res / rej of a shared promise (rf id of S_s is s)
  IF step.op = "res" THEN Let(EvalOp(h, step.x, i, j, 0), LAMBDA e : ResolveFn(e.h, step.s, e.v))
  ELSE RejectFn(h, step.s, N(SiteN(i, j, 0)))

-----------------------------------------------------------------------------
InitWith(s) ==
  /\ scn = s
  /\ promises = [k \in 1..s.ns |-> NewPromiseRec]
  /\ caps = [k \in 1..s.ns |-> [promise |-> k, done |-> FALSE]]
  /\ settles = [k \in 1..s.ns |-> 0]
  /\ queue = <<>>
  /\ tasks = [k \in 1..Len(s.tasks) |-> [st |-> IF s.tasks[k].kind = "G" THEN "suspended" ELSE "new", pc |-> 0,
                                          rf |-> 0, resume |-> [k |-> "none"], wait |-> "start", sub |-> 0, tmp |-> 0,
                                          recv |-> [k |-> "none"], retm |-> FALSE]]
  /\ gens = [k \in 1..Len(s.tasks) |-> [st |-> "start", q |-> <<>>]]
  /\ tp = [k \in 1..Len(s.tasks) |-> 0]
  /\ out = <<>>
  /\ ctl = <<[k |-> "main", ph |-> 1, pc |-> 1]>>
  /\ phase = "script1"
  /\ act = 1
  /\ nextJob = 1
  /\ ran = 0
  /\ combs = <<>>

Init == \E s \in Scenarios : InitWith(s)

Top == ctl[Len(ctl)]
Pop == SubSeq(ctl, 1, Len(ctl) - 1)

\* one statement of the running script
ScriptStep ==
  /\ ctl # <<>> /\ Top.k = "main"
  /\ \E f \in {Top} : \E ss \in {Stmts(scn, f.ph)} : \E H \in {Heap} :
       IF f.pc > Len(ss)
       THEN /\ ctl' = <<>>
            /\ phase' = IF f.ph = 1 THEN "jobs1" ELSE "jobs2"
            /\ out' = Append(out, [e |-> "phase", p |-> IF f.ph = 1 THEN "jobs1" ELSE "jobs2"])
            /\ UNCHANGED <<scn, promises, caps, queue, tasks, tp, act, nextJob, ran, settles, combs, gens>>
       ELSE /\ UNCHANGED <<scn, phase, act, ran>>
            /\ \E st \in {ss[f.pc]} : \E adv \in {[ctl EXCEPT ![Len(ctl)].pc = @ + 1]} :
                 CASE st.s = "call" ->
                        \* AsyncFunctionStart: NewPromiseCapability, then run the body synchronously
                        \E c \in {NewCapability(H)} :
                           /\ \E h2 \in {[c.h EXCEPT !.tp[st.i] = c.p]} : SetHeap(h2)
                           /\ tasks' = [tasks EXCEPT ![st.i] = [@ EXCEPT !.st = "running", !.rf = c.rf]]
                           /\ ctl' = Append(adv, [k |-> "task", id |-> st.i])
                   [] st.s = "comb" ->
                        \E r \in {Combinator(H, scn.tasks[st.i].comb, scn.tasks[st.i].xs, st.i)} :
                        \E h2 \in {[r.h EXCEPT !.tp[st.i] = r.p]} :
                           SetHeap(h2) /\ ctl' = adv /\ UNCHANGED tasks
                   [] st.s = "obs" ->
                        \E r \in {InvokeThen(H, P(tp[st.i]),
                                             FnUser(Lab("ok", st.i, 0), [o |-> "u", s |-> 0], st.i, 0, 8, FALSE),
                                             FnUser(Lab("err", st.i, 0), [o |-> "u", s |-> 0], st.i, 0, 9, FALSE))} :
                           \E h2 \in {r.h} : SetHeap(h2) /\ ctl' = adv /\ UNCHANGED tasks
                   [] st.s = "base" ->
                        \* T = Promise.resolve(BASE)
                        \E e \in {EvalOp(H, scn.tasks[st.i].base, st.i, 0, 0)} :
                        \E r \in {PromiseResolveOp(e.h, e.v)} :
                        \E h2 \in {[r.h EXCEPT !.tp[st.i] = r.v.id]} :
                           SetHeap(h2) /\ ctl' = adv /\ UNCHANGED tasks
                   [] st.s = "link" ->
                        \E lk \in {scn.tasks[st.i].links[st.l]} : \E cur \in {P(tp[st.i])} :
                        \E hf \in {HandlerOf(lk.f, Lab("f", st.i, st.l), st.i, st.l, 1, FALSE)} :
                        \E hr \in {HandlerOf(lk.r, Lab("r", st.i, st.l), st.i, st.l, 2, FALSE)} :
                        \E hn \in {HandlerOf(lk.f, Lab("n", st.i, st.l), st.i, st.l, 3, TRUE)} :
                        \E r \in {CASE lk.lk = "then"    -> InvokeThen(H, cur, hf, hr)
                                    [] lk.lk = "catch"   -> InvokeThen(H, cur, U, hr)
                                    [] lk.lk = "finally" -> InvokeThen(H, cur, FnThenFinally(hn), FnCatchFinally(hn))} :
                        \E h2 \in {[r.h EXCEPT !.tp[st.i] = r.c.v.id]} :
                           SetHeap(h2) /\ ctl' = adv /\ UNCHANGED tasks
                   [] st.s = "late" ->
                        \E h2 \in {SettleStep(H, scn.late[st.j], LateIdx, st.j)} :
                           SetHeap(h2) /\ ctl' = adv /\ UNCHANGED tasks

\* Await(v) performed by the body of task i: PromiseResolve, PerformPromiseThen, suspend
AwaitIn(h, i, v) ==
  Let(PromiseResolveOp(h, v), LAMBDA r : PerformThen(r.h, r.v.id, FnAwaitF(i), FnAwaitR(i), 0))

Suspend(i, w) == tasks' = [tasks EXCEPT ![i] = [@ EXCEPT !.st = "suspended", !.wait = w, !.resume = [k |-> "none"]]]
Goto(i, pc2)  == tasks' = [tasks EXCEPT ![i] = [@ EXCEPT !.pc = pc2, !.resume = [k |-> "none"], !.wait = "none", !.sub = 0,
                                                       !.recv = [k |-> "none"], !.retm = FALSE]]

\* one step of the running async function body (task kind "A")
ATaskStep(i, t, body, H) ==
  LET finish(h) == /\ SetHeap(h) /\ ctl' = Pop
                   /\ tasks' = [tasks EXCEPT ![i] = [@ EXCEPT !.st = "done", !.resume = [k |-> "none"]]]
  IN CASE t.resume.k = "throw" /\ body.steps[t.pc].op = "awc" ->
            \* Await resumed with a throw completion inside try / catch: the handler prints
            /\ \E h2 \in {PrintArg(H, Lab("ca", i, t.pc), t.resume.v)} : SetHeap(h2)
            /\ ctl' = ctl /\ Goto(i, t.pc + 1)
       [] t.resume.k = "throw" /\ body.steps[t.pc].op # "awc" ->
            \* Await resumed with a throw completion; no try/catch around it: AsyncBlockStart
            \* step 3.g: Call(promiseCapability.[[Reject]], undefined, << result.[[Value]] >>)
            \E h2 \in {RejectFn(H, t.rf, t.resume.v)} : finish(h2)
       [] t.resume.k = "normal" ->
            /\ \E h2 \in {PrintArg(H, Lab("aw", i, t.pc), t.resume.v)} : SetHeap(h2)
            /\ ctl' = ctl /\ Goto(i, t.pc + 1)
       [] t.resume.k = "none" /\ t.pc = 0 ->
            /\ \E h2 \in {PrintNoArg(H, Lab("go", i, 0))} : SetHeap(h2)
            /\ ctl' = ctl /\ Goto(i, 1)
       [] t.resume.k = "none" /\ t.pc > 0 /\ t.pc <= Len(body.steps) ->
            \E step \in {body.steps[t.pc]} :
              (CASE step.op \in {"aw", "awc"} ->
                      \* Await(v): promise = PromiseResolve(%Promise%, v); PerformPromiseThen(promise,
                      \* onFulfilled, onRejected); suspend
                      \E e \in {EvalOp(H, step.x, i, t.pc, 0)} :
                      \E h2 \in {AwaitIn(e.h, i, e.v)} :
                         SetHeap(h2) /\ Suspend(i, "await") /\ ctl' = Pop
                 [] step.op \in {"res", "rej"} ->
                      /\ \E h2 \in {SettleStep(H, step, i, t.pc)} : SetHeap(h2)
                      /\ Goto(i, t.pc + 1) /\ ctl' = ctl
                 [] step.op \in {"gq", "awq"} /\ t.sub = 0 ->
                      \* G.next(n) / G.return(n) / G.throw(n): the request, and (AsyncGeneratorResume) the
                      \* generator body runs on top of this activation until it suspends
                      \E r \in {GenRequest(H, step.s, step.g, N(SiteN(i, t.pc, 1)))} :
                         IF r.resume.k = "none"
                         THEN /\ SetHeap(r.h) /\ ctl' = ctl
                              /\ tasks' = [tasks EXCEPT ![i] = [@ EXCEPT !.sub = 1, !.tmp = r.p]]
                         ELSE /\ \E h2 \in {[r.h EXCEPT !.gn[step.s].st = "executing"]} : SetHeap(h2)
                              /\ ctl' = Append(ctl, [k |-> "task", id |-> step.s])
                              /\ Assert(tasks[step.s].st = "suspended", "resumed a generator that is not suspended")
                              /\ tasks' = [tasks EXCEPT ![i] = [@ EXCEPT !.sub = 1, !.tmp = r.p],
                                                        ![step.s] = [@ EXCEPT !.st = "running", !.resume = r.resume]]
                 [] step.op = "gq" /\ t.sub = 1 ->
                      \E r \in {InvokeThen(H, P(t.tmp),
                                           FnUser(Lab("gq", i, t.pc), [o |-> "u", s |-> 0], i, t.pc, 8, FALSE),
                                           FnUser(Lab("ge", i, t.pc), [o |-> "u", s |-> 0], i, t.pc, 9, FALSE))} :
                         SetHeap(r.h) /\ Goto(i, t.pc + 1) /\ ctl' = ctl
                 [] step.op = "awq" /\ t.sub = 1 ->
                      \E h2 \in {AwaitIn(H, i, P(t.tmp))} :
                         /\ SetHeap(h2) /\ ctl' = Pop
                         /\ tasks' = [tasks EXCEPT ![i] = [@ EXCEPT !.st = "suspended", !.wait = "await", !.sub = 0]])
       [] t.resume.k = "none" /\ t.pc > Len(body.steps) ->
            \* AsyncBlockStart 3.e-g: resolve / reject the function's capability
            IF body.ret.o = "throw"
            THEN \E h2 \in {RejectFn(H, t.rf, N(SiteN(i, 9, 0)))} : finish(h2)
            ELSE \E e \in {EvalOp(H, body.ret, i, 9, 0)} :
                 \E h2 \in {ResolveFn(e.h, t.rf, e.v)} : finish(h2)

\* one step of the running async generator body (task kind "G"); t.wait says where the body is:
\*   "start" not started, "none" running, "await" at an await step, "yieldAwait" at the Await of
\*   `yield X`, "yielded" at AsyncGeneratorYield, "retAwait" at the Await of `return X`,
\*   "resumeRetAwait" at the Await of AsyncGeneratorUnwrapYieldResumption for a return completion;
\*   inside `yield* G_s` (15.5.5): t.recv = the `received` completion to forward to the inner generator
\*   (t.sub = 0: call its next / throw / return now, t.sub = 1: the call returned, Await its promise),
\*   "ysAwait" at that Await, "ysYielded" at AsyncGeneratorYield(IteratorValue(innerResult)),
\*   "ysRetAwait" at the Await of UnwrapYieldResumption; t.retm = the forwarded completion was a return
GTaskStep(i, t, body, H) ==
  LET \* AsyncGeneratorStart 4.e-k: the body completed: draining-queue, CompleteStep(done = true), DrainQueue
      ending(h, c) == \E h1 \in {[h EXCEPT !.gn[i].st = "draining"]} :
                      \E h2 \in {GenCompleteStep(h1, i, c, TRUE)} :
                      \E h3 \in {GenDrainQueue(h2, i)} :
                         /\ SetHeap(h3) /\ ctl' = Pop
                         /\ tasks' = [tasks EXCEPT ![i] = [@ EXCEPT !.st = "done", !.resume = [k |-> "none"], !.wait = "none"]]
      awaiting(h, v, w) == \E h2 \in {AwaitIn(h, i, v)} : SetHeap(h2) /\ Suspend(i, w) /\ ctl' = Pop
  IN CASE t.wait = "start" ->
            \* first next(): the body starts (the value sent by the first next is ignored)
            /\ \E h2 \in {PrintNoArg(H, Lab("gg", i, 0))} : SetHeap(h2)
            /\ ctl' = ctl /\ Goto(i, 1)
       [] t.wait = "await" /\ t.resume.k = "normal" ->
            /\ \E h2 \in {PrintArg(H, Lab("aw", i, t.pc), t.resume.v)} : SetHeap(h2)
            /\ ctl' = ctl /\ Goto(i, t.pc + 1)
       [] t.wait = "await" /\ t.resume.k = "throw" ->
            IF body.steps[t.pc].op = "awc"
            THEN /\ \E h2 \in {PrintArg(H, Lab("ca", i, t.pc), t.resume.v)} : SetHeap(h2)
                 /\ ctl' = ctl /\ Goto(i, t.pc + 1)
            ELSE ending(H, Throw(t.resume.v))
       [] t.wait = "yieldAwait" /\ t.resume.k = "throw" -> ending(H, Throw(t.resume.v))
       [] t.wait = "yieldAwait" /\ t.resume.k = "normal" ->
            \* AsyncGeneratorYield(value): CompleteStep(done = false); if another request is queued
            \* execution continues with it without suspending, else suspended-yield
            \E h1 \in {GenCompleteStep(H, i, Normal(t.resume.v), FALSE)} :
               IF h1.gn[i].q # <<>>
               THEN /\ SetHeap(h1) /\ ctl' = ctl
                    /\ tasks' = [tasks EXCEPT ![i] = [@ EXCEPT !.wait = "yielded",
                                   !.resume = [k |-> Head(h1.gn[i].q).k, v |-> Head(h1.gn[i].q).v]]]
               ELSE /\ \E h2 \in {[h1 EXCEPT !.gn[i].st = "yield"]} : SetHeap(h2)
                    /\ Suspend(i, "yielded") /\ ctl' = Pop
       [] t.wait = "yielded" /\ t.resume.k = "normal" ->
            \* AsyncGeneratorUnwrapYieldResumption: the value of the yield expression
            /\ \E h2 \in {PrintArg(H, Lab("yi", i, t.pc), t.resume.v)} : SetHeap(h2)
            /\ ctl' = ctl /\ Goto(i, t.pc + 1)
       [] t.wait = "yielded" /\ t.resume.k = "throw" -> ending(H, Throw(t.resume.v))
       [] t.wait = "yielded" /\ t.resume.k = "return" -> awaiting(H, t.resume.v, "resumeRetAwait")
       [] t.wait \in {"resumeRetAwait", "retAwait"} ->
            ending(H, IF t.resume.k = "throw" THEN Throw(t.resume.v) ELSE Normal(t.resume.v))
       [] t.wait = "ys" /\ t.sub = 0 ->
            \* Call(next | throw | return, iterator, << received.[[Value]] >>): a request at the inner generator,
            \* whose body (AsyncGeneratorResume) runs on top of this one until it suspends
            \E j \in {body.steps[t.pc].s} :
            \E r \in {GenRequest(H, j, CASE t.recv.k = "normal" -> "next" [] t.recv.k = "throw" -> "throw"
                                            [] t.recv.k = "return" -> "return", t.recv.v)} :
               IF r.resume.k = "none"
               THEN /\ SetHeap(r.h) /\ ctl' = ctl
                    /\ tasks' = [tasks EXCEPT ![i] = [@ EXCEPT !.sub = 1, !.tmp = r.p, !.retm = (t.recv.k = "return")]]
               ELSE /\ \E h2 \in {[r.h EXCEPT !.gn[j].st = "executing"]} : SetHeap(h2)
                    /\ ctl' = Append(ctl, [k |-> "task", id |-> j])
                    /\ Assert(tasks[j].st = "suspended", "resumed a generator that is not suspended")
                    /\ tasks' = [tasks EXCEPT ![i] = [@ EXCEPT !.sub = 1, !.tmp = r.p, !.retm = (t.recv.k = "return")],
                                              ![j] = [@ EXCEPT !.st = "running", !.resume = r.resume]]
       [] t.wait = "ys" /\ t.sub = 1 ->
            \* innerResult = ? Await(innerResult)
            \E h2 \in {AwaitIn(H, i, P(t.tmp))} :
               /\ SetHeap(h2) /\ ctl' = Pop
               /\ tasks' = [tasks EXCEPT ![i] = [@ EXCEPT !.st = "suspended", !.wait = "ysAwait", !.sub = 0]]
       [] t.wait = "ysAwait" /\ t.resume.k = "throw" -> ending(H, Throw(t.resume.v))
       [] t.wait = "ysAwait" /\ t.resume.k = "normal" ->
            \E res \in {t.resume.v} :     \* an iterator result object
               IF res.done
               THEN IF t.retm
                    THEN IF "ysReturnAwait" \in Quirks THEN awaiting(H, res.v, "retAwait")
                         ELSE ending(H, Normal(res.v))             \* Return ReturnCompletion(value)
                    ELSE /\ \E h2 \in {PrintArg(H, Lab("ys", i, t.pc), res.v)} : SetHeap(h2)
                         /\ ctl' = ctl /\ Goto(i, t.pc + 1)
               ELSE \* received = Completion(AsyncGeneratorYield(? IteratorValue(innerResult)))
                    \E h1 \in {GenCompleteStep(H, i, Normal(res.v), FALSE)} :
                       IF h1.gn[i].q # <<>>
                       THEN /\ SetHeap(h1) /\ ctl' = ctl
                            /\ tasks' = [tasks EXCEPT ![i] = [@ EXCEPT !.wait = "ysYielded",
                                           !.resume = [k |-> Head(h1.gn[i].q).k, v |-> Head(h1.gn[i].q).v]]]
                       ELSE /\ \E h2 \in {[h1 EXCEPT !.gn[i].st = "yield"]} : SetHeap(h2)
                            /\ Suspend(i, "ysYielded") /\ ctl' = Pop
       [] t.wait = "ysYielded" /\ t.resume.k \in {"normal", "throw"} ->
            \* AsyncGeneratorUnwrapYieldResumption passes normal and throw completions through
            /\ UNCHANGED <<promises, caps, queue, out, nextJob, settles, tp, combs, gens>> /\ ctl' = ctl
            /\ tasks' = [tasks EXCEPT ![i] = [@ EXCEPT !.wait = "ys", !.sub = 0, !.recv = t.resume, !.resume = [k |-> "none"]]]
       [] t.wait = "ysYielded" /\ t.resume.k = "return" -> awaiting(H, t.resume.v, "ysRetAwait")
       [] t.wait = "ysRetAwait" ->
            /\ UNCHANGED <<promises, caps, queue, out, nextJob, settles, tp, combs, gens>> /\ ctl' = ctl
            /\ tasks' = [tasks EXCEPT ![i] = [@ EXCEPT !.wait = "ys", !.sub = 0, !.resume = [k |-> "none"],
                           !.recv = IF t.resume.k = "throw" THEN Throw(t.resume.v) ELSE Ret(t.resume.v)]]
       [] t.wait = "none" /\ t.pc <= Len(body.steps) ->
            \E step \in {body.steps[t.pc]} :
              (CASE step.op = "ys" ->
                      \* yield* G_s: GetIterator(value, async) is the generator object itself;
                      \* received = NormalCompletion(undefined)
                      /\ UNCHANGED <<promises, caps, queue, out, nextJob, settles, tp, combs, gens>> /\ ctl' = ctl
                      /\ tasks' = [tasks EXCEPT ![i] = [@ EXCEPT !.wait = "ys", !.sub = 0, !.recv = Normal(U)]]
                 [] step.op = "yi" ->
                      \* Yield in an async generator: AsyncGeneratorYield(? Await(value))
                      \E e \in {EvalOp(H, step.x, i, t.pc, 0)} : awaiting(e.h, e.v, "yieldAwait")
                 [] step.op \in {"aw", "awc"} ->
                      \E e \in {EvalOp(H, step.x, i, t.pc, 0)} : awaiting(e.h, e.v, "await")
                 [] step.op \in {"res", "rej"} ->
                      /\ \E h2 \in {SettleStep(H, step, i, t.pc)} : SetHeap(h2)
                      /\ Goto(i, t.pc + 1) /\ ctl' = ctl)
       [] t.wait = "none" /\ t.pc > Len(body.steps) ->
            \* return X in an async generator awaits X; throw ends the body
            IF body.ret.o = "throw" THEN ending(H, Throw(N(SiteN(i, 9, 0))))
            ELSE \E e \in {EvalOp(H, body.ret, i, 9, 0)} : awaiting(e.h, e.v, "retAwait")

TaskStep ==
  /\ ctl # <<>> /\ Top.k = "task"
  /\ UNCHANGED <<scn, phase, act, ran>>
  /\ \E i \in {Top.id} : \E t \in {tasks[Top.id]} : \E body \in {scn.tasks[Top.id]} : \E H \in {Heap} :
       /\ Assert(t.st = "running", "a suspended or finished task is running")
       /\ IF body.kind = "G" THEN GTaskStep(i, t, body, H) ELSE ATaskStep(i, t, body, H)

\* the job at the head of the queue runs (only when no synchronous code is running)
RunJob ==
  /\ ctl = <<>> /\ phase \in {"jobs1", "jobs2"} /\ queue # <<>>
  /\ UNCHANGED <<scn, phase>>
  /\ act' = act + 1
  /\ ran' = ran + 1
  /\ \E j \in {Head(queue)} :
     \E h0 \in {[Heap EXCEPT !.q = Tail(@), !.act = act + 1,
                             !.o = Append(@, [e |-> "run", id |-> j.id, act |-> act + 1])]} :
        IF j.kind = "reaction" THEN
          IF j.handler.t = "f" /\ j.handler.f \in {"awaitF", "awaitR"} THEN
            \* await continuation: resume the suspended async function with the settled value
            \E i \in {j.handler.task} :
               /\ Assert(tasks[i].st = "suspended", "resumed a task that is not suspended")
               /\ SetHeap(h0)
               /\ tasks' = [tasks EXCEPT ![i] = [@ EXCEPT !.st = "running",
                              !.resume = IF j.handler.f = "awaitF" THEN Normal(j.arg) ELSE Throw(j.arg)]]
               /\ ctl' = <<[k |-> "task", id |-> i]>>
          ELSE
            \E r \in {IF j.handler.t = "u"
                      THEN [h |-> h0, c |-> IF j.type = "Fulfill" THEN Normal(j.arg) ELSE Throw(j.arg)]
                      ELSE CallFn(h0, j.handler, U, <<j.arg>>)} :
            \E h1 \in {IF j.cap = 0 THEN r.h
                       ELSE IF r.c.k = "normal" THEN ResolveFn(r.h, j.cap, r.c.v)
                       ELSE RejectFn(r.h, j.cap, r.c.v)} :
               SetHeap(h1) /\ UNCHANGED <<tasks, ctl>>
        ELSE
          \* NewPromiseResolveThenableJob: fresh resolving functions, then.call(thenable, res, rej)
          \E nr \in {NewResolvingFunctions(h0, j.p)} :
          \E r \in {CallFn(nr.h, j.thenFn, j.thenable, <<FnResolve(nr.rf), FnReject(nr.rf)>>)} :
          \E h1 \in {IF r.c.k = "throw" THEN RejectFn(r.h, nr.rf, r.c.v) ELSE r.h} :
             SetHeap(h1) /\ UNCHANGED <<tasks, ctl>>

\* the queue is empty: run_jobs returns; the host evaluates script 2 (if any)
Quiesce ==
  /\ ctl = <<>> /\ phase \in {"jobs1", "jobs2"} /\ queue = <<>>
  /\ IF phase = "jobs1" /\ scn.late # <<>>
     THEN /\ phase' = "script2" /\ act' = act + 1
          /\ ctl' = <<[k |-> "main", ph |-> 2, pc |-> 1]>>
          /\ out' = Append(out, [e |-> "phase", p |-> "script2"])
     ELSE /\ phase' = "done" /\ act' = act /\ ctl' = ctl
          /\ out' = Append(out, [e |-> "phase", p |-> "done"])
  /\ UNCHANGED <<scn, promises, caps, queue, tasks, tp, nextJob, ran, settles, combs, gens>>

Next == ScriptStep \/ TaskStep \/ RunJob \/ Quiesce

Spec == Init /\ [][Next]_vars

Done == phase = "done"

-----------------------------------------------------------------------------
\* Invariants

\* The observation stream is append-only, so a prefix-closed condition on it holds in every state
\* of a behaviour iff it holds in the final state; such conditions are evaluated there (Done => ...),
\* the conditions that relate the stream to the current queue in every state.
Events(kind) == SelectSeq(out, LAMBDA ev : ev.e = kind)
Ids(evs) == [k \in 1..Len(evs) |-> evs[k].id]
Pos(kind, id) == CHOOSE k \in 1..Len(out) : out[k].e = kind /\ out[k].id = id

\* jobs run in the order of the HostEnqueuePromiseJob calls; what has not run yet is the queue
JobsFifo ==
  /\ \A k \in 1..Len(queue) : queue[k].id = ran + k
  /\ nextJob = ran + Len(queue) + 1
  /\ Done => \A enq \in {Ids(Events("enq"))} : \A run \in {Ids(Events("run"))} :
               /\ enq = [k \in 1..(nextJob - 1) |-> k]
               /\ run = enq

\* no job runs twice; at the end every enqueued job has run
EachJobOnce ==
  /\ ran < nextJob
  /\ Done => \A run \in {Ids(Events("run"))} :
               /\ \A a, b \in 1..Len(run) : a # b => run[a] # run[b]
               /\ queue = <<>> /\ Len(run) = nextJob - 1 /\ ran = nextJob - 1

\* a job runs in a later activity than the synchronous code that enqueued it (and later in the
\* stream), and only when no other synchronous code is on the control stack (run-to-completion)
JobAfterSyncCode ==
  /\ phase \in {"jobs1", "jobs2"} =>
        \* only the activation resumed by the running job, plus a generator body it resumed, plus
        \* the generator that one delegates to
        (Len(ctl) <= 3 /\ \A k \in 1..Len(ctl) : ctl[k].k = "task")
  /\ phase \in {"script1", "script2"} =>
        (ctl # <<>> /\ ctl[1].k = "main" /\ Len(ctl) <= 4 /\ \A k \in 2..Len(ctl) : ctl[k].k = "task")
  /\ Done => \A enq \in {Events("enq")} : \A run \in {Events("run")} :
               \A a \in 1..Len(run) :
                  /\ enq[run[a].id].id = run[a].id
                  /\ enq[run[a].id].act < run[a].act
                  /\ Pos("enq", run[a].id) < Pos("run", run[a].id)

\* a promise is settled at most once; settled promises keep no reactions; pending ones no result
SettleOnce ==
  \A p \in 1..Len(promises) :
     /\ settles[p] <= 1
     /\ (promises[p].state = "pending") = (settles[p] = 0)
     /\ promises[p].state = "pending" => promises[p].result = U
     /\ promises[p].state # "pending" => (promises[p].fr = <<>> /\ promises[p].rr = <<>>)
     /\ Len(promises[p].fr) = Len(promises[p].rr)

\* a reaction job exists only for a settled promise, with the matching type and argument
ReactionAfterSettle ==
  \A k \in 1..Len(queue) :
     queue[k].kind = "reaction" =>
        /\ promises[queue[k].src].state = (IF queue[k].type = "Fulfill" THEN "fulfilled" ELSE "rejected")
        /\ promises[queue[k].src].result = queue[k].arg

\* an async function is suspended iff exactly one await continuation pair for it is pending
\* (as reactions of a pending promise, or as one reaction job in the queue)
PendingAwaits(i) ==
  LET inReactions == UNION {{<<p, k>> : k \in {kk \in 1..Len(promises[p].fr) : promises[p].fr[kk].handler = FnAwaitF(i)}} :
                               p \in 1..Len(promises)}
      inQueue == {k \in 1..Len(queue) : queue[k].kind = "reaction"
                                        /\ queue[k].handler \in {FnAwaitF(i), FnAwaitR(i)}}
  IN Cardinality(inReactions) + Cardinality(inQueue)

AwaitResumesOnce ==
  \A i \in 1..Len(tasks) :
     /\ scn.tasks[i].kind = "A" => (PendingAwaits(i) = IF tasks[i].st = "suspended" THEN 1 ELSE 0)
     /\ scn.tasks[i].kind = "G" =>
           (PendingAwaits(i) = IF tasks[i].st = "suspended"
                                  /\ tasks[i].wait \in {"await", "yieldAwait", "retAwait", "resumeRetAwait", "ysAwait", "ysRetAwait"}
                               THEN 1 ELSE 0)

\* async generator objects: the state says who may touch the request queue
GeneratorsOK ==
  \A i \in {k \in 1..Len(gens) : scn.tasks[k].kind = "G"} :
     /\ gens[i].st = "completed" => gens[i].q = <<>>
     /\ gens[i].st = "yield" => (gens[i].q = <<>> /\ tasks[i].st = "suspended" /\ tasks[i].wait \in {"yielded", "ysYielded"})
     /\ gens[i].st = "executing" => (gens[i].q # <<>> /\ tasks[i].st \in {"running", "suspended"})
     /\ gens[i].st = "draining" => gens[i].q # <<>>
     /\ gens[i].st = "start" => (gens[i].q = <<>> /\ tasks[i].wait = "start")

StructureOK ==
  /\ Len(settles) = Len(promises)
  /\ \A r \in 1..Len(caps) : caps[r].promise \in 1..Len(promises)
  /\ phase = "done" => ctl = <<>>
  /\ Done => nextJob = Len(Events("enq")) + 1

\* action property: a settled promise never changes state or result again
SettledIsStable ==
  [][\A p \in 1..Len(promises) :
        promises[p].state # "pending" =>
           (promises'[p].state = promises[p].state /\ promises'[p].result = promises[p].result)]_vars

=============================================================================
