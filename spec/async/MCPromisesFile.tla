---- MODULE MCPromisesFile ----
EXTENDS MCPromises
MCInit == InitOver(FileScenarios(0))
====
