CONSTANTS
  MaxN = 2
  MaxH = 1
  MaxE = 1
  MaxP = 1
  MaxM = 1
  AllowArm = FALSE
  Patched = TRUE
SPECIFICATION Spec
VIEW FullView
INVARIANT TypeOK
INVARIANT RcExact
INVARIANT RootedIffExternal
INVARIANT NoLiveFreed
INVARIANT FreedExactlyUnreachable
INVARIANT NoDangling
INVARIANT FinalizeOncePerCollection
INVARIANT DropAtMostOnce
INVARIANT UpgradeIffLive
INVARIANT EphValueIffKeyLive
INVARIANT NoMarkedCleared
INVARIANT EphValueOnlyWhileKeyLive
PROPERTY RefSpec
CHECK_DEADLOCK FALSE
