CONSTANTS NObj = 3 NWr = 2 NReg = 2
INIT TraceInit
NEXT TraceNext
INVARIANTS ReachableIsAlive NoDangling CleanupOnlyForCollected
CONSTRAINT Track
POSTCONDITION AllMatched
CHECK_DEADLOCK FALSE
