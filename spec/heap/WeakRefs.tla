------------------------------ MODULE WeakRefs ------------------------------
(***************************************************************************)
(* What a script may observe of garbage collection (property C10).         *)
(*                                                                         *)
(* A script owns objects v_1..v_N (one global variable each, one field f), *)
(* WeakRef objects, and one FinalizationRegistry whose callback prints the *)
(* held value.  Collections happen whenever the engine likes (Collect is   *)
(* always enabled); the ONLY things a script can learn about them are       *)
(*   - WeakRef.prototype.deref returning undefined,                         *)
(*   - a cleanup callback being called,                                     *)
(* and the rules are ECMA-262 9.10 (liveness), 9.12 ClearKeptObjects,      *)
(* 9.13 AddToKeptObjects, 26.1 WeakRef, 26.2 FinalizationRegistry:          *)
(*   - an object the script can still reach (from a variable, through f,    *)
(*     or kept alive since the last ClearKeptObjects) is never collected;   *)
(*   - a collected set is closed: nothing that survives points into it;     *)
(*   - deref returns the target while it has not been collected, and        *)
(*     undefined for ever afterwards (all WeakRefs on one target agree);    *)
(*   - a cleanup callback runs only for a registration whose target was     *)
(*     collected, that was not unregistered before, at most once.           *)
(* One action = one entry of the host into the engine (one evaluated        *)
(* statement, a forced collection, Context::clear_kept_objects, or          *)
(* Context::run_jobs followed by it).                                        *)
(***************************************************************************)
EXTENDS Naturals, FiniteSets, Sequences

CONSTANTS NObj, NWr, NReg

Obj == 1 .. NObj
Wr  == 1 .. NWr
Reg == 1 .. NReg

VARIABLES
  made,    \* objects created so far
  alive,   \* created and not collected
  var,     \* var[o]: the global variable v_o still refers to o
  fld,     \* fld[o]: the object o.f refers to, 0 for null
  wr,      \* wr[w]: target of WeakRef w, 0 while w does not exist
  reg,     \* reg[r]: registration r of the registry
  kept,    \* the agent's KeptAlive list
  obs      \* what the last step printed

vars == <<made, alive, var, fld, wr, reg, kept, obs>>

RegRec == [t : Obj \cup {0}, tok : Obj \cup {0}, st : {"none", "active", "unreg", "pending", "fired"}]

TypeOK ==
  /\ made \subseteq Obj /\ alive \subseteq made
  /\ var \in [Obj -> BOOLEAN]
  /\ fld \in [Obj -> Obj \cup {0}]
  /\ wr \in [Wr -> Obj \cup {0}]
  /\ reg \in [Reg -> RegRec]
  /\ kept \subseteq Obj

Init ==
  /\ made = {} /\ alive = {} /\ kept = {}
  /\ var = [o \in Obj |-> FALSE]
  /\ fld = [o \in Obj |-> 0]
  /\ wr = [w \in Wr |-> 0]
  /\ reg = [r \in Reg |-> [t |-> 0, tok |-> 0, st |-> "none"]]
  /\ obs = <<>>

(* Objects the script can still get hold of. *)
RECURSIVE Closure(_)
Closure(S) ==
  LET T == (S \cup {fld[o] : o \in S}) \ {0}
  IN IF T = S THEN S ELSE Closure(T)

Roots == {o \in Obj : var[o]} \cup kept
Reachable == Closure(Roots)

(* Sets the collector may reclaim in one collection. *)
Collectable == {C \in SUBSET (alive \ Reachable) : \A a \in alive \ C : fld[a] \notin C}

---------------------------------------------------------------------------
(* script steps *)

New(o) ==
  /\ o \notin made
  /\ made' = made \cup {o} /\ alive' = alive \cup {o}
  /\ var' = [var EXCEPT ![o] = TRUE]
  /\ fld' = [fld EXCEPT ![o] = 0]
  /\ obs' = <<>>
  /\ UNCHANGED <<wr, reg, kept>>

Link(a, b) ==          \* v_a.f = v_b
  /\ var[a] /\ var[b]
  /\ fld' = [fld EXCEPT ![a] = b]
  /\ obs' = <<>>
  /\ UNCHANGED <<made, alive, var, wr, reg, kept>>

Unlink(a) ==           \* v_a.f = null
  /\ var[a] /\ fld[a] # 0
  /\ fld' = [fld EXCEPT ![a] = 0]
  /\ obs' = <<>>
  /\ UNCHANGED <<made, alive, var, wr, reg, kept>>

Drop(o) ==             \* v_o = null
  /\ var[o]
  /\ var' = [var EXCEPT ![o] = FALSE]
  /\ obs' = <<>>
  /\ UNCHANGED <<made, alive, fld, wr, reg, kept>>

Load(o, a) ==          \* v_o = v_a.f   (o is reachable through a, so it is alive)
  /\ var[a] /\ fld[a] = o /\ ~var[o]
  /\ var' = [var EXCEPT ![o] = TRUE]
  /\ obs' = <<>>
  /\ UNCHANGED <<made, alive, fld, wr, reg, kept>>

MkWr(w, o) ==          \* w_w = new WeakRef(v_o)
  /\ wr[w] = 0 /\ var[o]
  /\ wr' = [wr EXCEPT ![w] = o]
  /\ kept' = kept \cup {o}                       \* AddToKeptObjects
  /\ obs' = <<>>
  /\ UNCHANGED <<made, alive, var, fld, reg>>

Deref(w) ==            \* print(w_w.deref())
  /\ wr[w] # 0
  /\ IF wr[w] \in alive
       THEN /\ obs' = <<"obj", wr[w]>>
            /\ kept' = kept \cup {wr[w]}         \* AddToKeptObjects
       ELSE /\ obs' = <<"undef">>
            /\ kept' = kept
  /\ UNCHANGED <<made, alive, var, fld, wr, reg>>

Register(r, o, tok) == \* fr.register(v_o, r [, v_tok])
  /\ reg[r].st = "none" /\ var[o] /\ (IF tok = 0 THEN TRUE ELSE var[tok])
  /\ reg' = [reg EXCEPT ![r] = [t |-> o, tok |-> tok, st |-> "active"]]
  /\ obs' = <<>>
  /\ UNCHANGED <<made, alive, var, fld, wr, kept>>

Unregister(tok) ==     \* print(fr.unregister(v_tok))
  /\ var[tok]
  /\ LET hit == {r \in Reg : reg[r].st \in {"active", "pending"} /\ reg[r].tok = tok}
     IN /\ reg' = [r \in Reg |-> IF r \in hit THEN [reg[r] EXCEPT !.st = "unreg"] ELSE reg[r]]
        /\ obs' = <<"removed", hit # {}>>
  /\ UNCHANGED <<made, alive, var, fld, wr, kept>>

---------------------------------------------------------------------------
(* engine steps *)

Collect(C) ==
  /\ C \in Collectable
  /\ alive' = alive \ C
  /\ reg' = [r \in Reg |-> IF reg[r].st = "active" /\ reg[r].t \in C
                             THEN [reg[r] EXCEPT !.st = "pending"] ELSE reg[r]]
  /\ UNCHANGED <<made, var, fld, wr, kept, obs>>

(* Context::clear_kept_objects, the host's ClearKeptObjects between two entries *)
ClearKept ==
  /\ kept' = {}
  /\ obs' = <<>>
  /\ UNCHANGED <<made, alive, var, fld, wr, reg>>

(* Context::run_jobs: cleanup callbacks of any of the pending registrations, then ClearKeptObjects. *)
Jobs(F) ==
  /\ F \subseteq {r \in Reg : reg[r].st = "pending"}
  /\ reg' = [r \in Reg |-> IF r \in F THEN [reg[r] EXCEPT !.st = "fired"] ELSE reg[r]]
  /\ kept' = {}
  /\ obs' = <<"fin", F>>
  /\ UNCHANGED <<made, alive, var, fld, wr>>

ScriptStep ==
  \/ \E o \in Obj : New(o) \/ Drop(o) \/ Unlink(o) \/ Unregister(o)
  \/ \E a, b \in Obj : Link(a, b) \/ Load(a, b)
  \/ \E w \in Wr : Deref(w) \/ \E o \in Obj : MkWr(w, o)
  \/ \E r \in Reg, o \in Obj, t \in Obj \cup {0} : Register(r, o, t)

Next ==
  \/ ScriptStep
  \/ \E C \in Collectable : C # {} /\ Collect(C)
  \/ \E F \in SUBSET Reg : Jobs(F)
  \/ ClearKept

Spec == Init /\ [][Next]_vars

---------------------------------------------------------------------------
(* what C10 promises, as properties of the specification itself *)

(* nothing reachable is ever collected *)
ReachableIsAlive == Reachable \subseteq alive

(* no survivor points at a collected object *)
NoDangling == \A a \in alive : fld[a] = 0 \/ fld[a] \in alive

(* a callback can only be pending or have fired for a collected target *)
CleanupOnlyForCollected ==
  \A r \in Reg : reg[r].st \in {"pending", "fired"} => reg[r].t \notin alive

(* collection is irreversible, a registration fires at most once, unregistered ones never fire *)
Irreversible ==
  [][ /\ (made \ alive) \subseteq (made' \ alive')
      /\ \A r \in Reg : /\ reg[r].st = "fired" => reg'[r].st = "fired"
                        /\ reg[r].st = "unreg" => reg'[r].st = "unreg" ]_vars

=============================================================================
