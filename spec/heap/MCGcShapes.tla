----------------------------- MODULE MCGcShapes -----------------------------
(* Reference outcome (GcSpec!Collect) of one collection on every shape of a family: SHAPE lines. *)
EXTENDS GcSpec, GcShapes, Json

VARIABLES shape, stage
svars == <<vars, shape, stage>>

SInit ==
  \E f \in Families : \E r \in RootSetsOf(f), e \in EdgeSetsOf(f), w \in RowSeqsOf(f), m \in MapsOf(f) :
     LET s == Shape(f, r, e, w, m)
         a == AbsOf(s)
     IN /\ shape = s /\ stage = 0
        /\ nalloc = a.nalloc /\ nodes = a.nodes /\ H = a.H /\ E = a.E /\ armed = a.armed
        /\ P = a.P /\ M = a.M /\ obs = [op |-> "init"]
SNext == stage = 0 /\ Collect /\ stage' = 1 /\ UNCHANGED shape
SSpec == SInit /\ [][SNext]_svars

Emit == stage = 1 => PrintT(<<"SHAPE", ToJson([shape |-> shape, out |-> obs, ok |-> [x \in DOMAIN P |-> P[x].ok]])>>)
=============================================================================
