---------------------------- MODULE MCGcImplFull ----------------------------
(* GcImpl without a bound on the number of operations: the whole reachable graph for the given bounds on
   nodes / handles / edge multiplicity / weak rows / maps.  Used with -coverage 1 (per-action counts). *)
EXTENDS GcImpl
RefSpec == Ref!Spec
=============================================================================
