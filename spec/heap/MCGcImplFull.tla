---------------------------- MODULE MCGcImplFull ----------------------------
(* GcImpl without a bound on the number of operations: the whole reachable graph for the given bounds on
   nodes / handles / edge multiplicity / weak rows / maps.  Used with -coverage 1 (per-action counts). *)
EXTENDS GcImpl
RefSpec == Ref!Spec
\* the last observation is not read by any action: it need not distinguish states
SnapView == IF "obs" \in DOMAIN snap THEN [snap EXCEPT !.obs = 0] ELSE snap
FullView == <<nalloc, nodes, H, E, armed, rc, EB, MB, gc, SnapView, ist>>
\* the sanity invariants of the reference, on the abstraction of the implementation state
RefInv == Ref!TypeOK /\ Ref!NoDangling /\ Ref!WeakSound /\ Ref!EphSound /\ Ref!NestSound
=============================================================================
