CONSTANTS NObj = 3 NWr = 2 NReg = 2
INIT GenInit
NEXT GenNext
INVARIANTS Emit
CONSTRAINT Bound
CHECK_DEADLOCK FALSE
