CONSTANTS
  MaxN = 100000
  MaxH = 100000
  MaxE = 100000
  MaxP = 100000
  MaxM = 100000
  AllowArm = TRUE
SPECIFICATION DSpec
INVARIANT Emit
CHECK_DEADLOCK FALSE
