CONSTANTS
  MaxN = 2
  MaxH = 2
  MaxE = 2
  MaxP = 2
  MaxM = 1
  AllowArm = TRUE
  Patched = TRUE
  MaxOps = 6
  Mode = "gate"
SPECIFICATION MCSpec
VIEW GateView
INVARIANT TypeOK
INVARIANT RcExact
INVARIANT RootedIffExternal
INVARIANT NoLiveFreed
INVARIANT FreedExactlyUnreachable
INVARIANT NoDangling
INVARIANT FinalizeOncePerCollection
INVARIANT DropAtMostOnce
INVARIANT UpgradeIffLive
INVARIANT EphValueIffKeyLive
INVARIANT NoMarkedCleared
INVARIANT EphValueOnlyWhileKeyLive
PROPERTY RefSpec
CHECK_DEADLOCK FALSE
