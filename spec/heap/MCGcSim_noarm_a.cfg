CONSTANTS
  MaxN = 6
  MaxH = 3
  MaxE = 2
  MaxP = 8
  MaxM = 2
  AllowArm = FALSE
  Patched = TRUE
  MaxOps = 40
  GDrop = 100
  GOther = 100
  GCollect = 100
SPECIFICATION SimSpec
INVARIANT Emit
CHECK_DEADLOCK FALSE
