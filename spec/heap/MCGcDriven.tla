----------------------------- MODULE MCGcDriven -----------------------------
(***************************************************************************)
(* The reference (GcSpec) driven by a given script: the operations of      *)
(* IOEnv.SCRIPT (ndjson, one bare operation per line) are applied in order *)
(* through the actions of GcSpec; the behaviour is unique, and the REPLAY  *)
(* line carries the observation the reference prescribes for every         *)
(* operation.  Used to re-derive the expectation of a shrunk or replayed   *)
(* history from the specification itself.  A script that is not executable *)
(* (a precondition fails) ends early: the REPLAY line is then shorter than *)
(* the script.                                                             *)
(***************************************************************************)
EXTENDS GcSpec, Json, IOUtils

VARIABLES i, hist
dvars == <<vars, i, hist>>

Script == ndJsonDeserialize(IOEnv.SCRIPT)

Do(o) ==
  CASE o.op = "alloc"   -> Alloc /\ nalloc' = o.n
    [] o.op = "clone"   -> Clone(o.a)
    [] o.op = "droph"   -> DropHandle(o.a)
    [] o.op = "link"    -> Link(o.a, o.b)
    [] o.op = "unlink"  -> Unlink(o.a, o.b)
    [] o.op = "load"    -> Load(o.a, o.b)
    [] o.op = "weak"    -> MkWeak(o.a) /\ o.w = Len(P) + 1
    [] o.op = "upgrade" -> Upgrade(o.w)
    [] o.op = "dropw"   -> DropWeak(o.w)
    [] o.op = "eph"     -> MkEph(o.k, o.v, o.h, {o.ws[j] : j \in DOMAIN o.ws}) /\ o.e = Len(P) + 1
    [] o.op = "ephval"  -> EphValue(o.e)
    [] o.op = "drope"   -> DropEph(o.e)
    [] o.op = "wm"      -> MkWm(o.h) /\ o.m = Len(M) + 1
    [] o.op = "wmins"   -> WmInsert(o.m, o.k, o.v)
    [] o.op = "wmrem"   -> WmRemove(o.m, o.k)
    [] o.op = "wmget"   -> WmGet(o.m, o.k)
    [] o.op = "dropwm"  -> DropWm(o.m)
    [] o.op = "arm"     -> Arm(o.a, o.t)
    [] o.op = "collect" -> Collect

DInit == Init /\ i = 1 /\ hist = <<>>
DNext == /\ i <= Len(Script)
         /\ Do(Script[i])
         /\ i' = i + 1
         /\ hist' = Append(hist, obs')
DSpec == DInit /\ [][DNext]_dvars

Emit == (i > Len(Script) \/ ~ENABLED DNext) => PrintT(<<"REPLAY", ToJson(hist)>>)
=============================================================================
