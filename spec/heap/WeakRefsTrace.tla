--------------------------- MODULE WeakRefsTrace ---------------------------
(***************************************************************************)
(* Trace validation for WeakRefs: the observations recorded while a host   *)
(* script ran in boa (one ndjson line per host step: label, arguments and  *)
(* what the step printed) must be a behaviour of the specification.  The   *)
(* engine may collect at any time (gc stress), so a silent Collect step -  *)
(* TLC chooses the collected set - may precede every recorded step.        *)
(*   {"a":"deref","x":w,"o":0|id}   {"a":"unreg","x":o,"o":true|false}     *)
(*   {"a":"jobs","o":[held values printed by the cleanup callback]}        *)
(*   {"a":"reset"} separates executions.                                    *)
(* Accepted iff every line was matched: register 2 holds the largest       *)
(* number of lines any explored path matched (needs -workers 1).           *)
(***************************************************************************)
EXTENDS WeakRefs, Json, IOUtils, TLC

Rec == ndJsonDeserialize(IOEnv.TRACE)

VARIABLES l,   \* lines matched so far
          ph   \* 0: a silent collection may happen now; 1: the next line is due

tvars == <<vars, l, ph>>

TraceInit == Init /\ l = 0 /\ ph = 0 /\ TLCSet(2, 0)

Silent ==
  /\ ph = 0 /\ ph' = 1 /\ l' = l
  /\ \E C \in Collectable : Collect(C)

SeqToSet(s) == {s[i] : i \in 1 .. Len(s)}

Reset ==
  /\ made' = {} /\ alive' = {} /\ kept' = {}
  /\ var' = [o \in Obj |-> FALSE]
  /\ fld' = [o \in Obj |-> 0]
  /\ wr' = [w \in Wr |-> 0]
  /\ reg' = [r \in Reg |-> [t |-> 0, tok |-> 0, st |-> "none"]]
  /\ obs' = <<>>

Line ==
  /\ ph = 1 /\ ph' = 0
  /\ l < Len(Rec) /\ l' = l + 1
  /\ LET e == Rec[l + 1]
     IN \/ e.a = "new" /\ New(e.x)
        \/ e.a = "drop" /\ Drop(e.x)
        \/ e.a = "unlink" /\ Unlink(e.x)
        \/ e.a = "link" /\ Link(e.x, e.y)
        \/ e.a = "load" /\ Load(e.x, e.y)
        \/ e.a = "mkwr" /\ MkWr(e.x, e.y)
        \/ e.a = "reg" /\ Register(e.x, e.y, e.z)
        \/ e.a = "deref" /\ Deref(e.x) /\ obs' = (IF e.o = 0 THEN <<"undef">> ELSE <<"obj", e.o>>)
        \/ e.a = "unreg" /\ Unregister(e.x) /\ obs' = <<"removed", e.o>>
        \/ e.a = "jobs" /\ Len(e.o) = Cardinality(SeqToSet(e.o)) /\ SeqToSet(e.o) \subseteq Reg /\ Jobs(SeqToSet(e.o))
        \/ e.a = "clear" /\ ClearKept
        \/ e.a = "gc" /\ UNCHANGED vars          \* the forced collection is the Silent step before this line
        \/ e.a = "reset" /\ Reset

TraceNext == Silent \/ Line

Track == IF l > TLCGet(2) THEN TLCSet(2, l) ELSE TRUE

AllMatched ==
  \/ TLCGet(2) = Len(Rec)
  \/ PrintT(<<"UNMATCHED", ToJson([at |-> TLCGet(2) + 1, of |-> Len(Rec)])>>) /\ FALSE
=============================================================================
