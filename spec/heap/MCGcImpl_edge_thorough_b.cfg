CONSTANTS
  MaxN = 3
  MaxH = 1
  MaxE = 1
  MaxP = 1
  MaxM = 1
  AllowArm = TRUE
  Patched = TRUE
  MaxOps = 7
  Mode = "edge"
SPECIFICATION MCSpec
VIEW EdgeView
CHECK_DEADLOCK FALSE
