------------------------------ MODULE MCGcImpl ------------------------------
(***************************************************************************)
(* Bounded instances of GcImpl: model gate (invariants + refinement to     *)
(* GcSpec), history-exhaustive replay emission, transition-exhaustive EDGE *)
(* emission (history hidden by VIEW).  An emitted history is the sequence  *)
(* of `obs` records: operation + the observation the reference prescribes; *)
(* collect records also carry the implementation-shaped box counts.        *)
(***************************************************************************)
EXTENDS GcImpl, Json

CONSTANTS MaxOps,   \* operations per history (a collection is one operation)
          Mode      \* "gate" | "hist" | "edge"

VARIABLE hist
mcvars == <<vars, hist>>

HRec == IF obs'.op = "collect" THEN obs' @@ [eb |-> ist'[1], wmb |-> ist'[2]] ELSE obs'

MCInit == Init /\ hist = <<>>

MCNext ==
  /\ \/ Len(hist) < MaxOps /\ (Mutate \/ StartCollect)
     \/ CollectStep
  /\ hist' = IF gc'.phase = "idle" THEN Append(hist, HRec) ELSE hist
  /\ (Mode = "edge" /\ gc'.phase = "idle") => PrintT(<<"EDGE", ToJson(hist')>>)

MCSpec == MCInit /\ [][MCNext]_mcvars

\* gate / edge: the history is not part of the state identity; neither is the last observation (no action reads it)
SnapView == IF "obs" \in DOMAIN snap THEN [snap EXCEPT !.obs = 0] ELSE snap
GateView == <<nalloc, nodes, H, E, armed, rc, EB, MB, gc, SnapView, ist>>
EdgeView == <<nalloc, nodes, H, E, armed, rc, EB, MB, gc, ist>>

Emit == (Mode = "hist" /\ Len(hist) = MaxOps /\ Idle) => PrintT(<<"REPLAY", ToJson(hist)>>)

RefSpec == Ref!Spec
\* the sanity invariants of the reference, on the abstraction of the implementation state
RefInv == Ref!TypeOK /\ Ref!NoDangling /\ Ref!WeakSound /\ Ref!EphSound /\ Ref!NestSound
=============================================================================
