CONSTANTS
  MaxN = 4
  MaxH = 1
  MaxE = 1
  MaxP = 9
  MaxM = 1
  AllowArm = FALSE
  Families <- FamThorough
SPECIFICATION SSpec
INVARIANT Emit
INVARIANT TypeOK
INVARIANT NoDangling
CHECK_DEADLOCK FALSE
