CONSTANTS
  MaxN = 30
  MaxH = 3
  MaxE = 2
  MaxP = 60
  MaxM = 6
  AllowArm = TRUE
  Patched = TRUE
  MaxOps = 400
SPECIFICATION SimSpec
INVARIANT Emit
CHECK_DEADLOCK FALSE
