CONSTANTS
  MaxN = 60
  MaxH = 3
  MaxE = 2
  MaxP = 150
  MaxM = 6
  AllowArm = TRUE
  Patched = TRUE
  MaxOps = 400
  GDrop = 60
  GOther = 70
  GCollect = 50
SPECIFICATION SimSpec
INVARIANT Emit
CHECK_DEADLOCK FALSE
