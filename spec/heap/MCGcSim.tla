------------------------------ MODULE MCGcSim -------------------------------
(***************************************************************************)
(* Seeded long histories over GcImpl for `tlc -simulate`: the parameters   *)
(* of every mutator operation are drawn with RandomElement, so that a step *)
(* has a couple of dozen successors instead of |nodes|^3; TLC picks one of *)
(* them uniformly.  Handle drops and links appear several times to keep    *)
(* graphs dense and objects dying.  Emission as in MCGcImpl.                *)
(***************************************************************************)
EXTENDS GcImpl, Json

CONSTANTS MaxOps

VARIABLE hist
simvars == <<vars, hist>>

HeldSet   == {n \in nodes : H[n] > 0}
FromHeld  == {p \in DOMAIN E : H[p[1]] > 0}
Rows(kd)  == {x \in DOMAIN EB : EB[x].kind = kd /\ EB[x].rc = 1}
Maps      == {m \in DOMAIN MB : MapOK(m)}
One(S)    == {RandomElement(S)}

SimMutate ==
  \/ Alloc
  \/ HeldSet # {} /\
       \/ \E a \in One(HeldSet) : Clone(a)
       \/ \E a \in One(HeldSet) : DropHandle(a)
       \/ \E a \in One(HeldSet) : DropHandle(a)
       \/ \E a \in One(HeldSet) : DropHandle(a)
       \/ \E a \in One(HeldSet) : MkWeak(a)
       \/ \E a \in One(HeldSet), b \in One(HeldSet) : Link(a, b)
       \/ \E a \in One(HeldSet), b \in One(HeldSet) : Link(a, b)
       \/ \E a \in One(HeldSet), b \in One(HeldSet) : Link(b, a)
       \/ \E a \in One(HeldSet) : Link(a, a)
       \/ \E a \in One(HeldSet), t \in One(nodes) : Arm(a, t)
       \/ \E k \in One(HeldSet), v \in One(HeldSet), h \in One(HeldSet \cup {0}) : MkEph(k, v, h)
       \/ \E k \in One(HeldSet), v \in One(HeldSet) : MkEph(k, v, 0)
       \/ \E h \in One(HeldSet \cup {0}) : MkWm(h)
       \/ Maps # {} /\ \E m \in One(Maps), k \in One(HeldSet), v \in One(HeldSet) : WmInsert(m, k, v)
       \/ Maps # {} /\ \E m \in One(Maps), k \in One(HeldSet) : WmRemove(m, k)
       \/ Maps # {} /\ \E m \in One(Maps), k \in One(HeldSet) : WmGet(m, k)
  \/ FromHeld # {} /\
       \/ \E p \in One(FromHeld) : Unlink(p[1], p[2])
       \/ \E p \in One(FromHeld) : Load(p[1], p[2])
       \/ \E p \in One(FromHeld) : Arm(p[1], p[2])
  \/ Rows("weak") # {} /\
       \/ \E x \in One(Rows("weak")) : Upgrade(x)
       \/ \E x \in One(Rows("weak")) : DropWeak(x)
  \/ Rows("eph") # {} /\
       \/ \E x \in One(Rows("eph")) : EphValue(x)
       \/ \E x \in One(Rows("eph")) : DropEph(x)
  \/ \E m \in DOMAIN MB : DropWm(m) /\ RandomElement(1..4) = 1

HRec == IF obs'.op = "collect" THEN obs' @@ [eb |-> ist'[1], wmb |-> ist'[2]] ELSE obs'

SimInit == Init /\ hist = <<>>
SimNext ==
  /\ \/ Len(hist) < MaxOps /\ (SimMutate \/ StartCollect)
     \/ CollectStep
  /\ hist' = IF gc'.phase = "idle" THEN Append(hist, HRec) ELSE hist
SimSpec == SimInit /\ [][SimNext]_simvars

Emit == (Len(hist) = MaxOps /\ Idle) => PrintT(<<"REPLAY", ToJson(hist)>>)
=============================================================================
