------------------------------ MODULE MCGcSim -------------------------------
(***************************************************************************)
(* Seeded long histories over GcImpl for `tlc -simulate`: the parameters   *)
(* of every mutator operation are drawn with RandomElement, so that a step *)
(* has a couple of dozen successors instead of |nodes|^3; TLC picks one of *)
(* them uniformly.  Handle drops and links appear several times to keep    *)
(* graphs dense and objects dying.  Emission as in MCGcImpl.                *)
(***************************************************************************)
EXTENDS GcImpl, Json

CONSTANTS MaxOps,
          GDrop, GOther, GCollect   \* offer probabilities (percent) of handle drops, secondary operations, collect

VARIABLE hist
simvars == <<vars, hist>>

HeldSet   == {n \in nodes : H[n] > 0}
FromHeld  == {p \in DOMAIN E : H[p[1]] > 0}
Rows(kd)  == {x \in DOMAIN EB : EB[x].kind = kd /\ Acc(x)}
Maps      == {m \in DOMAIN MB : MapOK(m)}
One(S)    == {RandomElement(S)}

\* thinning: an operation class is offered in a step with probability g/100 (TLC then picks uniformly among the offers)
G(g) == g >= 100 \/ RandomElement(1..100) <= g

SimMutate ==
  LET hs  == HeldSet
      hs0 == hs \cup {0}
      fh  == FromHeld
      wk  == Rows("weak")
      ep  == Rows("eph")
      mp  == Maps
  IN
  \/ Alloc
  \/ hs # {} /\
       \/ G(GOther) /\ \E a \in One(hs) : Clone(a)
       \/ G(GDrop)  /\ \E a \in One(hs) : DropHandle(a)
       \/ G(GDrop)  /\ \E a \in One(hs) : DropHandle(a)
       \/ G(GOther) /\ \E a \in One(hs) : MkWeak(a)
       \/ \E a \in One(hs), b \in One(hs) : Link(a, b)
       \/ \E a \in One(hs), b \in One(hs) : Link(b, a)
       \/ G(GOther) /\ \E a \in One(hs) : Link(a, a)
       \/ G(GOther) /\ \E a \in One(hs), t \in One(nodes) : Arm(a, t)
       \/ \E k \in One(hs), v \in One(hs), h \in One(hs0) : MkEph(k, v, h, {})
       \/ G(GOther) /\ \E k \in One(hs), v \in One(hs) : MkEph(k, v, 0, {})
       \/ G(GOther) /\ \E k \in One(hs), v \in One(hs0), h \in One(hs0), ws \in One(SUBSET MutBoxes) : MkEph(k, v, h, ws)
       \/ G(GOther) /\ \E h \in One(hs0) : MkWm(h)
       \/ mp # {} /\ \E m \in One(mp), k \in One(hs), v \in One(hs) : WmInsert(m, k, v)
       \/ G(GOther) /\ mp # {} /\ \E m \in One(mp), k \in One(hs) : WmRemove(m, k)
       \/ G(GOther) /\ mp # {} /\ \E m \in One(mp), k \in One(hs) : WmGet(m, k)
  \/ fh # {} /\
       \/ G(GOther) /\ \E p \in One(fh) : Unlink(p[1], p[2])
       \/ G(GOther) /\ \E p \in One(fh) : Load(p[1], p[2])
       \/ G(GOther) /\ \E p \in One(fh) : Arm(p[1], p[2])
  \/ wk # {} /\
       \/ G(GOther) /\ \E x \in One(wk) : Upgrade(x)
       \/ G(GOther) /\ \E x \in One(wk) : DropWeak(x)
  \/ ep # {} /\
       \/ G(GOther) /\ \E x \in One(ep) : EphValue(x)
       \/ G(GOther) /\ \E x \in One(ep) : DropEph(x)
  \/ G(GOther) /\ \E m \in DOMAIN MB : DropWm(m) /\ RandomElement(1..4) = 1

HRec == IF obs'.op = "collect" THEN obs' @@ [eb |-> ist'[1], wmb |-> ist'[2]] ELSE obs'

SimInit == Init /\ hist = <<>>
SimNext ==
  /\ \/ Len(hist) < MaxOps /\ (SimMutate \/ (G(GCollect) /\ StartCollect))
     \/ CollectStep
  /\ hist' = IF gc'.phase = "idle" THEN Append(hist, HRec) ELSE hist
SimSpec == SimInit /\ [][SimNext]_simvars

Emit == (Len(hist) = MaxOps /\ Idle) => PrintT(<<"REPLAY", ToJson(hist)>>)
=============================================================================
