CONSTANTS
  MaxN = 3
  MaxH = 2
  MaxE = 2
  MaxP = 2
  MaxM = 1
  AllowArm = TRUE
  Patched = TRUE
  MaxOps = 6
  Mode = "edge"
SPECIFICATION MCSpec
VIEW EdgeView
CHECK_DEADLOCK FALSE
